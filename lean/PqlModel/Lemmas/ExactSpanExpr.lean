/-
C13 exactness, spans (part 2, expressions): on tokens that lie inside the source, every
expression the parser builds has only spans inside the source, and is nil or has a valid span.
-/
import PqlModel.Lemmas.ExactSpanArith
import PqlModel.Lemmas.SplitBasic
namespace Pql.Exact
open Pql

mutual
/-- every span stored below the expression is invalid or ends inside the source -/
def EB (N : Nat) : Expr → Prop
  | .nil => True
  | .qident parts => ∀ p ∈ parts, SpB N p.span
  | .lit sp _ _ => SpB N sp
  | .unary os _ x => SpB N os ∧ EB N x
  | .binary x os _ y => EB N x ∧ SpB N os ∧ EB N y
  | .inE x i lp vals rp => EB N x ∧ SpB N i ∧ SpB N lp ∧ EBL N vals ∧ SpB N rp
  | .paren lp x rp => SpB N lp ∧ EB N x ∧ SpB N rp
  | .call fn lp args rp => SpB N fn.span ∧ SpB N lp ∧ EBL N args ∧ SpB N rp
  | .index x lb idx rb => EB N x ∧ SpB N lb ∧ EB N idx ∧ SpB N rb
def EBL (N : Nat) : ExprList → Prop
  | .nil => True
  | .cons e es => EB N e ∧ EBL N es
end

mutual
theorem EB.spanOf {N : Nat} : ∀ e : Expr, EB N e → SpB N e.spanOf
  | .nil, _ => SpB.null N
  | .qident parts, h => by
    rw [Expr.spanOf]
    refine SpB.sliceSpan _ ?_
    intro s hs
    obtain ⟨p, hp, rfl⟩ := List.mem_map.1 hs
    rw [EB] at h
    exact h p hp
  | .lit sp _ _, h => by rw [EB] at h; rw [Expr.spanOf]; exact h
  | .unary os _ x, h => by
    rw [EB] at h
    rw [Expr.spanOf]
    refine SpB.unions _ ?_
    simp only [List.mem_cons, List.not_mem_nil, or_false]
    rintro s (rfl | rfl)
    · exact h.1
    · exact EB.spanOf x h.2
  | .binary x os _ y, h => by
    rw [EB] at h
    rw [Expr.spanOf]
    refine SpB.unions _ ?_
    simp only [List.mem_cons, List.not_mem_nil, or_false]
    rintro s (rfl | rfl | rfl)
    · exact EB.spanOf x h.1
    · exact h.2.1
    · exact EB.spanOf y h.2.2
  | .inE x i lp vals rp, h => by
    rw [EB] at h
    rw [Expr.spanOf]
    refine SpB.unions _ ?_
    simp only [List.mem_cons, List.not_mem_nil, or_false]
    rintro s (rfl | rfl | rfl | rfl | rfl)
    · exact EB.spanOf x h.1
    · exact h.2.1
    · exact h.2.2.1
    · exact SpB.sliceSpan _ (EBL.spansOf vals h.2.2.2.1)
    · exact h.2.2.2.2
  | .paren lp x rp, h => by
    rw [EB] at h
    rw [Expr.spanOf]
    refine SpB.unions _ ?_
    simp only [List.mem_cons, List.not_mem_nil, or_false]
    rintro s (rfl | rfl | rfl)
    · exact h.1
    · exact EB.spanOf x h.2.1
    · exact h.2.2
  | .call fn lp args rp, h => by
    rw [EB] at h
    rw [Expr.spanOf]
    refine SpB.unions _ ?_
    simp only [List.mem_cons, List.not_mem_nil, or_false]
    rintro s (rfl | rfl | rfl | rfl)
    · exact h.1
    · exact h.2.1
    · exact SpB.sliceSpan _ (EBL.spansOf args h.2.2.1)
    · exact h.2.2.2
  | .index x lb idx rb, h => by
    rw [EB] at h
    rw [Expr.spanOf]
    refine SpB.unions _ ?_
    simp only [List.mem_cons, List.not_mem_nil, or_false]
    rintro s (rfl | rfl | rfl | rfl)
    · exact EB.spanOf x h.1
    · exact h.2.1
    · exact EB.spanOf idx h.2.2.1
    · exact h.2.2.2
theorem EBL.spansOf {N : Nat} : ∀ es : ExprList, EBL N es → ∀ s ∈ es.spansOf, SpB N s
  | .nil, _ => by intro s hs; rw [ExprList.spansOf] at hs; cases hs
  | .cons e es, h => by
    rw [EBL] at h
    intro s hs
    rw [ExprList.spansOf] at hs
    rcases List.mem_cons.1 hs with rfl | hs
    · exact EB.spanOf e h.1
    · exact EBL.spansOf es h.2 s hs
end

/-- nil, or with a valid span -/
def NV (e : Expr) : Prop := e = .nil ∨ e.spanOf.isValid = true

theorem NV.nil : NV .nil := Or.inl rfl

theorem NV.lit {sp : Span} {k : TokKind} {v : Bytes} (h : sp.isValid = true) : NV (.lit sp k v) :=
  Or.inr h

theorem NV.unary {os : Span} {op : TokKind} {x : Expr} (h : os.isValid = true) : NV (.unary os op x) :=
  Or.inr (by rw [Expr.spanOf]; exact unions_valid_of_mem (s := os) (by simp) h)

theorem NV.binary {x y : Expr} {os : Span} {op : TokKind} (h : os.isValid = true) : NV (.binary x os op y) :=
  Or.inr (by rw [Expr.spanOf]; exact unions_valid_of_mem (s := os) (by simp) h)

theorem NV.inE {x : Expr} {i lp rp : Span} {vals : ExprList} (h : i.isValid = true) :
    NV (.inE x i lp vals rp) :=
  Or.inr (by rw [Expr.spanOf]; exact unions_valid_of_mem (s := i) (by simp) h)

theorem NV.paren {x : Expr} {lp rp : Span} (h : lp.isValid = true) : NV (.paren lp x rp) :=
  Or.inr (by rw [Expr.spanOf]; exact unions_valid_of_mem (s := lp) (by simp) h)

theorem NV.call {fn : Ident} {lp rp : Span} {args : ExprList} (h : fn.span.isValid = true) :
    NV (.call fn lp args rp) :=
  Or.inr (by rw [Expr.spanOf]; exact unions_valid_of_mem (s := fn.span) (by simp) h)

theorem NV.index {x idx : Expr} {lb rb : Span} (h : lb.isValid = true) : NV (.index x lb idx rb) :=
  Or.inr (by rw [Expr.spanOf]; exact unions_valid_of_mem (s := lb) (by simp) h)

theorem NV.qident {parts : List Ident} {p : Ident} (hp : p ∈ parts) (h : p.span.isValid = true) :
    NV (.qident parts) :=
  Or.inr (by
    rw [Expr.spanOf]
    exact sliceSpan_valid_of_mem (s := p.span) (List.mem_map.2 ⟨p, hp, rfl⟩) h)

theorem EBL.snoc {N : Nat} : ∀ (acc : ExprList) (x : Expr), EBL N acc → EB N x → EBL N (acc.snoc x)
  | .nil, x, _, hx => by simp only [ExprList.snoc, EBL, hx, and_self]
  | .cons e es, x, ha, hx => by
    rw [EBL] at ha
    simp only [ExprList.snoc, EBL]
    exact ⟨ha.1, EBL.snoc es x ha.2 hx⟩

theorem EBL.snocNonNil {N : Nat} {acc : ExprList} (ha : EBL N acc) :
    ∀ v : Expr, EB N v → EBL N (match v with | .nil => acc | x => acc.snoc x) := by
  intro v hv
  cases v <;> first | exact ha | exact EBL.snoc _ _ ha hv

/-! ### identifiers -/

theorem pIdent_span {N : Nat} {c : PCtx} {ts : List Token} (h : TBs N ts) :
    TBs N (pIdent c ts).rest ∧
    ∀ id, (pIdent c ts).val = some id → SpB N id.span ∧ id.span.isValid = true := by
  unfold pIdent
  split
  · next t rest =>
    split
    · refine ⟨h.tail, ?_⟩
      simp only [Option.some.injEq]
      rintro id rfl
      exact ⟨h.head.spB, h.head.valid⟩
    · exact ⟨h, by simp⟩
  · exact ⟨h, by simp⟩

theorem pQualTail_span {N : Nat} {c : PCtx} : ∀ (fuel : Nat) (parts : List Ident) (ts : List Token),
    TBs N ts → (∀ p ∈ parts, SpB N p.span ∧ p.span.isValid = true) →
    TBs N (pQualTail c fuel parts ts).rest ∧
    (∀ p ∈ (pQualTail c fuel parts ts).val, SpB N p.span ∧ p.span.isValid = true) ∧
    (parts ≠ [] → (pQualTail c fuel parts ts).val ≠ [])
  | 0, parts, ts, h, hp => by simp only [pQualTail]; exact ⟨h, hp, id⟩
  | fuel + 1, parts, ts, h, hp => by
    simp only [pQualTail]
    split
    · next t rest =>
      split
      · have hi := pIdent_span (c := c) h.tail
        generalize pIdent c rest = r at hi ⊢
        split
        · next sel hsel =>
          have := pQualTail_span (c := c) fuel (parts ++ [sel]) r.rest hi.1 (by
            intro p hp'
            rcases List.mem_append.1 hp' with hp' | hp'
            · exact hp p hp'
            · rw [List.mem_singleton.1 hp']; exact hi.2 sel hsel)
          exact ⟨this.1, this.2.1, fun _ => this.2.2 (by simp)⟩
        · exact ⟨hi.1, hp, id⟩
      · exact ⟨h, hp, id⟩
    · exact ⟨h, hp, id⟩

theorem pQualifiedIdent_span {N : Nat} {c : PCtx} {ts : List Token} (h : TBs N ts) :
    TBs N (pQualifiedIdent c ts).rest ∧
    ∀ parts, (pQualifiedIdent c ts).val = some parts → EB N (.qident parts) ∧ NV (.qident parts) := by
  simp only [pQualifiedIdent]
  have hi := pIdent_span (c := c) h
  generalize pIdent c ts = r at hi ⊢
  split
  · exact ⟨hi.1, by simp⟩
  · next id hid =>
    have hq := pQualTail_span (c := c) (r.rest.length + 1) [id] r.rest hi.1 (by
      intro p hp
      rw [List.mem_singleton.1 hp]
      exact hi.2 id hid)
    refine ⟨hq.1, ?_⟩
    simp only [Option.some.injEq]
    rintro parts rfl
    refine ⟨?_, ?_⟩
    · rw [EB]; exact fun p hp => (hq.2.1 p hp).1
    · have hne := hq.2.2 (by simp)
      generalize (pQualTail c (r.rest.length + 1) [id] r.rest).val = ps at hq hne ⊢
      cases ps with
      | nil => exact absurd rfl hne
      | cons p ps => exact NV.qident (List.mem_cons_self ..) (hq.2.1 p (List.mem_cons_self ..)).2

theorem TBs.split_fst {N : Nat} {k : TokKind} {ts : List Token} (h : TBs N ts) : TBs N (split k ts).1 := by
  have := split_append k ts
  rw [← this] at h
  exact h.of_append_left

theorem TBs.split_snd {N : Nat} {k : TokKind} {ts : List Token} (h : TBs N ts) : TBs N (split k ts).2 := by
  have := split_append k ts
  rw [← this] at h
  exact h.of_append_right


/-! ### the expression productions -/

def ROK (N : Nat) (r : PRes Expr) : Prop := TBs N r.rest ∧ EB N r.val ∧ NV r.val
def RLOK (N : Nat) (r : PRes ExprList) : Prop := TBs N r.rest ∧ EBL N r.val

structure SInv (N : Nat) (c : PCtx) (fuel : Nat) : Prop where
  expr : ∀ ts, TBs N ts → ROK N (pExpr c fuel ts)
  trail : ∀ x mp acc ts, TBs N ts → EB N x → NV x → ROK N (pTrail c fuel x mp acc ts)
  higher : ∀ y p1 acc ts, TBs N ts → EB N y → NV y → ROK N (pHigher c fuel y p1 acc ts)
  unary : ∀ ts, TBs N ts → ROK N (pUnary c fuel ts)
  primary : ∀ ts, TBs N ts → ROK N (pPrimary c fuel ts)
  inner : ∀ ts, TBs N ts → ROK N (pInner c fuel ts)
  list : ∀ ts, TBs N ts → RLOK N (pExprList c fuel ts)
  listTail : ∀ acc ts, TBs N ts → EBL N acc → RLOK N (pExprListTail c fuel acc ts)

theorem EB.nil' (N : Nat) : EB N .nil := by rw [EB]; trivial
theorem EBL.nil' (N : Nat) : EBL N .nil := by rw [EBL]; trivial

theorem sInv_zero (N : Nat) (c : PCtx) : SInv N c 0 where
  expr := fun ts h => by simp only [pExpr]; exact ⟨h, EB.nil' N, NV.nil⟩
  trail := fun x mp acc ts h hx hn => by simp only [pTrail]; exact ⟨h, hx, hn⟩
  higher := fun y p1 acc ts h hy hn => by simp only [pHigher]; exact ⟨h, hy, hn⟩
  unary := fun ts h => by simp only [pUnary]; exact ⟨h, EB.nil' N, NV.nil⟩
  primary := fun ts h => by simp only [pPrimary]; exact ⟨h, EB.nil' N, NV.nil⟩
  inner := fun ts h => by simp only [pInner]; exact ⟨h, EB.nil' N, NV.nil⟩
  list := fun ts h => by simp only [pExprList]; exact ⟨h, EBL.nil' N⟩
  listTail := fun acc ts h ha => by simp only [pExprListTail]; exact ⟨h, ha⟩

theorem sInv_expr {N : Nat} {c : PCtx} {fuel : Nat} (ih : SInv N c fuel) (ts : List Token) (h : TBs N ts) :
    ROK N (pExpr c (fuel + 1) ts) := by
  simp only [pExpr]
  have hu := ih.unary ts h
  split
  · exact hu
  · exact ih.trail _ _ _ _ hu.1 hu.2.1 hu.2.2

theorem sInv_unary {N : Nat} {c : PCtx} {fuel : Nat} (ih : SInv N c fuel) (ts : List Token) (h : TBs N ts) :
    ROK N (pUnary c (fuel + 1) ts) := by
  simp only [pUnary]
  split
  · exact ⟨TBs.nil N, EB.nil' N, NV.nil⟩
  · next t rest =>
    split
    · have hp := ih.primary rest h.tail
      refine ⟨hp.1, ?_, NV.unary h.head.valid⟩
      rw [EB]; exact ⟨h.head.spB, hp.2.1⟩
    · exact ih.primary _ h

theorem sInv_primary {N : Nat} {c : PCtx} {fuel : Nat} (ih : SInv N c fuel) (ts : List Token) (h : TBs N ts) :
    ROK N (pPrimary c (fuel + 1) ts) := by
  simp only [pPrimary]
  have hi := ih.inner ts h
  generalize pInner c fuel ts = r at hi ⊢
  split
  · exact hi
  · split
    · exact ⟨TBs.nil N, hi.2.1, hi.2.2⟩
    · next t rest hrest =>
      have hr : TBs N (t :: rest) := hrest ▸ hi.1
      split
      · have he := ih.expr (split .rbracket rest).1 hr.tail.split_fst
        have h2 : TBs N (split .rbracket rest).2 := hr.tail.split_snd
        split
        · refine ⟨TBs.nil N, ?_, NV.index hr.head.valid⟩
          rw [EB]; exact ⟨hi.2.1, hr.head.spB, he.2.1, SpB.zero N⟩
        · next rb rest2 hsp =>
          rw [hsp] at h2
          split
          · refine ⟨h2.tail, ?_, NV.index hr.head.valid⟩
            rw [EB]; exact ⟨hi.2.1, hr.head.spB, he.2.1, h2.head.spB⟩
          · refine ⟨h2.tail, ?_, NV.index hr.head.valid⟩
            rw [EB]; exact ⟨hi.2.1, hr.head.spB, he.2.1, SpB.zero N⟩
      · exact ⟨hrest ▸ hi.1, hi.2.1, hi.2.2⟩

theorem sInv_inner {N : Nat} {c : PCtx} {fuel : Nat} (ih : SInv N c fuel) (ts : List Token) (h : TBs N ts) :
    ROK N (pInner c (fuel + 1) ts) := by
  simp only [pInner]
  split
  · exact ⟨TBs.nil N, EB.nil' N, NV.nil⟩
  · next t rest =>
    have hq := pQualifiedIdent_span (c := c) h
    generalize pQualifiedIdent c (t :: rest) = q at hq ⊢
    split
    · refine ⟨h.tail, ?_, NV.lit h.head.valid⟩
      rw [EB]; exact h.head.spB
    · split
      · split
        · exact ⟨hq.1, EB.nil' N, NV.nil⟩
        · next parts hparts =>
          have hp := hq.2 parts hparts
          split
          · exact ⟨hq.1, hp.1, hp.2⟩
          · split
            · exact ⟨hq.1, hp.1, hp.2⟩
            · split
              · exact ⟨TBs.nil N, hp.1, hp.2⟩
              · next lp rest2 hr =>
                have hr' : TBs N (lp :: rest2) := hr ▸ hq.1
                split
                · exact ⟨hr ▸ hq.1, hp.1, hp.2⟩
                · have hl := ih.list (split .rparen rest2).1 hr'.tail.split_fst
                  have h2 : TBs N (split .rparen rest2).2 := hr'.tail.split_snd
                  have hfn : (⟨t.value, t.span, false⟩ : Ident).span.isValid = true := h.head.valid
                  split
                  · refine ⟨TBs.nil N, ?_, NV.call hfn⟩
                    rw [EB]; exact ⟨h.head.spB, hr'.head.spB, hl.2, SpB.null N⟩
                  · next rp rest3 hsp =>
                    rw [hsp] at h2
                    split
                    · refine ⟨h2.tail, ?_, NV.call hfn⟩
                      rw [EB]; exact ⟨h.head.spB, hr'.head.spB, hl.2, h2.head.spB⟩
                    · refine ⟨hsp ▸ h2, ?_, NV.call hfn⟩
                      rw [EB]; exact ⟨h.head.spB, hr'.head.spB, hl.2, SpB.null N⟩
      · split
        · split
          · exact ⟨hq.1, EB.nil' N, NV.nil⟩
          · next parts hparts =>
            have hp := hq.2 parts hparts
            exact ⟨hq.1, hp.1, hp.2⟩
        · split
          · have he := ih.expr (split .rparen rest).1 h.tail.split_fst
            have h2 : TBs N (split .rparen rest).2 := h.tail.split_snd
            split
            · refine ⟨TBs.nil N, ?_, NV.paren h.head.valid⟩
              rw [EB]; exact ⟨h.head.spB, he.2.1, SpB.null N⟩
            · next rp rest2 hsp =>
              rw [hsp] at h2
              split
              · refine ⟨h2.tail, ?_, NV.paren h.head.valid⟩
                rw [EB]; exact ⟨h.head.spB, he.2.1, h2.head.spB⟩
              · refine ⟨h2.tail, ?_, NV.paren h.head.valid⟩
                rw [EB]; exact ⟨h.head.spB, he.2.1, SpB.null N⟩
          · exact ⟨h, EB.nil' N, NV.nil⟩

theorem sInv_list {N : Nat} {c : PCtx} {fuel : Nat} (ih : SInv N c fuel) (ts : List Token) (h : TBs N ts) :
    RLOK N (pExprList c (fuel + 1) ts) := by
  simp only [pExprList]
  have he := ih.expr ts h
  split
  · exact ⟨he.1, EBL.nil' N⟩
  · exact ih.listTail _ _ he.1 (by rw [EBL]; exact ⟨he.2.1, EBL.nil' N⟩)

theorem sInv_listTail {N : Nat} {c : PCtx} {fuel : Nat} (ih : SInv N c fuel) (acc : ExprList)
    (ts : List Token) (h : TBs N ts) (ha : EBL N acc) : RLOK N (pExprListTail c (fuel + 1) acc ts) := by
  simp only [pExprListTail]
  split
  · exact ⟨TBs.nil N, ha⟩
  · next t rest =>
    split
    · exact ⟨h, ha⟩
    · have he := ih.expr rest h.tail
      split
      · exact ⟨h, ha⟩
      · have hacc := EBL.snocNonNil ha _ he.2.1
        split
        · exact ⟨he.1, hacc⟩
        · exact ih.listTail _ _ he.1 hacc

theorem sInv_higher {N : Nat} {c : PCtx} {fuel : Nat} (ih : SInv N c fuel) (y : Expr) (p1 : Int)
    (acc : Errs) (ts : List Token) (h : TBs N ts) (hy : EB N y) (hn : NV y) :
    ROK N (pHigher c (fuel + 1) y p1 acc ts) := by
  simp only [pHigher]
  split
  · exact ⟨TBs.nil N, hy, hn⟩
  · split
    · exact ⟨h, hy, hn⟩
    · have ht := ih.trail y (p1 + 1) [] _ h hy hn
      exact ih.higher _ _ _ _ ht.1 ht.2.1 ht.2.2

theorem sInv_trail {N : Nat} {c : PCtx} {fuel : Nat} (ih : SInv N c fuel) (x : Expr) (mp : Int)
    (acc : Errs) (ts : List Token) (h : TBs N ts) (hx : EB N x) (hn : NV x) :
    ROK N (pTrail c (fuel + 1) x mp acc ts) := by
  simp only [pTrail]
  split
  · exact ⟨TBs.nil N, hx, hn⟩
  · next op1 rest =>
    split
    · exact ⟨h, hx, hn⟩
    · split
      · split
        · refine ⟨TBs.nil N, ?_, NV.inE h.head.valid⟩
          rw [EB]; exact ⟨hx, h.head.spB, SpB.null N, EBL.nil' N, SpB.null N⟩
        · next lp rest2 =>
          have hr : TBs N (lp :: rest2) := h.tail
          split
          · refine ⟨hr.tail, ?_, NV.inE h.head.valid⟩
            rw [EB]; exact ⟨hx, h.head.spB, SpB.null N, EBL.nil' N, SpB.null N⟩
          · have hl := ih.list (split .rparen rest2).1 hr.tail.split_fst
            have h2 : TBs N (split .rparen rest2).2 := hr.tail.split_snd
            split
            · refine ⟨TBs.nil N, ?_, NV.inE h.head.valid⟩
              rw [EB]; exact ⟨hx, h.head.spB, hr.head.spB, hl.2, SpB.null N⟩
            · next rp rest3 hsp =>
              rw [hsp] at h2
              split
              · refine ⟨h2.tail, ?_, NV.inE h.head.valid⟩
                rw [EB]; exact ⟨hx, h.head.spB, hr.head.spB, hl.2, SpB.null N⟩
              · refine ih.trail _ _ _ _ h2.tail ?_ (NV.inE h.head.valid)
                rw [EB]; exact ⟨hx, h.head.spB, hr.head.spB, hl.2, h2.head.spB⟩
      · have hu := ih.unary rest h.tail
        have hh := ih.higher (pUnary c fuel rest).val (precOf op1.kind)
          (acc ++ mkOpaque (pUnary c fuel rest).errs) _ hu.1 hu.2.1 hu.2.2
        refine ih.trail _ _ _ _ hh.1 ?_ (NV.binary h.head.valid)
        rw [EB]; exact ⟨hx, h.head.spB, hh.2.1⟩

theorem sInv (N : Nat) (c : PCtx) : ∀ fuel, SInv N c fuel
  | 0 => sInv_zero N c
  | fuel + 1 =>
    have ih := sInv N c fuel
    { expr := sInv_expr ih
      trail := sInv_trail ih
      higher := sInv_higher ih
      unary := sInv_unary ih
      primary := sInv_primary ih
      inner := sInv_inner ih
      list := sInv_list ih
      listTail := sInv_listTail ih }

theorem pExpr_span {N : Nat} (c : PCtx) (fuel : Nat) (ts : List Token) (h : TBs N ts) :
    ROK N (pExpr c fuel ts) := (sInv N c fuel).expr ts h
end Pql.Exact
