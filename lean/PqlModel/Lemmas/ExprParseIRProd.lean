/-
`ExprParseIR`, the productions: the agreement relation between the interpretation of a regenerated unit and
the model's production at the same fuel, the induction hypothesis (`Level`), and the straight-line
productions `unaryExpr`, `expr`, `primaryExpr`.
-/
import PqlModel.Lemmas.ExprParseIRSplit
import PqlModel.Lemmas.ParseFuelLen
namespace Pql.ExprParseIR
open Pql
set_option linter.unusedSimpArgs false
set_option maxRecDepth 8000

/-- the interpretation of a unit agrees with a model production: it returns the model's value and
    errors and leaves the model's rest (nothing to go back to, sub-parser kind unchanged) — or it runs out
    of budget, and then the budget was below `bound` (`4 * tokens + rank`, the very bound under which the
    model's own fuel suffices, Lemmas/ParseFuelExpr.lean) -/
def AgreeE (bound : Prop) (o : Out (List Val × PState)) (r : PRes Expr) (sk : Option TokKind) : Prop :=
  (¬ bound ∧ o = .fuel) ∨ o = .ok ([.expr r.val, .err r.errs], ⟨r.rest, none, sk⟩)

def AgreeL (bound : Prop) (o : Out (List Val × PState)) (r : PRes ExprList) (sk : Option TokKind) : Prop :=
  (¬ bound ∧ o = .fuel) ∨ o = .ok ([.exprs r.val, .err r.errs], ⟨r.rest, none, sk⟩)

/-- close the "out of budget, so the bound fails" side of an agreement -/
macro "bound_omega" : tactic => `(tactic| ((try simp only [List.length_cons] at *) <;> omega))

/-- all productions agree at fuel `F` -/
structure Level (c : ICtx) (F : Nat) : Prop where
  inner : ∀ ts sk, AgreeE (4 * ts.length + 1 ≤ F) (runUnit c F "innerPrimaryExpr" [] ⟨ts, none, sk⟩) (pInner c.pctx F ts) sk
  primary : ∀ ts sk, AgreeE (4 * ts.length + 2 ≤ F) (runUnit c F "primaryExpr" [] ⟨ts, none, sk⟩) (pPrimary c.pctx F ts) sk
  unary : ∀ ts sk, AgreeE (4 * ts.length + 3 ≤ F) (runUnit c F "unaryExpr" [] ⟨ts, none, sk⟩) (pUnary c.pctx F ts) sk
  trail : ∀ x m ts sk,
    AgreeE (4 * ts.length + 1 ≤ F) (runUnit c F "exprBinaryTrail" [.expr x, .int m] ⟨ts, none, sk⟩)
      (pTrail c.pctx F x m [] ts) sk
  expr : ∀ ts sk, AgreeE (4 * ts.length + 4 ≤ F) (runUnit c F "expr" [] ⟨ts, none, sk⟩) (pExpr c.pctx F ts) sk
  exprList : ∀ ts sk, AgreeL (4 * ts.length + 5 ≤ F) (runUnit c F "exprList" [] ⟨ts, none, sk⟩) (pExprList c.pctx F ts) sk

theorem runUnit_zero (c : ICtx) (fn : String) (args : List Val) (p : PState) : runUnit c 0 fn args p = .fuel := by
  rw [runUnit]

theorem level_zero (c : ICtx) : Level c 0 := by
  constructor <;> intros <;> exact Or.inl ⟨by omega, runUnit_zero _ _ _ _⟩

/-! ### calls -/

section
variable (c : ICtx) (self : Nat → String → List Val → PState → Out (List Val × PState)) (b : Nat) (p : PState)

theorem call_ident : (prodSem c self).call b "ident" [] p = runIdent c p := by rfl
theorem call_qualifiedIdent : (prodSem c self).call b "qualifiedIdent" [] p = runQualifiedIdent c p := by rfl
theorem call_split (k : TokKind) : (prodSem c self).call b "split" [.kind k] p = runSplit c p k := by rfl
theorem call_inner (a : List Val) : (prodSem c self).call b "innerPrimaryExpr" a p = self b "innerPrimaryExpr" a p := by rfl
theorem call_primary (a : List Val) : (prodSem c self).call b "primaryExpr" a p = self b "primaryExpr" a p := by rfl
theorem call_unary (a : List Val) : (prodSem c self).call b "unaryExpr" a p = self b "unaryExpr" a p := by rfl
theorem call_trail (a : List Val) : (prodSem c self).call b "exprBinaryTrail" a p = self b "exprBinaryTrail" a p := by rfl
theorem call_expr (a : List Val) : (prodSem c self).call b "expr" a p = self b "expr" a p := by rfl
theorem call_exprList (a : List Val) : (prodSem c self).call b "exprList" a p = self b "exprList" a p := by rfl
end

theorem loopFn_unary : loopFn unaryIR = false := by rfl
theorem loopFn_expr : loopFn exprIR = false := by rfl
theorem loopFn_primary : loopFn primaryIR = false := by rfl
theorem loopFn_inner : loopFn innerIR = false := by rfl
theorem loopFn_exprList : loopFn exprListIR = false := by rfl
theorem loopFn_trail : loopFn trailIR = true := by rfl

theorem pctx_srcLen (c : ICtx) : c.pctx.srcLen = c.srcLen := rfl

/-- evaluate a production body -/
syntax "prod_simp" (" [" Lean.Parser.Tactic.simpLemma,* "]")? : tactic
macro_rules
  | `(tactic| prod_simp) => `(tactic| prod_simp [])
  | `(tactic| prod_simp [$ls,*]) =>
    `(tactic| ir_simp [call_ident, call_qualifiedIdent, call_split, call_inner, call_primary, call_unary, call_trail,
        call_expr, call_exprList, Nat.min_self, nextTokV, pctx_srcLen, PCtx.eof, Span.index, Token.span, AgreeE, AgreeL,
        $ls,*])

/-! ### `unaryExpr` -/

theorem unary_step (c : ICtx) (F : Nat) (ih : Level c F) (ts : List Token) (sk : Option TokKind) :
    AgreeE (4 * ts.length + 3 ≤ F + 1) (runUnit c (F + 1) "unaryExpr" [] ⟨ts, none, sk⟩) (pUnary c.pctx (F + 1) ts) sk := by
  rw [runUnit]
  simp only [runBody, unaryIR_ir, params_unary, results_unary, loopFn_unary, Bool.false_eq_true, if_false]
  cases ts with
  | nil => prod_simp [unaryIR_ir, unaryIR, params_unary, results_unary, loopFn_unary, pUnary]
  | cons t rest =>
    by_cases h : t.kind = .plus ∨ t.kind = .minus
    · rcases ih.primary rest sk with ⟨hb, hp⟩ | hp
      · rcases h with h | h <;>
          prod_simp [unaryIR_ir, unaryIR, params_unary, results_unary, loopFn_unary, pUnary, h, hp] <;> bound_omega
      · rcases h with h | h <;>
          prod_simp [unaryIR_ir, unaryIR, params_unary, results_unary, loopFn_unary, pUnary, h, hp]
    · have h1 : ¬ t.kind = .plus := fun x => h (Or.inl x)
      have h2 : ¬ t.kind = .minus := fun x => h (Or.inr x)
      rcases ih.primary (t :: rest) sk with ⟨hb, hp⟩ | hp
      · prod_simp [unaryIR_ir, unaryIR, params_unary, results_unary, loopFn_unary, pUnary, h1, h2, hp]
        bound_omega
      · prod_simp [unaryIR_ir, unaryIR, params_unary, results_unary, loopFn_unary, pUnary, h1, h2, hp]

/-! ### `expr` -/

theorem expr_step (c : ICtx) (F : Nat) (ih : Level c F) (ts : List Token) (sk : Option TokKind) :
    AgreeE (4 * ts.length + 4 ≤ F + 1) (runUnit c (F + 1) "expr" [] ⟨ts, none, sk⟩) (pExpr c.pctx (F + 1) ts) sk := by
  rw [runUnit]
  simp only [runBody, exprIR_ir, params_expr, results_expr, loopFn_expr, Bool.false_eq_true, if_false]
  rw [pExpr]
  have hl := (exprLen c.pctx F).unary ts
  rcases ih.unary ts sk with ⟨hb, hu⟩ | hu
  · prod_simp [exprIR, hu]
    bound_omega
  · generalize pUnary c.pctx F ts = r1 at hu hl ⊢
    by_cases hnf : isNF r1.errs = true
    · prod_simp [exprIR, hu, hnf]
    · rcases ih.trail r1.val 0 r1.rest sk with ⟨hb, ht⟩ | ht
      · prod_simp [exprIR, hu, hnf, ht]
        bound_omega
      · prod_simp [exprIR, hu, hnf, ht]

/-! ### `primaryExpr` -/

/-- the body of the `for` of `primaryExpr`: every path returns, so it cannot iterate -/
def primaryLoopBody : List Stmt :=
  [.assign true [.var "tok", .var "ok"] (.pcall "p" "next" []),
   .ite (.not (.var "ok")) [.ret [.var "x", .nil]] [],
   .ite
     (.cmp "eq" (.field (.var "tok") "Kind") (.kind "TokenLBracket"))
     [.assign true [.var "idx"] (.e (.new "IndexExpr" ["X", "Lbrack"] [.var "x", .field (.var "tok") "Span"])),
      .assign true [.var "indexParser"] (.pcall "p" "split" [.kind "TokenRBracket"]),
      .decl "err" "error",
      .assign false [.field "idx" "Index", .var "err"] (.pcall "indexParser" "expr" []),
      .assign false [.var "err"] (.e (.call "makeErrorOpaque" [.var "err"])),
      .assign false [.var "err"] (.e (.call "joinErrors" [.var "err", .mcall "endSplit" (.var "indexParser")])),
      .block
        [.assign true [.var "tok", .blank] (.pcall "p" "next" []),
         .ite
           (.cmp "eq" (.field (.var "tok") "Kind") (.kind "TokenRBracket"))
           [.assign false [.field "idx" "Rbrack"] (.e (.field (.var "tok") "Span"))]
           [.assign false [.var "err"] (.e (.call "joinErrors" [.var "err", .perr false (.field (.var "tok") "Span")]))]],
      .ret [.var "idx", .var "err"]]
     [.do_ (.pcall "p" "prev" []), .ret [.var "x", .nil]]]

theorem primaryIR_loop :
    primaryIR =
      [.assign true [.var "x", .var "err"] (.pcall "p" "innerPrimaryExpr" []),
       .ite (.cmp "ne" (.var "err") (.nil)) [.ret [.var "x", .var "err"]] [],
       .loop "" (.bool true) primaryLoopBody] := rfl

/-- **a finding of the translation**: the `for` of `primaryExpr` never iterates -/
theorem primaryLoop_leaves : leaves primaryLoopBody = true := by rfl

theorem primary_step (c : ICtx) (F : Nat) (ih : Level c F) (ts : List Token) (sk : Option TokKind) :
    AgreeE (4 * ts.length + 2 ≤ F + 1) (runUnit c (F + 1) "primaryExpr" [] ⟨ts, none, sk⟩) (pPrimary c.pctx (F + 1) ts) sk := by
  rw [runUnit]
  simp only [runBody, primaryIR_ir, params_primary, results_primary, loopFn_primary, Bool.false_eq_true, if_false]
  rw [pPrimary]
  have hl := (exprLen c.pctx F).inner ts
  rcases ih.inner ts sk with ⟨hb, hi⟩ | hi
  · prod_simp [primaryIR_loop, hi]
    bound_omega
  · generalize pInner c.pctx F ts = r at hi hl ⊢
    obtain ⟨rv, re, rr⟩ := r
    by_cases he : re = []
    · subst he
      prod_simp [primaryIR_loop, hi, primaryLoop_leaves]
      cases rr with
      | nil => prod_simp [primaryLoopBody]
      | cons t rest =>
        by_cases hb : t.kind = .lbracket
        · have hsp := split_ir c ⟨rest, none, sk⟩ .rbracket ⟨by decide, by decide⟩
          simp only [] at hsp
          have hs := split_fst_le .rbracket rest
          prod_simp [primaryLoopBody, hb]
          generalize split .rbracket rest = sp at hsp hs ⊢
          obtain ⟨s1, s2⟩ := sp
          rcases ih.expr s1 (some .rbracket) with ⟨hbx, hx⟩ | hx
          · prod_simp [primaryLoopBody, hb, hsp, hx]
            bound_omega
          · generalize pExpr c.pctx F s1 = ri at hx ⊢
            cases s2 with
            | nil => prod_simp [primaryLoopBody, hb, hsp, hx, endSplitP, Span.zero]
            | cons rb rest2 =>
              by_cases hrb : rb.kind = .rbracket
              · prod_simp [primaryLoopBody, hb, hsp, hx, endSplitP, hrb]
              · prod_simp [primaryLoopBody, hb, hsp, hx, endSplitP, hrb, Span.zero]
        · prod_simp [primaryLoopBody, hb]
    · prod_simp [primaryIR_loop, hi, he]

end Pql.ExprParseIR
