/-
Symbolic execution of the small translated functions: parser/span.go `newSpan`, `indexSpan`,
`Span.IsValid`, `spanString`, the cursor `next` / `prev` / `setPos`, `normalizeNumberValue`.
Each lemma is about the expected tree (Lemmas/LexIRDecls.lean) interpreted in ANY environment that
has the callees with their specified behaviour; `Spec…` predicates say what a callee does.
-/
import PqlModel.Lemmas.LexIRDecls
import PqlModel.Lemmas.DispatchRune
import PqlModel.Lemmas.LexNumber
namespace Pql.LexIR
open Pql
set_option linter.unusedSimpArgs false
set_option linter.unusedVariables false

/-- symbolic execution of the interpreter by `simp` (without unfolding `sliceVal`) -/
syntax "lx_simp_ns" (" [" Lean.Parser.Tactic.simpLemma,* "]")? : tactic
macro_rules
  | `(tactic| lx_simp_ns) => `(tactic| lx_simp_ns [])
  | `(tactic| lx_simp_ns [$ls,*]) =>
    `(tactic| simp [interpFn, paramNames, isNamed, bindArgs, zeroResults, zeroVal, storeResults, runDefers, readResults,
        execBlock, exec, eval, evalArgs, evalCall, getVar, State.declare, State.assign, State.leave, assignIn,
        fldOf, valEq, binVal, lenVal, boundOf, single, stuck, goPanic, bind, Except.bind, pure, Except.pure,
        Except.map, eS, ePos, eSrc, eNext, sPrev, cIs, cIsNot, notOk, notDigit, notHex, spanHere, tokHere,
        setNext, defNext, retFalseIfNotOk, $ls,*])

syntax "lx_simp" (" [" Lean.Parser.Tactic.simpLemma,* "]")? : tactic
macro_rules
  | `(tactic| lx_simp) => `(tactic| lx_simp_ns [sliceVal])
  | `(tactic| lx_simp [$ls,*]) => `(tactic| lx_simp_ns [sliceVal, $ls,*])

theorem ofString_empty : Bytes.ofString "" = [] := by decide
theorem ofString_zero : Bytes.ofString "0" = [48] := by decide
theorem ofString_dotEe : Bytes.ofString ".eE" = [46, 101, 69] := by decide
theorem kind_number : TokKind.ofGoName "TokenNumber" = some .number := by decide
theorem kind_dot : TokKind.ofGoName "TokenDot" = some .dot := by decide
theorem kind_error : TokKind.ofGoName "TokenError" = some .error := by decide
theorem kind_semi : TokKind.ofGoName "TokenSemi" = some .semi := by decide

theorem beq_dec (a b : UInt8) : (a == b) = decide (a = b) := by
  by_cases h : a = b <;> simp [h]

/-! ### environments -/

theorem extend_self (env : Env) (k : String) (f : Fn) : extend env k f k = some f := by simp [extend]
theorem extend_other (env : Env) (k n : String) (f : Fn) (h : n ≠ k) : extend env k f n = env n := by
  simp [extend, h]

/-- a name that is not among the added keys keeps its meaning -/
theorem layer_other (tbl : List (String × List (List String))) (fuel : Nat) (n : String) :
    ∀ (keys : List String) (env : Env), n ∉ keys → layer tbl fuel keys env n = env n
  | [], _, _ => rfl
  | k :: ks, env, h => by
    rw [layer, layer_other tbl fuel n ks _ (fun hm => h (List.mem_cons_of_mem _ hm))]
    exact extend_other _ _ _ _ (fun e => h (e ▸ List.mem_cons_self))

/-- `env` has the library primitive `name` -/
def HasPrim (lib : Lib) (env : Env) (name : String) : Prop := env name = prims lib name

/-! ### specifications of the callees -/

def SpecNewSpan (f : Fn) : Prop := ∀ a b h, f [.int a, .int b] h = .ok ([.span a b], h)
def SpecIndexSpan (f : Fn) : Prop := ∀ a h, f [.int a] h = .ok ([.span a a], h)
def SpecIsValid (f : Fn) : Prop := ∀ a b h, f [.span a b] h = .ok ([.bool (decide (a ≤ b))], h)
/-- `spanString(s, span)`: the empty string for an invalid span, a panic for a span that ends after the string -/
def SpecSpanString (f : Fn) : Prop := ∀ s a b h, a ≤ b → b ≤ s.length →
  f [.str s, .span a b] h = .ok ([.str ((s.drop a).take (b - a))], h)
def SpecPrev (f : Fn) : Prop := ∀ h, f [.scanner] h = .ok ([], { h with pos := h.last })
def SpecSetPos (f : Fn) : Prop := ∀ n h, f [.scanner, .int n] h = .ok ([], { h with pos := n, last := n })
/-- `s.next()`: at the end (0, false); else the rune at the cursor, the cursor after it, `last` before it -/
def SpecNext (f : Fn) : Prop := ∀ h : Heap,
  f [.scanner] h = .ok (if h.src.length ≤ h.pos then ([.int 0, .bool false], h)
    else ([.int (decodeRune (h.src.drop h.pos)).1, .bool true],
      ⟨h.src, h.pos + (decodeRune (h.src.drop h.pos)).2, h.pos⟩))
def SpecNormalize (f : Fn) : Prop := ∀ s h, f [.str s] h = .ok ([.str (normalizeNumber s)], h)

/-! ### parser/span.go -/

theorem newSpan_spec (env : Env) (fuel : Nat) : SpecNewSpan (interpFn env fuel newSpanDecl) := by
  intro a b h
  unfold newSpanDecl
  lx_simp

theorem indexSpan_spec (env : Env) (fuel : Nat) : SpecIndexSpan (interpFn env fuel indexSpanDecl) := by
  intro a h
  unfold indexSpanDecl
  lx_simp

theorem spanIsValid_spec (env : Env) (fuel : Nat) : SpecIsValid (interpFn env fuel spanIsValidDecl) := by
  intro a b h
  unfold spanIsValidDecl
  lx_simp

theorem spanString_spec (env : Env) (fuel : Nat) (fv : Fn) (hv : env "Span.IsValid" = some fv) (sv : SpecIsValid fv) :
    SpecSpanString (interpFn env fuel spanStringDecl) := by
  intro s a b h hab hb
  unfold spanStringDecl
  lx_simp [hv, sv a b h, hab, hb]

/-- an invalid span (end before start) gives the empty string -/
theorem spanString_invalid (env : Env) (fuel : Nat) (fv : Fn) (hv : env "Span.IsValid" = some fv) (sv : SpecIsValid fv)
    (s : Bytes) (a b : Nat) (h : Heap) (hab : b < a) :
    interpFn env fuel spanStringDecl [.str s, .span a b] h = .ok ([.str []], h) := by
  unfold spanStringDecl
  have : ¬ a ≤ b := by omega
  lx_simp [hv, sv a b h, this, ofString_empty]

/-- a span that ends after the string makes `spanString` panic (Go: slice bounds out of range) -/
theorem spanString_panics (env : Env) (fuel : Nat) (fv : Fn) (hv : env "Span.IsValid" = some fv) (sv : SpecIsValid fv)
    (s : Bytes) (a b : Nat) (h : Heap) (hab : a ≤ b) (hb : s.length < b) :
    interpFn env fuel spanStringDecl [.str s, .span a b] h = .error .panic := by
  unfold spanStringDecl
  have : ¬ b ≤ s.length := by omega
  lx_simp [hv, sv a b h, hab, this]

/-! ### the cursor -/

theorem prev_spec (env : Env) (fuel : Nat) : SpecPrev (interpFn env fuel prevDecl) := by
  intro h
  unfold prevDecl
  lx_simp

theorem setPos_spec (env : Env) (fuel : Nat) : SpecSetPos (interpFn env fuel setPosDecl) := by
  intro n h
  unfold setPosDecl
  lx_simp

theorem next_spec (lib : Lib) (env : Env) (fuel : Nat) (hd : HasPrim lib env "utf8.DecodeRuneInString") :
    SpecNext (interpFn env fuel nextDecl) := by
  intro h
  unfold nextDecl
  unfold HasPrim at hd
  by_cases hp : h.src.length ≤ h.pos
  · lx_simp [hp]
  · have h2 : h.pos ≤ h.src.length := by omega
    have h3 : List.take (h.src.length - h.pos) (List.drop h.pos h.src) = List.drop h.pos h.src :=
      List.take_of_length_le (by simp)
    lx_simp [hp, hd, prims, h2, h3]

/-! ### normalizeNumberValue -/

theorem dropWhile_zero (s : Bytes) : s.dropWhile (fun x => decide (x = 48)) = trimLeftZeros s := by
  induction s with
  | nil => rfl
  | cons c s ih =>
    by_cases hc : c = 48
    · subst hc
      simp [List.dropWhile_cons, trimLeftZeros, ih]
    · simp [List.dropWhile_cons, trimLeftZeros, hc]

theorem toNat_eq_iff (c : UInt8) (k : Nat) (hk : k < 256) : (c.toNat = k) ↔ c = UInt8.ofNat k := by
  constructor
  · intro e; apply UInt8.toNat_inj.mp; rw [e]; simp; omega
  · intro e; subst e; simp; omega

theorem normalize_spec (lib : Lib) (env : Env) (fuel : Nat) (hd : HasPrim lib env "strings.TrimLeft") :
    SpecNormalize (interpFn env fuel normalizeDecl) := by
  intro s h
  unfold normalizeDecl normalizeNumber
  unfold HasPrim at hd
  have hz := dropWhile_zero s
  cases ht : trimLeftZeros s with
  | nil => lx_simp [hd, prims, ofString_zero, ofString_empty, isAsciiSet, hz, ht, s0Is]
  | cons c rest =>
    have e46 : (c.toNat = 46) ↔ c = 46 := toNat_eq_iff c 46 (by omega)
    have e101 : (c.toNat = 101) ↔ c = 101 := toNat_eq_iff c 101 (by omega)
    have e69 : (c.toNat = 69) ↔ c = 69 := toNat_eq_iff c 69 (by omega)
    by_cases h1 : c = 46
    · subst h1; lx_simp [hd, prims, ofString_zero, ofString_empty, isAsciiSet, hz, ht, s0Is]
    · by_cases h2 : c = 101
      · subst h2; lx_simp [hd, prims, ofString_zero, ofString_empty, isAsciiSet, hz, ht, s0Is]
      · by_cases h3 : c = 69
        · subst h3; lx_simp [hd, prims, ofString_zero, ofString_empty, isAsciiSet, hz, ht, s0Is]
        · lx_simp [hd, prims, ofString_zero, ofString_empty, isAsciiSet, hz, ht, s0Is, e46, e101, e69, h1, h2, h3]

end Pql.LexIR
