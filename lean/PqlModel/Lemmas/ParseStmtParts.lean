/-
C05, syntactic half, stage 2 (e): the source part (table / join) and the tail part (ORDER BY,
LIMIT) of one SELECT: what `eraseSrc` / `tailOf` write is read back as `srcOfA` / `orderA`, `limitA`.
-/
import PqlModel.Lemmas.ParseStmtWrite
namespace Pql.C05
set_option linter.unusedSimpArgs false
set_option linter.unusedVariables false
open Pql Sql CompileOracle Intended Pql.RT

/-! ### which keyword may follow what -/

theorem ends_prefix {p : STok → Bool} {pre r : List STok} (h : ∀ t tl, pre = t :: tl → p t = true) (hr : Ends p r) :
    Ends p (pre ++ r) := by
  cases pre with
  | nil => exact hr
  | cons t tl => exact h t tl rfl

def K3 : List String := ["AS", "JOIN", "LEFT"]
def K5 : List String := ["AS", "JOIN", "LEFT", "WHERE", "GROUP"]

theorem end_WHERE : endTok ["AS", "JOIN", "LEFT", "GROUP", "ORDER", "LIMIT"] (RT.W "WHERE") = true := by
  simp [endTok, stopTok, unaryEndTok, atomEndTok, infixPrec]
theorem end_GROUP : endTok ["AS", "JOIN", "LEFT", "WHERE", "ORDER", "LIMIT"] (RT.W "GROUP") = true := by
  simp [endTok, stopTok, unaryEndTok, atomEndTok, infixPrec]
theorem end_ORDER : endTok ["AS", "JOIN", "LEFT", "WHERE", "GROUP", "LIMIT"] (RT.W "ORDER") = true := by
  simp [endTok, stopTok, unaryEndTok, atomEndTok, infixPrec]
theorem end_LIMIT : endTok ["AS", "JOIN", "LEFT", "WHERE", "GROUP", "ORDER"] (RT.W "LIMIT") = true := by
  simp [endTok, stopTok, unaryEndTok, atomEndTok, infixPrec]

theorem endTok_sub {ks ks' : List String} {t : STok} (h : endTok ks t = true) (hs : ∀ k ∈ ks', k ∈ ks) :
    endTok ks' t = true := by
  have := endTok_mono (r := [t]) hs h
  exact this

/-! ### the source -/

theorem toksOf_join (unique left : Bool) (l r : Bytes) (c : List Chunk) :
    toksOf ((if unique then [.txt "(SELECT DISTINCT * FROM "] else []) ++ [Chunk.qid l] ++
      (if unique then [.txt ")"] else []) ++
      [.txt (" AS \"" ++ Facts.leftJoinTableAlias ++ "\""), .txt (if left then " LEFT JOIN " else " JOIN "), .qid r,
       .txt (" AS \"" ++ Facts.rightJoinTableAlias ++ "\" ON ")] ++ c) = joinToks unique left l r (toksOf c) := by
  cases unique <;> cases left <;> simp [joinToks]

theorem src_spec (src : Bytes) (s : SrcA) (hok : srcOK s = true) (srcC : List Chunk)
    (he : eraseSrc src [] s = .ok srcC) :
    ∃ wsrc wjn, srcOfA s = some (wsrc, wjn) ∧
      ∀ r, Ends (endTok K3) r →
        ∃ jn r3, pTableRef (toksOf srcC ++ r) = some (wsrc, r3) ∧ joinPart r3 = some (jn, r) ∧ OptRel JoinRel jn wjn := by
  cases s with
  | table n =>
    simp only [eraseSrc, Except.ok.injEq] at he
    subst he
    refine ⟨.named n none, none, rfl, fun r hr => ⟨none, r, ?_, ?_, .none⟩⟩
    · simpa using pTableRef_named n (endTok_mono (by simp [K3]) hr)
    · exact joinPart_none (endTok_mono (by simp [K3]) hr)
  | join unique left l r cond =>
    simp only [srcOK] at hok
    simp only [eraseSrc] at he
    cases hc : writeExpr ⟨src, [], .join⟩ cond with
    | error e => rw [hc] at he; cases he
    | ok c =>
      rw [hc] at he
      simp only [bind, Except.bind, pure, Except.pure, Except.ok.injEq] at he
      subst he
      obtain ⟨want, ht, hP⟩ := exprP_join hok hc
      refine ⟨_, _, by simp only [srcOfA, ht, Option.bind_eq_bind, Option.bind_some]; rfl, fun rest hr => ?_⟩
      obtain ⟨c', hc', r3, h1, h2⟩ := join_parse unique left l r hP (endTok_stop hr) (rest := rest)
      rw [toksOf_join]
      refine ⟨_, r3, ?_, h2, .some ⟨rfl, rfl, hc'⟩⟩
      rw [h1]
      rfl

/-! ### ORDER BY / LIMIT -/

theorem sortTerms_spec (src : Bytes) : ∀ (terms : List SortTerm) (ts : List (List Chunk)),
    (terms.all fun t => exprOK t.x) = true → writeSortTerms ⟨src, [], .default⟩ terms = .ok ts →
    ∃ wob, terms.mapM orderOf = some wob ∧ ListRel OrdP (ts.map toksOf) wob
  | [], ts, _, h => by
    simp only [writeSortTerms, Except.ok.injEq] at h
    subst h
    exact ⟨[], rfl, .nil⟩
  | t :: terms, ts, hok, h => by
    simp only [List.all_cons, Bool.and_eq_true] at hok
    simp only [writeSortTerms] at h
    cases hx : writeExpr ⟨src, [], .default⟩ t.x with
    | error e => rw [hx] at h; cases h
    | ok x =>
      rw [hx] at h
      cases hr : writeSortTerms ⟨src, [], .default⟩ terms with
      | error e => rw [hr] at h; cases h
      | ok rest =>
        rw [hr] at h
        simp only [bind, Except.bind, pure, Except.pure, Except.ok.injEq] at h
        subst h
        obtain ⟨want, ht, hP⟩ := exprP_default hok.1 hx
        obtain ⟨wob, hwob, hrel⟩ := sortTerms_spec src terms rest hok.2 hr
        refine ⟨⟨want, t.asc, t.nullsFirst⟩ :: wob, ?_, .cons ⟨toksOf x, ?_, hP⟩ hrel⟩
        · simp only [List.mapM_cons, orderOf, ht, hwob, Option.bind_eq_bind, Option.bind_some, Option.pure_def]
        · cases t.asc <;> cases t.nullsFirst <;> simp [ordToks]

def sortPartOf (ctx : Ctx) (sort : Option (List SortTerm)) : Pql.W :=
  match sort with
  | some terms => do
    let ts ← writeSortTerms ctx terms
    pure (.txt " ORDER BY " :: sepChunks ", " ts)
  | none => pure []

def takePartOf (ctx : Ctx) (take : Option Expr) : Pql.W :=
  match take with
  | some n => do
    let x ← writeExpr ctx n
    pure (.txt " LIMIT " :: x)
  | none => pure []

theorem tailOf_eq (ctx : Ctx) (sort : Option (List SortTerm)) (take : Option Expr) (body : List Chunk) :
    tailOf ctx sort take (some body) = (do
      let sp ← sortPartOf ctx sort
      let tp ← takePartOf ctx take
      pure (body ++ sp ++ tp)) := by
  cases sort <;> cases take <;> simp only [tailOf, sortPartOf, takePartOf, bind_assoc, pure_bind]

theorem take_spec (src : Bytes) (take : Option Expr) (ht : takeOK take = true) (takePart : List Chunk)
    (htp : takePartOf ⟨src, [], .default⟩ take = .ok takePart) :
    ∃ wlim, limitA take = some wlim ∧
      (∀ t tl', toksOf takePart = t :: tl' → t = RT.W "LIMIT") ∧
      ∀ r, Closer r → ∃ lim, limitPart (toksOf takePart ++ r) = some (lim, r) ∧ OptRel NormEq lim wlim := by
  cases take with
  | none =>
    simp only [takePartOf, pure, Except.pure, Except.ok.injEq] at htp
    subst htp
    refine ⟨none, rfl, by simp, fun r hr => ⟨none, ?_, .none⟩⟩
    simpa using limitPart_none (endTok_mono (by simp [allKws]) hr.ends)
  | some n =>
    simp only [takeOK] at ht
    simp only [takePartOf] at htp
    cases hx : writeExpr ⟨src, [], .default⟩ n with
    | error e => rw [hx] at htp; cases htp
    | ok x =>
      rw [hx] at htp
      simp only [bind, Except.bind, pure, Except.pure, Except.ok.injEq] at htp
      subst htp
      obtain ⟨want, htr, hP⟩ := exprP_default ht hx
      refine ⟨some want, by simp [limitA, htr], by simp, fun r hr => ?_⟩
      obtain ⟨s, hs, hp⟩ := limitPart_some hP (endTok_stop hr.ends) (r := r)
      exact ⟨some s, by simpa using hp, .some hs⟩

theorem tail_spec (src : Bytes) (sort : Option (List SortTerm)) (take : Option Expr)
    (hs : sortOK sort = true) (ht : takeOK take = true) (body cs : List Chunk)
    (h : tailOf ⟨src, [], .default⟩ sort take (some body) = .ok cs) :
    ∃ tl wob wlim, toksOf cs = toksOf body ++ tl ∧ orderA sort = some wob ∧ limitA take = some wlim ∧
      (∀ r, Closer r → Ends (endTok K5) (tl ++ r)) ∧
      ∀ r, Closer r → ∃ ob lim r7, orderPart (tl ++ r) = some (ob, r7) ∧ limitPart r7 = some (lim, r) ∧
        ListRel OrdRel ob wob ∧ OptRel NormEq lim wlim := by
  rw [tailOf_eq] at h
  cases hsp : sortPartOf ⟨src, [], .default⟩ sort with
  | error e => rw [hsp] at h; cases h
  | ok sp =>
  cases htp : takePartOf ⟨src, [], .default⟩ take with
  | error e => rw [hsp, htp] at h; cases h
  | ok takePart =>
  rw [hsp, htp] at h
  simp only [bind, Except.bind, pure, Except.pure, Except.ok.injEq] at h
  subst h
  obtain ⟨wlim, hwl, hhead, hparse⟩ := take_spec src take ht takePart htp
  have hends : ∀ r, Closer r → Ends (endTok ["AS", "JOIN", "LEFT", "WHERE", "GROUP", "ORDER"]) (toksOf takePart ++ r) :=
    fun r hr => ends_prefix (fun t tl' e => by rw [hhead t tl' e]; exact end_LIMIT)
      (endTok_mono (by simp [allKws]) hr.ends)
  cases sort with
  | none =>
    simp only [sortPartOf, pure, Except.pure, Except.ok.injEq] at hsp
    subst hsp
    refine ⟨toksOf takePart, [], wlim, by simp, rfl, hwl, fun r hr => endTok_mono (by simp [K5]) (hends r hr),
      fun r hr => ?_⟩
    obtain ⟨lim, hl, hrel⟩ := hparse r hr
    exact ⟨[], lim, _, orderPart_none (endTok_mono (by simp) (hends r hr)), hl, .nil, hrel⟩
  | some terms =>
    simp only [sortOK, Bool.and_eq_true, Bool.not_eq_true', List.isEmpty_eq_false_iff] at hs
    simp only [sortPartOf] at hsp
    cases hts : writeSortTerms ⟨src, [], .default⟩ terms with
    | error e => rw [hts] at hsp; cases hsp
    | ok ts =>
      rw [hts] at hsp
      simp only [bind, Except.bind, pure, Except.pure, Except.ok.injEq] at hsp
      subst hsp
      obtain ⟨wob, hwob, hrel⟩ := sortTerms_spec src terms ts hs.2 hts
      have hne : ts.map toksOf ≠ [] := by
        intro he
        have hl := hrel.length_eq
        rw [he] at hl
        cases wob with
        | nil =>
          cases terms with
          | nil => exact hs.1 rfl
          | cons t tl' =>
            simp only [List.mapM_cons, Option.bind_eq_bind, Option.pure_def] at hwob
            cases h1 : orderOf t with
            | none => simp [h1] at hwob
            | some b =>
              cases h2 : List.mapM orderOf tl' with
              | none => simp [h1, h2] at hwob
              | some bs => simp [h1, h2] at hwob
        | cons _ _ => simp at hl
      refine ⟨RT.W "ORDER" :: RT.W "BY" :: (sepToks (ts.map toksOf) ++ toksOf takePart), wob, wlim,
        by simp [toksOf_sepChunks], hwob, hwl, fun r hr => endTok_sub end_ORDER (by simp [K5]), fun r hr => ?_⟩
      obtain ⟨lim, hl, hrl⟩ := hparse r hr
      obtain ⟨ob, hob, hro⟩ := orderPart_some hrel hne (r := toksOf takePart ++ r) (endTok_mono (by simp) (hends r hr))
      exact ⟨ob, lim, _, by simpa using hob, hl, hro, hrl⟩

end Pql.C05
