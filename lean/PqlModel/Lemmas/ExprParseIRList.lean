/-
`ExprParseIR`, `exprList`: the comma loop with its restore of the position on a not-found expression.
-/
import PqlModel.Lemmas.ExprParseIRInner
namespace Pql.ExprParseIR
open Pql
set_option linter.unusedSimpArgs false
set_option maxRecDepth 8000

/-- all productions agree at every fuel up to `F` -/
def Below (c : ICtx) (F : Nat) : Prop := ∀ F', F' ≤ F → Level c F'

/-- the callee semantics of a production running with fuel `F + 1` -/
def semAt (c : ICtx) (F : Nat) : Sem := prodSem c fun b m a q => runUnit c (min b F) m a q

theorem runUnit_succ (c : ICtx) (F : Nat) (fn : String) (args : List Val) (p : PState) :
    runUnit c (F + 1) fn args p =
      (runBody c (semAt c F) fn (fun body => if loopFn body then F + 1 else F) (.parser p) args).bind asPState := by
  rw [runUnit]; rfl

/-- the body of the loop of `exprList` -/
def exprListLoopBody : List Stmt :=
  [.assign true [.var "restorePos"] (.e (.field (.var "p") "pos")),
   .assign true [.var "tok", .var "ok"] (.pcall "p" "next" []),
   .ite (.not (.var "ok")) [.ret [.var "result", .nil]] [],
   .ite (.cmp "ne" (.field (.var "tok") "Kind") (.kind "TokenComma")) [.do_ (.pcall "p" "prev" []), .ret [.var "result", .nil]] [],
   .assign true [.var "x", .var "err"] (.pcall "p" "expr" []),
   .ite (.call "isNotFound" [.var "err"]) [.assign false [.field "p" "pos"] (.e (.var "restorePos")), .ret [.var "result", .nil]] [],
   .ite (.cmp "ne" (.var "x") (.nil)) [.assign false [.var "result"] (.e (.append (.var "result") (.var "x")))] [],
   .ite (.cmp "ne" (.var "err") (.nil)) [.ret [.var "result", .call "makeErrorOpaque" [.var "err"]]] []]

theorem exprListIR_loop :
    exprListIR =
      [.assign true [.var "first", .var "err"] (.pcall "p" "expr" []),
       .ite (.cmp "ne" (.var "err") (.nil)) [.ret [.nil, .var "err"]] [],
       .assign true [.var "result"] (.e (.list [.var "first"])),
       .loop "" (.bool true) exprListLoopBody] := rfl

theorem exprListLoop_notLeaves : leaves exprListLoopBody = false := by rfl

def listState (acc : ExprList) (first : Expr) (p : PState) : State :=
  ⟨[("result", .exprs acc), ("err", .err []), ("first", .expr first), ("p", .parser p)]⟩

set_option maxHeartbeats 1000000 in
/-- the loop of `exprList` is `pExprListTail` -/
theorem listLoop (c : ICtx) (F : Nat) (ih : Below c F) (first : Expr) (sk : Option TokKind) :
    ∀ (b : Nat), b ≤ F → ∀ (acc : ExprList) (ts : List Token),
      AgreeL (4 * ts.length + 1 ≤ b)
        (((iter (loopStep c (semAt c F) (.bool true) exprListLoopBody) "" b
            (listState acc first ⟨ts, none, sk⟩)).bind (finish "p" ["[]Expr", "error"])).bind asPState)
        (pExprListTail c.pctx b acc ts) sk := by
  intro b
  induction b with
  | zero => intro _ acc ts; left; exact ⟨by omega, by rw [iter]; rfl⟩
  | succ b ihb =>
    intro hb acc ts
    have hb' : b ≤ F := by omega
    have hmin : min b F = b := Nat.min_eq_left hb'
    rw [iter]
    cases ts with
    | nil => prod_simp [pExprListTail, loopStep, exprListLoopBody, listState, semAt]
    | cons t rest =>
      simp only [pExprListTail]
      by_cases hc : t.kind = .comma
      · have hlr := pExpr_rest_le c.pctx b rest
        rcases (ih b hb').expr rest sk with ⟨hbx, hx⟩ | hx
        · prod_simp [pExprListTail, loopStep, exprListLoopBody, listState, semAt, hc, hmin, hx]
          bound_omega
        · generalize pExpr c.pctx b rest = r at hx hlr ⊢
          obtain ⟨v, re, rr⟩ := r
          by_cases hnf : isNF re = true
          · prod_simp [pExprListTail, loopStep, exprListLoopBody, listState, semAt, hc, hmin, hx, hnf]
          · by_cases he : re = []
            · subst he
              have key : ∀ acc', AgreeL (4 * rr.length + 1 ≤ b)
                  (((iter (loopStep c (semAt c F) (.bool true) exprListLoopBody) "" b
                    (listState acc' first ⟨rr, none, sk⟩)).bind (finish "p" ["[]Expr", "error"])).bind asPState)
                  (pExprListTail c.pctx b acc' rr) sk := fun acc' => ihb hb' acc' rr
              simp only [listState, AgreeL] at key
              unfold exprListLoopBody at key
              cases v <;>
                prod_simp [pExprListTail, loopStep, exprListLoopBody, listState, semAt, hc, hmin, hx, hnf] <;>
                (first
                  | (rcases key acc with ⟨hk, key⟩ | key
                     · left; exact ⟨by bound_omega, key⟩
                     · right; exact key)
                  | (rename_i a1
                     rcases key _ with ⟨hk, key⟩ | key
                     · left; exact ⟨by bound_omega, key⟩
                     · right; exact key))
            · cases v <;> prod_simp [pExprListTail, loopStep, exprListLoopBody, listState, semAt, hc, hmin, hx, hnf, he]
      · prod_simp [pExprListTail, loopStep, exprListLoopBody, listState, semAt, hc]

/-- **`exprList`**, one level up -/
theorem exprList_step (c : ICtx) (F : Nat) (ih : Below c F) (ts : List Token) (sk : Option TokKind) :
    AgreeL (4 * ts.length + 5 ≤ F + 1) (runUnit c (F + 1) "exprList" [] ⟨ts, none, sk⟩) (pExprList c.pctx (F + 1) ts) sk := by
  rw [runUnit_succ]
  simp only [runBody, exprListIR_ir, params_exprList, results_exprList, loopFn_exprList, Bool.false_eq_true, if_false]
  rw [pExprList]
  have hlr := pExpr_rest_le c.pctx F ts
  rcases (ih F (Nat.le_refl F)).expr ts sk with ⟨hbx, hx⟩ | hx
  · prod_simp [exprListIR_loop, semAt, hx]
    bound_omega
  · generalize pExpr c.pctx F ts = r at hx hlr ⊢
    obtain ⟨v, re, rr⟩ := r
    by_cases he : re = []
    · subst he
      have hl := listLoop c F ih v sk F (Nat.le_refl F) (.cons v .nil) rr
      simp only [listState, AgreeL, semAt] at hl
      prod_simp [exprListIR_loop, semAt, hx, exprListLoop_notLeaves]
      rcases hl with ⟨hk, hl⟩ | hl
      · left; exact ⟨by bound_omega, hl⟩
      · right; exact hl
    · prod_simp [exprListIR_loop, semAt, hx, he]

end Pql.ExprParseIR
