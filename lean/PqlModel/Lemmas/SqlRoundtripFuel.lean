/-
ParseRoundtrip, stage (a): fuel monotonicity of the SQL expression parser — more fuel never
changes a `some` result.
-/
import Lean
import PqlModel.Spec.Sql.Parse
namespace Pql.RT
set_option linter.unusedSimpArgs false
open Pql Sql

/-- every `some` result with fuel `k` is the result with fuel `n` -/
structure FuelLe (k n : Nat) : Prop where
  expr : ∀ m ts r, pExprS k m ts = some r → pExprS n m ts = some r
  trail : ∀ m x ts r, pTrailS k m x ts = some r → pTrailS n m x ts = some r
  unary : ∀ ts r, pUnaryS k ts = some r → pUnaryS n ts = some r
  post : ∀ x ts r, pPostfixS k x ts = some r → pPostfixS n x ts = some r
  atom : ∀ ts r, pAtomS k ts = some r → pAtomS n ts = some r
  col : ∀ ps ts r, pColTail k ps ts = some r → pColTail n ps ts = some r
  list : ∀ ts r, pListS k ts = some r → pListS n ts = some r

theorem FuelLe.zero (n : Nat) : FuelLe 0 n := by
  constructor <;> intros <;> simp_all [pExprS, pTrailS, pUnaryS, pPostfixS, pAtomS, pColTail, pListS]

open Lean Elab Tactic Meta in
/-- `lift_fuel ih`: for every hypothesis `pX k … = some v` add `pX n … = some v` (from `ih : FuelLe k n`) -/
elab "lift_fuel " ih:ident : tactic => withMainContext do
  let ihE ← elabTerm ih none
  let table : List (Name × Name) :=
    [(``pExprS, ``FuelLe.expr), (``pTrailS, ``FuelLe.trail), (``pUnaryS, ``FuelLe.unary),
     (``pPostfixS, ``FuelLe.post), (``pAtomS, ``FuelLe.atom), (``pColTail, ``FuelLe.col), (``pListS, ``FuelLe.list)]
  let lctx ← getLCtx
  let mut g ← getMainGoal
  for d in lctx do
    if d.isImplementationDetail then continue
    let ty ← instantiateMVars d.type
    let some (_, lhs, _) := ty.eq? | continue
    let some fn := lhs.getAppFn.constName? | continue
    let some (_, lemmaName) := table.find? (·.1 == fn) | continue
    try
      let proj ← mkAppM lemmaName #[ihE]
      let (args, _, concl) ← forallMetaTelescopeReducing (← inferType proj)
      let hArg := args.back!
      if ← isDefEq (← inferType hArg) ty then
        hArg.mvarId!.assign d.toExpr
        let pf ← instantiateMVars (mkAppN proj args)
        let cty ← instantiateMVars concl
        let g' ← g.assert `hlift cty pf
        let (_, g'') ← g'.intro1
        g := g''
    catch _ => pure ()
  replaceMainGoal [g]

open Lean Elab Tactic Meta in
/-- split an `if`/`match` in some hypothesis -/
elab "split_hyp" : tactic => withMainContext do
  let g ← getMainGoal
  for d in (← getLCtx) do
    if d.isImplementationDetail then continue
    if !(← isProp d.type) then continue
    if let some gs ← splitLocalDecl? g d.fvarId then
      replaceMainGoal gs
      return
  throwError "split_hyp: nothing to split"

theorem expr_step {k n : Nat} (ih : FuelLe k n) (m : Nat) (ts : List STok) (r : SExpr × List STok)
    (h : pExprS (k + 1) m ts = some r) : pExprS (n + 1) m ts = some r := by
  simp only [pExprS] at h ⊢
  repeat' split at h
  all_goals first
    | (cases h; done)
    | (lift_fuel ih; simp only [*, if_true, if_false, reduceCtorEq]; done)
    | (simp only [Option.map_eq_some_iff] at h
       obtain ⟨a, ha, rfl⟩ := h
       lift_fuel ih; simp only [*, if_true, if_false, reduceCtorEq, Option.map_some]; done)

theorem trail_step {k n : Nat} (ih : FuelLe k n) (m : Nat) (x : SExpr) (ts : List STok) (r : SExpr × List STok)
    (h : pTrailS (k + 1) m x ts = some r) : pTrailS (n + 1) m x ts = some r := by
  simp only [pTrailS] at h ⊢
  repeat' split at h
  all_goals first
    | (cases h; done)
    | (lift_fuel ih; simp only [*, if_true, if_false, reduceCtorEq]; done)
    | (simp only [Option.map_eq_some_iff] at h
       obtain ⟨a, ha, rfl⟩ := h
       lift_fuel ih; simp only [*, if_true, if_false, reduceCtorEq, Option.map_some]; done)

theorem unary_step {k n : Nat} (ih : FuelLe k n) (ts : List STok) (r : SExpr × List STok)
    (h : pUnaryS (k + 1) ts = some r) : pUnaryS (n + 1) ts = some r := by
  simp only [pUnaryS] at h ⊢
  repeat' split at h
  all_goals first
    | (cases h; done)
    | (lift_fuel ih; simp only [*, if_true, if_false, reduceCtorEq]; done)
    | (simp only [Option.map_eq_some_iff] at h
       obtain ⟨a, ha, rfl⟩ := h
       lift_fuel ih; simp only [*, if_true, if_false, reduceCtorEq, Option.map_some]; done)

theorem post_step {k n : Nat} (ih : FuelLe k n) (x : SExpr) (ts : List STok) (r : SExpr × List STok)
    (h : pPostfixS (k + 1) x ts = some r) : pPostfixS (n + 1) x ts = some r := by
  simp only [pPostfixS] at h ⊢
  repeat' split at h
  all_goals first
    | (cases h; done)
    | (lift_fuel ih; simp only [*, if_true, if_false, reduceCtorEq]; done)
    | (simp only [Option.map_eq_some_iff] at h
       obtain ⟨a, ha, rfl⟩ := h
       lift_fuel ih; simp only [*, if_true, if_false, reduceCtorEq, Option.map_some]; done)

theorem col_step {k n : Nat} (ih : FuelLe k n) (ps : List Bytes) (ts : List STok) (r : SExpr × List STok)
    (h : pColTail (k + 1) ps ts = some r) : pColTail (n + 1) ps ts = some r := by
  simp only [pColTail] at h ⊢
  repeat' split at h
  all_goals first
    | (cases h; done)
    | (lift_fuel ih; simp only [*, if_true, if_false, reduceCtorEq]; done)
    | (simp only [Option.map_eq_some_iff] at h
       obtain ⟨a, ha, rfl⟩ := h
       lift_fuel ih; simp only [*, if_true, if_false, reduceCtorEq, Option.map_some]; done)

theorem list_step {k n : Nat} (ih : FuelLe k n) (ts : List STok) (r : SExprList × List STok)
    (h : pListS (k + 1) ts = some r) : pListS (n + 1) ts = some r := by
  simp only [pListS] at h ⊢
  repeat' split at h
  all_goals first
    | (cases h; done)
    | (lift_fuel ih; simp only [*, if_true, if_false, reduceCtorEq]; done)
    | (simp only [Option.map_eq_some_iff] at h
       obtain ⟨a, ha, rfl⟩ := h
       lift_fuel ih; simp only [*, if_true, if_false, reduceCtorEq, Option.map_some]; done)

theorem atom_step {k n : Nat} (ih : FuelLe k n) (ts : List STok) (r : SExpr × List STok)
    (h : pAtomS (k + 1) ts = some r) : pAtomS (n + 1) ts = some r := by
  simp only [pAtomS] at h ⊢
  repeat' split_hyp
  all_goals first
    | contradiction
    | (cases h; done)
    | (lift_fuel ih
       simp only [*, if_true, if_false, reduceCtorEq, Bool.and_false, Bool.and_true, Bool.false_eq_true]; done)

theorem FuelLe.succ {k n : Nat} (ih : FuelLe k n) : FuelLe (k + 1) (n + 1) :=
  ⟨expr_step ih, trail_step ih, unary_step ih, post_step ih, atom_step ih, col_step ih, list_step ih⟩

/-- **fuel monotonicity**: a `some` result is stable under any increase of fuel, for all seven
    mutually recursive functions of the SQL expression parser -/
theorem fuelLe_of_le : ∀ {k n : Nat}, k ≤ n → FuelLe k n
  | 0, n, _ => FuelLe.zero n
  | k + 1, 0, h => absurd h (by omega)
  | k + 1, n + 1, h => (fuelLe_of_le (k := k) (n := n) (by omega)).succ

theorem pExprS_mono {k n m : Nat} {ts : List STok} {r : SExpr × List STok} (hkn : k ≤ n)
    (h : pExprS k m ts = some r) : pExprS n m ts = some r := (fuelLe_of_le hkn).expr m ts r h

theorem pTrailS_mono {k n m : Nat} {x : SExpr} {ts : List STok} {r : SExpr × List STok} (hkn : k ≤ n)
    (h : pTrailS k m x ts = some r) : pTrailS n m x ts = some r := (fuelLe_of_le hkn).trail m x ts r h

theorem pUnaryS_mono {k n : Nat} {ts : List STok} {r : SExpr × List STok} (hkn : k ≤ n)
    (h : pUnaryS k ts = some r) : pUnaryS n ts = some r := (fuelLe_of_le hkn).unary ts r h

theorem pPostfixS_mono {k n : Nat} {x : SExpr} {ts : List STok} {r : SExpr × List STok} (hkn : k ≤ n)
    (h : pPostfixS k x ts = some r) : pPostfixS n x ts = some r := (fuelLe_of_le hkn).post x ts r h

theorem pAtomS_mono {k n : Nat} {ts : List STok} {r : SExpr × List STok} (hkn : k ≤ n)
    (h : pAtomS k ts = some r) : pAtomS n ts = some r := (fuelLe_of_le hkn).atom ts r h

theorem pColTail_mono {k n : Nat} {ps : List Bytes} {ts : List STok} {r : SExpr × List STok} (hkn : k ≤ n)
    (h : pColTail k ps ts = some r) : pColTail n ps ts = some r := (fuelLe_of_le hkn).col ps ts r h

theorem pListS_mono {k n : Nat} {ts : List STok} {r : SExprList × List STok} (hkn : k ≤ n)
    (h : pListS k ts = some r) : pListS n ts = some r := (fuelLe_of_le hkn).list ts r h

end Pql.RT
