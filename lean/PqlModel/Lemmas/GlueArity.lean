/-
C13 / C01 glue, helper file: the family of trees `T | where name(a, …, a)` (n arguments, all n),
its well-formedness, and its misuse verdict.

New specification-level definitions (independent of the compiler model and of `Spec/Misuse`):
`Glue.arityOK` — the documented arities of the built-ins, as a Prop on (name, argument count).
-/
import PqlModel.Props.C13Exact
namespace Pql.Glue
open Pql Pql.Exact

/-! ### the documented arity table (NEW, independent of `Misuse.arities` and of `Facts`) -/

def B (s : String) : Bytes := Bytes.ofString s

/-- the built-ins taking exactly one argument -/
def unaryBuiltins : List Bytes :=
  [B "not", B "isnull", B "isnotnull", B "tolower", B "toupper", B "countif"]
/-- the built-ins taking no argument -/
def nullaryBuiltins : List Bytes := [B "now", B "count"]
/-- the built-ins taking exactly three arguments -/
def ternaryBuiltins : List Bytes := [B "iff", B "iif"]
/-- the built-ins taking at least one argument -/
def variadicBuiltins : List Bytes := [B "strcat"]

/-- every built-in name -/
def builtins : List Bytes := unaryBuiltins ++ nullaryBuiltins ++ ternaryBuiltins ++ variadicBuiltins

/-- **documented arities.**  `arityOK name n`: a call of `name` with `n` arguments has an
    acceptable number of arguments.  Any other name is passed through to SQL with any number of
    arguments. -/
def arityOK (name : Bytes) (n : Nat) : Prop :=
  if unaryBuiltins.contains name then n = 1
  else if nullaryBuiltins.contains name then n = 0
  else if ternaryBuiltins.contains name then n = 3
  else if variadicBuiltins.contains name then 1 ≤ n
  else True

instance (name : Bytes) (n : Nat) : Decidable (arityOK name n) := by
  unfold arityOK; exact inferInstance

/-! ### the trees -/

def idn (name : Bytes) : Ident := ⟨name, .zero, false⟩

/-- the column `a` -/
def colA : Expr := .qident [idn (B "a")]

/-- `a, a, …, a` (n times) -/
def argsA : Nat → ExprList
  | 0 => .nil
  | n + 1 => .cons colA (argsA n)

/-- `name(a, …, a)` -/
def callE (name : Bytes) (n : Nat) : Expr := .call (idn name) .zero (argsA n) .zero

/-- `T | where name(a, …, a)` -/
def whereCall (name : Bytes) (n : Nat) : List Stmt :=
  [.tabular (.mk (some (idn (B "T"))) (.cons (.where_ .zero .zero (callE name n)) .nil))]

/-- `T | summarize c = name(a, …, a)` -/
def summarizeCall (name : Bytes) (n : Nat) : List Stmt :=
  [.tabular (.mk (some (idn (B "T")))
    (.cons (.summarize .zero .zero [⟨some (idn (B "c")), .zero, callE name n⟩] .null []) .nil))]

theorem argsA_length (n : Nat) : (argsA n).length = n := by
  induction n with
  | zero => rfl
  | succ n ih => simp only [argsA, ExprList.length, ih]

theorem argsA_opsKnown (n : Nat) : opsKnownList (argsA n) = true := by
  induction n with
  | zero => simp only [argsA, opsKnownList]
  | succ n ih => simp only [argsA, opsKnownList, colA, opsKnown, ih, Bool.and_self]

theorem callE_opsKnown (name : Bytes) (n : Nat) : opsKnown (callE name n) = true := by
  simp only [callE, opsKnown, argsA_opsKnown]

theorem whereCall_wf (name : Bytes) (n : Nat) : ∀ s ∈ whereCall name n, wfStmt s = true := by
  intro s hs
  simp only [whereCall, List.mem_singleton] at hs
  subst hs
  simp only [wfStmt, wfTabular, wfOps, wfOp, callE_opsKnown, Bool.and_self]

theorem whereCall_spans (src name : Bytes) (n : Nat) : SpansInside src (whereCall name n) = true := by
  simp only [SpansInside, whereCall, List.all_cons, List.all_nil, spansTabular, spansOps, spansOp, Bool.and_self]

theorem summarizeCall_wf (name : Bytes) (n : Nat) : ∀ s ∈ summarizeCall name n, wfStmt s = true := by
  intro s hs
  simp only [summarizeCall, List.mem_singleton] at hs
  subst hs
  have hnil : isNilExpr (callE name n) = false := rfl
  simp only [wfStmt, wfTabular, wfOps, wfOp, List.all_cons, List.all_nil, colWf, callE_opsKnown, hnil,
    Bool.not_false, Bool.and_self]

theorem summarizeCall_spans (src name : Bytes) (n : Nat) :
    SpansInside src (summarizeCall name n) = true := by
  simp only [SpansInside, summarizeCall, List.all_cons, List.all_nil, spansTabular, spansOps, spansOp,
    colSpanOK, Option.isSome_some, Bool.true_or, Bool.and_self]

/-! ### the misuse verdict of the family -/

theorem colA_ok (bound : List Bytes) : Misuse.badExpr .plain bound colA = false := by
  have h1 : Misuse.isAlias (B "a") = false := by decide
  have h2 : (Misuse.Pos.plain == Misuse.Pos.letValue) = false := by decide
  simp only [colA, idn, Misuse.badExpr, h1, h2]
  split <;> simp

theorem argsA_ok (bound : List Bytes) (n : Nat) : Misuse.badList .plain bound (argsA n) = false := by
  induction n with
  | zero => simp only [argsA, Misuse.badList]
  | succ n ih => simp only [argsA, Misuse.badList, colA_ok, ih, Bool.or_self]

theorem callE_bad (bound : List Bytes) (name : Bytes) (n : Nat) :
    Misuse.badExpr .plain bound (callE name n) = Misuse.wrongArity name n := by
  simp only [callE, idn, Misuse.badExpr, argsA_ok, argsA_length, Bool.or_false]

theorem whereCall_misuse (params : List Bytes) (name : Bytes) (n : Nat) :
    Misuse.misuse params (whereCall name n) = Misuse.wrongArity name n := by
  simp [Misuse.misuse, whereCall, Misuse.misuseStmts, Misuse.badTabular, Misuse.badOps, Misuse.badOp,
    callE_bad]

theorem summarizeCall_misuse (params : List Bytes) (name : Bytes) (n : Nat) :
    Misuse.misuse params (summarizeCall name n) = Misuse.wrongArity name n := by
  have hc : ∀ bound, Misuse.badColumn bound ⟨some (idn (B "c")), .zero, callE name n⟩ =
      Misuse.wrongArity name n := by
    intro bound
    simp only [Misuse.badColumn, callE, idn, Misuse.badExpr, argsA_ok, argsA_length, Bool.or_false]
  simp [Misuse.misuse, summarizeCall, Misuse.misuseStmts, Misuse.badTabular, Misuse.badOps, Misuse.badOp, hc]

/-! ### `Misuse.wrongArity` against the new table -/

theorem wrongArity_iff (name : Bytes) (n : Nat) : Misuse.wrongArity name n = false ↔ arityOK name n := by
  unfold Misuse.wrongArity Misuse.arities arityOK unaryBuiltins nullaryBuiltins ternaryBuiltins
    variadicBuiltins
  simp only [List.find?_cons, List.find?_nil, Misuse.bytesEq, B, List.contains_cons, List.contains_nil,
    Bool.or_false]
  cases h1 : name == Bytes.ofString "not"
  case true => simp
  cases h2 : name == Bytes.ofString "isnull"
  case true => simp
  cases h3 : name == Bytes.ofString "isnotnull"
  case true => simp
  cases h4 : name == Bytes.ofString "tolower"
  case true => simp
  cases h5 : name == Bytes.ofString "toupper"
  case true => simp
  cases h6 : name == Bytes.ofString "countif"
  case true => simp
  cases h7 : name == Bytes.ofString "now"
  case true => simp
  cases h8 : name == Bytes.ofString "count"
  case true => simp
  cases h9 : name == Bytes.ofString "iff"
  case true => simp
  cases h10 : name == Bytes.ofString "iif"
  case true => simp
  cases h11 : name == Bytes.ofString "strcat"
  case true => simp; omega
  simp

end Pql.Glue
