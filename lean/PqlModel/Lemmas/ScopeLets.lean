/-
Several lets: the scope the statement loop builds, against the environment `resolveLets`
builds (every value resolved in the environment before it).
-/
import PqlModel.Lemmas.ScopeMode
namespace Pql
open CompileOracle

/-! ### substitution and the join aliases -/

mutual
theorem idents_subst_any (a n : Bytes) (v : Expr) (hn : (n == a) = false) (hv : IdsFree a (exprIdents v)) :
    (e : Expr) → (exprIdents (substExpr [(n, v)] e)).any (·.name == a) = (exprIdents e).any (·.name == a)
  | .paren _ x _ => by
    simp only [substExpr, exprIdents]
    exact idents_subst_any a n v hn hv x
  | .qident [p] => by
    simp only [substExpr, find?_single]
    cases hq : p.quoted with
    | true => rfl
    | false =>
      cases hnp : n == p.name with
      | false => rfl
      | true =>
        have : (p.name == a) = false := by
          rw [← eq_of_beq hnp]
          exact hn
        simp only [Bool.false_eq_true, if_false, if_true, exprIdents, List.any_cons, List.any_nil, this, Bool.or_false]
        exact hv
  | .qident [] => by simp only [substExpr]
  | .qident (_ :: _ :: _) => by simp only [substExpr]
  | .nil => by simp only [substExpr]
  | .lit .. => by simp only [substExpr]
  | .unary _ _ x => by
    simp only [substExpr, exprIdents]
    exact idents_subst_any a n v hn hv x
  | .binary x _ _ y => by
    simp only [substExpr, exprIdents, List.any_append, idents_subst_any a n v hn hv x, idents_subst_any a n v hn hv y]
  | .index x _ y _ => by
    simp only [substExpr, exprIdents, List.any_append, idents_subst_any a n v hn hv x, idents_subst_any a n v hn hv y]
  | .inE x _ _ vals _ => by
    simp only [substExpr, exprIdents, List.any_append, idents_subst_any a n v hn hv x, identsL_subst_any a n v hn hv vals]
  | .call _ _ args _ => by
    simp only [substExpr, exprIdents]
    exact identsL_subst_any a n v hn hv args

theorem identsL_subst_any (a n : Bytes) (v : Expr) (hn : (n == a) = false) (hv : IdsFree a (exprIdents v)) :
    (es : ExprList) → (exprListIdents (substList [(n, v)] es)).any (·.name == a) = (exprListIdents es).any (·.name == a)
  | .nil => by simp only [substList]
  | .cons e es => by
    simp only [substList, exprListIdents, List.any_append, idents_subst_any a n v hn hv e, identsL_subst_any a n v hn hv es]
end

/-- a binding that is not called `$left` / `$right` and whose value mentions neither does not
    change which sides of a join an expression refers to -/
theorem hasJoinTerms_subst {n : Bytes} {v : Expr} (hl : (n == leftAlias) = false) (hr : (n == rightAlias) = false)
    (hv : AliasFree v) (x : Expr) : hasJoinTerms (substExpr [(n, v)] x) = hasJoinTerms x := by
  unfold hasJoinTerms
  dsimp only
  rw [idents_subst_any leftAlias n v hl hv.1 x, idents_subst_any rightAlias n v hr hv.2 x]

/-! ### substitution with an environment -/

mutual
theorem substExpr_nil : (e : Expr) → substExpr [] e = e
  | .paren _ x _ => by simp only [substExpr, substExpr_nil x]
  | .qident [p] => by
    simp only [substExpr, List.find?_nil]
    split <;> rfl
  | .qident [] => by simp only [substExpr]
  | .qident (_ :: _ :: _) => by simp only [substExpr]
  | .nil => by simp only [substExpr]
  | .lit .. => by simp only [substExpr]
  | .unary _ _ x => by simp only [substExpr, substExpr_nil x]
  | .binary x _ _ y => by simp only [substExpr, substExpr_nil x, substExpr_nil y]
  | .index x _ y _ => by simp only [substExpr, substExpr_nil x, substExpr_nil y]
  | .inE x _ _ vals _ => by simp only [substExpr, substExpr_nil x, substList_nil vals]
  | .call _ _ args _ => by simp only [substExpr, substList_nil args]
theorem substList_nil : (es : ExprList) → substList [] es = es
  | .nil => by simp only [substList]
  | .cons e es => by simp only [substList, substExpr_nil e, substList_nil es]
end

mutual
/-- substituting the newest binding first and the older ones afterwards is the simultaneous
    substitution `resolveLets` performs -/
theorem substExpr_comp (env : List (Bytes × Expr)) (n : Bytes) (v : Expr) :
    (e : Expr) → substExpr env (substExpr [(n, v)] e) = substExpr ((n, substExpr env v) :: env) e
  | .paren _ x _ => by simp only [substExpr, substExpr_comp env n v x]
  | .qident [p] => by
    cases hq : p.quoted with
    | true => simp only [substExpr, hq, if_true]
    | false =>
      cases hnp : n == p.name with
      | false =>
        simp only [substExpr, hq, hnp, Bool.false_eq_true, if_false, List.find?_cons, List.find?_nil]
      | true =>
        simp only [substExpr, hq, hnp, Bool.false_eq_true, if_false, List.find?_cons]
  | .qident [] => by simp only [substExpr]
  | .qident (_ :: _ :: _) => by simp only [substExpr]
  | .nil => by simp only [substExpr]
  | .lit .. => by simp only [substExpr]
  | .unary _ _ x => by simp only [substExpr, substExpr_comp env n v x]
  | .binary x _ _ y => by simp only [substExpr, substExpr_comp env n v x, substExpr_comp env n v y]
  | .index x _ y _ => by simp only [substExpr, substExpr_comp env n v x, substExpr_comp env n v y]
  | .inE x _ _ vals _ => by simp only [substExpr, substExpr_comp env n v x, substList_comp env n v vals]
  | .call _ _ args _ => by simp only [substExpr, substList_comp env n v args]
theorem substList_comp (env : List (Bytes × Expr)) (n : Bytes) (v : Expr) :
    (es : ExprList) → substList env (substList [(n, v)] es) = substList ((n, substExpr env v) :: env) es
  | .nil => by simp only [substList]
  | .cons e es => by simp only [substList, substExpr_comp env n v e, substList_comp env n v es]
end

/-! ### the hypotheses of the one-binding induction, for the two relations of interest -/

theorem stripOcc_bare (v : Expr) (bv : List Chunk) : StripOcc bv (wrapTight v bv) bv := by
  unfold wrapTight wrapMaybe
  split
  · exact .strip
  · split
    · exact .strip
    · exact .refl _

theorem stripOcc_maybe (v : Expr) (bv : List Chunk) : StripOcc bv (wrapTight v bv) (wrapMaybe v bv) := by
  cases hs : isSigned v with
  | true =>
    have e1 : wrapTight v bv = parenthesise bv := by simp only [wrapTight, hs, if_true]
    have e2 : wrapMaybe v bv = bv := by simp [wrapMaybe, needsWrap_of_isSigned v hs]
    rw [e1, e2]
    exact .strip
  | false =>
    have e1 : wrapTight v bv = wrapMaybe v bv := by simp [wrapTight, hs]
    rw [e1]
    exact .refl _

/-- where the name is used in mode `m`: nothing to ask outside join conditions; inside, the
    binding must not be called `$left` / `$right` and its value must not mention them -/
def JoinSafe (m : Mode) (n : Bytes) (v : Expr) : Prop :=
  m = .join → (n == leftAlias) = false ∧ (n == rightAlias) = false ∧ AliasFree v

theorem substHyp_stripOcc {src : Bytes} {s : Scope} {m : Mode} {n : Bytes} {v : Expr} {bv : List Chunk}
    (hlet : writeExpr ⟨src, s, .let_⟩ v = .ok bv) (hj : JoinSafe m n v) :
    SubstHyp (StripOcc bv) src s m n v bv where
  cong := StripOcc.cong bv
  hv := writeExpr_of_let v (fun hm => (hj hm).2.2) bv hlet
  bare := stripOcc_bare v bv
  maybe := stripOcc_maybe v bv
  join := fun hm => hasJoinTerms_subst (hj hm).1 (hj hm).2.1 (hj hm).2.2

/-! ### several lets -/

/-- the environment `resolveLets` has accumulated when it reaches the query -/
def letsEnv : List Stmt → List (Bytes × Expr) → List (Bytes × Expr)
  | .let_ _ (some n) _ x :: rest, env => letsEnv rest ((n.name, substExpr env x) :: env)
  | _, env => env

def IsLets (lets : List Stmt) : Prop := ∀ st ∈ lets, ∃ kw n a x, st = Stmt.let_ kw n a x

def LetsJoinSafe (m : Mode) (lets : List Stmt) : Prop :=
  ∀ st ∈ lets, ∀ kw n a x, st = Stmt.let_ kw (some n) a x → JoinSafe m n.name x

theorem resolveLets_lets (t : Tabular) : (lets : List Stmt) → (env : List (Bytes × Expr)) → IsLets lets →
    (∀ st ∈ lets, ∀ kw a x, st ≠ Stmt.let_ kw none a x) →
    resolveLets (lets ++ [.tabular t]) env = some (substTabular (letsEnv lets env) t)
  | [], env, _, _ => by simp only [List.nil_append, resolveLets, letsEnv]
  | .tabular _ :: _, _, h, _ => by
    obtain ⟨_, _, _, _, h⟩ := h _ (List.mem_cons_self)
    cases h
  | .let_ kw none a x :: _, _, _, h => absurd rfl (h _ (List.mem_cons_self) kw a x)
  | .let_ _ (some n) _ x :: rest, env, h, h' => by
    simp only [List.cons_append, resolveLets, letsEnv]
    exact resolveLets_lets t rest _ (fun st hst => h st (List.mem_cons_of_mem _ hst))
      (fun st hst => h' st (List.mem_cons_of_mem _ hst))

/-- writing under the scope `sc` reads like writing the substituted expression under `s0` -/
def SubstInv (src : Bytes) (s0 : Scope) (m : Mode) (sc : Scope) (env : List (Bytes × Expr)) : Prop :=
  ∀ e, ExRel EqUpToParens (writeExpr ⟨src, sc, m⟩ e) (writeExpr ⟨src, s0, m⟩ (substExpr env e))

theorem substInv_init (src : Bytes) (s0 : Scope) (m : Mode) : SubstInv src s0 m s0 [] := by
  intro e
  rw [substExpr_nil]
  exact ExRel.refl' EqUpToParens.refl _

theorem substInv_step {src : Bytes} {s0 : Scope} {m : Mode} {sc : Scope} {env : List (Bytes × Expr)}
    (hinv : SubstInv src s0 m sc env) {n : Bytes} {v : Expr} {bv : List Chunk}
    (hlet : writeExpr ⟨src, sc, .let_⟩ v = .ok bv) (hj : JoinSafe m n v) :
    SubstInv src s0 m ((n, wrapTight v bv) :: sc) ((n, substExpr env v) :: env) := by
  intro e
  have h1 := (subst_expr_rel (substHyp_stripOcc hlet hj) e).mono fun _ _ h => h.eqUpToParens
  have h2 := hinv (substExpr [(n, v)] e)
  rw [substExpr_comp] at h2
  exact ExRel.trans' (R := EqUpToParens) (fun _ _ _ hab hbc => EqUpToParens.trans hab hbc) h1 h2

theorem lets_substInv {src : Bytes} {s0 : Scope} {m : Mode} :
    (lets : List Stmt) → IsLets lets → LetsJoinSafe m lets →
    (sc : Scope) → (env : List (Bytes × Expr)) → (sc' : Scope) → (q' : Option Tabular) →
    SubstInv src s0 m sc env → compileStmts src lets sc none = .ok (sc', q') →
    q' = none ∧ SubstInv src s0 m sc' (letsEnv lets env)
  | [], _, _, sc, env, sc', q', hinv, h => by
    simp only [compileStmts, Except.ok.injEq, Prod.mk.injEq] at h
    obtain ⟨rfl, rfl⟩ := h
    exact ⟨rfl, hinv⟩
  | .tabular _ :: _, hl, _, _, _, _, _, _, _ => by
    obtain ⟨_, _, _, _, h⟩ := hl _ (List.mem_cons_self)
    cases h
  | .let_ kw name a x :: rest, hl, hjs, sc, env, sc', q', hinv, h => by
    simp only [compileStmts] at h
    cases hw : writeExpr ⟨src, sc, .let_⟩ x with
    | error e =>
      rw [hw] at h
      cases h
    | ok bx =>
      rw [hw] at h
      cases name with
      | none => cases h
      | some nm =>
        have h' : compileStmts src rest ((nm.name, wrapTight x bx) :: sc) none = .ok (sc', q') := h
        have hj : JoinSafe m nm.name x := hjs _ (List.mem_cons_self) kw nm a x rfl
        simp only [letsEnv]
        exact lets_substInv rest (fun st hst => hl st (List.mem_cons_of_mem _ hst))
          (fun st hst => hjs st (List.mem_cons_of_mem _ hst)) _ _ _ _ (substInv_step hinv hw hj) h'

end Pql
