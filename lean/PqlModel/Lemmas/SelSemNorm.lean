/-
The intended translation `tr` is already in the normal form of `normS` (lower-case function
names, `<>` for `!=`), so `Rel.evalP` (which normalises) evaluates the translation itself.
-/
import PqlModel.Spec.Rel
namespace Pql.SelSem
open Pql Sql CompileOracle

theorem lower_byte (c : UInt8) :
    (fun c : UInt8 => if 65 ≤ c.toNat && c.toNat ≤ 90 then c + 32 else c)
      ((fun c : UInt8 => if 65 ≤ c.toNat && c.toNat ≤ 90 then c + 32 else c) c) =
    (fun c : UInt8 => if 65 ≤ c.toNat && c.toNat ≤ 90 then c + 32 else c) c := by
  simp only
  by_cases h : (65 ≤ c.toNat && c.toNat ≤ 90) = true
  · simp only [h, ↓reduceIte]
    have h' : 65 ≤ c.toNat ∧ c.toNat ≤ 90 := by simpa using h
    have : (c + 32).toNat = c.toNat + 32 := by
      rw [UInt8.toNat_add]; simp; omega
    have h2 : (65 ≤ (c + 32).toNat && (c + 32).toNat ≤ 90) = false := by
      rw [this]; simp; omega
    rw [if_neg (by rw [h2]; decide)]
  · simp only [h]
    simp [h]

theorem lower_lower (b : Bytes) : lower (lower b) = lower b := by
  unfold lower
  rw [List.map_map]
  apply List.map_congr_left
  intro c _
  exact lower_byte c

theorem normS_coalesceFalse (x : SExpr) (h : normS x = x) : normS (coalesceFalse x) = coalesceFalse x := by
  have : lower (Bytes.ofString "coalesce") = Bytes.ofString "coalesce" := by decide
  simp [coalesceFalse, fnCall, normS, normL, this, h]

theorem normS_fnCall1 (name : String) (hn : lower (Bytes.ofString name) = Bytes.ofString name)
    (x : SExpr) (h : normS x = x) : normS (fnCall name [x]) = fnCall name [x] := by
  simp [fnCall, normS, normL, hn, h]

theorem normS_strcat : ∀ (rest : List SExpr) (a : SExpr), normS a = a → (∀ b ∈ rest, normS b = b) →
    normS (rest.foldl (fun acc b => .bin "||" acc b) a) = rest.foldl (fun acc b => .bin "||" acc b) a
  | [], a, ha, _ => ha
  | b :: rest, a, ha, hr => by
    simp only [List.foldl_cons]
    apply normS_strcat rest
    · have : ("||" == "!=") = false := by decide
      simp [normS, this, ha, hr b (List.mem_cons_self ..)]
    · intro c hc; exact hr c (List.mem_cons_of_mem _ hc)

theorem normL_toList : ∀ (as : SExprList), normL as = as → ∀ b ∈ as.toList, normS b = b
  | .nil, _, b, hb => by simp [SExprList.toList] at hb
  | .cons a as, h, b, hb => by
    simp only [normL, SExprList.cons.injEq] at h
    simp only [SExprList.toList, List.mem_cons] at hb
    rcases hb with rfl | hb
    · exact h.1
    · exact normL_toList as h.2 b hb

end Pql.SelSem

namespace Pql.SelSem
open Pql Sql CompileOracle

theorem plainOp_ne (op : TokKind) (s : String) (h : plainOp op = some s) : (s == "!=") = false := by
  cases op <;> simp [plainOp] at h <;> subst h <;> decide

mutual
theorem tr_normS (j : Bool) : ∀ (e : Expr) (s : SExpr), tr j e = some s → normS s = s
  | .nil, s, h => by simp [tr] at h
  | .paren _ x _, s, h => by rw [tr] at h; exact tr_normS j x s h
  | .qident parts, s, h => by
    simp only [tr] at h
    split at h
    · split at h
      · cases h; simp [normS]
      · split at h
        · cases h; simp [normS]
        · split at h <;> cases h <;> simp [normS]
    · cases h; simp [normS]
  | .lit _ k v, s, h => by
    simp only [tr] at h
    split at h
    · cases h; simp [normS]
    · split at h
      · cases h; simp [normS]
      · cases h
  | .unary _ op x, s, h => by
    simp only [tr, bind, Option.bind] at h
    cases hx : tr j x with
    | none => simp [hx] at h
    | some a =>
      have ih := tr_normS j x a hx
      simp only [hx] at h
      split at h
      · cases h; simp [normS, ih]
      · split at h
        · cases h; simp [normS, ih]
        · cases h
  | .binary x _ op y, s, h => by
    simp only [tr, bind, Option.bind] at h
    cases hx : tr j x with
    | none => simp [hx] at h
    | some a =>
      cases hy : tr j y with
      | none => simp [hx, hy] at h
      | some b =>
        have iha := tr_normS j x a hx
        have ihb := tr_normS j y b hy
        have hlow : lower (Bytes.ofString "lower") = Bytes.ofString "lower" := by decide
        have e1 : ("=" == "!=") = false := by decide
        have e2 : ("<>" == "!=") = false := by decide
        simp only [hx, hy] at h
        split at h
        · split at h
          · cases h; simp [normS, e1, iha, ihb]
          · cases h; exact normS_coalesceFalse _ (by simp [normS, e1, iha, ihb])
        · split at h
          · cases h; exact normS_coalesceFalse _ (by simp [normS, e2, iha, ihb])
          · split at h
            · cases h
              simp [normS, e1, normS_fnCall1 "lower" hlow a iha, normS_fnCall1 "lower" hlow b ihb]
            · split at h
              · cases h
                simp [normS, e2, normS_fnCall1 "lower" hlow a iha, normS_fnCall1 "lower" hlow b ihb]
              · split at h
                · rename_i o ho
                  cases h
                  simp [normS, plainOp_ne _ _ ho, iha, ihb]
                · cases h
  | .inE x _ _ vals _, s, h => by
    simp only [tr, bind, Option.bind] at h
    cases hx : tr j x with
    | none => simp [hx] at h
    | some a =>
      cases hv : trList j vals with
      | none => simp [hx, hv] at h
      | some vs =>
        simp only [hx, hv, pure, Option.some.injEq] at h
        subst h
        simp [normS, tr_normS j x a hx, trList_normL j vals vs hv]
  | .index x _ idx _, s, h => by
    simp only [tr, bind, Option.bind] at h
    cases hx : tr j x with
    | none => simp [hx] at h
    | some a =>
      cases hi : tr j idx with
      | none => simp [hx, hi] at h
      | some i =>
        simp only [hx, hi, pure, Option.some.injEq] at h
        subst h
        simp [normS, tr_normS j x a hx, tr_normS j idx i hi]
  | .call fn _ args _, s, h => by
    simp only [tr, bind, Option.bind] at h
    cases has : trList j args with
    | none => simp [has] at h
    | some as =>
      have ih := trList_normL j args as has
      have ihl := normL_toList as ih
      simp only [has] at h
      generalize as.toList = l at h ihl
      have hlow : lower (Bytes.ofString "lower") = Bytes.ofString "lower" := by decide
      have hup : lower (Bytes.ofString "upper") = Bytes.ofString "upper" := by decide
      have hcnt : lower (Bytes.ofString "count") = Bytes.ofString "count" := by decide
      split at h
      · split at h
        · cases h; simp [normS, ihl]
        · cases h
      split at h
      · split at h
        · cases h; simp [normS, ihl]
        · cases h
      split at h
      · split at h
        · cases h; simp [normS, ihl]
        · cases h
      split at h
      · split at h
        · cases h
          simp [normS, ihl, normS_coalesceFalse]
        · cases h
      split at h
      · split at h
        · cases h
          rename_i a rest
          exact normS_strcat rest a (ihl a (by simp)) (fun b hb => ihl b (by simp [hb]))
        · cases h
      split at h
      · split at h
        · cases h; exact normS_fnCall1 "lower" hlow _ (ihl _ (by simp))
        · cases h
      split at h
      · split at h
        · cases h; exact normS_fnCall1 "upper" hup _ (ihl _ (by simp))
        · cases h
      split at h
      · split at h
        · cases h; simp [normS]
        · cases h
      split at h
      · split at h
        · cases h; simp [normS, fnCall, hcnt, normL]
        · cases h
      split at h
      · split at h
        · cases h; simp [normS, hcnt, normL, ihl]
        · cases h
      cases h
      simp [normS, lower_lower, ih]
theorem trList_normL (j : Bool) : ∀ (es : ExprList) (ss : SExprList), trList j es = some ss → normL ss = ss
  | .nil, ss, h => by simp only [trList, Option.some.injEq] at h; subst h; simp [normL]
  | .cons e es, ss, h => by
    simp only [trList, bind, Option.bind] at h
    cases he : tr j e with
    | none => simp [he] at h
    | some a =>
      cases hes : trList j es with
      | none => simp [he, hes] at h
      | some as =>
        simp only [he, hes, pure, Option.some.injEq] at h
        subst h
        simp [normL, tr_normS j e a he, trList_normL j es as hes]
end

end Pql.SelSem

namespace Pql.SelSem
open Pql Sql CompileOracle

/-- `Rel.evalP` is the evaluator applied to the intended translation itself -/
theorem evalP_eq (j : Bool) (g : List Env) (env : Env) (e : Expr) (s : SExpr) (h : tr j e = some s) :
    Rel.evalP j g env e = evalS g env s := by
  simp only [Rel.evalP, h, tr_normS j e s h]

end Pql.SelSem
