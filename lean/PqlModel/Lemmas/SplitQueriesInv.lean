/-
Invariants of the operator loop of `splitQueries`, by induction over `Run`
(Lemmas/SplitQueriesRun.lean): ORDER BY / LIMIT only where `canAttachSort` allows (clause 1),
the list only grows (clause 5), names by index (clause 3).
-/
import PqlModel.Lemmas.SplitQueriesRun
namespace Pql.SplitQ
open Pql

/-! ### clause 1: ORDER BY / LIMIT only on subqueries whose operator allows it -/

/-- a subquery that carries a sort or a take has an operator `canAttachSort` accepts -/
def SortOk (s : Subquery) : Prop := (s.sort.isSome ∨ s.take.isSome) → canAttachSort s.op = true

theorem forall_append_singleton {P : Subquery → Prop} {dst : List Subquery} {x : Subquery}
    (h : ∀ s ∈ dst, P s) (hx : P x) : ∀ s ∈ dst ++ [x], P s := by
  intro s hs
  rw [List.mem_append, List.mem_singleton] at hs
  rcases hs with hs | rfl
  · exact h s hs
  · exact hx

theorem forall_init {P : Subquery → Prop} {init : List Subquery} {l : Subquery}
    (h : ∀ s ∈ init ++ [l], P s) : ∀ s ∈ init, P s :=
  fun s hs => h s (List.mem_append_left _ hs)

theorem forall_closeBlock {P : Subquery → Prop} {mid : List Subquery} {k : Nat} {source : Option Ident}
    (h : ∀ s ∈ mid, P s) (hx : P (chainSubquery mid k source)) : ∀ s ∈ closeBlock mid k source, P s := by
  unfold closeBlock
  split
  · exact forall_append_singleton h hx
  · exact h

theorem run_sortOk {source : Option Ident} {dstStart : Nat} {dst out : List Subquery} {ops : OpList}
    (h : Run source dstStart dst ops out) : (∀ s ∈ dst, SortOk s) → ∀ s ∈ out, SortOk s := by
  induction h with
  | nil => exact id
  | as_ p k name _ ih =>
    intro hd; exact ih (forall_append_singleton hd (by simp [SortOk, chainSubquery]))
  | plain o ho _ ih =>
    intro hd; exact ih (forall_append_singleton hd (by simp [SortOk, chainSubquery]))
  | sortAttach p k terms init l hdst hk hc hs ht _ ih =>
    intro hd; subst hdst
    exact ih (forall_append_singleton (forall_init hd) (fun _ => hc))
  | sortChain p k terms _ ih =>
    intro hd; exact ih (forall_append_singleton hd (fun _ => rfl))
  | takeAttach p k n init l hdst hk hc ht _ ih =>
    intro hd; subst hdst
    exact ih (forall_append_singleton (forall_init hd) (fun _ => hc))
  | takeChain p k n _ ih =>
    intro hd; exact ih (forall_append_singleton hd (fun _ => rfl))
  | topAttach p k n b c init l hdst hk hc hs ht _ ih =>
    intro hd; subst hdst
    exact ih (forall_append_singleton (forall_init hd) (fun _ => hc))
  | topChain p k n b c _ ih =>
    intro hd; exact ih (forall_append_singleton hd (fun _ => rfl))
  | join p k kind ka flavor lp rsource rops rp on conds unique kw cond mid dst' _ hd' _ ih1 ih2 =>
    intro hd; subst hd'
    exact ih2 (forall_append_singleton
      (forall_closeBlock (ih1 hd) (by simp [SortOk, chainSubquery])) (by simp [SortOk]))

/-! ### clause 5: the list only grows, and never below `dstStart` -/

theorem take_prefix_append (l m : List Subquery) (n : Nat) : l.take n <+: (l ++ m).take n := by
  rw [List.take_append]
  exact List.prefix_append _ _

theorem take_prefix_of_prefix {l m : List Subquery} (h : l <+: m) (n : Nat) : l.take n <+: m.take n := by
  obtain ⟨t, rfl⟩ := h
  exact take_prefix_append l t n

theorem closeBlock_prefix (mid : List Subquery) (k : Nat) (source : Option Ident) :
    mid <+: closeBlock mid k source := by
  unfold closeBlock; split
  · exact List.prefix_append _ _
  · exact List.prefix_refl _

theorem run_grows {source : Option Ident} {dstStart : Nat} {dst out : List Subquery} {ops : OpList}
    (h : Run source dstStart dst ops out) : dst.take dstStart <+: out ∧ dst.length ≤ out.length := by
  induction h with
  | nil => exact ⟨List.take_prefix _ _, Nat.le_refl _⟩
  | as_ p k name _ ih =>
    exact ⟨(take_prefix_append _ _ _).trans ih.1, by have := ih.2; simp at this; omega⟩
  | plain o ho _ ih =>
    exact ⟨(take_prefix_append _ _ _).trans ih.1, by have := ih.2; simp at this; omega⟩
  | sortAttach p k terms init l hdst hk hc hs ht _ ih =>
    subst hdst
    refine ⟨?_, by simpa using ih.2⟩
    have h1 : (init ++ [l]).take _ = init.take _ := List.take_append_of_le_length hk
    have h2 : (init ++ [{ l with sort := some terms }]).take _ = init.take _ := List.take_append_of_le_length hk
    rw [h1, ← h2]; exact ih.1
  | sortChain p k terms _ ih =>
    exact ⟨(take_prefix_append _ _ _).trans ih.1, by have := ih.2; simp at this; omega⟩
  | takeAttach p k n init l hdst hk hc ht _ ih =>
    subst hdst
    refine ⟨?_, by simpa using ih.2⟩
    have h1 : (init ++ [l]).take _ = init.take _ := List.take_append_of_le_length hk
    have h2 : (init ++ [{ l with take := some n }]).take _ = init.take _ := List.take_append_of_le_length hk
    rw [h1, ← h2]; exact ih.1
  | takeChain p k n _ ih =>
    exact ⟨(take_prefix_append _ _ _).trans ih.1, by have := ih.2; simp at this; omega⟩
  | topAttach p k n b c init l hdst hk hc hs ht _ ih =>
    subst hdst
    refine ⟨?_, by simpa using ih.2⟩
    have h1 : (init ++ [l]).take _ = init.take _ := List.take_append_of_le_length hk
    have h2 : (init ++ [{ l with sort := some [c], take := some n }]).take _ = init.take _ :=
      List.take_append_of_le_length hk
    rw [h1, ← h2]; exact ih.1
  | topChain p k n b c _ ih =>
    exact ⟨(take_prefix_append _ _ _).trans ih.1, by have := ih.2; simp at this; omega⟩
  | @join source dstStart dst rest out p k kind ka flavor lp rsource rops rp on conds unique kw cond mid dst' _ hd' _ ih1 ih2 =>
    subst hd'
    have hpre : dst <+: closeBlock mid dst.length rsource := by
      have := ih1.1
      rw [List.take_length] at this
      exact this.trans (closeBlock_prefix _ _ _)
    have hpre' : ∀ x : Subquery, dst <+: closeBlock mid dst.length rsource ++ [x] :=
      fun x => hpre.trans (List.prefix_append _ [x])
    exact ⟨(take_prefix_of_prefix (hpre' _) _).trans ih2.1, Nat.le_trans (hpre' _).length_le ih2.2⟩

/-! ### clause 3: names by index -/

/-- the subquery at index `i` is named `__subquery{i}`, unless it is an `as` subquery, which
    carries the user's name -/
def NameOk (i : Nat) (s : Subquery) : Prop :=
  s.name = subqueryName i ∨ ∃ p k n, s.op = some (.as_ p k n) ∧ s.name = identName n

def NamesOk (dst : List Subquery) : Prop := ∀ (i : Nat) (h : i < dst.length), NameOk i dst[i]

theorem namesOk_snoc {dst : List Subquery} {s : Subquery} (h : NamesOk dst) (hs : NameOk dst.length s) :
    NamesOk (dst ++ [s]) := by
  intro i hi
  by_cases hlt : i < dst.length
  · rw [List.getElem_append_left hlt]; exact h i hlt
  · have : i = dst.length := by simp at hi; omega
    subst this
    simpa using hs

theorem namesOk_init {init : List Subquery} {l : Subquery} (h : NamesOk (init ++ [l])) :
    NamesOk init ∧ NameOk init.length l := by
  constructor
  · intro i hi
    have := h i (by simp; omega)
    rwa [List.getElem_append_left hi] at this
  · have := h init.length (by simp)
    simpa using this

theorem namesOk_closeBlock {mid : List Subquery} {k : Nat} {source : Option Ident} (h : NamesOk mid) :
    NamesOk (closeBlock mid k source) := by
  unfold closeBlock; split
  · exact namesOk_snoc h (.inl rfl)
  · exact h

theorem run_namesOk {source : Option Ident} {dstStart : Nat} {dst out : List Subquery} {ops : OpList}
    (h : Run source dstStart dst ops out) : NamesOk dst → NamesOk out := by
  induction h with
  | nil => exact id
  | as_ p k name _ ih => intro hd; exact ih (namesOk_snoc hd (.inr ⟨p, k, name, rfl, rfl⟩))
  | plain o ho _ ih => intro hd; exact ih (namesOk_snoc hd (.inl rfl))
  | sortAttach p k terms init l hdst hk hc hs ht _ ih =>
    intro hd; subst hdst
    exact ih (namesOk_snoc (namesOk_init hd).1 (namesOk_init hd).2)
  | sortChain p k terms _ ih => intro hd; exact ih (namesOk_snoc hd (.inl rfl))
  | takeAttach p k n init l hdst hk hc ht _ ih =>
    intro hd; subst hdst
    exact ih (namesOk_snoc (namesOk_init hd).1 (namesOk_init hd).2)
  | takeChain p k n _ ih => intro hd; exact ih (namesOk_snoc hd (.inl rfl))
  | topAttach p k n b c init l hdst hk hc hs ht _ ih =>
    intro hd; subst hdst
    exact ih (namesOk_snoc (namesOk_init hd).1 (namesOk_init hd).2)
  | topChain p k n b c _ ih => intro hd; exact ih (namesOk_snoc hd (.inl rfl))
  | join p k kind ka flavor lp rsource rops rp on conds unique kw cond mid dst' _ hd' _ ih1 ih2 =>
    intro hd; subst hd'
    exact ih2 (namesOk_snoc (namesOk_closeBlock (ih1 hd)) (.inl rfl))

end Pql.SplitQ
