/-
The not-found flag in the expression productions: an error that still carries the flag
(i.e. was not made opaque) comes without any consumption, and the loops never produce one.
-/
import PqlModel.Lemmas.AccountedBasic
namespace Pql

theorem pQualTail_notNF (c : PCtx) (fuel : Nat) : ∀ (parts : List Ident) (ts : List Token),
    isNF (pQualTail c fuel parts ts).errs = false := by
  induction fuel with
  | zero => intro parts ts; simp [pQualTail]
  | succ f ih =>
    intro parts ts
    unfold pQualTail
    split
    · split
      · dsimp only
        split
        · exact ih _ _
        · simp
      · simp
    · simp

theorem pQualifiedIdent_notNF (c : PCtx) (t : Token) (rest : List Token)
    (hk : t.kind = .ident ∨ t.kind = .qident) : isNF (pQualifiedIdent c (t :: rest)).errs = false := by
  unfold pQualifiedIdent pIdent
  simp only [hk, if_true]
  exact pQualTail_notNF _ _ _ _

theorem nf_expr (c : PCtx) (fuel : Nat) :
    (∀ ts, isNF (pExpr c fuel ts).errs = true → (pExpr c fuel ts).rest = ts) ∧
    (∀ x m acc ts, isNF (pTrail c fuel x m acc ts).errs = isNF acc) ∧
    (∀ y p acc ts, isNF (pHigher c fuel y p acc ts).errs = isNF acc) ∧
    (∀ ts, isNF (pUnary c fuel ts).errs = true → (pUnary c fuel ts).rest = ts) ∧
    (∀ ts, isNF (pPrimary c fuel ts).errs = true → (pPrimary c fuel ts).rest = ts) ∧
    (∀ ts, isNF (pInner c fuel ts).errs = true → (pInner c fuel ts).rest = ts) ∧
    (∀ ts, isNF (pExprList c fuel ts).errs = true →
      (pExprList c fuel ts).val = .nil ∧ (pExprList c fuel ts).rest = ts) ∧
    (∀ acc ts, isNF (pExprListTail c fuel acc ts).errs = false) := by
  induction fuel with
  | zero =>
    refine ⟨?_, ?_, ?_, ?_, ?_, ?_, ?_, ?_⟩ <;> intros <;>
      simp_all [pExpr, pTrail, pHigher, pUnary, pPrimary, pInner, pExprList, pExprListTail]
  | succ f ih =>
    obtain ⟨ihE, ihT, ihH, ihU, ihP, ihI, ihL, ihLT⟩ := ih
    refine ⟨?_, ?_, ?_, ?_, ?_, ?_, ?_, ?_⟩
    · -- pExpr
      intro ts
      unfold pExpr
      dsimp only
      split
      · rename_i h; intro _; exact ihU ts h
      · rename_i h
        simp only [isNF_append, ihT, isNF_nil, Bool.or_false]
        intro h'; exact absurd h' h
    · -- pTrail
      intro x m acc ts
      unfold pTrail
      split
      · rfl
      · dsimp only
        split
        · rfl
        · split
          · split
            · simp
            · split
              · simp
              · split
                · simp
                · split
                  · simp
                  · rw [ihT]; simp
          · rw [ihT, ihH]; simp
    · -- pHigher
      intro y p acc ts
      unfold pHigher
      split
      · rfl
      · dsimp only
        split
        · rfl
        · rw [ihH]; simp
    · -- pUnary
      intro ts
      unfold pUnary
      split
      · intro _; rfl
      · split
        · simp
        · exact ihP _
    · -- pPrimary
      intro ts
      unfold pPrimary
      dsimp only
      split
      · exact ihI ts
      · split
        · simp
        · split
          · split
            · simp
            · split <;> simp
          · simp
    · -- pInner
      intro ts
      unfold pInner
      split
      · intro _; rfl
      · rename_i t rest
        split
        · simp
        · split
          · rename_i hk
            have hq := pQualifiedIdent_notNF c t rest (Or.inl hk)
            dsimp only
            split
            · simp [hq]
            · split
              · simp [hq]
              · split
                · simp
                · split
                  · simp
                  · split
                    · simp
                    · have hne : ∀ (es : Errs), isNF (if isNF es = true then [] else es) = false := by
                        intro es; split <;> simp_all
                      split
                      · simp [hne]
                      · split <;> simp [hne]
          · split
            · rename_i hk
              have hq := pQualifiedIdent_notNF c t rest (Or.inr hk)
              dsimp only
              split <;> simp [hq]
            · split
              · dsimp only
                split
                · simp
                · split <;> simp
              · intro _; rfl
    · -- pExprList
      intro ts
      unfold pExprList
      dsimp only
      split
      · intro h; exact ⟨rfl, ihE ts h⟩
      · simp [ihLT]
    · -- pExprListTail
      intro acc ts
      unfold pExprListTail
      split
      · rfl
      · split
        · rfl
        · dsimp only
          split
          · rfl
          · split
            · simp
            · exact ihLT _ _

/-- the loops only ever add to the error accumulator -/
theorem trail_errs_nil (c : PCtx) (fuel : Nat) :
    (∀ x m acc ts, (pTrail c fuel x m acc ts).errs = [] → acc = []) ∧
    (∀ y p acc ts, (pHigher c fuel y p acc ts).errs = [] → acc = []) := by
  induction fuel with
  | zero => constructor <;> intros <;> simp_all [pTrail, pHigher]
  | succ f ih =>
    obtain ⟨ihT, ihH⟩ := ih
    constructor
    · intro x m acc ts
      unfold pTrail
      split
      · exact id
      · dsimp only
        split
        · exact id
        · split
          · split
            · simp
            · split
              · simp
              · split
                · simp
                · split
                  · simp
                  · intro h
                    have := ihT _ _ _ _ h
                    simp only [List.append_eq_nil_iff] at this
                    exact this.1.1
          · intro h
            have h1 := ihT _ _ _ _ h
            have h2 := ihH _ _ _ _ h1
            simp only [List.append_eq_nil_iff] at h2
            exact h2.1
    · intro y p acc ts
      unfold pHigher
      split
      · exact id
      · dsimp only
        split
        · exact id
        · intro h
          have h2 := ihH _ _ _ _ h
          simp only [List.append_eq_nil_iff] at h2
          exact h2.1

end Pql
