/-
`split` / `splitSemi` hand a contiguous prefix of the remaining tokens to the sub-parser and
leave the rest to the caller: nothing is dropped or reordered at a split.
-/
import PqlModel.Model.Parse
namespace Pql

theorem splitAux_append (search : TokKind) (stack : List TokKind) (ts : List Token) :
    (splitAux search stack ts).1 ++ (splitAux search stack ts).2 = ts := by
  induction ts generalizing stack with
  | nil => simp [splitAux]
  | cons t ts ih =>
    simp only [splitAux]
    repeat' split
    all_goals simp [ih]

theorem split_append (search : TokKind) (ts : List Token) : (split search ts).1 ++ (split search ts).2 = ts :=
  splitAux_append search [] ts

theorem splitSemi_append (ts : List Token) : (splitSemi ts).1 ++ (splitSemi ts).2 = ts := by
  induction ts with
  | nil => simp [splitSemi]
  | cons t ts ih => simp only [splitSemi]; split <;> simp [ih]

/-- what `splitSemi` leaves for the caller is empty or starts with the semicolon token -/
theorem splitSemi_rest (ts : List Token) :
    (splitSemi ts).2 = [] ∨ ∃ t rest, (splitSemi ts).2 = t :: rest ∧ t.kind = .semi := by
  induction ts with
  | nil => simp [splitSemi]
  | cons t ts ih =>
    simp only [splitSemi]
    split
    · rename_i h; exact Or.inr ⟨t, ts, rfl, h⟩
    · exact ih

/-- the statement handed to the sub-parser contains no semicolon token -/
theorem splitSemi_no_semi (ts : List Token) : ∀ t ∈ (splitSemi ts).1, t.kind ≠ .semi := by
  induction ts with
  | nil => simp [splitSemi]
  | cons t ts ih =>
    simp only [splitSemi]
    split
    · simp
    · rename_i h
      intro x hx
      simp only [List.mem_cons] at hx
      rcases hx with rfl | hx
      · exact h
      · exact ih x hx

end Pql
