/-
Bodies of the operators whose SELECT is `SELECT * [, constants]`: none / as / where / count / render.
-/
import PqlModel.Lemmas.SelSemBody
namespace Pql.SelSem
open Pql Sql CompileOracle Intended SplitQ

theorem flatMap_single {α β} (h : α → β) (l : List α) : l.flatMap (fun x => [h x]) = l.map h := by
  induction l with
  | nil => rfl
  | cons x xs ih => simp [List.flatMap_cons, ih]

theorem evalS_dup (g : List Env) (env : Env) (e : SExpr) : evalS g (env ++ env) e = evalS g env e :=
  evalS_append_subset g env env (fun _ h => h) e

/-! ### `SELECT *` bodies: no operator, `as`, `where` -/

theorem outCols_star (n : Bytes) (w : Option SExpr) (t : Table) :
    outColsOf (mkSel n [starItem] w [] [] none) t = t.cols := by
  simp [outColsOf, mkSel, starItem]

theorem outRows_star_none (n : Bytes) (t : Table) :
    outRowsOf (mkSel n [starItem] none [] [] none) t =
      t.rows.map fun r => ((envOfRow [] t.cols r, [], r) : ORow) := by
  simp [outRowsOf, isAggQ, mkSel, starItem, whereRows, srcRowsOf]

theorem outRows_star_where (n : Bytes) (p : SExpr) (t : Table) :
    outRowsOf (mkSel n [starItem] (some p) [] [] none) t =
      (t.rows.filter fun r => evalS [] (envOfRow [] t.cols r) p == .bool true).map
        fun r => ((envOfRow [] t.cols r, [], r) : ORow) := by
  simp [outRowsOf, isAggQ, mkSel, starItem, whereRows, srcRowsOf, List.filter_map, Function.comp_def]

theorem sel_star (src : Bytes) (db : DB) (ctes : List (Bytes × Table)) (a : SubA) (n : Bytes)
    (obs : List OrderTerm) (lim : Option SExpr) (ho : obsOf a = some obs) (hl : limOf a = some lim)
    (hop : (opPartA a).foldl (interpClause src db) (lookupTable db ctes n) = lookupTable db ctes n) :
    evalSelect db ctes (mkSel n [starItem] none [] obs lim) = subEvalA src db (lookupTable db ctes n) a := by
  apply sel_core src db ctes a n _ _ _ obs lim ho hl (lookupTable db ctes n).rows
    (fun r => ((envOfRow [] (lookupTable db ctes n).cols r, [], r) : ORow)) (lookupTable db ctes n)
  · exact outCols_star n none _
  · exact outRows_star_none n _
  · simp
  · right; left
    intro r e
    exact evalS_dup [] _ e
  · exact hop

theorem sel_where (src : Bytes) (db : DB) (ctes : List (Bytes × Table)) (a : SubA) (n : Bytes)
    (pp k : Span) (pred : Expr) (p : SExpr) (hp : tr false pred = some p)
    (obs : List OrderTerm) (lim : Option SExpr) (ho : obsOf a = some obs) (hl : limOf a = some lim)
    (hop : a.op = some (.where_ pp k pred)) :
    evalSelect db ctes (mkSel n [starItem] (some p) [] obs lim) = subEvalA src db (lookupTable db ctes n) a := by
  apply sel_core src db ctes a n _ _ _ obs lim ho hl
    ((lookupTable db ctes n).rows.filter fun r => evalS [] (envOfRow [] (lookupTable db ctes n).cols r) p == .bool true)
    (fun r => ((envOfRow [] (lookupTable db ctes n).cols r, [], r) : ORow))
    (Rel.interpOp src db (lookupTable db ctes n) (.where_ pp k pred))
  · exact outCols_star n _ _
  · exact outRows_star_where n p _
  · simp [Rel.interpOp, Rel.rowEnv, evalP_eq false _ _ pred p hp]
  · right; left
    intro r e
    exact evalS_dup [] _ e
  · simp [opPartA, hop, interpClause]

/-! ### count -/

theorem hasAgg_COUNT : hasAgg (.call (Bytes.ofString "COUNT") true .nil .none_) = true := by
  have : isAggName (Bytes.ofString "COUNT") = true := by decide
  simp [hasAgg, this]

theorem evalS_COUNT (genv : List Env) (env : Env) :
    evalS genv env (.call (Bytes.ofString "COUNT") true .nil .none_) = .int genv.length := by
  have h1 : isAggName (Bytes.ofString "COUNT") = true := by decide
  have h2 : (lowerB (Bytes.ofString "COUNT") == Bytes.ofString "count") = true := by decide
  have h3 : List.filter (fun _ => true) genv = genv := List.filter_eq_self.mpr (fun _ _ => rfl)
  simp [evalS, h1, h2, h3]

def countItem : SelectItem := ⟨false, .call (Bytes.ofString "COUNT") true .nil .none_, some (Bytes.ofString "count()")⟩

theorem sel_count (src : Bytes) (db : DB) (ctes : List (Bytes × Table)) (a : SubA) (n : Bytes)
    (pp k : Span)
    (obs : List OrderTerm) (lim : Option SExpr) (ho : obsOf a = some obs) (hl : limOf a = some lim)
    (hop : a.op = some (.count pp k)) :
    evalSelect db ctes (mkSel n [countItem] none [] obs lim) = subEvalA src db (lookupTable db ctes n) a := by
  apply sel_core src db ctes a n _ _ _ obs lim ho hl [()]
    (fun _ => (((((lookupTable db ctes n).rows.map fun r => envOfRow [] (lookupTable db ctes n).cols r).head?).getD [],
      (lookupTable db ctes n).rows.map fun r => envOfRow [] (lookupTable db ctes n).cols r,
      [.int (lookupTable db ctes n).rows.length]) : ORow))
    (Rel.interpOp src db (lookupTable db ctes n) (.count pp k))
  · simp [outColsOf, mkSel, countItem, Rel.interpOp]
  · simp [outRowsOf, isAggQ, mkSel, countItem, hasAgg_COUNT, evalS_COUNT, whereRows, srcRowsOf, Function.comp_def]
  · simp [Rel.interpOp]
  · right; right; simp
  · simp [opPartA, hop, interpClause]

end Pql.SelSem
