/-
`split` on a token list that begins with the tokens of a tree: the tree's tokens are
bracket-balanced, so the split point is never inside them.

`PassesAt search stack ts` : scanning for `search` with `stack` as the pending closers runs
through all of `ts` and continues behind it with the same stack.
-/
import PqlModel.Lemmas.ForwardBasic
namespace Pql
open Grammar

def PassesAt (search : TokKind) (stack : List TokKind) (ts : List Token) : Prop :=
  ∀ rest, splitAux search stack (ts ++ rest) =
    (ts ++ (splitAux search stack rest).1, (splitAux search stack rest).2)

theorem passesAt_nil (search : TokKind) (stack : List TokKind) : PassesAt search stack [] := by
  intro rest; simp

theorem passesAt_append {search : TokKind} {stack : List TokKind} {a b : List Token}
    (ha : PassesAt search stack a) (hb : PassesAt search stack b) : PassesAt search stack (a ++ b) := by
  intro rest
  rw [List.append_assoc, ha, hb]
  simp

/-- a token that is neither a bracket nor the token searched for -/
theorem passesAt_single {search : TokKind} {stack : List TokKind} {t : Token}
    (h1 : t.kind ≠ .lparen) (h2 : t.kind ≠ .lbracket) (h3 : t.kind ≠ .rparen) (h4 : t.kind ≠ .rbracket)
    (h5 : t.kind ≠ search) : PassesAt search stack [t] := by
  intro rest
  simp only [List.cons_append, List.nil_append]
  rw [splitAux]
  simp [h1, h2, h3, h4, h5]

theorem passesAt_cons {search : TokKind} {stack : List TokKind} {t : Token} {ts : List Token}
    (h1 : t.kind ≠ .lparen) (h2 : t.kind ≠ .lbracket) (h3 : t.kind ≠ .rparen) (h4 : t.kind ≠ .rbracket)
    (h5 : t.kind ≠ search) (h : PassesAt search stack ts) : PassesAt search stack (t :: ts) :=
  passesAt_append (a := [t]) (passesAt_single h1 h2 h3 h4 h5) h

theorem passesAt_paren {search : TokKind} {stack : List TokKind} {lp rp : Token} {ts : List Token}
    (hl : lp.kind = .lparen) (hr : rp.kind = .rparen) (h : PassesAt search (.rparen :: stack) ts) :
    PassesAt search stack (lp :: (ts ++ [rp])) := by
  intro rest
  simp only [List.cons_append, List.append_assoc, List.nil_append]
  rw [splitAux]
  simp only [hl, if_true]
  rw [h]
  simp only
  rw [splitAux]
  simp [hr, popTo]

theorem passesAt_bracket {search : TokKind} {stack : List TokKind} {lb rb : Token} {ts : List Token}
    (hl : lb.kind = .lbracket) (hr : rb.kind = .rbracket) (h : PassesAt search (.rbracket :: stack) ts) :
    PassesAt search stack (lb :: (ts ++ [rb])) := by
  intro rest
  simp only [List.cons_append, List.append_assoc, List.nil_append]
  rw [splitAux]
  simp only [hl, if_true]
  rw [h]
  simp only
  rw [splitAux]
  simp [hr, popTo]

/-- the kinds `split` is called with on ranges that hold expressions -/
def ExprSearch (k : TokKind) : Prop := k = .rparen ∨ k = .rbracket ∨ k = .pipe

/-- `ts` is passed over whatever is searched for (of the three kinds) and whatever is pending -/
def Passes (ts : List Token) : Prop :=
  ∀ search stack, ExprSearch search → PassesAt search stack ts

theorem passes_nil : Passes [] := fun s st _ => passesAt_nil s st

theorem passes_append {a b : List Token} (ha : Passes a) (hb : Passes b) : Passes (a ++ b) :=
  fun s st hs => passesAt_append (ha s st hs) (hb s st hs)

theorem passes_single {t : Token} (h1 : t.kind ≠ .lparen) (h2 : t.kind ≠ .lbracket) (h3 : t.kind ≠ .rparen)
    (h4 : t.kind ≠ .rbracket) (h5 : t.kind ≠ .pipe) : Passes [t] := by
  intro s st hs
  refine passesAt_single h1 h2 h3 h4 ?_
  rcases hs with rfl | rfl | rfl <;> assumption

theorem passes_cons {t : Token} {ts : List Token} (h1 : t.kind ≠ .lparen) (h2 : t.kind ≠ .lbracket)
    (h3 : t.kind ≠ .rparen) (h4 : t.kind ≠ .rbracket) (h5 : t.kind ≠ .pipe) (h : Passes ts) :
    Passes (t :: ts) :=
  passes_append (a := [t]) (passes_single h1 h2 h3 h4 h5) h

theorem passes_paren {lp rp : Token} {ts : List Token} (hl : lp.kind = .lparen) (hr : rp.kind = .rparen)
    (h : Passes ts) : Passes (lp :: (ts ++ [rp])) :=
  fun s st hs => passesAt_paren hl hr (h s _ hs)

theorem passes_bracket {lb rb : Token} {ts : List Token} (hl : lb.kind = .lbracket)
    (hr : rb.kind = .rbracket) (h : Passes ts) : Passes (lb :: (ts ++ [rb])) :=
  fun s st hs => passesAt_bracket hl hr (h s _ hs)

/-- a token of the kind `k` -/
theorem passes_kind {t : Token} {k : TokKind} (hk : t.kind = k)
    (h : k ≠ .lparen ∧ k ≠ .lbracket ∧ k ≠ .rparen ∧ k ≠ .rbracket ∧ k ≠ .pipe := by decide) : Passes [t] :=
  passes_single (hk ▸ h.1) (hk ▸ h.2.1) (hk ▸ h.2.2.1) (hk ▸ h.2.2.2.1) (hk ▸ h.2.2.2.2)

/-! ### the use at a split -/

/-- `split` at the closer directly behind a balanced range -/
theorem split_at_closer {k : TokKind} {ts rest : List Token} {cl : Token} (hs : ExprSearch k)
    (hk : cl.kind = k) (hb : k = .rparen ∨ k = .rbracket) (h : Passes ts) :
    split k (ts ++ cl :: rest) = (ts, cl :: rest) := by
  unfold split
  rw [h k [] hs]
  rw [splitAux]
  rcases hb with rfl | rfl <;> simp [hk]

theorem split_at_end {k : TokKind} {ts : List Token} (hs : ExprSearch k) (h : Passes ts) :
    split k ts = (ts, []) := by
  have := h k [] hs []
  simp only [List.append_nil] at this
  unfold split
  rw [this]
  simp [splitAux]

/-! ### identifiers -/

theorem isIdentTok_passes {i : Ident} {t : Token} (h : IsIdentTok i t) : Passes [t] := by
  rcases h.1 with hk | hk
  · exact passes_kind hk
  · exact passes_kind hk

theorem qualTail_passes : ∀ {is : List Ident} {ts : List Token}, QualTailReal is ts → Passes ts
  | [], ts, h => by
    have : ts = [] := h
    subst this; exact passes_nil
  | i :: is, ts, h => by
    obtain ⟨d, t, ts', rfl, hd, ht, hr⟩ := h
    exact passes_append (a := [d]) (passes_kind hd)
      (passes_append (a := [t]) (isIdentTok_passes ht) (qualTail_passes hr))

/-! ### the tokens of a tree are balanced -/

theorem real_nil_false {ts : List Token} (h : Real .nil ts) : False := by
  obtain ⟨us, hu, -, -⟩ := h
  simp [unparseExpr] at hu

mutual
theorem real_passes : (e : Expr) → (m : Int) → (ts : List Token) → (okSpine m e).isSome = true →
    Real e ts → Passes ts
  | .nil, _, _, _, h => (real_nil_false h).elim
  | .qident parts, _, ts, _, h => by
    obtain ⟨i, is, t, ts', -, rfl, ht, hr⟩ := real_qident h
    exact passes_append (a := [t]) (isIdentTok_passes ht) (qualTail_passes hr)
  | .lit sp k v, _, ts, hok, h => by
    have hk := okSpine_lit hok
    obtain ⟨t, rfl, hk', -, -⟩ := real_lit (by rcases hk with rfl | rfl <;> decide) h
    rcases hk with rfl | rfl
    · exact passes_kind hk'
    · exact passes_kind hk'
  | .unary os op x, _, ts, hok, h => by
    obtain ⟨hop, -, hx⟩ := okSpine_unary hok
    obtain ⟨t, tx, rfl, hk, -, hrx⟩ := real_unary h
    refine passes_append (a := [t]) ?_ (real_passes x 0 tx hx hrx)
    rcases hop with rfl | rfl
    · exact passes_kind hk
    · exact passes_kind hk
  | .binary x os op y, m, ts, hok, h => by
    obtain ⟨cap, hcap⟩ := Option.isSome_iff_exists.1 hok
    obtain ⟨capx, hx, hop, -, -, hy, -⟩ := okSpine_binary hcap
    obtain ⟨tx, t, ty, rfl, hrx, hk, -, hry⟩ := real_binary h
    have hkk := isBinaryOp_kind hop
    refine passes_append (real_passes x m tx (by rw [hx]; rfl) hrx)
      (passes_append (a := [t]) ?_ (real_passes y _ ty hy hry))
    exact passes_kind hk ⟨hkk.1, hkk.2.1, hkk.2.2.1, hkk.2.2.2.1, hkk.2.2.2.2.1⟩
  | .inE x i lp vals rp, m, ts, hok, h => by
    obtain ⟨cap, hcap⟩ := Option.isSome_iff_exists.1 hok
    obtain ⟨capx, hx, -, -, -, hvl, -⟩ := okSpine_inE hcap
    obtain ⟨tx, ti, tl, tv, tr, rfl, hrx, hk1, -, hk2, -, hv, hk3, -⟩ := real_inE h
    exact passes_append (real_passes x m tx (by rw [hx]; rfl) hrx)
      (passes_append (a := [ti]) (passes_kind hk1) (passes_paren hk2 hk3 (realL_passes vals tv hvl hv)))
  | .paren lp x rp, _, ts, hok, h => by
    obtain ⟨tl, tx, tr, rfl, hk1, -, hx, hk2, -⟩ := real_paren h
    exact passes_paren hk1 hk2 (real_passes x 0 tx (okSpine_paren hok) hx)
  | .call fn lp args rp, _, ts, hok, h => by
    obtain ⟨tf, tl, ta, tc, tr, rfl, hf, hk1, -, ha, hc, hk2, -⟩ := real_call h
    refine passes_append (a := [tf]) (isIdentTok_passes hf) (passes_paren hk1 hk2 ?_)
    refine passes_append (realL_passes args ta (okSpine_call hok).2 ha) ?_
    rcases hc with rfl | ⟨cm, rfl, hcm, -⟩
    · exact passes_nil
    · exact passes_kind hcm
  | .index x lb idx rb, _, ts, hok, h => by
    obtain ⟨-, hox, hoi⟩ := okSpine_index hok
    obtain ⟨tx, tl, ti, tr, rfl, hx, hk1, -, hi, hk2, -⟩ := real_index h
    exact passes_append (real_passes x 0 tx hox hx) (passes_bracket hk1 hk2 (real_passes idx 0 ti hoi hi))
theorem realL_passes : (l : ExprList) → (ts : List Token) → okList l = true → RealL l ts → Passes ts
  | .nil, ts, _, h => by
    have := realL_nil h
    subst this; exact passes_nil
  | .cons e es, ts, hok, h => by
    obtain ⟨te, tl, rfl, he, hl⟩ := realL_cons h
    exact passes_append (real_passes e 0 te (okList_cons hok).1 he) (listTail_passes es tl (okList_cons hok).2 hl)
theorem listTail_passes : (l : ExprList) → (ts : List Token) → okList l = true → ListTailReal l ts → Passes ts
  | .nil, ts, _, h => by
    have : ts = [] := h
    subst this; exact passes_nil
  | .cons e es, ts, hok, h => by
    obtain ⟨cm, te, tl, rfl, hcm, he, hl⟩ := h
    exact passes_append (a := [cm]) (passes_kind hcm)
      (passes_append (real_passes e 0 te (okList_cons hok).1 he) (listTail_passes es tl (okList_cons hok).2 hl))
end

end Pql
