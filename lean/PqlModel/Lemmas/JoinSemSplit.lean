/-
C03 semantics, helper 6: the intended chain `splitOpsA` on join-free operator lists, one step at a
time (`stepA`): the list only grows behind `dstStart`, and once it is longer than `dstStart` the
run does not depend on the pipeline's source or start index any more.
-/
import PqlModel.Spec.Intended
import PqlModel.Lemmas.SplitQueriesClauses
import PqlModel.Lemmas.ForwardTab2
namespace Pql.JoinSem
open Pql Sql CompileOracle Intended

/-- one join-free operator of `splitOpsA` -/
def stepA (source : Option Ident) (ds : Nat) (dst : List SubA) : Op → Option (List SubA)
  | .as_ p k name =>
    some (dst ++ [{ chainA dst ds source with name := identName name, op := some (.as_ p k name) }])
  | .sort _ _ terms =>
    let attach := match lastOfA dst ds with
      | some l => canAttachSort l.op && l.sort.isNone && l.take.isNone
      | none => false
    some (setLastA (if attach then dst else dst ++ [chainA dst ds source]) fun s => { s with sort := some terms })
  | .take _ _ n =>
    let attach := match lastOfA dst ds with
      | some l => canAttachSort l.op && l.take.isNone
      | none => false
    some (setLastA (if attach then dst else dst ++ [chainA dst ds source]) fun s => { s with take := some n })
  | .top _ _ n _ col =>
    let attach := match lastOfA dst ds with
      | some l => canAttachSort l.op && l.sort.isNone && l.take.isNone
      | none => false
    match col with
    | none => none
    | some c => some (setLastA (if attach then dst else dst ++ [chainA dst ds source])
        fun s => { s with sort := some [c], take := some n })
  | .join .. => none
  | o => some (dst ++ [{ chainA dst ds source with op := some o }])

theorem splitOpsA_cons (source : Option Ident) (ds : Nat) (dst : List SubA) (o : Op) (rest : OpList)
    (h : SplitQ.isJoin o = false) :
    splitOpsA source ds dst (.cons o rest) = (stepA source ds dst o).bind fun d => splitOpsA source ds d rest := by
  cases o with
  | join => simp [SplitQ.isJoin] at h
  | top p k n b col => cases col <;> simp [splitOpsA, stepA] <;> rfl
  | sort => simp [splitOpsA, stepA]; rfl
  | take => simp [splitOpsA, stepA]; rfl
  | _ => simp [splitOpsA, stepA]

theorem setLastA_append_singleton (dst : List SubA) (x : SubA) (f : SubA → SubA) :
    setLastA (dst ++ [x]) f = dst ++ [f x] := by
  simp [setLastA]

theorem setLastA_eq (dst : List SubA) (f : SubA → SubA) (l : SubA) (h : dst.getLast? = some l) :
    setLastA dst f = dst.dropLast ++ [f l] := by
  obtain ⟨pre, rfl⟩ : ∃ pre, dst = pre ++ [l] := by
    rcases List.eq_nil_or_concat dst with rfl | ⟨pre, x, rfl⟩
    · simp at h
    · simp at h; subst h; exact ⟨pre, by simp⟩
  simp [setLastA_append_singleton]

theorem lastOfA_some {dst : List SubA} {ds : Nat} {l : SubA} (h : lastOfA dst ds = some l) :
    ds < dst.length ∧ dst.getLast? = some l := by
  simp only [lastOfA] at h
  split at h
  · exact ⟨by omega, h⟩
  · cases h

/-- what one step does to the list: append one link, or change the last link behind `ds` -/
theorem stepA_shape {source : Option Ident} {ds : Nat} {dst d : List SubA} {o : Op}
    (h : stepA source ds dst o = some d) :
    (∃ x, d = dst ++ [x]) ∨ (ds < dst.length ∧ ∃ (l : SubA) (f : SubA → SubA), dst.getLast? = some l ∧ d = dst.dropLast ++ [f l]) := by
  have key : ∀ (attach : Bool) (f : SubA → SubA),
      (attach = true → ∃ l, lastOfA dst ds = some l) →
      d = setLastA (if attach then dst else dst ++ [chainA dst ds source]) f →
      (∃ x, d = dst ++ [x]) ∨ (ds < dst.length ∧ ∃ (l : SubA) (f : SubA → SubA), dst.getLast? = some l ∧ d = dst.dropLast ++ [f l]) := by
    intro attach f hat hd
    cases attach with
    | false =>
      left
      simp only [Bool.false_eq_true, ↓reduceIte, setLastA_append_singleton] at hd
      exact ⟨_, hd⟩
    | true =>
      right
      obtain ⟨l, hl⟩ := hat rfl
      obtain ⟨h1, h2⟩ := lastOfA_some hl
      simp only [↓reduceIte] at hd
      exact ⟨h1, l, f, h2, by rw [hd, setLastA_eq dst f l h2]⟩
  have hat : ∀ (g : SubA → Bool), (match lastOfA dst ds with | some l => g l | none => false) = true →
      ∃ l, lastOfA dst ds = some l := by
    intro g hg
    cases hl : lastOfA dst ds with
    | none => simp [hl] at hg
    | some l => exact ⟨l, rfl⟩
  cases o with
  | join => simp [stepA] at h
  | sort p k terms =>
    simp only [stepA, Option.some.injEq] at h
    exact key _ _ (hat _) h.symm
  | take p k n =>
    simp only [stepA, Option.some.injEq] at h
    exact key _ _ (hat _) h.symm
  | top p k n b col =>
    cases col with
    | none => simp [stepA] at h
    | some c =>
      simp only [stepA, Option.some.injEq] at h
      exact key _ _ (hat _) h.symm
  | _ =>
    simp only [stepA, Option.some.injEq] at h
    exact .inl ⟨_, h.symm⟩

theorem stepA_frame {source : Option Ident} {ds : Nat} {dst d : List SubA} {o : Op}
    (h : stepA source ds dst o = some d) (hds : ds ≤ dst.length) :
    d.take ds = dst.take ds ∧ dst.length ≤ d.length ∧ ds < d.length := by
  rcases stepA_shape h with ⟨x, rfl⟩ | ⟨hlt, l, f, hl, rfl⟩
  · refine ⟨?_, by simp, by simp; omega⟩
    rw [List.take_append_of_le_length hds]
  · have hlen : dst.dropLast.length = dst.length - 1 := by simp
    refine ⟨?_, by simp; omega, by simp; omega⟩
    rw [List.take_append_of_le_length (by omega)]
    rw [List.dropLast_eq_take, List.take_take]
    congr 1
    omega

theorem lastOfA_of_lt {dst : List SubA} {ds : Nat} (h : ds < dst.length) : lastOfA dst ds = dst.getLast? := by
  simp [lastOfA, h]

theorem chainA_of_lt {dst : List SubA} {ds : Nat} (source : Option Ident) (h : ds < dst.length) :
    chainA dst ds source =
      { name := subqueryName dst.length,
        source := .table (match dst.getLast? with | some s => s.name | none => []) } := by
  simp only [chainA, h, ↓reduceIte]
  rfl

/-- once the list is longer than the start index, a step depends neither on the source nor on the start index -/
theorem stepA_indep (s1 s2 : Option Ident) {ds1 ds2 : Nat} {dst : List SubA} (o : Op)
    (h1 : ds1 < dst.length) (h2 : ds2 < dst.length) : stepA s1 ds1 dst o = stepA s2 ds2 dst o := by
  cases o <;> simp only [stepA, lastOfA_of_lt h1, lastOfA_of_lt h2, chainA_of_lt s1 h1, chainA_of_lt s2 h2]

/-- operators that always start a link of their own -/
def plainOp : Op → Bool
  | .sort .. | .take .. | .top .. | .join .. => false
  | _ => true

def startsPlain : OpList → Bool
  | .nil => true
  | .cons o _ => plainOp o

/-- the first operator after a join, if it starts a link of its own, reads the join link exactly as the
    first operator of a pipeline whose source table is the join link -/
theorem stepA_first_plain (T J : Option Ident) {dst : List SubA} {l : SubA} (o : Op) (hp : plainOp o = true)
    (hl : dst.getLast? = some l) (hJ : identName J = l.name) :
    stepA T 0 dst o = stepA J dst.length dst o := by
  have hpos : 0 < dst.length := by
    cases dst with
    | nil => simp at hl
    | cons => simp
  have c1 : chainA dst 0 T = { name := subqueryName dst.length, source := .table l.name } := by
    rw [chainA_of_lt T hpos, hl]
  have c2 : chainA dst dst.length J = { name := subqueryName dst.length, source := .table l.name } := by
    simp [chainA, hJ]
  cases o <;> simp only [plainOp, Bool.false_eq_true] at hp <;> simp only [stepA, c1, c2]

/-! ### runs over join-free operator lists -/

theorem run_frame (source : Option Ident) (ds : Nat) : ∀ (ops : OpList) (dst out : List SubA),
    SplitQ.joinFree ops = true → splitOpsA source ds dst ops = some out → ds ≤ dst.length →
    out.take ds = dst.take ds ∧ dst.length ≤ out.length ∧ (ops ≠ .nil → ds < out.length)
  | .nil, dst, out, _, h, _ => by
    simp only [splitOpsA, Option.some.injEq] at h
    subst h; exact ⟨rfl, Nat.le_refl _, fun h => absurd rfl h⟩
  | .cons o rest, dst, out, hjf, h, hds => by
    rw [SplitQ.joinFree_cons, Bool.and_eq_true] at hjf
    rw [splitOpsA_cons _ _ _ _ _ (by simpa using hjf.1)] at h
    cases hd : stepA source ds dst o with
    | none => simp [hd] at h
    | some d =>
      simp only [hd, Option.bind] at h
      obtain ⟨f1, f2, f3⟩ := stepA_frame hd hds
      obtain ⟨g1, g2, _⟩ := run_frame source ds rest d out hjf.2 h (by omega)
      exact ⟨g1.trans f1, by omega, fun _ => by omega⟩

theorem run_indep (s1 s2 : Option Ident) (ds1 ds2 : Nat) : ∀ (ops : OpList) (dst : List SubA),
    SplitQ.joinFree ops = true → ds1 < dst.length → ds2 < dst.length →
    splitOpsA s1 ds1 dst ops = splitOpsA s2 ds2 dst ops
  | .nil, dst, _, _, _ => by simp only [splitOpsA]
  | .cons o rest, dst, hjf, h1, h2 => by
    rw [SplitQ.joinFree_cons, Bool.and_eq_true] at hjf
    have hnj : SplitQ.isJoin o = false := by simpa using hjf.1
    rw [splitOpsA_cons _ _ _ _ _ hnj, splitOpsA_cons _ _ _ _ _ hnj, stepA_indep s1 s2 o h1 h2]
    cases hd : stepA s2 ds2 dst o with
    | none => rfl
    | some d =>
      simp only [Option.bind]
      have := stepA_frame hd (Nat.le_of_lt h2)
      exact run_indep s1 s2 ds1 ds2 rest d hjf.2 (by omega) (by omega)

theorem run_append (source : Option Ident) (ds : Nat) (b : OpList) : ∀ (a : OpList) (dst : List SubA),
    SplitQ.joinFree a = true →
    splitOpsA source ds dst (appendOps a b) = (splitOpsA source ds dst a).bind fun d => splitOpsA source ds d b
  | .nil, dst, _ => by simp [appendOps, splitOpsA]
  | .cons o rest, dst, hjf => by
    rw [SplitQ.joinFree_cons, Bool.and_eq_true] at hjf
    have hnj : SplitQ.isJoin o = false := by simpa using hjf.1
    simp only [appendOps]
    rw [splitOpsA_cons _ _ _ _ _ hnj, splitOpsA_cons _ _ _ _ _ hnj]
    cases hd : stepA source ds dst o with
    | none => rfl
    | some d =>
      simp only [Option.bind]
      exact run_append source ds b rest d hjf.2

end Pql.JoinSem
