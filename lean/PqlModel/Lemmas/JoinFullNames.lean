/-
C03 / C02, the general statement theorem, helper 7b: the decidable condition on the names of a tabular
expression (`namesOk`: no name capture, finding K3), and how one step of the splitting keeps the
names of the links pairwise distinct (R3's `NamesP` / `NamesQ`, threaded through nested pipelines).
-/
import PqlModel.Lemmas.JoinFullRun
namespace Pql.JoinFull
open Pql Sql CompileOracle Intended SplitQ SelSem C02

mutual
/-- the names chosen with `as`, in the order the links are laid out (right-hand pipelines where the
    join stands); `as` without a name counts as the empty name -/
def asNamesT : Tabular → List Bytes
  | .nil => []
  | .mk _ ops => asNamesO ops
def asNamesO : OpList → List Bytes
  | .nil => []
  | .cons (.join _ _ _ _ _ _ right _ _ _) os => asNamesT right ++ asNamesO os
  | .cons (.as_ _ _ n) os => identName n :: asNamesO os
  | .cons _ os => asNamesO os
end

/-- **no name capture** (the decidable side condition excluding finding K3): every pipeline has a source
    table; the names chosen with `as` are pairwise distinct and none looks like a generated name
    (`__subquery…`); no source table looks like a generated name or is also chosen with `as` -/
def namesOk (t : Tabular) : Bool :=
  C05.hasSources t && !hasDup (asNamesT t) && (asNamesT t).all (fun n => !isGeneratedName n) &&
  (C05.tablesOf t).all (fun n => !isGeneratedName n && !(asNamesT t).contains n)

theorem asNamesO_cons (o : Op) (rest : OpList) (hj : isJoin o = false) :
    asNamesO (.cons o rest) = asNamesO rest ∨
    ∃ p kw nm, o = .as_ p kw nm ∧ asNamesO (.cons o rest) = identName nm :: asNamesO rest := by
  cases o with
  | join => simp [isJoin] at hj
  | as_ p kw nm => right; exact ⟨p, kw, nm, rfl, by simp only [asNamesO]⟩
  | _ => left; simp only [asNamesO]

theorem asNamesO_cons_mem (o : Op) (rest : OpList) (n : Bytes) (h : n ∈ asNamesO rest) :
    n ∈ asNamesO (.cons o rest) := by
  cases o with
  | join p kw kind ka flavor lp right rp on conds => simp only [asNamesO]; exact List.mem_append_right _ h
  | as_ p kw nm => simp only [asNamesO]; exact List.mem_cons_of_mem _ h
  | _ => simp only [asNamesO]; exact h

theorem NamesQ.tail {a : Bytes} {rest names : List Bytes} (h : NamesQ (a :: rest) names) : NamesQ rest names :=
  ⟨(List.nodup_cons.mp h.1).2, fun n hn => h.2 n (List.mem_cons_of_mem _ hn)⟩

theorem NamesQ.drop {pre rest names : List Bytes} (h : NamesQ (pre ++ rest) names) : NamesQ rest names :=
  ⟨(List.nodup_append.mp h.1).2.1, fun n hn => h.2 n (List.mem_append_right _ hn)⟩

/-- a generated name is added -/
theorem NamesQ.fresh {rest names : List Bytes} (h : NamesQ rest names) (i : Nat) :
    NamesQ rest (names ++ [subqueryName i]) := by
  refine ⟨h.1, fun n hn => ⟨(h.2 n hn).1, fun hmem => ?_⟩⟩
  rcases List.mem_append.mp hmem with hm | hm
  · exact (h.2 n hn).2 hm
  · simp only [List.mem_singleton] at hm
    have := (h.2 n hn).1
    rw [hm, isGeneratedName_subqueryName] at this
    cases this

/-- the next `as` name is added -/
theorem names_as {a : Bytes} {rest names : List Bytes} {len : Nat} (hp : NamesP names len)
    (hq : NamesQ (a :: rest) names) : NamesP (names ++ [a]) (len + 1) ∧ NamesQ rest (names ++ [a]) := by
  have hx := hq.2 a (List.mem_cons_self ..)
  refine ⟨⟨?_, ?_⟩, ⟨(List.nodup_cons.mp hq.1).2, ?_⟩⟩
  · rw [List.nodup_append]
    refine ⟨hp.1, by simp, ?_⟩
    intro x hx' b hb
    simp only [List.mem_singleton] at hb
    subst hb
    intro hab; subst hab
    exact hx.2 hx'
  · intro n hn hg
    rcases List.mem_append.mp hn with hn | hn
    · obtain ⟨i, hi, he⟩ := hp.2 n hn hg
      exact ⟨i, by omega, he⟩
    · simp only [List.mem_singleton] at hn
      subst hn
      rw [hx.1] at hg; cases hg
  · intro n hn
    have := hq.2 n (List.mem_cons_of_mem _ hn)
    refine ⟨this.1, fun hmem => ?_⟩
    rcases List.mem_append.mp hmem with hm | hm
    · exact this.2 hm
    · simp only [List.mem_singleton] at hm
      subst hm
      exact (List.nodup_cons.mp hq.1).1 hn

/-- the names after one join-free operator -/
theorem step_names {src : Bytes} {db : DB} {source : Option Ident} {k : Nat} {N N1 : List SubA} {o : Op}
    (s : StepRes src db source k N N1 o) (hj : isJoin o = false) (rest : OpList)
    (base later : List Bytes)
    (hp : NamesP (base ++ N.map (·.name)) (k + N.length))
    (hq : NamesQ (asNamesO (.cons o rest) ++ later) (base ++ N.map (·.name))) :
    NamesP (base ++ N1.map (·.name)) (k + N1.length) ∧ NamesQ (asNamesO rest ++ later) (base ++ N1.map (·.name)) := by
  obtain ⟨extra, hn, hcase⟩ := s.names
  have hlen : N1.length = N.length + extra.length := by
    have := congrArg List.length hn
    simpa using this
  have hq' : NamesQ (asNamesO rest ++ later) (base ++ N.map (·.name)) := by
    rcases asNamesO_cons o rest hj with h | ⟨p, kw, nm, _, h⟩
    · rw [h] at hq; exact hq
    · rw [h] at hq; exact NamesQ.tail hq
  rw [hn, ← List.append_assoc]
  rcases hcase with rfl | rfl | ⟨p, kw, nm, rfl, rfl⟩
  · simp only [List.append_nil, List.length_nil, Nat.add_zero] at hlen ⊢
    rw [hlen]; exact ⟨hp, hq'⟩
  · simp only [List.length_cons, List.length_nil] at hlen
    rw [hlen, ← Nat.add_assoc]
    exact ⟨namesP_fresh hp, NamesQ.fresh hq' _⟩
  · simp only [List.length_cons, List.length_nil] at hlen
    rw [hlen, ← Nat.add_assoc]
    simp only [asNamesO, List.cons_append] at hq
    exact names_as hp hq

theorem step_names_mem {src : Bytes} {db : DB} {source : Option Ident} {k : Nat} {N N1 : List SubA} {o : Op}
    (s : StepRes src db source k N N1 o) (rest : OpList) :
    ∀ n ∈ N1.map (·.name), n ∈ N.map (·.name) ∨ isGeneratedName n = true ∨ n ∈ asNamesO (.cons o rest) := by
  obtain ⟨extra, hn, hcase⟩ := s.names
  intro n hmem
  rw [hn] at hmem
  rcases List.mem_append.mp hmem with h | h
  · exact .inl h
  · rcases hcase with rfl | rfl | ⟨p, kw, nm, rfl, rfl⟩
    · cases h
    · simp only [List.mem_singleton] at h
      subst h
      exact .inr (.inl (isGeneratedName_subqueryName _))
    · simp only [List.mem_singleton] at h
      subst h
      exact .inr (.inr (by simp only [asNamesO]; exact List.mem_cons_self ..))

end Pql.JoinFull
