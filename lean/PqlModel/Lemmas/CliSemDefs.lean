/-
Property C16, semantic half — vocabulary (namespace `Pql.CliSem`).

NEW SPECIFICATION-LEVEL DEFINITIONS
`goodSp s`      : the span of a real token: `0 ≤ start < stop`;
`goodE x`       : every span field of the expression `x` is `goodSp`;
`colsGood t`    : every extend / summarize column expression of the pipeline `t` (at any depth,
                  also inside join operands) is `goodE` — the spans the compiler slices the
                  source text with (the name of an unnamed column);
`SemiEnds l`    : the scanner, run on `l ++ ";"`, has a step boundary at the end of `l` (no string,
                  quoted name or comment that starts in `l` swallows the ';');
`preludeOf ls`  : `l1 ++ ";\n" ++ … ++ lk ++ ";\n"` — the text cmd/pql keeps for the accepted lets;
`letsAt off ls` : the statements of `parse l1`, … `parse lk`, each moved to the offset its text has
                  in `preludeOf ls` (placed at `off`).
-/
import PqlModel.Lemmas.PiecewiseDefs
import PqlModel.Lemmas.ShapeAll
import PqlModel.Lemmas.LexReach
namespace Pql.CliSem
open Pql Pql.Piecewise

def goodSp (s : Span) : Bool := decide (0 ≤ s.start) && decide (s.start < s.stop)

def goodIdent (i : Ident) : Bool := goodSp i.span

mutual
def goodE : Expr → Bool
  | .nil => true
  | .qident parts => parts.all goodIdent
  | .lit sp _ _ => goodSp sp
  | .unary os _ x => goodSp os && goodE x
  | .binary x os _ y => goodE x && goodSp os && goodE y
  | .inE x i lp vals rp => goodE x && goodSp i && goodSp lp && goodL vals && goodSp rp
  | .paren lp x rp => goodSp lp && goodE x && goodSp rp
  | .call fn lp args rp => goodIdent fn && goodSp lp && goodL args && goodSp rp
  | .index x lb idx rb => goodE x && goodSp lb && goodE idx && goodSp rb
def goodL : ExprList → Bool
  | .nil => true
  | .cons e es => goodE e && goodL es
end

def goodCols (cs : List Column) : Bool := cs.all fun c => goodE c.x

/-- the operators whose writer slices the source text -/
def goodOp : Op → Bool
  | .extend _ _ cs => goodCols cs
  | .summarize _ _ cs _ gs => goodCols cs && goodCols gs
  | _ => true

/-- every sliced column expression of the pipeline, at any depth, has token spans only -/
def colsGood (t : Tabular) : Bool := TabAll goodOp t

def colsGoodStmt : Stmt → Bool
  | .tabular t => colsGood t
  | .let_ .. => true

/-- the ';' that follows `l` is a token of its own -/
def SemiEnds (l : Bytes) : Prop := Reaches (l ++ [59]) l.length

def sep : Bytes := [59, 10]

/-- the prelude text of cmd/pql: every accepted let text followed by ";\n" -/
def preludeOf (ls : List Bytes) : Bytes := ls.flatMap (· ++ sep)

/-- the statements of the let texts, each parsed on its own and moved to its offset -/
def letsAt : Nat → List Bytes → List Stmt
  | _, [] => []
  | off, l :: ls => (parse l).1.map (shStmt off) ++ letsAt (off + l.length + 2) ls

/-- the statements of the let texts, each parsed on its own (positions relative to its own text) -/
def letsOf (ls : List Bytes) : List Stmt := ls.flatMap fun l => (parse l).1

end Pql.CliSem
