/-
C03 / C02, the general statement theorem, helper 2: expressions that do not mention the join
aliases `$left` / `$right` evaluate alike in the ORDER BY environment of a join SELECT (output
columns, then the two aliased sides) and in the environment of the join result alone.
-/
import PqlModel.Lemmas.JoinFullBase
namespace Pql.JoinFull
open Pql Sql CompileOracle Intended SplitQ

mutual
/-- every column path of the expression satisfies `P` -/
def colsAll (P : List Bytes → Bool) : Sql.SExpr → Bool
  | .col parts => P parts
  | .call _ _ args filter => colsAllL P args && colsAll P filter
  | .case_ a b c => colsAll P a && colsAll P b && colsAll P c
  | .neg x => colsAll P x
  | .pos x => colsAll P x
  | .not_ x => colsAll P x
  | .bin _ x y => colsAll P x && colsAll P y
  | .isNull x _ => colsAll P x
  | .inList x vs => colsAll P x && colsAllL P vs
  | .index x i => colsAll P x && colsAll P i
  | _ => true
def colsAllL (P : List Bytes → Bool) : SExprList → Bool
  | .nil => true
  | .cons e es => colsAll P e && colsAllL P es
end

mutual
theorem evalS_congr_on (P : List Bytes → Bool) (g : List Env) (env1 env2 : Env)
    (h : ∀ parts, P parts = true → lookupCol env1 parts = lookupCol env2 parts) :
    ∀ e : Sql.SExpr, colsAll P e = true → evalS g env1 e = evalS g env2 e
  | .col parts, hp => by simp only [colsAll] at hp; simp only [evalS, h parts hp]
  | .str v, _ => by simp only [evalS]
  | .num t, _ => by simp only [evalS]
  | .param t, _ => by simp only [evalS]
  | .const w, _ => by simp only [evalS]
  | .call fn star args filter, hp => by
    simp only [colsAll, Bool.and_eq_true] at hp
    cases filter <;> simp only [evalS, evalArgs_congr_on P g env1 env2 h args hp.1]
  | .case_ c t e, hp => by
    simp only [colsAll, Bool.and_eq_true] at hp
    simp only [evalS, evalS_congr_on P g env1 env2 h c hp.1.1, evalS_congr_on P g env1 env2 h t hp.1.2,
      evalS_congr_on P g env1 env2 h e hp.2]
  | .neg x, hp => by simp only [colsAll] at hp; simp only [evalS, evalS_congr_on P g env1 env2 h x hp]
  | .pos x, hp => by simp only [colsAll] at hp; simp only [evalS, evalS_congr_on P g env1 env2 h x hp]
  | .not_ x, hp => by simp only [colsAll] at hp; simp only [evalS, evalS_congr_on P g env1 env2 h x hp]
  | .bin op x y, hp => by
    simp only [colsAll, Bool.and_eq_true] at hp
    simp only [evalS, evalS_congr_on P g env1 env2 h x hp.1, evalS_congr_on P g env1 env2 h y hp.2]
  | .isNull x neg, hp => by simp only [colsAll] at hp; simp only [evalS, evalS_congr_on P g env1 env2 h x hp]
  | .inList x vals, hp => by
    simp only [colsAll, Bool.and_eq_true] at hp
    simp only [evalS, evalS_congr_on P g env1 env2 h x hp.1, evalArgs_congr_on P g env1 env2 h vals hp.2]
  | .index x i, hp => by
    simp only [colsAll, Bool.and_eq_true] at hp
    simp only [evalS, evalS_congr_on P g env1 env2 h x hp.1, evalS_congr_on P g env1 env2 h i hp.2]
  | .none_, _ => by simp only [evalS]
theorem evalArgs_congr_on (P : List Bytes → Bool) (g : List Env) (env1 env2 : Env)
    (h : ∀ parts, P parts = true → lookupCol env1 parts = lookupCol env2 parts) :
    ∀ es : SExprList, colsAllL P es = true → evalArgs g env1 es = evalArgs g env2 es
  | .nil, _ => by simp only [evalArgs]
  | .cons e es, hp => by
    simp only [colsAllL, Bool.and_eq_true] at hp
    simp only [evalArgs, evalS_congr_on P g env1 env2 h e hp.1, evalArgs_congr_on P g env1 env2 h es hp.2]
end

/-- a column path that is not qualified by `$left` or `$right` -/
def notAliased (parts : List Bytes) : Bool :=
  match parts with
  | [a, _] => !(a == leftA || a == rightA)
  | _ => true

/-- the SQL expression does not mention `$left.…` / `$right.…` -/
def aliasFreeS (e : Sql.SExpr) : Bool := colsAll notAliased e

/-- the sort terms (as translated) do not mention `$left.…` / `$right.…` -/
def aliasFreeTerms (ts : List SortTerm) : Bool :=
  ts.all fun t => match tr false t.x with | some e => aliasFreeS e | none => true

theorem find?_append_dominated {α} (p : α → Bool) (l1 l2 : List α)
    (h : ∀ y ∈ l2, p y = true → ∃ x ∈ l1, p x = true) : (l1 ++ l2).find? p = l1.find? p := by
  rw [List.find?_append]
  cases h1 : l1.find? p with
  | some e => rfl
  | none =>
    simp only [Option.none_or]
    rw [List.find?_eq_none] at h1 ⊢
    intro y hy hpy
    obtain ⟨x, hx, hpx⟩ := h y hy hpy
    exact h1 x hx hpx

theorem envOfRow_append (alias : Bytes) (c1 c2 : List Bytes) (r1 r2 : List Val) (h : r1.length = c1.length) :
    envOfRow alias (c1 ++ c2) (r1 ++ r2) = envOfRow alias c1 r1 ++ envOfRow alias c2 r2 := by
  unfold envOfRow
  rw [List.zip_append h.symm, List.map_append]

theorem mem_envOfRow_realias (a b : Bytes) (cols : List Bytes) (row : List Val) (y : Bytes × Bytes × Val)
    (hy : y ∈ envOfRow a cols row) : (b, y.2.1, y.2.2) ∈ envOfRow b cols row ∧ y.1 = a := by
  unfold envOfRow at *
  simp only [List.mem_map] at hy ⊢
  obtain ⟨cv, hcv, rfl⟩ := hy
  exact ⟨⟨cv, hcv, rfl⟩, rfl⟩

/-- the ORDER BY environment of a join SELECT agrees with the environment of the join's result row
    on every column path not qualified by a join alias -/
theorem lookupCol_joinEnv (lc rc : List Bytes) (l r : List Val) (hl : l.length = lc.length)
    (parts : List Bytes) (hp : notAliased parts = true) :
    lookupCol (envOfRow [] (lc ++ rc) (l ++ r) ++ (envOfRow leftA lc l ++ envOfRow rightA rc r)) parts =
      lookupCol (envOfRow [] (lc ++ rc) (l ++ r)) parts := by
  rw [envOfRow_append [] lc rc l r hl]
  have hmem : ∀ y ∈ envOfRow leftA lc l ++ envOfRow rightA rc r,
      ([], y.2.1, y.2.2) ∈ envOfRow [] lc l ++ envOfRow [] rc r ∧ (y.1 = leftA ∨ y.1 = rightA) := by
    intro y hy
    rcases List.mem_append.mp hy with hy | hy
    · obtain ⟨h1, h2⟩ := mem_envOfRow_realias leftA [] lc l y hy
      exact ⟨List.mem_append_left _ h1, .inl h2⟩
    · obtain ⟨h1, h2⟩ := mem_envOfRow_realias rightA [] rc r y hy
      exact ⟨List.mem_append_right _ h1, .inr h2⟩
  unfold lookupCol
  split
  · rename_i c
    rw [find?_append_dominated]
    intro y hy hpy
    exact ⟨_, (hmem y hy).1, hpy⟩
  · rename_i a c
    rw [find?_append_dominated]
    intro y hy hpy
    exfalso
    simp only [notAliased, Bool.not_eq_true', Bool.or_eq_false_iff, beq_eq_false_iff_ne, ne_eq] at hp
    simp only [Bool.and_eq_true, beq_iff_eq] at hpy
    rcases (hmem y hy).2 with h | h
    · exact hp.1 (hpy.1.symm.trans h)
    · exact hp.2 (hpy.1.symm.trans h)
  · rfl

theorem evalS_joinEnv (lc rc : List Bytes) (l r : List Val) (hl : l.length = lc.length)
    (e : Sql.SExpr) (he : aliasFreeS e = true) :
    evalS [] (envOfRow [] (lc ++ rc) (l ++ r) ++ (envOfRow leftA lc l ++ envOfRow rightA rc r)) e =
      evalS [] (envOfRow [] (lc ++ rc) (l ++ r)) e :=
  evalS_congr_on notAliased [] _ _ (fun parts hp => lookupCol_joinEnv lc rc l r hl parts hp) e he

end Pql.JoinFull
