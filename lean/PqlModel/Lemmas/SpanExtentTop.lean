/-
Property C10, from nodes to `Parse`: the token groups of `splitStatementsToks` inherit `TokOK`,
and a pointwise relation can be refined using membership.
-/
import PqlModel.Lemmas.SpanExtentTidy
namespace Pql
open Grammar

theorem splitStatementsToks_go_sublist : ∀ (ts cur : List Token),
    ∀ g ∈ splitStatementsToks.go ts cur, g.Sublist (cur.reverse ++ ts)
  | [], cur => by
    intro g hg
    rw [go_nil] at hg
    split at hg
    · cases hg
    · rw [List.mem_singleton.mp hg]; simp
  | t :: rest, cur => by
    intro g hg
    rw [go_cons] at hg
    split at hg
    · have hrest : ∀ g ∈ splitStatementsToks.go rest [], g.Sublist (cur.reverse ++ t :: rest) := by
        intro g hg
        have := splitStatementsToks_go_sublist rest [] g hg
        simp only [List.reverse_nil, List.nil_append] at this
        exact (this.trans (List.sublist_cons_self t rest)).trans (List.sublist_append_right _ _)
      split at hg
      · exact hrest g hg
      · rcases List.mem_cons.mp hg with rfl | hg
        · exact List.sublist_append_left _ _
        · exact hrest g hg
    · have := splitStatementsToks_go_sublist rest (t :: cur) g hg
      simpa using this

/-- every statement's token group is a sublist of the token list -/
theorem splitStatementsToks_sublist (ts : List Token) : ∀ g ∈ splitStatementsToks ts, g.Sublist ts := by
  intro g hg
  have := splitStatementsToks_go_sublist ts [] g hg
  simpa using this

theorem splitStatementsToks_tokOK {ts : List Token} (hok : TokOK ts) :
    ∀ g ∈ splitStatementsToks ts, TokOK g :=
  fun g hg => hok.sublist (splitStatementsToks_sublist ts g hg)

theorem Forall₂.imp_mem {α β : Type} {R S : α → β → Prop} {l₁ : List α} {l₂ : List β}
    (h : Forall₂ R l₁ l₂) (himp : ∀ a ∈ l₁, ∀ b ∈ l₂, R a b → S a b) : Forall₂ S l₁ l₂ := by
  induction h with
  | nil => exact .nil
  | cons hab _ ih =>
    refine .cons (himp _ (by simp) _ (by simp) hab) (ih ?_)
    intro a ha b hb
    exact himp a (List.mem_cons_of_mem _ ha) b (List.mem_cons_of_mem _ hb)

end Pql
