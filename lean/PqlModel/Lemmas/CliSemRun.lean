/-
Property C16, semantic half — the statement records of cmd/pql, with the real `Compile`, in terms
of scopes instead of texts.

NEW SPEC-LEVEL DEFINITIONS
`compileCli`   : `pql.Compile` with no options, as the `Bytes → Option Bytes` the CLI model takes;
`letAccepts`   : the library accepts the let text `l` with the let statements `lets` in scope: it
                 parses without error and the statement loop of `Compile` gets through
                 `lets ++ statements of l`;
`queryResult`  : the outcome of a query text with `lets` in scope (`compileWithLets`);
`semOutcome`, `semSteps`, `semAll` : the outcomes of the pieces, the scope being a list of `let`
                 statements (trees) — no text is concatenated anywhere.
-/
import PqlModel.Lemmas.CliSemCompile
import PqlModel.Props.C16IO
namespace Pql.CliSem
open Pql Pql.Piecewise Pql.CliIO Pql.CliSpec

def compileCli (src : Bytes) : Option Bytes :=
  match compile [] src with
  | .ok sql => some sql
  | _ => none

def okB {ε α : Type} : Except ε α → Bool
  | .ok _ => true
  | .error _ => false

/-- the library accepts the let text `l` with `lets` in scope -/
def letAccepts (lets : List Stmt) (l : Bytes) : Bool :=
  (parse l).2.isEmpty && okB (compileStmts [] (lets ++ (parse l).1) [] none)

/-- a query text with `lets` in scope -/
def queryResult (lets : List Stmt) (s : Bytes) : Outcome :=
  match compileWithLets lets s with
  | .ok sql => .sql sql
  | _ => .queryFail

def semOutcome (lets : List Stmt) (s : Bytes) : Outcome :=
  if isLetStatement s then (if letAccepts lets s then .letOk else .letFail)
  else queryResult lets s

/-- outcomes of the terminated pieces and the `let` statements in scope after them -/
def semSteps (lets : List Stmt) : List Bytes → List Outcome × List Stmt
  | [] => ([], lets)
  | s :: ss =>
    let o := semOutcome lets s
    let r := semSteps (if o.accepted then lets ++ (parse s).1 else lets) ss
    (o :: r.1, r.2)

/-- all outcomes, in statement order: the terminated pieces, then the unterminated last piece if
    it has a token (compiled as a query with everything accepted before it in scope) -/
def semAll (pieces : List Bytes) : List Outcome :=
  let r := semSteps [] pieces.dropLast
  let last := pieces.getLast?.getD []
  r.1 ++ (if (scan last).isEmpty then [] else [queryResult r.2 last])

/-! ### a piece that starts with `let` parses into a `let` statement -/

theorem pLet_let (c : PCtx) (fuel : Nat) (t : Token) (rest : List Token)
    (h : isIdentNamed t "let" = true) :
    isNF (pLet c fuel (t :: rest)).errs = false ∧
      ∃ st, (pLet c fuel (t :: rest)).val = some st ∧ (letKey st).isSome = true := by
  unfold pLet
  simp only [h, Bool.not_true, Bool.false_eq_true, if_false]
  split
  · exact ⟨by simp, _, rfl, rfl⟩
  · split
    · exact ⟨by simp, _, rfl, rfl⟩
    · split
      · exact ⟨by simp, _, rfl, rfl⟩
      · exact ⟨by simp, _, rfl, rfl⟩

theorem allLets_of_isLetStatement (l : Bytes) (hns : ∀ t ∈ scan l, t.kind ≠ .semi)
    (hl : isLetStatement l = true) : AllLets (parse l).1 := by
  rw [parse_nosemi_fst l hns]
  unfold isLetStatement at hl
  cases hsc : scan l with
  | nil => rw [hsc] at hl; cases hl
  | cons t rest =>
    rw [hsc] at hl
    have hk : isIdentNamed t "let" = true := hl
    obtain ⟨h1, st, h2, h3⟩ := pLet_let ⟨l.length⟩ (fuelFor (t :: rest).length) t rest hk
    have hf : stmtFirst ⟨l.length⟩ (t :: rest) = pLet ⟨l.length⟩ (fuelFor (t :: rest).length) (t :: rest) := by
      unfold stmtFirst
      simp only [h1, Bool.not_false, if_true]
    rw [pStatement_eq, hf]
    unfold stmtTail
    rw [h1]
    simp only [Bool.false_eq_true, if_false, h2, Option.toList_some]
    intro st' hst'
    rw [List.mem_singleton.mp hst']
    exact h3

/-! ### one statement -/

theorem ofString_probe : Bytes.ofString ";X" = 59 :: probeX := by decide
theorem ofString_sep : Bytes.ofString ";\n" = sep := by decide

theorem isSome_compileCli (src : Bytes) :
    (compileCli src).isSome = match compile [] src with | .ok _ => true | _ => false := by
  unfold compileCli
  cases compile [] src <;> rfl

/-- **Deliverable 3 (the probe is sound).**  With accepted lets `ls`, the test
    `Compile(prelude ++ l ++ ";X")` the tool makes for a piece `l` that starts with `let` succeeds
    iff the library accepts `l` with the statements of `ls` in scope: the dummy query `X` adds
    nothing. -/
theorem probe_iff (ls : List Bytes) (hls : ∀ l ∈ ls, AcceptedLet l) (l : Bytes) (hl : TermPiece l)
    (hlet : isLetStatement l = true) :
    (compileCli (preludeOf ls ++ l ++ Bytes.ofString ";X")).isSome = letAccepts (letsOf ls) l := by
  have hlets := allLets_of_isLetStatement l hl.2 hlet
  have hL : AllLets (letsOf ls ++ (parse l).1) := by
    intro st hst
    rcases List.mem_append.mp hst with h | h
    · exact allLets_letsOf (fun l hl => (hls l hl).2.2) st h
    · exact hlets st h
  rw [ofString_probe, isSome_compileCli, probe_compile ls hls l hl.1 hlets, letAccepts]
  by_cases hs : (parse l).2 = []
  · rw [if_pos hs, compileWithLets_probeX _ hL, hs]
    cases compileStmts [] (letsOf ls ++ (parse l).1) [] none with
    | ok r => rfl
    | error e => cases e <;> rfl
  · rw [if_neg hs]
    cases hp : (parse l).2 with
    | nil => exact absurd hp hs
    | cons _ _ => rfl

theorem query_eq (ls : List Bytes) (hls : ∀ l ∈ ls, AcceptedLet l) (s : Bytes) :
    queryOutcome compileCli (preludeOf ls) s = queryResult (letsOf ls) s := by
  unfold queryOutcome queryResult compileCli
  rw [prelude_compile ls hls s]
  cases compileWithLets (letsOf ls) s <;> rfl

theorem outcome_eq (ls : List Bytes) (hls : ∀ l ∈ ls, AcceptedLet l) (s : Bytes) (hs : TermPiece s) :
    outcome compileCli (preludeOf ls) s = semOutcome (letsOf ls) s := by
  unfold outcome semOutcome
  by_cases hl : isLetStatement s = true
  · rw [if_pos hl, if_pos hl, probe_iff ls hls s hs hl]
  · rw [if_neg hl, if_neg hl, query_eq ls hls s]

theorem letsOf_snoc (ls : List Bytes) (l : Bytes) : letsOf (ls ++ [l]) = letsOf ls ++ (parse l).1 := by
  simp [letsOf]

theorem acceptedLet_of_accepts (lets : List Stmt) (l : Bytes) (hl : TermPiece l)
    (hlet : isLetStatement l = true) (h : letAccepts lets l = true) : AcceptedLet l := by
  refine ⟨hl.1, ?_, allLets_of_isLetStatement l hl.2 hlet⟩
  simp only [letAccepts, Bool.and_eq_true, List.isEmpty_iff] at h
  exact h.1

theorem accepted_semOutcome (lets : List Stmt) (s : Bytes) (h : (semOutcome lets s).accepted = true) :
    isLetStatement s = true ∧ letAccepts lets s = true := by
  unfold semOutcome at h
  by_cases hl : isLetStatement s = true
  · rw [if_pos hl] at h
    by_cases ha : letAccepts lets s = true
    · exact ⟨hl, ha⟩
    · rw [if_neg ha] at h; cases h
  · rw [if_neg hl] at h
    unfold queryResult at h
    split at h <;> cases h

/-! ### all terminated statements -/

/-- the records of the tool, started with the prelude of accepted lets `ls`, are the semantic
    outcomes started with their statements in scope; the prelude afterwards is again the text of
    accepted lets, whose statements are the semantic scope -/
theorem steps_eq (ss : List Bytes) : ∀ (ls : List Bytes), (∀ l ∈ ls, AcceptedLet l) →
    (∀ s ∈ ss, TermPiece s) →
    (steps compileCli (preludeOf ls) ss).map (·.res) = (semSteps (letsOf ls) ss).1 ∧
      ∃ ls', (∀ l ∈ ls', AcceptedLet l) ∧
        preludeAfter (preludeOf ls) (steps compileCli (preludeOf ls) ss) = preludeOf ls' ∧
        (semSteps (letsOf ls) ss).2 = letsOf ls' := by
  induction ss with
  | nil =>
    intro ls hls _
    exact ⟨rfl, ls, hls, by simp [steps, preludeAfter_nil], rfl⟩
  | cons s ss ih =>
    intro ls hls hss
    have hs := hss s (by simp)
    have hss' : ∀ s' ∈ ss, TermPiece s' := fun s' h => hss s' (by simp [h])
    have ho := outcome_eq ls hls s hs
    simp only [steps, semSteps, List.map_cons, preludeAfter_cons, ho]
    by_cases hacc : (semOutcome (letsOf ls) s).accepted = true
    · obtain ⟨hl1, hl2⟩ := accepted_semOutcome _ _ hacc
      have hA := acceptedLet_of_accepts _ s hs hl1 hl2
      have hls' : ∀ l ∈ ls ++ [s], AcceptedLet l := by
        intro l hl
        rcases List.mem_append.mp hl with h | h
        · exact hls l h
        · rw [List.mem_singleton.mp h]; exact hA
      have hp : preludeOf ls ++ s ++ Bytes.ofString ";\n" = preludeOf (ls ++ [s]) := by
        rw [ofString_sep, preludeOf_snoc]; rfl
      simp only [hacc, if_true, hp, ← letsOf_snoc]
      obtain ⟨i1, i2⟩ := ih (ls ++ [s]) hls' hss'
      exact ⟨by rw [i1], i2⟩
    · simp only [hacc, Bool.false_eq_true, if_false]
      obtain ⟨i1, i2⟩ := ih ls hls hss'
      exact ⟨by rw [i1], i2⟩

/-- **all outcomes of the tool are the semantic outcomes** -/
theorem allOutcomes_eq (text : Bytes) :
    allOutcomes compileCli (splitStatements text) = semAll (splitStatements text) := by
  unfold allOutcomes semAll
  obtain ⟨h1, ls', h2, h3, h4⟩ := steps_eq (splitStatements text).dropLast [] (by simp)
    (termPiece_of_split text)
  have e0 : preludeOf [] = ([] : Bytes) := rfl
  have e1 : letsOf [] = ([] : List Stmt) := rfl
  rw [e0] at h1 h3
  rw [e1] at h1 h4
  simp only [h1, h3, h4, finalOutcome]
  congr 1
  split
  · rfl
  · rw [query_eq ls' h2]

end Pql.CliSem
