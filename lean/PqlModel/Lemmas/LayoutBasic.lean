/-
Layout independence: the basic commutation facts (tokens at position 0, `keepNull`, errors,
`split`, `splitSemi`, `endSplit`, `pIdent`, `pQualifiedIdent`).
-/
import PqlModel.Lemmas.LayoutDefs
set_option linter.unusedSimpArgs false
namespace Pql.Layout
open Pql

/-- the image of a production's result: value mapped by `g`, error positions by `keepNull`,
    remaining tokens moved to position 0 -/
def mp {α β} (g : α → β) (r : PRes α) : PRes β := ⟨g r.val, mapErrs keepNull r.errs, r.rest.map np⟩

@[simp] theorem mp_val {α β} (g : α → β) (r : PRes α) : (mp g r).val = g r.val := rfl
@[simp] theorem mp_errs {α β} (g : α → β) (r : PRes α) : (mp g r).errs = mapErrs keepNull r.errs := rfl
@[simp] theorem mp_rest {α β} (g : α → β) (r : PRes α) : (mp g r).rest = r.rest.map np := rfl
theorem mp_mk {α β} (g : α → β) (v : α) (e : Errs) (r : List Token) :
    mp g ⟨v, e, r⟩ = ⟨g v, mapErrs keepNull e, r.map np⟩ := rfl

/-- `split` on an `if` whose condition occurs on both sides of the goal: decide it everywhere -/
macro "csplit" : tactic =>
  `(tactic| (split <;> (rename_i hsp; try simp only [hsp, if_true, if_false, not_true_eq_false,
      not_false_eq_true, ne_eq, Bool.false_eq_true, Bool.not_true, Bool.not_false])))

/-! ### tokens and spans -/

@[simp] theorem np_kind (t : Token) : (np t).kind = t.kind := rfl
@[simp] theorem np_value (t : Token) : (np t).value = t.value := rfl
@[simp] theorem np_start (t : Token) : (np t).start = 0 := rfl
@[simp] theorem np_stop (t : Token) : (np t).stop = 0 := rfl
@[simp] theorem np_span (t : Token) : (np t).span = Span.zero := rfl
@[simp] theorem np_np (t : Token) : np (np t) = np t := rfl

theorem keepNull_nat (a b : Nat) : keepNull ⟨(a : Int), (b : Int)⟩ = Span.zero := by
  have : (⟨(a : Int), (b : Int)⟩ : Span) ≠ Span.null := by
    intro h
    have := congrArg Span.start h
    simp only [Span.null] at this
    omega
  simp only [keepNull, this, if_false]

@[simp] theorem keepNull_span (t : Token) : keepNull t.span = Span.zero := keepNull_nat _ _
@[simp] theorem keepNull_startstop (t u : Token) : keepNull ⟨(t.start : Int), (u.stop : Int)⟩ = Span.zero :=
  keepNull_nat _ _
@[simp] theorem keepNull_spanstart (t u : Token) : keepNull ⟨t.span.start, (u.stop : Int)⟩ = Span.zero :=
  keepNull_nat _ _
@[simp] theorem keepNull_null : keepNull Span.null = Span.null := rfl
@[simp] theorem keepNull_zero : keepNull Span.zero = Span.zero := rfl
@[simp] theorem keepNull_eof (c : PCtx) : keepNull c.eof = Span.zero := keepNull_nat _ _
@[simp] theorem c0_eof : c0.eof = Span.zero := rfl
@[simp] theorem zero_startstop : (⟨((0 : Nat) : Int), ((0 : Nat) : Int)⟩ : Span) = Span.zero := rfl
@[simp] theorem zero_spanstart : (⟨Span.zero.start, ((0 : Nat) : Int)⟩ : Span) = Span.zero := rfl

@[simp] theorem isIdentNamed_np (t : Token) (s : String) : isIdentNamed (np t) s = isIdentNamed t s := rfl

/-! ### errors -/

@[simp] theorem mapErrs_nil (f : Span → Span) : mapErrs f [] = [] := rfl
@[simp] theorem mapErrs_append (f : Span → Span) (a b : Errs) :
    mapErrs f (a ++ b) = mapErrs f a ++ mapErrs f b := List.map_append
@[simp] theorem mapErrs_errAt (f : Span → Span) (s : Span) : mapErrs f (errAt s) = errAt (f s) := rfl
@[simp] theorem mapErrs_nfAt (f : Span → Span) (s : Span) : mapErrs f (nfAt s) = nfAt (f s) := rfl
@[simp] theorem mapErrs_errNoPos (f : Span → Span) : mapErrs f errNoPos = errNoPos := rfl
@[simp] theorem mapErrs_errFuel (f : Span → Span) : mapErrs f errFuel = errFuel := rfl

@[simp] theorem mapErrs_eq_nil (f : Span → Span) (es : Errs) : mapErrs f es = [] ↔ es = [] := by
  simp only [mapErrs, List.map_eq_nil_iff]

@[simp] theorem mkOpaque_mapErrs (f : Span → Span) (es : Errs) :
    mkOpaque (mapErrs f es) = mapErrs f (mkOpaque es) := by
  simp only [mkOpaque, mapErrs, List.map_map]
  rfl

@[simp] theorem isNF_mapErrs (f : Span → Span) (es : Errs) : isNF (mapErrs f es) = isNF es := by
  simp only [isNF, mapErrs, List.any_map]
  rfl

@[simp] theorem endSplit_np (ts : List Token) : endSplit (ts.map np) = mapErrs keepNull (endSplit ts) := by
  cases ts with
  | nil => rfl
  | cons t ts => simp only [List.map_cons, endSplit, np_span, mapErrs_errAt, keepNull_span]

@[simp] theorem endSplit_nil : endSplit [] = [] := rfl
@[simp] theorem endSplit_cons (t : Token) (ts : List Token) : endSplit (t :: ts) = errAt t.span := rfl

theorem mapErrs_length (f : Span → Span) (es : Errs) : (mapErrs f es).length = es.length := List.length_map _

/-! ### split -/

theorem splitAux_np (search : TokKind) (ts : List Token) : ∀ stack,
    splitAux search stack (ts.map np) =
      ((splitAux search stack ts).1.map np, (splitAux search stack ts).2.map np) := by
  induction ts with
  | nil => intro stack; rfl
  | cons t ts ih =>
    intro stack
    simp only [List.map_cons, splitAux, np_kind]
    repeat' split
    all_goals simp_all only [ih, List.map_cons, List.map_nil, if_true, if_false, not_true_eq_false,
      not_false_eq_true, ne_eq]

@[simp] theorem split_np_fst (search : TokKind) (ts : List Token) :
    (split search (ts.map np)).1 = (split search ts).1.map np := by
  simp only [split, splitAux_np]
@[simp] theorem split_np_snd (search : TokKind) (ts : List Token) :
    (split search (ts.map np)).2 = (split search ts).2.map np := by
  simp only [split, splitAux_np]

theorem splitSemi_np (ts : List Token) :
    splitSemi (ts.map np) = ((splitSemi ts).1.map np, (splitSemi ts).2.map np) := by
  induction ts with
  | nil => rfl
  | cons t ts ih =>
    simp only [List.map_cons, splitSemi, np_kind]
    split
    · simp_all only [List.map_cons, List.map_nil, if_true]
    · simp_all only [ih, List.map_cons, if_false]

@[simp] theorem splitSemi_np_fst (ts : List Token) : (splitSemi (ts.map np)).1 = (splitSemi ts).1.map np := by
  rw [splitSemi_np]
@[simp] theorem splitSemi_np_snd (ts : List Token) : (splitSemi (ts.map np)).2 = (splitSemi ts).2.map np := by
  rw [splitSemi_np]

/-! ### identifiers -/

theorem pIdent_np (c : PCtx) (ts : List Token) :
    pIdent c0 (ts.map np) = mp (Option.map (mapIdent keepNull)) (pIdent c ts) := by
  cases ts with
  | nil => simp [pIdent, mp_mk]
  | cons t ts =>
    simp only [List.map_cons, pIdent, np_kind]
    split <;> simp [mp_mk, mapIdent] <;> rfl

theorem pQualTail_np (c : PCtx) (n : Nat) : ∀ (parts : List Ident) (ts : List Token),
    pQualTail c0 n (parts.map (mapIdent keepNull)) (ts.map np) =
      mp (List.map (mapIdent keepNull)) (pQualTail c n parts ts) := by
  induction n with
  | zero => intro parts ts; simp [pQualTail, mp_mk]
  | succ n ih =>
    intro parts ts
    cases ts with
    | nil => simp [pQualTail, mp_mk]
    | cons t rest =>
      simp only [List.map_cons, pQualTail, np_kind]
      split
      · rw [pIdent_np c rest]
        simp only [mp_val, mp_errs, mp_rest]
        cases h : (pIdent c rest).val with
        | none => simp [mp_mk]
        | some sel =>
          simp only [Option.map_some]
          rw [← ih]
          simp
      · simp [mp_mk]

theorem pQualifiedIdent_np (c : PCtx) (ts : List Token) :
    pQualifiedIdent c0 (ts.map np) =
      mp (Option.map (List.map (mapIdent keepNull))) (pQualifiedIdent c ts) := by
  simp only [pQualifiedIdent, pIdent_np c ts, mp_val, mp_errs, mp_rest]
  cases h : (pIdent c ts).val with
  | none => simp [mp_mk]
  | some id =>
    simp only [Option.map_some, List.length_map]
    have := pQualTail_np c ((pIdent c ts).rest.length + 1) [id] (pIdent c ts).rest
    simp only [List.map_cons, List.map_nil] at this
    rw [this]
    simp [mp_mk]

end Pql.Layout
