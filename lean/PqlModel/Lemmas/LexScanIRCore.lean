/-
Symbolic execution of the small translated functions in the interpreter of Model/LexScanIR.lean:
parser/span.go `newSpan`, `indexSpan`, `Span.IsValid`, `spanString`, the cursor `next` / `prev`, the rune
classes `isAlpha`, `isDigit`, `isHexDigit`, `errorToken`.  Each lemma is about the expected tree
(Lemmas/LexScanIRDecls.lean) interpreted in ANY environment that has the callees with their specified
behaviour; `Spec…` predicates say what a callee does.  Then the cursor on a string `pre ++ s` (`hp`)
and the rune `next` delivers there versus the byte of the model.
-/
import PqlModel.Lemmas.LexScanIRDecls
import PqlModel.Lemmas.LexIRCursor
namespace Pql.ScanIR
open Pql
open Pql.LexIR (IErr M BinOp goPanic stuck irOf)
set_option linter.unusedSimpArgs false
set_option linter.unusedVariables false

/-- symbolic execution of the interpreter by `simp` (without unfolding `sliceVal`) -/
syntax "ls_simp_ns" (" [" Lean.Parser.Tactic.simpLemma,* "]")? : tactic
macro_rules
  | `(tactic| ls_simp_ns) => `(tactic| ls_simp_ns [])
  | `(tactic| ls_simp_ns [$ls,*]) =>
    `(tactic| simp [interpFn, paramList, bindParams, zeroVal, storeFld,
        execBlock, exec, eval, evalArgs, evalCall, getVar, State.declare, State.assign, State.leave, assignIn,
        fldOf, valEq, binVal, lenVal, boundOf, single, stuck, goPanic, bind, Except.bind, pure, Except.pure,
        Except.map, eS, eC, ePos, eLast, eSrc, eNext, sPrev, cIs, cIsNot, eOk, notOk, setNext, defNext, spanHere,
        errHere, push, symTok, pushSym, pushSub, inRange, $ls,*])

syntax "ls_simp" (" [" Lean.Parser.Tactic.simpLemma,* "]")? : tactic
macro_rules
  | `(tactic| ls_simp) => `(tactic| ls_simp_ns [sliceVal])
  | `(tactic| ls_simp [$ls,*]) => `(tactic| ls_simp_ns [sliceVal, $ls,*])

theorem ofString_empty : Bytes.ofString "" = [] := by decide
theorem ofString_bq : Bytes.ofString "`" = [96] := by decide
theorem ofString_bq2 : Bytes.ofString "``" = [96, 96] := by decide
theorem kind_error : TokKind.ofGoName "TokenError" = some .error := by decide
theorem kind_ident : TokKind.ofGoName "TokenIdentifier" = some .ident := by decide
theorem kind_qident : TokKind.ofGoName "TokenQuotedIdentifier" = some .qident := by decide
theorem kind_string : TokKind.ofGoName "TokenString" = some .string := by decide

/-! ### environments -/

theorem extend_self (env : Env) (k : String) (f : Fn) : extend env k f k = some f := by simp [extend]
theorem extend_other (env : Env) (k n : String) (f : Fn) (h : n ≠ k) : extend env k f n = env n := by
  simp [extend, h]

/-- a name that is not among the added keys keeps its meaning -/
theorem layer_other (tbl : List (String × List (List String))) (fuel : Nat) (n : String) :
    ∀ (keys : List String) (env : Env), n ∉ keys → layer tbl fuel keys env n = env n
  | [], _, _ => rfl
  | k :: ks, env, h => by
    rw [layer, layer_other tbl fuel n ks _ (fun hm => h (List.mem_cons_of_mem _ hm))]
    exact extend_other _ _ _ _ (fun e => h (e ▸ List.mem_cons_self))

theorem layer_append (tbl : List (String × List (List String))) (fuel : Nat) :
    ∀ (a b : List String) (env : Env), layer tbl fuel (a ++ b) env = layer tbl fuel b (layer tbl fuel a env)
  | [], _, _ => rfl
  | k :: ks, b, env => by simp only [List.cons_append, layer, layer_append tbl fuel ks b]

/-- the key `k` of a layered environment is the function `k` of the table interpreted in the
    environment of the keys before it -/
theorem layer_at (tbl : List (String × List (List String))) (fuel : Nat) (pre : List String) (k : String)
    (post : List String) (env : Env) (hk : k ∉ post) :
    layer tbl fuel (pre ++ k :: post) env k = some (fnOf tbl (layer tbl fuel pre env) fuel k) := by
  rw [layer_append, layer, layer_other tbl fuel k post _ hk, extend_self]

/-- `env` has the primitive `name` -/
def HasPrim (env : Env) (name : String) : Prop := env name = prims name

/-! ### specifications of the callees -/

def SpecNewSpan (f : Fn) : Prop := ∀ a b h, f [.int a, .int b] h = .ok ([.span a b], h)
def SpecIndexSpan (f : Fn) : Prop := ∀ a h, f [.int a] h = .ok ([.span a a], h)
def SpecIsValid (f : Fn) : Prop := ∀ a b h, f [.span a b] h = .ok ([.bool (decide (a ≤ b))], h)
def SpecSpanString (f : Fn) : Prop := ∀ s a b h, a ≤ b → b ≤ s.length →
  f [.str s, .span a b] h = .ok ([.str ((s.drop a).take (b - a))], h)
def SpecPrev (f : Fn) : Prop := ∀ h : Store, f [.scanner] h = .ok ([], { h with pos := h.last })
/-- `s.next()`: at the end (0, false); else the rune at the cursor, the cursor after it, `last` before it -/
def SpecNext (f : Fn) : Prop := ∀ h : Store,
  f [.scanner] h = .ok (if h.src.length ≤ h.pos then ([.int 0, .bool false], h)
    else ([.int (decodeRune (h.src.drop h.pos)).1, .bool true],
      { h with pos := h.pos + (decodeRune (h.src.drop h.pos)).2, last := h.pos }))

/-- the rune classes as the Go code states them -/
def alphaR (r : Nat) : Bool := (decide (97 ≤ r) && decide (r ≤ 122)) || (decide (65 ≤ r) && decide (r ≤ 90))
def digitR (r : Nat) : Bool := decide (48 ≤ r) && decide (r ≤ 57)
def hexR (r : Nat) : Bool :=
  digitR r || (decide (97 ≤ r) && decide (r ≤ 102)) || (decide (65 ≤ r) && decide (r ≤ 70))

def SpecIsAlpha (f : Fn) : Prop := ∀ r h, f [.int r] h = .ok ([.bool (alphaR r)], h)
def SpecIsDigit (f : Fn) : Prop := ∀ r h, f [.int r] h = .ok ([.bool (digitR r)], h)
def SpecIsHexDigit (f : Fn) : Prop := ∀ r h, f [.int r] h = .ok ([.bool (hexR r)], h)
/-- `errorToken(span, format, args…)`: kind and span; the message is not modelled -/
def SpecErrorToken (f : Fn) : Prop :=
  ∀ a b m extra h, f (.span a b :: .str m :: extra) h = .ok ([.tok .error a b []], h)

/-! ### parser/span.go -/

theorem newSpan_spec (env : Env) (fuel : Nat) : SpecNewSpan (interpFn env fuel newSpanDecl) := by
  intro a b h
  unfold newSpanDecl
  ls_simp

theorem indexSpan_spec (env : Env) (fuel : Nat) : SpecIndexSpan (interpFn env fuel indexSpanDecl) := by
  intro a h
  unfold indexSpanDecl
  ls_simp

theorem spanIsValid_spec (env : Env) (fuel : Nat) : SpecIsValid (interpFn env fuel spanIsValidDecl) := by
  intro a b h
  unfold spanIsValidDecl
  ls_simp

theorem spanString_spec (env : Env) (fuel : Nat) (fv : Fn) (hv : env "Span.IsValid" = some fv) (sv : SpecIsValid fv) :
    SpecSpanString (interpFn env fuel spanStringDecl) := by
  intro s a b h hab hb
  unfold spanStringDecl
  ls_simp [hv, sv a b h, hab, hb]

/-! ### the cursor -/

theorem prev_spec (env : Env) (fuel : Nat) : SpecPrev (interpFn env fuel prevDecl) := by
  intro h
  unfold prevDecl
  ls_simp

theorem next_spec (env : Env) (fuel : Nat) (hd : HasPrim env "utf8.DecodeRuneInString") :
    SpecNext (interpFn env fuel nextDecl) := by
  intro h
  unfold nextDecl
  unfold HasPrim at hd
  by_cases hp : h.src.length ≤ h.pos
  · ls_simp [hp]
  · have h2 : h.pos ≤ h.src.length := by omega
    have h3 : List.take (h.src.length - h.pos) (List.drop h.pos h.src) = List.drop h.pos h.src :=
      List.take_of_length_le (by simp)
    ls_simp [hp, hd, prims, h2, h3]

/-! ### the rune classes, `errorToken` -/

theorem isAlpha_spec (env : Env) (fuel : Nat) : SpecIsAlpha (interpFn env fuel isAlphaDecl) := by
  intro r h
  unfold isAlphaDecl alphaR
  by_cases h1 : 97 ≤ r <;> by_cases h2 : r ≤ 122 <;> by_cases h3 : 65 ≤ r <;> by_cases h4 : r ≤ 90 <;>
    ls_simp [h1, h2, h3, h4]

theorem isDigit_spec (env : Env) (fuel : Nat) : SpecIsDigit (interpFn env fuel isDigitDecl) := by
  intro r h
  unfold isDigitDecl digitR
  by_cases h1 : 48 ≤ r <;> by_cases h2 : r ≤ 57 <;> ls_simp [h1, h2]

theorem isHexDigit_spec (env : Env) (fuel : Nat) (fd : Fn) (hd : env "isDigit" = some fd) (sd : SpecIsDigit fd) :
    SpecIsHexDigit (interpFn env fuel isHexDigitDecl) := by
  intro r h
  unfold isHexDigitDecl hexR
  cases hdg : digitR r <;>
    by_cases h1 : 97 ≤ r <;> by_cases h2 : r ≤ 102 <;> by_cases h3 : 65 ≤ r <;> by_cases h4 : r ≤ 70 <;>
    ls_simp [hd, sd r h, hdg, h1, h2, h3, h4]

theorem errorToken_spec (env : Env) (fuel : Nat) (hd : HasPrim env "fmt.Sprintf") :
    SpecErrorToken (interpFn env fuel errorTokenDecl) := by
  intro a b m extra h
  unfold errorTokenDecl
  unfold HasPrim at hd
  ls_simp [hd, prims, kind_error]

/-! ### the cursor on `pre ++ s` -/

/-- the scanner on `pre ++ s`, cursor `k` bytes into `s` -/
def hp (pre s : Bytes) (k l : Nat) (bs : List (Nat × Bytes)) : Store := ⟨pre ++ s, pre.length + k, l, bs⟩

@[simp] theorem hp_pos (pre s : Bytes) (k l : Nat) (bs : List (Nat × Bytes)) : (hp pre s k l bs).pos = pre.length + k := rfl
@[simp] theorem hp_last (pre s : Bytes) (k l : Nat) (bs : List (Nat × Bytes)) : (hp pre s k l bs).last = l := rfl
@[simp] theorem hp_src (pre s : Bytes) (k l : Nat) (bs : List (Nat × Bytes)) : (hp pre s k l bs).src = pre ++ s := rfl
@[simp] theorem hp_blds (pre s : Bytes) (k l : Nat) (bs : List (Nat × Bytes)) : (hp pre s k l bs).blds = bs := rfl

theorem next_end {f : Fn} (sf : SpecNext f) (pre s : Bytes) (k l : Nat) (bs : List (Nat × Bytes)) (hk : s.length ≤ k) :
    f [.scanner] (hp pre s k l bs) = .ok ([.int 0, .bool false], hp pre s k l bs) := by
  rw [sf]
  have : (pre ++ s).length ≤ pre.length + k := by simp; omega
  simp [hp, this, hk]

theorem next_cons {f : Fn} (sf : SpecNext f) (pre s : Bytes) (k l : Nat) (bs : List (Nat × Bytes)) (c : UInt8) (rest : Bytes)
    (hd : s.drop k = c :: rest) :
    f [.scanner] (hp pre s k l bs) = .ok ([.int (decodeRune (c :: rest)).1, .bool true],
      hp pre s (k + (decodeRune (c :: rest)).2) (pre.length + k) bs) := by
  rw [sf]
  have hlt : k < s.length := LexIR.lt_of_drop_cons hd
  have : ¬ (pre ++ s).length ≤ pre.length + k := by simp; omega
  simp only [hp, this, if_false, LexIR.drop_hp, hd, Nat.add_assoc]

theorem next_cons' {f : Fn} (sf : SpecNext f) (pre s : Bytes) (k l : Nat) (bs : List (Nat × Bytes)) (c : UInt8) (rest : Bytes)
    (r w : Nat) (hd : s.drop k = c :: rest) (hr : decodeRune (c :: rest) = (r, w)) :
    f [.scanner] (hp pre s k l bs) = .ok ([.int r, .bool true], hp pre s (k + w) (pre.length + k) bs) := by
  rw [next_cons sf pre s k l bs c rest hd, hr]

/-- `s.prev()` right after a `s.next()` that started at `k` -/
theorem prev_hp {f : Fn} (sf : SpecPrev f) (pre s : Bytes) (k k' : Nat) (bs : List (Nat × Bytes)) :
    f [.scanner] (hp pre s k' (pre.length + k) bs) = .ok ([], hp pre s k (pre.length + k) bs) := by
  rw [sf]; rfl

/-! ### the rune at the cursor against the byte of the model -/

theorem alphaR_byte (c : UInt8) (h : c.toNat < 128) : alphaR c.toNat = isAlpha c := by
  simp [alphaR, isAlpha, inRanges, Facts.isAlphaRanges]

theorem digitR_byte (c : UInt8) (h : c.toNat < 128) : digitR c.toNat = isDigit c := by
  simp [digitR, isDigit, inRanges, Facts.isDigitRanges]

theorem isAlpha_lt (c : UInt8) (h : isAlpha c = true) : c.toNat < 128 := by
  simp [isAlpha, inRanges, Facts.isAlphaRanges] at h; omega

theorem alphaR_rune (c : UInt8) (rest : Bytes) : alphaR (decodeRune (c :: rest)).1 = isAlpha c := by
  by_cases h : c.toNat < 128
  · rw [Dispatch.decodeRune_ascii' c rest h]; exact alphaR_byte c h
  · have hge := Dispatch.decodeRune_rune_ge c rest (by omega)
    have h1 : isAlpha c = false := by
      cases hd : isAlpha c with
      | false => rfl
      | true => exact absurd (isAlpha_lt c hd) h
    rw [h1]
    simp [alphaR]; omega

theorem digitR_rune (c : UInt8) (rest : Bytes) : digitR (decodeRune (c :: rest)).1 = isDigit c := by
  by_cases h : c.toNat < 128
  · rw [Dispatch.decodeRune_ascii' c rest h]; exact digitR_byte c h
  · have hge := Dispatch.decodeRune_rune_ge c rest (by omega)
    have h1 : isDigit c = false := by
      cases hd : isDigit c with
      | false => rfl
      | true => exact absurd (LexIR.isDigit_lt c hd) h
    rw [h1]
    simp [digitR]; omega

/-- everything the proofs use about the rune at a byte -/
theorem rune_facts (c : UInt8) (rest : Bytes) : ∃ r w, decodeRune (c :: rest) = (r, w) ∧ 1 ≤ w ∧
    (∀ n, n < 128 → (r = n ↔ c = UInt8.ofNat n)) ∧
    alphaR r = isAlpha c ∧ digitR r = isDigit c ∧
    (c.toNat < 128 → w = 1) ∧ (128 ≤ c.toNat → 128 ≤ r) :=
  ⟨(decodeRune (c :: rest)).1, (decodeRune (c :: rest)).2, rfl, decodeRune_width_pos c rest,
    fun n hn => LexIR.rune_eq c rest n hn, alphaR_rune c rest, digitR_rune c rest, LexIR.width_ascii c rest,
    Dispatch.decodeRune_rune_ge c rest⟩

/-- what the cursor-level code calls -/
structure CursorEnv (env : Env) : Prop where
  next : ∃ f, env "scanner.next" = some f ∧ SpecNext f
  prev : ∃ f, env "scanner.prev" = some f ∧ SpecPrev f
  newSpan : ∃ f, env "newSpan" = some f ∧ SpecNewSpan f
  indexSpan : ∃ f, env "indexSpan" = some f ∧ SpecIndexSpan f
  spanString : ∃ f, env "spanString" = some f ∧ SpecSpanString f
  isAlpha : ∃ f, env "isAlpha" = some f ∧ SpecIsAlpha f
  isDigit : ∃ f, env "isDigit" = some f ∧ SpecIsDigit f
  errorToken : ∃ f, env "errorToken" = some f ∧ SpecErrorToken f

/-- the token of a lexeme that starts at `p` -/
def tokAt (p : Nat) (l : Lexeme) : Val := .tok l.kind p (p + l.width) l.value

end Pql.ScanIR
