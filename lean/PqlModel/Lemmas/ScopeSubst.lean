/-
One binding, substituted: writing `e` with `n` bound to the (tightly wrapped) text of `v`
versus writing `substExpr [(n, v)] e` without the binding.  Generic in the relation between
the two outputs (`ChunkCong R` plus the two base facts about the bound occurrence itself), so
that the same induction gives the exact statement for atoms and the statement up to
parentheses in general.
-/
import PqlModel.Lemmas.ScopeParen
import PqlModel.Lemmas.ScopeEq
import PqlModel.Spec.CompileOracle
namespace Pql
open CompileOracle

/-- is `x` (under source parentheses) the unquoted single-part identifier `n`? -/
def isVar (n : Bytes) : Expr → Bool
  | .paren _ x _ => isVar n x
  | .qident [p] => !p.quoted && n == p.name
  | _ => false

theorem find?_single (n : Bytes) (v : Expr) (name : Bytes) :
    List.find? (fun kv => kv.1 == name) [(n, v)] = if n == name then some (n, v) else none := by
  rw [List.find?_cons]
  cases n == name <;> rfl

theorem needsWrap_qident (parts : List Ident) : needsWrap (.qident parts) = false := by
  simp only [needsWrap, exprTypeName]
  decide

theorem needsWrap_of_isSigned : (x : Expr) → isSigned x = true → needsWrap x = false
  | .paren _ x _, h => by
    simp only [isSigned] at h
    simp only [needsWrap]
    exact needsWrap_of_isSigned x h
  | .unary .., _ => by
    simp only [needsWrap, exprTypeName]
    decide
  | .nil, h => by simp [isSigned] at h
  | .qident _, h => by simp [isSigned] at h
  | .lit .., h => by simp [isSigned] at h
  | .binary .., h => by simp [isSigned] at h
  | .inE .., h => by simp [isSigned] at h
  | .call .., h => by simp [isSigned] at h
  | .index .., h => by simp [isSigned] at h

section
variable (n : Bytes) (v : Expr)

/-- shape of a substituted bound occurrence -/
theorem subst_isVar : (x : Expr) → isVar n x = true →
    needsWrap (substExpr [(n, v)] x) = needsWrap v ∧ isSigned (substExpr [(n, v)] x) = isSigned v ∧
      needsWrap x = false ∧ isSigned x = false
  | .paren _ x _, h => by
    simp only [isVar] at h
    simp only [substExpr, needsWrap, isSigned]
    exact subst_isVar x h
  | .qident [p], h => by
    simp only [isVar, Bool.and_eq_true, Bool.not_eq_true'] at h
    simp only [substExpr, h.1, find?_single, h.2, if_true, Bool.false_eq_true, if_false]
    refine ⟨by simp only [needsWrap], by simp only [isSigned], needsWrap_qident _, by simp only [isSigned]⟩
  | .qident [], h => by simp [isVar] at h
  | .qident (_ :: _ :: _), h => by simp [isVar] at h
  | .nil, h => by simp [isVar] at h
  | .lit .., h => by simp [isVar] at h
  | .unary .., h => by simp [isVar] at h
  | .binary .., h => by simp [isVar] at h
  | .inE .., h => by simp [isVar] at h
  | .call .., h => by simp [isVar] at h
  | .index .., h => by simp [isVar] at h

/-- substitution keeps the shape of everything that is not a bound occurrence -/
theorem subst_not_isVar : (x : Expr) → isVar n x = false →
    needsWrap (substExpr [(n, v)] x) = needsWrap x ∧ isSigned (substExpr [(n, v)] x) = isSigned x
  | .paren _ x _, h => by
    simp only [isVar] at h
    simp only [substExpr, needsWrap, isSigned]
    exact subst_not_isVar x h
  | .qident [p], h => by
    simp only [isVar] at h
    simp only [substExpr, find?_single]
    cases hq : p.quoted with
    | true => simp
    | false =>
      simp only [hq, Bool.not_false, Bool.true_and] at h
      simp [h]
  | .qident [], _ => by simp [substExpr]
  | .qident (_ :: _ :: _), _ => by simp [substExpr]
  | .nil, _ => by simp [substExpr]
  | .lit .., _ => by simp [substExpr]
  | .unary .., _ => by simp [substExpr, needsWrap, isSigned, exprTypeName]
  | .binary .., _ => by simp [substExpr, needsWrap, isSigned, exprTypeName]
  | .inE .., _ => by simp [substExpr, needsWrap, isSigned, exprTypeName]
  | .call .., _ => by simp [substExpr, needsWrap, isSigned]
  | .index .., _ => by simp [substExpr, needsWrap, isSigned, exprTypeName]

end

/-! ### the bound occurrence itself -/

theorem write_isVar_scope {src : Bytes} {s : Scope} {m : Mode} {n : Bytes} (w : List Chunk) :
    (x : Expr) → isVar n x = true → writeExpr ⟨src, (n, w) :: s, m⟩ x = .ok w
  | .paren _ x _, h => by
    simp only [isVar] at h
    simp only [writeExpr]
    exact write_isVar_scope w x h
  | .qident [p], h => by
    simp only [isVar, Bool.and_eq_true, Bool.not_eq_true'] at h
    simp [writeExpr, lookupScope_cons, h.1, h.2]
  | .qident [], h => by simp [isVar] at h
  | .qident (_ :: _ :: _), h => by simp [isVar] at h
  | .nil, h => by simp [isVar] at h
  | .lit .., h => by simp [isVar] at h
  | .unary .., h => by simp [isVar] at h
  | .binary .., h => by simp [isVar] at h
  | .inE .., h => by simp [isVar] at h
  | .call .., h => by simp [isVar] at h
  | .index .., h => by simp [isVar] at h

theorem write_isVar_subst {src : Bytes} {s : Scope} {m : Mode} {n : Bytes} {v : Expr} {bv : List Chunk}
    (hv : writeExpr ⟨src, s, m⟩ v = .ok bv) :
    (x : Expr) → isVar n x = true → writeExpr ⟨src, s, m⟩ (substExpr [(n, v)] x) = .ok bv
  | .paren _ x _, h => by
    simp only [isVar] at h
    simp only [substExpr, writeExpr]
    exact write_isVar_subst hv x h
  | .qident [p], h => by
    simp only [isVar, Bool.and_eq_true, Bool.not_eq_true'] at h
    simp only [substExpr, h.1, find?_single, h.2, if_true, Bool.false_eq_true, if_false, writeExpr]
    exact hv
  | .qident [], h => by simp [isVar] at h
  | .qident (_ :: _ :: _), h => by simp [isVar] at h
  | .nil, h => by simp [isVar] at h
  | .lit .., h => by simp [isVar] at h
  | .unary .., h => by simp [isVar] at h
  | .binary .., h => by simp [isVar] at h
  | .inE .., h => by simp [isVar] at h
  | .call .., h => by simp [isVar] at h
  | .index .., h => by simp [isVar] at h

/-- any other identifier is left alone, and its lookup does not see the binding -/
theorem qident_not_isVar {src : Bytes} {s : Scope} {m : Mode} {n : Bytes} (v : Expr) (w : List Chunk)
    (parts : List Ident) (h : isVar n (.qident parts) = false) :
    substExpr [(n, v)] (.qident parts) = .qident parts ∧
      writeExpr ⟨src, (n, w) :: s, m⟩ (.qident parts) = writeExpr ⟨src, s, m⟩ (.qident parts) := by
  match parts, h with
  | [], _ => exact ⟨by simp only [substExpr], by simp only [writeExpr]⟩
  | _ :: _ :: _, _ => exact ⟨by simp only [substExpr], by simp only [writeExpr]⟩
  | [p], h =>
    simp only [isVar] at h
    cases hq : p.quoted with
    | true => exact ⟨by simp [substExpr, hq], by simp only [writeExpr, hq]; rfl⟩
    | false =>
      simp only [hq, Bool.not_false, Bool.true_and] at h
      exact ⟨by simp [substExpr, hq, h], by simp only [writeExpr, lookupScope_cons, h]; rfl⟩

theorem substList_length (env : List (Bytes × Expr)) : (es : ExprList) → (substList env es).length = es.length
  | .nil => by simp only [substList]
  | .cons e es => by simp only [substList, ExprList.length, substList_length env es]

/-! ### the built-in rewrites -/

/-- an argument of a known function: its plain output, and its output in operand position -/
def ArgRel (R : List Chunk → List Chunk → Prop) (p p' : Expr × List Chunk) : Prop :=
  R p.2 p'.2 ∧ R (wrapMaybe p.1 p.2) (wrapMaybe p'.1 p'.2)

theorem assembleKnown_rel {R : List Chunk → List Chunk → Prop} (hR : ChunkCong R) (w : String)
    {l l' : List (Expr × List Chunk)} (h : ListRel (ArgRel R) l l') :
    ExRel R (assembleKnown w l) (assembleKnown w l') := by
  have hmp : ListRel R (l.map fun a => wrapMaybe a.1 a.2) (l'.map fun a => wrapMaybe a.1 a.2) :=
    h.map fun _ _ hab => hab.2
  unfold assembleKnown
  dsimp only
  repeat' apply ExRel.ite
  -- not
  · cases h with
    | nil => exact ExRel.error_error _
    | cons hab _ => exact hR.cons _ hab.2
  -- now
  · exact hR.refl _
  -- isnull
  · cases h with
    | nil => exact ExRel.error_error _
    | cons hab _ => exact hR.append hab.2 (hR.refl _)
  -- isnotnull
  · cases h with
    | nil => exact ExRel.error_error _
    | cons hab _ => exact hR.append hab.2 (hR.refl _)
  -- strcat
  · cases h with
    | nil => exact ExRel.error_error _
    | cons hab _ => exact hR.sepChunks _ hmp
  -- count
  · exact hR.refl _
  -- countif
  · cases h with
    | nil => exact ExRel.error_error _
    | cons hab _ => exact hR.cons _ (hR.append hab.1 (hR.refl _))
  -- iff
  · cases h with
    | nil => exact ExRel.error_error _
    | cons ha h =>
      cases h with
      | nil => exact ExRel.error_error _
      | cons hb h =>
        cases h with
        | nil => exact ExRel.error_error _
        | cons hc _ =>
          have h1 := ha.1
          have h2 := hb.1
          have h3 := hc.1
          show R _ _
          chunk_frame hR
  -- tolower
  · cases h with
    | nil => exact ExRel.error_error _
    | cons hab _ => exact hR.cons _ (hR.append hab.1 (hR.refl _))
  -- toupper
  · cases h with
    | nil => exact ExRel.error_error _
    | cons hab _ => exact hR.cons _ (hR.append hab.1 (hR.refl _))
  · exact ExRel.error_error _

/-! ### the induction -/

/-- what the induction needs to know about the relation, the bound value and the mode -/
structure SubstHyp (R : List Chunk → List Chunk → Prop) (src : Bytes) (s : Scope) (m : Mode)
    (n : Bytes) (v : Expr) (bv : List Chunk) : Prop where
  cong : ChunkCong R
  /-- the value writes to `bv` where it is used -/
  hv : writeExpr ⟨src, s, m⟩ v = .ok bv
  /-- the stored text against the value written bare -/
  bare : R (wrapTight v bv) bv
  /-- the stored text against the value written as an operand -/
  maybe : R (wrapTight v bv) (wrapMaybe v bv)
  /-- in a join condition, substitution does not change which sides an equality mentions -/
  join : m = .join → ∀ x, hasJoinTerms (substExpr [(n, v)] x) = hasJoinTerms x

section
variable {R : List Chunk → List Chunk → Prop} {src : Bytes} {s : Scope} {m : Mode}
  {n : Bytes} {v : Expr} {bv : List Chunk}

theorem rel_wrapMaybe (H : SubstHyp R src s m n v bv) (x : Expr)
    (h : ExRel R (writeExpr ⟨src, (n, wrapTight v bv) :: s, m⟩ x) (writeExpr ⟨src, s, m⟩ (substExpr [(n, v)] x))) :
    ExRel R ((writeExpr ⟨src, (n, wrapTight v bv) :: s, m⟩ x).map (wrapMaybe x))
      ((writeExpr ⟨src, s, m⟩ (substExpr [(n, v)] x)).map (wrapMaybe (substExpr [(n, v)] x))) := by
  cases hx : isVar n x with
  | true =>
    obtain ⟨h1, _, h3, _⟩ := subst_isVar n v x hx
    rw [write_isVar_scope _ x hx, write_isVar_subst H.hv x hx]
    show R (wrapMaybe x (wrapTight v bv)) (wrapMaybe (substExpr [(n, v)] x) bv)
    have e1 : wrapMaybe x (wrapTight v bv) = wrapTight v bv := by simp only [wrapMaybe, h3]; rfl
    have e2 : wrapMaybe (substExpr [(n, v)] x) bv = wrapMaybe v bv := by simp only [wrapMaybe, h1]
    rw [e1, e2]
    exact H.maybe
  | false =>
    obtain ⟨h1, _⟩ := subst_not_isVar n v x hx
    have e : wrapMaybe (substExpr [(n, v)] x) = wrapMaybe x := by
      funext b
      simp only [wrapMaybe, h1]
    rw [e]
    exact h.map fun a b hab => H.cong.wrapMaybe x hab

theorem rel_wrapTight (H : SubstHyp R src s m n v bv) (x : Expr)
    (h : ExRel R (writeExpr ⟨src, (n, wrapTight v bv) :: s, m⟩ x) (writeExpr ⟨src, s, m⟩ (substExpr [(n, v)] x))) :
    ExRel R ((writeExpr ⟨src, (n, wrapTight v bv) :: s, m⟩ x).map (wrapTight x))
      ((writeExpr ⟨src, s, m⟩ (substExpr [(n, v)] x)).map (wrapTight (substExpr [(n, v)] x))) := by
  cases hx : isVar n x with
  | true =>
    obtain ⟨h1, h2, h3, h4⟩ := subst_isVar n v x hx
    rw [write_isVar_scope _ x hx, write_isVar_subst H.hv x hx]
    show R (wrapTight x (wrapTight v bv)) (wrapTight (substExpr [(n, v)] x) bv)
    have e1 : wrapTight x (wrapTight v bv) = wrapTight v bv := by
      simp only [wrapTight, wrapMaybe, h3, h4]; rfl
    have e2 : wrapTight (substExpr [(n, v)] x) bv = wrapTight v bv := by
      simp only [wrapTight, wrapMaybe, h1, h2]
    rw [e1, e2]
    exact H.cong.refl _
  | false =>
    obtain ⟨h1, h2⟩ := subst_not_isVar n v x hx
    have e : wrapTight (substExpr [(n, v)] x) = wrapTight x := by
      funext b
      simp only [wrapTight, wrapMaybe, h1, h2]
    rw [e]
    exact h.map fun a b hab => H.cong.wrapTight x hab

/-- relation between the two argument lists of a call -/
def ArgsRel (R : List Chunk → List Chunk → Prop) (es es' : ExprList) (as as' : List (List Chunk)) : Prop :=
  ListRel R as as' ∧ ListRel (ArgRel R) (es.toList.zip as) (es'.toList.zip as')

mutual
theorem subst_expr_rel (H : SubstHyp R src s m n v bv) :
    (e : Expr) → ExRel R (writeExpr ⟨src, (n, wrapTight v bv) :: s, m⟩ e) (writeExpr ⟨src, s, m⟩ (substExpr [(n, v)] e))
  | .paren _ x _ => by
    simp only [substExpr, writeExpr]
    exact subst_expr_rel H x
  | .qident parts => by
    cases hx : isVar n (.qident parts) with
    | true =>
      rw [write_isVar_scope _ _ hx, write_isVar_subst H.hv _ hx]
      exact H.bare
    | false =>
      obtain ⟨h1, h2⟩ := qident_not_isVar (src := src) (s := s) (m := m) v (wrapTight v bv) parts hx
      rw [h1, h2]
      exact ExRel.refl' H.cong.refl _
  | .lit _ k val => by
    simp only [substExpr]
    exact ExRel.refl' H.cong.refl _
  | .nil => by
    simp only [substExpr]
    exact ExRel.refl' H.cong.refl _
  | .unary _ op x => by
    simp only [substExpr, writeExpr]
    refine ExRel.bind (rel_wrapTight H x (subst_expr_rel H x)) fun a a' ha => ExRel.pure_pure ?_
    exact H.cong.cons _ ha
  | .index x _ idx _ => by
    simp only [substExpr, writeExpr]
    refine ExRel.bind (rel_wrapTight H x (subst_expr_rel H x)) fun a a' ha =>
      ExRel.bind (subst_expr_rel H idx) fun b b' hb => ExRel.pure_pure ?_
    chunk_frame H.cong
  | .inE x _ _ vals _ => by
    simp only [substExpr, writeExpr]
    refine ExRel.bind (rel_wrapMaybe H x (subst_expr_rel H x)) fun a a' ha =>
      ExRel.bind (subst_listMP_rel H vals) fun b b' hb => ExRel.pure_pure ?_
    have := H.cong.sepChunks ", " hb
    chunk_frame H.cong
  | .call fn _ args _ => by
    simp only [substExpr, writeExpr, substList_length]
    split
    · split
      · exact ExRel.error_error _
      · exact ExRel.bind (subst_list_rel H args) fun a a' ha => assembleKnown_rel H.cong _ ha.2
    · refine ExRel.bind (subst_list_rel H args) fun a a' ha => ExRel.pure_pure ?_
      have := H.cong.sepChunks ", " ha.1
      chunk_frame H.cong
  | .binary x _ op y => by
    have hx := rel_wrapMaybe H x (subst_expr_rel H x)
    have hy := rel_wrapMaybe H y (subst_expr_rel H y)
    have hx0 := subst_expr_rel H x
    have hy0 := subst_expr_rel H y
    simp only [substExpr, writeExpr]
    have hjoin : (m = .join ∧ ((hasJoinTerms (substExpr [(n, v)] x)).1 || (hasJoinTerms (substExpr [(n, v)] y)).1) = true ∧
        ((hasJoinTerms (substExpr [(n, v)] x)).2 || (hasJoinTerms (substExpr [(n, v)] y)).2) = true) ↔
        (m = .join ∧ ((hasJoinTerms x).1 || (hasJoinTerms y).1) = true ∧
        ((hasJoinTerms x).2 || (hasJoinTerms y).2) = true) := by
      by_cases hm : m = .join
      · rw [H.join hm x, H.join hm y]
      · simp only [hm, false_and]
    simp only [hjoin]
    repeat' apply ExRel.ite
    · refine ExRel.bind hx fun a a' ha => ExRel.bind hy fun b b' hb => ExRel.pure_pure ?_
      chunk_frame H.cong
    · refine ExRel.bind hx fun a a' ha => ExRel.bind hy fun b b' hb => ExRel.pure_pure ?_
      chunk_frame H.cong
    · refine ExRel.bind hx fun a a' ha => ExRel.bind hy fun b b' hb => ExRel.pure_pure ?_
      chunk_frame H.cong
    · refine ExRel.bind hx0 fun a a' ha => ExRel.bind hy0 fun b b' hb => ExRel.pure_pure ?_
      chunk_frame H.cong
    · refine ExRel.bind hx0 fun a a' ha => ExRel.bind hy0 fun b b' hb => ExRel.pure_pure ?_
      chunk_frame H.cong
    · split
      · refine ExRel.bind hx fun a a' ha => ExRel.bind hy fun b b' hb => ExRel.pure_pure ?_
        chunk_frame H.cong
      · exact H.cong.refl _

theorem subst_list_rel (H : SubstHyp R src s m n v bv) :
    (es : ExprList) → ExRel (ArgsRel R es (substList [(n, v)] es))
      (writeList ⟨src, (n, wrapTight v bv) :: s, m⟩ es) (writeList ⟨src, s, m⟩ (substList [(n, v)] es))
  | .nil => by
    simp only [substList, writeList]
    exact ⟨.nil, .nil⟩
  | .cons e es => by
    have h0 := subst_expr_rel H e
    have hm := rel_wrapMaybe H e h0
    simp only [substList, writeList]
    refine ExRel.bind' h0 fun a a' ha ha' haa => ?_
    rw [ha, ha'] at hm
    have hm' : R (wrapMaybe e a) (wrapMaybe (substExpr [(n, v)] e) a') := hm
    refine ExRel.bind (subst_list_rel H es) fun b b' hb => ExRel.pure_pure ?_
    exact ⟨.cons haa hb.1, .cons ⟨haa, hm'⟩ hb.2⟩

theorem subst_listMP_rel (H : SubstHyp R src s m n v bv) :
    (es : ExprList) → ExRel (ListRel R)
      (writeListMaybeParen' ⟨src, (n, wrapTight v bv) :: s, m⟩ es)
      (writeListMaybeParen' ⟨src, s, m⟩ (substList [(n, v)] es))
  | .nil => by
    simp only [substList, writeListMaybeParen']
    exact .nil
  | .cons e es => by
    simp only [substList, writeListMaybeParen']
    exact ExRel.bind (rel_wrapMaybe H e (subst_expr_rel H e)) fun a a' ha =>
      ExRel.bind (subst_listMP_rel H es) fun b b' hb => ExRel.pure_pure (.cons ha hb)
end

end

end Pql
