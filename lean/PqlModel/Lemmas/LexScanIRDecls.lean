/-
The expected statement trees of the functions `harness/extract_lexscan.go` translates (and of the six
units of `Facts.lexNumberIR` they call, decoded by the decoder of Model/LexScanIRSyntax.lean), and the
theorems `…_ir : decodeFn (irOf <regenerated table> key) = some <expected tree> := by rfl`.
An edit of the Go code changes the regenerated table and one of these stops building; the semantic
lemmas (Lemmas/LexScanIR*.lean, Props/C09ScanIR*.lean) are about the expected trees.
-/
import PqlModel.Model.LexScanIR
namespace Pql.ScanIR
open Pql
open Pql.LexIR (irOf)

/-! ### abbreviations -/

def eS : Expr := .var "s"
def eC : Expr := .var "c"
def ePos : Expr := .fld eS "pos"
def eLast : Expr := .fld eS "last"
def eSrc : Expr := .fld eS "s"
def eNext : Expr := .call "scanner.next" [eS]
def sPrev : Stmt := .do_ (.call "scanner.prev" [eS])
def cIs (n : Nat) : Expr := .bin .eq eC (.int n)
def cIsNot (n : Nat) : Expr := .bin .ne eC (.int n)
def eOk : Expr := .var "ok"
def notOk : Expr := .not eOk
def setNext : Stmt := .set2 "c" "ok" eNext
def defNext : Stmt := .def2 "c" "ok" eNext
def spanHere : Expr := .call "newSpan" [.var "start", ePos]
def errHere (msg : String) : Expr := .call "errorToken" [spanHere, .str msg]
/-- `tokens = append(tokens, e)` -/
def push (e : Expr) : Stmt := .set "tokens" (.call "append" [.var "tokens", e])
def symTok (k : String) : Expr := .mkToken (.kind k) spanHere (.str "")
def pushSym (k : String) : Stmt := push (symTok k)
def pushSub (m : String) : List Stmt := [sPrev, push (.call m [eS])]
def inRange (lo hi : Nat) : Expr := .bin .and (.bin .le (.int lo) eC) (.bin .le eC (.int hi))

/-- `switch { case c₁: b₁ … default: d }` as the translator writes it: an if / else-if chain -/
def mkSwitch : List (Expr × List Stmt) → List Stmt → List Stmt
  | [], d => d
  | (c, b) :: r, d => [.ite c b (mkSwitch r d)]

/-! ### parser/span.go and the cursor (`Facts.lexNumberIR`) -/

def newSpanDecl : FnDecl :=
  ⟨("", ""), [("start", "int"), ("end", "int")], [("", "Span")],
   [.ret [.mkSpan (.var "start") (.var "end")]]⟩

def indexSpanDecl : FnDecl :=
  ⟨("", ""), [("i", "int")], [("", "Span")], [.ret [.mkSpan (.var "i") (.var "i")]]⟩

def spanIsValidDecl : FnDecl :=
  ⟨("span", "Span"), [], [("", "bool")],
   [.ret [.bin .and
     (.bin .and (.bin .ge (.fld (.var "span") "Start") (.int 0)) (.bin .ge (.fld (.var "span") "End") (.int 0)))
     (.bin .le (.fld (.var "span") "Start") (.fld (.var "span") "End"))]]⟩

def spanStringDecl : FnDecl :=
  ⟨("", ""), [("s", "string"), ("span", "Span")], [("", "string")],
   [.ite (.not (.call "Span.IsValid" [.var "span"])) [.ret [.str ""]] [],
    .ret [.slice (.var "s") (.fld (.var "span") "Start") (.fld (.var "span") "End")]]⟩

def nextDecl : FnDecl :=
  ⟨("s", "*scanner"), [], [("", "rune"), ("", "bool")],
   [.ite (.bin .ge ePos (.len eSrc)) [.ret [.int 0, .ff]] [],
    .def2 "c" "n" (.call "utf8.DecodeRuneInString" [.slice eSrc ePos .none]),
    .setFld "s" "last" ePos,
    .setFld "s" "pos" (.bin .add ePos (.var "n")),
    .ret [.var "c", .tt]]⟩

def prevDecl : FnDecl := ⟨("s", "*scanner"), [], [], [.setFld "s" "pos" eLast]⟩

/-! ### the rune classes and `errorToken` -/

def isAlphaDecl : FnDecl :=
  ⟨("", ""), [("c", "rune")], [("", "bool")], [.ret [.bin .or (inRange 97 122) (inRange 65 90)]]⟩

def isDigitDecl : FnDecl := ⟨("", ""), [("c", "rune")], [("", "bool")], [.ret [inRange 48 57]]⟩

def isHexDigitDecl : FnDecl :=
  ⟨("", ""), [("c", "rune")], [("", "bool")],
   [.ret [.bin .or (.bin .or (.call "isDigit" [eC]) (inRange 97 102)) (inRange 65 70)]]⟩

def errorTokenDecl : FnDecl :=
  ⟨("", ""), [("span", "Span"), ("format", "string"), ("args", "...any")], [("", "Token")],
   [.ret [.mkToken (.kind "TokenError") (.var "span") (.call "fmt.Sprintf" [.var "format", .spread "args"])]]⟩

/-! ### `(*scanner).ident` -/

def identCont : Expr := .bin .or (.bin .or (.call "isAlpha" [eC]) (.call "isDigit" [eC])) (cIs 95)

def identLoopBody : List Stmt :=
  [defNext, .ite notOk [.break_] [], .ite (.not identCont) [sPrev, .break_] []]

/-- `ident` after the loop -/
def identRest : List Stmt :=
  [.def_ "tok" (.mkToken (.kind "TokenIdentifier") spanHere (.str "")),
   .setFld "tok" "Value" (.call "spanString" [eSrc, .fld (.var "tok") "Span"]),
   .block
     [.def2 "kind" "ok" (.mapGet "keywords" (.fld (.var "tok") "Value")),
      .ite eOk [.setFld "tok" "Kind" (.var "kind"), .setFld "tok" "Value" (.str "")] []],
   .ret [.var "tok"]]

def identDecl : FnDecl :=
  ⟨("s", "*scanner"), [], [("", "Token")],
   .def_ "start" ePos :: .do_ eNext :: .forever identLoopBody :: identRest⟩

/-! ### `(*scanner).quotedIdent` -/

def notOkOrNot96 : Expr := .bin .or notOk (cIsNot 96)

def qidentValue : Expr :=
  .call "strings.ReplaceAll"
    [.slice eSrc (.bin .add (.var "start") (.len (.str "`"))) (.bin .sub ePos (.len (.str "`"))), .str "``", .str "`"]

def qidentLoopBody : List Stmt :=
  [defNext,
   .ite notOk [.ret [errHere "parse quoted identifier: unexpected EOF"]] [],
   .ite (cIs 96)
     [setNext,
      .ite notOkOrNot96
        [.ite eOk [sPrev] [],
         .ret [.mkToken (.kind "TokenQuotedIdentifier") spanHere qidentValue]] []]
     [.ite (cIs 10) [sPrev, .ret [errHere "parse quoted identifier: unexpected end of line"]] []]]

def quotedIdentDecl : FnDecl :=
  ⟨("s", "*scanner"), [], [("", "Token")],
   [.def_ "start" ePos,
    .block
      [defNext,
       .ite notOkOrNot96
         [.ret [.call "errorToken" [spanHere, .str "parse quoted identifier: expected '`', found %q", eC]]] []],
    .forever qidentLoopBody]⟩

/-! ### `(*scanner).string` -/

def eVB : Expr := .var "valueBuilder"
def unterminated : List Stmt := [.ret [errHere "unterminated string"]]
def srcSlice (a b : Expr) : Expr := .slice eSrc a b
def vbWrite (e : Expr) : Stmt := .do_ (.call "strings.Builder.WriteString" [eVB, e])
def vbRune (n : Nat) : Stmt := .do_ (.call "strings.Builder.WriteRune" [eVB, .int n])

/-- the case `c == quoteChar` -/
def strClose : List Stmt :=
  [.var_ "value" "string",
   .ite (.bin .eq eVB .nil)
     [.set "value" (srcSlice (.var "valueStart") eLast)]
     [.set "value" (.call "strings.Builder.String" [eVB])],
   .ret [.mkToken (.kind "TokenString") spanHere (.var "value")]]

/-- the case `c == '\\'` -/
def strEscape : List Stmt :=
  [.ite (.bin .eq eVB .nil)
     [.set "valueBuilder" .newBuilder, vbWrite (srcSlice (.var "valueStart") eLast)] [],
   defNext,
   .ite notOk unterminated [],
   .ite (cIs 10) (sPrev :: unterminated)
     [.ite (cIs 110) [vbRune 10]
       [.ite (cIs 116) [vbRune 9] [vbWrite (srcSlice eLast ePos)]]]]

def strLoopBody : List Stmt :=
  [defNext,
   .ite notOk unterminated [],
   .ite (.bin .eq eC (.var "quoteChar")) strClose
     [.ite (cIs 10) (sPrev :: unterminated)
       [.ite (cIs 92) strEscape
         [.ite (.bin .ne eVB .nil) [vbWrite (srcSlice eLast ePos)] []]]]]

def stringDecl : FnDecl :=
  ⟨("s", "*scanner"), [], [("", "Token")],
   [.def_ "start" ePos,
    .def2 "quoteChar" "ok" eNext,
    .ite notOk [.ret [.call "errorToken" [.call "indexSpan" [.var "start"], .str "unexpected EOF (expected string)"]]] [],
    .ite (.bin .and (.bin .ne (.var "quoteChar") (.int 39)) (.bin .ne (.var "quoteChar") (.int 34)))
      [sPrev,
       .ret [.call "errorToken" [.call "indexSpan" [.var "start"], .str "unexpected %q (expected string)", .var "quoteChar"]]] [],
    .def_ "valueStart" ePos,
    .var_ "valueBuilder" "*strings.Builder",
    .forever strLoopBody]⟩

/-! ### `Scan` -/

/-- `if ok { s.prev() }; tokens = append(tokens, e)` -/
def giveBack (e : Expr) : List Stmt := [.ite eOk [sPrev] [], push e]

/-- the nested switch after `=` / `!`: `c, ok := s.next(); switch { case ok && c == '=': … }` -/
def twoSwitch (kEq kTilde : String) (other : Expr) : List Stmt :=
  [defNext,
   .ite (.bin .and eOk (cIs 61)) [pushSym kEq]
     [.ite (.bin .and eOk (cIs 126)) [pushSym kTilde] (giveBack other)]]

/-- `if c, ok := s.next(); ok && c == '=' { … } else { … }` after `<` / `>` -/
def ifEq (kEq kOther : String) : List Stmt :=
  [.block [defNext, .ite (.bin .and eOk (cIs 61)) [pushSym kEq] (giveBack (symTok kOther))]]

def commentLoopBody : List Stmt := [setNext, .ite (.bin .or notOk (cIs 10)) [.break_] []]

def slashCase : List Stmt :=
  [setNext,
   .ite notOk [pushSym "TokenSlash", .continue_] [],
   .ite (cIs 47) [.forever commentLoopBody, .continue_] [],
   sPrev,
   pushSym "TokenSlash"]

def scanCases : List (Expr × List Stmt) :=
  [(.call "unicode.IsSpace" [eC], []),
   (.bin .or (.bin .or (.call "isAlpha" [eC]) (cIs 95)) (cIs 36), pushSub "scanner.ident"),
   (.bin .or (.call "isDigit" [eC]) (cIs 46), pushSub "scanner.numberOrDot"),
   (cIs 44, [pushSym "TokenComma"]),
   (.bin .or (cIs 34) (cIs 39), pushSub "scanner.string"),
   (cIs 96, pushSub "scanner.quotedIdent"),
   (cIs 124, [pushSym "TokenPipe"]),
   (cIs 40, [pushSym "TokenLParen"]),
   (cIs 41, [pushSym "TokenRParen"]),
   (cIs 91, [pushSym "TokenLBracket"]),
   (cIs 93, [pushSym "TokenRBracket"]),
   (cIs 61, twoSwitch "TokenEq" "TokenCaseInsensitiveEq" (symTok "TokenAssign")),
   (cIs 33, twoSwitch "TokenNE" "TokenCaseInsensitiveNE" (errHere "unrecognized token '!'")),
   (cIs 43, [pushSym "TokenPlus"]),
   (cIs 45, [pushSym "TokenMinus"]),
   (cIs 42, [pushSym "TokenStar"]),
   (cIs 47, slashCase),
   (cIs 37, [pushSym "TokenMod"]),
   (cIs 60, ifEq "TokenLE" "TokenLT"),
   (cIs 62, ifEq "TokenGE" "TokenGT"),
   (cIs 59, [pushSym "TokenSemi"])]

def scanDefault : List Stmt :=
  [.def_ "span" spanHere,
   push (.call "errorToken" [.var "span", .str "unrecognized character %q",
     .call "spanString" [.var "query", .var "span"]])]

def scanLoopBody : List Stmt :=
  .def_ "start" ePos :: defNext :: .ite notOk [.break_] [] :: mkSwitch scanCases scanDefault

def scanDecl : FnDecl :=
  ⟨("", ""), [("query", "string")], [("", "[]Token")],
   [.def_ "s" (.mkScanner (.var "query")),
    .var_ "tokens" "[]Token",
    .forever scanLoopBody,
    .ret [.var "tokens"]]⟩

/-! ### what the translators regenerate decodes to the expected trees -/

theorem newSpan_ir : decodeFn (irOf Facts.lexNumberIR "newSpan") = some newSpanDecl := by rfl
theorem indexSpan_ir : decodeFn (irOf Facts.lexNumberIR "indexSpan") = some indexSpanDecl := by rfl
theorem spanIsValid_ir : decodeFn (irOf Facts.lexNumberIR "Span.IsValid") = some spanIsValidDecl := by rfl
theorem spanString_ir : decodeFn (irOf Facts.lexNumberIR "spanString") = some spanStringDecl := by rfl
theorem next_ir : decodeFn (irOf Facts.lexNumberIR "scanner.next") = some nextDecl := by rfl
theorem prev_ir : decodeFn (irOf Facts.lexNumberIR "scanner.prev") = some prevDecl := by rfl
theorem isAlpha_ir : decodeFn (irOf Facts.lexScanIR "isAlpha") = some isAlphaDecl := by rfl
theorem isDigit_ir : decodeFn (irOf Facts.lexScanIR "isDigit") = some isDigitDecl := by rfl
theorem isHexDigit_ir : decodeFn (irOf Facts.lexScanIR "isHexDigit") = some isHexDigitDecl := by rfl
theorem errorToken_ir : decodeFn (irOf Facts.lexScanIR "errorToken") = some errorTokenDecl := by rfl
theorem ident_ir : decodeFn (irOf Facts.lexScanIR "scanner.ident") = some identDecl := by rfl
theorem quotedIdent_ir : decodeFn (irOf Facts.lexScanIR "scanner.quotedIdent") = some quotedIdentDecl := by rfl
theorem string_ir : decodeFn (irOf Facts.lexScanIR "scanner.string") = some stringDecl := by rfl
set_option maxRecDepth 100000 in
theorem Scan_ir : decodeFn (irOf Facts.lexScanIR "Scan") = some scanDecl := by rfl

/-- the function `key` of a table is the interpretation of its expected tree -/
theorem fnOf_eq {tbl : List (String × List (List String))} {key : String} {d : FnDecl}
    (h : decodeFn (irOf tbl key) = some d) (env : Env) (fuel : Nat) :
    fnOf tbl env fuel key = interpFn env fuel d := by
  simp only [fnOf, h]

end Pql.ScanIR
