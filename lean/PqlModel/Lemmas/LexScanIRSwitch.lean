/-
`Scan`'s main switch as translated (an if / else-if chain, `mkSwitch`): which case body runs for a rune
(`pick`, `condsVal`), generically for any chain whose conditions evaluate without side effect.
-/
import PqlModel.Lemmas.LexScanIRCore
namespace Pql.ScanIR
open Pql
open Pql.LexIR (IErr M BinOp goPanic stuck irOf)
set_option linter.unusedSimpArgs false
set_option linter.unusedVariables false

/-! ### conditions without side effect -/

/-- `e` evaluates to the boolean `b` and leaves the store as it is -/
def EvB (env : Env) (vars : List (String × Val)) (h : Store) (e : Expr) (b : Bool) : Prop :=
  eval env vars e h = .ok (.bool b, h)

theorem evb_or {env : Env} {vars : List (String × Val)} {h : Store} {a b : Expr} {x y : Bool}
    (ha : EvB env vars h a x) (hb : EvB env vars h b y) : EvB env vars h (.bin .or a b) (x || y) := by
  unfold EvB at *
  cases x <;> simp [eval, ha, hb, bind, Except.bind, pure, Except.pure]

theorem evb_and {env : Env} {vars : List (String × Val)} {h : Store} {a b : Expr} {x y : Bool}
    (ha : EvB env vars h a x) (hb : EvB env vars h b y) : EvB env vars h (.bin .and a b) (x && y) := by
  unfold EvB at *
  cases x <;> simp [eval, ha, hb, bind, Except.bind, pure, Except.pure]

theorem evb_not {env : Env} {vars : List (String × Val)} {h : Store} {a : Expr} {x : Bool}
    (ha : EvB env vars h a x) : EvB env vars h (.not a) (!x) := by
  unfold EvB at *
  simp [eval, ha, bind, Except.bind, pure, Except.pure]

theorem evb_cIs {env : Env} {vars : List (String × Val)} {h : Store} {r : Nat} (n : Nat)
    (hc : getVar vars "c" = .ok (.int r)) : EvB env vars h (cIs n) (decide (r = n)) := by
  unfold EvB cIs eC
  simp [eval, hc, binVal, valEq, bind, Except.bind, pure, Except.pure, Except.map]

theorem evb_ok {env : Env} {vars : List (String × Val)} {h : Store} {b : Bool}
    (hc : getVar vars "ok" = .ok (.bool b)) : EvB env vars h eOk b := by
  unfold EvB eOk
  simp [eval, hc, Except.map]

/-- a call `f(c)` of a function that returns a boolean and leaves the store -/
theorem evb_call {env : Env} {vars : List (String × Val)} {h : Store} {r : Nat} (name : String) (f : Fn) (p : Nat → Bool)
    (hf : env name = some f) (sf : ∀ r h, f [.int r] h = .ok ([.bool (p r)], h))
    (hc : getVar vars "c" = .ok (.int r)) : EvB env vars h (.call name [eC]) (p r) := by
  unfold EvB eC
  simp [eval, evalArgs, hc, hf, sf, single, bind, Except.bind, pure, Except.pure, Except.map]

/-! ### the chain -/

/-- the body that runs: of the first case whose condition holds, else the default -/
def pick : List (Expr × List Stmt) → List Bool → List Stmt → List Stmt
  | cb :: r, v :: vs, d => if v then cb.2 else pick r vs d
  | _, _, d => d

/-- the conditions of the cases evaluate to these booleans, without side effect -/
def AllEv (env : Env) (vars : List (String × Val)) (h : Store) : List (Expr × List Stmt) → List Bool → Prop
  | [], [] => True
  | cb :: r, b :: bs => EvB env vars h cb.1 b ∧ AllEv env vars h r bs
  | _, _ => False

/-- run a block and leave its scope -/
def inScope (s : State) (x : M (Flow × State)) : M (Flow × State) :=
  x >>= fun r => pure (r.1, r.2.leave s)

theorem leave_leave (a s : State) : (a.leave s).leave s = a.leave s := by
  simp only [State.leave, List.length_drop]
  congr 1
  rw [List.drop_drop]
  congr 1
  omega

theorem inScope_idem (s : State) (x : M (Flow × State)) : inScope s (inScope s x) = inScope s x := by
  unfold inScope
  cases x with
  | error e => rfl
  | ok r => simp [bind, Except.bind, pure, Except.pure, leave_leave]

theorem execBlock_single (env : Env) (fuel : Nat) (x : Stmt) (s : State) :
    execBlock env fuel [x] s = exec env fuel x s := by
  simp only [execBlock, bind, Except.bind]
  cases h : exec env fuel x s with
  | error e => rfl
  | ok r =>
    obtain ⟨f, s1⟩ := r
    cases f <;> simp [pure, Except.pure]

/-- **a switch runs the body `pick` selects**, when its conditions evaluate without side effect -/
theorem execBlock_mkSwitch (env : Env) (fuel : Nat) (s : State) (d : List Stmt) :
    ∀ (cases : List (Expr × List Stmt)) (bs : List Bool), cases ≠ [] →
      AllEv env s.vars s.st cases bs →
      execBlock env fuel (mkSwitch cases d) s = inScope s (execBlock env fuel (pick cases bs d) s)
  | [], _, h, _ => absurd rfl h
  | (c, b) :: rest, [], _, h => by cases h
  | (c, b) :: rest, v :: vs, _, h => by
    obtain ⟨h1, h2⟩ := h
    · unfold EvB at h1
      simp only at h1
      rw [mkSwitch, execBlock_single]
      simp only [exec, h1, bind, Except.bind, pick]
      cases v with
      | true =>
        simp only [if_true, inScope, bind, Except.bind]
      | false =>
        simp only [Bool.false_eq_true, if_false]
        cases rest with
        | nil =>
          simp only [mkSwitch, pick, inScope, bind, Except.bind]
        | cons cb rest' =>
          have ih := execBlock_mkSwitch env fuel s d (cb :: rest') vs (by simp) h2
          have e : ({ vars := s.vars, st := s.st } : State) = s := rfl
          rw [e, ih]
          have := inScope_idem s (execBlock env fuel (pick (cb :: rest') vs d) s)
          unfold inScope at this ⊢
          simp only [bind, Except.bind] at this ⊢
          exact this

end Pql.ScanIR
