/-
Scope equivalence: two scopes are equivalent when `lookupScope` cannot tell them apart.
The expression writers consult the scope only through `lookupScope`, so they respect it.
-/
import PqlModel.Model.Compile
namespace Pql

abbrev Scope := List (Bytes × List Chunk)

/-- two scopes that answer every lookup alike -/
def ScopeEq (s s' : Scope) : Prop := ∀ n, lookupScope s n = lookupScope s' n

theorem ScopeEq.refl (s : Scope) : ScopeEq s s := fun _ => rfl

theorem ScopeEq.symm {s s' : Scope} (h : ScopeEq s s') : ScopeEq s' s := fun n => (h n).symm

theorem ScopeEq.trans {a b c : Scope} (h₁ : ScopeEq a b) (h₂ : ScopeEq b c) : ScopeEq a c :=
  fun n => (h₁ n).trans (h₂ n)

theorem lookupScope_cons (kv : Bytes × List Chunk) (s : Scope) (n : Bytes) :
    lookupScope (kv :: s) n = if kv.1 == n then some kv.2 else lookupScope s n := by
  unfold lookupScope
  rw [List.find?_cons]
  cases kv.1 == n <;> rfl

/-- a `let` conses the same pair on both sides -/
theorem ScopeEq.cons {s s' : Scope} (h : ScopeEq s s') (kv : Bytes × List Chunk) :
    ScopeEq (kv :: s) (kv :: s') := by
  intro n
  rw [lookupScope_cons, lookupScope_cons, h n]

mutual
theorem writeExpr_scopeEq {src : Bytes} {m : Mode} {s s' : Scope} (h : ScopeEq s s') :
    (e : Expr) → writeExpr ⟨src, s, m⟩ e = writeExpr ⟨src, s', m⟩ e
  | .paren _ x _ => by
    simp only [writeExpr]
    exact writeExpr_scopeEq h x
  | .qident parts => by
    simp only [writeExpr, h _]
  | .lit _ k v => by
    simp only [writeExpr]
  | .unary _ op x => by
    simp only [writeExpr, writeExpr_scopeEq h x]
  | .binary x _ op y => by
    simp only [writeExpr, writeExpr_scopeEq h x, writeExpr_scopeEq h y]
  | .inE x _ _ vals _ => by
    simp only [writeExpr, writeExpr_scopeEq h x, writeListMaybeParen_scopeEq h vals]
  | .index x _ idx _ => by
    simp only [writeExpr, writeExpr_scopeEq h x, writeExpr_scopeEq h idx]
  | .call fn _ args _ => by
    simp only [writeExpr, writeList_scopeEq h args]
  | .nil => by
    simp only [writeExpr]

theorem writeList_scopeEq {src : Bytes} {m : Mode} {s s' : Scope} (h : ScopeEq s s') :
    (es : ExprList) → writeList ⟨src, s, m⟩ es = writeList ⟨src, s', m⟩ es
  | .nil => by simp only [writeList]
  | .cons e es => by
    simp only [writeList, writeExpr_scopeEq h e, writeList_scopeEq h es]

theorem writeListMaybeParen_scopeEq {src : Bytes} {m : Mode} {s s' : Scope} (h : ScopeEq s s') :
    (es : ExprList) → writeListMaybeParen' ⟨src, s, m⟩ es = writeListMaybeParen' ⟨src, s', m⟩ es
  | .nil => by simp only [writeListMaybeParen']
  | .cons e es => by
    simp only [writeListMaybeParen', writeExpr_scopeEq h e, writeListMaybeParen_scopeEq h es]
end

end Pql
