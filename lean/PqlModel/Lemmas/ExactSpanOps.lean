/-
C13 exactness, spans (part 3): `SpansInside src stmts` holds for every error-free parse of `src`.
-/
import PqlModel.Lemmas.ExactSpanExpr
import PqlModel.Lemmas.ExactParse
import PqlModel.Lemmas.LexSplit
namespace Pql.Exact
open Pql

def colsSp (N : Nat) (cs : List Column) : Prop := ∀ c ∈ cs, EB N c.x ∧ NV c.x

mutual
def psTab (N : Nat) : Tabular → Prop
  | .nil => True
  | .mk _ ops => psOps N ops
def psOp (N : Nat) : Op → Prop
  | .extend _ _ cs => colsSp N cs
  | .summarize _ _ cs _ gs => colsSp N cs ∧ colsSp N gs
  | .join _ _ _ _ _ _ right _ _ _ => psTab N right
  | .count .. => True
  | .where_ .. => True
  | .sort .. => True
  | .take .. => True
  | .top .. => True
  | .project .. => True
  | .as_ .. => True
  | .render .. => True
def psOps (N : Nat) : OpList → Prop
  | .nil => True
  | .cons o os => psOp N o ∧ psOps N os
end

def psStmt (N : Nat) : Stmt → Prop
  | .let_ .. => True
  | .tabular t => psTab N t

theorem colsSp.nil (N : Nat) : colsSp N [] := by intro c hc; cases hc

theorem colsSp.snoc {N : Nat} {acc : List Column} {k : Column} (ha : colsSp N acc)
    (hk : EB N k.x ∧ NV k.x) : colsSp N (acc ++ [k]) := by
  intro c hc
  rcases List.mem_append.1 hc with hc | hc
  · exact ha c hc
  · rw [List.mem_singleton.1 hc]; exact hk

theorem pNamedColumn_span {N : Nat} (c : PCtx) (fuel : Nat) (ts : List Token) (h : TBs N ts) :
    TBs N (pNamedColumn c fuel ts).rest ∧ EB N (pNamedColumn c fuel ts).val.x ∧
      NV (pNamedColumn c fuel ts).val.x := by
  unfold pNamedColumn
  extract_lets ri named
  have hi : TBs N ri.rest := (pIdent_span (c := c) h).1
  have hnamed : ∀ id asg rest, named = some (id, asg, rest) → TBs N rest := by
    intro id asg rest
    simp only [named]
    split
    · next id' t rest' hv hrest =>
      split
      · simp only [Option.some.injEq, Prod.mk.injEq]
        rintro ⟨_, _, rfl⟩
        have : TBs N (t :: rest') := hrest ▸ hi
        exact this.tail
      · intro hh; cases hh
    · intro hh; cases hh
  clear_value named ri
  split
  · next id asg rest =>
    exact pExpr_span c fuel rest (hnamed id asg rest rfl)
  · exact pExpr_span c fuel ts h

theorem pExtendCols_span {N : Nat} (c : PCtx) (fuel : Nat) : ∀ (n : Nat) (acc : List Column) (ts : List Token),
    TBs N ts → colsSp N acc → colsSp N (pExtendCols c fuel n acc ts).val
  | 0, acc, ts, _, ha => by simp only [pExtendCols]; exact ha
  | n + 1, acc, ts, h, ha => by
    unfold pExtendCols
    extract_lets r acc'
    have hr := pNamedColumn_span c fuel ts h
    have hacc : colsSp N acc' := ha.snoc hr.2
    have hrest : TBs N r.rest := hr.1
    clear_value acc' r
    split
    · exact ha
    · split
      · next t rest hrr =>
        have : TBs N (t :: rest) := hrr ▸ hrest
        split
        · exact pExtendCols_span c fuel n acc' _ this.tail hacc
        · exact hacc
      · exact hacc

theorem pSummarizeCols_span {N : Nat} (c : PCtx) (fuel : Nat) :
    ∀ (n : Nat) (acc : List Column) (cm : Option Span) (ts : List Token),
    TBs N ts → colsSp N acc →
      colsSp N (pSummarizeCols c fuel n acc cm ts).val.cols ∧ TBs N (pSummarizeCols c fuel n acc cm ts).rest
  | 0, acc, cm, ts, h, ha => by simp only [pSummarizeCols]; exact ⟨ha, h⟩
  | n + 1, acc, cm, ts, h, ha => by
    unfold pSummarizeCols
    extract_lets r acc'
    have hr := pNamedColumn_span c fuel ts h
    have hacc : colsSp N acc' := ha.snoc hr.2
    have hrest : TBs N r.rest := hr.1
    clear_value acc' r
    split
    · exact ⟨ha, h⟩
    · split
      · exact ⟨hacc, hrest⟩
      · split
        · exact ⟨hacc, TBs.nil N⟩
        · next t rest hrr =>
          have : TBs N (t :: rest) := hrr ▸ hrest
          split
          · exact pSummarizeCols_span c fuel n acc' _ _ this.tail hacc
          · exact ⟨hacc, hrr ▸ hrest⟩

theorem pGroupByCols_span {N : Nat} (c : PCtx) (fuel : Nat) :
    ∀ (n : Nat) (acc : List Column) (ts : List Token),
    TBs N ts → colsSp N acc → colsSp N (pGroupByCols c fuel n acc ts).val
  | 0, acc, ts, _, ha => by simp only [pGroupByCols]; exact ha
  | n + 1, acc, ts, h, ha => by
    unfold pGroupByCols
    extract_lets r acc'
    have hr := pNamedColumn_span c fuel ts h
    have hacc : colsSp N acc' := ha.snoc hr.2
    have hrest : TBs N r.rest := hr.1
    clear_value acc' r
    split
    · exact ha
    · split
      · exact hacc
      · split
        · exact hacc
        · next t rest hrr =>
          have : TBs N (t :: rest) := hrr ▸ hrest
          split
          · exact pGroupByCols_span c fuel n acc' _ this.tail hacc
          · exact hacc

theorem pSummarize_span {N : Nat} (c : PCtx) (fuel : Nat) (pipe kw : Span) (ts : List Token) (h : TBs N ts) :
    psOp N (pSummarize c fuel pipe kw ts).val := by
  unfold pSummarize
  extract_lets r1 cols
  have h1 : colsSp N r1.val.cols ∧ TBs N r1.rest :=
    pSummarizeCols_span c fuel (ts.length + 1) [] none ts h (colsSp.nil N)
  clear_value r1
  have hnil := colsSp.nil N
  split
  · rw [psOp]; exact ⟨h1.1, hnil⟩
  · have hc : colsSp N cols := h1.1
    clear_value cols
    split
    · split
      · rw [psOp]; exact ⟨hc, hnil⟩
      · split <;> (rw [psOp]; exact ⟨hc, hnil⟩)
    · next sep rest hrr =>
      have : TBs N (sep :: rest) := hrr ▸ h1.2
      split
      · split
        · rw [psOp]; exact ⟨hc, hnil⟩
        · split <;> (rw [psOp]; exact ⟨hc, hnil⟩)
      · rw [psOp]
        exact ⟨hc, pGroupByCols_span c fuel _ _ _ this.tail hnil⟩


/-! ### tabular productions -/

theorem psOps_snoc {N : Nat} : ∀ (ops : OpList) (o : Op), psOps N ops → psOp N o → psOps N (ops.snoc o)
  | .nil, o, _, ho => by simp only [OpList.snoc, psOps]; exact ⟨ho, trivial⟩
  | .cons p ps, o, h, ho => by
    rw [psOps] at h
    simp only [OpList.snoc, psOps]
    exact ⟨h.1, psOps_snoc ps o h.2 ho⟩

structure STabInv (N : Nat) (c : PCtx) (fuel : Nat) : Prop where
  tabular : ∀ ts, TBs N ts → psTab N (pTabular c fuel ts).val
  ops : ∀ ops acc ts, TBs N ts → psOps N ops → psOps N (pOps c fuel ops acc ts).val
  operator : ∀ pipe name ts r, TBs N ts → pOperator c fuel pipe name ts = some r → psOp N r.val
  join : ∀ pipe kw ts, TBs N ts → psOp N (pJoin c fuel pipe kw ts).val

theorem sTabInv_zero (N : Nat) (c : PCtx) : STabInv N c 0 where
  tabular := fun ts _ => by simp only [pTabular]; rw [psTab]; trivial
  ops := fun ops acc ts _ ho => by simp only [pOps]; exact ho
  operator := by
    intro pipe name ts r _ h
    simp only [pOperator, Option.some.injEq] at h
    subst h; rw [psOp]; trivial
  join := fun pipe kw ts _ => by simp only [pJoin]; rw [psOp]; trivial

theorem sTabInv_tabular {N : Nat} {c : PCtx} {fuel : Nat} (ih : STabInv N c fuel) (ts : List Token)
    (h : TBs N ts) : psTab N (pTabular c (fuel + 1) ts).val := by
  unfold pTabular
  extract_lets ri
  have hi : TBs N ri.rest := (pIdent_span (c := c) h).1
  clear_value ri
  split
  · rw [psTab]; trivial
  · simp only [psTab]
    exact ih.ops _ _ _ hi (by rw [psOps]; trivial)

theorem sTabInv_ops {N : Nat} {c : PCtx} {fuel : Nat} (ih : STabInv N c fuel) (ops : OpList) (acc : Errs)
    (ts : List Token) (h : TBs N ts) (ho : psOps N ops) : psOps N (pOps c (fuel + 1) ops acc ts).val := by
  unfold pOps
  split
  · exact ho
  · next pipeTok rest =>
    split
    · exact ho
    · extract_lets sp
      have h1 : TBs N sp.1 := h.tail.split_fst
      have h2 : TBs N sp.2 := h.tail.split_snd
      clear_value sp
      split
      · exact ih.ops _ _ _ h2 ho
      · next name opToks hsp =>
        have h1' : TBs N (name :: opToks) := hsp ▸ h1
        split
        · exact ih.ops _ _ _ h2 ho
        · split
          · exact ih.ops _ _ _ h2 ho
          · next r hop =>
            exact ih.ops _ _ _ h2 (psOps_snoc ops r.val ho (ih.operator _ _ _ _ h1'.tail hop))

theorem sTabInv_operator {N : Nat} {c : PCtx} {fuel : Nat} (ih : STabInv N c fuel) (pipe : Span) (name : Token)
    (ts : List Token) (r : PRes Op) (h : TBs N ts) :
    pOperator c (fuel + 1) pipe name ts = some r → psOp N r.val := by
  unfold pOperator
  extract_lets kw v rE rC rP rX rI
  have hX : colsSp N rX.val := pExtendCols_span c fuel _ _ _ h (colsSp.nil N)
  clear_value v kw rE rC rP rX rI
  -- count
  refine opt_ite (Q := fun r : PRes Op => psOp N r.val) (by rw [psOp]; trivial) ?_
  -- where
  refine opt_ite (Q := fun r : PRes Op => psOp N r.val) (by rw [psOp]; trivial) ?_
  -- sort
  refine ite_elim (fun x : Option (PRes Op) => x = some r → psOp N r.val) (fun _ => ?_) (fun _ => ?_)
  · split
    · rintro ⟨⟩; rw [psOp]; trivial
    · split
      · rintro ⟨⟩; rw [psOp]; trivial
      · rintro ⟨⟩; rw [psOp]; trivial
  -- take
  refine opt_ite (Q := fun r : PRes Op => psOp N r.val) (by rw [psOp]; trivial) ?_
  -- top
  refine ite_elim (fun x : Option (PRes Op) => x = some r → psOp N r.val) (fun _ => ?_) (fun _ => ?_)
  · split
    · rintro ⟨⟩; rw [psOp]; trivial
    · split
      · rintro ⟨⟩; rw [psOp]; trivial
      · split
        · rintro ⟨⟩; rw [psOp]; trivial
        · rintro ⟨⟩; rw [psOp]; trivial
  -- project
  refine opt_ite (Q := fun r : PRes Op => psOp N r.val) (by rw [psOp]; trivial) ?_
  -- extend
  refine opt_ite (Q := fun r : PRes Op => psOp N r.val) (by rw [psOp]; exact hX) ?_
  -- summarize, join
  refine opt_ite (Q := fun r : PRes Op => psOp N r.val) (pSummarize_span c fuel _ _ ts h) ?_
  refine opt_ite (Q := fun r : PRes Op => psOp N r.val) (ih.join _ _ _ h) ?_
  -- as
  refine opt_ite (Q := fun r : PRes Op => psOp N r.val) (by rw [psOp]; trivial) ?_
  -- render
  refine opt_ite (Q := fun r : PRes Op => psOp N r.val) ?_ ?_
  · have : ∀ o : Op, (∃ p k ch w lp props rp, o = .render p k ch w lp props rp) → psOp N o := by
      rintro o ⟨p, k, ch, w, lp, props, rp, rfl⟩; rw [psOp]; trivial
    apply this
    unfold pRender
    extract_lets ri
    split
    · exact ⟨_, _, _, _, _, _, _, rfl⟩
    · split
      · exact ⟨_, _, _, _, _, _, _, rfl⟩
      · split
        · exact ⟨_, _, _, _, _, _, _, rfl⟩
        · split
          · exact ⟨_, _, _, _, _, _, _, rfl⟩
          · split <;> exact ⟨_, _, _, _, _, _, _, rfl⟩
  simp

theorem sTabInv_join {N : Nat} {c : PCtx} {fuel : Nat} (ih : STabInv N c fuel) (pipe kw : Span)
    (ts : List Token) (h : TBs N ts) : psOp N (pJoin c (fuel + 1) pipe kw ts).val := by
  unfold pJoin
  extract_lets mk
  have hmk : ∀ kind ka fl lp rp on cs, psOp N (mk kind ka fl lp .nil rp on cs) := by
    intros; simp only [mk, psOp, psTab]
  split
  · exact hmk ..
  · next t0 rest0 =>
    extract_lets hdr
    have hhdr : (∀ r, hdr = .inr r → psOp N r.val) ∧
        (∀ kind ka fl e0 rest, hdr = .inl (some (kind, ka, fl, e0, rest)) → TBs N rest) := by
      simp only [hdr]
      split
      · split
        · exact ⟨(by rintro r ⟨⟩; exact hmk ..), (by intro _ _ _ _ _ hh; cases hh)⟩
        · next asg rest1 =>
          split
          · exact ⟨(by rintro r ⟨⟩; exact hmk ..), (by intro _ _ _ _ _ hh; cases hh)⟩
          · split
            · exact ⟨(by rintro r ⟨⟩; exact hmk ..), (by intro _ _ _ _ _ hh; cases hh)⟩
            · next fl rest2 =>
              split
              · exact ⟨(by rintro r ⟨⟩; exact hmk ..), (by intro _ _ _ _ _ hh; cases hh)⟩
              · refine ⟨(by intro r hh; cases hh), ?_⟩
                intro kind ka fl' e0 rest hh
                simp only [Sum.inl.injEq, Option.some.injEq, Prod.mk.injEq] at hh
                obtain ⟨_, _, _, _, rfl⟩ := hh
                exact h.tail.tail.tail
      · refine ⟨(by intro r hh; cases hh), ?_⟩
        intro kind ka fl' e0 rest hh
        simp only [Sum.inl.injEq, Option.some.injEq, Prod.mk.injEq] at hh
        obtain ⟨_, _, _, _, rfl⟩ := hh
        exact h
    clear_value hdr
    split
    · next r => exact hhdr.1 r rfl
    · exact hmk ..
    · next kind ka fl e0 rest =>
      have hrest : TBs N rest := hhdr.2 kind ka fl e0 rest rfl
      split
      · exact hmk ..
      · next lp rest1 =>
        split
        · exact hmk ..
        · extract_lets sp rr e1
          have hrr : psTab N rr.val := ih.tabular _ hrest.tail.split_fst
          have hmk2 : ∀ rp on cs, psOp N (mk kind ka fl lp.span rr.val rp on cs) := by
            intro rp on cs
            simp only [mk, psOp]
            exact hrr
          clear_value e1 rr sp
          split
          · exact hmk2 ..
          · split
            · exact hmk2 ..
            · split
              · exact hmk2 ..
              · split
                · exact hmk2 ..
                · exact hmk2 ..

theorem sTabInv (N : Nat) (c : PCtx) : ∀ fuel, STabInv N c fuel
  | 0 => sTabInv_zero N c
  | fuel + 1 =>
    have ih := sTabInv N c fuel
    { tabular := sTabInv_tabular ih
      ops := sTabInv_ops ih
      operator := sTabInv_operator ih
      join := sTabInv_join ih }

theorem pTabular_span {N : Nat} (c : PCtx) (fuel : Nat) (ts : List Token) (h : TBs N ts) :
    psTab N (pTabular c fuel ts).val := (sTabInv N c fuel).tabular ts h

/-! ### statements -/

theorem pStatement_span {N : Nat} (c : PCtx) (ts : List Token) (h : TBs N ts) :
    ∀ s, (pStatement c ts).1 = some s → psStmt N s := by
  unfold pStatement
  extract_lets fuel rl rt first
  have ht : psTab N rt.val := pTabular_span c fuel ts h
  have hl : ∀ s, rl.val = some s → psStmt N s := by
    simp only [rl]
    unfold pLet
    intro s
    split
    · simp
    · split
      · simp
      · extract_lets ri
        clear_value ri
        split
        · simp only [Option.some.injEq]; rintro rfl; rw [psStmt]; trivial
        · split
          · simp only [Option.some.injEq]; rintro rfl; rw [psStmt]; trivial
          · split
            · simp only [Option.some.injEq]; rintro rfl; rw [psStmt]; trivial
            · simp only [Option.some.injEq]; rintro rfl; rw [psStmt]; trivial
  have hf : ∀ s, first.val = some s → psStmt N s := by
    simp only [first]
    split
    · exact hl
    · clear_value rt
      split
      · simp
      · simp only [Option.some.injEq]
        rintro s rfl
        rw [psStmt]; exact ht
  clear_value first rt rl
  split
  · split <;> simp
  · exact hf

theorem TBs.splitSemi_fst {N : Nat} {ts : List Token} (h : TBs N ts) : TBs N (splitSemi ts).1 := by
  have := splitSemi_append ts
  rw [← this] at h
  exact h.of_append_left

theorem TBs.splitSemi_snd {N : Nat} {ts : List Token} (h : TBs N ts) : TBs N (splitSemi ts).2 := by
  have := splitSemi_append ts
  rw [← this] at h
  exact h.of_append_right

theorem pStatements_span {N : Nat} (c : PCtx) : ∀ (n : Nat) (acc : List Stmt) (errs : Errs) (ts : List Token),
    TBs N ts → (∀ s ∈ acc, psStmt N s) → ∀ s ∈ (pStatements c n acc errs ts).1, psStmt N s
  | 0, acc, errs, ts, _, ha => by simp only [pStatements]; exact ha
  | n + 1, acc, errs, ts, h, ha => by
    unfold pStatements
    extract_lets sp r acc' errs'
    have h1 : TBs N sp.1 := h.splitSemi_fst
    have h2 : TBs N sp.2 := h.splitSemi_snd
    have hr : ∀ s, r.1 = some s → psStmt N s := pStatement_span c sp.1 h1
    have hacc : ∀ s ∈ acc', psStmt N s := by
      simp only [acc']
      split
      · next s hs => exact forall_mem_snoc ha (hr s hs)
      · exact ha
    clear_value acc' errs' r sp
    split
    · exact hacc
    · next t rest hrr =>
      have : TBs N (t :: rest) := hrr ▸ h2
      exact pStatements_span c n acc' errs' _ this.tail hacc

/-! ### from the three facts to `SpansInside` -/

theorem spanInside_of {src : Bytes} {e : Expr} (hb : EB src.length e) (hv : NV e)
    (hn : isNilExpr e = false) : spanInside src e.spanOf = true := by
  have hvalid : e.spanOf.isValid = true := by
    rcases hv with rfl | hv
    · cases hn
    · exact hv
  have hbound := EB.spanOf e hb hvalid
  rw [C10.isValid_iff] at hvalid
  unfold spanInside
  exact decide_eq_true ⟨hvalid.1, hvalid.2.2, hbound⟩

theorem colsSpan_of {src : Bytes} (cs : List Column) (hs : colsSp src.length cs)
    (hn : ∀ c ∈ cs, isNilExpr c.x = false) : cs.all (colSpanOK src) = true := by
  rw [List.all_eq_true]
  intro c hc
  unfold colSpanOK
  rw [spanInside_of (hs c hc).1 (hs c hc).2 (hn c hc), Bool.or_true]

mutual
theorem spansTab_of (src : Bytes) : ∀ t : Tabular, t.Good → pcTab t = true → psTab src.length t →
    spansTabular src t = true
  | .nil, _, _, _ => by rw [spansTabular]
  | .mk s ops, hg, hc, hs => by
    rw [Tabular.Good] at hg
    rw [pcTab] at hc
    rw [psTab] at hs
    rw [spansTabular]
    exact spansOps_of src ops hg.2 hc hs
theorem spansOps_of (src : Bytes) : ∀ ops : OpList, ops.Good → pcOps ops = true → psOps src.length ops →
    spansOps src ops = true
  | .nil, _, _, _ => by rw [spansOps]
  | .cons o os, hg, hc, hs => by
    rw [OpList.Good] at hg
    rw [pcOps, Bool.and_eq_true] at hc
    rw [psOps] at hs
    rw [spansOps, Bool.and_eq_true]
    exact ⟨spansOp_of src o hg.1 hc.1 hs.1, spansOps_of src os hg.2 hc.2 hs.2⟩
theorem spansOp_of (src : Bytes) : ∀ o : Op, o.Good → pcOp o = true → psOp src.length o →
    spansOp src o = true
  | .extend _ _ cs, _, hc, hs => by
    rw [pcOp, List.all_eq_true] at hc
    rw [psOp] at hs
    rw [spansOp]
    exact colsSpan_of cs hs (fun c hcm => by simpa using hc c hcm)
  | .summarize _ _ cs _ gs, hg, _, hs => by
    rw [Op.Good] at hg
    rw [psOp] at hs
    rw [spansOp, Bool.and_eq_true]
    exact ⟨colsSpan_of cs hs.1 (fun c hcm => isNil_of_good (hg.1 c hcm)),
      colsSpan_of gs hs.2 (fun c hcm => isNil_of_good (hg.2 c hcm))⟩
  | .join _ _ _ _ fl _ right _ _ conds, hg, hc, hs => by
    rw [Op.Good] at hg
    rw [pcOp, Bool.and_eq_true] at hc
    rw [psOp] at hs
    rw [spansOp]
    exact spansTab_of src right hg.1 hc.2 hs
  | .count .., _, _, _ => by simp only [spansOp]
  | .where_ .., _, _, _ => by simp only [spansOp]
  | .sort .., _, _, _ => by simp only [spansOp]
  | .take .., _, _, _ => by simp only [spansOp]
  | .top .., _, _, _ => by simp only [spansOp]
  | .project .., _, _, _ => by simp only [spansOp]
  | .as_ .., _, _, _ => by simp only [spansOp]
  | .render .., _, _, _ => by simp only [spansOp]
end

theorem scan_TBs (src : Bytes) : TBs src.length (scan src) := by
  intro t ht
  have := mem_scan_bounds src t ht
  exact ⟨Nat.le_of_lt this.1, this.2⟩

/-- **The span hypothesis of `C13_exact` holds for every error-free parse.** -/
theorem parse_spansInside {src : Bytes} {stmts : List Stmt} (h : parse src = (stmts, [])) :
    SpansInside src stmts = true := by
  have hp : parseTokens src.length (scan src) = (stmts, []) := h
  unfold SpansInside
  rw [List.all_eq_true]
  intro s hs
  have hg := parseTokens_good hp s hs
  have hc : pcStmt s = true := by
    have := pStatements_pc (c := ⟨src.length⟩) ((scan src).length + 1) [] [] (scan src)
    unfold parseTokens at hp
    rw [hp] at this
    exact this rfl (by simp) s hs
  have hsp : psStmt src.length s := by
    have := pStatements_span (N := src.length) ⟨src.length⟩ ((scan src).length + 1) [] [] (scan src)
      (scan_TBs src) (by simp)
    unfold parseTokens at hp
    rw [hp] at this
    exact this s hs
  cases s with
  | let_ kw name asg x => rfl
  | tabular t =>
    rw [Stmt.Good] at hg
    rw [pcStmt] at hc
    rw [psStmt] at hsp
    exact spansTab_of src t hg hc hsp
end Pql.Exact
