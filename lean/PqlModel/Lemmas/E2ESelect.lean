/-
End-to-end composition, part 2: `normSel` / `normStatement` and the evaluator.
-/
import PqlModel.Lemmas.E2ENorm
namespace Pql.E2E
open Pql Sql CompileOracle JoinSem

/-- `normSel` with `normF` in place of `normS` -/
def normSelF (s : Select) : Select :=
  { s with
    items := s.items.map fun it => { it with expr := normF it.expr }
    join := s.join.map fun j => { j with on := normF j.on }
    where_ := s.where_.map normF
    groupBy := s.groupBy.map normF
    orderBy := s.orderBy.map fun o => { o with expr := normF o.expr }
    limit := s.limit.map normF }

/-- **`evalSelect` is invariant under the case of function names** (unconditionally) -/
theorem evalSelect_normSelF (db : DB) (ctes : List (Bytes × Table)) (s : Select) :
    evalSelect db ctes (normSelF s) = evalSelect db ctes s := by
  obtain ⟨d, items, src, join, wh, gb, ob, lim⟩ := s
  cases join <;> cases wh <;> cases lim <;>
    simp only [evalSelect, normSelF, Option.map_none, Option.map_some, List.any_map, List.flatMap_map, List.map_map,
      List.isEmpty_map, Function.comp_def, evalS_normF, hasAgg_normF]

/-- no `!=` operator anywhere in the SELECT -/
def noBangSel (s : Select) : Bool :=
  s.items.all (fun it => noBang it.expr) &&
  (match s.join with | some j => noBang j.on | none => true) &&
  (match s.where_ with | some w => noBang w | none => true) &&
  s.groupBy.all noBang &&
  s.orderBy.all (fun o => noBang o.expr) &&
  (match s.limit with | some l => noBang l | none => true)

theorem normSel_eq_normSelF (s : Select) (h : noBangSel s = true) : normSel s = normSelF s := by
  obtain ⟨d, items, src, join, wh, gb, ob, lim⟩ := s
  simp only [noBangSel, Bool.and_eq_true, List.all_eq_true] at h
  obtain ⟨⟨⟨⟨⟨h1, h2⟩, h3⟩, h4⟩, h5⟩, h6⟩ := h
  simp only [normSel, normSelF, Select.mk.injEq, true_and]
  refine ⟨?_, ?_, ?_, ?_, ?_, ?_⟩
  · exact List.map_congr_left fun it hit => by rw [normS_eq_normF _ (h1 it hit)]
  · cases join with
    | none => rfl
    | some j => simp only [Option.map_some, normS_eq_normF _ h2]
  · cases wh with
    | none => rfl
    | some w => simp only [Option.map_some, normS_eq_normF _ h3]
  · exact List.map_congr_left fun g hg => normS_eq_normF _ (h4 g hg)
  · exact List.map_congr_left fun o ho => by rw [normS_eq_normF _ (h5 o ho)]
  · cases lim with
    | none => rfl
    | some l => simp only [Option.map_some, normS_eq_normF _ h6]

/-- **evaluating the normal form of a SELECT without `!=` is evaluating the SELECT** -/
theorem evalSelect_normSel (db : DB) (ctes : List (Bytes × Table)) (s : Select) (h : noBangSel s = true) :
    evalSelect db ctes (normSel s) = evalSelect db ctes s := by
  rw [normSel_eq_normSelF s h, evalSelect_normSelF]

/-! ### statements -/

/-- the normal form the oracle's comparison `statementEq` compares: `normSel` on every common table
    expression and on the body -/
def normStatement (st : Statement) : Statement :=
  ⟨st.ctes.map fun c => (c.1, normSel c.2), normSel st.body⟩

def noBangStatement (st : Statement) : Bool :=
  st.ctes.all (fun c => noBangSel c.2) && noBangSel st.body

theorem evalCtes_norm (db : DB) : ∀ (ctes : List (Bytes × Select)) (acc : List (Bytes × Table)),
    (∀ c ∈ ctes, noBangSel c.2 = true) →
    (ctes.map fun c => (c.1, normSel c.2)).foldl (fun acc (n, sel) => acc ++ [(n, evalSelect db acc sel)]) acc =
      ctes.foldl (fun acc (n, sel) => acc ++ [(n, evalSelect db acc sel)]) acc
  | [], _, _ => rfl
  | c :: cs, acc, h => by
    simp only [List.map_cons, List.foldl_cons]
    rw [evalSelect_normSel db acc c.2 (h c List.mem_cons_self)]
    exact evalCtes_norm db cs _ fun c' hc' => h c' (List.mem_cons_of_mem _ hc')

/-- **evaluating the normal form of a statement without `!=` is evaluating the statement** -/
theorem evalStatement_normStatement (db : DB) (st : Statement) (h : noBangStatement st = true) :
    evalStatement db (normStatement st) = evalStatement db st := by
  simp only [noBangStatement, Bool.and_eq_true, List.all_eq_true] at h
  simp only [evalStatement, normStatement]
  rw [evalCtes_norm db st.ctes [] h.1, evalSelect_normSel db _ st.body h.2]

/-! ### the oracle's comparison is equality of normal forms -/

theorem tableRef_eq_of_eq {a b : TableRef} (h : tableRefEq a b = true) : a = b := by
  cases a <;> cases b <;> simp_all [tableRefEq]

theorem opt_eq_of_optEq {a b : Option SExpr} (h : optEq a b = true) : a = b := by
  cases a <;> cases b <;> simp only [optEq, Bool.false_eq_true] at h ⊢
  rw [sexpr_eq_of_beq' h]

theorem list_eq_of_zip_all {α : Type} (p : α → α → Bool) (hp : ∀ x y, p x y = true → x = y) :
    ∀ (a b : List α), a.length = b.length → ((a.zip b).all fun (x, y) => p x y) = true → a = b
  | [], [], _, _ => rfl
  | [], _ :: _, hl, _ => by simp at hl
  | _ :: _, [], hl, _ => by simp at hl
  | x :: a, y :: b, hl, h => by
    simp only [List.zip_cons_cons, List.all_cons, Bool.and_eq_true] at h
    simp only [List.length_cons, Nat.add_right_cancel_iff] at hl
    rw [hp x y h.1, list_eq_of_zip_all p hp a b hl h.2]

theorem select_eq_of_selectEq {a b : Select} (h : selectEq a b = true) : a = b := by
  obtain ⟨da, ia, sa, ja, wa, ga, oa, la⟩ := a
  obtain ⟨db, ib, sb, jb, wb, gb, ob, lb⟩ := b
  simp only [selectEq, listEq, Bool.and_eq_true, beq_iff_eq] at h
  obtain ⟨⟨⟨⟨⟨⟨⟨⟨⟨h1, h2⟩, h3⟩, h4⟩, h5⟩, h6⟩, h7a, h7b⟩, h8⟩, h9⟩, h10⟩ := h
  have e2 : ia = ib := list_eq_of_zip_all (fun x y => x.star == y.star && x.expr == y.expr && x.alias == y.alias)
    (fun x y hxy => by
      obtain ⟨xs, xe, xa⟩ := x
      obtain ⟨ys, ye, ya⟩ := y
      simp only [Bool.and_eq_true, beq_iff_eq] at hxy
      rw [hxy.1.1, sexpr_eq_of_beq' hxy.1.2, hxy.2]) ia ib h2 h3
  have e5 : ja = jb := by
    cases ja <;> cases jb <;> simp only [Bool.false_eq_true] at h5 ⊢
    rename_i j k
    obtain ⟨jl, jt, jo⟩ := j
    obtain ⟨kl, kt, ko⟩ := k
    simp only [Bool.and_eq_true, beq_iff_eq] at h5
    rw [h5.1.1, tableRef_eq_of_eq h5.1.2, sexpr_eq_of_beq' h5.2]
  have e7 : ga = gb := list_eq_of_zip_all (fun x y => x == y) (fun x y hxy => sexpr_eq_of_beq' hxy) ga gb h7a h7b
  have e9 : oa = ob := list_eq_of_zip_all (fun x y => x.expr == y.expr && x.asc == y.asc && x.nullsFirst == y.nullsFirst)
    (fun x y hxy => by
      obtain ⟨xe, xa, xn⟩ := x
      obtain ⟨ye, ya, yn⟩ := y
      simp only [Bool.and_eq_true, beq_iff_eq] at hxy
      rw [sexpr_eq_of_beq' hxy.1.1, hxy.1.2, hxy.2]) oa ob h8 h9
  rw [h1, e2, tableRef_eq_of_eq h4, e5, opt_eq_of_optEq h6, e7, e9, opt_eq_of_optEq h10]

/-- **`statementEq` is equality of normal forms** -/
theorem normStatement_eq_of_statementEq {a b : Statement} (h : statementEq a b = true) :
    normStatement a = normStatement b := by
  obtain ⟨ca, ba⟩ := a
  obtain ⟨cb, bb⟩ := b
  simp only [statementEq, Bool.and_eq_true, beq_iff_eq] at h
  obtain ⟨⟨h1, h2⟩, h3⟩ := h
  simp only [normStatement, Statement.mk.injEq]
  refine ⟨?_, select_eq_of_selectEq h3⟩
  clear h3
  induction ca generalizing cb with
  | nil => cases cb with
    | nil => rfl
    | cons _ _ => simp at h1
  | cons x ca ih =>
    cases cb with
    | nil => simp at h1
    | cons y cb =>
      simp only [List.zip_cons_cons, List.all_cons, Bool.and_eq_true, beq_iff_eq] at h2
      simp only [List.length_cons, Nat.add_right_cancel_iff] at h1
      simp only [List.map_cons, List.cons.injEq, Prod.mk.injEq]
      exact ⟨⟨h2.1.1, select_eq_of_selectEq h2.1.2⟩, ih cb h1 h2.2⟩

/-- the gap between C05 and C03, closed: a statement that reads as `want` up to `normS`, `want` free of
    `!=`, has a normal form that evaluates like `want` -/
theorem evalStatement_of_statementEq (db : DB) {st want : Statement} (h : statementEq st want = true)
    (hw : noBangStatement want = true) :
    evalStatement db (normStatement st) = evalStatement db want := by
  rw [normStatement_eq_of_statementEq h, evalStatement_normStatement db want hw]

/-! ### … and it cannot be dropped: `statementEq` alone does not preserve evaluation -/

def cexItem (op : String) : SelectItem := ⟨false, .bin op (.num [49]) (.num [50]), some [120]⟩
/-- `SELECT 1 <op> 2 AS "x" FROM "T"` -/
def cexStmt (op : String) : Statement :=
  ⟨[], { items := [cexItem op], source := .named [84] none, join := none, where_ := none, groupBy := [],
         orderBy := [], limit := none }⟩
def cexDB : DB := [([84], ⟨[[97]], [[.int 0]]⟩)]

/-- `SELECT 1 != 2 AS x FROM T` and `SELECT 1 <> 2 AS x FROM T` are equal for `statementEq`, and the
    reference evaluator gives them different tables: `normS` is a normalisation for COMPARING readings,
    not an invariance of `evalStatement`. -/
theorem evalStatement_not_invariant_under_statementEq :
    statementEq (cexStmt "!=") (cexStmt "<>") = true ∧
    evalStatement cexDB (cexStmt "!=") = ⟨[[120]], [[.term (Bytes.ofString "!=(1,2)")]]⟩ ∧
    evalStatement cexDB (cexStmt "<>") = ⟨[[120]], [[.bool true]]⟩ ∧
    noBangStatement (cexStmt "!=") = false := by
  refine ⟨by decide, by decide, by decide, by decide⟩

end Pql.E2E
