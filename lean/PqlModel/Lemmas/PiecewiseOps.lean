/-
Property C15, parse half — the (non-recursive) tabular operator productions commute with moving
the tokens.
-/
import PqlModel.Lemmas.PiecewiseExpr
namespace Pql.Piecewise
open Pql

variable {n m d : Nat}

macro "sh_eq2" : tactic =>
  `(tactic| first
    | rfl
    | (simp (config := { failIfUnchanged := false }) only [shExpr, shExprList, shIdent, shSortTerm, shColumn, shRenderProp, shOp,
        shTabular, shOpList, shStmt,
        span_shift, span2_shift, mapE_errAt_tok, mapE_nfAt_tok,
        mapE_endSplit, mapE_nil, mapE_append, mapE_mkOpaque, mapE_errAt_eof, mapE_nfAt_eof,
        mapE_errNoPos, mapE_errFuel, List.map_cons, List.map_nil, List.map_append, Option.map_some,
        Option.map_none, shift_kind_eq, shift_value, shSpan_null, shSpan_zero, *] <;> rfl))

theorem pRowCount_sh (fuel : Nat) (ts : List Token) (h : TokP ts) :
    Sh n m d (shExpr d) (pRowCount ⟨n⟩ fuel ts) (pRowCount ⟨m⟩ fuel (ts.map (Token.shift d))) := by
  obtain ⟨e1, p1⟩ := pExpr_sh (n := n) (m := m) (d := d) fuel ts h
  simp only [pRowCount]
  rw [e1]
  simp only [ne_eq, mapE_eq_nil]
  split
  · exact ⟨rfl, p1⟩
  · cases hv : (pExpr ⟨n⟩ fuel ts).val <;> simp only [shExpr] <;>
      first
      | exact ⟨by simp [hv, shExpr], p1⟩
      | (split <;> exact ⟨by simp [hv, shExpr], p1⟩)

/-- the `nulls first` / `nulls last` clause of `sortTerm` (same text as in `pSortTerm`) -/
def nullsClause (c : PCtx) (term : SortTerm) (l : List Token) : PRes (Option SortTerm) :=
  match l with
  | [] => ⟨some term, [], []⟩
  | t :: rest =>
    if isIdentNamed t "nulls" then
      match rest with
      | [] => ⟨some term, errAt c.eof, []⟩
      | t2 :: rest2 =>
        if isIdentNamed t2 "first" then
          ⟨some { term with nullsFirst := true, nullsSpan := ⟨t.start, t2.stop⟩ }, [], rest2⟩
        else if isIdentNamed t2 "last" then
          ⟨some { term with nullsFirst := false, nullsSpan := ⟨t.start, t2.stop⟩ }, [], rest2⟩
        else ⟨some term, errAt t2.span, rest⟩
    else ⟨some term, [], l⟩

theorem nullsClause_sh (term : SortTerm) (l : List Token) (h : TokP l) :
    Sh n m d (Option.map (shSortTerm d)) (nullsClause ⟨n⟩ term l)
      (nullsClause ⟨m⟩ (shSortTerm d term) (l.map (Token.shift d))) := by
  rcases l with _ | ⟨t, rest⟩
  · exact ⟨rfl, TokP_nil⟩
  · obtain ⟨h1, h2⟩ := (TokP_cons _ _).mp h
    simp only [nullsClause, List.map_cons, isIdentNamed_shift]
    split
    · rcases rest with _ | ⟨t2, rest2⟩
      · exact ⟨by sh_eq2, TokP_nil⟩
      · obtain ⟨h3, h4⟩ := (TokP_cons _ _).mp h2
        simp only [List.map_cons, isIdentNamed_shift]
        split
        · exact ⟨by simp [shSortTerm, span2_shift' d t t2 h3], h4⟩
        · split
          · exact ⟨by simp [shSortTerm, span2_shift' d t t2 h3], h4⟩
          · exact ⟨by sh_eq2, h2⟩
    · exact ⟨by sh_eq2, h⟩

theorem pSortTerm_sh (fuel : Nat) (ts : List Token) (h : TokP ts) :
    Sh n m d (Option.map (shSortTerm d)) (pSortTerm ⟨n⟩ fuel ts)
      (pSortTerm ⟨m⟩ fuel (ts.map (Token.shift d))) := by
  obtain ⟨e1, p1⟩ := pExpr_sh (n := n) (m := m) (d := d) fuel ts h
  simp only [pSortTerm]
  rw [e1]
  simp only [ne_eq, mapE_eq_nil]
  split
  · exact ⟨by sh_eq2, p1⟩
  · rcases hr : (pExpr ⟨n⟩ fuel ts).rest with _ | ⟨t, rest⟩
    · exact ⟨by simp [shSortTerm], TokP_nil⟩
    · rw [hr] at p1
      obtain ⟨h1, h2⟩ := (TokP_cons _ _).mp p1
      simp only [List.map_cons, isIdentNamed_shift]
      by_cases ha : isIdentNamed t "asc" = true
      · simp only [ha, ↓reduceIte, Bool.not_true, Bool.false_eq_true]
        have := nullsClause_sh (n := n) (m := m) (d := d)
          ⟨(pExpr ⟨n⟩ fuel ts).val, true, t.span, true, .null⟩ rest h2
        simp only [shSortTerm, shSpan_null, ← span_shift d t h1] at this
        exact this
      · simp only [ha, ↓reduceIte]
        by_cases hd : isIdentNamed t "desc" = true
        · simp only [hd, ↓reduceIte, Bool.not_true, Bool.false_eq_true]
          have := nullsClause_sh (n := n) (m := m) (d := d)
            ⟨(pExpr ⟨n⟩ fuel ts).val, false, t.span, false, .null⟩ rest h2
          simp only [shSortTerm, shSpan_null, ← span_shift d t h1] at this
          exact this
        · simp only [hd, ↓reduceIte]
          by_cases hn : isIdentNamed t "nulls" = true
          · simp only [hn, ↓reduceIte, Bool.not_true, Bool.false_eq_true]
            simp only [isIdentNamed_shift, hn, ↓reduceIte]
            have := nullsClause_sh (n := n) (m := m) (d := d)
              ⟨(pExpr ⟨n⟩ fuel ts).val, false, .null, false, .null⟩ (t :: rest) p1
            simp only [shSortTerm, shSpan_null, List.map_cons, nullsClause, isIdentNamed_shift, hn,
              ↓reduceIte] at this
            exact this
          · simp only [hn, ↓reduceIte, Bool.not_false]
            exact ⟨by simp [shSortTerm], p1⟩


theorem pSortTerms_sh (fuel : Nat) : ∀ (k : Nat) (acc : List SortTerm) (ts : List Token), TokP ts →
    Sh n m d (List.map (shSortTerm d)) (pSortTerms ⟨n⟩ fuel k acc ts)
      (pSortTerms ⟨m⟩ fuel k (acc.map (shSortTerm d)) (ts.map (Token.shift d))) := by
  intro k
  induction k with
  | zero => intro acc ts h; exact ⟨by simp [pSortTerms], h⟩
  | succ k ih =>
    intro acc ts h
    obtain ⟨e1, p1⟩ := pSortTerm_sh (n := n) (m := m) (d := d) fuel ts h
    simp only [pSortTerms]
    rw [e1]
    simp only [ne_eq, mapE_eq_nil]
    rcases hv : (pSortTerm ⟨n⟩ fuel ts).val with _ | st <;> simp only [Option.map_some, Option.map_none] <;>
    · split
      · exact ⟨by sh_eq2, p1⟩
      · rcases hr : (pSortTerm ⟨n⟩ fuel ts).rest with _ | ⟨t, rest⟩
        · exact ⟨by sh_eq2, TokP_nil⟩
        · rw [hr] at p1
          simp only [List.map_cons, shift_kind_eq]
          split
          · have := ih (match (pSortTerm ⟨n⟩ fuel ts).val with | some t => acc ++ [t] | none => acc) rest
              ((TokP_cons _ _).mp p1).2
            simp only [hv, List.map_append, List.map_cons, List.map_nil] at this
            exact this
          · exact ⟨by sh_eq2, p1⟩

theorem pNamedColumn_sh (fuel : Nat) (ts : List Token) (h : TokP ts) :
    Sh n m d (shColumn d) (pNamedColumn ⟨n⟩ fuel ts)
      (pNamedColumn ⟨m⟩ fuel (ts.map (Token.shift d))) := by
  obtain ⟨ei, pi_⟩ := pIdent_sh (n := n) (m := m) (d := d) ts h
  obtain ⟨e0, p0⟩ := pExpr_sh (n := n) (m := m) (d := d) fuel ts h
  simp only [pNamedColumn]
  rw [ei, e0]
  rcases hv : (pIdent ⟨n⟩ ts).val with _ | id
  · exact ⟨by sh_eq2, p0⟩
  · rcases hr : (pIdent ⟨n⟩ ts).rest with _ | ⟨t, rest⟩
    · exact ⟨by sh_eq2, p0⟩
    · rw [hr] at pi_
      obtain ⟨h1, h2⟩ := (TokP_cons _ _).mp pi_
      simp only [Option.map_some, List.map_cons, shift_kind_eq]
      by_cases hk : t.kind = TokKind.assign
      · obtain ⟨e1, p1⟩ := pExpr_sh (n := n) (m := m) (d := d) fuel rest h2
        simp only [if_pos hk]
        rw [e1]
        exact ⟨by sh_eq2, p1⟩
      · simp only [if_neg hk]
        exact ⟨by sh_eq2, p0⟩

theorem pExtendCols_sh (fuel : Nat) : ∀ (k : Nat) (acc : List Column) (ts : List Token), TokP ts →
    Sh n m d (List.map (shColumn d)) (pExtendCols ⟨n⟩ fuel k acc ts)
      (pExtendCols ⟨m⟩ fuel k (acc.map (shColumn d)) (ts.map (Token.shift d))) := by
  intro k
  induction k with
  | zero => intro acc ts h; exact ⟨by simp [pExtendCols], h⟩
  | succ k ih =>
    intro acc ts h
    obtain ⟨e1, p1⟩ := pNamedColumn_sh (n := n) (m := m) (d := d) fuel ts h
    simp only [pExtendCols]
    rw [e1]
    simp only [ne_eq, mapE_eq_nil]
    split
    · exact ⟨by sh_eq2, p1⟩
    · rcases hr : (pNamedColumn ⟨n⟩ fuel ts).rest with _ | ⟨t, rest⟩
      · exact ⟨by sh_eq2, TokP_nil⟩
      · rw [hr] at p1
        simp only [List.map_cons, shift_kind_eq]
        split
        · have := ih (acc ++ [(pNamedColumn ⟨n⟩ fuel ts).val]) rest ((TokP_cons _ _).mp p1).2
          simp only [List.map_append, List.map_cons, List.map_nil] at this
          exact this
        · exact ⟨by sh_eq2, p1⟩

theorem pProjectCols_sh (fuel : Nat) : ∀ (k : Nat) (acc : List Column) (ts : List Token), TokP ts →
    Sh n m d (List.map (shColumn d)) (pProjectCols ⟨n⟩ fuel k acc ts)
      (pProjectCols ⟨m⟩ fuel k (acc.map (shColumn d)) (ts.map (Token.shift d))) := by
  intro k
  induction k with
  | zero => intro acc ts h; exact ⟨by simp [pProjectCols], h⟩
  | succ k ih =>
    intro acc ts h
    obtain ⟨ei, pi_⟩ := pIdent_sh (n := n) (m := m) (d := d) ts h
    simp only [pProjectCols]
    rw [ei]
    rcases hv : (pIdent ⟨n⟩ ts).val with _ | id
    · exact ⟨by sh_eq2, pi_⟩
    · rcases hr : (pIdent ⟨n⟩ ts).rest with _ | ⟨sep, rest⟩
      · exact ⟨by sh_eq2, TokP_nil⟩
      · rw [hr] at pi_
        obtain ⟨h1, h2⟩ := (TokP_cons _ _).mp pi_
        simp only [Option.map_some, List.map_cons, shift_kind_eq]
        split
        · have := ih (acc ++ [⟨some id, .null, .nil⟩]) rest h2
          simp only [List.map_append, List.map_cons, List.map_nil, shColumn, Option.map_some,
            shSpan_null, shExpr] at this
          exact this
        · split
          · obtain ⟨e1, p1⟩ := pExpr_sh (n := n) (m := m) (d := d) fuel rest h2
            rw [e1]
            simp only [ne_eq, mapE_eq_nil]
            split
            · exact ⟨by sh_eq2, p1⟩
            · rcases hr2 : (pExpr ⟨n⟩ fuel rest).rest with _ | ⟨sep2, rest2⟩
              · exact ⟨by sh_eq2, TokP_nil⟩
              · rw [hr2] at p1
                obtain ⟨h3, h4⟩ := (TokP_cons _ _).mp p1
                simp only [List.map_cons, shift_kind_eq]
                split
                · have := ih (acc ++ [⟨some id, sep.span, (pExpr ⟨n⟩ fuel rest).val⟩]) rest2 h4
                  simp only [List.map_append, List.map_cons, List.map_nil, shColumn, Option.map_some,
                    ← span_shift d sep h1] at this
                  exact this
                · exact ⟨by sh_eq2, h4⟩
          · exact ⟨by sh_eq2, pi_⟩


def shSumCols (d : Nat) (s : SumCols) : SumCols :=
  ⟨s.cols.map (shColumn d), s.done, s.comma.map (shSpan d)⟩

/-- the comma span remembered by the column loop of `summarize` is the span of a token -/
theorem pSummarizeCols_comma (c : PCtx) (fuel : Nat) : ∀ (k : Nat) (acc : List Column) (cm : Option Span)
    (ts : List Token), TokP ts → (∀ s, cm = some s → SpanP s) →
    ∀ s, (pSummarizeCols c fuel k acc cm ts).val.comma = some s → SpanP s := by
  intro k
  induction k with
  | zero => intro acc cm ts _ hc; simpa [pSummarizeCols] using hc
  | succ k ih =>
    intro acc cm ts h hc
    obtain ⟨_, p1⟩ := pNamedColumn_sh (n := c.srcLen) (m := 0) (d := 0) fuel ts h
    simp only [pSummarizeCols]
    split
    · exact hc
    · split
      · simp
      · split
        · simp
        · rename_i t rest hr
          rw [hr] at p1
          obtain ⟨h1, h2⟩ := (TokP_cons _ _).mp p1
          split
          · exact ih _ _ _ h2 (fun s hs => by cases hs; exact SpanP_tok t h1)
          · simp

theorem pSummarizeCols_sh (fuel : Nat) : ∀ (k : Nat) (acc : List Column) (cm : Option Span)
    (ts : List Token), TokP ts →
    Sh n m d (shSumCols d) (pSummarizeCols ⟨n⟩ fuel k acc cm ts)
      (pSummarizeCols ⟨m⟩ fuel k (acc.map (shColumn d)) (cm.map (shSpan d)) (ts.map (Token.shift d))) := by
  intro k
  induction k with
  | zero => intro acc cm ts h; exact ⟨by simp [pSummarizeCols, shSumCols], h⟩
  | succ k ih =>
    intro acc cm ts h
    obtain ⟨e1, p1⟩ := pNamedColumn_sh (n := n) (m := m) (d := d) fuel ts h
    simp only [pSummarizeCols]
    rw [e1]
    simp only [isNF_mapE, ne_eq, mapE_eq_nil]
    split
    · exact ⟨by simp [shSumCols], h⟩
    · split
      · exact ⟨by simp [shSumCols], p1⟩
      · rcases hr : (pNamedColumn ⟨n⟩ fuel ts).rest with _ | ⟨t, rest⟩
        · exact ⟨by simp [shSumCols], TokP_nil⟩
        · rw [hr] at p1
          obtain ⟨h1, h2⟩ := (TokP_cons _ _).mp p1
          simp only [List.map_cons, shift_kind_eq]
          split
          · have := ih (acc ++ [(pNamedColumn ⟨n⟩ fuel ts).val]) (some t.span) rest h2
            simp only [List.map_append, List.map_cons, List.map_nil, Option.map_some,
              ← span_shift d t h1] at this
            exact this
          · exact ⟨by simp [shSumCols], p1⟩

theorem pGroupByCols_sh (fuel : Nat) : ∀ (k : Nat) (acc : List Column) (ts : List Token), TokP ts →
    Sh n m d (List.map (shColumn d)) (pGroupByCols ⟨n⟩ fuel k acc ts)
      (pGroupByCols ⟨m⟩ fuel k (acc.map (shColumn d)) (ts.map (Token.shift d))) := by
  intro k
  induction k with
  | zero => intro acc ts h; exact ⟨by simp [pGroupByCols], h⟩
  | succ k ih =>
    intro acc ts h
    obtain ⟨e1, p1⟩ := pNamedColumn_sh (n := n) (m := m) (d := d) fuel ts h
    simp only [pGroupByCols]
    rw [e1]
    simp only [isNF_mapE, ne_eq, mapE_eq_nil]
    split
    · exact ⟨by sh_eq2, p1⟩
    · split
      · exact ⟨by sh_eq2, p1⟩
      · rcases hr : (pNamedColumn ⟨n⟩ fuel ts).rest with _ | ⟨t, rest⟩
        · exact ⟨by sh_eq2, TokP_nil⟩
        · rw [hr] at p1
          simp only [List.map_cons, shift_kind_eq]
          split
          · have := ih (acc ++ [(pNamedColumn ⟨n⟩ fuel ts).val]) rest ((TokP_cons _ _).mp p1).2
            simp only [List.map_append, List.map_cons, List.map_nil] at this
            exact this
          · exact ⟨by sh_eq2, p1⟩

theorem pSummarize_sh (fuel : Nat) (pipe kw : Span) (ts : List Token) (h : TokP ts) :
    Sh n m d (shOp d) (pSummarize ⟨n⟩ fuel pipe kw ts)
      (pSummarize ⟨m⟩ fuel (shSpan d pipe) (shSpan d kw) (ts.map (Token.shift d))) := by
  obtain ⟨e1, p1⟩ := pSummarizeCols_sh (n := n) (m := m) (d := d) fuel (ts.length + 1) [] none ts h
  have hcm := pSummarizeCols_comma ⟨n⟩ fuel (ts.length + 1) [] none ts h (by simp)
  simp only [List.map_nil, Option.map_none] at e1
  simp only [pSummarize, List.length_map]
  rw [e1]
  simp only [shSumCols, List.isEmpty_map]
  split
  · exact ⟨by sh_eq2, p1⟩
  · rcases hr : (pSummarizeCols ⟨n⟩ fuel (ts.length + 1) [] none ts).rest with _ | ⟨sep, rest⟩
    · simp only [List.map_nil]
      split
      · exact ⟨by sh_eq2, TokP_nil⟩
      · rcases hc : (pSummarizeCols ⟨n⟩ fuel (ts.length + 1) [] none ts).val.comma with _ | cm
        · exact ⟨by sh_eq2, TokP_nil⟩
        · exact ⟨by simp [shOp, mapE_errAt_SpanP n m d cm (hcm cm hc)], TokP_nil⟩
    · rw [hr] at p1
      obtain ⟨h1, h2⟩ := (TokP_cons _ _).mp p1
      simp only [List.map_cons, shift_kind_eq]
      split
      · split
        · exact ⟨by sh_eq2, p1⟩
        · rcases hc : (pSummarizeCols ⟨n⟩ fuel (ts.length + 1) [] none ts).val.comma with _ | cm
          · exact ⟨by sh_eq2, p1⟩
          · exact ⟨by simp [shOp, mapE_errAt_SpanP n m d cm (hcm cm hc)], p1⟩
      · obtain ⟨e2, p2⟩ := pGroupByCols_sh (n := n) (m := m) (d := d) fuel (rest.length + 1) [] rest h2
        simp only [List.map_nil] at e2
        simp only [List.length_map]
        rw [e2]
        exact ⟨by sh_eq2, p2⟩

theorem pRenderProp_sh (fuel : Nat) (ts : List Token) (h : TokP ts) :
    Sh n m d (Option.map (shRenderProp d)) (pRenderProp ⟨n⟩ fuel ts)
      (pRenderProp ⟨m⟩ fuel (ts.map (Token.shift d))) := by
  obtain ⟨ei, pi_⟩ := pIdent_sh (n := n) (m := m) (d := d) ts h
  simp only [pRenderProp]
  rw [ei]
  rcases hv : (pIdent ⟨n⟩ ts).val with _ | id
  · exact ⟨by sh_eq2, pi_⟩
  · rcases hr : (pIdent ⟨n⟩ ts).rest with _ | ⟨t, rest⟩
    · exact ⟨by sh_eq2, TokP_nil⟩
    · rw [hr] at pi_
      obtain ⟨h1, h2⟩ := (TokP_cons _ _).mp pi_
      simp only [Option.map_some, List.map_cons, shift_kind_eq]
      split
      · exact ⟨by sh_eq2, h2⟩
      · obtain ⟨e1, p1⟩ := pExpr_sh (n := n) (m := m) (d := d) fuel rest h2
        rw [e1]
        simp only [ne_eq, mapE_eq_nil]
        split
        · exact ⟨by sh_eq2, p1⟩
        · exact ⟨by sh_eq2, p1⟩

theorem pRenderProps_sh (fuel : Nat) : ∀ (k : Nat) (acc : List RenderProp) (ts : List Token), TokP ts →
    Sh n m d (fun v => (v.1.map (shRenderProp d), shSpan d v.2)) (pRenderProps ⟨n⟩ fuel k acc ts)
      (pRenderProps ⟨m⟩ fuel k (acc.map (shRenderProp d)) (ts.map (Token.shift d))) := by
  intro k
  induction k with
  | zero => intro acc ts h; exact ⟨by simp [pRenderProps], h⟩
  | succ k ih =>
    intro acc ts h
    obtain ⟨e1, p1⟩ := pRenderProp_sh (n := n) (m := m) (d := d) fuel ts h
    simp only [pRenderProps]
    rw [e1]
    simp only [ne_eq, mapE_eq_nil]
    split
    · exact ⟨by sh_eq2, p1⟩
    · rcases hv : (pRenderProp ⟨n⟩ fuel ts).val with _ | pr <;>
        simp only [Option.map_some, Option.map_none] <;>
      · rcases hr : (pRenderProp ⟨n⟩ fuel ts).rest with _ | ⟨t, rest⟩
        · exact ⟨by sh_eq2, TokP_nil⟩
        · rw [hr] at p1
          obtain ⟨h1, h2⟩ := (TokP_cons _ _).mp p1
          simp only [List.map_cons, shift_kind_eq]
          split
          · exact ⟨by sh_eq2, h2⟩
          · split
            · exact ⟨by sh_eq2, h2⟩
            · have := ih (match (pRenderProp ⟨n⟩ fuel ts).val with | some p => acc ++ [p] | none => acc)
                rest h2
              simp only [hv, List.map_append, List.map_cons, List.map_nil] at this
              exact this

theorem pRender_sh (fuel : Nat) (pipe kw : Span) (hkw : SpanP kw) (ts : List Token) (h : TokP ts) :
    Sh n m d (shOp d) (pRender ⟨n⟩ fuel pipe kw ts)
      (pRender ⟨m⟩ fuel (shSpan d pipe) (shSpan d kw) (ts.map (Token.shift d))) := by
  obtain ⟨ei, pi_⟩ := pIdent_sh (n := n) (m := m) (d := d) ts h
  simp only [pRender]
  rw [ei]
  rcases hv : (pIdent ⟨n⟩ ts).val with _ | chart
  · exact ⟨by simp [shOp, mapE_errAt_SpanP n m d kw hkw], pi_⟩
  · rcases hr : (pIdent ⟨n⟩ ts).rest with _ | ⟨t, rest⟩
    · exact ⟨by sh_eq2, TokP_nil⟩
    · rw [hr] at pi_
      obtain ⟨h1, h2⟩ := (TokP_cons _ _).mp pi_
      simp only [Option.map_some, List.map_cons, isIdentNamed_shift]
      split
      · exact ⟨by sh_eq2, pi_⟩
      · rcases rest with _ | ⟨lp, rest2⟩
        · exact ⟨by sh_eq2, TokP_nil⟩
        · obtain ⟨h3, h4⟩ := (TokP_cons _ _).mp h2
          simp only [List.map_cons, shift_kind_eq]
          split
          · exact ⟨by sh_eq2, h4⟩
          · obtain ⟨e1, p1⟩ := pRenderProps_sh (n := n) (m := m) (d := d) fuel (rest2.length + 1) [] rest2 h4
            simp only [List.map_nil] at e1
            simp only [List.length_map]
            rw [e1]
            exact ⟨by sh_eq2, p1⟩

end Pql.Piecewise
