/-
C08, second sentence — part 1: a generic lifting lemma that also covers render properties.

`ParsedOK.StmtAll` (Lemmas/ParsedOKLift.lean) lifts a predicate on expressions that holds of every
error-free `pExpr` result to every *translated* expression position of an error-free parse; render
properties are not translated and were left out there.  For statements about the token sequence
(brackets, last token, adjacent tokens) every expression position matters, so this file repeats
the lifting with the render case filled in (`Reject.StmtAll`).  The column / sort-term lemmas of
ParsedOKLift are reused; only the operator level and above is redone.
-/
import PqlModel.Lemmas.ParsedOKLift
namespace Pql.Reject
open Pql
open Pql.ParsedOK (pRowCount_all pSortTerm_all pSortTerms_all pNamedColumn_all pExtendCols_all
  pProjectCols_all pSummarizeCols_all pGroupByCols_all)

section
variable (E : Expr → Prop) (EL : ExprList → Prop)

mutual
def TabAll : Tabular → Prop
  | .nil => True
  | .mk _ ops => OpsAll ops
def OpAll : Op → Prop
  | .where_ _ _ e => E e
  | .sort _ _ ts => ∀ t ∈ ts, E t.x
  | .take _ _ n => E n
  | .top _ _ n _ c => E n ∧ ∀ t, c = some t → E t.x
  | .project _ _ cs => ∀ c ∈ cs, c.x = .nil ∨ E c.x
  | .extend _ _ cs => ∀ c ∈ cs, E c.x
  | .summarize _ _ cs _ gs => (∀ c ∈ cs, E c.x) ∧ (∀ c ∈ gs, E c.x)
  | .join _ _ _ _ _ _ right _ _ conds => TabAll right ∧ EL conds
  | .count .. => True
  | .as_ .. => True
  | .render _ _ _ _ _ props _ => ∀ p ∈ props, E p.value
def OpsAll : OpList → Prop
  | .nil => True
  | .cons o os => OpAll o ∧ OpsAll os
end

def StmtAll : Stmt → Prop
  | .let_ _ _ _ x => E x
  | .tabular t => TabAll E EL t

theorem OpsAll_snoc : (ops : OpList) → (o : Op) →
    (OpsAll E EL (ops.snoc o) ↔ OpsAll E EL ops ∧ OpAll E EL o)
  | .nil, o => by simp [OpList.snoc, OpsAll]
  | .cons p ps, o => by simp [OpList.snoc, OpsAll, OpsAll_snoc ps o, and_assoc]

variable {E EL}
variable (hE : ∀ (c : PCtx) (fuel : Nat) (ts : List Token),
  (pExpr c fuel ts).errs = [] → E (pExpr c fuel ts).val)
variable (hL : ∀ (c : PCtx) (fuel : Nat) (ts : List Token),
  (pExprList c fuel ts).errs = [] → EL (pExprList c fuel ts).val)
include hE

theorem pRenderProp_all {c : PCtx} {fuel : Nat} {ts : List Token} :
    (pRenderProp c fuel ts).errs = [] → ∀ p, (pRenderProp c fuel ts).val = some p → E p.value := by
  unfold pRenderProp
  extract_lets ri
  clear_value ri
  split
  · simp
  · split
    · simp
    · split
      · simp
      · extract_lets r
        have hr : r.errs = [] → E r.val := hE _ _ _
        clear_value r
        split
        · simp
        · next hne =>
          simp only [Option.some.injEq]
          rintro _ p rfl
          exact hr (by simpa using hne)

theorem pRenderProps_all {c : PCtx} {fuel : Nat} : ∀ (n : Nat) (acc : List RenderProp) (ts : List Token),
    (pRenderProps c fuel n acc ts).errs = [] → (∀ p ∈ acc, E p.value) →
      ∀ p ∈ (pRenderProps c fuel n acc ts).val.1, E p.value
  | 0, acc, ts => by simp [pRenderProps]
  | n + 1, acc, ts => by
    unfold pRenderProps
    extract_lets r acc'
    have hr : r.errs = [] → ∀ p, r.val = some p → E p.value := pRenderProp_all hE
    have hacc' : r.errs = [] → (∀ p ∈ acc, E p.value) → ∀ p ∈ acc', E p.value := by
      intro h ha
      simp only [acc']
      split
      · next p hp =>
        intro q hq
        rcases List.mem_append.1 hq with hq | hq
        · exact ha q hq
        · rw [List.mem_singleton.1 hq]; exact hr h p hp
      · exact ha
    clear_value acc' r
    split
    · next hne => intro h; exact absurd (by simpa using h) hne
    · next hne =>
      have hre : r.errs = [] := by simpa using hne
      have hacc := hacc' hre
      split
      · simp [errAt]
      · split
        · intro _ ha; exact hacc ha
        · split
          · simp [errAt]
          · intro h ha; exact pRenderProps_all n acc' _ h (hacc ha)

theorem pRender_all {c : PCtx} {fuel : Nat} {pipe kw : Span} {ts : List Token} :
    (pRender c fuel pipe kw ts).errs = [] → OpAll E EL (pRender c fuel pipe kw ts).val := by
  unfold pRender
  extract_lets ri
  clear_value ri
  split
  · simp [OpAll]
  · split
    · simp [OpAll]
    · split
      · simp [OpAll]
      · split
        · simp [OpAll]
        · split
          · simp [OpAll]
          · intro h
            simp only [OpAll]
            exact pRenderProps_all hE _ _ _ h (by simp)


theorem pSummarize_all {c : PCtx} {fuel : Nat} {pipe kw : Span} {ts : List Token} :
    (pSummarize c fuel pipe kw ts).errs = [] → OpAll E EL (pSummarize c fuel pipe kw ts).val := by
  unfold pSummarize
  extract_lets r1 cols
  have h1 : r1.errs = [] → ∀ k ∈ r1.val.cols, E k.x :=
    fun h => pSummarizeCols_all hE _ _ _ _ h (by simp)
  have h2 : r1.val.done = false → r1.errs = [] := pSummarizeCols_errs _ _ _ _
  clear_value r1
  split
  · intro h; simp only [OpAll]; exact ⟨h1 h, by simp⟩
  · next hd =>
    have hc : ∀ k ∈ cols, E k.x := h1 (h2 (by simpa using hd))
    clear_value cols
    split
    · split
      · simp
      · split
        · simp
        · intro _; simp only [OpAll]; exact ⟨hc, by simp⟩
    · next sep rest hrest =>
      split
      · split
        · simp
        · split
          · simp
          · intro _; simp only [OpAll]; exact ⟨hc, by simp⟩
      · intro h
        simp only [OpAll]
        exact ⟨hc, pGroupByCols_all hE _ _ _ h (by simp)⟩

include hL

/-- what the mutually recursive tabular productions guarantee at a given fuel -/
structure TabAllInv (E : Expr → Prop) (EL : ExprList → Prop) (c : PCtx) (fuel : Nat) : Prop where
  tabular : ∀ ts, (pTabular c fuel ts).errs = [] → TabAll E EL (pTabular c fuel ts).val
  ops : ∀ ops acc ts, (pOps c fuel ops acc ts).errs = [] →
    OpsAll E EL ops → OpsAll E EL (pOps c fuel ops acc ts).val
  operator : ∀ pipe name ts r, pOperator c fuel pipe name ts = some r → r.errs = [] → OpAll E EL r.val
  join : ∀ pipe kw ts, (pJoin c fuel pipe kw ts).errs = [] → OpAll E EL (pJoin c fuel pipe kw ts).val

omit hE hL in
theorem tabAllInv_zero (c : PCtx) : TabAllInv E EL c 0 where
  tabular := by simp [pTabular]
  ops := by simp [pOps]
  operator := by
    intro pipe name ts r h
    simp only [pOperator, Option.some.injEq] at h
    subst h; simp
  join := by simp [pJoin]

omit hE hL in
theorem tabAllInv_tabular {c : PCtx} {fuel : Nat} (ih : TabAllInv E EL c fuel) (ts : List Token) :
    (pTabular c (fuel + 1) ts).errs = [] → TabAll E EL (pTabular c (fuel + 1) ts).val := by
  unfold pTabular
  extract_lets ri
  clear_value ri
  split
  · intro _; simp [TabAll]
  · intro h
    simp only [TabAll]
    exact ih.ops _ _ _ h (by simp [OpsAll])

omit hE hL in
theorem tabAllInv_ops {c : PCtx} {fuel : Nat} (ih : TabAllInv E EL c fuel) (ops : OpList) (acc : Errs)
    (ts : List Token) :
    (pOps c (fuel + 1) ops acc ts).errs = [] →
      OpsAll E EL ops → OpsAll E EL (pOps c (fuel + 1) ops acc ts).val := by
  unfold pOps
  split
  · intro _ h; exact h
  · next pipeTok rest =>
    split
    · intro _ h; exact h
    · extract_lets sp
      clear_value sp
      split
      · intro h
        have := ((tabInv c fuel).ops _ _ _ h).1
        simp at this
      · next name opToks hsp =>
        split
        · intro h
          have := ((tabInv c fuel).ops _ _ _ h).1
          simp at this
        · split
          · intro h
            have := ((tabInv c fuel).ops _ _ _ h).1
            simp at this
          · next r hop =>
            intro h ho
            have h1 := ((tabInv c fuel).ops _ _ _ h).1
            simp only [List.append_eq_nil_iff] at h1
            exact ih.ops _ _ _ h ((OpsAll_snoc E EL ops r.val).2 ⟨ho, ih.operator _ _ _ _ hop h1.1.2⟩)

omit hL in
theorem tabAllInv_operator {c : PCtx} {fuel : Nat} (ih : TabAllInv E EL c fuel) (pipe : Span) (name : Token)
    (ts : List Token) (r : PRes Op) :
    pOperator c (fuel + 1) pipe name ts = some r → r.errs = [] → OpAll E EL r.val := by
  unfold pOperator
  extract_lets kw v rE rC rP rX rI
  have hE' : rE.errs = [] → E rE.val := hE _ _ _
  have hC : rC.errs = [] → E rC.val := pRowCount_all hE
  have hP : rP.errs = [] → ∀ k ∈ rP.val, k.x = .nil ∨ E k.x := fun h => pProjectCols_all hE _ _ _ h (by simp)
  have hX : rX.errs = [] → ∀ k ∈ rX.val, E k.x := fun h => pExtendCols_all hE _ _ _ h (by simp)
  clear_value v kw rE rC rP rX rI
  -- count
  refine opt_ite (Q := fun r : PRes Op => r.errs = [] → OpAll E EL r.val) (fun _ => trivial) ?_
  -- where
  refine opt_ite (Q := fun r : PRes Op => r.errs = [] → OpAll E EL r.val) ?_ ?_
  · simp only [mkOpaque_eq_nil, OpAll]; exact hE'
  -- sort
  refine ite_elim (fun x : Option (PRes Op) => x = some r → r.errs = [] → OpAll E EL r.val) (fun _ => ?_) (fun _ => ?_)
  · split
    · rintro ⟨⟩; simp
    · split
      · rintro ⟨⟩; simp
      · rintro ⟨⟩
        simp only [OpAll]
        intro h; exact pSortTerms_all hE _ _ _ h (by simp)
  -- take
  refine opt_ite (Q := fun r : PRes Op => r.errs = [] → OpAll E EL r.val) ?_ ?_
  · simp only [mkOpaque_eq_nil, OpAll]; exact hC
  -- top
  refine ite_elim (fun x : Option (PRes Op) => x = some r → r.errs = [] → OpAll E EL r.val) (fun _ => ?_) (fun _ => ?_)
  · split
    · next hne => rintro ⟨⟩; intro h; exact absurd (by simpa using h) hne
    · next hne =>
      split
      · rintro ⟨⟩; simp
      · split
        · rintro ⟨⟩; simp
        · rintro ⟨⟩
          simp only [mkOpaque_eq_nil, OpAll]
          intro h
          refine ⟨hC (by simpa using hne), ?_⟩
          obtain ⟨t, ht, hg⟩ := pSortTerm_all hE h
          intro t' ht'
          rw [ht] at ht'
          cases ht'
          exact hg
  -- project
  refine opt_ite (Q := fun r : PRes Op => r.errs = [] → OpAll E EL r.val) ?_ ?_
  · simp only [OpAll]; exact hP
  -- extend
  refine opt_ite (Q := fun r : PRes Op => r.errs = [] → OpAll E EL r.val) ?_ ?_
  · simp only [OpAll]; exact hX
  -- summarize, join
  refine opt_ite (Q := fun r : PRes Op => r.errs = [] → OpAll E EL r.val) (pSummarize_all hE) ?_
  refine opt_ite (Q := fun r : PRes Op => r.errs = [] → OpAll E EL r.val) (ih.join _ _ _) ?_
  -- as
  refine opt_ite (Q := fun r : PRes Op => r.errs = [] → OpAll E EL r.val) (fun _ => trivial) ?_
  -- render
  refine opt_ite (Q := fun r : PRes Op => r.errs = [] → OpAll E EL r.val) (pRender_all hE) ?_
  simp

omit hE in
theorem tabAllInv_join {c : PCtx} {fuel : Nat} (ih : TabAllInv E EL c fuel) (pipe kw : Span) (ts : List Token) :
    (pJoin c (fuel + 1) pipe kw ts).errs = [] → OpAll E EL (pJoin c (fuel + 1) pipe kw ts).val := by
  unfold pJoin
  extract_lets mk
  split
  · simp
  · next t0 rest0 =>
    extract_lets hdr
    have hhdr : (∀ r, hdr = .inr r → r.errs ≠ []) ∧ hdr ≠ .inl none := by
      simp only [hdr]
      split
      · split
        · simp
        · split
          · simp
          · split
            · simp
            · split
              · simp
              · simp
      · simp
    clear_value hdr
    split
    · next r => intro h; exact absurd h (hhdr.1 r rfl)
    · exact absurd rfl hhdr.2
    · next kind ka fl e0 rest =>
      split
      · simp
      · next lp rest1 =>
        split
        · simp
        · extract_lets sp rr e1
          have hrr : rr.errs = [] → TabAll E EL rr.val := ih.tabular _
          have he1 : e1 = [] → rr.errs = [] := by
            simp only [e1, List.append_eq_nil_iff, mkOpaque_eq_nil]
            exact fun h => h.1.2
          clear_value e1 rr sp
          split
          · simp
          · split
            · simp
            · split
              · simp
              · split
                · simp
                · extract_lets rc
                  have hrc : rc.errs = [] → EL rc.val := hL _ _ _
                  clear_value rc
                  simp only [List.append_eq_nil_iff, mkOpaque_eq_nil, mk, OpAll]
                  intro h
                  exact ⟨hrr (he1 h.1), hrc h.2⟩

theorem tabAllInv (c : PCtx) : ∀ fuel, TabAllInv E EL c fuel
  | 0 => tabAllInv_zero c
  | fuel + 1 =>
    have ih := tabAllInv c fuel
    { tabular := tabAllInv_tabular ih
      ops := tabAllInv_ops ih
      operator := tabAllInv_operator hE ih
      join := tabAllInv_join hL ih }

theorem pTabular_all {c : PCtx} {fuel : Nat} {ts : List Token}
    (h : (pTabular c fuel ts).errs = []) : TabAll E EL (pTabular c fuel ts).val :=
  (tabAllInv hE hL c fuel).tabular ts h

/-! ### statements -/

omit hL in
theorem pLet_all {c : PCtx} {fuel : Nat} {ts : List Token} :
    (pLet c fuel ts).errs = [] → ∀ s, (pLet c fuel ts).val = some s → StmtAll E EL s := by
  unfold pLet
  split
  · simp
  · next kwd rest =>
    split
    · simp
    · extract_lets ri
      have hi : ri.errs = [] → ri.val ≠ none := pIdent_val_of_errs
      clear_value ri
      split
      · next hv => intro h; exact absurd hv (hi (by simpa using h))
      · split
        · simp
        · split
          · simp
          · extract_lets r
            have hr : r.errs = [] → E r.val := hE _ _ _
            clear_value r
            simp only [mkOpaque_eq_nil, Option.some.injEq]
            rintro h s rfl
            exact hr h

theorem pStatement_all {c : PCtx} {ts : List Token} :
    (pStatement c ts).2.1 = [] → ∀ s, (pStatement c ts).1 = some s → StmtAll E EL s := by
  unfold pStatement
  extract_lets fuel rl rt first
  have ht : rt.errs = [] → TabAll E EL rt.val := pTabular_all hE hL
  have hf : first.errs = [] → ∀ s, first.val = some s → StmtAll E EL s := by
    simp only [first]
    split
    · exact pLet_all hE
    · clear_value rt
      split
      · simp
      · next t hne =>
        simp only [Option.some.injEq]
        rintro h s rfl
        exact ht h
  clear_value first rt rl
  split
  · split <;> simp
  · simp only [List.append_eq_nil_iff, mkOpaque_eq_nil]
    intro h; exact hf h.1

theorem pStatements_all {c : PCtx} : ∀ (n : Nat) (acc : List Stmt) (errs : Errs) (ts : List Token),
    (pStatements c n acc errs ts).2 = [] →
      (∀ s ∈ acc, StmtAll E EL s) → ∀ s ∈ (pStatements c n acc errs ts).1, StmtAll E EL s
  | 0, acc, errs, ts => by simp [pStatements]
  | n + 1, acc, errs, ts => by
    unfold pStatements
    extract_lets sp r acc' errs'
    have hr : r.2.1 = [] → ∀ s, r.1 = some s → StmtAll E EL s := pStatement_all hE hL
    have hrep : r.2.2 = true → r.2.1 ≠ [] := pStatement_replace
    have he : errs' = [] → errs = [] ∧ r.2.1 = [] := by
      simp only [errs']
      split
      · next h => intro h'; exact absurd h' (hrep h)
      · simp
    have hacc : r.2.1 = [] → (∀ s ∈ acc, StmtAll E EL s) → ∀ s ∈ acc', StmtAll E EL s := by
      intro h ha
      simp only [acc']
      split
      · next s hs => exact forall_mem_snoc ha (hr h s hs)
      · exact ha
    clear_value acc' errs' r sp
    split
    · intro h
      have := he h
      exact hacc this.2
    · intro h ha
      have h1 := (pStatements_good n acc' errs' _ h).1
      have := he h1
      exact pStatements_all n acc' errs' _ h (hacc this.2 ha)

/-- **Generic lifting.**  Every translated expression position of every statement of an error-free
    parse satisfies whatever holds of all error-free results of `pExpr` / `pExprList`. -/
theorem parseTokens_all {srcLen : Nat} {ts : List Token} {stmts : List Stmt}
    (h : parseTokens srcLen ts = (stmts, [])) : ∀ s ∈ stmts, StmtAll E EL s := by
  have h1 := pStatements_all hE hL (c := ⟨srcLen⟩) (ts.length + 1) [] [] ts
  unfold parseTokens at h
  rw [h] at h1
  exact h1 rfl (by simp)

end

end Pql.Reject
