/-
Keyword synonyms (where/filter, sort/order, take/limit).

An identifier `filter` may also be a column name, so the synonyms are stated where the parser decides:
* `pOperator_canon`  : `pOperator` returns *exactly* the same result for a keyword token and for the token
                       with its value canonicalised (`canonKw`: filter ↦ where, order ↦ sort, limit ↦ take);
* `canonPipes`       : in a token list, canonicalise the identifier directly after every `|` that the
                       operator loop `pOps` will treat as a pipe of *this* pipeline (bracket depth 0, cut with
                       the parser's own `split`);
* `pOps_canon`, `pTabular_canon`, `pStatement_canon`, `parseTokens_canon`: the results are identical.
-/
import PqlModel.Lemmas.LayoutBasic
import PqlModel.Lemmas.SplitBasic
set_option linter.unusedSimpArgs false
set_option linter.unusedVariables false
namespace Pql.Layout
open Pql

def kwWhere : Bytes := Bytes.ofString "where"
def kwFilter : Bytes := Bytes.ofString "filter"
def kwSort : Bytes := Bytes.ofString "sort"
def kwOrder : Bytes := Bytes.ofString "order"
def kwTake : Bytes := Bytes.ofString "take"
def kwLimit : Bytes := Bytes.ofString "limit"

/-- the canonical spelling of an operator keyword -/
def canonKw (v : Bytes) : Bytes :=
  if v = kwFilter then kwWhere else if v = kwOrder then kwSort else if v = kwLimit then kwTake else v

/-- canonicalise the spelling of an identifier token (positions and kind unchanged) -/
def canonTok (t : Token) : Token := if t.kind = .ident then { t with value := canonKw t.value } else t

@[simp] theorem canonTok_kind (t : Token) : (canonTok t).kind = t.kind := by
  unfold canonTok; split <;> rfl
@[simp] theorem canonTok_span (t : Token) : (canonTok t).span = t.span := by
  unfold canonTok; split <;> rfl

/-! ### the operator dispatch -/

/-- the `sort`/`order` branch of `pOperator` -/
def sortBody (c : PCtx) (fuel : Nat) (pipe kw : Span) (ts : List Token) : Option (PRes Op) :=
  match ts with
  | [] => some ⟨.sort pipe kw [], errAt c.eof, []⟩
  | by_ :: rest =>
    if by_.kind ≠ .by_ then some ⟨.sort pipe kw [], errAt by_.span, rest⟩
    else
      let r := pSortTerms c fuel (rest.length + 1) [] rest
      some ⟨.sort pipe ⟨kw.start, by_.stop⟩ r.val, r.errs, r.rest⟩

theorem pOperator_whereBody (c : PCtx) (f : Nat) (pipe : Span) (name : Token) (ts : List Token)
    (hv : name.value = kwWhere ∨ name.value = kwFilter) :
    pOperator c (f + 1) pipe name ts =
      some ⟨.where_ pipe name.span (pExpr c f ts).val, mkOpaque (pExpr c f ts).errs, (pExpr c f ts).rest⟩ := by
  rw [pOperator.eq_def]
  simp only []
  rcases hv with hv | hv <;> rw [hv] <;> rw [if_neg (by decide), if_pos (by decide)]

theorem pOperator_sortBody (c : PCtx) (f : Nat) (pipe : Span) (name : Token) (ts : List Token)
    (hv : name.value = kwSort ∨ name.value = kwOrder) :
    pOperator c (f + 1) pipe name ts = sortBody c f pipe name.span ts := by
  rw [pOperator.eq_def]
  simp only []
  rcases hv with hv | hv <;> rw [hv] <;> rw [if_neg (by decide), if_neg (by decide), if_pos (by decide)] <;>
    cases ts <;> rfl

theorem pOperator_takeBody (c : PCtx) (f : Nat) (pipe : Span) (name : Token) (ts : List Token)
    (hv : name.value = kwTake ∨ name.value = kwLimit) :
    pOperator c (f + 1) pipe name ts =
      some ⟨.take pipe name.span (pRowCount c f ts).val, mkOpaque (pRowCount c f ts).errs,
        (pRowCount c f ts).rest⟩ := by
  rw [pOperator.eq_def]
  simp only []
  rcases hv with hv | hv <;> rw [hv] <;>
    rw [if_neg (by decide), if_neg (by decide), if_neg (by decide), if_pos (by decide)]

/-- **synonyms, operator level**: the dispatch of `pOperator` does not distinguish `filter` from `where`,
    `order` from `sort`, `limit` from `take` — the results are *equal* (same constructor, same fields, same
    spans, same errors, same remaining tokens), for every fuel, pipe span and argument tokens. -/
theorem pOperator_canon (c : PCtx) (fuel : Nat) (pipe : Span) (name : Token) (ts : List Token) :
    pOperator c fuel pipe (canonTok name) ts = pOperator c fuel pipe name ts := by
  cases fuel with
  | zero => simp only [pOperator, canonTok_span]
  | succ f =>
    unfold canonTok
    split
    · obtain ⟨k, s, e, v⟩ := name
      simp only [canonKw]
      by_cases h1 : v = kwFilter
      · rw [if_pos h1, pOperator_whereBody c f pipe _ ts (Or.inl rfl),
          pOperator_whereBody c f pipe _ ts (Or.inr h1)]
        rfl
      · rw [if_neg h1]
        by_cases h2 : v = kwOrder
        · rw [if_pos h2, pOperator_sortBody c f pipe _ ts (Or.inl rfl),
            pOperator_sortBody c f pipe _ ts (Or.inr h2)]
          rfl
        · rw [if_neg h2]
          by_cases h3 : v = kwLimit
          · rw [if_pos h3, pOperator_takeBody c f pipe _ ts (Or.inl rfl),
              pOperator_takeBody c f pipe _ ts (Or.inr h3)]
            rfl
          · rw [if_neg h3]
    · rfl

/-! ### `split` only looks at kinds -/

theorem splitAux_fst_length_congr (search : TokKind) : ∀ (a b : List Token) (st : List TokKind),
    a.map Token.kind = b.map Token.kind →
    (splitAux search st a).1.length = (splitAux search st b).1.length := by
  intro a
  induction a with
  | nil =>
    intro b st h
    cases b with
    | nil => rfl
    | cons _ _ => simp at h
  | cons t a ih =>
    intro b st h
    cases b with
    | nil => simp at h
    | cons u b =>
      simp only [List.map_cons, List.cons.injEq] at h
      obtain ⟨hk, hab⟩ := h
      simp only [splitAux, ← hk]
      repeat' split
      all_goals simp only [List.length_cons, List.length_nil, ih _ _ hab]

theorem split_of_kinds (search : TokKind) (ts a' b' : List Token)
    (hk : (a' ++ b').map Token.kind = ts.map Token.kind)
    (hl : a'.length = (split search ts).1.length) : split search (a' ++ b') = (a', b') := by
  have h1 := split_append search (a' ++ b')
  have h2 : (split search (a' ++ b')).1.length = a'.length := by
    rw [hl]; exact splitAux_fst_length_congr search _ _ [] hk
  obtain ⟨e1, e2⟩ := List.append_inj h1 h2
  exact Prod.ext e1 e2

/-! ### canonicalising a pipeline -/

def canonHead : List Token → List Token
  | [] => []
  | t :: ts => canonTok t :: ts

/-- canonicalise the identifier directly after every `|` of the pipeline `ts` (bracket depth 0, cut
    with the parser's `split`); `n` is fuel, `ts.length` suffices -/
def canonPipes : Nat → List Token → List Token
  | 0, ts => ts
  | _ + 1, [] => []
  | n + 1, p :: rest =>
    if p.kind ≠ .pipe then p :: rest
    else p :: (canonHead (split .pipe rest).1 ++ canonPipes n (split .pipe rest).2)

@[simp] theorem canonHead_kinds (ts : List Token) : (canonHead ts).map Token.kind = ts.map Token.kind := by
  cases ts <;> simp [canonHead]
@[simp] theorem canonHead_length (ts : List Token) : (canonHead ts).length = ts.length := by
  cases ts <;> simp [canonHead]

theorem canonPipes_kinds (n : Nat) : ∀ ts, (canonPipes n ts).map Token.kind = ts.map Token.kind := by
  induction n with
  | zero => intro ts; rfl
  | succ n ih =>
    intro ts
    cases ts with
    | nil => rfl
    | cons p rest =>
      simp only [canonPipes]
      split
      · rfl
      · have := congrArg (List.map Token.kind) (split_append .pipe rest)
        simp only [List.map_cons, List.map_append, canonHead_kinds, ih]
        rw [← List.map_append, split_append]

/-- the head token is never changed -/
theorem canonPipes_head (n : Nat) (ts : List Token) :
    canonPipes n ts = [] ∧ ts = [] ∨ ∃ p r r', ts = p :: r ∧ canonPipes n ts = p :: r' := by
  cases n with
  | zero => cases ts with
    | nil => exact Or.inl ⟨rfl, rfl⟩
    | cons p r => exact Or.inr ⟨p, r, r, rfl, rfl⟩
  | succ n => cases ts with
    | nil => exact Or.inl ⟨rfl, rfl⟩
    | cons p r =>
      by_cases hp : p.kind = .pipe
      · exact Or.inr ⟨p, r, canonHead (split .pipe r).1 ++ canonPipes n (split .pipe r).2, rfl,
          by simp only [canonPipes, hp, ne_eq, not_true_eq_false, if_false]⟩
      · exact Or.inr ⟨p, r, r, rfl, by simp only [canonPipes, hp, ne_eq, not_false_eq_true, if_true]⟩

theorem endSplit_canonPipes (n : Nat) (ts : List Token) : endSplit (canonPipes n ts) = endSplit ts := by
  rcases canonPipes_head n ts with ⟨h1, h2⟩ | ⟨p, r, r', h1, h2⟩
  · rw [h1, h2]
  · rw [h2, h1]; rfl

theorem split_canon (n : Nat) (rest : List Token) :
    split .pipe (canonHead (split .pipe rest).1 ++ canonPipes n (split .pipe rest).2) =
      (canonHead (split .pipe rest).1, canonPipes n (split .pipe rest).2) := by
  apply split_of_kinds .pipe rest
  · rw [List.map_append, canonHead_kinds, canonPipes_kinds, ← List.map_append, split_append]
  · exact canonHead_length _

/-- **synonyms, pipeline level**: the operator loop returns the same operators and errors on the
    canonicalised pipeline; the remaining tokens are the canonicalised remaining tokens -/
theorem pOps_canon (c : PCtx) : ∀ (fuel n : Nat) (ops : OpList) (acc : Errs) (ts : List Token),
    ∃ k, pOps c fuel ops acc (canonPipes n ts) =
      ⟨(pOps c fuel ops acc ts).val, (pOps c fuel ops acc ts).errs, canonPipes k (pOps c fuel ops acc ts).rest⟩ := by
  intro fuel
  induction fuel with
  | zero => intro n ops acc ts; exact ⟨n, by simp only [pOps]⟩
  | succ fuel ih =>
    intro n ops acc ts
    cases n with
    | zero => exact ⟨0, rfl⟩
    | succ n =>
      cases ts with
      | nil => exact ⟨0, rfl⟩
      | cons p rest =>
        simp only [canonPipes]
        by_cases hp : p.kind = .pipe
        · simp only [hp, ne_eq, not_true_eq_false, if_false]
          simp only [pOps, hp, ne_eq, not_true_eq_false, if_false, split_canon]
          rcases h : (split .pipe rest).1 with _ | ⟨name, opToks⟩
          · simp only [canonHead]
            exact ih n _ _ _
          · simp only [canonHead, canonTok_kind, canonTok_span, pOperator_canon]
            by_cases hn : name.kind = .ident
            · simp only [hn, ne_eq, not_true_eq_false, if_false]
              cases pOperator c fuel p.span name opToks with
              | none => exact ih n _ _ _
              | some r => exact ih n _ _ _
            · simp only [hn, ne_eq, not_false_eq_true, if_true]
              exact ih n _ _ _
        · simp only [hp, ne_eq, not_false_eq_true, if_true]
          exact ⟨0, rfl⟩

/-! ### statements -/

/-- canonicalise the pipeline of a tabular statement `T | op … | op …` -/
def canonTab : List Token → List Token
  | [] => []
  | t :: rest => t :: canonPipes rest.length rest

/-- canonicalise one statement: `let` statements have no pipeline -/
def canonStmtToks (ts : List Token) : List Token :=
  match ts with
  | [] => []
  | t :: _ => if isIdentNamed t "let" then ts else canonTab ts

theorem canonPipes_length (n : Nat) (ts : List Token) : (canonPipes n ts).length = ts.length := by
  have := congrArg List.length (canonPipes_kinds n ts)
  simpa only [List.length_map] using this

theorem canonTab_length (ts : List Token) : (canonTab ts).length = ts.length := by
  cases ts with
  | nil => rfl
  | cons t rest => simp only [canonTab, List.length_cons, canonPipes_length]

theorem canonStmtToks_length (ts : List Token) : (canonStmtToks ts).length = ts.length := by
  cases ts with
  | nil => rfl
  | cons t rest =>
    simp only [canonStmtToks]
    split
    · rfl
    · exact canonTab_length _

theorem canonStmtToks_kinds (ts : List Token) : (canonStmtToks ts).map Token.kind = ts.map Token.kind := by
  cases ts with
  | nil => rfl
  | cons t rest =>
    simp only [canonStmtToks]
    split
    · rfl
    · simp only [canonTab, List.map_cons, canonPipes_kinds]

/-- **synonyms, tabular expression** -/
theorem pTabular_canon (c : PCtx) (fuel : Nat) (ts : List Token) :
    (pTabular c fuel (canonTab ts)).val = (pTabular c fuel ts).val ∧
    (pTabular c fuel (canonTab ts)).errs = (pTabular c fuel ts).errs ∧
    endSplit (pTabular c fuel (canonTab ts)).rest = endSplit (pTabular c fuel ts).rest := by
  cases ts with
  | nil => exact ⟨rfl, rfl, rfl⟩
  | cons t rest =>
    cases fuel with
    | zero => simp only [canonTab, pTabular, endSplit_cons, and_self]
    | succ fuel =>
      simp only [canonTab, pTabular, pIdent]
      by_cases hk : t.kind = .ident ∨ t.kind = .qident
      · simp only [hk, if_true]
        obtain ⟨k, hk2⟩ := pOps_canon c fuel rest.length .nil [] rest
        rw [hk2]
        exact ⟨rfl, rfl, endSplit_canonPipes _ _⟩
      · simp only [hk, if_false, endSplit_cons, and_self]

/-- **synonyms, statement**: `pStatement` returns the same statement, the same errors (with their
    positions) and the same flag -/
theorem pStatement_canon (c : PCtx) (ts : List Token) :
    pStatement c (canonStmtToks ts) = pStatement c ts := by
  cases ts with
  | nil => rfl
  | cons t rest =>
    by_cases hlet : isIdentNamed t "let" = true
    · simp only [canonStmtToks, hlet, if_true]
    · have e : canonStmtToks (t :: rest) = canonTab (t :: rest) := by
        simp only [canonStmtToks, hlet, Bool.false_eq_true, if_false]
      rw [e]
      obtain ⟨h1, h2, h3⟩ := pTabular_canon c (fuelFor (t :: rest).length) (t :: rest)
      have hl : pLet c (fuelFor (t :: rest).length) (canonTab (t :: rest)) =
          ⟨none, nfAt t.span, canonTab (t :: rest)⟩ := by
        simp only [canonTab, pLet, hlet, Bool.not_false, if_true]
      have hl' : pLet c (fuelFor (t :: rest).length) (t :: rest) = ⟨none, nfAt t.span, t :: rest⟩ := by
        simp only [pLet, hlet, Bool.not_false, if_true]
      have hnf : isNF (nfAt t.span) = true := rfl
      simp only [pStatement, canonTab_length, hl, hl', hnf, Bool.not_true, Bool.false_eq_true, if_false]
      generalize pTabular c (fuelFor (t :: rest).length) (canonTab (t :: rest)) = r' at h1 h2 h3
      generalize pTabular c (fuelFor (t :: rest).length) (t :: rest) = r at h1 h2 h3
      obtain ⟨v', e', rr'⟩ := r'
      obtain ⟨v, e, rr⟩ := r
      simp only at h1 h2 h3
      subst h1 h2
      have key : (rr' = [] ∧ rr = []) ∨ ∃ a ra b rb, rr' = a :: ra ∧ rr = b :: rb ∧ a.span = b.span := by
        rcases rr' with _ | ⟨a, ra⟩ <;> rcases rr with _ | ⟨b, rb⟩
        · exact Or.inl ⟨rfl, rfl⟩
        · simp [errAt] at h3
        · simp [errAt] at h3
        · right
          refine ⟨a, ra, b, rb, rfl, rfl, ?_⟩
          simpa [errAt] using h3
      rcases key with ⟨rfl, rfl⟩ | ⟨a, ra, b, rb, rfl, rfl, hab⟩
      · rfl
      · cases v' <;> simp only [endSplit_cons, hab]

/-- canonicalise every statement of a program (`;`-separated); `n` is fuel, `ts.length + 1` suffices -/
def canonProg : Nat → List Token → List Token
  | 0, ts => ts
  | n + 1, ts =>
    canonStmtToks (splitSemi ts).1 ++
      match (splitSemi ts).2 with
      | [] => []
      | s :: rest => s :: canonProg n rest

theorem splitSemi_of_parts (a : List Token) (h : ∀ t ∈ a, t.kind ≠ .semi) :
    (splitSemi a = (a, [])) ∧ ∀ s r, s.kind = .semi → splitSemi (a ++ s :: r) = (a, s :: r) := by
  induction a with
  | nil => exact ⟨rfl, fun s r hs => by simp [splitSemi, hs]⟩
  | cons t a ih =>
    have ht : t.kind ≠ .semi := h t List.mem_cons_self
    obtain ⟨i1, i2⟩ := ih fun u hu => h u (List.mem_cons_of_mem _ hu)
    refine ⟨by simp [splitSemi, ht, i1], fun s r hs => ?_⟩
    simp [splitSemi, ht, i2 s r hs]

theorem canonStmtToks_no_semi (a : List Token) (h : ∀ t ∈ a, t.kind ≠ .semi) :
    ∀ t ∈ canonStmtToks a, t.kind ≠ .semi := by
  intro t ht
  have hk := canonStmtToks_kinds a
  have : t.kind ∈ (canonStmtToks a).map Token.kind := List.mem_map_of_mem ht
  rw [hk] at this
  obtain ⟨u, hu, e⟩ := List.mem_map.mp this
  rw [← e]; exact h u hu

/-- **synonyms, program**: `Parse` returns the same statements and the same errors on the program with
    every operator keyword of every top-level pipeline canonicalised -/
theorem pStatements_canon (c : PCtx) : ∀ (n k : Nat) (acc : List Stmt) (errs : Errs) (ts : List Token),
    pStatements c n acc errs (canonProg k ts) = pStatements c n acc errs ts := by
  intro n
  induction n with
  | zero => intro k acc errs ts; rfl
  | succ n ih =>
    intro k acc errs ts
    cases k with
    | zero => rfl
    | succ k =>
      have hns := canonStmtToks_no_semi _ (splitSemi_no_semi ts)
      obtain ⟨p1, p2⟩ := splitSemi_of_parts _ hns
      rcases splitSemi_rest ts with h | ⟨s, r, h, hs⟩
      · have e : canonProg (k + 1) ts = canonStmtToks (splitSemi ts).1 := by
          simp only [canonProg, h, List.append_nil]
        rw [e]
        simp only [pStatements, p1, pStatement_canon, h]
      · have e : canonProg (k + 1) ts = canonStmtToks (splitSemi ts).1 ++ s :: canonProg k r := by
          simp only [canonProg, h]
        rw [e]
        simp only [pStatements, p2 s _ hs, pStatement_canon, h, ih]

theorem canonProg_length (k : Nat) : ∀ ts, (canonProg k ts).length = ts.length := by
  induction k with
  | zero => intro ts; rfl
  | succ k ih =>
    intro ts
    have := congrArg List.length (splitSemi_append ts)
    rcases splitSemi_rest ts with h | ⟨s, r, h, hs⟩
    · simp only [canonProg, h, List.append_nil, canonStmtToks_length] at this ⊢
      exact this
    · simp only [canonProg, h, List.length_append, List.length_cons, canonStmtToks_length, ih] at this ⊢
      exact this

theorem parseTokens_canon (n k : Nat) (ts : List Token) :
    parseTokens n (canonProg k ts) = parseTokens n ts := by
  simp only [parseTokens, canonProg_length, pStatements_canon]

end Pql.Layout
