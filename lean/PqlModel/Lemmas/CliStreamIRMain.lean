/-
Helpers for Props/C16StreamIR.lean: the pieces of `RunE` (cmd/pql/main.go lines 33-52) put together.

NEW definitions (the GLUE that is a hand-written Lean function, not interpreted IR):
* `bindInput`, `readInput`, `closeInput`  the value `makeInput` returned, used as `input` by `run` (`input.Read`) and by
                 `RunE` (`input.Close()`): a `*multiReadCloser` dispatches to the regenerated `Read` / `Close`, a plain
                 reader (`*os.File`, `nopReadCloser{os.Stdin}`) to the object itself;
* `drainM`       (Lemmas/CliStreamIR.lean) `bufio.Scanner`'s reading: `Read` until `io.EOF` or an error;
* `runE`         the closure `RunE`, statement by statement.
Lemmas: `drainM_obj` (a plain reader drained = `CliIO.drain Reader.read`), `miLoop_shape` / `miSpec_shape` (the reader list
`makeInput` returns has the `Shape` of Lemmas/CliStreamIRDen.lean; its files are the objects 1, 2, … in order).
-/
import PqlModel.Lemmas.CliStreamIRDen
import PqlModel.Props.C16RunIR
namespace Pql.StreamIR
open Pql Pql.CliIO Pql.CliIOIR
set_option linter.unusedSimpArgs false

/-! ### the glue -/

/-- `input, err := makeInput(args)`: the value bound to `input`.  A fresh `&multiReadCloser{l}` becomes THE receiver object
    of the interpreter (its field `readers` is `State.readers`). -/
def bindInput : Val → State → Option (Val × State)
  | .mrcNew l, w => some (.mrcRef, { w with readers := l })
  | .rc (some rc), w => some (.rc (some rc), w)
  | _, _ => none

/-- `input.Read(p)`, dynamic dispatch -/
def readInput (env : Env) (fuel : Nat) : Val → State → M (ReadResult × State)
  | .rc x, w => readObj w x
  | .mrcRef, w => readIR env fuel w
  | _, _ => stuck

/-- `input.Close()`, dynamic dispatch (the error it returns is discarded by `RunE`) -/
def closeInput (env : Env) (fuel : Nat) : Val → State → M State
  | .rc x, w => (closeObj env w x).map (·.2)
  | .mrcRef, w => (runUnit env fuel "multiReadCloser.Close" [.mrcRef] w).map (·.2)
  | _, _ => stuck

/-- the interpreter of `run` (Model/CliIR.lean) has its own error type -/
def liftRun {α : Type} : CliIR.M α → M α
  | .ok a => .ok a
  | .error .panic => goPanic
  | .error .stuck => stuck

/-- `RunE` from `output, err := makeOutput(*outputPath)` on (cmd/pql/main.go lines 38-51) -/
def runRest (compile : Bytes → Option Bytes) (env : Env) (fuel k : Nat) (outArg : String) (input : Val) (w1 : State) :
    M (Option CliResult × State) := do
  let (vo, w2) ← runUnit env fuel "makeOutput" [.str outArg] w1
  match vo with
  | [.wc (some _), .err .nil] =>
    -- `run(ctx, output, input, logError)`: the scanner reads `input` …
    let (bytes, ending, w3) ← drainM (readInput env fuel input) k w2
    -- … and the regenerated body of `run` works through the lines it delivers
    let o ← liftRun (CliIR.interpRun (CliIR.modelLib compile) (bufioLines bytes).1 ((bufioLines bytes).2 || ending != .eof))
    let w4 ← closeInput env fuel input w3
    pure (some o.result, w4)
  | [_, .err .other] => do
    let w3 ← closeInput env fuel input w2
    pure (none, w3)
  | _ => stuck

/-- **`RunE`** (cmd/pql/main.go lines 33-52), with the regenerated `makeInput`, `makeOutput`, `Read`, `Close` and `run`
    interpreted and `bufio.Scanner` modelled (`drainM` + `bufioLines`).  Result: what `run` did (`none`: `RunE` returned an
    error before calling it — nothing is printed, exit status 1), and the world (files opened / closed / created).
    `fuel` bounds the `for` loop inside one `Read`, `k` the number of `Read` calls of the scanner.
    Not modelled: the error of `output.Close()` (taken to be nil), the context, the terminal nudge on standard error. -/
def runE (compile : Bytes → Option Bytes) (env : Env) (fuel k : Nat) (args : List String) (outArg : String) (stdin : Reader) :
    M (Option CliResult × State) := do
  let (vi, w1) ← runUnit env fuel "makeInput" [.strs args] (world0 stdin)
  match vi with
  | [v, .err .nil] =>
    match bindInput v w1 with
    | none => stuck
    | some (input, w1') => runRest compile env fuel k outArg input w1'
  | [_, .err .other] => pure (none, w1)
  | _ => stuck

/-! ### a plain reader -/

theorem drainM_obj (env : Env) (fuel : Nat) (x : RC) : ∀ (k : Nat) (w : State) (r : Reader), w.objs[x.h]? = some r →
    ∃ w', drainM (readInput env fuel (.rc (some x))) k w = .ok ((drain Reader.read k r).1, (drain Reader.read k r).2, w') ∧
      w'.readers = w.readers ∧ w'.closed = w.closed ∧ w'.created = w.created ∧ w'.objs.length = w.objs.length
  | 0, w, r, _ => ⟨w, by simp [drainM, drain]⟩
  | k + 1, w, r, ho => by
    obtain ⟨h, nop⟩ := x
    simp only at ho
    have hlt : h < w.objs.length := by
      rcases Nat.lt_or_ge h w.objs.length with h1 | h1
      · exact h1
      · simp [List.getElem?_eq_none h1] at ho
    rcases hr : Reader.read r with ⟨⟨chunk, s⟩, r'⟩
    have ih := drainM_obj env fuel ⟨h, nop⟩ k { w with objs := w.objs.set h r', data := chunk } r'
      (by simp [List.getElem?_set_self hlt])
    obtain ⟨w', g1, g2, g3, g4, g5⟩ := ih
    cases s with
    | ok => exact ⟨w', by simp [drainM, readInput, readObj, ho, hr, g1, drain], g2, g3, g4, by simpa using g5⟩
    | eof => exact ⟨{ w with objs := w.objs.set h r', data := chunk }, by simp [drainM, readInput, readObj, ho, hr, drain], rfl, rfl, rfl, by simp⟩
    | err => exact ⟨{ w with objs := w.objs.set h r', data := chunk }, by simp [drainM, readInput, readObj, ho, hr, drain], rfl, rfl, rfl, by simp⟩

/-! ### the shape of what `makeInput` returns -/

theorem miLoop_shape (env : Env) : ∀ (ps : List String) (acc : List (Option RC)) (st : State),
    (miLoop env ps acc st).1 = true →
    ∃ t, (miLoop env ps acc st).2.1 = acc ++ t ∧ none ∉ t ∧ (∀ h, some ⟨h, true⟩ ∈ t → h = 0) ∧
      fileHandles t = List.range' st.objs.length ((miLoop env ps acc st).2.2.objs.length - st.objs.length) ∧
      st.objs.length ≤ (miLoop env ps acc st).2.2.objs.length ∧ nops t = ps.count "-" ∧ t.length = ps.length
  | [], acc, st, _ => ⟨[], by simp [miLoop, fileHandles, nops]⟩
  | p :: ps, acc, st, hs => by
    by_cases hp : p = "-"
    · subst hp
      have hs' : (miLoop env ps (acc ++ [some ⟨0, true⟩]) st).1 = true := by simpa [miLoop] using hs
      obtain ⟨t, h1, h2, h3, h4, h5, h6, h7⟩ := miLoop_shape env ps (acc ++ [some ⟨0, true⟩]) st hs'
      refine ⟨some ⟨0, true⟩ :: t, by simp [miLoop, h1], by simpa using h2, ?_, by simpa [miLoop, fileHandles] using h4,
        by simpa [miLoop] using h5, by simp [nops, h6], by simp [h7]⟩
      intro h hm
      rcases List.mem_cons.mp hm with he | hm
      · simp at he; exact he
      · exact h3 h hm
    · cases ho : env.openFile p with
      | none => simp [miLoop, hp, ho] at hs
      | some f =>
        have hs' : (miLoop env ps (acc ++ [some ⟨st.objs.length, false⟩]) { st with objs := st.objs ++ [f] }).1 = true := by
          simpa [miLoop, hp, ho] using hs
        obtain ⟨t, h1, h2, h3, h4, h5, h6, h7⟩ := miLoop_shape env ps (acc ++ [some ⟨st.objs.length, false⟩])
          { st with objs := st.objs ++ [f] } hs'
        simp only [List.length_append, List.length_cons, List.length_nil, Nat.zero_add] at h4 h5
        refine ⟨some ⟨st.objs.length, false⟩ :: t, by simp [miLoop, hp, ho, h1], by simpa using h2, ?_, ?_,
          by simp only [miLoop, hp, ho, if_false]; omega, ?_, by simp [h7]⟩
        · intro h hm
          rcases List.mem_cons.mp hm with he | hm
          · simp at he
          · exact h3 h hm
        · simp only [miLoop, hp, ho, if_false, fileHandles, h4]
          generalize (miLoop env ps (acc ++ [some ⟨st.objs.length, false⟩]) { st with objs := st.objs ++ [f] }).2.2.objs.length = N
            at h5 ⊢
          obtain ⟨m, rfl⟩ : ∃ m, N = st.objs.length + 1 + m := ⟨N - (st.objs.length + 1), by omega⟩
          rw [show st.objs.length + 1 + m - st.objs.length = m + 1 by omega,
            show st.objs.length + 1 + m - (st.objs.length + 1) = m by omega, List.range'_succ]
        · have hne : ¬ (p == "-") = true := by simpa using hp
          simp [nops, h6, List.count_cons, hne]

/-- SPECIFICATION: how many files `makeInput` opens — the paths before the first one that cannot be opened -/
def nOpenedGo (openFile : String → Option Reader) : List String → Nat
  | [] => 0
  | p :: ps =>
    if p = "-" then nOpenedGo openFile ps
    else match openFile p with
      | none => 0
      | some _ => nOpenedGo openFile ps + 1

def nOpened (args : List String) (openFile : String → Option Reader) : Nat :=
  if args.isEmpty ∨ args = ["-"] then 0 else nOpenedGo openFile args

theorem miLoop_objs (env : Env) : ∀ (ps : List String) (acc : List (Option RC)) (st : State),
    (miLoop env ps acc st).2.2.objs.length = st.objs.length + nOpenedGo env.openFile ps
  | [], _, _ => rfl
  | p :: ps, acc, st => by
    by_cases hp : p = "-"
    · subst hp
      simp [miLoop, nOpenedGo, miLoop_objs env ps]
    · cases ho : env.openFile p with
      | none => simp [miLoop, nOpenedGo, hp, ho]
      | some f =>
        simp only [miLoop, nOpenedGo, hp, ho, if_false, miLoop_objs env ps, List.length_append, List.length_cons, List.length_nil]
        omega

theorem miSpec_objs (env : Env) (args : List String) (stdin : Reader) :
    (miSpec env args (world0 stdin)).2.objs.length = 1 + nOpened args env.openFile := by
  rcases args with _ | ⟨p, _ | ⟨q, rest⟩⟩
  · simp [miSpec, world0, nOpened]
  · by_cases hp : p = "-"
    · subst hp; simp [miSpec, world0, nOpened]
    · cases hof : env.openFile p <;> simp [miSpec, world0, nOpened, nOpenedGo, hp, openPath, hof]
  · have h := miLoop_objs env (p :: q :: rest) [] (world0 stdin)
    have hw0 : (world0 stdin).objs.length = 1 := rfl
    rw [hw0] at h
    have hn : nOpened (p :: q :: rest) env.openFile = nOpenedGo env.openFile (p :: q :: rest) := by simp [nOpened]
    rw [hn, ← h]
    simp only [miSpec]
    split <;> rfl

/-- what `makeInput` returns on the initial world: a `*multiReadCloser` over a list of the `Shape` of
    Lemmas/CliStreamIRDen.lean whose files are the objects 1, 2, … in order, or one plain reader, or an error -/
theorem miSpec_shape (env : Env) (args : List String) (stdin : Reader) :
    (miSpec env args (world0 stdin)).2.objs[0]? = some stdin ∧
    ((∃ l, (miSpec env args (world0 stdin)).1 = [.mrcNew l, .err .nil] ∧
        Shape (miSpec env args (world0 stdin)).2.objs.length l ∧ nops l = args.count "-" ∧
        fileHandles l = List.range' 1 ((miSpec env args (world0 stdin)).2.objs.length - 1) ∧ l.length = args.length) ∨
     (∃ rc, (miSpec env args (world0 stdin)).1 = [.rc (some rc), .err .nil] ∧
        Shape (miSpec env args (world0 stdin)).2.objs.length [some rc] ∧
        fileHandles [some rc] = List.range' 1 ((miSpec env args (world0 stdin)).2.objs.length - 1)) ∨
     (miSpec env args (world0 stdin)).1 = [.rc none, .err .other]) := by
  have hnop : Shape 1 [some ⟨0, true⟩] :=
    ⟨by simp, by simp, by simp [fileHandles], by simp [fileHandles], by omega⟩
  rcases args with _ | ⟨p, _ | ⟨q, rest⟩⟩
  · exact ⟨by simp [miSpec, world0], Or.inr (Or.inl ⟨⟨0, true⟩, by simp [miSpec, world0, fileHandles, hnop]⟩)⟩
  · by_cases hp : p = "-"
    · subst hp
      exact ⟨by simp [miSpec, world0], Or.inr (Or.inl ⟨⟨0, true⟩, by simp [miSpec, world0, fileHandles, hnop]⟩)⟩
    · cases hof : env.openFile p with
      | none => exact ⟨by simp [miSpec, world0, hp, openPath, hof], Or.inr (Or.inr (by simp [miSpec, hp, openPath, hof]))⟩
      | some f =>
        refine ⟨by simp [miSpec, world0, hp, openPath, hof], Or.inr (Or.inl ⟨⟨1, false⟩, ?_⟩)⟩
        have : Shape 2 [some ⟨1, false⟩] := ⟨by simp, by simp, by simp [fileHandles], by simp [fileHandles], by omega⟩
        simp [miSpec, world0, hp, openPath, hof, fileHandles, this]
  · obtain ⟨t, fs, h1, _, _, _⟩ := miLoop_model env stdin (p :: q :: rest) [] (world0 stdin) false (by simp [world0])
    have hz : (miLoop env (p :: q :: rest) [] (world0 stdin)).2.2.objs[0]? = some stdin := by
      rw [h1]; simp [world0]
    cases hok : (miLoop env (p :: q :: rest) [] (world0 stdin)).1 with
    | false => exact ⟨by simpa [miSpec, hok] using hz, Or.inr (Or.inr (by simp [miSpec, hok]))⟩
    | true =>
      obtain ⟨l, g1, g2, g3, g4, g5, g6, g7⟩ := miLoop_shape env (p :: q :: rest) [] (world0 stdin) hok
      simp only [List.nil_append] at g1
      have hw0 : (world0 stdin).objs.length = 1 := rfl
      rw [hw0] at g4 g5
      refine ⟨by simpa [miSpec, hok] using hz, Or.inl ⟨l, by simp [miSpec, hok, g1], ?_, by simpa [miSpec, hok] using g6,
        by simpa [miSpec, hok] using g4, g7⟩⟩
      simp only [miSpec, hok, if_true]
      refine ⟨g2, g3, ?_, ?_, by omega⟩
      · intro h hm
        rw [g4] at hm
        have := List.mem_range'_1.mp hm
        omega
      · rw [g4]; exact List.nodup_range' (step := 1)

/-! ### the phases of `RunE` -/

/-- `makeInput(args)` in the initial world: the values and the world of `miSpec`, which read (`inputOf`) as the model's
    `CliIO.makeInput` -/
theorem makeInput_phase (env : Env) (fuel : Nat) (args : List String) (stdin : Reader) :
    ∃ st1, runUnit env fuel "makeInput" [.strs args] (world0 stdin) = .ok ((miSpec env args (world0 stdin)).1, st1) ∧
      st1.world = (miSpec env args (world0 stdin)).2.world ∧
      inputOf (miSpec env args (world0 stdin)).1 st1 = CliIO.makeInput args stdin env.openFile ∧
      st1.closed = (if (CliIO.makeInput args stdin env.openFile).isSome then [] else List.range' 1 (st1.objs.length - 1)) ∧
      st1.created = [] := by
  obtain ⟨st2, hr, hw⟩ := map_world_ok _ _ _ (makeInput_run env fuel args (world0 stdin))
  have hrun : runUnit env fuel "makeInput" [.strs args] (world0 stdin) = .ok ((miSpec env args (world0 stdin)).1, st2) := by
    simp only [runUnit, makeInput_ir]; exact hr
  obtain ⟨vs, st', h1, h2, h3, h4⟩ := C16_makeInput_ir env fuel args stdin
  rw [hrun] at h1
  simp only [Except.ok.injEq, Prod.mk.injEq] at h1
  obtain ⟨rfl, rfl⟩ := h1
  exact ⟨st2, hrun, hw, h2, h3, h4⟩

/-- does `makeOutput` fail (`os.Create` of a real path fails) -/
def outputFails (env : Env) (outArg : String) : Bool := !(decide (outArg = "" ∨ outArg = "-")) && env.createFails outArg

/-- the file `makeOutput` creates -/
def createdBy (env : Env) (outArg : String) : List String :=
  if outArg = "" ∨ outArg = "-" then [] else if env.createFails outArg then [] else [outArg]

theorem makeOutput_phase (env : Env) (fuel : Nat) (outArg : String) (w : State) :
    ∃ vo w2, runUnit env fuel "makeOutput" [.str outArg] w = .ok (vo, w2) ∧
      w2.objs = w.objs ∧ w2.readers = w.readers ∧ w2.closed = w.closed ∧ w2.created = w.created ++ createdBy env outArg ∧
      (if outputFails env outArg then vo = [.wc none, .err .other] else ∃ x, vo = [.wc (some x), .err .nil]) := by
  have h := C16_makeOutput_ir env fuel outArg w
  by_cases h1 : outArg = "" ∨ outArg = "-"
  · rw [if_pos h1] at h
    obtain ⟨w2, hr, hw⟩ := map_world_ok _ _ w h
    simp only [State.world, Prod.mk.injEq] at hw
    exact ⟨_, w2, hr, hw.1, hw.2.1, hw.2.2.1, by simp [createdBy, h1, hw.2.2.2.1], by simp [outputFails, h1]⟩
  · rw [if_neg h1] at h
    cases hc : env.createFails outArg with
    | true =>
      rw [hc, if_pos rfl] at h
      obtain ⟨w2, hr, hw⟩ := map_world_ok _ _ w h
      simp only [State.world, Prod.mk.injEq] at hw
      exact ⟨_, w2, hr, hw.1, hw.2.1, hw.2.2.1, by simp [createdBy, h1, hc, hw.2.2.2.1], by simp [outputFails, h1, hc]⟩
    | false =>
      rw [hc, if_neg (by simp)] at h
      obtain ⟨w2, hr, hw⟩ := map_world_ok _ _ ({ w with created := w.created ++ [outArg] } : State) h
      simp only [State.world, Prod.mk.injEq] at hw
      exact ⟨_, w2, hr, hw.1, hw.2.1, hw.2.2.1, by simp [createdBy, h1, hc, hw.2.2.2.1], by simp [outputFails, h1, hc]⟩

/-- the variable `input` of `RunE` holds readers that read as the scripts `rs`: the receiver `*multiReadCloser` whose
    field is the list `l` (in the reading `RDen`), or one plain reader (`l` = that reader alone) -/
def InputOK (fuel : Nat) (input : Val) (w : State) (l : List (Option RC)) (rs : List Reader) : Prop :=
  (input = .mrcRef ∧ w.readers = l ∧ RDen w.objs l rs ∧ l.length < fuel) ∨
  (∃ rc r, input = .rc (some rc) ∧ l = [some rc] ∧ w.objs[rc.h]? = some r ∧ rs = [r])

/-- `input.Close()` without reading -/
theorem input_close (env : Env) (fuel : Nat) (input : Val) (w : State) (l : List (Option RC)) (rs : List Reader)
    (h : InputOK fuel input w l rs) :
    ∃ w2, closeInput env fuel input w = .ok w2 ∧ w2.closed = w.closed ++ fileHandles l ∧ w2.created = w.created ∧
      w2.objs.length = w.objs.length := by
  rcases h with ⟨rfl, hl, hR, _⟩ | ⟨⟨h, nop⟩, r, rfl, rfl, _, _⟩
  · obtain ⟨w2, g1, g2⟩ := C16_Close_ir env fuel w (by rw [hl]; exact hR.2.1.nonnil)
    simp only [State.world, Prod.mk.injEq] at g2
    exact ⟨w2, by simp [closeInput, g1, Except.map], by rw [g2.2.2.1, hl], g2.2.2.2.1, by rw [g2.1]⟩
  · cases nop
    · exact ⟨{ w with closed := w.closed ++ [h] }, by simp [closeInput, closeObj, Except.map], by simp [fileHandles], rfl, rfl⟩
    · exact ⟨w, by simp [closeInput, closeObj, Except.map], by simp [fileHandles], rfl, rfl⟩

/-- the scanner drains `input`, then `input.Close()`: the bytes are the concatenated contents up to and including the first
    failing reader, and every file of the list has been closed exactly once, in list order -/
theorem input_drain_close (env : Env) (fuel k : Nat) (input : Val) (w : State) (l : List (Option RC)) (rs : List Reader)
    (h : InputOK fuel input w l rs) (hk : totalResults rs + 1 ≤ k) :
    ∃ w1 w2, drainM (readInput env fuel input) k w = .ok ((inputStream rs).1, (inputStream rs).2, w1) ∧
      closeInput env fuel input w1 = .ok w2 ∧ w2.closed = w.closed ++ fileHandles l ∧ w2.created = w.created ∧
      w2.objs.length = w.objs.length := by
  rcases h with ⟨rfl, hl, hR, hf⟩ | ⟨⟨h, nop⟩, r, rfl, rfl, ho, rfl⟩
  · obtain ⟨w1, w2, g1, g2, g3, _, g5, g6⟩ := drain_then_close inv_den env fuel k w rs (hl ▸ hR) (hl ▸ hf) hk
    refine ⟨w1, w2, ?_, by simp [closeInput, g2, Except.map], hl ▸ g3, g5, g6⟩
    have : readInput env fuel .mrcRef = readIR env fuel := by funext s; rfl
    rw [this, C16_multi_concat, toEnding_fst, toEnding_snd]
    exact g1
  · obtain ⟨w1, g1, _, g3, g4, g5⟩ := drainM_obj env fuel ⟨h, nop⟩ k w r ho
    have hk' : r.length + 1 ≤ k := by simpa [totalResults] using hk
    rw [C16_reader_alone r k hk'] at g1
    have hlt1 : h < w1.objs.length := by
      rw [g5]
      rcases Nat.lt_or_ge h w.objs.length with h1 | h1
      · exact h1
      · simp [List.getElem?_eq_none h1] at ho
    obtain ⟨w2, c1, c2, c3, c4⟩ := input_close env fuel (.rc (some ⟨h, nop⟩)) w1 [some ⟨h, nop⟩] [w1.objs[h]]
      (Or.inr ⟨⟨h, nop⟩, w1.objs[h], rfl, rfl, List.getElem?_eq_getElem hlt1, rfl⟩)
    refine ⟨w1, w2, ?_, c1, by rw [c2, g3], by rw [c3, g4], by rw [c4, g5]⟩
    rw [C16_multi_concat, concatContents_single]
    exact g1

theorem InputOK.congr {fuel : Nat} {input : Val} {w w2 : State} {l : List (Option RC)} {rs : List Reader}
    (h : InputOK fuel input w l rs) (ho : w2.objs = w.objs) (hr : w2.readers = w.readers) : InputOK fuel input w2 l rs := by
  unfold InputOK at h ⊢
  rw [ho, hr]; exact h

theorem liftRun_interp (compile : Bytes → Option Bytes) (lines : List Bytes) (readErr : Bool) :
    ∃ o, liftRun (CliIR.interpRun (CliIR.modelLib compile) lines readErr) = .ok o ∧ o.result = cliRun compile lines readErr :=
  ⟨_, by rw [CliIR.interpRun_eq]; rfl, CliIR.runOutcome_result compile lines readErr⟩

/-- `RunE` after a successful `makeInput` -/
theorem runRest_eq (compile : Bytes → Option Bytes) (env : Env) (fuel k : Nat) (outArg : String) (input : Val) (w1 : State)
    (l : List (Option RC)) (rs : List Reader) (h : InputOK fuel input w1 l rs) (hk : totalResults rs + 1 ≤ k) :
    ∃ w, runRest compile env fuel k outArg input w1 =
        .ok (if outputFails env outArg then none else some (cliFiles compile rs), w) ∧
      w.closed = w1.closed ++ fileHandles l ∧ w.created = w1.created ++ createdBy env outArg ∧
      w.objs.length = w1.objs.length := by
  obtain ⟨vo, w2, hrun, ho, hr, hc, hcr, hvo⟩ := makeOutput_phase env fuel outArg w1
  have h2 : InputOK fuel input w2 l rs := h.congr ho hr
  cases hof : outputFails env outArg with
  | true =>
    rw [hof, if_pos rfl] at hvo
    subst hvo
    obtain ⟨w3, g1, g2, g3, g4⟩ := input_close env fuel input w2 l rs h2
    exact ⟨w3, by simp [runRest, hrun, g1, bind, Except.bind, pure, Except.pure], by rw [g2, hc], by rw [g3, hcr],
      by rw [g4, ho]⟩
  | false =>
    rw [hof, if_neg (by simp)] at hvo
    obtain ⟨x, rfl⟩ := hvo
    obtain ⟨w3, w4, g1, g2, g3, g4, g5⟩ := input_drain_close env fuel k input w2 l rs h2 hk
    obtain ⟨o, i1, i2⟩ := liftRun_interp compile (bufioLines (inputStream rs).1).1
      ((bufioLines (inputStream rs).1).2 || (inputStream rs).2 != .eof)
    refine ⟨w4, ?_, by rw [g3, hc], by rw [g4, hcr], by rw [g5, ho]⟩
    simp only [runRest, hrun, g1, i1, g2, bind, Except.bind, pure, Except.pure, i2]
    rfl

end Pql.StreamIR
