/-
`Intended.splitA` on a join-free pipeline: the links form a chain (each reads the previous one, the
first the pipeline's table), ORDER BY / LIMIT only sit where `canAttachSort` allows, and reading
every link as body; ORDER BY; LIMIT gives back the operator list.
-/
import PqlModel.Props.C02Semantics
namespace Pql.SelSem
open Pql Sql CompileOracle Intended SplitQ C02

/-- the name the next link reads: the last link's, or the base table -/
def lastName (p : Bytes) (l : List SubA) : Bytes :=
  match l.getLast? with | some s => s.name | none => p

/-- each link reads the table named like its predecessor, the first one reads `p` -/
def ChainFrom (p : Bytes) : List SubA → Prop
  | [] => True
  | s :: rest => s.source = .table p ∧ ChainFrom s.name rest

theorem lastName_cons (p : Bytes) (s : SubA) (l : List SubA) : lastName p (s :: l) = lastName s.name l := by
  unfold lastName
  cases l with
  | nil => rfl
  | cons x xs =>
    rw [List.getLast?_cons_cons]
    cases h : (x :: xs).getLast? with
    | none => simp at h
    | some _ => rfl

theorem lastName_snoc (p : Bytes) (l : List SubA) (s : SubA) : lastName p (l ++ [s]) = s.name := by
  simp [lastName]

theorem chainFrom_snoc : ∀ (p : Bytes) (l : List SubA) (s : SubA),
    ChainFrom p (l ++ [s]) ↔ ChainFrom p l ∧ s.source = .table (lastName p l)
  | p, [], s => by simp [ChainFrom, lastName]
  | p, x :: xs, s => by
    simp only [List.cons_append, ChainFrom, chainFrom_snoc x.name xs s, lastName_cons, and_assoc]

theorem chainA_source (source : Option Ident) (dst : List SubA) :
    (chainA dst 0 source).source = .table (lastName (identName source) dst) := by
  unfold chainA lastName
  cases hd : dst.getLast? with
  | none =>
    have : dst = [] := List.getLast?_eq_none_iff.mp hd
    subst this; rfl
  | some s =>
    have : dst.length > 0 := by
      cases dst with
      | nil => simp at hd
      | cons x xs => simp
    simp [this]

theorem lastOfA_nil : lastOfA [] 0 = none := rfl

theorem lastOfA_snoc (init : List SubA) (l : SubA) : lastOfA (init ++ [l]) 0 = some l := by
  simp [lastOfA]

theorem setLastA_snoc (init : List SubA) (l : SubA) (f : SubA → SubA) :
    setLastA (init ++ [l]) f = init ++ [f l] := by
  simp [setLastA]

/-- sort / take / top: attach to the last link when `can` allows, else chain a new one -/
def attachOr (source : Option Ident) (dst : List SubA) (can : SubA → Bool) (f : SubA → SubA) : List SubA :=
  setLastA (if (match lastOfA dst 0 with | some l => can l | none => false) then dst
            else dst ++ [chainA dst 0 source]) f

theorem attachOr_cases (source : Option Ident) (dst : List SubA) (can : SubA → Bool) (f : SubA → SubA) :
    attachOr source dst can f = dst ++ [f (chainA dst 0 source)] ∨
    ∃ init l, dst = init ++ [l] ∧ can l = true ∧ attachOr source dst can f = init ++ [f l] := by
  unfold attachOr
  rcases List.eq_nil_or_concat dst with rfl | ⟨init, l, rfl⟩
  · left; simp [lastOfA_nil, setLastA]
  · rw [List.concat_eq_append, lastOfA_snoc]
    by_cases hc : can l = true
    · right
      exact ⟨init, l, rfl, hc, by simp only [hc, ↓reduceIte]; exact setLastA_snoc init l f⟩
    · left
      simp only [hc, Bool.false_eq_true, ↓reduceIte]
      exact setLastA_snoc _ _ f

/-- what one operator of a join-free pipeline does to the list of links -/
def stepA (source : Option Ident) (dst : List SubA) : Op → List SubA
  | .as_ p k name => dst ++ [{ chainA dst 0 source with name := identName name, op := some (.as_ p k name) }]
  | .sort _ _ terms =>
    attachOr source dst (fun l => canAttachSort l.op && l.sort.isNone && l.take.isNone)
      (fun s => { s with sort := some terms })
  | .take _ _ n =>
    attachOr source dst (fun l => canAttachSort l.op && l.take.isNone) (fun s => { s with take := some n })
  | .top _ _ n _ (some c) =>
    attachOr source dst (fun l => canAttachSort l.op && l.sort.isNone && l.take.isNone)
      (fun s => { s with sort := some [c], take := some n })
  | o => dst ++ [{ chainA dst 0 source with op := some o }]

def isTopNone : Op → Bool
  | .top _ _ _ _ none => true
  | _ => false

theorem splitOpsA_cons (source : Option Ident) (dst : List SubA) (o : Op) (rest : OpList) (out : List SubA)
    (hj : isJoin o = false) (h : splitOpsA source 0 dst (.cons o rest) = some out) :
    isTopNone o = false ∧ splitOpsA source 0 (stepA source dst o) rest = some out := by
  cases o with
  | join => simp [isJoin] at hj
  | top p k n b col =>
    cases col with
    | none => simp [splitOpsA] at h
    | some c => simp only [splitOpsA] at h; exact ⟨rfl, h⟩
  | _ => simp only [splitOpsA] at h; exact ⟨rfl, h⟩

/-! ### the invariant -/

structure InvA (p : Bytes) (dst : List SubA) : Prop where
  chain : ChainFrom p dst
  sortOk : ∀ s ∈ dst, sortOkA s = true
  opsOk : ∀ s ∈ dst, ∀ o, s.op = some o → opOk o = true

theorem InvA.nil (p : Bytes) : InvA p [] := ⟨trivial, by simp, by simp⟩

theorem InvA.snoc {p : Bytes} {dst : List SubA} (inv : InvA p dst) (s : SubA)
    (h1 : s.source = .table (lastName p dst)) (h2 : sortOkA s = true)
    (h3 : ∀ o, s.op = some o → opOk o = true) : InvA p (dst ++ [s]) := by
  refine ⟨(chainFrom_snoc p dst s).mpr ⟨inv.chain, h1⟩, ?_, ?_⟩
  · intro x hx
    rcases List.mem_append.mp hx with hx | hx
    · exact inv.sortOk x hx
    · simp only [List.mem_singleton] at hx; subst hx; exact h2
  · intro x hx
    rcases List.mem_append.mp hx with hx | hx
    · exact inv.opsOk x hx
    · simp only [List.mem_singleton] at hx; subst hx; exact h3

theorem InvA.init {p : Bytes} {init : List SubA} {l : SubA} (inv : InvA p (init ++ [l])) : InvA p init :=
  ⟨((chainFrom_snoc p init l).mp inv.chain).1, fun s hs => inv.sortOk s (List.mem_append_left _ hs),
   fun s hs => inv.opsOk s (List.mem_append_left _ hs)⟩

theorem chainA_fields (source : Option Ident) (dst : List SubA) :
    (chainA dst 0 source).op = none ∧ (chainA dst 0 source).sort = none ∧ (chainA dst 0 source).take = none :=
  ⟨rfl, rfl, rfl⟩

theorem attach_ok (source : Option Ident) (dst : List SubA) (can : SubA → Bool) (f : SubA → SubA)
    (extra : List Clause) (inv : InvA (identName source) dst)
    (hf : ∀ s, (f s).source = s.source ∧ (f s).op = s.op)
    (hcan : ∀ l, can l = true → canAttachSort l.op = true ∧ subClausesA (f l) = subClausesA l ++ extra)
    (hfresh : subClausesA (f (chainA dst 0 source)) = extra) :
    InvA (identName source) (attachOr source dst can f) ∧
      (attachOr source dst can f).flatMap subClausesA = dst.flatMap subClausesA ++ extra := by
  rcases attachOr_cases source dst can f with h | ⟨init, l, hd, hc, h⟩
  · rw [h]
    refine ⟨inv.snoc _ ?_ ?_ ?_, by simp [hfresh]⟩
    · rw [(hf _).1]; exact chainA_source source dst
    · simp [sortOkA, (hf _).2, (chainA_fields source dst).1, canAttachSort]
    · intro o ho; rw [(hf _).2, (chainA_fields source dst).1] at ho; cases ho
  · rw [h]
    subst hd
    obtain ⟨hc1, hc2⟩ := hcan l hc
    refine ⟨inv.init.snoc _ ?_ ?_ ?_, by simp [hc2]⟩
    · rw [(hf _).1]; exact ((chainFrom_snoc _ init l).mp inv.chain).2
    · simp [sortOkA, (hf _).2, hc1]
    · intro o ho; rw [(hf _).2] at ho; exact inv.opsOk l (by simp) o ho

theorem stepA_ok (source : Option Ident) (dst : List SubA) (o : Op) (hj : isJoin o = false)
    (ht : isTopNone o = false) (hok : opOk o = true) (inv : InvA (identName source) dst) :
    InvA (identName source) (stepA source dst o) ∧
      (stepA source dst o).flatMap subClausesA = dst.flatMap subClausesA ++ opClauses o := by
  have fresh : ∀ o', opOk o' = true →
      InvA (identName source) (dst ++ [{ chainA dst 0 source with op := some o' }]) ∧
      (dst ++ [{ chainA dst 0 source with op := some o' }]).flatMap subClausesA =
        dst.flatMap subClausesA ++ [.op o'] := by
    intro o' ho'
    refine ⟨inv.snoc _ (chainA_source source dst) (by simp [sortOkA, chainA]) ?_, ?_⟩
    · intro o'' h; simp only [Option.some.injEq] at h; subst h; exact ho'
    · simp [subClausesA, opPartA, sortTakeA, chainA]
  cases o with
  | join => simp [isJoin] at hj
  | as_ p k name =>
    refine ⟨inv.snoc _ (chainA_source source dst) (by simp [sortOkA, chainA]) ?_, ?_⟩
    · intro o'' h; simp only [Option.some.injEq] at h; subst h; rfl
    · simp [stepA, subClausesA, opPartA, sortTakeA, chainA, opClauses]
  | sort p k terms =>
    apply attach_ok source dst (fun l => canAttachSort l.op && l.sort.isNone && l.take.isNone)
      (fun s => { s with sort := some terms }) [.sort terms] inv (fun s => ⟨rfl, rfl⟩)
    · intro l hl
      simp only [Bool.and_eq_true, Option.isNone_iff_eq_none] at hl
      exact ⟨hl.1.1, by simp [subClausesA, sortTakeA, opPartA, hl.1.2, hl.2]⟩
    · simp [subClausesA, opPartA, sortTakeA, chainA]
  | take p k n =>
    apply attach_ok source dst (fun l => canAttachSort l.op && l.take.isNone)
      (fun s => { s with take := some n }) [.take n] inv (fun s => ⟨rfl, rfl⟩)
    · intro l hl
      simp only [Bool.and_eq_true, Option.isNone_iff_eq_none] at hl
      exact ⟨hl.1, by simp [subClausesA, sortTakeA, opPartA, hl.2]⟩
    · simp [subClausesA, opPartA, sortTakeA, chainA]
  | top p k n b col =>
    cases col with
    | none => simp [isTopNone] at ht
    | some c =>
      apply attach_ok source dst (fun l => canAttachSort l.op && l.sort.isNone && l.take.isNone)
        (fun s => { s with sort := some [c], take := some n }) [.sort [c], .take n] inv (fun s => ⟨rfl, rfl⟩)
      · intro l hl
        simp only [Bool.and_eq_true, Option.isNone_iff_eq_none] at hl
        exact ⟨hl.1.1, by simp [subClausesA, sortTakeA, opPartA, hl.1.2, hl.2]⟩
      · simp [subClausesA, opPartA, sortTakeA, chainA]
  | count p k => exact fresh _ hok
  | where_ p k e => exact fresh _ hok
  | project p k cs => exact fresh _ hok
  | extend p k cs => exact fresh _ hok
  | summarize p k cs b gs => exact fresh _ hok
  | render p k ch w lp props rp => exact fresh _ hok

end Pql.SelSem
