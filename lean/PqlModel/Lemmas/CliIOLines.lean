/-
What `bufio.Scanner`+`ScanLines` (model: `bufioLines`) followed by the loop's "line, then '\n'"
does to the input bytes: lemmas for `C16_lines_lossless` / `C16_lines_prefix`.

NEW SPECIFICATION-LEVEL DEFINITIONS: `ensureNL`, `crlfToLf`, `rawLines`.
-/
import PqlModel.Spec.CliSpec
namespace Pql.CliIO
open Pql

/-- supply the final newline if the (non-empty) input does not end with one -/
def ensureNL : Bytes → Bytes
  | [] => []
  | [c] => if c = 10 then [10] else [c, 10]
  | c :: d :: rest => c :: ensureNL (d :: rest)

/-- replace every `\r\n` by `\n` (left to right; of `\r\r\n` only the second `\r` goes) -/
def crlfToLf : Bytes → Bytes
  | [] => []
  | [c] => [c]
  | a :: b :: r => if a = 13 ∧ b = 10 then 10 :: crlfToLf r else a :: crlfToLf (b :: r)

/-- the input cut at '\n' (before `dropCR` and the length check) -/
def rawLines (input : Bytes) : List Bytes := splitLines input [] []

/-! ### `ensureNL` -/

theorem ensureNL_cons (c : UInt8) (rest : Bytes) (h : rest ≠ []) :
    ensureNL (c :: rest) = c :: ensureNL rest := by
  cases rest with
  | nil => exact absurd rfl h
  | cons d r => rfl

theorem ensureNL_append (x y : Bytes) (h : y ≠ []) : ensureNL (x ++ y) = x ++ ensureNL y := by
  induction x with
  | nil => rfl
  | cons c x ih =>
    rw [List.cons_append, ensureNL_cons c (x ++ y) (by simp [h]), ih, List.cons_append]

theorem ensureNL_no_nl (x : Bytes) (hx : x ≠ []) (h : (10 : UInt8) ∉ x) :
    ensureNL x = x ++ [10] := by
  induction x with
  | nil => exact absurd rfl hx
  | cons c x ih =>
    cases x with
    | nil =>
      have : c ≠ 10 := fun hc => h (by simp [hc])
      simp [ensureNL, this]
    | cons d r =>
      rw [ensureNL_cons c (d :: r) (by simp), ih (by simp) (fun hm => h (List.mem_cons_of_mem _ hm))]
      rfl

/-- the closed form: nothing to add iff the input is empty or ends with '\n' -/
theorem ensureNL_eq (x : Bytes) :
    ensureNL x = if x = [] ∨ x.getLast? = some 10 then x else x ++ [10] := by
  induction x with
  | nil => rfl
  | cons c x ih =>
    cases x with
    | nil => by_cases hc : c = 10 <;> simp [ensureNL, hc]
    | cons d r =>
      rw [ensureNL_cons c (d :: r) (by simp), ih]
      simp only [reduceCtorEq, false_or, List.getLast?_cons_cons]
      split <;> rfl

/-! ### `dropCR` -/

theorem dropCR_nil : dropCR [] = [] := rfl

theorem dropCR_snoc_cr (l : Bytes) : dropCR (l ++ [13]) = l := by
  simp [dropCR]

theorem dropCR_snoc (l : Bytes) (c : UInt8) (h : c ≠ 13) : dropCR (l ++ [c]) = l ++ [c] := by
  unfold dropCR
  simp only [List.reverse_append, List.reverse_cons, List.reverse_nil, List.nil_append,
    List.singleton_append]
  split
  · rename_i r heq
    simp only [List.cons.injEq] at heq
    exact absurd heq.1 h
  · rfl

theorem dropCR_cons (a : UInt8) (l : Bytes) (h : l ≠ []) : dropCR (a :: l) = a :: dropCR l := by
  obtain ⟨l', c, rfl⟩ : ∃ l' c, l = l' ++ [c] :=
    ⟨l.dropLast, l.getLast h, (List.dropLast_concat_getLast h).symm⟩
  by_cases hc : c = 13
  · subst hc
    rw [← List.cons_append, dropCR_snoc_cr, dropCR_snoc_cr]
  · rw [← List.cons_append, dropCR_snoc _ _ hc, dropCR_snoc _ _ hc]; rfl

theorem dropCR_single (a : UInt8) : dropCR [a] = if a = 13 then [] else [a] := by
  by_cases h : a = 13
  · subst h; rfl
  · have := dropCR_snoc [] a h
    simpa [h] using this

/-! ### `crlfToLf` -/

theorem crlfToLf_cons_cons (a b : UInt8) (r : Bytes) :
    crlfToLf (a :: b :: r) = if a = 13 ∧ b = 10 then 10 :: crlfToLf r else a :: crlfToLf (b :: r) := by
  rw [crlfToLf]

theorem crlfToLf_nl (r : Bytes) : crlfToLf (10 :: r) = 10 :: crlfToLf r := by
  cases r with
  | nil => rfl
  | cons b r => rw [crlfToLf_cons_cons]; simp

/-- one raw line and its terminator: the line loses one trailing `\r`, nothing else -/
theorem crlfToLf_line (l : Bytes) (h : (10 : UInt8) ∉ l) (rest : Bytes) :
    crlfToLf (l ++ 10 :: rest) = dropCR l ++ 10 :: crlfToLf rest := by
  induction l with
  | nil => simpa [dropCR_nil] using crlfToLf_nl rest
  | cons a l ih =>
    have ha : a ≠ 10 := fun hc => h (by simp [hc])
    have hl : (10 : UInt8) ∉ l := fun hm => h (List.mem_cons_of_mem _ hm)
    cases l with
    | nil =>
      simp only [List.cons_append, List.nil_append, crlfToLf_cons_cons, dropCR_single]
      by_cases h13 : a = 13
      · simp [h13]
      · simp [h13, crlfToLf_nl]
    | cons b l' =>
      have hb : b ≠ 10 := fun hc => hl (by simp [hc])
      rw [dropCR_cons a (b :: l') (by simp)]
      simp only [List.cons_append, crlfToLf_cons_cons, hb, and_false, if_false]
      rw [← List.cons_append, ih hl]

theorem crlfToLf_lines (ls : List Bytes) (h : ∀ l ∈ ls, (10 : UInt8) ∉ l) (rest : Bytes) :
    crlfToLf (CliSpec.normalise ls ++ rest) = CliSpec.normalise (ls.map dropCR) ++ crlfToLf rest := by
  induction ls with
  | nil => simp [CliSpec.normalise]
  | cons l ls ih =>
    have h1 := h l (by simp)
    have h2 : ∀ l ∈ ls, (10 : UInt8) ∉ l := fun x hx => h x (List.mem_cons_of_mem _ hx)
    simp only [CliSpec.normalise, List.flatMap_cons, List.map_cons, List.append_assoc,
      List.singleton_append] at ih ⊢
    rw [List.cons_append, crlfToLf_line l h1, ih h2]
    simp

/-- only `\r` bytes are removed, and the order is kept -/
theorem crlfToLf_sublist (x : Bytes) : (crlfToLf x).Sublist x := by
  fun_induction crlfToLf x with
  | case1 => exact List.Sublist.refl _
  | case2 c => exact List.Sublist.refl _
  | case3 a b r h ih => obtain ⟨rfl, rfl⟩ := h; exact (ih.cons_cons _).cons _
  | case4 a b r h ih => exact ih.cons_cons _

theorem crlfToLf_filter (x : Bytes) :
    (crlfToLf x).filter (· != 13) = x.filter (· != 13) := by
  fun_induction crlfToLf x with
  | case1 => rfl
  | case2 c => rfl
  | case3 a b r h ih => obtain ⟨rfl, rfl⟩ := h; simp [ih]
  | case4 a b r h ih => simp only [List.filter_cons, ih]

/-- text without `\r\n` is unchanged -/
theorem crlfToLf_id (x : Bytes) (h : ∀ u v, x ≠ u ++ 13 :: 10 :: v) : crlfToLf x = x := by
  fun_induction crlfToLf x with
  | case1 => rfl
  | case2 c => rfl
  | case3 a b r hab ih => obtain ⟨rfl, rfl⟩ := hab; exact absurd rfl (h [] r)
  | case4 a b r hab ih =>
    rw [ih (fun u v huv => h (a :: u) v (by rw [huv]; rfl))]

/-! ### `splitLines` -/

theorem splitLines_acc (input : Bytes) (acc : List Bytes) (cur : Bytes) :
    splitLines input acc cur = acc.reverse ++ splitLines input [] cur := by
  induction input generalizing acc cur with
  | nil =>
    simp only [splitLines]
    split <;> simp
  | cons c rest ih =>
    simp only [splitLines]
    split
    · rw [ih (cur.reverse :: acc), ih [cur.reverse]]; simp
    · exact ih acc (c :: cur)

theorem splitLines_no_nl (input : Bytes) (cur : Bytes) (hc : (10 : UInt8) ∉ cur) :
    ∀ l ∈ splitLines input [] cur, (10 : UInt8) ∉ l := by
  induction input generalizing cur with
  | nil =>
    simp only [splitLines]
    split
    · simp
    · intro l hl
      simp only [List.reverse_cons, List.reverse_nil, List.nil_append, List.mem_singleton] at hl
      subst hl
      simpa using hc
  | cons c rest ih =>
    simp only [splitLines]
    split
    · rw [splitLines_acc]
      intro l hl
      simp only [List.reverse_cons, List.reverse_nil, List.nil_append, List.singleton_append,
        List.mem_cons] at hl
      rcases hl with rfl | hl
      · simpa using hc
      · exact ih [] (by simp) l hl
    · rename_i hne
      apply ih (c :: cur)
      intro hm
      rcases List.mem_cons.mp hm with h | h
      · rw [← h] at hne; simp at hne
      · exact hc h

theorem splitLines_join (input : Bytes) (cur : Bytes) (hc : (10 : UInt8) ∉ cur) :
    CliSpec.normalise (splitLines input [] cur) = ensureNL (cur.reverse ++ input) := by
  induction input generalizing cur with
  | nil =>
    simp only [splitLines, List.append_nil]
    split
    · rename_i he
      have : cur = [] := by simpa using he
      subst this; rfl
    · rename_i he
      have hne : cur.reverse ≠ [] := by simpa using he
      rw [ensureNL_no_nl _ hne (by simpa using hc)]
      simp [CliSpec.normalise]
  | cons c rest ih =>
    simp only [splitLines]
    split
    · rename_i h10
      have : c = 10 := by simpa using h10
      subst this
      rw [splitLines_acc]
      have := ih [] (by simp)
      simp only [List.reverse_nil, List.nil_append] at this
      by_cases hr : rest = []
      · subst hr
        simp only [splitLines, List.isEmpty_nil, if_true, List.reverse_nil, List.append_nil,
          List.reverse_cons, List.nil_append]
        rw [ensureNL_eq]
        simp [CliSpec.normalise]
      · rw [ensureNL_append _ _ (by simp), ensureNL_cons _ _ hr, ← this]
        simp [CliSpec.normalise]
    · rw [ih (c :: cur) ?_]
      · simp
      · rename_i hne
        intro hm
        rcases List.mem_cons.mp hm with h | h
        · rw [← h] at hne; simp at hne
        · exact hc h

theorem rawLines_no_nl (input : Bytes) : ∀ l ∈ rawLines input, (10 : UInt8) ∉ l :=
  splitLines_no_nl input [] (by simp)

theorem rawLines_join (input : Bytes) : CliSpec.normalise (rawLines input) = ensureNL input := by
  have := splitLines_join input [] (by simp)
  simpa [rawLines] using this

/-! ### the length check -/

theorem takeWhile_all {α} (p : α → Bool) (l : List α) (h : ∀ x ∈ l, p x = true) :
    l.takeWhile p = l := by
  induction l with
  | nil => rfl
  | cons a l ih =>
    rw [List.takeWhile_cons, h a (by simp), if_pos rfl,
      ih (fun x hx => h x (List.mem_cons_of_mem _ hx))]

theorem takeWhile_split {α} (p : α → Bool) (l : List α) :
    (∀ x ∈ l, p x = true) ∨
      ∃ pre x rest, l = pre ++ x :: rest ∧ l.takeWhile p = pre ∧ (∀ y ∈ pre, p y = true) ∧
        p x = false := by
  induction l with
  | nil => left; simp
  | cons a l ih =>
    by_cases ha : p a = true
    · rcases ih with h | ⟨pre, x, rest, h1, h2, h3, h4⟩
      · left
        intro y hy
        rcases List.mem_cons.mp hy with rfl | hy
        · exact ha
        · exact h y hy
      · right
        refine ⟨a :: pre, x, rest, by rw [h1]; rfl, by rw [List.takeWhile_cons, ha, if_pos rfl, h2], ?_, h4⟩
        intro y hy
        rcases List.mem_cons.mp hy with rfl | hy
        · exact ha
        · exact h3 y hy
    · right
      exact ⟨[], a, l, rfl, by simp [ha], by simp, by simpa using ha⟩


theorem bufioLines_go (raw : List Bytes) (acc : List Bytes) :
    bufioLines.go raw acc =
      (acc.reverse ++ (raw.takeWhile fun l => decide (l.length < maxLine)).map dropCR,
        raw.any fun l => decide (maxLine ≤ l.length)) := by
  induction raw generalizing acc with
  | nil => simp [bufioLines.go]
  | cons l ls ih =>
    simp only [bufioLines.go]
    by_cases h : l.length ≥ maxLine
    · have h' : ¬ l.length < maxLine := by omega
      simp [h, h']
    · have h' : l.length < maxLine := by omega
      simp only [h, if_false, ih, List.reverse_cons, List.append_assoc, List.singleton_append,
        List.takeWhile_cons, h', decide_true, if_true, List.map_cons, List.any_cons]
      have : ¬ maxLine ≤ l.length := by omega
      simp

theorem bufioLines_eq (input : Bytes) :
    bufioLines input =
      (((rawLines input).takeWhile fun l => decide (l.length < maxLine)).map dropCR,
        (rawLines input).any fun l => decide (maxLine ≤ l.length)) := by
  unfold bufioLines
  simp only [bufioLines_go]
  rfl

open Pql.CliSpec in
/-- the cut at '\n' is determined by the text: '\n'-free lines with the same terminated join
    are the same lines -/
theorem normalise_inj (ls ls' : List Bytes) (h : ∀ l ∈ ls, (10 : UInt8) ∉ l)
    (h' : ∀ l ∈ ls', (10 : UInt8) ∉ l) (he : normalise ls = normalise ls') : ls = ls' := by
  have key : ∀ (l l' a a' : Bytes), (10 : UInt8) ∉ l → (10 : UInt8) ∉ l' →
      l ++ 10 :: a = l' ++ 10 :: a' → l = l' ∧ a = a' := by
    intro l
    induction l with
    | nil =>
      intro l' a a' _ h2 e
      cases l' with
      | nil => simpa using e
      | cons c l' =>
        simp only [List.nil_append, List.cons_append, List.cons.injEq] at e
        exact absurd (by simp [← e.1]) h2
    | cons c l ih =>
      intro l' a a' h1 h2 e
      cases l' with
      | nil =>
        simp only [List.nil_append, List.cons_append, List.cons.injEq] at e
        exact absurd (by simp [e.1]) h1
      | cons c' l' =>
        simp only [List.cons_append, List.cons.injEq] at e
        obtain ⟨r1, r2⟩ := ih l' a a' (fun hm => h1 (List.mem_cons_of_mem _ hm))
          (fun hm => h2 (List.mem_cons_of_mem _ hm)) e.2
        exact ⟨by rw [e.1, r1], r2⟩
  induction ls generalizing ls' with
  | nil =>
    cases ls' with
    | nil => rfl
    | cons l' ls' => simp [normalise] at he
  | cons l ls ih =>
    cases ls' with
    | nil => simp [normalise] at he
    | cons l' ls' =>
      simp only [normalise, List.flatMap_cons, List.append_assoc, List.singleton_append] at he
      obtain ⟨r1, r2⟩ := key l l' _ _ (h l (by simp)) (h' l' (by simp)) he
      rw [r1, ih ls' (fun x hx => h x (List.mem_cons_of_mem _ hx))
        (fun x hx => h' x (List.mem_cons_of_mem _ hx)) r2]

open Pql.CliSpec in
/-- a non-empty input without '\n' is one line -/
theorem rawLines_one_line (x : Bytes) (hx : x ≠ []) (h : (10 : UInt8) ∉ x) : rawLines x = [x] := by
  apply normalise_inj _ _ (rawLines_no_nl x) (by simpa using h)
  rw [rawLines_join, ensureNL_no_nl x hx h]
  simp [normalise]

end Pql.CliIO
