/-
Parameters, part 3: the subquery splitter commutes with filling holes.  A subquery's `source` can hold
parameter chunks (the join condition is part of the source), so holes are filled there too
(`bindS`).
-/
import PqlModel.Lemmas.ParamsBindExpr
namespace Pql.Params
open Pql

/-- fill the holes in a subquery's source -/
def bindS (σ : Bytes → List Chunk) (sub : Subquery) : Subquery := { sub with source := bindRaw σ sub.source }

section
variable (σ : Bytes → List Chunk)

theorem getLast?_bindS (dst : List Subquery) : (dst.map (bindS σ)).getLast? = dst.getLast?.map (bindS σ) :=
  List.getLast?_map

theorem chainSubquery_bind (dst : List Subquery) (ds : Nat) (source : Option Ident) :
    chainSubquery (dst.map (bindS σ)) ds source = bindS σ (chainSubquery dst ds source) := by
  unfold chainSubquery
  simp only [List.length_map, getLast?_bindS]
  split
  · cases dst.getLast? <;> rfl
  · rfl

theorem lastOf_bind (dst : List Subquery) (ds : Nat) :
    lastOf (dst.map (bindS σ)) ds = (lastOf dst ds).map (bindS σ) := by
  unfold lastOf
  simp only [List.length_map, getLast?_bindS]
  split <;> rfl

theorem setLast_bind (dst : List Subquery) (f : Subquery → Subquery)
    (hf : ∀ s, f (bindS σ s) = bindS σ (f s)) :
    setLast (dst.map (bindS σ)) f = (setLast dst f).map (bindS σ) := by
  unfold setLast
  rw [← List.map_reverse]
  cases dst.reverse with
  | nil => rfl
  | cons s rest => simp only [List.map_cons, hf, List.map_reverse, List.reverse_cons, List.map_append, List.map_nil]

theorem ite_chain_bind (c : Bool) (dst : List Subquery) (ds : Nat) (source : Option Ident) :
    (if c = true then dst.map (bindS σ) else dst.map (bindS σ) ++ [chainSubquery (dst.map (bindS σ)) ds source]) =
      (if c = true then dst else dst ++ [chainSubquery dst ds source]).map (bindS σ) := by
  cases c <;> simp [chainSubquery_bind]

theorem sortStep_bind (c : Bool) (dst : List Subquery) (ds : Nat) (source : Option Ident) (f : Subquery → Subquery)
    (hf : ∀ s, f (bindS σ s) = bindS σ (f s)) :
    setLast (if c = true then dst.map (bindS σ) else dst.map (bindS σ) ++ [chainSubquery (dst.map (bindS σ)) ds source]) f =
      (setLast (if c = true then dst else dst ++ [chainSubquery dst ds source]) f).map (bindS σ) := by
  rw [ite_chain_bind, setLast_bind σ _ f hf]

/-- the `attach` decisions look at `op`, `sort`, `take` of the last subquery only -/
theorem attach_bind (last : Option Subquery) (k : Subquery → Bool) (hk : ∀ s, k (bindS σ s) = k s) :
    (match last.map (bindS σ) with | some l => k l | none => false) =
      (match last with | some l => k l | none => false) := by
  cases last with
  | none => rfl
  | some l => exact hk l

end

theorem exbind_map {α β γ : Type} (f : α → β) (r : Except WErr α) (k : β → Except WErr γ) :
    (r.map f >>= k) = (r >>= fun a => k (f a)) := by cases r <;> rfl

theorem exmap_bind' {α β γ : Type} (g : β → γ) (r : Except WErr α) (k : α → Except WErr β) :
    (r >>= k).map g = (r >>= fun a => (k a).map g) := by cases r <;> rfl

theorem exbind_congr {α β : Type} (r : Except WErr α) (k k' : α → Except WErr β) (h : ∀ a, k a = k' a) :
    (r >>= k) = (r >>= k') := by
  have : k = k' := funext h
  rw [this]

mutual
theorem splitQueries_bind (σ : Bytes → List Chunk) (src : Bytes) (sc : Scope) :
    (t : Tabular) → (dst : List Subquery) →
      splitQueries src (bindScope σ sc) (dst.map (bindS σ)) t = (splitQueries src sc dst t).map (List.map (bindS σ))
  | .nil, dst => by simp only [splitQueries]; rfl
  | .mk source ops, dst => by
    simp only [splitQueries, List.length_map, splitOps_bind σ src sc ops source dst.length dst]
    rw [exbind_map, exmap_bind']
    apply exbind_congr
    intro d
    simp only [List.length_map]
    split
    · simp [pure, Except.pure, exmap_ok, chainSubquery_bind]
    · rfl

theorem splitOps_bind (σ : Bytes → List Chunk) (src : Bytes) (sc : Scope) :
    (ops : OpList) → (source : Option Ident) → (ds : Nat) → (dst : List Subquery) →
      splitOps src (bindScope σ sc) source ds (dst.map (bindS σ)) ops =
        (splitOps src sc source ds dst ops).map (List.map (bindS σ))
  | .nil, source, ds, dst => by simp only [splitOps]; rfl
  | .cons (.as_ a b name) rest, source, ds, dst => by
    simp only [splitOps]
    rw [← splitOps_bind σ src sc rest source ds]
    simp only [List.map_append, List.map_cons, List.map_nil, chainSubquery_bind]
    rfl
  | .cons (.count a b) rest, source, ds, dst => by
    simp only [splitOps]
    rw [← splitOps_bind σ src sc rest source ds]
    simp only [List.map_append, List.map_cons, List.map_nil, chainSubquery_bind]
    rfl
  | .cons (.where_ a b c) rest, source, ds, dst => by
    simp only [splitOps]
    rw [← splitOps_bind σ src sc rest source ds]
    simp only [List.map_append, List.map_cons, List.map_nil, chainSubquery_bind]
    rfl
  | .cons (.project a b c) rest, source, ds, dst => by
    simp only [splitOps]
    rw [← splitOps_bind σ src sc rest source ds]
    simp only [List.map_append, List.map_cons, List.map_nil, chainSubquery_bind]
    rfl
  | .cons (.extend a b c) rest, source, ds, dst => by
    simp only [splitOps]
    rw [← splitOps_bind σ src sc rest source ds]
    simp only [List.map_append, List.map_cons, List.map_nil, chainSubquery_bind]
    rfl
  | .cons (.summarize a b c d e) rest, source, ds, dst => by
    simp only [splitOps]
    rw [← splitOps_bind σ src sc rest source ds]
    simp only [List.map_append, List.map_cons, List.map_nil, chainSubquery_bind]
    rfl
  | .cons (.render a b c d e f g) rest, source, ds, dst => by
    simp only [splitOps]
    rw [← splitOps_bind σ src sc rest source ds]
    simp only [List.map_append, List.map_cons, List.map_nil, chainSubquery_bind]
    rfl
  | .cons (.sort _ _ terms) rest, source, ds, dst => by
    simp only [splitOps, lastOf_bind]
    rw [← splitOps_bind σ src sc rest source ds]
    cases lastOf dst ds <;> simp only [Option.map_some, Option.map_none, bindS] <;> congr 1 <;>
      exact sortStep_bind σ _ dst ds source _ (fun _ => rfl)
  | .cons (.take _ _ n) rest, source, ds, dst => by
    simp only [splitOps, lastOf_bind]
    rw [← splitOps_bind σ src sc rest source ds]
    cases lastOf dst ds <;> simp only [Option.map_some, Option.map_none, bindS] <;> congr 1 <;>
      exact sortStep_bind σ _ dst ds source _ (fun _ => rfl)
  | .cons (.top _ _ n _ col) rest, source, ds, dst => by
    simp only [splitOps, lastOf_bind]
    cases col with
    | none => rfl
    | some c =>
      simp only
      rw [← splitOps_bind σ src sc rest source ds]
      cases lastOf dst ds <;> simp only [Option.map_some, Option.map_none, bindS] <;> congr 1 <;>
        exact sortStep_bind σ _ dst ds source _ (fun _ => rfl)
  | .cons (.join _ _ _ _ flavor _ right _ _ conds) rest, source, ds, dst => by
    simp only [splitOps, splitQueries_bind σ src sc right dst, writeExpr_bind, List.length_map]
    rw [exbind_map, exmap_bind']
    apply exbind_congr
    intro d
    simp only [List.length_map, getLast?_bindS, List.getElem?_map]
    generalize d[((dst.length : Int) - 1).toNat]? = o
    cases d.getLast? <;> cases o <;> simp only [Option.map_some, Option.map_none, bindS] <;> (
      split
      · rfl
      · rw [exbind_map, exmap_bind']
        apply exbind_congr
        intro cond
        rw [← splitOps_bind σ src sc rest source ds]
        congr 1
        simp [bindS, apply_ite (bindRaw σ)])
end

end Pql.Params
