/-
No internal placeholder, part 1: the expression writer.

`hasOpen b` says that the two bytes `/*` occur in `b`; a chunk is *comment-free* (`cf`) when it is
not a fixed text containing `/*` (names, strings, numbers, function names and raw parameter text
are not fixed texts of the writer), `CF` is the same for chunk lists.  Every placeholder the model
can write (`NULL /* unhandled … */`, `/* unhandled … unary op */ `,
`SELECT NULL /* unsupported operator */`) is a fixed text containing `/*`.

`phFree e` (decidable, tree level) excludes exactly the four placeholder sites of
`writeExpression`: a nil expression, a literal that is neither a number nor a string, a unary
operator that is not a sign, a binary operator the compiler does not translate.
`writeExpr_cf`: for `phFree` expressions, under a scope whose entries are comment-free, every
chunk list the expression writer returns is comment-free.

The mutual induction is the one of Lemmas/LexStmtSemiExpr.lean (no `;` in a fixed text).
-/
import PqlModel.Lemmas.LexStmtSemiStmt
namespace Pql.WriteInv
open Pql Sql LexRender Pql.C05

/-! ### `/*` in a text -/

/-- the two bytes `/*` occur in the text -/
def hasOpen : Bytes → Bool
  | [] => false
  | a :: r => (a == 47 && r.head? == some 42) || hasOpen r

/-- the chunk is not a fixed text of the writer containing `/*` -/
def cf : Chunk → Bool
  | .txt s => !hasOpen (Bytes.ofString s)
  | _ => true

def CF (cs : List Chunk) : Bool := cs.all cf

/-- **an internal placeholder occurs in the chunk list**: some fixed text contains `/*` -/
def hasPlaceholder (cs : List Chunk) : Bool := cs.any fun c => !cf c

theorem hasPlaceholder_eq (cs : List Chunk) : hasPlaceholder cs = !CF cs := by
  induction cs with
  | nil => rfl
  | cons c cs ih => simp [hasPlaceholder, CF] at ih ⊢; cases cf c <;> simp [ih]

theorem CF_nil : CF [] = true := rfl
theorem CF_cons (c : Chunk) (cs : List Chunk) : CF (c :: cs) = (cf c && CF cs) := by simp [CF]
theorem CF_append (a b : List Chunk) : CF (a ++ b) = (CF a && CF b) := by simp [CF]
theorem CF_paren (b : List Chunk) : CF (parenthesise b) = CF b := by
  have h1 : cf (.txt "(") = true := by decide
  have h2 : cf (.txt ")") = true := by decide
  simp [parenthesise, CF_cons, CF_append, CF_nil, h1, h2]
theorem CF_wrapMaybe (e : Expr) (b : List Chunk) : CF (wrapMaybe e b) = CF b := by
  unfold wrapMaybe; split
  · exact CF_paren b
  · rfl
theorem CF_wrapTight (e : Expr) (b : List Chunk) : CF (wrapTight e b) = CF b := by
  unfold wrapTight; split
  · exact CF_paren b
  · exact CF_wrapMaybe e b

theorem cf_qid (v : Bytes) : cf (.qid v) = true := rfl
theorem cf_qstr (v : Bytes) : cf (.qstr v) = true := rfl
theorem cf_num (v : Bytes) : cf (.num v) = true := rfl
theorem cf_fname (v : Bytes) : cf (.fname v) = true := rfl
theorem cf_raw (v : Bytes) : cf (.raw v) = true := rfl

theorem CF_sepChunks {sep : String} (hs : cf (.txt sep) = true) :
    ∀ (vs : List (List Chunk)), (∀ v ∈ vs, CF v = true) → CF (sepChunks sep vs) = true
  | [], _ => rfl
  | [x], h => by simpa [sepChunks] using h x (by simp)
  | x :: y :: xs, h => by
    rw [sepChunks]
    case x_2 => intro e; cases e
    rw [CF_append, CF_cons, h x (by simp), hs,
      CF_sepChunks hs (y :: xs) (fun v hv => h v (by simp [hv]))]
    rfl

/-- closes `CF (…) = true` goals over a concrete layout, from `CF` facts in the context -/
macro "cf_close" : tactic => `(tactic| (
  simp only [CF_append, CF_cons, CF_nil, CF_wrapMaybe, CF_wrapTight, CF_paren, cf_qid, cf_qstr, cf_num,
    cf_fname, cf_raw, Bool.and_true, Bool.true_and, Bool.and_self, *]
  try decide))

/-! ### the tree predicate -/

/-- the binary operators `writeExpression` translates: the four it treats specially and those of
    the regenerated table `binaryOps` (the same as `Exact.knownBinOp`) -/
def binKnown (op : TokKind) : Bool :=
  op == .eq || op == .ne || op == .cieq || op == .cine || (binaryOpText op).isSome

mutual
/-- no placeholder site of `writeExpression` below the expression: no nil expression, literals
    are numbers or strings, unary operators are signs, binary operators are translated -/
def phFree : Expr → Bool
  | .nil => false
  | .qident _ => true
  | .lit _ k _ => k = .number || k = .string
  | .unary _ op x => (op = .plus || op = .minus) && phFree x
  | .binary x _ op y => binKnown op && (phFree x && phFree y)
  | .inE x _ _ vals _ => phFree x && phFreeList vals
  | .paren _ x _ => phFree x
  | .call _ _ args _ => phFreeList args
  | .index x _ idx _ => phFree x && phFree idx
def phFreeList : ExprList → Bool
  | .nil => true
  | .cons e es => phFree e && phFreeList es
end

/-! ### the expression writer -/

def ScopeCF (scope : List (Bytes × List Chunk)) : Prop := ∀ p ∈ scope, CF p.2 = true

theorem scopeCF_nil : ScopeCF [] := fun _ h => by cases h

/-- parameters are raw SQL text, not fixed texts of the writer -/
theorem scopeCF_params (params : List (Bytes × Bytes)) :
    ScopeCF (params.map fun kv => (kv.1, [Chunk.raw kv.2])) := by
  intro p hp
  obtain ⟨kv, _, rfl⟩ := List.mem_map.mp hp
  rfl

theorem assembleKnown_cf {writer : String} {flag : Bool} (hmem : (writer, flag) ∈ knownPairs)
    (args : List (Expr × List Chunk)) (hargs : ∀ a ∈ args, CF a.2 = true) (cs : List Chunk)
    (h : assembleKnown writer args = .ok cs) : CF cs = true := by
  simp only [knownPairs, List.mem_cons, Prod.mk.injEq, List.not_mem_nil, or_false] at hmem
  rcases hmem with ⟨rfl, rfl⟩ | ⟨rfl, rfl⟩ | ⟨rfl, rfl⟩ | ⟨rfl, rfl⟩ | ⟨rfl, rfl⟩ | ⟨rfl, rfl⟩ |
    ⟨rfl, rfl⟩ | ⟨rfl, rfl⟩ | ⟨rfl, rfl⟩ | ⟨rfl, rfl⟩
  · simp [assembleKnown] at h; subst h; decide
  · simp [assembleKnown] at h
    rcases args with _ | ⟨a, t⟩
    · cases h
    · simp only [Except.ok.injEq] at h; subst h
      have ha := hargs a (by simp)
      cf_close
  · simp [assembleKnown] at h
    rcases args with _ | ⟨a, _ | ⟨b, _ | ⟨c, t⟩⟩⟩ <;> try cases h
    have ha := hargs a (by simp)
    have hb := hargs b (by simp)
    have hc := hargs c (by simp)
    cf_close
  · simp [assembleKnown] at h
    rcases args with _ | ⟨a, t⟩
    · cases h
    · simp only [Except.ok.injEq] at h; subst h
      have ha := hargs a (by simp)
      cf_close
  · simp [assembleKnown] at h
    rcases args with _ | ⟨a, t⟩
    · cases h
    · simp only [Except.ok.injEq] at h; subst h
      have ha := hargs a (by simp)
      cf_close
  · simp [assembleKnown] at h
    rcases args with _ | ⟨a, t⟩
    · cases h
    · simp only [Except.ok.injEq] at h; subst h
      have ha := hargs a (by simp)
      cf_close
  · simp [assembleKnown] at h; subst h; decide
  · simp [assembleKnown] at h
    rcases args with _ | ⟨a, t⟩
    · cases h
    · simp only [Except.ok.injEq] at h; subst h
      refine CF_sepChunks (by decide) _ ?_
      intro v hv
      obtain ⟨x, hx, rfl⟩ := List.mem_map.mp hv
      rw [CF_wrapMaybe]; exact hargs x hx
  · simp [assembleKnown] at h
    rcases args with _ | ⟨a, t⟩
    · cases h
    · simp only [Except.ok.injEq] at h; subst h
      have ha := hargs a (by simp)
      cf_close
  · simp [assembleKnown] at h
    rcases args with _ | ⟨a, t⟩
    · cases h
    · simp only [Except.ok.injEq] at h; subst h
      have ha := hargs a (by simp)
      cf_close

theorem cf_qids (parts : List Ident) : CF (sepChunks "." (parts.map fun p => [Chunk.qid p.name])) = true :=
  CF_sepChunks (by decide) _ (by
    intro v hv
    obtain ⟨p, _, rfl⟩ := List.mem_map.mp hv
    rfl)

mutual

theorem writeExpr_cf (ctx : Ctx) (hscope : ScopeCF ctx.scope) :
    (e : Expr) → phFree e = true → (cs : List Chunk) → writeExpr ctx e = .ok cs → CF cs = true
  | .nil, hok, _, _ => by simp [phFree] at hok
  | .paren _ x _, hok, cs, h => by
    simp only [writeExpr] at h
    simp only [phFree] at hok
    exact writeExpr_cf ctx hscope x hok cs h
  | .qident parts, _, cs, h => by
    rcases writeExpr_qident_scope h with ⟨p, hp, rfl⟩ | ⟨sql, rfl, hm⟩ | rfl
    · exact hscope p hp
    · simp only [List.mem_cons, List.not_mem_nil, or_false] at hm
      rcases hm with rfl | rfl | rfl <;> decide
    · exact cf_qids parts
  | .lit _ k v, hok, cs, h => by
    simp only [writeExpr] at h
    simp only [phFree, Bool.or_eq_true, decide_eq_true_eq] at hok
    split at h
    · cases h; rfl
    · split at h
      · cases h; rfl
      · rename_i h1 h2
        rcases hok with hk | hk
        · exact absurd hk h1
        · exact absurd hk h2
  | .unary _ op x, hok, cs, h => by
    simp only [writeExpr] at h
    simp only [phFree, Bool.and_eq_true, Bool.or_eq_true, decide_eq_true_eq] at hok
    obtain ⟨xs', hx', hcs⟩ := bind_ok h
    obtain ⟨xs, hx, rfl⟩ := map_ok hx'
    have ih := writeExpr_cf ctx hscope x hok.2 xs hx
    cases hcs
    rw [CF_cons, CF_wrapTight, ih]
    rcases hok.1 with rfl | rfl <;> decide
  | .binary x _ op y, hok, cs, h => by
    simp only [writeExpr] at h
    simp only [phFree, Bool.and_eq_true] at hok
    obtain ⟨hop, hokx, hoky⟩ := hok
    have wrapped : ∀ {k : List Chunk → List Chunk → List Chunk},
        (do let xs ← Except.map (wrapMaybe x) (writeExpr ctx x)
            let ys ← Except.map (wrapMaybe y) (writeExpr ctx y)
            pure (k xs ys) : W) = .ok cs →
        ∃ xs ys, CF xs = true ∧ CF ys = true ∧ cs = k xs ys := by
      intro k hh
      obtain ⟨xs', hx', hh⟩ := bind_ok hh
      obtain ⟨ys', hy', hh⟩ := bind_ok hh
      obtain ⟨xs, hx, rfl⟩ := map_ok hx'
      obtain ⟨ys, hy, rfl⟩ := map_ok hy'
      cases hh
      exact ⟨_, _, by rw [CF_wrapMaybe]; exact writeExpr_cf ctx hscope x hokx xs hx,
        by rw [CF_wrapMaybe]; exact writeExpr_cf ctx hscope y hoky ys hy, rfl⟩
    have plain : ∀ {k : List Chunk → List Chunk → List Chunk},
        (do let xs ← writeExpr ctx x
            let ys ← writeExpr ctx y
            pure (k xs ys) : W) = .ok cs →
        ∃ xs ys, CF xs = true ∧ CF ys = true ∧ cs = k xs ys := by
      intro k hh
      obtain ⟨xs, hx, hh⟩ := bind_ok hh
      obtain ⟨ys, hy, hh⟩ := bind_ok hh
      cases hh
      exact ⟨_, _, writeExpr_cf ctx hscope x hokx xs hx, writeExpr_cf ctx hscope y hoky ys hy, rfl⟩
    by_cases h1 : op = .eq
    · rw [if_pos h1] at h
      split at h
      · obtain ⟨xs, ys, hx, hy, rfl⟩ := wrapped (k := fun xs ys => xs ++ Chunk.txt " = " :: ys) h
        cf_close
      · obtain ⟨xs, ys, hx, hy, rfl⟩ := wrapped
          (k := fun xs ys => Chunk.txt "coalesce(" :: xs ++ Chunk.txt " = " :: ys ++ [Chunk.txt ", FALSE)"]) h
        cf_close
    rw [if_neg h1] at h
    by_cases h2 : op = .ne
    · rw [if_pos h2] at h
      obtain ⟨xs, ys, hx, hy, rfl⟩ := wrapped
        (k := fun xs ys => Chunk.txt "coalesce(" :: xs ++ Chunk.txt " <> " :: ys ++ [Chunk.txt ", FALSE)"]) h
      cf_close
    rw [if_neg h2] at h
    by_cases h3 : op = .cieq
    · rw [if_pos h3] at h
      obtain ⟨xs, ys, hx, hy, rfl⟩ := plain
        (k := fun xs ys => Chunk.txt "lower(" :: xs ++ Chunk.txt ") = lower(" :: ys ++ [Chunk.txt ")"]) h
      cf_close
    rw [if_neg h3] at h
    by_cases h4 : op = .cine
    · rw [if_pos h4] at h
      obtain ⟨xs, ys, hx, hy, rfl⟩ := plain
        (k := fun xs ys => Chunk.txt "lower(" :: xs ++ Chunk.txt ") <> lower(" :: ys ++ [Chunk.txt ")"]) h
      cf_close
    rw [if_neg h4] at h
    cases hb : binaryOpText op with
    | none =>
      simp [binKnown, h1, h2, h3, h4, hb] at hop
    | some sql =>
      rw [hb] at h
      obtain ⟨xs, ys, hx, hy, rfl⟩ := wrapped
        (k := fun xs ys => xs ++ Chunk.txt " " :: Chunk.txt sql :: Chunk.txt " " :: ys) h
      have hm := binaryOp_mem hb
      simp only [List.mem_cons, List.not_mem_nil, or_false] at hm
      rcases hm with rfl | rfl | rfl | rfl | rfl | rfl | rfl | rfl | rfl | rfl | rfl <;> cf_close
  | .inE x _ _ vals _, hok, cs, h => by
    simp only [writeExpr] at h
    simp only [phFree, Bool.and_eq_true] at hok
    obtain ⟨xs', hx', h⟩ := bind_ok h
    obtain ⟨vs, hv, h⟩ := bind_ok h
    obtain ⟨xs, hx, rfl⟩ := map_ok hx'
    cases h
    have hx := writeExpr_cf ctx hscope x hok.1 xs hx
    have hvs := CF_sepChunks (sep := ", ") (by decide) vs (writeListMP_cf ctx hscope vals hok.2 vs hv)
    cf_close
  | .index x _ idx _, hok, cs, h => by
    simp only [writeExpr] at h
    simp only [phFree, Bool.and_eq_true] at hok
    obtain ⟨xs', hx', h⟩ := bind_ok h
    obtain ⟨is, hi, h⟩ := bind_ok h
    obtain ⟨xs, hx, rfl⟩ := map_ok hx'
    cases h
    have hx := writeExpr_cf ctx hscope x hok.1 xs hx
    have hi := writeExpr_cf ctx hscope idx hok.2 is hi
    cf_close
  | .call fn _ args _, hok, cs, h => by
    simp only [writeExpr] at h
    simp only [phFree] at hok
    cases hk : knownFunction fn.name with
    | some wf =>
      obtain ⟨writer, flag⟩ := wf
      rw [hk] at h
      dsimp only at h
      split at h
      · cases h
      · obtain ⟨as, has, h⟩ := bind_ok h
        have hall := writeList_cf ctx hscope args hok as has
        exact assembleKnown_cf (known_mem hk) (args.toList.zip as)
          (fun a ha => hall a.2 (List.of_mem_zip (a := a.1) (b := a.2) ha).2) cs h
    | none =>
      rw [hk] at h
      dsimp only at h
      obtain ⟨as, has, h⟩ := bind_ok h
      cases h
      have has' := CF_sepChunks (sep := ", ") (by decide) as (writeList_cf ctx hscope args hok as has)
      cf_close

theorem writeList_cf (ctx : Ctx) (hscope : ScopeCF ctx.scope) :
    (es : ExprList) → phFreeList es = true → (as : List (List Chunk)) → writeList ctx es = .ok as →
      ∀ b ∈ as, CF b = true
  | .nil, _, as, h => by
    simp only [writeList] at h; cases h; simp
  | .cons e es, hok, as, h => by
    simp only [writeList] at h
    simp only [phFreeList, Bool.and_eq_true] at hok
    obtain ⟨x, hx, h⟩ := bind_ok h
    obtain ⟨xs, hxs, h⟩ := bind_ok h
    cases h
    intro b hb
    rcases List.mem_cons.mp hb with rfl | hb
    · exact writeExpr_cf ctx hscope e hok.1 _ hx
    · exact writeList_cf ctx hscope es hok.2 xs hxs b hb

theorem writeListMP_cf (ctx : Ctx) (hscope : ScopeCF ctx.scope) :
    (es : ExprList) → phFreeList es = true → (vs : List (List Chunk)) →
      writeListMaybeParen' ctx es = .ok vs → ∀ b ∈ vs, CF b = true
  | .nil, _, vs, h => by
    simp only [writeListMaybeParen'] at h; cases h; simp
  | .cons e es, hok, vs, h => by
    simp only [writeListMaybeParen'] at h
    simp only [phFreeList, Bool.and_eq_true] at hok
    obtain ⟨x', hx', h⟩ := bind_ok h
    obtain ⟨xs, hxs, h⟩ := bind_ok h
    obtain ⟨x, hx, rfl⟩ := map_ok hx'
    cases h
    intro b hb
    rcases List.mem_cons.mp hb with rfl | hb
    · rw [CF_wrapMaybe]; exact writeExpr_cf ctx hscope e hok.1 _ hx
    · exact writeListMP_cf ctx hscope es hok.2 xs hxs b hb

end

end Pql.WriteInv
