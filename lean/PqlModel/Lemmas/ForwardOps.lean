/-
Stage 2 of property C07 (forward direction), the productions below the operators: sort terms,
columns, column lists, summarize, render properties, row counts.  Everything here is
non-recursive apart from calls to `pExpr`, for which `fwd_all` (stage 1) is used.
-/
import PqlModel.Lemmas.ForwardExpr
import PqlModel.Lemmas.ForwardKinds
import PqlModel.Lemmas.AccountedStmt
namespace Pql
open Grammar

/-- `ts` realises `x` according to the unparse function `f` -/
def RealBy {α : Type} (f : α → Option (List UTok)) (x : α) (ts : List Token) : Prop :=
  ∃ us, f x = some us ∧ accounts true us ts = true ∧ NoLparenComma ts = true

theorem realBy_expr {e : Expr} {ts : List Token} : RealBy unparseExpr e ts ↔ Real e ts := Iff.rfl

/-- stage 1 in the form used here -/
theorem pExpr_real (c : PCtx) (fuel : Nat) {e : Expr} {ts : List Token} (rest : List Token)
    (hok : okExpr e = true) (hr : Real e ts) (hs : StopsAt 0 rest = true)
    (hf : 4 * (ts ++ rest).length + 4 ≤ fuel) : pExpr c fuel (ts ++ rest) = ⟨e, [], rest⟩ :=
  (fwd_all c fuel).expr e ts rest hok hr hs hf

/-- a span field that marks an absent optional part is the null span -/
def canonSpan (s : Span) : Bool := s.isValid || s == Span.null

theorem canonSpan_invalid {s : Span} (hc : canonSpan s = true) (hv : s.isValid = false) : s = Span.null := by
  simpa [canonSpan, hv] using hc

/-! ### keyword tokens -/

theorem tokOk_kwTok_inv {a : String} {as : List String} {sp : Span} {t : Token}
    (h : tokOk (kwTok (a :: as) sp) t = true) :
    t.kind = .ident ∧ t.value ∈ (a :: as).map Bytes.ofString ∧ t.span = sp := by
  simp only [tokOk, tokMatches, posMatches, kwTok, List.map_cons, List.isEmpty_cons, Bool.false_eq_true,
    if_false, Bool.and_eq_true, beq_iff_eq, List.contains_eq_mem, decide_eq_true_eq] at h
  exact ⟨h.1.1.symm, by simpa using h.1.2, span_eq h.2.1 h.2.2⟩

theorem tokOk_kwTok1_inv {a : String} {sp : Span} {t : Token} (h : tokOk (kwTok [a] sp) t = true) :
    isIdentNamed t a = true ∧ t.span = sp := by
  obtain ⟨hk, hv, hs⟩ := tokOk_kwTok_inv h
  simp only [List.map_cons, List.map_nil, List.mem_singleton] at hv
  exact ⟨by simp [isIdentNamed, hk, hv], hs⟩

theorem tokOk_kwPlainStart_inv {a : String} {s : Int} {t : Token}
    (h : tokOk { kwPlain [a] with start := some s } t = true) :
    isIdentNamed t a = true ∧ s = (t.start : Int) := by
  simp only [tokOk, tokMatches, posMatches, kwPlain, List.map_cons, List.map_nil, List.isEmpty_cons,
    Bool.false_eq_true, if_false, Bool.and_eq_true, beq_iff_eq, List.contains_eq_mem, decide_eq_true_eq,
    List.mem_singleton, and_true] at h
  exact ⟨by simp [isIdentNamed, ← h.1.1, h.1.2], h.2⟩

theorem tokOk_kwPlainStop_inv {a : String} {s : Int} {t : Token}
    (h : tokOk { kwPlain [a] with stop := some s } t = true) :
    isIdentNamed t a = true ∧ s = (t.stop : Int) := by
  simp only [tokOk, tokMatches, posMatches, kwPlain, List.map_cons, List.map_nil, List.isEmpty_cons,
    Bool.false_eq_true, if_false, Bool.and_eq_true, beq_iff_eq, List.contains_eq_mem, decide_eq_true_eq,
    List.mem_singleton, true_and] at h
  exact ⟨by simp [isIdentNamed, ← h.1.1, h.1.2], h.2⟩

theorem isIdentNamed_kind {t : Token} {a : String} (h : isIdentNamed t a = true) : t.kind = .ident :=
  (isIdentNamed_iff.1 h).1

/-- an identifier token does not continue an expression -/
theorem stopsAt_ident {t : Token} {r : List Token} (hk : t.kind = .ident) : StopsAt 0 (t :: r) = true := by
  simp only [StopsAt, kindStops, hk]; decide

theorem stopsAt_kind {t : Token} {r : List Token} {k : TokKind} (hk : t.kind = k)
    (h : kindStops 0 k = true := by decide) : StopsAt 0 (t :: r) = true := by
  simp only [StopsAt, hk, h]

/-! ### sort terms -/

def canonSortTerm (t : SortTerm) : Bool := canonSpan t.ascDescSpan && canonSpan t.nullsSpan

/-- the next token is not an identifier spelled as one of `names` -/
def notNamed (names : List String) : List Token → Bool
  | [] => true
  | t :: _ => !(names.any fun n => isIdentNamed t n)

/-- what may follow a sort term -/
def SortStops (rest : List Token) : Bool := StopsAt 0 rest && notNamed ["asc", "desc", "nulls"] rest

/-- the optional direction keyword -/
def DirReal (t : SortTerm) (td : List Token) : Prop :=
  (t.ascDescSpan.isValid = false ∧ td = []) ∨
  (t.ascDescSpan.isValid = true ∧ ∃ d, td = [d] ∧ isIdentNamed d (if t.asc then "asc" else "desc") = true ∧
    d.span = t.ascDescSpan)

/-- the optional `nulls first` / `nulls last` -/
def NullsReal (t : SortTerm) (tn : List Token) : Prop :=
  (t.nullsSpan.isValid = false ∧ tn = []) ∨
  (t.nullsSpan.isValid = true ∧ ∃ n1 n2, tn = [n1, n2] ∧ isIdentNamed n1 "nulls" = true ∧
    isIdentNamed n2 (if t.nullsFirst then "first" else "last") = true ∧
    t.nullsSpan = ⟨n1.start, n2.stop⟩)

theorem sortTerm_real {t : SortTerm} {ts : List Token} (h : RealBy unparseSortTerm t ts) :
    ∃ tx td tn, ts = tx ++ (td ++ tn) ∧ Real t.x tx ∧ DirReal t td ∧ NullsReal t tn := by
  obtain ⟨us, hu, ha, hn⟩ := h
  cases hx : unparseExpr t.x with
  | none => simp [unparseSortTerm, hx] at hu
  | some xs =>
    rw [unparseSortTerm_eq hx] at hu
    simp only [Option.some.injEq] at hu
    subst hu
    rw [List.append_assoc] at ha
    obtain ⟨tx, t2, rfl, h1, h2⟩ := accounts_split ha
    obtain ⟨td, tn, rfl, h3, h4⟩ := accounts_split h2
    refine ⟨tx, td, tn, rfl, ⟨xs, hx, h1, nlc_left hn⟩, ?_, ?_⟩
    · unfold dirOf at h3
      by_cases hv : t.ascDescSpan.isValid = true
      · rw [if_pos hv] at h3
        obtain ⟨d, r, rfl, hd, hr⟩ := accounts_cons_inv rfl h3
        have := accounts_nil_left hr
        subst this
        obtain ⟨h5, h6⟩ := tokOk_kwTok1_inv hd
        exact Or.inr ⟨hv, d, rfl, h5, h6⟩
      · rw [if_neg hv] at h3
        exact Or.inl ⟨by simpa using hv, accounts_nil_left h3⟩
    · unfold nullsOf at h4
      by_cases hv : t.nullsSpan.isValid = true
      · rw [if_pos hv] at h4
        obtain ⟨n1, r, rfl, hd1, hr⟩ := accounts_cons_inv rfl h4
        obtain ⟨n2, r2, rfl, hd2, hr2⟩ := accounts_cons_inv rfl hr
        have := accounts_nil_left hr2
        subst this
        obtain ⟨h5, h6⟩ := tokOk_kwPlainStart_inv hd1
        obtain ⟨h7, h8⟩ := tokOk_kwPlainStop_inv hd2
        refine Or.inr ⟨hv, n1, n2, rfl, h5, h7, ?_⟩
        cases hsp : t.nullsSpan with
        | mk a b => rw [hsp] at h6 h8; simp only at h6 h8; rw [h6, h8]
      · rw [if_neg hv] at h4
        exact Or.inl ⟨by simpa using hv, accounts_nil_left h4⟩

theorem kw_asc_desc : (Bytes.ofString "asc" == Bytes.ofString "desc") = false := by decide
theorem kw_desc_asc : (Bytes.ofString "desc" == Bytes.ofString "asc") = false := by decide
theorem kw_nulls_asc : (Bytes.ofString "nulls" == Bytes.ofString "asc") = false := by decide
theorem kw_nulls_desc : (Bytes.ofString "nulls" == Bytes.ofString "desc") = false := by decide
theorem kw_last_first : (Bytes.ofString "last" == Bytes.ofString "first") = false := by decide

theorem isIdentNamed_other {t : Token} {a b : String} (h : isIdentNamed t a = true)
    (hne : (Bytes.ofString a == Bytes.ofString b) = false) : isIdentNamed t b = false := by
  obtain ⟨hk, hv⟩ := isIdentNamed_iff.1 h
  simp [isIdentNamed, hk, hv, hne]

theorem notNamed_cons {names : List String} {t : Token} {r : List Token} {n : String}
    (h : notNamed names (t :: r) = true) (hn : n ∈ names) : isIdentNamed t n = false := by
  simp only [notNamed, Bool.not_eq_true', List.any_eq_false] at h
  simpa using h n hn

/-- the `nulls` step on what follows a term without a `nulls` clause -/
theorem sortNulls_stop (c : PCtx) (term : SortTerm) (rest : List Token)
    (h : notNamed ["asc", "desc", "nulls"] rest = true) : sortNulls c term rest = ⟨some term, [], rest⟩ := by
  cases rest with
  | nil => rfl
  | cons t r =>
    have := notNamed_cons (n := "nulls") h (by simp)
    simp [sortNulls, this]

theorem sortNulls_clause (c : PCtx) (term : SortTerm) (n1 n2 : Token) (rest : List Token) (b : Bool)
    (h1 : isIdentNamed n1 "nulls" = true) (h2 : isIdentNamed n2 (if b then "first" else "last") = true) :
    sortNulls c term (n1 :: n2 :: rest) =
      ⟨some { term with nullsFirst := b, nullsSpan := ⟨n1.start, n2.stop⟩ }, [], rest⟩ := by
  cases b with
  | true =>
    simp only [if_true] at h2
    simp [sortNulls, h1, h2]
  | false =>
    simp only [Bool.false_eq_true, if_false] at h2
    have := isIdentNamed_other h2 kw_last_first
    simp [sortNulls, h1, h2, this]

theorem pSortTerm_fwd (c : PCtx) (fuel : Nat) (t : SortTerm) (ts rest : List Token)
    (hwf : wfSortTerm t = true) (hcan : canonSortTerm t = true) (hr : RealBy unparseSortTerm t ts)
    (hs : SortStops rest = true) (hf : 4 * (ts ++ rest).length + 4 ≤ fuel) :
    pSortTerm c fuel (ts ++ rest) = ⟨some t, [], rest⟩ := by
  obtain ⟨tx, td, tn, rfl, hx, hd, hnl⟩ := sortTerm_real hr
  simp only [wfSortTerm, Bool.and_eq_true, Bool.or_eq_true, Bool.not_eq_true', beq_iff_eq] at hwf
  obtain ⟨⟨hok, hwa⟩, hwn⟩ := hwf
  simp only [canonSortTerm, Bool.and_eq_true] at hcan
  simp only [SortStops, Bool.and_eq_true] at hs
  obtain ⟨tx', asc, ads, nf, ns⟩ := t
  simp only at hx hd hnl hok hwa hwn hcan
  have hstop : StopsAt 0 (td ++ tn ++ rest) = true := by
    rcases hd with ⟨-, rfl⟩ | ⟨-, d, rfl, hdn, -⟩
    · rcases hnl with ⟨-, rfl⟩ | ⟨-, n1, n2, rfl, hn1, -⟩
      · exact hs.1
      · exact stopsAt_ident (isIdentNamed_kind hn1)
    · exact stopsAt_ident (isIdentNamed_kind hdn)
  have hE := pExpr_real c fuel (td ++ tn ++ rest) hok hx hstop
    (by simp only [List.length_append] at hf ⊢; omega)
  have hlist : tx ++ (td ++ tn) ++ rest = tx ++ (td ++ tn ++ rest) := by simp
  rw [hlist, pSortTerm_eq]
  simp only [hE, ne_eq, not_true_eq_false, if_false]
  rcases hd with ⟨hv, rfl⟩ | ⟨hv, d, rfl, hdn, hds⟩
  · -- no direction keyword
    have hads := canonSpan_invalid hcan.1 hv
    have hasc : asc = false := by simpa [hv] using hwa
    subst hads hasc
    rcases hnl with ⟨hv2, rfl⟩ | ⟨hv2, n1, n2, rfl, hn1, hn2, hsp⟩
    · have hns := canonSpan_invalid hcan.2 hv2
      have hnf : nf = false := by simpa [hv2] using hwn
      subst hns hnf
      simp only [List.nil_append]
      cases rest with
      | nil => simp [sortStep1]
      | cons r0 rr =>
        have h1 := notNamed_cons (n := "asc") hs.2 (by simp)
        have h2 := notNamed_cons (n := "desc") hs.2 (by simp)
        have h3 := notNamed_cons (n := "nulls") hs.2 (by simp)
        simp [sortStep1, h1, h2, h3]
    · have h1 := isIdentNamed_other hn1 kw_nulls_asc
      have h2 := isIdentNamed_other hn1 kw_nulls_desc
      subst hsp
      simp only [List.nil_append, List.cons_append, sortStep1, h1, h2, hn1, Bool.false_eq_true, if_false,
        if_true, Bool.not_true]
      rw [sortNulls_clause c _ n1 n2 rest nf hn1 hn2]
  · -- direction keyword
    subst hds
    have hstep : sortStep1 tx' (d :: (tn ++ rest)) =
        (⟨tx', asc, d.span, asc, .null⟩, tn ++ rest, true) := by
      cases asc with
      | true =>
        simp only [if_true] at hdn
        simp [sortStep1, hdn]
      | false =>
        simp only [Bool.false_eq_true, if_false] at hdn
        have := isIdentNamed_other hdn kw_desc_asc
        simp [sortStep1, hdn, this]
    simp only [List.cons_append, List.nil_append, hstep, Bool.not_true, Bool.false_eq_true, if_false]
    rcases hnl with ⟨hv2, rfl⟩ | ⟨hv2, n1, n2, rfl, hn1, hn2, hsp⟩
    · have hns := canonSpan_invalid hcan.2 hv2
      have hnf : nf = asc := by simpa [hv2] using hwn
      subst hns hnf
      simp only [List.nil_append]
      exact sortNulls_stop c _ rest hs.2
    · subst hsp
      simp only [List.cons_append, List.nil_append]
      rw [sortNulls_clause c _ n1 n2 rest nf hn1 hn2]

/-! ### comma-separated items -/

/-- `, x , x …` -/
def ItemsTail {α : Type} (R : α → List Token → Prop) : List α → List Token → Prop
  | [], ts => ts = []
  | x :: xs, ts => ∃ cm tx tr, ts = cm :: (tx ++ tr) ∧ cm.kind = .comma ∧ R x tx ∧ ItemsTail R xs tr

theorem itemsTail_real {α : Type} {f : α → Option (List UTok)} : ∀ {x : α} {xs : List α} {u : List UTok}
    {uss : List (List UTok)} {ts : List Token}, f x = some u → listM f xs = some uss →
    accounts true (sepBy commaTok (u :: uss)) ts = true → NoLparenComma ts = true →
    ∃ tx tr, ts = tx ++ tr ∧ RealBy f x tx ∧ ItemsTail (RealBy f) xs tr
  | x, [], u, uss, ts, hx, hl, ha, hn => by
    simp only [listM, Option.some.injEq] at hl
    subst hl
    exact ⟨ts, [], by simp, ⟨u, hx, ha, hn⟩, rfl⟩
  | x, y :: ys, u, uss, ts, hx, hl, ha, hn => by
    simp only [listM, Option.bind_eq_bind, Option.pure_def, Option.bind_eq_some_iff, Option.some.injEq] at hl
    obtain ⟨v, hy, vss, hys, rfl⟩ := hl
    rw [sepBy_cons_cons] at ha
    obtain ⟨tx, t2, rfl, h1, h2⟩ := accounts_split ha
    obtain ⟨cm, t3, rfl, hcm, h3⟩ := accounts_cons_inv rfl h2
    obtain ⟨ty, tr, rfl, hry, hrt⟩ := itemsTail_real hy hys h3 (nlc_tail (nlc_right hn))
    exact ⟨tx, cm :: (ty ++ tr), rfl, ⟨u, hx, h1, nlc_left hn⟩, cm, ty, tr, rfl, tokOk_commaTok_inv hcm, hry, hrt⟩

/-- a non-empty item list -/
theorem items_real {α : Type} {f : α → Option (List UTok)} {xs : List α} {uss : List (List UTok)}
    {ts : List Token} (hne : xs ≠ []) (hl : listM f xs = some uss)
    (ha : accounts true (sepBy commaTok uss) ts = true) (hn : NoLparenComma ts = true) :
    ∃ x xs' tx tr, xs = x :: xs' ∧ ts = tx ++ tr ∧ RealBy f x tx ∧ ItemsTail (RealBy f) xs' tr := by
  cases xs with
  | nil => exact absurd rfl hne
  | cons x xs' =>
    simp only [listM, Option.bind_eq_bind, Option.pure_def, Option.bind_eq_some_iff, Option.some.injEq] at hl
    obtain ⟨u, hx, uss', hxs, rfl⟩ := hl
    obtain ⟨tx, tr, rfl, h1, h2⟩ := itemsTail_real hx hxs ha hn
    exact ⟨x, xs', tx, tr, rfl, rfl, h1, h2⟩

theorem itemsTail_length {α : Type} {R : α → List Token → Prop} : ∀ {xs : List α} {ts : List Token},
    ItemsTail R xs ts → xs.length ≤ ts.length
  | [], ts, _ => by simp
  | x :: xs, ts, h => by
    obtain ⟨cm, tx, tr, rfl, -, -, hr⟩ := h
    have := itemsTail_length hr
    simp only [List.length_cons, List.length_append]; omega

/-- a comma follows, or the final `rest` -/
theorem itemsTail_stops {α : Type} {R : α → List Token → Prop} {xs : List α} {tr rest : List Token}
    (h : ItemsTail R xs tr) (hs : StopsAt 0 rest = true) : StopsAt 0 (tr ++ rest) = true := by
  cases xs with
  | nil =>
    have : tr = [] := h
    subst this; exact hs
  | cons x xs =>
    obtain ⟨cm, tx, tr', rfl, hcm, -, -⟩ := h
    exact stopsAt_kind hcm

/-- the next token is not a comma -/
def NotComma : List Token → Bool
  | [] => true
  | t :: _ => t.kind != .comma

theorem notComma_cons {t : Token} {r : List Token} (h : NotComma (t :: r) = true) : t.kind ≠ .comma := by
  simpa [NotComma] using h

/-! ### the term loop of `sort` -/

theorem isIdentNamed_comma {t : Token} {a : String} (hk : t.kind = .comma) : isIdentNamed t a = false := by
  simp [isIdentNamed, hk]

theorem sortStops_items {xs : List SortTerm} {tr rest : List Token}
    (h : ItemsTail (RealBy unparseSortTerm) xs tr) (hs : SortStops rest = true) :
    SortStops (tr ++ rest) = true := by
  cases xs with
  | nil =>
    have : tr = [] := h
    subst this; exact hs
  | cons x xs =>
    obtain ⟨cm, tx, tr', rfl, hcm, -, -⟩ := h
    simp only [SortStops, List.cons_append, Bool.and_eq_true]
    refine ⟨stopsAt_kind hcm, ?_⟩
    simp [notNamed, isIdentNamed_comma hcm]

theorem pSortTerms_fwd (c : PCtx) (fuel : Nat) : ∀ (xs : List SortTerm) (n : Nat) (acc : List SortTerm)
    (x : SortTerm) (tx tr rest : List Token),
    wfSortTerm x = true → canonSortTerm x = true → xs.all wfSortTerm = true → xs.all canonSortTerm = true →
    RealBy unparseSortTerm x tx → ItemsTail (RealBy unparseSortTerm) xs tr → SortStops rest = true →
    NotComma rest = true → xs.length + 1 ≤ n → 4 * (tx ++ tr ++ rest).length + 4 ≤ fuel →
    pSortTerms c fuel n acc (tx ++ tr ++ rest) = ⟨acc ++ x :: xs, [], rest⟩
  | xs, n, acc, x, tx, tr, rest, hwf, hcan, hwfs, hcans, hx, hxs, hs, hnc, hn, hf => by
    obtain ⟨n', rfl⟩ : ∃ n', n = n' + 1 := ⟨n - 1, by omega⟩
    simp only [List.length_append] at hf
    have hT := pSortTerm_fwd c fuel x tx (tr ++ rest) hwf hcan hx (sortStops_items hxs hs)
      (by simp only [List.length_append]; omega)
    rw [List.append_assoc]
    simp only [pSortTerms, hT, ne_eq, not_true_eq_false, if_false]
    cases xs with
    | nil =>
      have : tr = [] := hxs
      subst this
      simp only [List.nil_append]
      cases rest with
      | nil => rfl
      | cons t r =>
        have := notComma_cons hnc
        simp [this]
    | cons y ys =>
      obtain ⟨cm, ty, tr', rfl, hcm, hy, hys⟩ := hxs
      simp only [List.all_cons, Bool.and_eq_true] at hwfs hcans
      simp only [List.length_cons, List.length_append] at hf hn
      have ih := pSortTerms_fwd c fuel ys n' (acc ++ [x]) y ty tr' rest hwfs.1 hcans.1 hwfs.2 hcans.2 hy hys hs
        hnc (by omega) (by simp only [List.length_append]; omega)
      simp only [List.cons_append, hcm, if_true]
      rw [ih]
      simp
termination_by xs => xs.length

/-! ### named columns (`extend`, `summarize`) -/

def canonColumn (col : Column) : Bool := canonSpan col.assign

/-- what may follow a column: nothing that continues an expression, and not `=` -/
def ColStops (rest : List Token) : Bool :=
  StopsAt 0 rest && (match rest with | t :: _ => t.kind != .assign | [] => true)

theorem wfColumn_ok {col : Column} (h : wfColumn col = true) (hne : col.x ≠ .nil) : okExpr col.x = true := by
  obtain ⟨n, a, x⟩ := col
  cases x <;> first | exact absurd rfl hne | exact h

theorem real_ne_nilE {e : Expr} {ts : List Token} (h : Real e ts) : e ≠ .nil := by
  rintro rfl; exact real_nil_false h

theorem column_real {col : Column} {ts : List Token} (h : RealBy (unparseColumn false) col ts)
    (hwf : wfColumn col = true) (hcan : canonColumn col = true) :
    (∃ n tn ta tx, col.name = some n ∧ ts = tn :: ta :: tx ∧ IsIdentTok n tn ∧ ta.kind = .assign ∧
      ta.span = col.assign ∧ Real col.x tx ∧ okExpr col.x = true) ∨
    (col.name = none ∧ col.assign = .null ∧ Real col.x ts ∧ okExpr col.x = true) := by
  obtain ⟨us, hu, ha, hn⟩ := h
  obtain ⟨name, asg, x⟩ := col
  simp only [canonColumn] at hcan
  cases name with
  | some n =>
    simp only [unparseColumn] at hu
    by_cases hv : asg.isValid = true
    · rw [if_pos hv] at hu
      simp only [Option.bind_eq_bind, Option.pure_def, Option.bind_eq_some_iff, Option.some.injEq] at hu
      obtain ⟨xs, hx, rfl⟩ := hu
      obtain ⟨tn, t2, rfl, htn, h2⟩ := accounts_cons_inv (by simp [identTok]) ha
      obtain ⟨ta, tx, rfl, hta, h3⟩ := accounts_cons_inv rfl h2
      obtain ⟨hk, hs⟩ := tokOk_sym_inv hta
      have hrx : Real x tx := ⟨xs, hx, h3, nlc_tail (nlc_tail hn)⟩
      exact Or.inl ⟨n, tn, ta, tx, rfl, rfl, tokOk_identTok_inv htn, hk, hs, hrx,
        wfColumn_ok hwf (real_ne_nilE hrx)⟩
    · rw [if_neg hv] at hu
      simp at hu
  | none =>
    simp only [unparseColumn, Bool.false_or] at hu
    by_cases hv : asg.isValid = true
    · rw [if_pos hv] at hu; simp at hu
    · rw [if_neg hv] at hu
      have hrx : Real x ts := ⟨us, hu, ha, hn⟩
      exact Or.inr ⟨rfl, canonSpan_invalid hcan (by simpa using hv), hrx, wfColumn_ok hwf (real_ne_nilE hrx)⟩

theorem colStops_stops {rest : List Token} (h : ColStops rest = true) : StopsAt 0 rest = true := by
  simp only [ColStops, Bool.and_eq_true] at h; exact h.1

theorem exprKind_not_assign {k : TokKind} (h : exprKind k = true) : k ≠ .assign := by
  rintro rfl; simp [exprKind] at h

theorem pNamedColumn_fwd (c : PCtx) (fuel : Nat) (col : Column) (ts rest : List Token)
    (hwf : wfColumn col = true) (hcan : canonColumn col = true) (hr : RealBy (unparseColumn false) col ts)
    (hs : ColStops rest = true) (hf : 4 * (ts ++ rest).length + 4 ≤ fuel) :
    pNamedColumn c fuel (ts ++ rest) = ⟨col, [], rest⟩ := by
  rcases column_real hr hwf hcan with ⟨n, tn, ta, tx, hname, rfl, htn, hk, hsp, hx, hok⟩ |
    ⟨hname, hasg, hx, hok⟩
  · obtain ⟨name, asg, x⟩ := col
    simp only at hname hsp hx hok
    subst hname hsp
    simp only [List.cons_append, List.length_cons] at hf ⊢
    have hE := pExpr_real c fuel rest hok hx (colStops_stops hs) (by omega)
    simp [pNamedColumn, pIdent_real htn, hk, hE, mkOpaque]
  · obtain ⟨name, asg, x⟩ := col
    simp only at hname hasg hx hok
    subst hname hasg
    have hE := pExpr_real c fuel rest hok hx (colStops_stops hs) hf
    have hkinds := real_kinds x 0 ts hok hx
    cases ts with
    | nil => exact absurd rfl (real_ne_nil x [] hx)
    | cons t0 ts' =>
      simp only [List.cons_append] at hE ⊢
      by_cases hid : t0.kind = .ident ∨ t0.kind = .qident
      · cases hts : ts' ++ rest with
        | nil =>
          rw [hts] at hE
          simp [pNamedColumn, pIdent, hid, hE]
        | cons t2 r =>
          have h2 : t2.kind ≠ .assign := by
            cases ts' with
            | nil =>
              simp only [List.nil_append] at hts
              subst hts
              simp only [ColStops, Bool.and_eq_true, bne_iff_ne] at hs
              exact hs.2
            | cons a b =>
              simp only [List.cons_append, List.cons.injEq] at hts
              obtain ⟨rfl, -⟩ := hts
              exact exprKind_not_assign (hkinds a (by simp))
          rw [hts] at hE
          simp [pNamedColumn, pIdent, hid, hts, h2, hE]
      · simp [pNamedColumn, pIdent, hid, hE]

theorem colStops_items {xs : List Column} {tr rest : List Token} {b : Bool}
    (h : ItemsTail (RealBy (unparseColumn b)) xs tr) (hs : ColStops rest = true) :
    ColStops (tr ++ rest) = true := by
  cases xs with
  | nil =>
    have : tr = [] := h
    subst this; exact hs
  | cons x xs =>
    obtain ⟨cm, tx, tr', rfl, hcm, -, -⟩ := h
    simp only [ColStops, List.cons_append, Bool.and_eq_true]
    exact ⟨stopsAt_kind hcm, by simp [hcm]⟩

theorem pExtendCols_fwd (c : PCtx) (fuel : Nat) : ∀ (xs : List Column) (n : Nat) (acc : List Column)
    (x : Column) (tx tr rest : List Token),
    wfColumn x = true → canonColumn x = true → xs.all wfColumn = true → xs.all canonColumn = true →
    RealBy (unparseColumn false) x tx → ItemsTail (RealBy (unparseColumn false)) xs tr →
    ColStops rest = true → NotComma rest = true → xs.length + 1 ≤ n →
    4 * (tx ++ tr ++ rest).length + 4 ≤ fuel →
    pExtendCols c fuel n acc (tx ++ tr ++ rest) = ⟨acc ++ x :: xs, [], rest⟩
  | xs, n, acc, x, tx, tr, rest, hwf, hcan, hwfs, hcans, hx, hxs, hs, hnc, hn, hf => by
    obtain ⟨n', rfl⟩ : ∃ n', n = n' + 1 := ⟨n - 1, by omega⟩
    simp only [List.length_append] at hf
    have hT := pNamedColumn_fwd c fuel x tx (tr ++ rest) hwf hcan hx (colStops_items hxs hs)
      (by simp only [List.length_append]; omega)
    rw [List.append_assoc]
    simp only [pExtendCols, hT, ne_eq, not_true_eq_false, if_false]
    cases xs with
    | nil =>
      have : tr = [] := hxs
      subst this
      simp only [List.nil_append]
      cases rest with
      | nil => rfl
      | cons t r =>
        have := notComma_cons hnc
        simp [this]
    | cons y ys =>
      obtain ⟨cm, ty, tr', rfl, hcm, hy, hys⟩ := hxs
      simp only [List.all_cons, Bool.and_eq_true] at hwfs hcans
      simp only [List.length_cons, List.length_append] at hf hn
      have ih := pExtendCols_fwd c fuel ys n' (acc ++ [x]) y ty tr' rest hwfs.1 hcans.1 hwfs.2 hcans.2 hy hys hs
        hnc (by omega) (by simp only [List.length_append]; omega)
      simp only [List.cons_append, hcm, if_true]
      rw [ih]
      simp
termination_by xs => xs.length

theorem pGroupByCols_fwd (c : PCtx) (fuel : Nat) : ∀ (xs : List Column) (n : Nat) (acc : List Column)
    (x : Column) (tx tr rest : List Token),
    wfColumn x = true → canonColumn x = true → xs.all wfColumn = true → xs.all canonColumn = true →
    RealBy (unparseColumn false) x tx → ItemsTail (RealBy (unparseColumn false)) xs tr →
    ColStops rest = true → NotComma rest = true → xs.length + 1 ≤ n →
    4 * (tx ++ tr ++ rest).length + 4 ≤ fuel →
    pGroupByCols c fuel n acc (tx ++ tr ++ rest) = ⟨acc ++ x :: xs, [], rest⟩
  | xs, n, acc, x, tx, tr, rest, hwf, hcan, hwfs, hcans, hx, hxs, hs, hnc, hn, hf => by
    obtain ⟨n', rfl⟩ : ∃ n', n = n' + 1 := ⟨n - 1, by omega⟩
    simp only [List.length_append] at hf
    have hT := pNamedColumn_fwd c fuel x tx (tr ++ rest) hwf hcan hx (colStops_items hxs hs)
      (by simp only [List.length_append]; omega)
    rw [List.append_assoc]
    simp only [pGroupByCols, hT, isNF_nil, Bool.false_eq_true, ne_eq, not_true_eq_false, if_false]
    cases xs with
    | nil =>
      have : tr = [] := hxs
      subst this
      simp only [List.nil_append]
      cases rest with
      | nil => rfl
      | cons t r =>
        have := notComma_cons hnc
        simp [this]
    | cons y ys =>
      obtain ⟨cm, ty, tr', rfl, hcm, hy, hys⟩ := hxs
      simp only [List.all_cons, Bool.and_eq_true] at hwfs hcans
      simp only [List.length_cons, List.length_append] at hf hn
      have ih := pGroupByCols_fwd c fuel ys n' (acc ++ [x]) y ty tr' rest hwfs.1 hcans.1 hwfs.2 hcans.2 hy hys hs
        hnc (by omega) (by simp only [List.length_append]; omega)
      simp only [List.cons_append, hcm, if_true]
      rw [ih]
      simp
termination_by xs => xs.length

/-! ### `project` columns -/

theorem projColumn_real {col : Column} {ts : List Token} (h : RealBy (unparseColumn true) col ts)
    (hwf : wfColumn col = true) (hcan : canonColumn col = true) :
    (∃ n tn ta tx, col.name = some n ∧ ts = tn :: ta :: tx ∧ IsIdentTok n tn ∧ ta.kind = .assign ∧
      ta.span = col.assign ∧ Real col.x tx ∧ okExpr col.x = true) ∨
    (∃ n tn, col = ⟨some n, .null, .nil⟩ ∧ ts = [tn] ∧ IsIdentTok n tn) := by
  obtain ⟨us, hu, ha, hn⟩ := h
  obtain ⟨name, asg, x⟩ := col
  simp only [canonColumn] at hcan
  cases name with
  | some n =>
    simp only [unparseColumn] at hu
    by_cases hv : asg.isValid = true
    · rw [if_pos hv] at hu
      simp only [Option.bind_eq_bind, Option.pure_def, Option.bind_eq_some_iff, Option.some.injEq] at hu
      obtain ⟨xs, hx, rfl⟩ := hu
      obtain ⟨tn, t2, rfl, htn, h2⟩ := accounts_cons_inv (by simp [identTok]) ha
      obtain ⟨ta, tx, rfl, hta, h3⟩ := accounts_cons_inv rfl h2
      obtain ⟨hk, hs⟩ := tokOk_sym_inv hta
      have hrx : Real x tx := ⟨xs, hx, h3, nlc_tail (nlc_tail hn)⟩
      exact Or.inl ⟨n, tn, ta, tx, rfl, rfl, tokOk_identTok_inv htn, hk, hs, hrx,
        wfColumn_ok hwf (real_ne_nilE hrx)⟩
    · rw [if_neg hv] at hu
      simp only [if_true] at hu
      have hasg := canonSpan_invalid hcan (by simpa using hv)
      subst hasg
      cases x <;> simp only [reduceCtorEq, Option.some.injEq] at hu
      subst hu
      obtain ⟨tn, t2, rfl, htn, h2⟩ := accounts_cons_inv (by simp [identTok]) ha
      have := accounts_nil_left h2
      subst this
      exact Or.inr ⟨n, tn, rfl, rfl, tokOk_identTok_inv htn⟩
  | none => simp [unparseColumn] at hu

theorem pProjectCols_fwd (c : PCtx) (fuel : Nat) : ∀ (xs : List Column) (n : Nat) (acc : List Column)
    (x : Column) (tx tr : List Token),
    wfColumn x = true → canonColumn x = true → xs.all wfColumn = true → xs.all canonColumn = true →
    RealBy (unparseColumn true) x tx → ItemsTail (RealBy (unparseColumn true)) xs tr →
    xs.length + 1 ≤ n → 4 * (tx ++ tr).length + 4 ≤ fuel →
    pProjectCols c fuel n acc (tx ++ tr) = ⟨acc ++ x :: xs, [], []⟩
  | xs, n, acc, x, tx, tr, hwf, hcan, hwfs, hcans, hx, hxs, hn, hf => by
    obtain ⟨n', rfl⟩ : ∃ n', n = n' + 1 := ⟨n - 1, by omega⟩
    simp only [List.length_append] at hf
    rcases projColumn_real hx hwf hcan with ⟨nm, tn, ta, tx', hname, rfl, htn, hk, hsp, hrx, hok⟩ |
      ⟨nm, tn, rfl, rfl, htn⟩
    · -- name = expression
      obtain ⟨name, asg, xe⟩ := x
      simp only at hname hsp hrx hok
      subst hname hsp
      have hnc : ta.kind ≠ .comma := by rw [hk]; decide
      simp only [List.cons_append, List.length_cons] at hf ⊢
      have hstop : StopsAt 0 tr = true := by
        have := itemsTail_stops (rest := []) hxs rfl
        simpa using this
      have hE : pExpr c fuel (tx' ++ tr) = ⟨xe, [], tr⟩ := pExpr_real c fuel tr hok hrx hstop
        (by simp only [List.length_append]; omega)
      simp only [pProjectCols, pIdent_real htn, hnc, if_false, hk, if_true, hE, ne_eq, not_true_eq_false]
      cases xs with
      | nil =>
        have : tr = [] := hxs
        subst this
        simp
      | cons y ys =>
        obtain ⟨cm, ty, tr', rfl, hcm, hy, hys⟩ := hxs
        simp only [List.all_cons, Bool.and_eq_true] at hwfs hcans
        simp only [List.length_cons, List.length_append] at hf hn
        have ih := pProjectCols_fwd c fuel ys n' (acc ++ [⟨some nm, ta.span, xe⟩]) y ty tr' hwfs.1 hcans.1
          hwfs.2 hcans.2 hy hys (by omega) (by simp only [List.length_append]; omega)
        simp only [hcm, if_true, ih]
        simp
    · -- plain name
      simp only [List.cons_append, List.nil_append, List.length_cons, List.length_nil] at hf ⊢
      simp only [pProjectCols, pIdent_real htn]
      cases xs with
      | nil =>
        have : tr = [] := hxs
        subst this
        simp
      | cons y ys =>
        obtain ⟨cm, ty, tr', rfl, hcm, hy, hys⟩ := hxs
        simp only [List.all_cons, Bool.and_eq_true] at hwfs hcans
        simp only [List.length_cons, List.length_append] at hf hn
        have ih := pProjectCols_fwd c fuel ys n' (acc ++ [⟨some nm, .null, .nil⟩]) y ty tr' hwfs.1 hcans.1
          hwfs.2 hcans.2 hy hys (by omega) (by simp only [List.length_append]; omega)
        simp only [hcm, if_true, ih]
        simp
termination_by xs => xs.length

/-! ### row counts -/

theorem pRowCount_fwd (c : PCtx) (fuel : Nat) (n : Expr) (ts rest : List Token) (hok : okExpr n = true)
    (hint : isIntegerLit n = true) (hr : Real n ts) (hs : StopsAt 0 rest = true)
    (hf : 4 * (ts ++ rest).length + 4 ≤ fuel) : pRowCount c fuel (ts ++ rest) = ⟨n, [], rest⟩ := by
  have hE := pExpr_real c fuel rest hok hr hs hf
  simp only [pRowCount, hE, ne_eq, not_true_eq_false, if_false]
  cases n with
  | lit sp k v =>
    simp only [isIntegerLit, Bool.and_eq_true, beq_iff_eq, Bool.not_eq_true'] at hint
    have : litIsInteger k v = true := by
      simp [litIsInteger, litIsFloat, hint.1, hint.2]
    simp [this]
  | nil => rfl
  | qident _ => rfl
  | unary _ _ _ => rfl
  | binary _ _ _ _ => rfl
  | inE _ _ _ _ _ => rfl
  | paren _ _ _ => rfl
  | call _ _ _ _ => rfl
  | index _ _ _ _ => rfl

end Pql
