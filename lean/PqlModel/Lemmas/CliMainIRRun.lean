/-
Helpers for Props/C16MainIR.lean: the expected statement trees of `main`, of the function literal `RunE` and of the
`logError` literal (cmd/pql/main.go, regenerated as `Facts.cliMainIR`), and the interpretation of the `RunE` tree
(Model/CliMainIR.lean) computed phase by phase.

`interpRunE_eq`: for EVERY system (`compile`, file system, `Close` failures, fuel, scanner bound), argument list, `-o` value and
standard-input script the interpretation of the regenerated closure is the hand-written `StreamIR.runE` of
Lemmas/CliStreamIRMain.lean followed by `afterRunE` — the bookkeeping `runE` does not do (`output.Close()` and its error,
where the output went, the `pql:` lines of the `logError` literal).  No hypothesis is needed: errors (`panic`, `stuck`, `fuel`)
are the same on both sides.  The proof runs the tree statement by statement (`rest_eq`, `run_tail`), the callees being
characterised by the theorems about THEIR regenerated bodies (`makeInput_phase`, `miSpec_shape`, `C16_makeOutput_ir`,
`close_run`, `interpRun_eq`).

`interpMain_eq`: the interpretation of the regenerated `main` — cobra calling the regenerated `RunE` — is `runE` followed by
`afterRunE` and `mainEnd` (the `if err != nil { Fprintf; os.Exit(1) }` tail); `interpMain_unknown_flag`: a flag that is not
defined.  `mainEnd_fields`: the final world field by field.
-/
import PqlModel.Model.CliMainIR
namespace Pql.MainIR
open Pql Pql.CliIO Pql.CliMainIR
open Pql.CliIOIR (Val GoErr RC WC State Env M IErr runUnit world0 closeObj stuck goPanic valEq nilLike nilAs)
set_option linter.unusedSimpArgs false

/-! ### the expected trees -/

def runEBody : List Stmt :=
  [.callFn "makeInput" (.def_ "input") (.set "err") (.var "args"),
   .ite (.ne (.var "err") .nil) [.ret [.var "err"]] [],
   .callFn "makeOutput" (.def_ "output") (.set "err") (.deref "outputPath"),
   .ite (.ne (.var "err") .nil) [.close .blank (.var "input"), .ret [.var "err"]] [],
   .callRun "main.RunE.func1" (.set "err") (.ctxOf "cmd") (.var "output") (.var "input"),
   .scope
     [.close (.def_ "err2") (.var "output"),
      .ite (.eq (.var "err") .nil) [.assign (.set "err") (.var "err2")] []],
   .close .blank (.var "input"),
   .ret [.var "err"]]

def runEFn : FuncIR := ⟨[("cmd", "*cobra.Command"), ("args", "[]string")], [("err", "error")], runEBody⟩

/-- the function literal assigned to `rootCommand.RunE` (cmd/pql/main.go lines 33-52) -/
theorem runE_ir : unitOf "main.RunE" = some runEFn := by rfl

def logFn : FuncIR := ⟨[("err", "error")], [], [.fprintf "stderr" "pql: %v\n" (.var "err")]⟩

/-- the function literal passed to `run` as `logError` (lines 44-46) -/
theorem logError_ir : unitOf "main.RunE.func1" = some logFn := by rfl

def mainBody : List Stmt :=
  [.command "rootCommand",
   .flag "outputPath" "rootCommand" "StringP" "output" "o" "",
   .setRunE "rootCommand" "main.RunE",
   .notifyCtx "ctx" "cancel",
   .execute (.def_ "err") "rootCommand" "ctx",
   .callCancel "cancel",
   .ite (.ne (.var "err") .nil) [.fprintf "stderr" "pql: %v\n" (.var "err"), .exit 1] []]

def mainFn : FuncIR := ⟨[], [], mainBody⟩

/-- `main` (lines 23-61) -/
theorem main_ir : unitOf "main" = some mainFn := by rfl

/-- the command literal: `SilenceErrors` and `SilenceUsage` are true (cobra prints nothing itself) -/
theorem command_ir :
    Facts.cliMainCommand.lookup "SilenceErrors" = some "true" ∧ Facts.cliMainCommand.lookup "SilenceUsage" = some "true" ∧
    Facts.cliMainCommand.map (·.1) = ["Use", "Short", "DisableFlagsInUseLine", "SilenceErrors", "SilenceUsage"] ∧
    commandSilent = true := by decide

/-- the only flag is `--output` / `-o`, a string with the default "" -/
theorem flags_ir : Facts.cliMainFlags = [("outputPath", "StringP", "output", "o", "")] := by rfl

theorem runSignature_ok : runSignatureOK = true := by decide

/-! ### the `logError` literal -/

/-- one call of the literal: one more `pql:` line, nothing else -/
theorem logError_call (sys : Sys) (d : Nat) (e : GoErr) (vars : List (String × MVal)) (st : MState) :
    callAt sys (d + 1) "main.RunE.func1" [.io (.err e)] vars st = .ok (some [], { st with stderr := st.stderr + 1 }) := by
  simp (config := { decide := true }) [callAt, logError_ir, logFn, runClosure, bindParamsM, resultVarsM, execBlock, exec, eval,
    MState.get, bind, Except.bind, pure, Except.pure]

theorem logError_repeat (sys : Sys) (d : Nat) (e : GoErr) (vars : List (String × MVal)) : ∀ (n : Nat) (st : MState),
    repeatCall (callAt sys (d + 1) "main.RunE.func1" [.io (.err e)] vars) n st = .ok (true, { st with stderr := st.stderr + n })
  | 0, st => rfl
  | n + 1, st => by
    simp only [repeatCall, logError_call, bind, Except.bind, logError_repeat sys d e vars n]
    congr 2
    simp only [Nat.add_assoc, Nat.add_comm 1 n]

/-! ### the closure `RunE` -/

/-- where the output goes -/
def destOf (outArg : String) : WC := if outArg = "" ∨ outArg = "-" then .stdoutNop else .file outArg

/-- the error of `output.Close()` -/
def closeErrOf (sys : Sys) : WC → GoErr
  | .stdoutNop => .nil
  | .file p => if sys.outCloseFails p then .other else .nil

/-- the created file `output.Close()` reaches -/
def closedOf : WC → List String
  | .stdoutNop => []
  | .file p => [p]

/-- what `RunE` returns and the world it leaves, in terms of what the hand-written `StreamIR.runE` yields: the bookkeeping
    `runE` does not do — `output.Close()` and its error, where the output went, one `pql:` line per `logError` call -/
def afterRunE (sys : Sys) (outArg : String) (st : MState) : Option CliResult × State → Option (List MVal) × MState
  | (none, w) => (some [.io (.err .other)], { st with io := w, flags := [("output", outArg)] })
  | (some r, w) =>
    (some [.io (.err (if r.exitNonZero then .other else closeErrOf sys (destOf outArg)))],
     { st with io := w, flags := [("output", outArg)], out := st.out ++ r.out, outDest := some (destOf outArg),
               stderr := st.stderr + r.nErrors, outClosed := st.outClosed ++ closedOf (destOf outArg) })

macro "main_simp" : tactic =>
  `(tactic| simp (config := { decide := true }) [*, execBlock, exec, eval, evalCond, evalAll, getAll, assignTo, MState.get, MState.declare,
      MState.assign, MState.leave, assignIn, nilLikeM, nilLike, nilAsM, nilAs, valEq, adopt, stuck, goPanic, bind, Except.bind, pure, Except.pure,
      Except.map])

/-- the frame of `RunE` when its body starts -/
def frame0 (args : List String) : List (String × MVal) :=
  [("err", .io (.err .nil)), ("args", .io (.strs args)), ("cmd", .cmd), ("outputPath", .flagPtr "output"), ("rootCommand", .cmd)]

/-- what `runClosure` makes of the flow the body of `RunE` ends with -/
def finish1 (vars : List (String × MVal)) : Flow × MState → M (Option (List MVal) × MState)
  | (.ret vs, st1) =>
    if vs.length = 1 then .ok (some (List.zipWith nilAsM ["error"] vs), { st1 with vars := vars }) else stuck
  | (.exit, st1) => .ok (none, { st1 with vars := vars })
  | (.next, _) => stuck

theorem interpRunE_unfold (sys : Sys) (outArg : String) (st : MState) :
    interpRunE sys outArg st =
      execBlock sys (callAt sys 1) ["err"] runEBody { st with flags := [("output", outArg)], vars := frame0 sys.args } >>=
        finish1 st.vars := by
  rw [interpRunE, callAt]
  simp only [runE_ir, runEFn, runClosure, bindParamsM, resultVarsM, zeroOfM, capturedByRunE, frame0]
  simp (config := { decide := true }) only [Option.map_some, List.map, List.filter, List.reverse_cons, List.reverse_nil, List.nil_append,
    List.cons_append, List.append_nil, bne_iff_ne, ne_eq, String.reduceEq, not_false_eq_true, decide_true, ↓reduceIte, String.reduceBNe]
  generalize execBlock sys (callAt sys 1) ["err"] runEBody _ = r
  rcases r with e | ⟨f, st1⟩
  · rfl
  · cases f <;> simp [finish1, bind, Except.bind, pure, Except.pure]

def restBody : List Stmt := runEBody.drop 2

/-- `x.Close()` on the value `makeInput` returned, with the error it reports -/
def closeInputE (env : Env) (fuel : Nat) : Val → State → M (GoErr × State)
  | .rc x, w => closeObj env w x
  | .mrcRef, w =>
    match runUnit env fuel "multiReadCloser.Close" [.mrcRef] w with
    | .ok ([.err e], w') => .ok (e, w')
    | .ok _ => stuck
    | .error e => .error e
  | _, _ => stuck

/-- the regenerated `Close` returns one `error` -/
theorem close_shape (env : Env) (fuel : Nat) (w : State) (vs : List Val) (w' : State)
    (h : runUnit env fuel "multiReadCloser.Close" [.mrcRef] w = .ok (vs, w')) : ∃ e, vs = [.err e] := by
  have hA := CliIOIR.close_run env fuel w
  have hu : runUnit env fuel "multiReadCloser.Close" [.mrcRef] w = CliIOIR.runFn env fuel CliIOIR.closeFn [.mrcRef] w := by
    simp only [runUnit, CliIOIR.close_ir]
  rw [← hu, h] at hA
  cases hm : CliIOIR.mrClose env w.readers .nil w with
  | error e => simp [hm, Except.map] at hA
  | ok r =>
    simp only [hm, Except.map, Except.ok.injEq, Prod.mk.injEq] at hA
    exact ⟨r.1, hA.1⟩

theorem closeVal_input (sys : Sys) (st : MState) (input : Val) (h : input = .mrcRef ∨ ∃ x, input = .rc x) :
    closeVal sys st (.io input) = (closeInputE sys.env sys.fuel input st.io).map fun r => (r.1, { st with io := r.2 }) := by
  rcases h with rfl | ⟨x, rfl⟩
  · simp only [closeVal, closeInputE, bind, Except.bind]
    cases hc : runUnit sys.env sys.fuel "multiReadCloser.Close" [.mrcRef] st.io with
    | error e => rfl
    | ok r =>
      obtain ⟨vs, w'⟩ := r
      obtain ⟨e, rfl⟩ := close_shape _ _ _ _ _ hc
      rfl
  · simp only [closeVal, closeInputE, bind, Except.bind]
    cases closeObj sys.env st.io x <;> rfl

theorem closeInput_E' (env : Env) (fuel : Nat) (input : Val) (w : State) (h : input = .mrcRef ∨ ∃ x, input = .rc x) :
    StreamIR.closeInput env fuel input w = (closeInputE env fuel input w).map (·.2) := by
  rcases h with rfl | ⟨x, rfl⟩
  · simp only [StreamIR.closeInput, closeInputE]
    cases hc : runUnit env fuel "multiReadCloser.Close" [.mrcRef] w with
    | error e => rfl
    | ok r =>
      obtain ⟨vs, w'⟩ := r
      obtain ⟨e, rfl⟩ := close_shape _ _ _ _ _ hc
      rfl
  · rfl

def body3 : List Stmt := runEBody.drop 3
def body4 : List Stmt := runEBody.drop 4
def body5 : List Stmt := runEBody.drop 5

theorem restBody_eq : restBody =
    .callFn "makeOutput" (.def_ "output") (.set "err") (.deref "outputPath") :: body3 := rfl
theorem body3_eq : body3 =
    .ite (.ne (.var "err") .nil) [.close .blank (.var "input"), .ret [.var "err"]] [] :: body4 := rfl
theorem body4_eq : body4 =
    .callRun "main.RunE.func1" (.set "err") (.ctxOf "cmd") (.var "output") (.var "input") :: body5 := rfl
theorem body5_eq : body5 =
    [.scope [.close (.def_ "err2") (.var "output"), .ite (.eq (.var "err") .nil) [.assign (.set "err") (.var "err2")] []],
     .close .blank (.var "input"), .ret [.var "err"]] := rfl

/-- `makeOutput`: what it returns, for every world -/
theorem makeOutput_cases (env : Env) (fuel : Nat) (outArg : String) (w : State) :
    ∃ w2, runUnit env fuel "makeOutput" [.str outArg] w =
      .ok (if outArg = "" ∨ outArg = "-" then [.wc (some .stdoutNop), .err .nil]
           else if env.createFails outArg then [.wc none, .err .other] else [.wc (some (.file outArg)), .err .nil], w2) := by
  have h := CliIOIR.C16_makeOutput_ir env fuel outArg w
  by_cases h1 : outArg = "" ∨ outArg = "-"
  · rw [if_pos h1] at h ⊢
    obtain ⟨w2, hr, -⟩ := CliIOIR.map_world_ok _ _ w h
    exact ⟨w2, hr⟩
  · rw [if_neg h1] at h ⊢
    cases hc : env.createFails outArg with
    | true =>
      rw [hc, if_pos rfl] at h
      obtain ⟨w2, hr, -⟩ := CliIOIR.map_world_ok _ _ w h
      exact ⟨w2, by simpa using hr⟩
    | false =>
      rw [hc, if_neg (by simp)] at h
      obtain ⟨w2, hr, -⟩ := CliIOIR.map_world_ok _ _ ({ w with created := w.created ++ [outArg] } : State) h
      exact ⟨w2, by simpa using hr⟩

theorem closeVal_stdout (sys : Sys) (st : MState) : closeVal sys st (.io (.wc (some .stdoutNop))) = .ok (.nil, st) := rfl
theorem closeVal_file (sys : Sys) (st : MState) (p : String) :
    closeVal sys st (.io (.wc (some (.file p)))) =
      .ok (if sys.outCloseFails p then .other else .nil, { st with outClosed := st.outClosed ++ [p] }) := rfl

/-- `RunE` from the call of `run` on, the output being `d` -/
theorem run_tail (sys : Sys) (outArg : String) (st : MState) (input : Val) (w2 : State) (d : WC)
    (h : input = .mrcRef ∨ ∃ x, input = .rc x) (hd : destOf outArg = d) :
    execBlock sys (callAt sys 1) ["err"] body4
        { st with io := w2, flags := [("output", outArg)],
                  vars := ("output", .io (.wc (some d))) :: ("input", .io input) :: frame0 sys.args } >>= finish1 st.vars =
      (do let (bytes, ending, w3) ← StreamIR.drainM (StreamIR.readInput sys.env sys.fuel input) sys.k w2
          let o ← StreamIR.liftRun (CliIR.interpRun (CliIR.modelLib sys.compile) (bufioLines bytes).1
            ((bufioLines bytes).2 || ending != Ending.eof))
          let w4 ← StreamIR.closeInput sys.env sys.fuel input w3
          pure (some o.result, w4)).map (afterRunE sys outArg st) := by
  simp only [body4_eq, frame0]
  main_simp
  generalize StreamIR.drainM (StreamIR.readInput sys.env sys.fuel input) sys.k w2 = r
  rcases r with e | ⟨bytes, ending, w3⟩
  · main_simp
  obtain ⟨o, i1, -⟩ := StreamIR.liftRun_interp sys.compile (bufioLines bytes).1 ((bufioLines bytes).2 || ending != Ending.eof)
  have hlog := logError_repeat sys 0 .other
  simp only [Nat.zero_add] at hlog
  main_simp
  simp only [body5_eq]
  have hci := closeInput_E' sys.env sys.fuel input w3 h
  cases d <;> cases hoe : o.err <;>
  · simp (config := { decide := true }) [closeVal_stdout, closeVal_file, closeVal_input _ _ _ h, hci, hoe, execBlock, exec, eval, evalCond,
      evalAll, getAll, assignTo, MState.get, MState.declare, MState.assign, MState.leave, assignIn, nilLikeM, nilLike, nilAsM, nilAs, valEq,
      adopt, stuck, goPanic, bind, Except.bind, pure, Except.pure, Except.map]
    generalize closeInputE sys.env sys.fuel input w3 = rc
    rcases rc with e | ⟨ce, w4⟩
    · rfl
    · simp (config := { decide := true }) [finish1, afterRunE, hd, closeErrOf, closedOf, CliIR.Outcome.result, hoe, nilAsM, nilAs]

theorem rest_eq (sys : Sys) (outArg : String) (st : MState) (input : Val) (w1 : State)
    (h : input = .mrcRef ∨ ∃ x, input = .rc x) :
    execBlock sys (callAt sys 1) ["err"] restBody
        { st with io := w1, flags := [("output", outArg)], vars := ("input", .io input) :: frame0 sys.args } >>= finish1 st.vars =
      (StreamIR.runRest sys.compile sys.env sys.fuel sys.k outArg input w1).map (afterRunE sys outArg st) := by
  obtain ⟨w2, hmo⟩ := makeOutput_cases sys.env sys.fuel outArg w1
  simp only [restBody_eq, StreamIR.runRest, frame0]
  by_cases h1 : outArg = "" ∨ outArg = "-"
  · rw [if_pos h1] at hmo
    have ht := run_tail sys outArg st input w2 .stdoutNop h (by simp [destOf, h1])
    simp only [frame0] at ht
    main_simp
    simp only [body3_eq]
    main_simp
    simpa [bind, Except.bind, Except.map, pure, Except.pure] using ht
  · rw [if_neg h1] at hmo
    cases hc : sys.env.createFails outArg with
    | false =>
      rw [hc] at hmo
      have ht := run_tail sys outArg st input w2 (.file outArg) h (by simp [destOf, h1])
      simp only [frame0] at ht
      main_simp
      simp only [body3_eq]
      main_simp
      simpa [bind, Except.bind, Except.map, pure, Except.pure] using ht
    | true =>
      rw [hc] at hmo
      have hci := closeInput_E' sys.env sys.fuel input w2 h
      main_simp
      simp only [body3_eq]
      main_simp
      simp only [closeVal_input _ _ _ h]
      generalize closeInputE sys.env sys.fuel input w2 = rc
      rcases rc with e | ⟨ce, w4⟩
      · rfl
      · simp (config := { decide := true }) [finish1, afterRunE, nilAsM, nilAs, Except.map]

theorem runEBody_eq : runEBody =
    .callFn "makeInput" (.def_ "input") (.set "err") (.var "args") ::
    .ite (.ne (.var "err") .nil) [.ret [.var "err"]] [] :: restBody := rfl

/-- **the regenerated closure `RunE`, interpreted, is the hand-written `runE` followed by `afterRunE`** — for every system,
    argument list, `-o` value and standard input; errors (`panic`, `stuck`, `fuel`) included. -/
theorem interpRunE_eq (sys : Sys) (outArg : String) (stdin : Reader) (st : MState) (hio : st.io = world0 stdin) :
    interpRunE sys outArg st =
      (StreamIR.runE sys.compile sys.env sys.fuel sys.k sys.args outArg stdin).map (afterRunE sys outArg st) := by
  obtain ⟨st1, hrun, -⟩ := StreamIR.makeInput_phase sys.env sys.fuel sys.args stdin
  obtain ⟨-, hshape⟩ := StreamIR.miSpec_shape sys.env sys.args stdin
  rw [interpRunE_unfold]
  simp only [runEBody_eq, StreamIR.runE, frame0]
  rcases hshape with ⟨l, hv, -⟩ | ⟨rc, hv, -⟩ | hv
  · rw [hv] at hrun
    have hr := rest_eq sys outArg st .mrcRef { st1 with readers := l } (Or.inl rfl)
    simp only [frame0] at hr
    main_simp
    simpa [StreamIR.bindInput, bind, Except.bind, Except.map, pure, Except.pure] using hr
  · rw [hv] at hrun
    have hr := rest_eq sys outArg st (.rc (some rc)) st1 (Or.inr ⟨_, rfl⟩)
    simp only [frame0] at hr
    main_simp
    simpa [StreamIR.bindInput, bind, Except.bind, Except.map, pure, Except.pure] using hr
  · rw [hv] at hrun
    main_simp
    simp [finish1, afterRunE, nilAsM, nilAs]

/-! ### `main` -/

theorem applyFlags_single : ∀ (sf : List (String × String)) (d : String),
    applyFlags sf [("output", d)] = none ∨ ∃ v, applyFlags sf [("output", d)] = some [("output", v)]
  | [], d => Or.inr ⟨d, rfl⟩
  | (n, v) :: more, d => by
    by_cases hn : n = "output"
    · subst hn
      simpa [applyFlags] using applyFlags_single more v
    · have : ("output" == n) = false := by simpa using fun h => hn h.symm
      exact Or.inl (by simp [applyFlags, this])

/-- cobra's reading of the flags given on the command line: the value of `--output` / `-o` (the last one wins; "" if it is not
    given), `none` if a flag is given that `main` did not define -/
def outArgOf (setFlags : List (String × String)) : Option String :=
  match applyFlags setFlags [("output", "")] with
  | some [(_, v)] => some v
  | _ => none

theorem applyFlags_of_outArg (sf : List (String × String)) (outArg : String) (h : outArgOf sf = some outArg) :
    applyFlags sf [("output", "")] = some [("output", outArg)] := by
  unfold outArgOf at h
  rcases applyFlags_single sf "" with h0 | ⟨v, hv⟩
  · simp [h0] at h
  · rw [hv] at h ⊢
    simp only [Option.some.injEq] at h
    rw [h]

theorem applyFlags_of_none (sf : List (String × String)) (h : outArgOf sf = none) : applyFlags sf [("output", "")] = none := by
  unfold outArgOf at h
  rcases applyFlags_single sf "" with h0 | ⟨v, hv⟩
  · exact h0
  · simp [hv] at h

/-- the world in which `RunE` is called, as far as it lasts: object 0 is `os.Stdin`, the command has its `RunE` -/
def mainBase (stdin : Reader) : MState := { initial stdin with runE := some ("main.RunE", capturedByRunE) }

/-- the tail of `main` (lines 57-60): an error is reported on one more `pql:` line and the status is 1 -/
def mainEnd : Option (List MVal) × MState → MState
  | (some [.io (.err .nil)], st) => st
  | (_, st) => { st with stderr := st.stderr + 1, exit := some 1 }

theorem interpMain_eq (sys : Sys) (stdin : Reader) (outArg : String) (hf : outArgOf sys.setFlags = some outArg) :
    interpMain sys stdin =
      (StreamIR.runE sys.compile sys.env sys.fuel sys.k sys.args outArg stdin).map fun r =>
        mainEnd (afterRunE sys outArg (mainBase stdin) r) := by
  have hfl := applyFlags_of_outArg _ _ hf
  have key := interpRunE_eq sys outArg stdin
    { vars := [("cancel", .cancel), ("ctx", .ctx), ("outputPath", .flagPtr "output"), ("rootCommand", .cmd)], io := world0 stdin,
      flags := [("output", "")], runE := some ("main.RunE", capturedByRunE) } rfl
  simp only [interpRunE, capturedByRunE] at key
  simp only [interpMain, main_ir, mainFn, mainBody, runClosure, bindParamsM, resultVarsM, initial]
  main_simp
  generalize StreamIR.runE sys.compile sys.env sys.fuel sys.k sys.args outArg stdin = R
  rcases R with e | ⟨res, w⟩
  · rfl
  rcases res with _ | r
  · simp (config := { decide := true }) [afterRunE, mainEnd, mainBase, initial, capturedByRunE]
  · cases hx : r.exitNonZero <;> cases hd : closeErrOf sys (destOf outArg) <;>
      simp (config := { decide := true }) [afterRunE, mainEnd, mainBase, initial, capturedByRunE, hx, hd]

/-- a flag that `main` did not define: cobra returns an error without calling `RunE`; one `pql:` line, status 1, nothing is
    opened, read or created -/
theorem interpMain_unknown_flag (sys : Sys) (stdin : Reader) (h : outArgOf sys.setFlags = none) :
    interpMain sys stdin = .ok { mainBase stdin with flags := [("output", "")], stderr := 1, exit := some 1 } := by
  have hfl := applyFlags_of_none _ h
  simp only [interpMain, main_ir, mainFn, mainBody, runClosure, bindParamsM, resultVarsM, initial]
  main_simp
  simp [mainBase, initial, capturedByRunE]

/-- did `RunE` return an error: it returned before `run`, or `run` returned an error, or `output.Close()` did -/
def failed (sys : Sys) (outArg : String) : Option CliResult → Bool
  | none => true
  | some r => r.exitNonZero || closeErrOf sys (destOf outArg) != .nil

/-- the world `main` ends in, field by field -/
theorem mainEnd_fields (sys : Sys) (outArg : String) (st : MState) (res : Option CliResult) (w : State) :
    (mainEnd (afterRunE sys outArg st (res, w))).io = w ∧
    (mainEnd (afterRunE sys outArg st (res, w))).out = st.out ++ (res.map (·.out)).getD [] ∧
    (mainEnd (afterRunE sys outArg st (res, w))).outDest = (match res with | none => st.outDest | some _ => some (destOf outArg)) ∧
    (mainEnd (afterRunE sys outArg st (res, w))).outClosed =
      st.outClosed ++ (match res with | none => [] | some _ => closedOf (destOf outArg)) ∧
    (mainEnd (afterRunE sys outArg st (res, w))).stderr =
      st.stderr + (res.map (·.nErrors)).getD 0 + (if failed sys outArg res then 1 else 0) ∧
    (mainEnd (afterRunE sys outArg st (res, w))).exit = (if failed sys outArg res then some 1 else st.exit) := by
  rcases res with _ | r
  · simp [afterRunE, mainEnd, failed]
  · cases hx : r.exitNonZero <;> cases hd : closeErrOf sys (destOf outArg) <;>
      simp (config := { decide := true }) [afterRunE, mainEnd, failed, hx, hd]

end Pql.MainIR
