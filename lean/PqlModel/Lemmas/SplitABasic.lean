/-
The relation between the subqueries of the model (`Subquery`, source = written SQL chunks) and
the structured links of the intended splitting (`Intended.SubA`, source = `SrcA`), and the list
lemmas the refinement proof (Lemmas/SplitASim.lean) needs.
-/
import PqlModel.Props.C02Split
import PqlModel.Spec.Intended
namespace Pql.C05
open Pql SplitQ Intended

/-- pointwise relation of two lists of equal length (Mathlib's `List.Forall₂`; core has none) -/
inductive Forall₂ {α β : Type} (R : α → β → Prop) : List α → List β → Prop
  | nil : Forall₂ R [] []
  | cons {a : α} {b : β} {l₁ : List α} {l₂ : List β} : R a b → Forall₂ R l₁ l₂ → Forall₂ R (a :: l₁) (b :: l₂)

namespace Forall₂
variable {α β : Type} {R : α → β → Prop}

theorem length_eq {l₁ : List α} {l₂ : List β} (h : Forall₂ R l₁ l₂) : l₁.length = l₂.length := by
  induction h with
  | nil => rfl
  | cons _ _ ih => simp [ih]

theorem append {l₁ l₁' : List α} {l₂ l₂' : List β} (h : Forall₂ R l₁ l₂) (h' : Forall₂ R l₁' l₂') :
    Forall₂ R (l₁ ++ l₁') (l₂ ++ l₂') := by
  induction h with
  | nil => exact h'
  | cons hab _ ih => exact .cons hab ih

theorem snoc {l₁ : List α} {l₂ : List β} {a : α} {b : β} (h : Forall₂ R l₁ l₂) (hab : R a b) :
    Forall₂ R (l₁ ++ [a]) (l₂ ++ [b]) := h.append (.cons hab .nil)

/-- the right list ends with `b`: so does the left one, with a related element -/
theorem snoc_right {l₁ : List α} {init : List β} {b : β} (h : Forall₂ R l₁ (init ++ [b])) :
    ∃ initA a, l₁ = initA ++ [a] ∧ Forall₂ R initA init ∧ R a b := by
  induction init generalizing l₁ with
  | nil =>
    cases h with
    | cons hab ht => cases ht; exact ⟨[], _, rfl, .nil, hab⟩
  | cons x xs ih =>
    cases h with
    | cons hab ht =>
      obtain ⟨initA, a, rfl, hi, ha⟩ := ih ht
      exact ⟨_ :: initA, a, rfl, .cons hab hi, ha⟩

theorem getElem? {l₁ : List α} {l₂ : List β} (h : Forall₂ R l₁ l₂) (i : Nat) :
    (l₁[i]? = none ∧ l₂[i]? = none) ∨ ∃ a b, l₁[i]? = some a ∧ l₂[i]? = some b ∧ R a b := by
  induction h generalizing i with
  | nil => left; simp
  | cons hab _ ih =>
    cases i with
    | zero => right; exact ⟨_, _, rfl, rfl, hab⟩
    | succ i => simpa using ih i

theorem getElem {l₁ : List α} {l₂ : List β} (h : Forall₂ R l₁ l₂) (i : Nat) (h₁ : i < l₁.length)
    (h₂ : i < l₂.length) : R l₁[i] l₂[i] := by
  rcases h.getElem? i with ⟨h, _⟩ | ⟨a, b, ha, hb, hab⟩
  · simp at h; omega
  · rw [List.getElem?_eq_getElem h₁] at ha
    rw [List.getElem?_eq_getElem h₂] at hb
    cases ha; cases hb; exact hab

theorem getLast? {l₁ : List α} {l₂ : List β} (h : Forall₂ R l₁ l₂) :
    (l₁ = [] ∧ l₂ = []) ∨ ∃ i₁ a i₂ b, l₁ = i₁ ++ [a] ∧ l₂ = i₂ ++ [b] ∧ Forall₂ R i₁ i₂ ∧ R a b := by
  rcases List.eq_nil_or_concat l₂ with rfl | ⟨i₂, b, rfl⟩
  · cases h; left; exact ⟨rfl, rfl⟩
  · rw [List.concat_eq_append] at h
    obtain ⟨i₁, a, rfl, hi, ha⟩ := h.snoc_right
    right; exact ⟨i₁, a, i₂, b, rfl, List.concat_eq_append .., hi, ha⟩

theorem map_eq {γ : Type} {f : α → γ} {g : β → γ} {l₁ : List α} {l₂ : List β} (h : Forall₂ R l₁ l₂)
    (hfg : ∀ a b, R a b → f a = g b) : l₁.map f = l₂.map g := by
  induction h with
  | nil => rfl
  | cons hab _ ih => simp [hfg _ _ hab, ih]

end Forall₂

/-! ### the relation between the two kinds of subquery -/

/-- the SQL keyword of a join: `left` = LEFT JOIN -/
def joinKwOf (left : Bool) : String := if left then " LEFT JOIN " else " JOIN "

/-- a structured source and the SQL text `splitOps` writes for it: `.table n ~ [.qid n]`;
    `.join unique left l r cond ~` the `joinSource` chunk list of `splitOps`
    (`SplitQ.joinSourceOf`), with `cond` written in join mode -/
def SrcRel (src : Bytes) (scope : List (Bytes × List Chunk)) : SrcA → List Chunk → Prop
  | .table n, cs => cs = [.qid n]
  | .join unique left l r cond, cs =>
    ∃ c, writeExpr ⟨src, scope, .join⟩ cond = .ok c ∧
      cs = joinSourceOf unique (joinKwOf left) [.qid l] r c

structure SubRel (src : Bytes) (scope : List (Bytes × List Chunk)) (a : SubA) (s : Subquery) : Prop where
  name : a.name = s.name
  op : a.op = s.op
  sort : a.sort = s.sort
  take : a.take = s.take
  source : SrcRel src scope a.source s.source

/-- `List.Forall₂ (SubRel src scope)` -/
abbrev ListRel (src : Bytes) (scope : List (Bytes × List Chunk)) : List SubA → List Subquery → Prop :=
  Forall₂ (SubRel src scope)

/-- names of the sources a link reads -/
def srcNames : SrcA → List Bytes
  | .table n => [n]
  | .join _ _ l r _ => [l, r]

theorem joinSourceOf_length_ge (unique : Bool) (kw : String) (l : List Chunk) (r : Bytes) (c : List Chunk) :
    4 ≤ (joinSourceOf unique kw l r c).length := by
  simp [joinSourceOf]; omega

/-- a source written as a single quoted identifier is a table -/
theorem SrcRel.of_qid {src scope} {a : SrcA} {n : Bytes} (h : SrcRel src scope a [.qid n]) : a = .table n := by
  cases a with
  | table m => simp only [SrcRel] at h; cases h; rfl
  | join u l ln rn cond =>
    obtain ⟨c, _, hc⟩ := h
    have := joinSourceOf_length_ge u (joinKwOf l) [.qid ln] rn c
    rw [← hc] at this; simp at this

variable {src : Bytes} {scope : List (Bytes × List Chunk)}

/-! ### the helpers of the two algorithms respect the relation -/

theorem lastOf_rel_splita {dstA : List SubA} {dst : List Subquery} (h : ListRel src scope dstA dst) (k : Nat) :
    (lastOfA dstA k = none ∧ lastOf dst k = none) ∨
      ∃ a s, lastOfA dstA k = some a ∧ lastOf dst k = some s ∧ SubRel src scope a s := by
  unfold lastOfA lastOf
  rw [h.length_eq]
  split
  · rcases h.getLast? with ⟨rfl, rfl⟩ | ⟨i₁, a, i₂, b, rfl, rfl, _, hab⟩
    · left; simp
    · right; exact ⟨a, b, by simp, by simp, hab⟩
  · left; exact ⟨rfl, rfl⟩

theorem chain_rel_splita {dstA : List SubA} {dst : List Subquery} (h : ListRel src scope dstA dst) (k : Nat)
    (source : Option Ident) : SubRel src scope (chainA dstA k source) (chainSubquery dst k source) := by
  refine ⟨?_, rfl, rfl, rfl, ?_⟩
  · simp [chainA, chainSubquery, h.length_eq]
  · simp only [chainA, chainSubquery, h.length_eq]
    split
    · rename_i hk
      rcases h.getLast? with ⟨rfl, rfl⟩ | ⟨i₁, a, i₂, b, rfl, rfl, _, hab⟩
      · simp at hk
      · simp [SrcRel, hab.name]
    · simp [SrcRel]

theorem setLast_rel_splita {dstA : List SubA} {dst : List Subquery} (h : ListRel src scope dstA dst)
    {fA : SubA → SubA} {f : Subquery → Subquery}
    (hf : ∀ a s, SubRel src scope a s → SubRel src scope (fA a) (f s)) :
    ListRel src scope (setLastA dstA fA) (setLast dst f) := by
  rcases h.getLast? with ⟨rfl, rfl⟩ | ⟨i₁, a, i₂, b, rfl, rfl, hi, hab⟩
  · exact .nil
  · have h1 : setLastA (i₁ ++ [a]) fA = i₁ ++ [fA a] := by simp [setLastA]
    rw [h1, C02.setLast_append_singleton]
    exact hi.snoc (hf _ _ hab)

theorem getLast_name_rel {dstA : List SubA} {dst : List Subquery} (h : ListRel src scope dstA dst) :
    (match dstA.getLast? with | some s => s.name | none => []) = joinRight dst := by
  unfold joinRight
  rcases h.getLast? with ⟨rfl, rfl⟩ | ⟨i₁, a, i₂, b, rfl, rfl, _, hab⟩
  · rfl
  · simp [hab.name]

end Pql.C05
