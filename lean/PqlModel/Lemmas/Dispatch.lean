/-
Interpretation of the regenerated control-flow tables of the scanner (`Facts.scanCases`,
`Facts.identCont`, `Facts.stringCases`, `Facts.stringEscapes`, `Facts.quotedIdentShape`; translator
`harness/extract_lex.go`).  These definitions say what the extracted Go code does, rune by rune, in
terms of `decodeRune` (Go's `s.next()`), independently of the model's `scanOne`; the theorems of
Props/C09Dispatch.lean prove that the model equals the interpretation.

Specification-level definitions introduced here: `classHolds`, `condHolds`, `select`, `runesUntil`,
`subScanner`, `exec`, `interp` (the main switch of `Scan`); `identContByte`, `identInterp`;
`strSelect`, `strInterp`; `qidentInterp`.
-/
import PqlModel.Model.Lex
namespace Pql.Dispatch
open Pql
open Pql.Facts (ScanAction StrAction)

/-! ### conditions of the switch cases -/

def inRangesNat (rs : List (Nat × Nat)) (r : Nat) : Bool := rs.any fun p => p.1 ≤ r && r ≤ p.2

/-- the rune-class predicates a condition may call; an unknown name has no meaning (`none`) -/
def classHolds (name : String) (r : Nat) : Option Bool :=
  if name = "unicode.IsSpace" then some (isSpaceRune r)
  else if name = "isAlpha" then some (inRangesNat Facts.isAlphaRanges r)
  else if name = "isDigit" then some (inRangesNat Facts.isDigitRanges r)
  else if name = "isHexDigit" then some (inRangesNat Facts.isHexDigitRanges r)
  else none

def classesHold : List String → Nat → Option Bool
  | [], _ => some false
  | n :: ns, r =>
    match classHolds n r, classesHold ns r with
    | some a, some b => some (a || b)
    | _, _ => none

/-- `class₁(c) || … || c == 'x' || …` -/
def condHolds (classes : List String) (runes : List Nat) (r : Nat) : Option Bool :=
  (classesHold classes r).map (· || runes.contains r)

/-- Go's tag-less `switch`: the first case (top to bottom) whose condition holds, else the default -/
def select : List (List String × List Nat × ScanAction) → ScanAction → Nat → Option ScanAction
  | [], d, _ => some d
  | (cl, rs, a) :: more, d, r =>
    match condHolds cl rs r with
    | none => none
    | some true => some a
    | some false => select more d r

/-! ### what a case does -/

/-- `for { c, ok = s.next(); if !ok || c == term { break } }`: bytes consumed, rune by rune -/
def runesUntil (term : Nat) (s : Bytes) : Nat :=
  match s with
  | [] => 0
  | c :: rest =>
    let rw := decodeRune (c :: rest)
    if rw.1 == term then rw.2 else rw.2 + runesUntil term ((c :: rest).drop rw.2)
termination_by s.length
decreasing_by
  have := decodeRune_width_pos c rest
  simp only [List.length_drop, List.length_cons]
  omega

/-- the sub-scanners `Scan` hands over to (the model's functions; their own shapes are tied below) -/
def subScanner (m : String) (s : Bytes) : Option Lexeme :=
  if m = "ident" then some (scanIdent s)
  else if m = "numberOrDot" then some (scanNumberOrDot s)
  else if m = "string" then some (scanString s)
  else if m = "quotedIdent" then some (scanQuotedIdent s)
  else none

/-- one pass through the body of a case; `s` is the suffix starting at the rune the case matched.
    `s.next()` = `decodeRune`; `newSpan(start, s.pos)` = bytes consumed so far;
    `if ok { s.prev() }` after a failed look-ahead = the second rune's bytes are not consumed. -/
def exec (a : ScanAction) (s : Bytes) : Option Step :=
  let w := (decodeRune s).2
  let s2 := s.drop w
  let rw2 := decodeRune s2
  match a with
  | .skip => some (.skip w)
  | .sub m => (subScanner m s).map Step.ofLexeme
  | .single k => (TokKind.ofGoName k).map (Step.sym · w)
  | .two secs fb unread =>
    match (if s2.isEmpty then none else secs.find? fun p => p.1 == rw2.1) with
    | some p => (TokKind.ofGoName p.2).map (Step.sym · (w + rw2.2))
    | none => (TokKind.ofGoName fb).map (Step.sym · (if unread then w else w + rw2.2))
  | .comment op term ke ko unread =>
    if s2.isEmpty then (TokKind.ofGoName ke).map (Step.sym · w)
    else if rw2.1 == op then some (.skip (w + rw2.2 + runesUntil term (s2.drop rw2.2)))
    else (TokKind.ofGoName ko).map (Step.sym · (if unread then w else w + rw2.2))
  | .error => some (.sym .error w)

/-- one iteration of `Scan`'s loop as the regenerated switch describes it -/
def interp (s : Bytes) : Option Step :=
  match s with
  | [] => some (.skip 0)
  | _ => (select Facts.scanCases Facts.scanDefault (decodeRune s).1).bind (exec · s)

/-! ### `(*scanner).ident` -/

/-- the continuation condition on a byte (every class and literal of the table is ASCII, see
    `identCont_ascii`: a byte ≥ 0x80 starts a rune ≥ 0x80 which satisfies none) -/
def identContByte (c : UInt8) : Option Bool :=
  condHolds Facts.identCont.1 Facts.identCont.2 c.toNat

def identLoopI : Bytes → Option Nat
  | [] => some 0
  | c :: rest =>
    match identContByte c with
    | none => none
    | some true => (identLoopI rest).map (· + 1)
    | some false => some 0

/-- `(*scanner).ident` as extracted: first rune unchecked, the loop, the keyword lookup -/
def identInterp (s : Bytes) : Option Lexeme :=
  match identLoopI s.tail, TokKind.ofGoName Facts.identKind with
  | some n, some k0 =>
    let w := n + 1
    let text := s.take w
    match Facts.keywords.find? (fun kv => Bytes.ofString kv.1 == text) with
    | some kv => (TokKind.ofGoName kv.2).map fun k => ⟨k, if Facts.identKeywordClearsValue then [] else text, w⟩
    | none => some ⟨k0, text, w⟩
  | _, _ => none

/-! ### `(*scanner).string` -/

/-- a `switch c { case k₁: … }` with rune labels; label `none` stands for the variable `quoteChar` -/
def strSelect (cases : List (Option Nat × StrAction)) (d : StrAction) (q c : Nat) : StrAction :=
  match cases.find? (fun p => (p.1.getD q) == c) with
  | some p => p.2
  | none => d

/-- the loop of `(*scanner).string` after the opening quote `q`, byte by byte (all labels are ASCII,
    `stringLabels_ascii`).  Width bookkeeping: `.bad true` = `s.prev()` before the error token, the
    rune is not part of the token.  `none` = a table shape without meaning (e.g. `.escape` inside the
    escape switch). -/
def strInterp (q : UInt8) : Bytes → Option QRes
  | [] => some (.bad 0)
  | c :: rest =>
    match strSelect Facts.stringCases Facts.stringDefault q.toNat c.toNat with
    | .close => some (.closed [] 1)
    | .bad unread => some (.bad (if unread then 0 else 1))
    | .copy => (strInterp q rest).map (QRes.shift 1 (some c))
    | .rune _ => none
    | .escape =>
      match rest with
      | [] => some (.bad 1)
      | e :: rest' =>
        match strSelect Facts.stringEscapes Facts.stringEscapeDefault q.toNat e.toNat with
        | .bad unread => some (.bad (if unread then 1 else 2))
        | .rune r => (strInterp q rest').map (QRes.shift 2 (some (UInt8.ofNat r)))
        | .copy => (strInterp q rest').map (QRes.shift 2 (some e))
        | .close => none
        | .escape => none

/-! ### `(*scanner).quotedIdent` -/

/-- the loop of `(*scanner).quotedIdent` after the opening rune, from `Facts.quotedIdentShape` -/
def qidentInterp : Bytes → QRes
  | [] => .bad 0
  | c :: rest =>
    let closer := Facts.quotedIdentShape.2.1
    let eol := Facts.quotedIdentShape.2.2
    if c.toNat == closer then
      match rest with
      | [] => .closed [] 1
      | d :: rest' =>
        if d.toNat == closer then (qidentInterp rest').shift 2 (some c)
        else .closed [] 1
    else if c.toNat == eol.1 then .bad (if eol.2 then 0 else 1)
    else (qidentInterp rest).shift 1 (some c)

end Pql.Dispatch
