/-
Shape lemmas for the number sub-scanner of the model: whatever `scanNumberOrDot` returns as a
number is either a decimal spelling `digits* ['.' digits*] [exponent]` (normalised by
`normalizeNumber`) or a hexadecimal spelling `0x hexdigits+` (converted by `natToDec ∘ hexToNat`).
Model-only facts; the value semantics lives in Props/C09b.lean.
-/
import PqlModel.Lemmas.LexBasic
set_option linter.unusedSimpArgs false
namespace Pql

theorem isDigit_iff (c : UInt8) : isDigit c = (decide (48 ≤ c.toNat) && decide (c.toNat ≤ 57)) := by
  simp [isDigit, inRanges, Facts.isDigitRanges]

theorem isHexDigit_iff (c : UInt8) :
    isHexDigit c = ((decide (48 ≤ c.toNat) && decide (c.toNat ≤ 57)) ||
      (decide (97 ≤ c.toNat) && decide (c.toNat ≤ 102)) ||
      (decide (65 ≤ c.toNat) && decide (c.toNat ≤ 70))) := by
  simp [isHexDigit, inRanges, Facts.isHexDigitRanges, Bool.or_assoc]

theorem take_digitsLen (r : Bytes) : ∀ c ∈ r.take (digitsLen r), isDigit c = true := by
  fun_induction digitsLen r <;> simp_all

theorem take_hexDigitsLen (r : Bytes) : ∀ c ∈ r.take (hexDigitsLen r), isHexDigit c = true := by
  fun_induction hexDigitsLen r <;> simp_all

theorem mantissaLoop_true (r : Bytes) : mantissaLoop true r = digitsLen r := by
  induction r with
  | nil => simp [mantissaLoop, digitsLen]
  | cons c r ih => simp [mantissaLoop, digitsLen, ih]

/-- the mantissa loop without a dot seen so far takes digits, or digits '.' digits -/
theorem mantissaLoop_false_shape (r : Bytes) :
    (∀ c ∈ r.take (mantissaLoop false r), isDigit c = true) ∨
    ∃ ds fs, r.take (mantissaLoop false r) = ds ++ 46 :: fs ∧
      (∀ c ∈ ds, isDigit c = true) ∧ (∀ c ∈ fs, isDigit c = true) := by
  induction r with
  | nil => simp [mantissaLoop]
  | cons c r ih =>
    simp only [mantissaLoop]
    split
    · rename_i h
      right
      refine ⟨[], r.take (digitsLen r), ?_, by simp, take_digitsLen r⟩
      simp at h
      simp [mantissaLoop_true, h]
    · split
      · rename_i h1 h2
        rcases ih with ih | ⟨ds, fs, h, hd, hf⟩
        · left; simp_all
        · right; refine ⟨c :: ds, fs, by simp [h], by simp_all, hf⟩
      · simp

/-- An exponent part: empty, or `(e|E) [+|-] digits+`. -/
def IsExp (E : Bytes) : Prop :=
  E = [] ∨ ∃ e ds, (e = 101 ∨ e = 69) ∧ ds ≠ [] ∧ (∀ c ∈ ds, isDigit c = true) ∧
    (E = e :: ds ∨ E = e :: 43 :: ds ∨ E = e :: 45 :: ds)

/-- A decimal spelling: `digits+ [exponent]` or `digits* '.' digits* [exponent]` with at least
    one mantissa digit. -/
def IsDecimal (t : Bytes) : Prop :=
  ∃ ds fs E, (∀ c ∈ ds, isDigit c = true) ∧ (∀ c ∈ fs, isDigit c = true) ∧ IsExp E ∧
    ((ds ≠ [] ∧ t = ds ++ E) ∨ ((ds ≠ [] ∨ fs ≠ []) ∧ t = ds ++ 46 :: fs ++ E))

theorem exponentLen_shape (r : Bytes) : IsExp (r.take (exponentLen r)) := by
  unfold exponentLen
  split
  · rename_i e c rest
    split
    · rename_i he
      have he' : e = 101 ∨ e = 69 := by simpa using he
      split
      · rename_i hc
        split
        · rename_i d rest'
          split
          · rename_i hd
            right
            refine ⟨e, d :: rest'.take (digitsLen rest'), he', by simp, ?_, ?_⟩
            · have := take_digitsLen rest'
              simp_all
            · have hc' : c = 43 ∨ c = 45 := by simpa using hc
              rcases hc' with rfl | rfl <;> simp
          · left; simp
        · left; simp
      · split
        · rename_i hd
          right
          refine ⟨e, c :: rest.take (digitsLen rest), he', by simp, ?_, ?_⟩
          · have := take_digitsLen rest
            simp_all
          · simp
        · left; simp
    · left; simp
  · left; simp


theorem take_length_add_add {α} (L r : List α) (m e : Nat) :
    (L ++ r).take (L.length + m + e) = L ++ (r.take m ++ (r.drop m).take e) := by
  simp only [Nat.add_assoc, List.take_add, List.take_left, List.drop_left]

theorem finishNumber_take_append (p r : Bytes) (b : Bool) :
    finishNumber (p ++ r) p.length b =
      ⟨.number,
       normalizeNumber (p ++ (r.take (mantissaLoop b r) ++
          (r.drop (mantissaLoop b r)).take (exponentLen (r.drop (mantissaLoop b r))))),
       p.length + mantissaLoop b r + exponentLen (r.drop (mantissaLoop b r))⟩ := by
  simp only [finishNumber, List.drop_left, Nat.add_assoc, List.drop_length_add_append,
    List.take_add, List.take_left]

/-- source spelling of the token `finishNumber` returns -/
theorem finishNumber_value (s : Bytes) (k : Nat) (b : Bool) :
    (finishNumber s k b).value = normalizeNumber (s.take (finishNumber s k b).width) ∧
    (finishNumber s k b).kind = .number := by
  simp [finishNumber]

theorem finishNumber_false_shape (p r : Bytes) (hp : p ≠ []) (hd : ∀ c ∈ p, isDigit c = true) :
    IsDecimal ((p ++ r).take (finishNumber (p ++ r) p.length false).width) := by
  rw [finishNumber_take_append]
  simp only [take_length_add_add]
  have hE := exponentLen_shape (r.drop (mantissaLoop false r))
  rcases mantissaLoop_false_shape r with h | ⟨ds, fs, h, h1, h2⟩
  · refine ⟨p ++ r.take (mantissaLoop false r), [], _, ?_, by simp, hE, Or.inl ⟨by simp [hp], by simp⟩⟩
    intro c hc
    rcases List.mem_append.mp hc with hc | hc
    · exact hd c hc
    · exact h c hc
  · refine ⟨p ++ ds, fs, _, ?_, h2, hE, Or.inr ⟨Or.inl (by simp [hp]), by simp [h]⟩⟩
    intro c hc
    rcases List.mem_append.mp hc with hc | hc
    · exact hd c hc
    · exact h1 c hc

theorem finishNumber_true_shape (p q r : Bytes) (hpq : p ≠ [] ∨ q ≠ [])
    (hp : ∀ c ∈ p, isDigit c = true) (hq : ∀ c ∈ q, isDigit c = true) :
    IsDecimal ((p ++ 46 :: q ++ r).take
      (finishNumber (p ++ 46 :: q ++ r) (p ++ 46 :: q).length true).width) := by
  rw [finishNumber_take_append]
  simp only [take_length_add_add, mantissaLoop_true]
  have hE := exponentLen_shape (r.drop (digitsLen r))
  refine ⟨p, q ++ r.take (digitsLen r), _, hp, ?_, hE, Or.inr ⟨?_, by simp⟩⟩
  · intro c hc
    rcases List.mem_append.mp hc with hc | hc
    · exact hq c hc
    · exact take_digitsLen r c hc
  · rcases hpq with h | h
    · exact Or.inl h
    · exact Or.inr (by simp [h])

/-- the hexadecimal outcome of `scanNumberOrDot` -/
def IsHexResult (s v : Bytes) (w : Nat) : Prop :=
  ∃ x hs, (x = 120 ∨ x = 88) ∧ hs ≠ [] ∧ (∀ c ∈ hs, isHexDigit c = true) ∧
    s.take w = 48 :: x :: hs ∧ v = natToDec (hexToNat hs) ∧ hexToNat hs < 18446744073709551616

theorem finishNumber_eq {s : Bytes} {k : Nat} {b : Bool} {v : Bytes} {w : Nat}
    (h : finishNumber s k b = ⟨.number, v, w⟩) :
    w = (finishNumber s k b).width ∧ v = normalizeNumber (s.take w) := by
  simp only [finishNumber] at h ⊢
  injection h with _ h2 h3
  subst h3
  exact ⟨rfl, h2.symm⟩

theorem scanNumberOrDot_shape (c : UInt8) (rest v : Bytes) (w : Nat)
    (hc : (isDigit c || c == 46) = true)
    (h : scanNumberOrDot (c :: rest) = ⟨.number, v, w⟩) :
    (IsDecimal ((c :: rest).take w) ∧ v = normalizeNumber ((c :: rest).take w)) ∨
    IsHexResult (c :: rest) v w := by
  unfold scanNumberOrDot at h
  simp only at h
  split at h
  · -- c = '0'
    rename_i h0
    have h0' : c = 48 := by simpa using h0
    subst h0'
    split at h
    · injection h with _ h2 h3
      subst h2 h3
      left
      refine ⟨⟨[48], [], [], by simp [isDigit_iff], by simp, Or.inl rfl, Or.inl ⟨by simp, by simp⟩⟩, ?_⟩
      simp [normalizeNumber, trimLeftZeros]
    · rename_i c2 rest2
      split at h
      · rename_i hdot
        have : c2 = 46 := by simpa using hdot
        subst this
        obtain ⟨hw, hv⟩ := finishNumber_eq h
        left
        refine ⟨?_, hv⟩
        have := finishNumber_true_shape [48] [] rest2 (Or.inl (by simp)) (by simp [isDigit_iff]) (by simp)
        rw [hw]
        simpa using this
      · split at h
        · rename_i he
          injection h with _ h2 h3
          subst h3
          left
          refine ⟨?_, h2.symm⟩
          have hE := exponentLen_shape (c2 :: rest2)
          refine ⟨[48], [], _, by simp [isDigit_iff], by simp, hE, Or.inl ⟨by simp, ?_⟩⟩
          simp [Nat.add_comm, List.take_add]
        · split at h
          · rename_i hx
            have hx' : c2 = 120 ∨ c2 = 88 := by simpa using hx
            split at h
            · cases h
            · rename_i hn
              split at h
              · rename_i hlt
                injection h with _ h2 h3
                subst h3
                right
                refine ⟨c2, rest2.take (hexDigitsLen rest2), hx', ?_, take_hexDigitsLen rest2, ?_,
                  h2.symm, hlt⟩
                · have : hexDigitsLen rest2 ≠ 0 := by simpa using hn
                  cases rest2 with
                  | nil => simp [hexDigitsLen] at this
                  | cons d r => simp [this]
                · simp
              · cases h
          · split at h
            · rename_i hd
              obtain ⟨hw, hv⟩ := finishNumber_eq h
              left
              refine ⟨?_, hv⟩
              have := finishNumber_false_shape [48, c2] rest2 (by simp) (by simp [hd]; simp [isDigit_iff])
              rw [hw]
              simpa using this
            · obtain ⟨hw, hv⟩ := finishNumber_eq h
              left
              refine ⟨?_, hv⟩
              have := finishNumber_false_shape [48] (c2 :: rest2) (by simp) (by simp [isDigit_iff])
              rw [hw]
              simpa using this
  · rename_i h0
    split at h
    · rename_i hdot
      have : c = 46 := by simpa using hdot
      subst this
      split at h
      · cases h
      · rename_i c2 rest2
        split at h
        · rename_i hd
          obtain ⟨hw, hv⟩ := finishNumber_eq h
          left
          refine ⟨?_, hv⟩
          have := finishNumber_true_shape [] [c2] rest2 (Or.inr (by simp)) (by simp) (by simp [hd])
          rw [hw]
          simpa using this
        · cases h
    · rename_i hdot
      have hd : isDigit c = true := by simpa [hdot] using hc
      obtain ⟨hw, hv⟩ := finishNumber_eq h
      left
      refine ⟨?_, hv⟩
      have := finishNumber_false_shape [c] rest (by simp) (by simp [hd])
      rw [hw]
      simpa using this
end Pql
