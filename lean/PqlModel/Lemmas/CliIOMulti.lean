/-
`multiReadCloser.Read` is a logical concatenation: lemmas for `C16_multi_concat`.
-/
import PqlModel.Lemmas.CliIOModel
namespace Pql.CliIO
open Pql

/-- how a finished drain is reported -/
def toEnding : Bytes × Bool → Bytes × Ending
  | (b, true) => (b, .err)
  | (b, false) => (b, .eof)

theorem drain_congr {σ : Type} (read : σ → ReadResult × σ) (fuel : Nat) (s s' : σ)
    (h : read s = read s') : drain read fuel s = drain read fuel s' := by
  cases fuel with
  | zero => rfl
  | succ n => simp only [drain, h]

theorem multiRead_nil_reader (rest : List Reader) : multiRead ([] :: rest) = multiRead rest := by
  simp [multiRead, Reader.read]

theorem multiRead_ok (c : Bytes) (r' : Reader) (rest : List Reader) :
    multiRead (((c, .ok) :: r') :: rest) = ((c, .ok), r' :: rest) := by
  simp [multiRead, Reader.read]

theorem multiRead_err (c : Bytes) (r' : Reader) (rest : List Reader) :
    multiRead (((c, .err) :: r') :: rest) = ((c, .err), r' :: rest) := by
  simp [multiRead, Reader.read]

theorem multiRead_eof_empty (r' : Reader) (rest : List Reader) :
    multiRead ((([], .eof) :: r') :: rest) = multiRead rest := by
  simp [multiRead, Reader.read]

theorem multiRead_eof_data (c : Bytes) (hc : c ≠ []) (r' : Reader) (rest : List Reader) :
    multiRead (((c, .eof) :: r') :: rest) = ((c, if rest ≠ [] then .ok else .eof), rest) := by
  simp [multiRead, Reader.read, hc]

theorem totalResults_cons (r : Reader) (rest : List Reader) :
    totalResults (r :: rest) = r.length + totalResults rest := by
  simp [totalResults]

theorem toEnding_append (c : Bytes) (p : Bytes × Bool) :
    (c ++ (toEnding p).1, (toEnding p).2) = toEnding (c ++ p.1, p.2) := by
  obtain ⟨b, f⟩ := p
  cases f <;> rfl

theorem concatContents_cons_nil (rest : List Reader) :
    concatContents ([] :: rest) = concatContents rest := by
  simp [concatContents, Reader.content]

theorem drain_aux (c : Bytes) (p q : Bytes × Bool) :
    (c ++ (toEnding (if p.2 = true then (p.1, true) else (p.1 ++ q.1, q.2))).1,
      (toEnding (if p.2 = true then (p.1, true) else (p.1 ++ q.1, q.2))).2) =
    toEnding (if p.2 = true then (c ++ p.1, true) else (c ++ p.1 ++ q.1, q.2)) := by
  obtain ⟨b, f⟩ := p
  obtain ⟨b', f'⟩ := q
  cases f <;> cases f' <;> simp [toEnding]

/-- **Main lemma.**  With at least `totalResults + 1` calls allowed, draining the multi-reader
    gives the concatenated contents. -/
theorem drain_multiRead (rs : List Reader) :
    ∀ fuel, totalResults rs + 1 ≤ fuel → drain multiRead fuel rs = toEnding (concatContents rs) := by
  induction rs with
  | nil =>
    intro fuel hf
    obtain ⟨n, rfl⟩ : ∃ n, fuel = n + 1 := ⟨fuel - 1, by omega⟩
    simp [drain, multiRead, concatContents, toEnding]
  | cons r rest ihr =>
    induction r with
    | nil =>
      intro fuel hf
      rw [drain_congr multiRead fuel ([] :: rest) rest (multiRead_nil_reader rest),
        concatContents_cons_nil]
      exact ihr fuel (by rw [totalResults_cons] at hf; omega)
    | cons x r' ih =>
      intro fuel hf
      obtain ⟨n, rfl⟩ : ∃ n, fuel = n + 1 := ⟨fuel - 1, by omega⟩
      rw [totalResults_cons] at hf
      simp only [List.length_cons] at hf
      obtain ⟨c, st⟩ := x
      cases st with
      | ok =>
        have h := ih n (by rw [totalResults_cons]; omega)
        simp only [drain, multiRead_ok, h]
        simp only [concatContents, Reader.content]
        exact drain_aux c _ _
      | err =>
        simp [drain, multiRead_err, concatContents, Reader.content, toEnding]
      | eof =>
        by_cases hc : c = []
        · subst hc
          rw [drain_congr multiRead (n + 1) _ rest (multiRead_eof_empty r' rest)]
          rw [ihr (n + 1) (by omega)]
          simp only [concatContents, Reader.content, Bool.false_eq_true, if_false, List.nil_append]
        · by_cases hrest : rest = []
          · subst hrest
            simp [drain, multiRead_eof_data c hc, concatContents, Reader.content, toEnding]
          · have h := ihr n (by omega)
            simp only [drain, multiRead_eof_data c hc, hrest, ne_eq, not_false_eq_true, if_true, h]
            simp only [concatContents, Reader.content, Bool.false_eq_true, if_false]
            generalize concatContents rest = q
            obtain ⟨b', f'⟩ := q
            cases f' <;> simp [toEnding]

/-- A single reader drained directly (no `multiReadCloser`) gives its content. -/
theorem drain_reader (r : Reader) :
    ∀ fuel, r.length + 1 ≤ fuel → drain Reader.read fuel r = toEnding r.content := by
  induction r with
  | nil =>
    intro fuel hf
    obtain ⟨n, rfl⟩ : ∃ n, fuel = n + 1 := ⟨fuel - 1, by omega⟩
    simp [drain, Reader.read, Reader.content, toEnding]
  | cons x r' ih =>
    intro fuel hf
    obtain ⟨n, rfl⟩ : ∃ n, fuel = n + 1 := ⟨fuel - 1, by omega⟩
    simp only [List.length_cons] at hf
    obtain ⟨c, st⟩ := x
    cases st with
    | ok =>
      have h := ih n (by omega)
      simp only [drain, Reader.read, h, Reader.content]
      cases hcr : Reader.content r' with
      | mk b f => cases f <;> simp [toEnding]
    | err => simp [drain, Reader.read, Reader.content, toEnding]
    | eof => simp [drain, Reader.read, Reader.content, toEnding]

theorem concatContents_single (r : Reader) : concatContents [r] = r.content := by
  simp only [concatContents]
  cases h : r.content with
  | mk b f => cases f <;> simp

/-- readers none of whose scripted results is a (non-EOF) error -/
def noErr (rs : List Reader) : Bool := rs.all fun r => r.all fun x => x.2 != .err

theorem content_noErr (r : Reader) (h : (r.all fun x => x.2 != .err) = true) :
    r.content.2 = false := by
  induction r with
  | nil => rfl
  | cons x r' ih =>
    obtain ⟨c, st⟩ := x
    simp only [List.all_cons, Bool.and_eq_true] at h
    cases st with
    | ok => simp only [Reader.content]; exact ih h.2
    | eof => rfl
    | err => simp at h

theorem concatContents_noErr (rs : List Reader) (h : noErr rs = true) :
    concatContents rs = ((rs.map fun r => r.content.1).flatten, false) := by
  induction rs with
  | nil => rfl
  | cons r rest ih =>
    simp only [noErr, List.all_cons, Bool.and_eq_true] at h
    have h1 := content_noErr r h.1
    have h2 := ih (by simpa [noErr] using h.2)
    simp only [concatContents, h2]
    cases hr : r.content with
    | mk b f =>
      rw [hr] at h1
      simp only at h1
      subst h1
      simp [hr]

/-- The reader list only ever shrinks or advances: one `Read` uses up at least one scripted
    result unless every remaining script is already used up. -/
theorem multiRead_progress (rs : List Reader) :
    totalResults (multiRead rs).2 < totalResults rs ∨
      (totalResults rs = 0 ∧ multiRead rs = (([], .eof), [])) := by
  induction rs with
  | nil => right; simp [totalResults, multiRead]
  | cons r rest ih =>
    cases r with
    | nil =>
      rw [multiRead_nil_reader, totalResults_cons]
      simpa using ih
    | cons x r' =>
      obtain ⟨c, st⟩ := x
      left
      cases st with
      | ok => simp [multiRead_ok, totalResults_cons]
      | err => simp [multiRead_err, totalResults_cons]
      | eof =>
        by_cases hc : c = []
        · subst hc
          rw [multiRead_eof_empty, totalResults_cons]
          rcases ih with h | ⟨h, h2⟩
          · simp only [List.length_cons]; omega
          · rw [h2]; simp only [totalResults, List.map_nil, List.sum_nil, List.length_cons]; omega
        · rw [multiRead_eof_data c hc, totalResults_cons]
          simp only [List.length_cons]; omega

/-- **No invented `0, nil`.**  `multiReadCloser.Read` returns `0, nil` only by handing through a
    `0, nil` of an underlying reader: the readers before it had all just answered `0, io.EOF`
    (and were dropped), and it is that reader's own next result. -/
theorem multiRead_zero_nil (rs rs' : List Reader) (h : multiRead rs = (([], .ok), rs')) :
    ∃ dropped r' rest, rs = dropped ++ (([], .ok) :: r') :: rest ∧ rs' = r' :: rest ∧
      ∀ d ∈ dropped, (Reader.read d).1 = (([], Status.eof) : ReadResult) := by
  induction rs with
  | nil => simp [multiRead] at h
  | cons r rest ih =>
    cases r with
    | nil =>
      rw [multiRead_nil_reader] at h
      obtain ⟨d, r', rest', h1, h2, h3⟩ := ih h
      refine ⟨[] :: d, r', rest', by simp [h1], h2, ?_⟩
      intro x hx
      rcases List.mem_cons.mp hx with rfl | hx
      · rfl
      · exact h3 x hx
    | cons x r0 =>
      obtain ⟨c, st⟩ := x
      cases st with
      | ok =>
        rw [multiRead_ok] at h
        simp only [Prod.mk.injEq, and_true] at h
        obtain ⟨rfl, rfl⟩ := h
        exact ⟨[], r0, rest, rfl, rfl, by simp⟩
      | err => rw [multiRead_err] at h; simp at h
      | eof =>
        by_cases hc : c = []
        · subst hc
          rw [multiRead_eof_empty] at h
          obtain ⟨d, r', rest', h1, h2, h3⟩ := ih h
          refine ⟨(([], .eof) :: r0) :: d, r', rest', by simp [h1], h2, ?_⟩
          intro x hx
          rcases List.mem_cons.mp hx with rfl | hx
          · rfl
          · exact h3 x hx
        · rw [multiRead_eof_data c hc] at h
          simp only [Prod.mk.injEq] at h
          exact absurd h.1.1 hc

end Pql.CliIO
