/-
C05, syntactic half, stage 2 (a): the reference statement parser `pSelect` cut into its clauses
(`joinPart`, `wherePart`, `groupPart`, `orderPart`, `limitPart`, `pItem`), the token table of the fixed
texts `Subquery.write` / `writeCtes` emit, and the classification of the clause keywords.
-/
import PqlModel.Lemmas.ParseStmtDefs
import PqlModel.Lemmas.ParseStmtFuel
namespace Pql.C05
set_option linter.unusedSimpArgs false
open Pql Sql CompileOracle Intended Pql.RT

/-! ### the clauses of `pSelect` -/

def joinPart (r3 : List STok) : PR (Option JoinClause) :=
  match r3 with
  | j :: r4 =>
    let (left, afterKw) : Bool × Option (List STok) :=
      if isWord j "JOIN" then (false, some r4)
      else if isWord j "LEFT" then
        match r4 with
        | j2 :: r5 => if isWord j2 "JOIN" then (true, some r5) else (true, none)
        | [] => (true, none)
      else (false, none)
    match afterKw with
    | some r5 =>
      match pTableRef r5 with
      | some (tr, r6) =>
        match r6 with
        | on :: r7 =>
          if !isWord on "ON" then none else
          match pExprS (fuelOf r7) 0 r7 with
          | some (c, r8) => some (some ⟨left, tr, c⟩, r8)
          | none => none
        | [] => none
      | none => none
    | none => if isWord j "LEFT" then none else some (none, r3)
  | [] => some (none, [])

def wherePart (r4 : List STok) : PR (Option SExpr) :=
  match r4 with
  | w :: r5 =>
    if isWord w "WHERE" then (pExprS (fuelOf r5) 0 r5).map fun rr => (some rr.1, rr.2) else some (none, r4)
  | [] => some (none, [])

def groupPart (r5 : List STok) : PR (List SExpr) :=
  match r5 with
  | g :: b :: r6 =>
    if isWord g "GROUP" && isWord b "BY" then pExprsComma (r6.length + 1) r6 else some ([], r5)
  | _ => some ([], r5)

def orderPart (r6 : List STok) : PR (List OrderTerm) :=
  match r6 with
  | o :: b :: r7 =>
    if isWord o "ORDER" && isWord b "BY" then pOrderTerms (r7.length + 1) r7 else some ([], r6)
  | _ => some ([], r6)

def limitPart (r7 : List STok) : PR (Option SExpr) :=
  match r7 with
  | l :: r8 =>
    if isWord l "LIMIT" then (pExprS (fuelOf r8) 0 r8).map fun rr => (some rr.1, rr.2) else some (none, r7)
  | [] => some (none, [])


def pSelect' (ts : List STok) : PR Select :=
  match ts with
  | s :: rest =>
    if !isWord s "SELECT" then none else
    match pItems (rest.length + 1) rest with
    | some (items, r1) =>
      match r1 with
      | f :: r2 =>
        if !isWord f "FROM" then none else
        match pTableRef r2 with
        | some (src, r3) =>
          match joinPart r3 with
          | some (jn, r4) =>
            match wherePart r4 with
            | some (wh, r5) =>
              match groupPart r5 with
              | some (gb, r6) =>
                match orderPart r6 with
                | some (ob, r7) =>
                  match limitPart r7 with
                  | some (lim, r8) => some ({ items, source := src, join := jn, where_ := wh, groupBy := gb, orderBy := ob, limit := lim }, r8)
                  | none => none
                | none => none
              | none => none
            | none => none
          | none => none
        | none => none
      | [] => none
    | none => none
  | [] => none

theorem pSelect_eq (ts : List STok) : pSelect ts = pSelect' ts := rfl

/-- one select item: `*` or `expr [AS "alias"]` -/
def pItem (ts : List STok) : PR SelectItem :=
  match ts with
  | st :: rest =>
    if isSym st "*" then some (⟨true, .none_, none⟩, rest)
    else
      match pExprS (fuelOf ts) 0 ts with
      | some (e, r) => let a := pAlias r; some (⟨false, e, a.1⟩, a.2)
      | none => none
  | [] => none

theorem pItems_succ (fuel : Nat) (ts : List STok) :
    pItems (fuel + 1) ts =
      match pItem ts with
      | some (it, r) =>
        match r with
        | cm :: r2 => if isSym cm "," then (pItems fuel r2).map fun rr => (it :: rr.1, rr.2) else some ([it], r)
        | [] => some ([it], [])
      | none => none := rfl

/-! ### the fixed texts -/

@[simp] theorem tt_select_star_from : txtToks "SELECT * FROM " = [RT.W "SELECT", S "*", RT.W "FROM"] := by decide
@[simp] theorem tt_select : txtToks "SELECT " = [RT.W "SELECT"] := by decide
@[simp] theorem tt_as : txtToks " AS " = [RT.W "AS"] := by decide
@[simp] theorem tt_from : txtToks " FROM " = [RT.W "FROM"] := by decide
@[simp] theorem tt_select_star : txtToks "SELECT *" = [RT.W "SELECT", S "*"] := by decide
@[simp] theorem tt_group_by : txtToks " GROUP BY " = [RT.W "GROUP", RT.W "BY"] := by decide
@[simp] theorem tt_where : txtToks " WHERE " = [RT.W "WHERE"] := by decide
@[simp] theorem tt_count_sel : txtToks "SELECT COUNT(*) AS \"count()\" FROM " =
    [RT.W "SELECT", RT.W "COUNT", S "(", S "*", S ")", RT.W "AS", .qid (Bytes.ofString "count()"), RT.W "FROM"] := by decide
@[simp] theorem tt_render_head : txtToks "SELECT *,\n" = [RT.W "SELECT", S "*", S ","] := by decide
@[simp] theorem tt_indent : txtToks "    " = [] := by decide
@[simp] theorem tt_render_type : txtToks " as \"render_type\"" = [RT.W "as", .qid (Bytes.ofString "render_type")] := by decide
@[simp] theorem tt_render_sep : txtToks ",\n    " = [S ","] := by decide
@[simp] theorem tt_as_lower : txtToks " as " = [RT.W "as"] := by decide
@[simp] theorem tt_nl_from : txtToks "\nFROM " = [RT.W "FROM"] := by decide
@[simp] theorem tt_order_by : txtToks " ORDER BY " = [RT.W "ORDER", RT.W "BY"] := by decide
@[simp] theorem tt_asc : txtToks " ASC" = [RT.W "ASC"] := by decide
@[simp] theorem tt_desc : txtToks " DESC" = [RT.W "DESC"] := by decide
@[simp] theorem tt_nulls_first : txtToks " NULLS FIRST" = [RT.W "NULLS", RT.W "FIRST"] := by decide
@[simp] theorem tt_nulls_last : txtToks " NULLS LAST" = [RT.W "NULLS", RT.W "LAST"] := by decide
@[simp] theorem tt_limit : txtToks " LIMIT " = [RT.W "LIMIT"] := by decide
@[simp] theorem tt_distinct_open : txtToks "(SELECT DISTINCT * FROM " = [S "(", RT.W "SELECT", RT.W "DISTINCT", S "*", RT.W "FROM"] := by decide
@[simp] theorem tt_as_left : txtToks (" AS \"" ++ Facts.leftJoinTableAlias ++ "\"") = [RT.W "AS", .qid (Bytes.ofString "$left")] := by decide
@[simp] theorem tt_as_right_on : txtToks (" AS \"" ++ Facts.rightJoinTableAlias ++ "\" ON ") = [RT.W "AS", .qid (Bytes.ofString "$right"), RT.W "ON"] := by decide
@[simp] theorem tt_join : txtToks " JOIN " = [RT.W "JOIN"] := by decide
@[simp] theorem tt_left_join : txtToks " LEFT JOIN " = [RT.W "LEFT", RT.W "JOIN"] := by decide
@[simp] theorem tt_as_open : txtToks " AS (" = [RT.W "AS", S "("] := by decide
@[simp] theorem tt_nl : txtToks "\n" = [] := by decide
@[simp] theorem tt_cte_sep : txtToks ",\n     " = [S ","] := by decide
@[simp] theorem tt_with : txtToks "WITH " = [RT.W "WITH"] := by decide
@[simp] theorem tt_semi : txtToks ";" = [S ";"] := by decide

/-! ### keywords -/

@[simp] theorem up_SELECT : upper (Bytes.ofString "SELECT") = "SELECT" := by rw [upper_eq]; decide
@[simp] theorem up_FROM : upper (Bytes.ofString "FROM") = "FROM" := by rw [upper_eq]; decide
@[simp] theorem up_AS : upper (Bytes.ofString "AS") = "AS" := by rw [upper_eq]; decide
@[simp] theorem up_as : upper (Bytes.ofString "as") = "AS" := by rw [upper_eq]; decide
@[simp] theorem up_GROUP : upper (Bytes.ofString "GROUP") = "GROUP" := by rw [upper_eq]; decide
@[simp] theorem up_BY : upper (Bytes.ofString "BY") = "BY" := by rw [upper_eq]; decide
@[simp] theorem up_ORDER : upper (Bytes.ofString "ORDER") = "ORDER" := by rw [upper_eq]; decide
@[simp] theorem up_LIMIT : upper (Bytes.ofString "LIMIT") = "LIMIT" := by rw [upper_eq]; decide
@[simp] theorem up_ASC : upper (Bytes.ofString "ASC") = "ASC" := by rw [upper_eq]; decide
@[simp] theorem up_DESC : upper (Bytes.ofString "DESC") = "DESC" := by rw [upper_eq]; decide
@[simp] theorem up_NULLS : upper (Bytes.ofString "NULLS") = "NULLS" := by rw [upper_eq]; decide
@[simp] theorem up_FIRST : upper (Bytes.ofString "FIRST") = "FIRST" := by rw [upper_eq]; decide
@[simp] theorem up_LAST : upper (Bytes.ofString "LAST") = "LAST" := by rw [upper_eq]; decide
@[simp] theorem up_DISTINCT : upper (Bytes.ofString "DISTINCT") = "DISTINCT" := by rw [upper_eq]; decide
@[simp] theorem up_JOIN : upper (Bytes.ofString "JOIN") = "JOIN" := by rw [upper_eq]; decide
@[simp] theorem up_LEFT : upper (Bytes.ofString "LEFT") = "LEFT" := by rw [upper_eq]; decide
@[simp] theorem up_ON : upper (Bytes.ofString "ON") = "ON" := by rw [upper_eq]; decide
@[simp] theorem up_WITH : upper (Bytes.ofString "WITH") = "WITH" := by rw [upper_eq]; decide
@[simp] theorem up_COUNT : upper (Bytes.ofString "COUNT") = "COUNT" := by rw [upper_eq]; decide

/-- `pSelect`, cut into its clauses -/
theorem pSelect_build {L r2 r3 r4 r5 r6 r7 r8 : List STok} {items : List SelectItem} {src : TableRef}
    {jn : Option JoinClause} {wh : Option SExpr} {gb : List SExpr} {ob : List OrderTerm} {lim : Option SExpr}
    (h1 : pItems (L.length + 1) L = some (items, RT.W "FROM" :: r2))
    (h2 : pTableRef r2 = some (src, r3))
    (h3 : joinPart r3 = some (jn, r4))
    (h4 : wherePart r4 = some (wh, r5))
    (h5 : groupPart r5 = some (gb, r6))
    (h6 : orderPart r6 = some (ob, r7))
    (h7 : limitPart r7 = some (lim, r8)) :
    pSelect (RT.W "SELECT" :: L) =
      some ({ items, source := src, join := jn, where_ := wh, groupBy := gb, orderBy := ob, limit := lim }, r8) := by
  rw [pSelect_eq]
  simp [pSelect', h1, h2, h3, h4, h5, h6, h7]

/-! ### what follows a clause -/

/-- a token that ends an expression, is not a comma, and is none of the keywords `ks` -/
def endTok (ks : List String) (t : STok) : Bool :=
  stopTok t && !isSym t "," && ks.all fun k => !isWord t k

theorem endTok_stop {ks : List String} {r : List STok} (h : Ends (endTok ks) r) : Ends stopTok r :=
  h.mono fun t ht => by simp only [endTok, Bool.and_eq_true] at ht; exact ht.1.1

theorem endTok_comma {ks : List String} {t : STok} (h : endTok ks t = true) : isSym t "," = false := by
  simp only [endTok, Bool.and_eq_true, Bool.not_eq_true'] at h; exact h.1.2

theorem endTok_word {ks : List String} {t : STok} (h : endTok ks t = true) {k : String} (hk : k ∈ ks) :
    isWord t k = false := by
  simp only [endTok, Bool.and_eq_true, List.all_eq_true, Bool.not_eq_true'] at h
  exact h.2 k hk

theorem endTok_mono {ks ks' : List String} (hs : ∀ k ∈ ks', k ∈ ks) {r : List STok} (h : Ends (endTok ks) r) :
    Ends (endTok ks') r :=
  h.mono fun t ht => by
    simp only [endTok, Bool.and_eq_true, List.all_eq_true] at ht ⊢
    exact ⟨ht.1, fun k hk => ht.2 k (hs k hk)⟩

/-- all clause keywords that can follow the source of a SELECT -/
def allKws : List String := ["AS", "JOIN", "LEFT", "WHERE", "GROUP", "ORDER", "LIMIT"]

/-- the statement / CTE closers -/
def Closer (rest : List STok) : Prop := ∃ tl, rest = S ")" :: tl ∨ rest = S ";" :: tl

theorem Closer.ends {rest : List STok} (h : Closer rest) : Ends (endTok allKws) rest := by
  obtain ⟨tl, rfl | rfl⟩ := h
  · exact (by decide : endTok allKws (S ")") = true)
  · exact (by decide : endTok allKws (S ";") = true)

theorem stop_kw {w : Bytes} (h : upper w ∈ C01.clauseWords) : stopTok (.word w) = true :=
  C01.Stops.clauseWord h []

end Pql.C05
