/-
Scoped ParseRoundtrip / LexRender (task R5), part 6: the scopes the statement loop builds.

`ScopeLetsEnv src scope env`: `scope` was built from let statements, oldest last: every entry is
`(n, wrapTight x cs)` where `x` is `lexOK` and `shapeOK` and `writeExpr ⟨src, scope', .let_⟩ x = .ok cs`
under the scope `scope'` that precedes it; `env` is the environment `resolveLets` builds for the same
lets (every value resolved in the environment before it).
-/
import PqlModel.Lemmas.ScopeRTJoin
import PqlModel.Lemmas.ScopeRTLex
namespace Pql.RT
open Pql Sql CompileOracle

inductive ScopeLetsEnv (src : Bytes) : Scope → List (Bytes × Expr) → Prop
  | nil : ScopeLetsEnv src [] []
  | cons {scope : Scope} {env : List (Bytes × Expr)} (n : Bytes) (x : Expr) (cs : List Chunk) :
      ScopeLetsEnv src scope env → x.lexOK = true → shapeOK x = true →
      writeExpr ⟨src, scope, .let_⟩ x = .ok cs →
      ScopeLetsEnv src ((n, wrapTight x cs) :: scope) ((n, substExpr env x) :: env)

/-- the scope alone -/
def ScopeLets (src : Bytes) (scope : Scope) : Prop := ∃ env, ScopeLetsEnv src scope env

theorem joinOK_let (src : Bytes) (scope : Scope) (env : List (Bytes × Expr)) : JoinOK ⟨src, scope, .let_⟩ env :=
  fun h => by cases h

/-- every stored value is read as one atom: the translation of the resolved value -/
theorem scopeRT_of_lets {src : Bytes} {scope : Scope} {env : List (Bytes × Expr)} (h : ScopeLetsEnv src scope env) :
    ScopeRT false scope env := by
  induction h with
  | nil => exact scopeRT_nil false
  | @cons scope env n x cs _ hok hshape hw ih =>
    have g : GoodS ⟨src, scope, .let_⟩ env x := goodS_all ⟨src, scope, .let_⟩ env ih (joinOK_let src scope env) x hshape hok
    constructor
    · intro name sql hl
      rw [lookupScope_cons] at hl
      rw [List.find?_cons]
      dsimp only at hl ⊢
      cases hn : n == name with
      | true =>
        rw [hn] at hl
        simp only [if_true, Option.some.injEq] at hl
        subst hl
        exact ⟨n, _, rfl, fun want hwant => g.tight hw hwant⟩
      | false =>
        rw [hn] at hl
        simp only [Bool.false_eq_true, if_false] at hl
        exact ih.bound name sql hl
    · intro name hl
      rw [lookupScope_cons] at hl
      rw [List.find?_cons]
      dsimp only at hl ⊢
      cases hn : n == name with
      | true => rw [hn] at hl; simp at hl
      | false =>
        rw [hn] at hl
        simp only [Bool.false_eq_true, if_false] at hl
        exact ih.free name hl

/-- every stored value is lexically self-contained and does not start with `-` -/
theorem scopeAdj_of_lets {src : Bytes} {scope : Scope} {env : List (Bytes × Expr)} (h : ScopeLetsEnv src scope env) :
    LexRender.ScopeAdj scope := by
  induction h with
  | nil => exact LexRender.scopeAdj_nil
  | @cons scope env n x cs _ hok _ hw ih =>
    have inv := LexRender.writeExpr_goodS ⟨src, scope, .let_⟩ ih x hok cs hw
    exact LexRender.scopeAdj_cons ih (LexRender.good_wrapTight x inv.1) (LexRender.head_wrapTight x inv.2)

/-! ### the statement loop -/

/-- once the query has been seen, the scope no longer changes -/
theorem compileStmts_some (src : Bytes) : (stmts : List Stmt) → (scope : Scope) → (t : Tabular) →
    (scope' : Scope) → (q' : Option Tabular) → compileStmts src stmts scope (some t) = .ok (scope', q') → scope' = scope
  | [], _, _, _, _, h => by
    simp only [compileStmts, Except.ok.injEq, Prod.mk.injEq] at h
    exact h.1.symm
  | .tabular _ :: _, _, _, _, _, h => by simp [compileStmts] at h
  | .let_ _ _ _ _ :: rest, scope, t, scope', q', h => by
    simp only [compileStmts] at h
    exact compileStmts_some src rest scope t scope' q' h

def LetValuesOK (stmts : List Stmt) : Prop :=
  ∀ st ∈ stmts, ∀ kw n a x, st = Stmt.let_ kw n a x → x.lexOK = true ∧ shapeOK x = true

theorem compileStmts_scopeLets (src : Bytes) : (stmts : List Stmt) → (scope : Scope) → (env : List (Bytes × Expr)) →
    ScopeLetsEnv src scope env → LetValuesOK stmts → (scope' : Scope) → (q' : Option Tabular) →
    compileStmts src stmts scope none = .ok (scope', q') → ScopeLetsEnv src scope' (letsEnv stmts env)
  | [], scope, env, hs, _, scope', q', h => by
    simp only [compileStmts, Except.ok.injEq, Prod.mk.injEq] at h
    rw [← h.1]
    simpa only [letsEnv] using hs
  | .tabular t :: rest, scope, env, hs, _, scope', q', h => by
    simp only [compileStmts] at h
    rw [compileStmts_some src rest scope t scope' q' h]
    simpa only [letsEnv] using hs
  | .let_ kw name a x :: rest, scope, env, hs, hv, scope', q', h => by
    simp only [compileStmts] at h
    cases hw : writeExpr ⟨src, scope, .let_⟩ x with
    | error e => rw [hw] at h; cases h
    | ok bx =>
      rw [hw] at h
      cases name with
      | none => cases h
      | some nm =>
        have h' : compileStmts src rest ((nm.name, wrapTight x bx) :: scope) none = .ok (scope', q') := h
        obtain ⟨hok, hshape⟩ := hv _ (List.mem_cons_self) kw (some nm) a x rfl
        simp only [letsEnv]
        exact compileStmts_scopeLets src rest _ _ (.cons nm.name x bx hs hok hshape hw)
          (fun st hst => hv st (List.mem_cons_of_mem _ hst)) scope' q' h'

end Pql.RT
