/-
Stage 2 of property C07 (forward direction): operators and tabular expressions.

`canonTabular` / `canonOp` : the span fields of *absent* optional parts are the null span (the
tokens do not determine them: `unparse` only asks whether they are valid):
sort terms without `asc`/`desc` or without `nulls …`; unnamed columns and plain `project`
columns (`assign`); `summarize` without `by`; `join` without `kind = …` (`kind`, `kindAssign`);
`render` without `with (…)` (`with`, `lparen`, `rparen`).
-/
import PqlModel.Lemmas.ForwardOps2
namespace Pql
open Grammar

mutual
def canonTabular : Tabular → Bool
  | .nil => true
  | .mk _ ops => canonOps ops
def canonOps : OpList → Bool
  | .nil => true
  | .cons o os => canonOp o && canonOps os
def canonOp : Op → Bool
  | .count _ _ => true
  | .where_ _ _ _ => true
  | .sort _ _ ts => ts.all canonSortTerm
  | .take _ _ _ => true
  | .top _ _ _ _ col => (match col with | some t => canonSortTerm t | none => true)
  | .project _ _ cs => cs.all canonColumn
  | .extend _ _ cs => cs.all canonColumn
  | .summarize _ _ cs b gs => cs.all canonColumn && gs.all canonColumn && canonSpan b
  | .join _ _ kind ka fl _ right _ _ _ =>
    canonTabular right && (fl.isSome || (kind == Span.null && ka == Span.null))
  | .as_ _ _ _ => true
  | .render _ _ _ w lp _ rp => w.isValid || (w == Span.null && lp == Span.null && rp == Span.null)
end

def canonStmt : Stmt → Bool
  | .let_ .. => true
  | .tabular t => canonTabular t

/-! ### passing over operator tokens at a `split` -/

/-- passed over when searching `)` (any nesting) or `|` (any nesting): the tokens of one operator -/
def OpPasses (ts : List Token) : Prop :=
  (∀ st, PassesAt .rparen st ts) ∧ (∀ st, PassesAt .pipe st ts)

/-- passed over when searching `)` (any nesting) or `|` inside brackets: a tabular expression -/
def TabPasses (ts : List Token) : Prop :=
  (∀ st, PassesAt .rparen st ts) ∧ (∀ st, st ≠ [] → PassesAt .pipe st ts)

theorem opPasses_of_passes {ts : List Token} (h : Passes ts) : OpPasses ts :=
  ⟨fun st => h _ st (Or.inl rfl), fun st => h _ st (Or.inr (Or.inr rfl))⟩

theorem opPasses_nil : OpPasses [] := opPasses_of_passes passes_nil

theorem opPasses_append {a b : List Token} (ha : OpPasses a) (hb : OpPasses b) : OpPasses (a ++ b) :=
  ⟨fun st => passesAt_append (ha.1 st) (hb.1 st), fun st => passesAt_append (ha.2 st) (hb.2 st)⟩

theorem opPasses_kind {t : Token} {k : TokKind} (hk : t.kind = k)
    (h : k ≠ .lparen ∧ k ≠ .lbracket ∧ k ≠ .rparen ∧ k ≠ .rbracket ∧ k ≠ .pipe := by decide) :
    OpPasses [t] := opPasses_of_passes (passes_kind hk h)

theorem opPasses_cons {t : Token} {ts : List Token} {k : TokKind} (hk : t.kind = k) (h : OpPasses ts)
    (hh : k ≠ .lparen ∧ k ≠ .lbracket ∧ k ≠ .rparen ∧ k ≠ .rbracket ∧ k ≠ .pipe := by decide) :
    OpPasses (t :: ts) := opPasses_append (a := [t]) (opPasses_kind hk hh) h

theorem opPasses_ident {i : Ident} {t : Token} (h : IsIdentTok i t) : OpPasses [t] :=
  opPasses_of_passes (isIdentTok_passes h)

theorem opPasses_named {t : Token} {a : String} (h : isIdentNamed t a = true) : OpPasses [t] :=
  opPasses_kind (isIdentNamed_kind h)

theorem opPasses_tab {ts : List Token} (h : OpPasses ts) : TabPasses ts := ⟨h.1, fun st _ => h.2 st⟩

/-- `( tabular )` -/
theorem opPasses_paren {tl tr : Token} {ts : List Token} (hl : tl.kind = .lparen) (hr : tr.kind = .rparen)
    (h : TabPasses ts) : OpPasses (tl :: (ts ++ [tr])) :=
  ⟨fun st => passesAt_paren hl hr (h.1 _), fun st => passesAt_paren hl hr (h.2 _ (by simp))⟩

theorem tabPasses_nil : TabPasses [] := opPasses_tab opPasses_nil

theorem tabPasses_append {a b : List Token} (ha : TabPasses a) (hb : TabPasses b) : TabPasses (a ++ b) :=
  ⟨fun st => passesAt_append (ha.1 st) (hb.1 st), fun st hs => passesAt_append (ha.2 st hs) (hb.2 st hs)⟩

/-- a pipe token inside brackets -/
theorem tabPasses_pipe {t : Token} (hk : t.kind = .pipe) : TabPasses [t] := by
  refine ⟨fun st => passesAt_single (by rw [hk]; decide) (by rw [hk]; decide) (by rw [hk]; decide)
    (by rw [hk]; decide) (by rw [hk]; decide), fun st hs => ?_⟩
  intro rest
  simp only [List.cons_append, List.nil_append]
  rw [splitAux]
  simp [hk, hs]

/-- `split` at the next top-level pipe, or at the end -/
theorem split_at_pipe {a tos : List Token} (ha : PassesAt .pipe [] a)
    (ht : tos = [] ∨ ∃ t r, tos = t :: r ∧ t.kind = .pipe) : split .pipe (a ++ tos) = (a, tos) := by
  unfold split
  rw [ha]
  rcases ht with rfl | ⟨t, r, rfl, hk⟩
  · simp [splitAux]
  · rw [splitAux]
    simp [hk]

/-! ### the tokens of items -/

theorem sortTerm_passes {t : SortTerm} {ts : List Token} (hwf : wfSortTerm t = true)
    (h : RealBy unparseSortTerm t ts) : OpPasses ts := by
  obtain ⟨tx, td, tn, rfl, hx, hd, hnl⟩ := sortTerm_real h
  simp only [wfSortTerm, Bool.and_eq_true] at hwf
  refine opPasses_append (opPasses_of_passes (real_passes _ 0 tx hwf.1.1 hx)) (opPasses_append ?_ ?_)
  · rcases hd with ⟨-, rfl⟩ | ⟨-, d, rfl, hdn, -⟩
    · exact opPasses_nil
    · exact opPasses_named hdn
  · rcases hnl with ⟨-, rfl⟩ | ⟨-, n1, n2, rfl, hn1, hn2, -⟩
    · exact opPasses_nil
    · exact opPasses_append (a := [n1]) (opPasses_named hn1) (opPasses_named hn2)

theorem column_passes {col : Column} {ts : List Token} (hwf : wfColumn col = true)
    (hcan : canonColumn col = true) (h : RealBy (unparseColumn false) col ts) : OpPasses ts := by
  rcases column_real h hwf hcan with ⟨n, tn, ta, tx, -, rfl, htn, hk, -, hx, hok⟩ | ⟨-, -, hx, hok⟩
  · exact opPasses_append (a := [tn]) (opPasses_ident htn)
      (opPasses_cons hk (opPasses_of_passes (real_passes _ 0 tx hok hx)))
  · exact opPasses_of_passes (real_passes _ 0 ts hok hx)

theorem projColumn_passes {col : Column} {ts : List Token} (hwf : wfColumn col = true)
    (hcan : canonColumn col = true) (h : RealBy (unparseColumn true) col ts) : OpPasses ts := by
  rcases projColumn_real h hwf hcan with ⟨n, tn, ta, tx, -, rfl, htn, hk, -, hx, hok⟩ | ⟨n, tn, -, rfl, htn⟩
  · exact opPasses_append (a := [tn]) (opPasses_ident htn)
      (opPasses_cons hk (opPasses_of_passes (real_passes _ 0 tx hok hx)))
  · exact opPasses_ident htn

theorem prop_passes {p : RenderProp} {ts : List Token} (hok : okExpr p.value = true)
    (h : RealBy unparseProp p ts) : OpPasses ts := by
  obtain ⟨n, tn, ta, tv, -, rfl, htn, hk, -, hv⟩ := prop_real h
  exact opPasses_append (a := [tn]) (opPasses_ident htn)
    (opPasses_cons hk (opPasses_of_passes (real_passes _ 0 tv hok hv)))

theorem itemsTail_passes {α : Type} {R : α → List Token → Prop} {P : α → Bool}
    (hR : ∀ x ts, P x = true → R x ts → OpPasses ts) : ∀ {xs : List α} {ts : List Token},
    xs.all P = true → ItemsTail R xs ts → OpPasses ts
  | [], ts, _, h => by
    have : ts = [] := h
    subst this; exact opPasses_nil
  | x :: xs, ts, hp, h => by
    obtain ⟨cm, tx, tr, rfl, hcm, hx, hr⟩ := h
    simp only [List.all_cons, Bool.and_eq_true] at hp
    exact opPasses_cons hcm (opPasses_append (hR x tx hp.1 hx) (itemsTail_passes hR hp.2 hr))

/-! ### the dispatch of `pOperator` on the operator name -/

theorem pOperator_count (c : PCtx) (f : Nat) (pipe : Span) (name : Token) (ts : List Token)
    (hv : name.value = Bytes.ofString "count") :
    pOperator c (f + 1) pipe name ts = some ⟨.count pipe name.span, [], ts⟩ := by
  rw [pOperator.eq_def]
  simp only []
  rw [hv]
  rw [if_pos (by decide)]

theorem pOperator_where (c : PCtx) (f : Nat) (pipe : Span) (name : Token) (ts : List Token)
    (hv : name.value = Bytes.ofString "where" ∨ name.value = Bytes.ofString "filter") :
    pOperator c (f + 1) pipe name ts = some ⟨.where_ pipe name.span (pExpr c f ts).val, mkOpaque (pExpr c f ts).errs, (pExpr c f ts).rest⟩ := by
  rw [pOperator.eq_def]
  simp only []
  rcases hv with hv | hv
  · rw [hv]
    rw [if_neg (by decide), if_pos (by decide)]
  · rw [hv]
    rw [if_neg (by decide), if_pos (by decide)]

theorem pOperator_sort (c : PCtx) (f : Nat) (pipe : Span) (name tb : Token) (rest : List Token)
    (hv : name.value = Bytes.ofString "sort" ∨ name.value = Bytes.ofString "order") (hb : tb.kind = .by_) :
    pOperator c (f + 1) pipe name (tb :: rest) =
      some ⟨.sort pipe ⟨name.span.start, tb.stop⟩ (pSortTerms c f (rest.length + 1) [] rest).val,
        (pSortTerms c f (rest.length + 1) [] rest).errs, (pSortTerms c f (rest.length + 1) [] rest).rest⟩ := by
  rw [pOperator.eq_def]
  simp only []
  rcases hv with hv | hv
  · rw [hv]
    rw [if_neg (by decide), if_neg (by decide), if_pos (by decide)]
    simp [hb]
  · rw [hv]
    rw [if_neg (by decide), if_neg (by decide), if_pos (by decide)]
    simp [hb]

theorem pOperator_top (c : PCtx) (f : Nat) (pipe : Span) (name tb : Token) (ts rest : List Token) (n : Expr)
    (hv : name.value = Bytes.ofString "top") (hR : pRowCount c f ts = ⟨n, [], tb :: rest⟩)
    (hb : tb.kind = .by_) :
    pOperator c (f + 1) pipe name ts =
      some ⟨.top pipe name.span n tb.span (pSortTerm c f rest).val, mkOpaque (pSortTerm c f rest).errs,
        (pSortTerm c f rest).rest⟩ := by
  rw [pOperator.eq_def]
  simp only []
  rw [hv]
  rw [if_neg (by decide), if_neg (by decide), if_neg (by decide), if_neg (by decide), if_pos (by decide)]
  simp [hR, hb]

theorem pOperator_take (c : PCtx) (f : Nat) (pipe : Span) (name : Token) (ts : List Token)
    (hv : name.value = Bytes.ofString "take" ∨ name.value = Bytes.ofString "limit") :
    pOperator c (f + 1) pipe name ts = some ⟨.take pipe name.span (pRowCount c f ts).val, mkOpaque (pRowCount c f ts).errs, (pRowCount c f ts).rest⟩ := by
  rw [pOperator.eq_def]
  simp only []
  rcases hv with hv | hv
  · rw [hv]
    rw [if_neg (by decide), if_neg (by decide), if_neg (by decide), if_pos (by decide)]
  · rw [hv]
    rw [if_neg (by decide), if_neg (by decide), if_neg (by decide), if_pos (by decide)]

theorem pOperator_project (c : PCtx) (f : Nat) (pipe : Span) (name : Token) (ts : List Token)
    (hv : name.value = Bytes.ofString "project") :
    pOperator c (f + 1) pipe name ts = some ⟨.project pipe name.span (pProjectCols c f (ts.length + 1) [] ts).val, (pProjectCols c f (ts.length + 1) [] ts).errs, (pProjectCols c f (ts.length + 1) [] ts).rest⟩ := by
  rw [pOperator.eq_def]
  simp only []
  rw [hv]
  rw [if_neg (by decide), if_neg (by decide), if_neg (by decide), if_neg (by decide), if_neg (by decide), if_pos (by decide)]

theorem pOperator_extend (c : PCtx) (f : Nat) (pipe : Span) (name : Token) (ts : List Token)
    (hv : name.value = Bytes.ofString "extend") :
    pOperator c (f + 1) pipe name ts = some ⟨.extend pipe name.span (pExtendCols c f (ts.length + 1) [] ts).val, (pExtendCols c f (ts.length + 1) [] ts).errs, (pExtendCols c f (ts.length + 1) [] ts).rest⟩ := by
  rw [pOperator.eq_def]
  simp only []
  rw [hv]
  rw [if_neg (by decide), if_neg (by decide), if_neg (by decide), if_neg (by decide), if_neg (by decide), if_neg (by decide), if_pos (by decide)]

theorem pOperator_summarize (c : PCtx) (f : Nat) (pipe : Span) (name : Token) (ts : List Token)
    (hv : name.value = Bytes.ofString "summarize") :
    pOperator c (f + 1) pipe name ts = some (pSummarize c f pipe name.span ts) := by
  rw [pOperator.eq_def]
  simp only []
  rw [hv]
  rw [if_neg (by decide), if_neg (by decide), if_neg (by decide), if_neg (by decide), if_neg (by decide), if_neg (by decide), if_neg (by decide), if_pos (by decide)]

theorem pOperator_join (c : PCtx) (f : Nat) (pipe : Span) (name : Token) (ts : List Token)
    (hv : name.value = Bytes.ofString "join") :
    pOperator c (f + 1) pipe name ts = some (pJoin c f pipe name.span ts) := by
  rw [pOperator.eq_def]
  simp only []
  rw [hv]
  rw [if_neg (by decide), if_neg (by decide), if_neg (by decide), if_neg (by decide), if_neg (by decide), if_neg (by decide), if_neg (by decide), if_neg (by decide), if_pos (by decide)]

theorem pOperator_as (c : PCtx) (f : Nat) (pipe : Span) (name : Token) (ts : List Token)
    (hv : name.value = Bytes.ofString "as") :
    pOperator c (f + 1) pipe name ts = some ⟨.as_ pipe name.span (pIdent c ts).val, mkOpaque (pIdent c ts).errs, (pIdent c ts).rest⟩ := by
  rw [pOperator.eq_def]
  simp only []
  rw [hv]
  rw [if_neg (by decide), if_neg (by decide), if_neg (by decide), if_neg (by decide), if_neg (by decide), if_neg (by decide), if_neg (by decide), if_neg (by decide), if_neg (by decide), if_pos (by decide)]

theorem pOperator_render (c : PCtx) (f : Nat) (pipe : Span) (name : Token) (ts : List Token)
    (hv : name.value = Bytes.ofString "render") :
    pOperator c (f + 1) pipe name ts = some (pRender c f pipe name.span ts) := by
  rw [pOperator.eq_def]
  simp only []
  rw [hv]
  rw [if_neg (by decide), if_neg (by decide), if_neg (by decide), if_neg (by decide), if_neg (by decide), if_neg (by decide), if_neg (by decide), if_neg (by decide), if_neg (by decide), if_neg (by decide), if_pos (by decide)]


/-! ### one operator -/

/-- the tokens `to` of one operator are `| name …`, and `pOperator` on them returns `o` -/
def OpParsed (c : PCtx) (f : Nat) (o : Op) (to : List Token) : Prop :=
  ∃ pipeTok name optoks, to = pipeTok :: name :: optoks ∧ pipeTok.kind = .pipe ∧ name.kind = .ident ∧
    pOperator c f pipeTok.span name optoks = some ⟨o, [], []⟩ ∧ OpPasses optoks

theorem op_prefix {p k : Span} {a : String} {as : List String} {us : List UTok} {to : List Token}
    (ha : accounts true (sym .pipe p :: kwTok (a :: as) k :: us) to = true) (hn : NoLparenComma to = true) :
    ∃ pipeTok name optoks, to = pipeTok :: name :: optoks ∧ pipeTok.kind = .pipe ∧ pipeTok.span = p ∧
      name.kind = .ident ∧ name.value ∈ (a :: as).map Bytes.ofString ∧ name.span = k ∧
      accounts true us optoks = true ∧ NoLparenComma optoks = true := by
  obtain ⟨pipeTok, t2, rfl, hp, h2⟩ := accounts_cons_inv rfl ha
  obtain ⟨name, optoks, rfl, hnm, h3⟩ := accounts_cons_inv rfl h2
  obtain ⟨hpk, hps⟩ := tokOk_sym_inv hp
  obtain ⟨hnk, hnv, hns⟩ := tokOk_kwTok_inv hnm
  exact ⟨pipeTok, name, optoks, rfl, hpk, hps, hnk, hnv, hns, h3, nlc_tail (nlc_tail hn)⟩

theorem op_count (c : PCtx) (f : Nat) (p k : Span) (to : List Token)
    (hr : RealBy unparseOp (.count p k) to) : OpParsed c (f + 1) (.count p k) to := by
  obtain ⟨us, hu, ha, hn⟩ := hr
  simp only [unparseOp, Option.some.injEq] at hu
  subst hu
  obtain ⟨pipeTok, name, optoks, rfl, hpk, hps, hnk, hnv, hns, ha', -⟩ := op_prefix ha hn
  have := accounts_nil_left ha'
  subst this hps hns
  refine ⟨pipeTok, name, [], rfl, hpk, hnk, ?_, opPasses_nil⟩
  rw [pOperator_count c f _ _ _ (by simpa using hnv)]

theorem op_where (c : PCtx) (f : Nat) (p k : Span) (e : Expr) (to : List Token)
    (hwf : wfOp (.where_ p k e) = true) (hr : RealBy unparseOp (.where_ p k e) to)
    (hf : 4 * to.length + 1 ≤ f + 1) : OpParsed c (f + 1) (.where_ p k e) to := by
  obtain ⟨us, hu, ha, hn⟩ := hr
  simp only [unparseOp, Option.bind_eq_bind, Option.pure_def, Option.bind_eq_some_iff,
    Option.some.injEq] at hu
  obtain ⟨xs, hx, rfl⟩ := hu
  obtain ⟨pipeTok, name, optoks, rfl, hpk, hps, hnk, hnv, hns, ha', hn'⟩ := op_prefix ha hn
  subst hps hns
  simp only [wfOp] at hwf
  have hrx : Real e optoks := ⟨xs, hx, ha', hn'⟩
  simp only [List.length_cons] at hf
  have hE := pExpr_real c f [] hwf hrx rfl (by simp only [List.append_nil]; omega)
  simp only [List.append_nil] at hE
  refine ⟨pipeTok, name, optoks, rfl, hpk, hnk, ?_, opPasses_of_passes (real_passes e 0 optoks hwf hrx)⟩
  rw [pOperator_where c f _ _ _ (by simpa using hnv), hE]
  rfl

theorem op_take (c : PCtx) (f : Nat) (p k : Span) (e : Expr) (to : List Token)
    (hwf : wfOp (.take p k e) = true) (hr : RealBy unparseOp (.take p k e) to)
    (hf : 4 * to.length + 1 ≤ f + 1) : OpParsed c (f + 1) (.take p k e) to := by
  obtain ⟨us, hu, ha, hn⟩ := hr
  simp only [unparseOp, Option.bind_eq_bind, Option.pure_def, Option.bind_eq_some_iff,
    Option.some.injEq] at hu
  obtain ⟨xs, hx, rfl⟩ := hu
  obtain ⟨pipeTok, name, optoks, rfl, hpk, hps, hnk, hnv, hns, ha', hn'⟩ := op_prefix ha hn
  subst hps hns
  simp only [wfOp, Bool.and_eq_true] at hwf
  have hrx : Real e optoks := ⟨xs, hx, ha', hn'⟩
  simp only [List.length_cons] at hf
  have hE := pRowCount_fwd c f e optoks [] hwf.1 hwf.2 hrx rfl (by simp only [List.append_nil]; omega)
  simp only [List.append_nil] at hE
  refine ⟨pipeTok, name, optoks, rfl, hpk, hnk, ?_, opPasses_of_passes (real_passes e 0 optoks hwf.1 hrx)⟩
  rw [pOperator_take c f _ _ _ (by simpa using hnv), hE]
  rfl

theorem op_as (c : PCtx) (f : Nat) (p k : Span) (n : Option Ident) (to : List Token)
    (hr : RealBy unparseOp (.as_ p k n) to) : OpParsed c (f + 1) (.as_ p k n) to := by
  obtain ⟨us, hu, ha, hn⟩ := hr
  simp only [unparseOp, Option.bind_eq_bind, Option.pure_def, Option.bind_eq_some_iff,
    Option.some.injEq] at hu
  obtain ⟨nm, rfl, rfl⟩ := hu
  obtain ⟨pipeTok, name, optoks, rfl, hpk, hps, hnk, hnv, hns, ha', -⟩ := op_prefix ha hn
  subst hps hns
  obtain ⟨tn, r, rfl, htn, hr'⟩ := accounts_cons_inv (by simp [identTok]) ha'
  have := accounts_nil_left hr'
  subst this
  have hid := tokOk_identTok_inv htn
  refine ⟨pipeTok, name, [tn], rfl, hpk, hnk, ?_, opPasses_ident hid⟩
  rw [pOperator_as c f _ _ _ (by simpa using hnv), pIdent_real hid]
  rfl

theorem tokOk_sortKw_inv {s : Int} {t : Token}
    (h : tokOk { kwPlain ["sort", "order"] with start := some s } t = true) :
    t.kind = .ident ∧ (t.value = Bytes.ofString "sort" ∨ t.value = Bytes.ofString "order") ∧
      s = (t.start : Int) := by
  simp only [tokOk, tokMatches, posMatches, kwPlain, List.map_cons, List.map_nil, List.isEmpty_cons,
    Bool.false_eq_true, if_false, Bool.and_eq_true, beq_iff_eq, List.contains_eq_mem, decide_eq_true_eq,
    List.mem_cons, List.mem_nil_iff, or_false, and_true] at h
  exact ⟨h.1.1.symm, h.1.2, h.2⟩

theorem tokOk_byStop_inv {s : Int} {t : Token}
    (h : tokOk { kind := .by_, stop := some s } t = true) : t.kind = .by_ ∧ s = (t.stop : Int) := by
  simp only [tokOk, tokMatches, posMatches, Bool.and_eq_true, beq_iff_eq, true_and] at h
  exact ⟨h.1.1.symm, h.2⟩

theorem op_sort (c : PCtx) (f : Nat) (p k : Span) (ts : List SortTerm) (to : List Token)
    (hwf : wfOp (.sort p k ts) = true) (hcan : canonOp (.sort p k ts) = true)
    (hr : RealBy unparseOp (.sort p k ts) to) (hf : 4 * to.length + 1 ≤ f + 1) :
    OpParsed c (f + 1) (.sort p k ts) to := by
  obtain ⟨us, hu, ha, hn⟩ := hr
  simp only [wfOp] at hwf
  simp only [canonOp] at hcan
  cases ts with
  | nil => simp [unparseOp] at hu
  | cons x xs =>
    cases hl : listM unparseSortTerm (x :: xs) with
    | none => simp [unparseOp, hl] at hu
    | some tss =>
      rw [unparse_sort p k (by simp) hl, Option.some.injEq] at hu
      subst hu
      obtain ⟨pipeTok, t2, rfl, hp, h2⟩ := accounts_cons_inv rfl ha
      obtain ⟨name, t3, rfl, hnm, h3⟩ := accounts_cons_inv rfl h2
      obtain ⟨tb, terms, rfl, htb, h4⟩ := accounts_cons_inv rfl h3
      obtain ⟨hpk, hps⟩ := tokOk_sym_inv hp
      obtain ⟨hnk, hnv, hns⟩ := tokOk_sortKw_inv hnm
      obtain ⟨hbk, hbs⟩ := tokOk_byStop_inv htb
      obtain ⟨x', xs', tx, tr, hxx, rfl, hx, hxs⟩ := items_real (by simp) hl h4 (nlc_tail (nlc_tail (nlc_tail hn)))
      simp only [List.cons.injEq] at hxx
      obtain ⟨rfl, rfl⟩ := hxx
      simp only [List.all_cons, Bool.and_eq_true] at hwf hcan
      have hlen := itemsTail_length hxs
      simp only [List.length_cons, List.length_append] at hf
      have hT := pSortTerms_fwd c f xs ((tx ++ tr).length + 1) [] x tx tr [] hwf.1 hcan.1 hwf.2 hcan.2 hx hxs rfl rfl
        (by simp only [List.length_append]; omega)
        (by simp only [List.length_append, List.length_nil]; omega)
      simp only [List.append_nil, List.nil_append] at hT
      have hk : k = ⟨name.span.start, tb.stop⟩ := by
        cases k; simp only [Token.span] at *; simp [hns, hbs]
      subst hps hk
      refine ⟨pipeTok, name, tb :: (tx ++ tr), rfl, hpk, hnk, ?_, ?_⟩
      · rw [pOperator_sort c f _ _ _ _ hnv hbk, hT]
      · exact opPasses_cons hbk (opPasses_append (sortTerm_passes hwf.1 hx)
          (itemsTail_passes (P := wfSortTerm) (fun _ _ h1 h2 => sortTerm_passes h1 h2) hwf.2 hxs))

theorem op_top (c : PCtx) (f : Nat) (p k : Span) (n : Expr) (b : Span) (col : Option SortTerm)
    (to : List Token) (hwf : wfOp (.top p k n b col) = true) (hcan : canonOp (.top p k n b col) = true)
    (hr : RealBy unparseOp (.top p k n b col) to) (hf : 4 * to.length + 1 ≤ f + 1) :
    OpParsed c (f + 1) (.top p k n b col) to := by
  obtain ⟨us, hu, ha, hn⟩ := hr
  simp only [unparseOp, Option.bind_eq_bind, Option.pure_def, Option.bind_eq_some_iff,
    Option.some.injEq] at hu
  obtain ⟨xs, hx, t, rfl, cs, hcs, rfl⟩ := hu
  simp only [wfOp, Bool.and_eq_true] at hwf
  simp only [canonOp] at hcan
  obtain ⟨pipeTok, name, optoks, rfl, hpk, hps, hnk, hnv, hns, ha', hn'⟩ := op_prefix ha hn
  subst hps hns
  obtain ⟨tn, t2, rfl, h1, h2⟩ := accounts_split ha'
  obtain ⟨tb, tcol, rfl, htb, h3⟩ := accounts_cons_inv rfl h2
  obtain ⟨hbk, hbs⟩ := tokOk_sym_inv htb
  subst hbs
  have hrn : Real n tn := ⟨xs, hx, h1, nlc_left hn'⟩
  have hrc : RealBy unparseSortTerm t tcol := ⟨cs, hcs, h3, nlc_tail (nlc_right hn')⟩
  simp only [List.length_cons, List.length_append] at hf
  have hR := pRowCount_fwd c f n tn (tb :: tcol) hwf.1.1 hwf.1.2 hrn (stopsAt_kind hbk)
    (by simp only [List.length_append, List.length_cons]; omega)
  have hT := pSortTerm_fwd c f t tcol [] hwf.2 hcan hrc rfl (by simp only [List.append_nil]; omega)
  simp only [List.append_nil] at hT
  refine ⟨pipeTok, name, tn ++ tb :: tcol, rfl, hpk, hnk, ?_, ?_⟩
  · rw [pOperator_top c f _ _ tb _ tcol n (by simpa using hnv) hR hbk, hT]
    rfl
  · exact opPasses_append (opPasses_of_passes (real_passes n 0 tn hwf.1.1 hrn))
      (opPasses_cons hbk (sortTerm_passes hwf.2 hrc))

theorem op_project (c : PCtx) (f : Nat) (p k : Span) (cs : List Column) (to : List Token)
    (hwf : wfOp (.project p k cs) = true) (hcan : canonOp (.project p k cs) = true)
    (hr : RealBy unparseOp (.project p k cs) to) (hf : 4 * to.length + 1 ≤ f + 1) :
    OpParsed c (f + 1) (.project p k cs) to := by
  obtain ⟨us, hu, ha, hn⟩ := hr
  simp only [wfOp] at hwf
  simp only [canonOp] at hcan
  cases cs with
  | nil => simp [unparseOp] at hu
  | cons x xs =>
    cases hl : listM (unparseColumn true) (x :: xs) with
    | none => simp [unparseOp, hl] at hu
    | some css =>
      rw [unparse_project p k (by simp) hl, Option.some.injEq] at hu
      subst hu
      obtain ⟨pipeTok, name, optoks, rfl, hpk, hps, hnk, hnv, hns, ha', hn'⟩ := op_prefix ha hn
      subst hps hns
      obtain ⟨x', xs', tx, tr, hxx, rfl, hx, hxs⟩ := items_real (by simp) hl ha' hn'
      simp only [List.cons.injEq] at hxx
      obtain ⟨rfl, rfl⟩ := hxx
      simp only [List.all_cons, Bool.and_eq_true] at hwf hcan
      have hlen := itemsTail_length hxs
      simp only [List.length_cons, List.length_append] at hf
      have hT := pProjectCols_fwd c f xs ((tx ++ tr).length + 1) [] x tx tr hwf.1 hcan.1 hwf.2 hcan.2 hx hxs
        (by simp only [List.length_append]; omega) (by simp only [List.length_append]; omega)
      simp only [List.nil_append] at hT
      refine ⟨pipeTok, name, tx ++ tr, rfl, hpk, hnk, ?_, ?_⟩
      · rw [pOperator_project c f _ _ _ (by simpa using hnv), hT]
      · refine opPasses_append (projColumn_passes hwf.1 hcan.1 hx) ?_
        have hboth : xs.all (fun col => wfColumn col && canonColumn col) = true := by
          have h1 := hwf.2
          have h2 := hcan.2
          rw [List.all_eq_true] at h1 h2 ⊢
          intro col hc
          simp [h1 col hc, h2 col hc]
        exact itemsTail_passes (P := fun col => wfColumn col && canonColumn col)
          (fun col ts h1 h2 => by
            simp only [Bool.and_eq_true] at h1
            exact projColumn_passes h1.1 h1.2 h2) hboth hxs

theorem cols_passes {xs : List Column} {tr : List Token} (hwf : xs.all wfColumn = true)
    (hcan : xs.all canonColumn = true) (hxs : ItemsTail (RealBy (unparseColumn false)) xs tr) :
    OpPasses tr := by
  have hboth : xs.all (fun col => wfColumn col && canonColumn col) = true := by
    rw [List.all_eq_true] at hwf hcan ⊢
    intro col hc
    simp [hwf col hc, hcan col hc]
  exact itemsTail_passes (P := fun col => wfColumn col && canonColumn col)
    (fun col ts h1 h2 => by
      simp only [Bool.and_eq_true] at h1
      exact column_passes h1.1 h1.2 h2) hboth hxs

theorem op_extend (c : PCtx) (f : Nat) (p k : Span) (cs : List Column) (to : List Token)
    (hwf : wfOp (.extend p k cs) = true) (hcan : canonOp (.extend p k cs) = true)
    (hr : RealBy unparseOp (.extend p k cs) to) (hf : 4 * to.length + 1 ≤ f + 1) :
    OpParsed c (f + 1) (.extend p k cs) to := by
  obtain ⟨us, hu, ha, hn⟩ := hr
  simp only [wfOp] at hwf
  simp only [canonOp] at hcan
  cases cs with
  | nil => simp [unparseOp] at hu
  | cons x xs =>
    cases hl : listM (unparseColumn false) (x :: xs) with
    | none => simp [unparseOp, hl] at hu
    | some css =>
      rw [unparse_extend p k (by simp) hl, Option.some.injEq] at hu
      subst hu
      obtain ⟨pipeTok, name, optoks, rfl, hpk, hps, hnk, hnv, hns, ha', hn'⟩ := op_prefix ha hn
      subst hps hns
      obtain ⟨x', xs', tx, tr, hxx, rfl, hx, hxs⟩ := items_real (by simp) hl ha' hn'
      simp only [List.cons.injEq] at hxx
      obtain ⟨rfl, rfl⟩ := hxx
      simp only [List.all_cons, Bool.and_eq_true] at hwf hcan
      have hlen := itemsTail_length hxs
      simp only [List.length_cons, List.length_append] at hf
      have hT := pExtendCols_fwd c f xs ((tx ++ tr).length + 1) [] x tx tr [] hwf.1 hcan.1 hwf.2 hcan.2 hx hxs rfl rfl
        (by simp only [List.length_append]; omega)
        (by simp only [List.length_append, List.length_nil]; omega)
      simp only [List.append_nil, List.nil_append] at hT
      refine ⟨pipeTok, name, tx ++ tr, rfl, hpk, hnk, ?_, ?_⟩
      · rw [pOperator_extend c f _ _ _ (by simpa using hnv), hT]
      · exact opPasses_append (column_passes hwf.1 hcan.1 hx) (cols_passes hwf.2 hcan.2 hxs)

theorem op_summarize (c : PCtx) (f : Nat) (p k : Span) (cs : List Column) (b : Span) (gs : List Column)
    (to : List Token) (hwf : wfOp (.summarize p k cs b gs) = true)
    (hcan : canonOp (.summarize p k cs b gs) = true)
    (hr : RealBy unparseOp (.summarize p k cs b gs) to) (hf : 4 * to.length + 1 ≤ f + 1) :
    OpParsed c (f + 1) (.summarize p k cs b gs) to := by
  obtain ⟨us, hu, ha, hn⟩ := hr
  simp only [wfOp, Bool.and_eq_true] at hwf
  simp only [canonOp, Bool.and_eq_true] at hcan
  cases hlc : listM (unparseColumn false) cs with
  | none => simp [unparseOp, hlc] at hu
  | some css =>
    cases hlg : listM (unparseColumn false) gs with
    | none => simp [unparseOp, hlc, hlg] at hu
    | some gss =>
      by_cases hv : b.isValid = true
      · -- with `by`
        cases gs with
        | nil => simp [unparseOp, hlc, hlg, hv] at hu
        | cons g gs' =>
          rw [unparse_summarize_by p k b hv (by simp) hlc hlg, Option.some.injEq] at hu
          subst hu
          obtain ⟨pipeTok, name, optoks, rfl, hpk, hps, hnk, hnv, hns, ha', hn'⟩ := op_prefix ha hn
          subst hps hns
          obtain ⟨tcols, t2, rfl, h1, h2⟩ := accounts_split ha'
          simp only [List.length_cons, List.length_append] at hf
          have hby : ∃ tc tb tg cm, t2 = tc ++ tb :: tg ∧ OptCommaReal tc cm ∧ tb.kind = .by_ ∧ tb.span = b ∧
              accounts true (sepBy commaTok gss) tg = true ∧ (tc ≠ [] → cs ≠ []) := by
            rcases accounts_cons_inv_opt h2 with ⟨tb, tg, rfl, htb, h3⟩ | ⟨cm, tb, tg, rfl, hcm, htb, h3, hopt⟩
            · obtain ⟨hbk, hbs⟩ := tokOk_symOpt_inv htb
              exact ⟨[], tb, tg, none, rfl, Or.inl ⟨rfl, rfl⟩, hbk, hbs, h3, fun h => absurd rfl h⟩
            · obtain ⟨hbk, hbs⟩ := tokOk_symOpt_inv htb
              refine ⟨[cm], tb, tg, some cm.span, rfl, Or.inr ⟨cm, rfl, hcm, rfl⟩, hbk, hbs, h3, fun _ => ?_⟩
              rintro rfl
              simp at hopt
          obtain ⟨tc, tb, tg, cm, rfl, hoc, hbk, hbs, h3, hne⟩ := hby
          subst hbs
          have hng : NoLparenComma tg = true := nlc_tail (nlc_right (nlc_right hn'))
          obtain ⟨g', gs'', tg1, tgr, hgg, rfl, hg, hgs⟩ := items_real (by simp) hlg h3 hng
          simp only [List.cons.injEq] at hgg
          obtain ⟨rfl, rfl⟩ := hgg
          have hpg : OpPasses (tb :: (tg1 ++ tgr)) := by
            have hg2 := hwf.2
            have hc2 := hcan.1.2
            simp only [List.all_cons, Bool.and_eq_true] at hg2 hc2
            exact opPasses_cons hbk (opPasses_append (column_passes hg2.1 hc2.1 hg) (cols_passes hg2.2 hc2.2 hgs))
          cases cs with
          | nil =>
            simp only [listM, Option.some.injEq] at hlc
            subst hlc
            have : tcols = [] := accounts_nil_left h1
            subst this
            have : tc = [] := by
              cases tc with
              | nil => rfl
              | cons a as => exact absurd rfl (hne (by simp))
            subst this
            simp only [List.nil_append, List.length_nil, List.length_cons, List.length_append] at hf ⊢
            refine ⟨pipeTok, name, tb :: (tg1 ++ tgr), rfl, hpk, hnk, ?_, hpg⟩
            rw [pOperator_summarize c f _ _ _ (by simpa using hnv)]
            rw [pSummarize_byOnly c f _ _ g gs' tb tg1 tgr hwf.2 hcan.1.2 hbk hg hgs
              (by simp only [List.length_cons, List.length_append]; omega)]
          | cons x xs =>
            obtain ⟨x', xs', tx, tr, hxx, rfl, hx, hxs⟩ := items_real (by simp) hlc h1 (nlc_left hn')
            simp only [List.cons.injEq] at hxx
            obtain ⟨rfl, rfl⟩ := hxx
            have hclen : tc.length ≤ 1 := by
              rcases hoc with ⟨rfl, -⟩ | ⟨t, rfl, -, -⟩ <;> simp
            refine ⟨pipeTok, name, tx ++ tr ++ (tc ++ tb :: (tg1 ++ tgr)), rfl, hpk, hnk, ?_, ?_⟩
            · rw [pOperator_summarize c f _ _ _ (by simpa using hnv)]
              have hlist : tx ++ tr ++ (tc ++ tb :: (tg1 ++ tgr)) = tx ++ tr ++ tc ++ tb :: (tg1 ++ tgr) := by simp
              rw [hlist]
              rw [pSummarize_by c f _ _ x xs g gs' tx tr tc tb tg1 tgr cm hwf.1 hcan.1.1 hwf.2 hcan.1.2 hx hxs hoc hbk
                hg hgs (by simp only [List.length_cons, List.length_append] at hf ⊢; omega)]
            · have hw1 := hwf.1
              have hc1 := hcan.1.1
              simp only [List.all_cons, Bool.and_eq_true] at hw1 hc1
              refine opPasses_append (opPasses_append (column_passes hw1.1 hc1.1 hx) (cols_passes hw1.2 hc1.2 hxs))
                (opPasses_append ?_ hpg)
              rcases hoc with ⟨rfl, -⟩ | ⟨t, rfl, ht, -⟩
              · exact opPasses_nil
              · exact opPasses_kind ht
      · -- without `by`
        have hb := canonSpan_invalid hcan.2 (by simpa using hv)
        subst hb
        cases gs with
        | cons g gs' => simp [unparseOp, hlc, hlg] at hu
        | nil =>
          cases cs with
          | nil => simp [unparseOp, hlc, hlg] at hu
          | cons x xs =>
            rw [unparse_summarize_noby p k (by simp) hlc, Option.some.injEq] at hu
            subst hu
            obtain ⟨pipeTok, name, optoks, rfl, hpk, hps, hnk, hnv, hns, ha', hn'⟩ := op_prefix ha hn
            subst hps hns
            obtain ⟨x', xs', tx, tr, hxx, rfl, hx, hxs⟩ := items_real (by simp) hlc ha' hn'
            simp only [List.cons.injEq] at hxx
            obtain ⟨rfl, rfl⟩ := hxx
            simp only [List.length_cons, List.length_append] at hf
            refine ⟨pipeTok, name, tx ++ tr, rfl, hpk, hnk, ?_, ?_⟩
            · rw [pOperator_summarize c f _ _ _ (by simpa using hnv)]
              rw [pSummarize_plain c f _ _ x xs tx tr hwf.1 hcan.1.1 hx hxs
                (by simp only [List.length_append]; omega)]
            · have hw1 := hwf.1
              have hc1 := hcan.1.1
              simp only [List.all_cons, Bool.and_eq_true] at hw1 hc1
              exact opPasses_append (column_passes hw1.1 hc1.1 hx) (cols_passes hw1.2 hc1.2 hxs)

theorem op_render (c : PCtx) (f : Nat) (p k : Span) (ch : Option Ident) (w lp : Span)
    (props : List RenderProp) (rp : Span) (to : List Token)
    (hwf : wfOp (.render p k ch w lp props rp) = true) (hcan : canonOp (.render p k ch w lp props rp) = true)
    (hr : RealBy unparseOp (.render p k ch w lp props rp) to) (hf : 4 * to.length + 1 ≤ f + 1) :
    OpParsed c (f + 1) (.render p k ch w lp props rp) to := by
  obtain ⟨us, hu, ha, hn⟩ := hr
  simp only [wfOp] at hwf
  simp only [canonOp] at hcan
  cases ch with
  | none => simp [unparseOp] at hu
  | some chart =>
    cases hl : listM unparseProp props with
    | none => simp [unparseOp, hl] at hu
    | some pss =>
      by_cases hv : w.isValid = true
      · cases props with
        | nil => simp [unparseOp, hl, hv] at hu
        | cons x xs =>
          rw [unparse_render_with p k w lp rp chart hv (by simp) hl, Option.some.injEq] at hu
          subst hu
          obtain ⟨pipeTok, name, optoks, rfl, hpk, hps, hnk, hnv, hns, ha', hn'⟩ := op_prefix ha hn
          subst hps hns
          obtain ⟨tch, t2, rfl, htch, h2⟩ := accounts_cons_inv (by simp [identTok]) ha'
          obtain ⟨tw, t3, rfl, htw, h3⟩ := accounts_cons_inv rfl h2
          obtain ⟨tlp, t4, rfl, htlp, h4⟩ := accounts_cons_inv rfl h3
          obtain ⟨tprops, t5, rfl, h5, h6⟩ := accounts_split h4
          obtain ⟨trp, t6, rfl, htrp, h7⟩ := accounts_cons_inv rfl h6
          have := accounts_nil_left h7
          subst this
          have hch := tokOk_identTok_inv htch
          obtain ⟨hwn, hws⟩ := tokOk_kwTok1_inv htw
          obtain ⟨hlk, hls⟩ := tokOk_sym_inv htlp
          obtain ⟨hrk, hrs⟩ := tokOk_sym_inv htrp
          subst hws hls hrs
          obtain ⟨x', xs', tx, tr, hxx, rfl, hx, hxs⟩ := items_real (by simp) hl h5
            (nlc_left (nlc_tail (nlc_tail (nlc_tail hn'))))
          simp only [List.cons.injEq] at hxx
          obtain ⟨rfl, rfl⟩ := hxx
          simp only [List.length_cons, List.length_append, List.length_nil] at hf
          refine ⟨pipeTok, name, tch :: tw :: tlp :: (tx ++ tr ++ [trp]), rfl, hpk, hnk, ?_, ?_⟩
          · rw [pOperator_render c f _ _ _ (by simpa using hnv)]
            rw [pRender_with c f _ _ chart tch tw tlp x xs tx tr trp hch hwn hlk hwf hx hxs hrk
              (by simp only [List.length_cons, List.length_append, List.length_nil]; omega)]
          · have hw1 := hwf
            simp only [List.all_cons, Bool.and_eq_true] at hw1
            refine opPasses_append (a := [tch]) (opPasses_ident hch)
              (opPasses_append (a := [tw]) (opPasses_named hwn) (opPasses_paren hlk hrk (opPasses_tab ?_)))
            exact opPasses_append (prop_passes hw1.1 hx)
              (itemsTail_passes (P := fun p => okExpr p.value) (fun _ _ h1 h2 => prop_passes h1 h2) hw1.2 hxs)
      · have hnull : (w = Span.null ∧ lp = Span.null) ∧ rp = Span.null := by
          simpa [hv] using hcan
        obtain ⟨⟨rfl, rfl⟩, rfl⟩ := hnull
        cases props with
        | cons x xs => simp [unparseOp, hl] at hu
        | nil =>
          rw [unparse_render_plain, Option.some.injEq] at hu
          subst hu
          obtain ⟨pipeTok, name, optoks, rfl, hpk, hps, hnk, hnv, hns, ha', hn'⟩ := op_prefix ha hn
          subst hps hns
          obtain ⟨tch, t2, rfl, htch, h2⟩ := accounts_cons_inv (by simp [identTok]) ha'
          have := accounts_nil_left h2
          subst this
          have hch := tokOk_identTok_inv htch
          refine ⟨pipeTok, name, [tch], rfl, hpk, hnk, ?_, opPasses_ident hch⟩
          rw [pOperator_render c f _ _ _ (by simpa using hnv), pRender_plain c f _ _ chart tch hch]

end Pql
