/-
C03 semantics, helper 10: `BlockSem` holds for the empty operator list (the block `SELECT * FROM T`),
wherever it is placed — used to instantiate the chain theorem on concrete programs.
-/
import PqlModel.Lemmas.JoinSemChain
namespace Pql.JoinSem
open Pql Sql CompileOracle Intended

def starSelect (n : Bytes) : Select :=
  { items := [starItem], source := .named n none, join := none, where_ := none, groupBy := [], orderBy := [],
    limit := none }

/-- `SELECT * FROM n` is the table `n` -/
theorem evalSelect_star (db : DB) (ctes : List (Bytes × Table)) (n : Bytes) :
    evalSelect db ctes (starSelect n) = lookupTable db ctes n := by
  simp only [starSelect, evalSelect, refTable, starItem, Option.getD, List.isEmpty_nil, Bool.not_true, List.any_cons,
    List.any_nil, Bool.false_and, Bool.or_false, Bool.false_eq_true, ↓reduceIte, List.flatMap_cons,
    List.flatMap_nil, List.append_nil, List.map_map]
  have : ((fun x : Env × List Env × List Val => x.snd.snd) ∘ (fun x : Env × List Val => (x.fst, ([] : List Env), x.snd)) ∘
      fun r => (envOfRow [] (lookupTable db ctes n).cols r, r)) = id := rfl
  rw [this, List.map_id]

theorem BlockSem_nil (src : Bytes) (db : DB) (ctes0 : List (Bytes × Table)) (dst : List SubA) (T : Ident) :
    BlockSem src db ctes0 dst T .nil := by
  intro R sels hsplit hsels _ hfresh
  have hR : R = [chainA dst dst.length (some T)] := by
    simp only [splitA, splitOpsA, bind, Option.bind, ↓reduceIte, pure, Option.some.injEq] at hsplit
    exact (List.append_cancel_left hsplit).symm
  subst hR
  obtain ⟨sel, hsel, rfl⟩ := mapM_single src _ _ hsels
  have hsel' : sel = starSelect T.name := by
    simp [selOf, chainA, identName, bind, Option.bind, pure] at hsel
    exact hsel.symm
  subst hsel'
  show lookupTable db (runCtes db ctes0 ([] ++ [_])) _ = _
  rw [runCtes_snoc]
  have hnil' : ∀ c, runCtes db c [] = c := fun _ => rfl
  simp only [hnil', Rel.interpOps]
  have hl : lastName [chainA dst dst.length (some T)] = (chainA dst dst.length (some T)).name := by
    simp [lastName]
  rw [hl, lookupTable_snoc_self _ _ _ _ (hfresh _ (by simp)), evalSelect_star]

theorem stmtOf_some_of_mapM (src : Bytes) (R : List SubA) (sels : List (Bytes × Select)) (hne : R ≠ [])
    (h : R.mapM (linkSel src) = some sels) : ∃ st, stmtOf src R = some st := by
  rcases List.eq_nil_or_concat R with rfl | ⟨init, q, rfl⟩
  · exact absurd rfl hne
  · rw [List.concat_eq_append] at h ⊢
    obtain ⟨a, b, ha, hb, _⟩ := mapM_append_some _ _ _ _ h
    obtain ⟨body, hbody, _⟩ := mapM_single src q b hb
    refine ⟨⟨a, body⟩, ?_⟩
    simp only [stmtOf, List.reverse_append, List.reverse_cons, List.reverse_nil, List.nil_append,
      List.singleton_append, List.reverse_reverse]
    change ((init.mapM (linkSel src)).bind fun ctes =>
      (selOf src q).bind fun body => some (Statement.mk ctes body)) = _
    simp only [ha, hbody, Option.bind]

/-- **R3's theorem as stated in its task** (`C02_statement_semantics`: the statement of a join-free
    pipeline evaluates to the pipeline's meaning) is `BlockSem` at the start of the chain. -/
theorem BlockSem_of_statement (src : Bytes) (db : DB) (T : Ident) (ops : OpList)
    (hjf : SplitQ.joinFree ops = true)
    (hR3 : ∀ subs st, splitA [] (.mk (some T) ops) = some subs → stmtOf src subs = some st →
      (subs.map (·.name)).Nodup →
      evalStatement db st = Rel.interpOps src db (lookupTable db [] T.name) ops) :
    BlockSem src db [] [] T ops := by
  intro R sels hsplit hsels hnd _
  obtain ⟨R', hR', hne⟩ := splitA_frame [] _ (some T) ops hjf hsplit
  simp only [List.nil_append] at hR' hsplit
  subst hR'
  obtain ⟨st, hst⟩ := stmtOf_some_of_mapM src R sels hne hsels
  obtain ⟨all, hall, hev⟩ := evalStatement_chain src db R st hst hnd
  rw [hsels] at hall
  cases hall
  rw [← hev]
  exact hR3 R st hsplit hst hnd

end Pql.JoinSem
