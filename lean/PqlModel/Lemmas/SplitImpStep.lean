/-
The statement groups of `SplitImp.Machine`, one specification each: under the loop invariant
`Inv` they succeed, re-establish `Inv`, respect `Frame`, and the list the new `dst` denotes is the
functional model's expression.
-/
import PqlModel.Lemmas.SplitImpHeap
namespace Pql.SplitImp
open Pql SplitQ

/-! ### `chainSubquery` -/

theorem chainSubqueryI_ok (h : Heap) (dst : List Addr) (k : Nat) (source : Option Ident)
    (hv : ∀ a ∈ dst, a < h.size) (hs : dst.length ≤ k → source.isSome = true) :
    chainSubqueryI h dst k source = .ok (h.push (chainSubquery (abs h dst) k source), h.size) := by
  unfold chainSubqueryI alloc
  simp only
  by_cases hlen : dst.length > k
  · rw [if_pos hlen]
    have hne : dst ≠ [] := by intro e; rw [e] at hlen; simp at hlen
    obtain ⟨pre, p, rfl⟩ : ∃ pre p, dst = pre ++ [p] :=
      ⟨dst.dropLast, dst.getLast hne, (List.dropLast_concat_getLast hne).symm⟩
    have hp : p < h.size := hv p (by simp)
    rw [index_last]
    simp only [bind, Except.bind, pure, Except.pure]
    rw [load_push_lt _ _ hp]
    simp only
    rw [store_ok _ _ (by simp), cell_push_size, push_set_last]
    simp only [chainSubquery, abs_length, if_pos hlen, abs_getLast?]
  · rw [if_neg hlen]
    have hsome := hs (by omega)
    obtain ⟨i, rfl⟩ := Option.isSome_iff_exists.mp hsome
    simp only [dataSourceSQLI, bind, Except.bind, pure, Except.pure]
    rw [store_ok _ _ (by simp), cell_push_size, push_set_last]
    simp only [chainSubquery, abs_length, if_neg hlen, identName]

theorem stChain_ok (source : Option Ident) (k : Nat) (st : St)
    (hv : ∀ a ∈ st.dst, a < st.heap.size) (hs : st.dst.length ≤ k → source.isSome = true) :
    stChain source k st =
      .ok ⟨st.heap.push (chainSubquery (abs st.heap st.dst) k source), st.dst, some st.heap.size⟩ := by
  unfold stChain
  rw [chainSubqueryI_ok _ _ _ _ hv hs]
  rfl

/-- `lastSubquery.f = v` on the object just allocated (not yet appended) -/
theorem stAssign_fresh (h : Heap) (c : Subquery) (dst : List Addr) (f : Subquery → Subquery) :
    stAssign f ⟨h.push c, dst, some h.size⟩ = .ok ⟨h.push (f c), dst, some h.size⟩ := by
  unfold stAssign
  simp only [deref, bind, Except.bind, pure, Except.pure]
  rw [store_ok _ _ (by simp), cell_push_size, push_set_last]

theorem stAppend_some (h : Heap) (dst : List Addr) (p : Addr) :
    stAppend ⟨h, dst, some p⟩ = .ok ⟨h, dst ++ [p], some p⟩ := rfl

/-- the result of a successful statement group: the new state satisfies the invariant, the frame
    condition holds, and `dst` denotes `out` -/
structure Post (n0 k : Nat) (st st' : St) (out : List Subquery) : Prop where
  abs_eq : abs st'.heap st'.dst = out
  inv : Inv n0 k st'
  frame : Frame n0 st.heap st'.heap
  /-- `dst` is only ever appended to, and only pointers to new objects -/
  ext : ∃ new, st'.dst = st.dst ++ new ∧ ∀ a ∈ new, st.heap.size ≤ a

/-- `p := chainSubquery(…); p.f… = …; dst = append(dst, p)` -/
theorem post_fresh {n0 k : Nat} {st : St} (inv : Inv n0 k st) (s : Subquery) :
    Post n0 k st ⟨st.heap.push s, st.dst ++ [st.heap.size], some st.heap.size⟩
      (abs st.heap st.dst ++ [s]) :=
  ⟨abs_push_snoc _ _ inv.valid, inv_fresh s inv.valid inv.base inv.start_le, Frame.push _ _ _ inv.base,
    [st.heap.size], rfl, by simp⟩

/-! ### `lastSubquery.f = v` through the pointer = `setLast` on the denoted list -/

theorem stAssign_inv {n0 k : Nat} {st : St} (inv : Inv n0 k st) {p : Addr} (hl : st.last = some p)
    (f : Subquery → Subquery) :
    ∃ st', stAssign f st = .ok st' ∧ st'.last = some p ∧
      Post n0 k st st' (setLast (abs st.heap st.dst) f) := by
  have hlast := inv.last
  rw [hl] at hlast
  obtain ⟨hk, hn0, pre, hd, hnot⟩ := hlast
  have hp : p < st.heap.size := inv.valid p (by rw [hd]; simp)
  refine ⟨⟨st.heap.setIfInBounds p (f (cell st.heap p)), st.dst, some p⟩, ?_, rfl, ?_, ?_, ?_,
    [], by simp, by simp⟩
  · unfold stAssign
    rw [hl]
    simp only [deref, bind, Except.bind, pure, Except.pure]
    rw [store_ok _ _ hp]
  · show abs (st.heap.setIfInBounds p (f (cell st.heap p))) st.dst = _
    rw [hd, abs_set_last _ _ hp hnot, abs_append]
    have : abs st.heap [p] = [cell st.heap p] := rfl
    rw [this, setLast_const]
  · refine ⟨?_, ?_, inv.start_le, ?_⟩
    · intro a ha
      simp only [Array.size_setIfInBounds]
      exact inv.valid a ha
    · simp only [Array.size_setIfInBounds]; exact inv.base
    · exact ⟨hk, hn0, pre, hd, hnot⟩
  · exact Frame.set _ _ _ _ hn0

/-! ### the guarded `chainSubquery` of sort / take / top -/

theorem stGuard_ok {n0 k : Nat} {st : St} (inv : Inv n0 k st) (g : Subquery → Bool) :
    stGuard g st = .ok (match lastOf (abs st.heap st.dst) k with | some l => g l | none => true) := by
  rw [lastOf_abs inv]
  unfold stGuard
  cases hl : st.last with
  | none => rfl
  | some p =>
    have hlast := inv.last
    rw [hl] at hlast
    obtain ⟨_, _, pre, hd, _⟩ := hlast
    have hp : p < st.heap.size := inv.valid p (by rw [hd]; simp)
    simp only [bind, Except.bind, pure, Except.pure, Option.map]
    rw [load_ok _ hp]

/-- `if lastSubquery == nil || g(*lastSubquery) { lastSubquery = chainSubquery(…); dst = append(dst, lastSubquery) }`:
    afterwards `lastSubquery` is non-nil and the invariant holds; `g'` is the functional model's
    (negated) reading of the guard -/
theorem stChainIf_inv {n0 k : Nat} {st : St} (inv : Inv n0 k st) (source : Option Ident)
    (hs : source.isSome = true) (g g' : Subquery → Bool) (hg : ∀ l, g' l = !g l) :
    ∃ st' p, stChainIf g source k st = .ok st' ∧ st'.last = some p ∧
      Post n0 k st st'
        (if (match lastOf (abs st.heap st.dst) k with | some l => g' l | none => false) = true
          then abs st.heap st.dst
          else abs st.heap st.dst ++ [chainSubquery (abs st.heap st.dst) k source]) := by
  unfold stChainIf
  rw [stGuard_ok inv g]
  simp only [bind, Except.bind]
  cases hlo : lastOf (abs st.heap st.dst) k with
  | none =>
    simp only [if_true, Bool.false_eq_true, if_false]
    rw [stChain_ok source k st inv.valid (fun _ => hs)]
    simp only [stAppend_some]
    exact ⟨_, _, rfl, rfl, post_fresh inv _⟩
  | some l =>
    simp only [hg l]
    by_cases hgl : g l = true
    · simp only [hgl, if_true, Bool.not_true, Bool.false_eq_true, if_false]
      rw [stChain_ok source k st inv.valid (fun _ => hs)]
      simp only [stAppend_some]
      exact ⟨_, _, rfl, rfl, post_fresh inv _⟩
    · have hgl' : g l = false := by simpa using hgl
      simp only [hgl', Bool.false_eq_true, if_false, Bool.not_false, if_true, pure, Except.pure]
      rw [lastOf_abs inv] at hlo
      cases hl : st.last with
      | none => rw [hl] at hlo; cases hlo
      | some p => exact ⟨st, p, rfl, hl, rfl, inv, Frame.refl _ _, [], by simp, by simp⟩

end Pql.SplitImp
