/-
Where the span fields of the (partial) trees of the parser come from (property C10, failed
parses — the trees).

`X.SpansIn Q`   : every `Span` field of the node `X` and of its descendants satisfies `Q`;
`ToksQ Q ts`    : the span of every token of `ts` satisfies `Q`, and so does the extent
                  `⟨a.start, b.stop⟩` of any two tokens `a` before `b` of `ts`;
`ValIn Q V r`   : the value of a production's result satisfies `V`, the remaining tokens `ToksQ`.

For a predicate `Q` that holds of `Span.null`, of `Span.zero` and (in the sense of `ToksQ`) of
the tokens handed to a production, every span field of the tree the production builds satisfies
`Q`: each is `Span.null`, `Span.zero` (the never-assigned `Rbrack` of a broken index expression),
the span of a token, or a two-token extent (`nulls first`, `sort by`).  This holds for every
fuel, and whether or not the production reports errors.
-/
import PqlModel.Lemmas.SplitBasic
namespace Pql

/-! ### vocabulary -/

def AllIn {α : Type} (V : α → Prop) (l : List α) : Prop := ∀ x ∈ l, V x

def OptV {α : Type} (V : α → Prop) : Option α → Prop
  | none => True
  | some a => V a

def IdentIn (Q : Span → Prop) (i : Ident) : Prop := Q i.span

mutual
def Expr.SpansIn (Q : Span → Prop) : Expr → Prop
  | .nil => True
  | .qident parts => AllIn (IdentIn Q) parts
  | .lit sp _ _ => Q sp
  | .unary os _ x => Q os ∧ x.SpansIn Q
  | .binary x os _ y => x.SpansIn Q ∧ Q os ∧ y.SpansIn Q
  | .inE x i lp vals rp => x.SpansIn Q ∧ Q i ∧ Q lp ∧ vals.SpansIn Q ∧ Q rp
  | .paren lp x rp => Q lp ∧ x.SpansIn Q ∧ Q rp
  | .call fn lp args rp => IdentIn Q fn ∧ Q lp ∧ args.SpansIn Q ∧ Q rp
  | .index x lb idx rb => x.SpansIn Q ∧ Q lb ∧ idx.SpansIn Q ∧ Q rb
def ExprList.SpansIn (Q : Span → Prop) : ExprList → Prop
  | .nil => True
  | .cons e es => e.SpansIn Q ∧ es.SpansIn Q
end

def SortTerm.SpansIn (Q : Span → Prop) (t : SortTerm) : Prop :=
  t.x.SpansIn Q ∧ Q t.ascDescSpan ∧ Q t.nullsSpan

def Column.SpansIn (Q : Span → Prop) (c : Column) : Prop :=
  OptV (IdentIn Q) c.name ∧ Q c.assign ∧ c.x.SpansIn Q

def RenderProp.SpansIn (Q : Span → Prop) (p : RenderProp) : Prop :=
  OptV (IdentIn Q) p.name ∧ Q p.assign ∧ p.value.SpansIn Q

mutual
def Tabular.SpansIn (Q : Span → Prop) : Tabular → Prop
  | .nil => True
  | .mk src ops => OptV (IdentIn Q) src ∧ ops.SpansIn Q
def Op.SpansIn (Q : Span → Prop) : Op → Prop
  | .count p k => Q p ∧ Q k
  | .where_ p k e => Q p ∧ Q k ∧ e.SpansIn Q
  | .sort p k ts => Q p ∧ Q k ∧ AllIn (SortTerm.SpansIn Q) ts
  | .take p k n => Q p ∧ Q k ∧ n.SpansIn Q
  | .top p k n b col => Q p ∧ Q k ∧ n.SpansIn Q ∧ Q b ∧ OptV (SortTerm.SpansIn Q) col
  | .project p k cs => Q p ∧ Q k ∧ AllIn (Column.SpansIn Q) cs
  | .extend p k cs => Q p ∧ Q k ∧ AllIn (Column.SpansIn Q) cs
  | .summarize p k cs b gs =>
    Q p ∧ Q k ∧ AllIn (Column.SpansIn Q) cs ∧ Q b ∧ AllIn (Column.SpansIn Q) gs
  | .join p k kind ka fl lp right rp on conds =>
    Q p ∧ Q k ∧ Q kind ∧ Q ka ∧ OptV (IdentIn Q) fl ∧ Q lp ∧ right.SpansIn Q ∧ Q rp ∧ Q on ∧
      conds.SpansIn Q
  | .as_ p k n => Q p ∧ Q k ∧ OptV (IdentIn Q) n
  | .render p k ch w lp props rp =>
    Q p ∧ Q k ∧ OptV (IdentIn Q) ch ∧ Q w ∧ Q lp ∧ AllIn (RenderProp.SpansIn Q) props ∧ Q rp
def OpList.SpansIn (Q : Span → Prop) : OpList → Prop
  | .nil => True
  | .cons o os => o.SpansIn Q ∧ os.SpansIn Q
end

def Stmt.SpansIn (Q : Span → Prop) : Stmt → Prop
  | .let_ kw name asg x => Q kw ∧ OptV (IdentIn Q) name ∧ Q asg ∧ x.SpansIn Q
  | .tabular t => t.SpansIn Q

/-- token spans and the extents of ordered pairs of tokens satisfy `Q` -/
def ToksQ (Q : Span → Prop) (ts : List Token) : Prop :=
  (∀ t ∈ ts, Q t.span) ∧ ts.Pairwise (fun a b => Q ⟨a.start, b.stop⟩)

structure ValIn (Q : Span → Prop) {α : Type} (V : α → Prop) (r : PRes α) : Prop where
  val : V r.val
  rest : ToksQ Q r.rest

section
variable {Q : Span → Prop}

@[simp] theorem AllIn_nil {α : Type} (V : α → Prop) : AllIn V [] ↔ True := by simp [AllIn]

@[simp] theorem AllIn_cons {α : Type} (V : α → Prop) (a : α) (l : List α) :
    AllIn V (a :: l) ↔ V a ∧ AllIn V l := by simp [AllIn]

@[simp] theorem AllIn_append {α : Type} (V : α → Prop) (l₁ l₂ : List α) :
    AllIn V (l₁ ++ l₂) ↔ AllIn V l₁ ∧ AllIn V l₂ := by
  simp only [AllIn, List.mem_append]
  constructor
  · intro h; exact ⟨fun e he => h e (Or.inl he), fun e he => h e (Or.inr he)⟩
  · rintro ⟨h1, h2⟩ e (he | he)
    · exact h1 e he
    · exact h2 e he

@[simp] theorem OptV_none {α : Type} (V : α → Prop) : OptV V none ↔ True := Iff.rfl
@[simp] theorem OptV_some {α : Type} (V : α → Prop) (a : α) : OptV V (some a) ↔ V a := Iff.rfl

@[simp] theorem ToksQ_nil : ToksQ Q [] ↔ True := by simp [ToksQ]

@[simp] theorem ToksQ_cons (t : Token) (ts : List Token) :
    ToksQ Q (t :: ts) ↔ Q t.span ∧ (∀ b ∈ ts, Q ⟨t.start, b.stop⟩) ∧ ToksQ Q ts := by
  simp only [ToksQ, List.mem_cons, forall_eq_or_imp, List.pairwise_cons]
  constructor
  · rintro ⟨⟨h1, h2⟩, h3, h4⟩; exact ⟨h1, h3, h2, h4⟩
  · rintro ⟨h1, h3, h2, h4⟩; exact ⟨⟨h1, h2⟩, h3, h4⟩

theorem ToksQ.sublist {l₁ l₂ : List Token} (hs : l₁.Sublist l₂) (h : ToksQ Q l₂) : ToksQ Q l₁ :=
  ⟨fun t ht => h.1 t (hs.subset ht), h.2.sublist hs⟩

theorem ToksQ.split1 {k : TokKind} {ts : List Token} (h : ToksQ Q ts) : ToksQ Q (split k ts).1 := by
  rw [← split_append k ts] at h; exact h.sublist (List.sublist_append_left _ _)

theorem ToksQ.split2 {k : TokKind} {ts : List Token} (h : ToksQ Q ts) : ToksQ Q (split k ts).2 := by
  rw [← split_append k ts] at h; exact h.sublist (List.sublist_append_right _ _)

theorem ToksQ.splitSemi1 {ts : List Token} (h : ToksQ Q ts) : ToksQ Q (splitSemi ts).1 := by
  rw [← splitSemi_append ts] at h; exact h.sublist (List.sublist_append_left _ _)

theorem ToksQ.splitSemi2 {ts : List Token} (h : ToksQ Q ts) : ToksQ Q (splitSemi ts).2 := by
  rw [← splitSemi_append ts] at h; exact h.sublist (List.sublist_append_right _ _)

theorem valIn_mk {α : Type} (V : α → Prop) (v : α) (e : Errs) (r : List Token) :
    ValIn Q V (PRes.mk v e r) ↔ V v ∧ ToksQ Q r :=
  ⟨fun h => ⟨h.val, h.rest⟩, fun h => ⟨h.1, h.2⟩⟩

theorem ExprList.spansIn_snoc : (es : ExprList) → (x : Expr) →
    ((es.snoc x).SpansIn Q ↔ es.SpansIn Q ∧ x.SpansIn Q)
  | .nil, x => by simp [ExprList.snoc, ExprList.SpansIn]
  | .cons e es, x => by
    simp only [ExprList.snoc, ExprList.SpansIn, ExprList.spansIn_snoc es x, and_assoc]

theorem OpList.spansIn_snoc : (os : OpList) → (x : Op) →
    ((os.snoc x).SpansIn Q ↔ os.SpansIn Q ∧ x.SpansIn Q)
  | .nil, x => by simp [OpList.snoc, OpList.SpansIn]
  | .cons o os, x => by
    simp only [OpList.snoc, OpList.SpansIn, OpList.spansIn_snoc os x, and_assoc]

end

/-- closes leaf goals: the facts are in the context, up to unfolding `SpansIn` -/
macro "tree_leaf" : tactic =>
  `(tactic| first
    | assumption
    | (simp_all only [valIn_mk, AllIn_nil, AllIn_cons, AllIn_append, OptV_none, OptV_some,
        ToksQ_nil, ToksQ_cons, IdentIn, Expr.SpansIn, ExprList.SpansIn, SortTerm.SpansIn,
        Column.SpansIn, RenderProp.SpansIn, Tabular.SpansIn, Op.SpansIn, OpList.SpansIn,
        Stmt.SpansIn, List.forall_mem_cons, List.not_mem_nil, false_implies, implies_true,
        and_self, and_true, true_and]; done))

/-! ### identifiers -/

section
variable {Q : Span → Prop} {c : PCtx}

theorem pIdent_tree (ts : List Token) (ht : ToksQ Q ts) :
    ValIn Q (OptV (IdentIn Q)) (pIdent c ts) := by
  unfold pIdent
  split
  · split <;> tree_leaf
  · tree_leaf

theorem pQualTail_tree : ∀ (fuel : Nat) (parts : List Ident) (ts : List Token),
    AllIn (IdentIn Q) parts → ToksQ Q ts →
      ValIn Q (AllIn (IdentIn Q)) (pQualTail c fuel parts ts) := by
  intro fuel
  induction fuel with
  | zero => intro parts ts hp ht; simp only [pQualTail]; tree_leaf
  | succ fuel ih =>
    intro parts ts hp ht
    simp only [pQualTail]
    split
    · rename_i t rest
      have hi := pIdent_tree (c := c) rest ((ToksQ_cons t rest).mp ht).2.2
      split
      · split
        · rename_i sel hsel
          have hv := hi.val
          rw [hsel] at hv
          exact ih _ _ ((AllIn_append _ _ _).mpr ⟨hp, by simpa using hv⟩) hi.rest
        · exact ⟨hp, hi.rest⟩
      · exact ⟨hp, ht⟩
    · exact ⟨hp, by simp⟩

theorem pQualifiedIdent_tree (ts : List Token) (ht : ToksQ Q ts) :
    ValIn Q (OptV (AllIn (IdentIn Q))) (pQualifiedIdent c ts) := by
  have hi := pIdent_tree (c := c) ts ht
  simp only [pQualifiedIdent]
  split
  · exact ⟨trivial, hi.rest⟩
  · rename_i id hid
    have hv := hi.val
    rw [hid] at hv
    have hq := pQualTail_tree (c := c) ((pIdent c ts).rest.length + 1) [id] _
      (by simpa using hv) hi.rest
    exact ⟨hq.val, hq.rest⟩

end

/-! ### expressions -/

structure ExprTree (Q : Span → Prop) (c : PCtx) (fuel : Nat) : Prop where
  expr : ∀ ts, ToksQ Q ts → ValIn Q (Expr.SpansIn Q) (pExpr c fuel ts)
  trail : ∀ x m acc ts, x.SpansIn Q → ToksQ Q ts →
    ValIn Q (Expr.SpansIn Q) (pTrail c fuel x m acc ts)
  higher : ∀ y p acc ts, y.SpansIn Q → ToksQ Q ts →
    ValIn Q (Expr.SpansIn Q) (pHigher c fuel y p acc ts)
  unary : ∀ ts, ToksQ Q ts → ValIn Q (Expr.SpansIn Q) (pUnary c fuel ts)
  primary : ∀ ts, ToksQ Q ts → ValIn Q (Expr.SpansIn Q) (pPrimary c fuel ts)
  inner : ∀ ts, ToksQ Q ts → ValIn Q (Expr.SpansIn Q) (pInner c fuel ts)
  exprList : ∀ ts, ToksQ Q ts → ValIn Q (ExprList.SpansIn Q) (pExprList c fuel ts)
  exprListTail : ∀ acc ts, acc.SpansIn Q → ToksQ Q ts →
    ValIn Q (ExprList.SpansIn Q) (pExprListTail c fuel acc ts)

section
variable {Q : Span → Prop} {c : PCtx}

theorem ExprTree.zero : ExprTree Q c 0 := by
  constructor <;> intros <;>
    simp only [pExpr, pTrail, pHigher, pUnary, pPrimary, pInner, pExprList, pExprListTail] <;>
    tree_leaf

theorem pExpr_tree_step (fuel : Nat) (ih : ExprTree Q c fuel) (ts : List Token)
    (ht : ToksQ Q ts) : ValIn Q (Expr.SpansIn Q) (pExpr c (fuel + 1) ts) := by
  simp only [pExpr]
  have h1 := ih.unary ts ht
  split
  · exact h1
  · have h2 := ih.trail (pUnary c fuel ts).val 0 [] (pUnary c fuel ts).rest h1.val h1.rest
    exact ⟨h2.val, h2.rest⟩

theorem pTrail_tree_step (hnull : Q .null) (fuel : Nat) (ih : ExprTree Q c fuel) (x : Expr)
    (m : Int) (acc : Errs) (ts : List Token) (hx : x.SpansIn Q) (ht : ToksQ Q ts) :
    ValIn Q (Expr.SpansIn Q) (pTrail c (fuel + 1) x m acc ts) := by
  simp only [pTrail]
  split
  · tree_leaf
  · rename_i op1 rest
    obtain ⟨hop, -, hrest⟩ := (ToksQ_cons op1 rest).mp ht
    split
    · exact ⟨hx, ht⟩
    · split
      · split
        · tree_leaf
        · rename_i lp rest2
          obtain ⟨hlp, -, hrest2⟩ := (ToksQ_cons lp rest2).mp hrest
          split
          · tree_leaf
          · obtain ⟨hlv, hlr⟩ := ih.exprList _ (hrest2.split1 (k := .rparen))
            have h2 := hrest2.split2 (k := .rparen)
            split
            · tree_leaf
            · rename_i rp rest3 heq
              rw [heq] at h2
              obtain ⟨hrp, -, hrest3⟩ := (ToksQ_cons rp rest3).mp h2
              split
              · tree_leaf
              · refine ih.trail _ _ _ _ ?_ hrest3
                simp only [Expr.SpansIn]
                exact ⟨hx, hop, hlp, hlv, hrp⟩
      · have hu := ih.unary rest hrest
        have hh := ih.higher (pUnary c fuel rest).val (precOf op1.kind)
          (acc ++ mkOpaque (pUnary c fuel rest).errs) (pUnary c fuel rest).rest hu.val hu.rest
        refine ih.trail _ _ _ _ ?_ hh.rest
        simp only [Expr.SpansIn]
        exact ⟨hx, hop, hh.val⟩

theorem pHigher_tree_step (fuel : Nat) (ih : ExprTree Q c fuel) (y : Expr) (p : Int)
    (acc : Errs) (ts : List Token) (hy : y.SpansIn Q) (ht : ToksQ Q ts) :
    ValIn Q (Expr.SpansIn Q) (pHigher c (fuel + 1) y p acc ts) := by
  simp only [pHigher]
  split
  · tree_leaf
  · rename_i op2 rest
    split
    · exact ⟨hy, ht⟩
    · have h1 := ih.trail y (p + 1) [] (op2 :: rest) hy ht
      exact ih.higher _ _ _ _ h1.val h1.rest

theorem pUnary_tree_step (fuel : Nat) (ih : ExprTree Q c fuel) (ts : List Token)
    (ht : ToksQ Q ts) : ValIn Q (Expr.SpansIn Q) (pUnary c (fuel + 1) ts) := by
  simp only [pUnary]
  split
  · tree_leaf
  · rename_i t rest
    obtain ⟨htt, -, hrest⟩ := (ToksQ_cons t rest).mp ht
    split
    · have h1 := ih.primary rest hrest
      refine ⟨?_, h1.rest⟩
      simp only [Expr.SpansIn]
      exact ⟨htt, h1.val⟩
    · exact ih.primary _ ht

theorem pPrimary_tree_step (hzero : Q .zero) (fuel : Nat) (ih : ExprTree Q c fuel)
    (ts : List Token) (ht : ToksQ Q ts) :
    ValIn Q (Expr.SpansIn Q) (pPrimary c (fuel + 1) ts) := by
  simp only [pPrimary]
  have h1 := ih.inner ts ht
  split
  · exact h1
  · split
    · exact ⟨h1.val, by simp⟩
    · rename_i t rest heq
      have hr := h1.rest
      rw [heq] at hr
      obtain ⟨htt, -, hrest⟩ := (ToksQ_cons t rest).mp hr
      have h1v := h1.val
      split
      · obtain ⟨hiv, hir⟩ := ih.expr _ (hrest.split1 (k := .rbracket))
        have h2 := hrest.split2 (k := .rbracket)
        split
        · tree_leaf
        · rename_i rb rest2 heq2
          rw [heq2] at h2
          obtain ⟨hrb, -, hrest2⟩ := (ToksQ_cons rb rest2).mp h2
          split
          · tree_leaf
          · tree_leaf
      · exact ⟨h1.val, h1.rest⟩

theorem pInner_tree_step (hnull : Q .null) (fuel : Nat) (ih : ExprTree Q c fuel)
    (ts : List Token) (ht : ToksQ Q ts) :
    ValIn Q (Expr.SpansIn Q) (pInner c (fuel + 1) ts) := by
  simp only [pInner]
  split
  · tree_leaf
  · rename_i t rest
    obtain ⟨htt, hext, hrest⟩ := (ToksQ_cons t rest).mp ht
    have hq := pQualifiedIdent_tree (c := c) (t :: rest) ht
    have hqv := hq.val
    have hqr := hq.rest
    split
    · tree_leaf
    · split
      · split
        · exact ⟨trivial, hqr⟩
        · rename_i parts hval
          rw [hval] at hqv
          have hparts : (Expr.qident parts).SpansIn Q := by simpa [Expr.SpansIn] using hqv
          split
          · exact ⟨hparts, hqr⟩
          · split
            · exact ⟨hparts, hqr⟩
            · split
              · exact ⟨hparts, by simp⟩
              · rename_i lp rest2 heq
                have hr := hqr
                rw [heq] at hr
                obtain ⟨hlp, -, hrest2⟩ := (ToksQ_cons lp rest2).mp hr
                split
                · exact ⟨hparts, hqr⟩
                · obtain ⟨hav, har⟩ := ih.exprList _ (hrest2.split1 (k := .rparen))
                  have h2 := hrest2.split2 (k := .rparen)
                  split
                  · refine ⟨?_, by simp⟩
                    simp only [Expr.SpansIn, IdentIn]
                    exact ⟨htt, hlp, hav, hnull⟩
                  · rename_i rp rest3 heq3
                    have h2' := h2
                    rw [heq3] at h2'
                    obtain ⟨hrp, -, hrest3⟩ := (ToksQ_cons rp rest3).mp h2'
                    split
                    · refine ⟨?_, hrest3⟩
                      simp only [Expr.SpansIn, IdentIn]
                      exact ⟨htt, hlp, hav, hrp⟩
                    · refine ⟨?_, h2⟩
                      simp only [Expr.SpansIn, IdentIn]
                      exact ⟨htt, hlp, hav, hnull⟩
      · split
        · split
          · exact ⟨trivial, hqr⟩
          · rename_i parts hval
            rw [hval] at hqv
            exact ⟨by simpa [Expr.SpansIn] using hqv, hqr⟩
        · split
          · obtain ⟨hxv, hxr⟩ := ih.expr _ (hrest.split1 (k := .rparen))
            have h2 := hrest.split2 (k := .rparen)
            split
            · tree_leaf
            · rename_i rp rest2 heq2
              rw [heq2] at h2
              obtain ⟨hrp, -, hrest2⟩ := (ToksQ_cons rp rest2).mp h2
              split
              · tree_leaf
              · tree_leaf
          · exact ⟨trivial, ht⟩

theorem pExprList_tree_step (fuel : Nat) (ih : ExprTree Q c fuel) (ts : List Token)
    (ht : ToksQ Q ts) : ValIn Q (ExprList.SpansIn Q) (pExprList c (fuel + 1) ts) := by
  simp only [pExprList]
  have h1 := ih.expr ts ht
  split
  · exact ⟨trivial, h1.rest⟩
  · refine ih.exprListTail _ _ ?_ h1.rest
    simp only [ExprList.SpansIn]
    exact ⟨h1.val, trivial⟩

theorem pExprListTail_tree_step (fuel : Nat) (ih : ExprTree Q c fuel) (acc : ExprList)
    (ts : List Token) (hacc : acc.SpansIn Q) (ht : ToksQ Q ts) :
    ValIn Q (ExprList.SpansIn Q) (pExprListTail c (fuel + 1) acc ts) := by
  simp only [pExprListTail]
  split
  · tree_leaf
  · rename_i t rest
    obtain ⟨htt, -, hrest⟩ := (ToksQ_cons t rest).mp ht
    split
    · exact ⟨hacc, ht⟩
    · have h1 := ih.expr rest hrest
      have hacc' : (match (pExpr c fuel rest).val with
          | .nil => acc
          | x => acc.snoc x).SpansIn Q := by
        split
        · exact hacc
        · exact (ExprList.spansIn_snoc _ _).mpr ⟨hacc, h1.val⟩
      split
      · exact ⟨hacc, ht⟩
      · split
        · exact ⟨hacc', h1.rest⟩
        · exact ih.exprListTail _ _ hacc' h1.rest

theorem exprTree (hnull : Q .null) (hzero : Q .zero) (fuel : Nat) : ExprTree Q c fuel := by
  induction fuel with
  | zero => exact ExprTree.zero
  | succ fuel ih =>
    exact
      { expr := pExpr_tree_step fuel ih
        trail := pTrail_tree_step hnull fuel ih
        higher := pHigher_tree_step fuel ih
        unary := pUnary_tree_step fuel ih
        primary := pPrimary_tree_step hzero fuel ih
        inner := pInner_tree_step hnull fuel ih
        exprList := pExprList_tree_step fuel ih
        exprListTail := pExprListTail_tree_step fuel ih }

theorem pExpr_tree (hnull : Q .null) (hzero : Q .zero) (fuel : Nat) (ts : List Token)
    (ht : ToksQ Q ts) : ValIn Q (Expr.SpansIn Q) (pExpr c fuel ts) :=
  (exprTree hnull hzero fuel).expr ts ht

theorem pExprList_tree (hnull : Q .null) (hzero : Q .zero) (fuel : Nat) (ts : List Token)
    (ht : ToksQ Q ts) : ValIn Q (ExprList.SpansIn Q) (pExprList c fuel ts) :=
  (exprTree hnull hzero fuel).exprList ts ht

end

end Pql
