/-
Layout independence: `pOperator`, `pJoin`, the assembled tabular block, `pLet`, `pStatement`,
`pStatements`, `parseTokens`.
-/
import PqlModel.Lemmas.LayoutTab
set_option linter.unusedSimpArgs false
set_option linter.unusedVariables false
namespace Pql.Layout
open Pql

variable {c : PCtx} {fuel : Nat}

theorem pOperator_step (ih : TabLay c fuel) (pipe : Span) (name : Token) (ts : List Token) :
    pOperator c0 (fuel + 1) (keepNull pipe) (np name) (ts.map np) =
      (pOperator c (fuel + 1) pipe name ts).map (mp (mapOp keepNull)) := by
  have hk : (np name).span = keepNull name.span := by simp
  have hv : (np name).value = name.value := rfl
  generalize np name = nn at hk hv
  unfold pOperator
  generalize Bytes.ofString "count" = s0
  generalize Bytes.ofString "where" = s1
  generalize Bytes.ofString "filter" = s2
  generalize Bytes.ofString "sort" = s3
  generalize Bytes.ofString "order" = s4
  generalize Bytes.ofString "take" = s5
  generalize Bytes.ofString "limit" = s6
  generalize Bytes.ofString "top" = s7
  generalize Bytes.ofString "project" = s8
  generalize Bytes.ofString "extend" = s9
  generalize Bytes.ofString "summarize" = s10
  generalize Bytes.ofString "join" = s11
  generalize Bytes.ofString "as" = s12
  generalize Bytes.ofString "render" = s13
  extract_lets kw' v' r1' r2' r3' r4' r5' kw v r1 r2 r3 r4 r5
  have e1 : kw' = keepNull name.span := hk
  have e0 : kw = name.span := rfl
  have e2 : v' = v := hv
  replace e2 := e2.symm
  have e3 : r1' = mp (mapExpr keepNull) r1 := pExpr_np c fuel ts
  have e4 : r2' = mp (mapExpr keepNull) r2 := pRowCount_np c fuel ts
  have e5 : r3' = mp (List.map (mapColumn keepNull)) r3 := by
    show pProjectCols c0 fuel ((ts.map np).length + 1) [] (ts.map np) = _
    rw [List.length_map]
    exact pProjectCols_np c fuel (ts.length + 1) [] ts
  have e6 : r4' = mp (List.map (mapColumn keepNull)) r4 := by
    show pExtendCols c0 fuel ((ts.map np).length + 1) [] (ts.map np) = _
    rw [List.length_map]
    exact pExtendCols_np c fuel (ts.length + 1) [] ts
  have e7 : r5' = mp (Option.map (mapIdent keepNull)) r5 := pIdent_np c ts
  clear_value kw' v' r1' r2' r3' r4' r5' kw v r1 r2 r3 r4 r5
  subst e0 e1 e2 e3 e4 e5 e6 e7
  clear hk hv
  by_cases h0 : (v == s0) = true
  · rw [if_pos h0, if_pos h0]; simp [mp_mk, mapOp]
  rw [if_neg h0, if_neg h0]
  by_cases h1 : (v == s1 || v == s2) = true
  · rw [if_pos h1, if_pos h1]; simp [mp_mk, mapOp]
  rw [if_neg h1, if_neg h1]
  by_cases h2 : (v == s3 || v == s4) = true
  · rw [if_pos h2, if_pos h2]
    rcases ts with _ | ⟨by_, rest⟩
    · simp [mp_mk, mapOp]
    · simp only [List.map_cons, np_kind]
      csplit
      · simp [mp_mk, mapOp]
      · have h := pSortTerms_np c fuel (rest.length + 1) [] rest
        simp only [List.map_nil] at h
        simp [h, mp_mk, mapOp]
        rfl
  rw [if_neg h2, if_neg h2]
  by_cases h3 : (v == s5 || v == s6) = true
  · rw [if_pos h3, if_pos h3]; simp [mp_mk, mapOp]
  rw [if_neg h3, if_neg h3]
  by_cases h4 : (v == s7) = true
  · rw [if_pos h4, if_pos h4]
    obtain ⟨v, e, rr⟩ := r2
    simp only [mp_errs, mp_val, mp_rest, ne_eq, mapErrs_eq_nil]
    csplit
    · simp [mp_mk, mapOp]
    · rcases rr with _ | ⟨by_, rest⟩
      · simp [mp_mk, mapOp]
      · simp only [List.map_cons, np_kind]
        csplit
        · simp [mp_mk, mapOp]
        · simp [pSortTerm_np c, mp_mk, mapOp]
  rw [if_neg h4, if_neg h4]
  by_cases h5 : (v == s8) = true
  · rw [if_pos h5, if_pos h5]; simp [mp_mk, mapOp]
  rw [if_neg h5, if_neg h5]
  by_cases h6 : (v == s9) = true
  · rw [if_pos h6, if_pos h6]; simp [mp_mk, mapOp]
  rw [if_neg h6, if_neg h6]
  by_cases h7 : (v == s10) = true
  · rw [if_pos h7, if_pos h7]; simp only [Option.map_some, pSummarize_np c]
  rw [if_neg h7, if_neg h7]
  by_cases h8 : (v == s11) = true
  · rw [if_pos h8, if_pos h8]; simp only [Option.map_some, ih.join]
  rw [if_neg h8, if_neg h8]
  by_cases h9 : (v == s12) = true
  · rw [if_pos h9, if_pos h9]; simp [mp_mk, mapOp]
  rw [if_neg h9, if_neg h9]
  by_cases h10 : (v == s13) = true
  · rw [if_pos h10, if_pos h10]; simp only [Option.map_some, pRender_np c]
  rw [if_neg h10, if_neg h10]
  rfl

/-- the part of `pJoin` after the optional `kind = flavor`, at `lp :: rest1` -/
local macro "join_tail" ih:ident r1:ident : tactic =>
  `(tactic| (
    simp only [List.map_cons, np_kind]
    csplit
    · simp [mp_mk, mapOp, mapTabular, mapExprList, mapIdent]
    · simp only [split_np_fst, split_np_snd, ($ih).tabular, mp_errs, mp_val, mp_rest, endSplit_np,
        mkOpaque_mapErrs]
      rcases hsp2 : (split .rparen $r1).2 with _ | ⟨rp, rest2⟩
      · simp [mp_mk, mapOp, mapExprList, mapIdent]
      · simp only [List.map_cons, np_kind]
        csplit
        · simp [mp_mk, mapOp, mapExprList, mapIdent]
        · rcases rest2 with _ | ⟨on, rest3⟩
          · simp [mp_mk, mapOp, mapExprList, mapIdent]
          · simp only [List.map_cons, isIdentNamed_np]
            csplit
            · simp [mp_mk, mapOp, mapExprList, mapIdent]
            · simp [pExprList_np c, mp_mk, mapOp, mapIdent]))

theorem pJoin_step (ih : TabLay c fuel) (pipe kw : Span) (ts : List Token) :
    pJoin c0 (fuel + 1) (keepNull pipe) (keepNull kw) (ts.map np) =
      mp (mapOp keepNull) (pJoin c (fuel + 1) pipe kw ts) := by
  rcases ts with _ | ⟨t0, rest0⟩
  · simp [pJoin, mp_mk, mapOp, mapTabular, mapExprList]
  · simp only [List.map_cons, pJoin, isIdentNamed_np]
    by_cases hk : isIdentNamed t0 "kind" = true
    · simp only [hk, if_true]
      rcases rest0 with _ | ⟨asg, rest1⟩
      · simp [mp_mk, mapOp, mapTabular, mapExprList]
      · simp only [List.map_cons, np_kind]
        by_cases ha : asg.kind = .assign
        · simp only [ha, ne_eq, not_true_eq_false, if_false]
          rcases rest1 with _ | ⟨fl, rest2⟩
          · simp [mp_mk, mapOp, mapTabular, mapExprList]
          · simp only [List.map_cons, np_kind]
            by_cases hf : fl.kind = .ident
            · simp only [hf, ne_eq, not_true_eq_false, if_false]
              rcases rest2 with _ | ⟨lp, rest3⟩
              · by_cases hj : isJoinType fl.value = true <;>
                  simp [hj, mp_mk, mapOp, mapTabular, mapExprList, mapIdent]
              · by_cases hj : isJoinType fl.value = true <;> simp only [np_value, hj, if_true, if_false]
                · join_tail ih rest3
                · join_tail ih rest3
            · simp [hf, mp_mk, mapOp, mapTabular, mapExprList]
        · simp [ha, mp_mk, mapOp, mapTabular, mapExprList]
    · simp only [hk, Bool.false_eq_true, if_false]
      join_tail ih rest0

/-- **tabular block**: `pTabular`, `pOps`, `pOperator`, `pJoin` commute with forgetting positions -/
theorem tabLay (c : PCtx) : ∀ fuel, TabLay c fuel
  | 0 => TabLay.zero c
  | fuel + 1 =>
    have ih := tabLay c fuel
    ⟨pTabular_step ih, pOps_step ih, pOperator_step ih, pJoin_step ih⟩

theorem pTabular_np (c : PCtx) (fuel : Nat) (ts : List Token) :
    pTabular c0 fuel (ts.map np) = mp (mapTabular keepNull) (pTabular c fuel ts) := (tabLay c fuel).tabular ts

theorem pOperator_np (c : PCtx) (fuel : Nat) (pipe : Span) (name : Token) (ts : List Token) :
    pOperator c0 fuel (keepNull pipe) (np name) (ts.map np) =
      (pOperator c fuel pipe name ts).map (mp (mapOp keepNull)) := (tabLay c fuel).operator pipe name ts

theorem pLet_np (c : PCtx) (fuel : Nat) (ts : List Token) :
    pLet c0 fuel (ts.map np) = mp (Option.map (mapStmt keepNull)) (pLet c fuel ts) := by
  rcases ts with _ | ⟨kwd, rest⟩
  · simp [pLet, mp_mk]
  · simp only [List.map_cons, pLet, isIdentNamed_np]
    csplit
    · simp [mp_mk]
    · simp only [pIdent_np c, mp_errs, mp_val, mp_rest]
      generalize pIdent c rest = r
      obtain ⟨v, e, rr⟩ := r
      rcases v with _ | name
      · simp [mp_mk, mapStmt, mapExpr]
      · rcases rr with _ | ⟨asg, rest2⟩
        · simp [mp_mk, mapStmt, mapExpr]
        · simp only [Option.map_some, List.map_cons, np_kind]
          csplit
          · simp [mp_mk, mapStmt, mapExpr]
          · simp [pExpr_np c, mp_mk, mapStmt]

/-- the image of `pStatement`'s result -/
def mapStRes (r : Option Stmt × Errs × Bool) : Option Stmt × Errs × Bool :=
  (r.1.map (mapStmt keepNull), mapErrs keepNull r.2.1, r.2.2)

theorem pStatement_np (c : PCtx) (ts : List Token) :
    pStatement c0 (ts.map np) = mapStRes (pStatement c ts) := by
  simp only [pStatement, List.length_map, pLet_np c, pTabular_np c, mp_errs, mp_val, mp_rest, isNF_mapErrs]
  generalize pLet c (fuelFor ts.length) ts = rl
  generalize pTabular c (fuelFor ts.length) ts = rt
  obtain ⟨lv, le, lr⟩ := rl
  obtain ⟨tv, te, tr⟩ := rt
  simp only []
  by_cases h : isNF le = true
  · simp only [h, Bool.not_true, Bool.false_eq_true, if_false]
    cases tv with
    | nil =>
      simp only [mapTabular]
      by_cases h2 : isNF te = true
      · rcases tr with _ | ⟨t, tr⟩ <;> simp [h2, mapStRes]
      · simp [h2, mapStRes]
    | mk src ops =>
      simp only [mapTabular]
      by_cases h2 : isNF te = true
      · rcases tr with _ | ⟨t, tr⟩ <;> simp [h2, mapStRes, mapStmt, mapTabular]
      · simp [h2, mapStRes, mapStmt, mapTabular]
  · simp only [h, Bool.not_false, if_true, mp_errs, mp_val, mp_rest, isNF_mapErrs, Bool.false_eq_true,
      if_false]
    simp [mapStRes]

theorem pStatements_np (c : PCtx) (n : Nat) : ∀ (acc : List Stmt) (errs : Errs) (ts : List Token),
    pStatements c0 n (acc.map (mapStmt keepNull)) (mapErrs keepNull errs) (ts.map np) =
      ((pStatements c n acc errs ts).1.map (mapStmt keepNull),
        mapErrs keepNull (pStatements c n acc errs ts).2) := by
  induction n with
  | zero => intro acc errs ts; simp [pStatements]
  | succ n ih =>
    intro acc errs ts
    simp only [pStatements, splitSemi_np_fst, splitSemi_np_snd, pStatement_np c]
    generalize pStatement c (splitSemi ts).1 = r
    obtain ⟨sv, se, sb⟩ := r
    simp only [mapStRes]
    rcases (splitSemi ts).2 with _ | ⟨semi, rest⟩
    · cases sv <;> cases sb <;> simp
    · simp only [List.map_cons]
      cases sv <;> cases sb <;> simp only [Option.map_some, Option.map_none, if_true, Bool.false_eq_true,
        if_false] <;> rw [← ih] <;> simp

/-- **`Parse` on tokens commutes with forgetting positions.** -/
theorem parseTokens_np (n : Nat) (ts : List Token) :
    parseTokens 0 (ts.map np) =
      ((parseTokens n ts).1.map (mapStmt keepNull), mapErrs keepNull (parseTokens n ts).2) := by
  have := pStatements_np ⟨n⟩ (ts.length + 1) [] [] ts
  simp only [List.map_nil, mapErrs_nil] at this
  simp only [parseTokens, List.length_map]
  exact this

end Pql.Layout
