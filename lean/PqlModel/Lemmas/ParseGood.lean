/-
Invariant of the parser model: a production that reports no error returns a tree without
nil in a required position (`Good`, see WalkLemmas), hence a tree on which `Walk` neither
panics nor hands a nil node to the visitor.
-/
import PqlModel.Model.Parse
import PqlModel.Lemmas.WalkLemmas
namespace Pql

/-! ### errors -/

@[simp] theorem mkOpaque_eq_nil {es : Errs} : mkOpaque es = [] ↔ es = [] := by
  simp [mkOpaque]

@[simp] theorem isNF_mkOpaque (es : Errs) : isNF (mkOpaque es) = false := by
  simp [isNF, mkOpaque]

@[simp] theorem isNF_nil : isNF [] = false := rfl
@[simp] theorem errAt_ne_nil (s : Span) : errAt s ≠ [] := by simp [errAt]
@[simp] theorem nfAt_ne_nil (s : Span) : nfAt s ≠ [] := by simp [nfAt]
@[simp] theorem errFuel_ne_nil : errFuel ≠ [] := by simp [errFuel]
@[simp] theorem errNoPos_ne_nil : errNoPos ≠ [] := by simp [errNoPos]
@[simp] theorem isNF_errFuel : isNF errFuel = false := rfl
@[simp] theorem isNF_errNoPos : isNF errNoPos = false := rfl
@[simp] theorem isNF_errAt (s : Span) : isNF (errAt s) = false := rfl

theorem isNF_append (a b : Errs) : isNF (a ++ b) = (isNF a || isNF b) := by
  simp [isNF]

theorem ne_nil_of_isNF {es : Errs} (h : isNF es = true) : es ≠ [] := by
  intro e; subst e; simp at h

/-! ### identifiers -/

theorem pIdent_val_of_errs {c : PCtx} {ts : List Token} (h : (pIdent c ts).errs = []) :
    (pIdent c ts).val ≠ none := by
  unfold pIdent at h ⊢
  split
  · split <;> simp_all
  · simp_all

theorem pQualifiedIdent_val_of_errs {c : PCtx} {ts : List Token}
    (h : (pQualifiedIdent c ts).errs = []) : (pQualifiedIdent c ts).val ≠ none := by
  simp only [pQualifiedIdent] at h ⊢
  have := @pIdent_val_of_errs c ts
  split
  · next hv => simp_all
  · simp

/-! ### expressions -/

theorem ExprList.good_snoc : (acc : ExprList) → (x : Expr) →
    ((acc.snoc x).Good ↔ acc.Good ∧ x.Good)
  | .nil, x => by simp [ExprList.snoc, ExprList.Good]
  | .cons e es, x => by simp [ExprList.snoc, ExprList.Good, ExprList.good_snoc es x, and_assoc]

theorem snocNonNil_good {acc : ExprList} {v : Expr} (ha : acc.Good) (hv : v.Good) :
    (match v with | .nil => acc | x => acc.snoc x).Good := by
  cases v with
  | nil => simp [Expr.Good] at hv
  | _ => exact (ExprList.good_snoc acc _).2 ⟨ha, hv⟩

/-- what the mutually recursive expression productions guarantee at a given fuel -/
structure ExprInv (c : PCtx) (fuel : Nat) : Prop where
  expr : ∀ ts, (pExpr c fuel ts).errs = [] → (pExpr c fuel ts).val.Good
  trail : ∀ x mp acc ts, (pTrail c fuel x mp acc ts).errs = [] →
    acc = [] ∧ (x.Good → (pTrail c fuel x mp acc ts).val.Good)
  higher : ∀ y p1 acc ts, (pHigher c fuel y p1 acc ts).errs = [] →
    acc = [] ∧ (y.Good → (pHigher c fuel y p1 acc ts).val.Good)
  unary : ∀ ts, (pUnary c fuel ts).errs = [] → (pUnary c fuel ts).val.Good
  primary : ∀ ts, (pPrimary c fuel ts).errs = [] → (pPrimary c fuel ts).val.Good
  inner : ∀ ts, (pInner c fuel ts).errs = [] → (pInner c fuel ts).val.Good
  list : ∀ ts, ((pExprList c fuel ts).errs = [] → (pExprList c fuel ts).val.Good) ∧
    (isNF (pExprList c fuel ts).errs = true → (pExprList c fuel ts).val = .nil)
  listTail : ∀ acc ts, isNF (pExprListTail c fuel acc ts).errs = false ∧
    ((pExprListTail c fuel acc ts).errs = [] → acc.Good → (pExprListTail c fuel acc ts).val.Good)

theorem exprInv_zero (c : PCtx) : ExprInv c 0 where
  expr := by simp [pExpr]
  trail := by simp [pTrail]
  higher := by simp [pHigher]
  unary := by simp [pUnary]
  primary := by simp [pPrimary]
  inner := by simp [pInner]
  list := by simp [pExprList]
  listTail := by simp [pExprListTail]

theorem exprInv_expr {c : PCtx} {fuel : Nat} (ih : ExprInv c fuel) (ts : List Token)
    (h : (pExpr c (fuel + 1) ts).errs = []) : (pExpr c (fuel + 1) ts).val.Good := by
  simp only [pExpr] at h ⊢
  split at h
  · next hnf => exact absurd h (ne_nil_of_isNF hnf)
  · next hnf =>
    simp only [hnf]
    simp only [List.append_eq_nil_iff] at h
    exact (ih.trail _ _ _ _ h.2).2 (ih.unary _ h.1)

theorem exprInv_unary {c : PCtx} {fuel : Nat} (ih : ExprInv c fuel) (ts : List Token)
    (h : (pUnary c (fuel + 1) ts).errs = []) : (pUnary c (fuel + 1) ts).val.Good := by
  simp only [pUnary] at h ⊢
  split at h
  · simp at h
  · next t rest =>
    split at h
    · next hk =>
      simp only [hk, if_true, Expr.Good]
      exact ih.primary _ (by simpa using h)
    · next hk =>
      simp only [hk, if_false]
      exact ih.primary _ h

theorem exprInv_primary {c : PCtx} {fuel : Nat} (ih : ExprInv c fuel) (ts : List Token) :
    (pPrimary c (fuel + 1) ts).errs = [] → (pPrimary c (fuel + 1) ts).val.Good := by
  simp only [pPrimary]
  have hi := ih.inner ts
  split
  · next he => intro h; exact absurd h he
  · next he =>
    have hg := hi (by simpa using he)
    split
    · intro _; exact hg
    · next t rest hr =>
      split
      · split
        · simp
        · split
          · simp only [List.append_eq_nil_iff, mkOpaque_eq_nil, Expr.Good]
            intro h
            exact ⟨hg, ih.expr _ h.1⟩
          · simp
      · intro _; exact hg

theorem exprInv_inner {c : PCtx} {fuel : Nat} (ih : ExprInv c fuel) (ts : List Token) :
    (pInner c (fuel + 1) ts).errs = [] → (pInner c (fuel + 1) ts).val.Good := by
  simp only [pInner]
  split
  · simp
  · next t rest =>
    have hq := @pQualifiedIdent_val_of_errs c (t :: rest)
    split
    · simp [Expr.Good]
    · split
      · split
        · next hv => intro h; exact absurd hv (hq h)
        · next parts hv =>
          split
          · next he => intro h; exact absurd h he
          · split
            · simp [Expr.Good]
            · split
              · simp [Expr.Good]
              · next lp rest2 hr =>
                split
                · simp [Expr.Good]
                · have hl := ih.list (split TokKind.rparen rest2).fst
                  generalize pExprList c fuel (split TokKind.rparen rest2).fst = ra at hl ⊢
                  have key : (if isNF ra.errs = true then [] else ra.errs) = [] → ra.val.Good := by
                    split
                    · next hnf => intro _; rw [hl.2 hnf]; simp [ExprList.Good]
                    · exact hl.1
                  split
                  · simp
                  · split
                    · simp only [List.append_eq_nil_iff, Expr.Good]
                      intro h; exact key h.1
                    · simp
      · split
        · split
          · next hv => intro h; exact absurd hv (hq h)
          · simp [Expr.Good]
        · split
          · split
            · simp
            · split
              · simp only [List.append_eq_nil_iff, mkOpaque_eq_nil, Expr.Good]
                intro h; exact ih.expr _ h.1
              · simp
          · simp

theorem exprInv_list {c : PCtx} {fuel : Nat} (ih : ExprInv c fuel) (ts : List Token) :
    ((pExprList c (fuel + 1) ts).errs = [] → (pExprList c (fuel + 1) ts).val.Good) ∧
    (isNF (pExprList c (fuel + 1) ts).errs = true → (pExprList c (fuel + 1) ts).val = .nil) := by
  simp only [pExprList]
  split
  · next he => exact ⟨fun h => absurd h he, fun _ => rfl⟩
  · next he =>
    have he' : (pExpr c fuel ts).errs = [] := by simpa using he
    have ht := ih.listTail (.cons (pExpr c fuel ts).val .nil) (pExpr c fuel ts).rest
    refine ⟨fun h => ht.2 h ?_, fun h => ?_⟩
    · simp only [ExprList.Good, and_true]; exact ih.expr ts he'
    · rw [ht.1] at h; cases h

theorem exprInv_listTail {c : PCtx} {fuel : Nat} (ih : ExprInv c fuel) (acc : ExprList)
    (ts : List Token) :
    isNF (pExprListTail c (fuel + 1) acc ts).errs = false ∧
    ((pExprListTail c (fuel + 1) acc ts).errs = [] → acc.Good →
      (pExprListTail c (fuel + 1) acc ts).val.Good) := by
  simp only [pExprListTail]
  split
  · simp
  · next t rest =>
    split
    · simp
    · split
      · simp
      · have he := ih.expr rest
        generalize pExpr c fuel rest = r at he ⊢
        split
        · next hne =>
          refine ⟨by simp, fun h => ?_⟩
          exact absurd (by simpa using h) hne
        · next hne =>
          have hr : r.errs = [] := by simpa using hne
          have ht := ih.listTail (match r.val with | .nil => acc | x => acc.snoc x) r.rest
          exact ⟨ht.1, fun h ha => ht.2 h (snocNonNil_good ha (he hr))⟩

theorem exprInv_higher {c : PCtx} {fuel : Nat} (ih : ExprInv c fuel) (y : Expr) (p1 : Int)
    (acc : Errs) (ts : List Token) :
    (pHigher c (fuel + 1) y p1 acc ts).errs = [] →
      acc = [] ∧ (y.Good → (pHigher c (fuel + 1) y p1 acc ts).val.Good) := by
  simp only [pHigher]
  split
  · intro h; exact ⟨h, id⟩
  · next op2 rest =>
    split
    · intro h; exact ⟨h, id⟩
    · intro h
      have h1 := ih.higher _ _ _ _ h
      simp only [List.append_eq_nil_iff, mkOpaque_eq_nil] at h1
      have h2 := ih.trail _ _ _ _ h1.1.2
      exact ⟨h1.1.1, fun hy => h1.2 (h2.2 hy)⟩

theorem exprInv_trail {c : PCtx} {fuel : Nat} (ih : ExprInv c fuel) (x : Expr) (mp : Int)
    (acc : Errs) (ts : List Token) :
    (pTrail c (fuel + 1) x mp acc ts).errs = [] →
      acc = [] ∧ (x.Good → (pTrail c (fuel + 1) x mp acc ts).val.Good) := by
  simp only [pTrail]
  split
  · intro h; exact ⟨h, id⟩
  · next op1 rest =>
    split
    · intro h; exact ⟨h, id⟩
    · split
      · split
        · simp
        · next lp rest2 =>
          split
          · simp
          · have hl := ih.list (split TokKind.rparen rest2).fst
            generalize pExprList c fuel (split TokKind.rparen rest2).fst = rl at hl ⊢
            split
            · simp
            · next rp rest3 hsp =>
              split
              · simp
              · intro h
                have h1 := ih.trail _ _ _ _ h
                simp only [List.append_eq_nil_iff, mkOpaque_eq_nil] at h1
                refine ⟨h1.1.1.1, fun hx => h1.2 ?_⟩
                simp only [Expr.Good]
                exact ⟨hx, hl.1 h1.1.1.2⟩
      · intro h
        have h1 := ih.trail _ _ _ _ h
        have h2 := ih.higher _ _ _ _ h1.1
        simp only [List.append_eq_nil_iff, mkOpaque_eq_nil] at h2
        refine ⟨h2.1.1, fun hx => h1.2 ?_⟩
        simp only [Expr.Good]
        exact ⟨hx, h2.2 (ih.unary _ h2.1.2)⟩

theorem exprInv (c : PCtx) : ∀ fuel, ExprInv c fuel
  | 0 => exprInv_zero c
  | fuel + 1 =>
    have ih := exprInv c fuel
    { expr := exprInv_expr ih
      trail := exprInv_trail ih
      higher := exprInv_higher ih
      unary := exprInv_unary ih
      primary := exprInv_primary ih
      inner := exprInv_inner ih
      list := exprInv_list ih
      listTail := exprInv_listTail ih }

/-- An expression parsed without error has no nil sub-expression. -/
theorem pExpr_good {c : PCtx} {fuel : Nat} {ts : List Token} (h : (pExpr c fuel ts).errs = []) :
    (pExpr c fuel ts).val.Good := (exprInv c fuel).expr ts h

theorem pExprList_good {c : PCtx} {fuel : Nat} {ts : List Token}
    (h : (pExprList c fuel ts).errs = []) : (pExprList c fuel ts).val.Good :=
  ((exprInv c fuel).list ts).1 h

/-! ### operator arguments -/

theorem pRowCount_good {c : PCtx} {fuel : Nat} {ts : List Token} :
    (pRowCount c fuel ts).errs = [] → (pRowCount c fuel ts).val.Good := by
  simp only [pRowCount]
  have he := @pExpr_good c fuel ts
  generalize pExpr c fuel ts = r at he ⊢
  split
  · next hne => intro h; exact absurd h hne
  · next hne =>
    have hr : r.errs = [] := by simpa using hne
    split
    · split
      · exact he
      · simp
    · exact he

theorem pSortTerm_good {c : PCtx} {fuel : Nat} {ts : List Token} :
    (pSortTerm c fuel ts).errs = [] →
      ∃ t, (pSortTerm c fuel ts).val = some t ∧ SortTerm.Good t := by
  unfold pSortTerm
  extract_lets r term step1 term2
  have he : r.errs = [] → r.val.Good := pExpr_good
  have hx : term2.x = r.val := by
    simp only [term2, step1]
    split
    · rfl
    · split
      · rfl
      · split
        · rfl
        · split <;> rfl
  clear_value term2 step1 term r
  split
  · next hne => intro h; exact absurd h hne
  · next hne =>
    have hg : term2.x.Good := by rw [hx]; exact he (by simpa using hne)
    split
    · simp [SortTerm.Good, hg]
    · split
      · simp [SortTerm.Good, hg]
      · split
        · split
          · simp
          · split
            · simp [SortTerm.Good, hg]
            · split
              · simp [SortTerm.Good, hg]
              · simp
        · simp [SortTerm.Good, hg]

theorem pSortTerms_good {c : PCtx} {fuel : Nat} : ∀ (n : Nat) (acc : List SortTerm) (ts : List Token),
    (pSortTerms c fuel n acc ts).errs = [] → (∀ t ∈ acc, SortTerm.Good t) →
      ∀ t ∈ (pSortTerms c fuel n acc ts).val, SortTerm.Good t
  | 0, acc, ts => by simp [pSortTerms]
  | n + 1, acc, ts => by
    unfold pSortTerms
    extract_lets r acc'
    have hr : r.errs = [] → ∃ t, r.val = some t ∧ SortTerm.Good t := pSortTerm_good
    have hacc : r.errs = [] → (∀ t ∈ acc, SortTerm.Good t) → ∀ t ∈ acc', SortTerm.Good t := by
      intro h ha
      obtain ⟨t, ht, hg⟩ := hr h
      simp only [acc', ht]
      intro u hu
      rcases List.mem_append.1 hu with hu | hu
      · exact ha u hu
      · rw [List.mem_singleton.1 hu]; exact hg
    clear_value acc' r
    split
    · next hne => intro h; exact absurd (by simpa using h) hne
    · next hne =>
      have hre : r.errs = [] := by simpa using hne
      split
      · split
        · intro h ha; exact pSortTerms_good n acc' _ h (hacc hre ha)
        · intro _ ha; exact hacc hre ha
      · intro _ ha; exact hacc hre ha

theorem pNamedColumn_good {c : PCtx} {fuel : Nat} {ts : List Token} :
    (pNamedColumn c fuel ts).errs = [] → (pNamedColumn c fuel ts).val.x.Good := by
  unfold pNamedColumn
  extract_lets ri named
  clear_value named
  split
  · simp only [mkOpaque_eq_nil]; exact pExpr_good
  · exact pExpr_good

theorem forall_mem_snoc {α : Type} {P : α → Prop} {l : List α} {a : α}
    (hl : ∀ x ∈ l, P x) (ha : P a) : ∀ x ∈ l ++ [a], P x := by
  intro x hx
  rcases List.mem_append.1 hx with hx | hx
  · exact hl x hx
  · rw [List.mem_singleton.1 hx]; exact ha

theorem pExtendCols_good {c : PCtx} {fuel : Nat} : ∀ (n : Nat) (acc : List Column) (ts : List Token),
    (pExtendCols c fuel n acc ts).errs = [] → (∀ k ∈ acc, k.x.Good) →
      ∀ k ∈ (pExtendCols c fuel n acc ts).val, k.x.Good
  | 0, acc, ts => by simp [pExtendCols]
  | n + 1, acc, ts => by
    unfold pExtendCols
    extract_lets r acc'
    have hr : r.errs = [] → r.val.x.Good := pNamedColumn_good
    have hacc' : r.errs = [] → (∀ k ∈ acc, k.x.Good) → ∀ k ∈ acc', k.x.Good :=
      fun hre ha => forall_mem_snoc ha (hr hre)
    clear_value acc' r
    split
    · next hne => intro h; exact absurd (by simpa using h) hne
    · next hne =>
      have hre : r.errs = [] := by simpa using hne
      have hacc := hacc' hre
      split
      · split
        · intro h ha; exact pExtendCols_good n acc' _ h (hacc ha)
        · intro _ ha; exact hacc ha
      · intro _ ha; exact hacc ha

/-- what `Walk` needs of a project column -/
def Column.ProjGood (k : Column) : Prop := k.name ≠ none ∧ k.x.OptGood

theorem pProjectCols_good {c : PCtx} {fuel : Nat} : ∀ (n : Nat) (acc : List Column) (ts : List Token),
    (pProjectCols c fuel n acc ts).errs = [] → (∀ k ∈ acc, k.ProjGood) →
      ∀ k ∈ (pProjectCols c fuel n acc ts).val, k.ProjGood
  | 0, acc, ts => by simp [pProjectCols]
  | n + 1, acc, ts => by
    unfold pProjectCols
    extract_lets ri
    clear_value ri
    have hnil : ∀ id : Ident, Column.ProjGood ⟨some id, .null, .nil⟩ := by
      intro id; simp [Column.ProjGood, Expr.OptGood]
    split
    · simp
    · next id hv =>
      split
      · intro _ ha; exact forall_mem_snoc ha (hnil id)
      · next sep rest hrest =>
        split
        · intro h ha; exact pProjectCols_good n _ _ h (forall_mem_snoc ha (hnil id))
        · split
          · extract_lets r acc'
            have hr : r.errs = [] → r.val.Good := pExpr_good
            have hacc : r.errs = [] → (∀ k ∈ acc, k.ProjGood) → ∀ k ∈ acc', k.ProjGood :=
              fun hre ha => forall_mem_snoc ha ⟨by simp, Or.inr (hr hre)⟩
            clear_value acc' r
            split
            · next hne => intro h; exact absurd (by simpa using h) hne
            · next hne =>
              have hre : r.errs = [] := by simpa using hne
              split
              · intro _ ha; exact hacc hre ha
              · split
                · intro h ha; exact pProjectCols_good n acc' _ h (hacc hre ha)
                · simp
          · intro _ ha; exact forall_mem_snoc ha (hnil id)

theorem pSummarizeCols_good {c : PCtx} {fuel : Nat} :
    ∀ (n : Nat) (acc : List Column) (cm : Option Span) (ts : List Token),
    (pSummarizeCols c fuel n acc cm ts).errs = [] → (∀ k ∈ acc, k.x.Good) →
      ∀ k ∈ (pSummarizeCols c fuel n acc cm ts).val.cols, k.x.Good
  | 0, acc, cm, ts => by simp [pSummarizeCols]
  | n + 1, acc, cm, ts => by
    unfold pSummarizeCols
    extract_lets r acc'
    have hr : r.errs = [] → r.val.x.Good := pNamedColumn_good
    have hacc' : r.errs = [] → (∀ k ∈ acc, k.x.Good) → ∀ k ∈ acc', k.x.Good :=
      fun hre ha => forall_mem_snoc ha (hr hre)
    clear_value acc' r
    split
    · intro _ ha; exact ha
    · split
      · next hne => intro h; exact absurd (by simpa using h) hne
      · next hne =>
        have hre : r.errs = [] := by simpa using hne
        have hacc := hacc' hre
        split
        · intro _ ha; exact hacc ha
        · split
          · intro h ha; exact pSummarizeCols_good n acc' _ _ h (hacc ha)
          · intro _ ha; exact hacc ha

theorem pGroupByCols_good {c : PCtx} {fuel : Nat} :
    ∀ (n : Nat) (acc : List Column) (ts : List Token),
    (pGroupByCols c fuel n acc ts).errs = [] → (∀ k ∈ acc, k.x.Good) →
      ∀ k ∈ (pGroupByCols c fuel n acc ts).val, k.x.Good
  | 0, acc, ts => by simp [pGroupByCols]
  | n + 1, acc, ts => by
    unfold pGroupByCols
    extract_lets r acc'
    have hr : r.errs = [] → r.val.x.Good := pNamedColumn_good
    have hacc' : r.errs = [] → (∀ k ∈ acc, k.x.Good) → ∀ k ∈ acc', k.x.Good :=
      fun hre ha => forall_mem_snoc ha (hr hre)
    clear_value acc' r
    split
    · next hnf =>
      intro h; exact absurd (by simpa using h) (ne_nil_of_isNF hnf)
    · split
      · next hne => intro h; exact absurd (by simpa using h) hne
      · next hne =>
        have hre : r.errs = [] := by simpa using hne
        have hacc := hacc' hre
        split
        · intro _ ha; exact hacc ha
        · split
          · intro h ha; exact pGroupByCols_good n acc' _ h (hacc ha)
          · intro _ ha; exact hacc ha

theorem pSummarizeCols_errs {c : PCtx} {fuel : Nat} :
    ∀ (n : Nat) (acc : List Column) (cm : Option Span) (ts : List Token),
    (pSummarizeCols c fuel n acc cm ts).val.done = false →
      (pSummarizeCols c fuel n acc cm ts).errs = []
  | 0, acc, cm, ts => by simp [pSummarizeCols]
  | n + 1, acc, cm, ts => by
    unfold pSummarizeCols
    extract_lets r acc'
    clear_value acc' r
    split
    · simp
    · split
      · simp
      · split
        · simp
        · split
          · exact pSummarizeCols_errs n acc' _ _
          · simp

theorem pSummarize_good {c : PCtx} {fuel : Nat} {pipe kw : Span} {ts : List Token} :
    (pSummarize c fuel pipe kw ts).errs = [] → (pSummarize c fuel pipe kw ts).val.Good := by
  unfold pSummarize
  extract_lets r1 cols
  have h1 : r1.errs = [] → ∀ k ∈ r1.val.cols, k.x.Good :=
    fun h => pSummarizeCols_good _ _ _ _ h (by simp)
  have h2 : r1.val.done = false → r1.errs = [] := pSummarizeCols_errs _ _ _ _
  clear_value r1
  split
  · intro h; simp only [Op.Good]; exact ⟨h1 h, by simp⟩
  · next hd =>
    have hc : ∀ k ∈ cols, k.x.Good := h1 (h2 (by simpa using hd))
    clear_value cols
    split
    · split
      · simp
      · split
        · simp
        · intro _; simp only [Op.Good]; exact ⟨hc, by simp⟩
    · next sep rest hrest =>
      split
      · split
        · simp
        · split
          · simp
          · intro _; simp only [Op.Good]; exact ⟨hc, by simp⟩
      · intro h
        simp only [Op.Good]
        exact ⟨hc, pGroupByCols_good _ _ _ h (by simp)⟩

theorem pRenderProp_good {c : PCtx} {fuel : Nat} {ts : List Token} :
    (pRenderProp c fuel ts).errs = [] →
      ∀ p, (pRenderProp c fuel ts).val = some p → p.name ≠ none ∧ p.value.OptGood := by
  unfold pRenderProp
  extract_lets ri
  clear_value ri
  split
  · simp
  · split
    · simp
    · split
      · simp
      · extract_lets r
        have hr : r.errs = [] → r.val.Good := pExpr_good
        clear_value r
        split
        · next hne => intro h; exact absurd h hne
        · next hne =>
          intro _ p hp
          simp only [Option.some.injEq] at hp
          subst hp
          exact ⟨by simp, Or.inr (hr (by simpa using hne))⟩

def RenderProp.Good (p : RenderProp) : Prop := p.name ≠ none ∧ p.value.OptGood

theorem pRenderProps_good {c : PCtx} {fuel : Nat} :
    ∀ (n : Nat) (acc : List RenderProp) (ts : List Token),
    (pRenderProps c fuel n acc ts).errs = [] → (∀ p ∈ acc, p.Good) →
      ∀ p ∈ (pRenderProps c fuel n acc ts).val.1, p.Good
  | 0, acc, ts => by simp [pRenderProps]
  | n + 1, acc, ts => by
    unfold pRenderProps
    extract_lets r acc'
    have hr : r.errs = [] → ∀ p, r.val = some p → p.Good := pRenderProp_good
    have hacc' : r.errs = [] → (∀ p ∈ acc, p.Good) → ∀ p ∈ acc', p.Good := by
      intro hre ha
      simp only [acc']
      split
      · next p hp => exact forall_mem_snoc ha (hr hre p hp)
      · exact ha
    clear_value acc' r
    split
    · next hne => intro h; exact absurd (by simpa using h) hne
    · next hne =>
      have hacc := hacc' (by simpa using hne)
      split
      · simp
      · split
        · intro _ ha; exact hacc ha
        · split
          · simp
          · intro h ha; exact pRenderProps_good n acc' _ h (hacc ha)

theorem pRender_good {c : PCtx} {fuel : Nat} {pipe kw : Span} {ts : List Token} :
    (pRender c fuel pipe kw ts).errs = [] → (pRender c fuel pipe kw ts).val.Good := by
  unfold pRender
  extract_lets ri
  clear_value ri
  split
  · simp
  · split
    · simp [Op.Good]
    · split
      · simp [Op.Good]
      · split
        · simp
        · split
          · simp
          · intro h
            simp only [Op.Good]
            exact ⟨by simp, pRenderProps_good _ _ _ h (by simp)⟩

theorem OpList.good_snoc : (ops : OpList) → (o : Op) → ((ops.snoc o).Good ↔ ops.Good ∧ o.Good)
  | .nil, o => by simp [OpList.snoc, OpList.Good]
  | .cons p ps, o => by simp [OpList.snoc, OpList.Good, OpList.good_snoc ps o, and_assoc]

/-- what the mutually recursive tabular productions guarantee at a given fuel -/
structure TabInv (c : PCtx) (fuel : Nat) : Prop where
  tabular : ∀ ts, (pTabular c fuel ts).errs = [] → (pTabular c fuel ts).val.Good
  ops : ∀ ops acc ts, (pOps c fuel ops acc ts).errs = [] →
    acc = [] ∧ (ops.Good → (pOps c fuel ops acc ts).val.Good)
  operator : ∀ pipe name ts r, pOperator c fuel pipe name ts = some r → r.errs = [] → r.val.Good
  join : ∀ pipe kw ts, (pJoin c fuel pipe kw ts).errs = [] → (pJoin c fuel pipe kw ts).val.Good

theorem tabInv_zero (c : PCtx) : TabInv c 0 where
  tabular := by simp [pTabular]
  ops := by simp [pOps]
  operator := by
    intro pipe name ts r h
    simp only [pOperator, Option.some.injEq] at h
    subst h; simp
  join := by simp [pJoin]

theorem tabInv_tabular {c : PCtx} {fuel : Nat} (ih : TabInv c fuel) (ts : List Token) :
    (pTabular c (fuel + 1) ts).errs = [] → (pTabular c (fuel + 1) ts).val.Good := by
  unfold pTabular
  extract_lets ri
  have hi : ri.errs = [] → ri.val ≠ none := pIdent_val_of_errs
  clear_value ri
  split
  · next hv => intro h; exact absurd hv (hi h)
  · intro h
    simp only [Tabular.Good]
    exact ⟨by simp, (ih.ops _ _ _ h).2 (by simp [OpList.Good])⟩

theorem tabInv_ops {c : PCtx} {fuel : Nat} (ih : TabInv c fuel) (ops : OpList) (acc : Errs)
    (ts : List Token) :
    (pOps c (fuel + 1) ops acc ts).errs = [] →
      acc = [] ∧ (ops.Good → (pOps c (fuel + 1) ops acc ts).val.Good) := by
  unfold pOps
  split
  · intro h; exact ⟨h, id⟩
  · next pipeTok rest =>
    split
    · intro h; exact ⟨h, id⟩
    · extract_lets sp
      clear_value sp
      split
      · intro h
        have := ih.ops _ _ _ h
        simp at this
      · next name opToks hsp =>
        split
        · intro h
          have := ih.ops _ _ _ h
          simp at this
        · split
          · intro h
            have := ih.ops _ _ _ h
            simp at this
          · next r hop =>
            intro h
            have h1 := ih.ops _ _ _ h
            simp only [List.append_eq_nil_iff] at h1
            refine ⟨h1.1.1.1, fun ho => h1.2 ?_⟩
            exact (OpList.good_snoc ops r.val).2 ⟨ho, ih.operator _ _ _ _ hop h1.1.1.2⟩

theorem Op.good_count (p k : Span) : (Op.count p k).Good ↔ True := Iff.rfl
theorem Op.good_where (p k : Span) (e : Expr) : (Op.where_ p k e).Good ↔ e.Good := Iff.rfl
theorem Op.good_sort (p k : Span) (ts : List SortTerm) :
    (Op.sort p k ts).Good ↔ ∀ t ∈ ts, SortTerm.Good t := Iff.rfl
theorem Op.good_take (p k : Span) (e : Expr) : (Op.take p k e).Good ↔ e.Good := Iff.rfl
theorem Op.good_top (p k : Span) (n : Expr) (b : Span) (col : Option SortTerm) :
    (Op.top p k n b col).Good ↔ n.Good ∧ ∃ t, col = some t ∧ SortTerm.Good t := Iff.rfl
theorem Op.good_project (p k : Span) (cs : List Column) :
    (Op.project p k cs).Good ↔ ∀ c ∈ cs, c.name ≠ none ∧ c.x.OptGood := Iff.rfl
theorem Op.good_extend (p k : Span) (cs : List Column) :
    (Op.extend p k cs).Good ↔ ∀ c ∈ cs, c.x.OptGood := Iff.rfl
theorem Op.good_as (p k : Span) (n : Option Ident) : (Op.as_ p k n).Good ↔ n ≠ none := Iff.rfl
theorem Op.good_join (p k kind ka : Span) (fl : Option Ident) (lp : Span) (right : Tabular)
    (rp on : Span) (conds : ExprList) :
    (Op.join p k kind ka fl lp right rp on conds).Good ↔ right.Good ∧ conds.Good := Iff.rfl

theorem opt_ite {α : Type} {c : Prop} [Decidable c] {x : α} {rest : Option α} {r : α}
    {Q : α → Prop} (h1 : Q x) (h2 : rest = some r → Q r) :
    (if c then some x else rest) = some r → Q r := by
  split
  · rintro ⟨⟩; exact h1
  · exact h2

theorem ite_elim {α : Type} {c : Prop} [Decidable c] {a b : α} (P : α → Prop)
    (ha : c → P a) (hb : ¬c → P b) : P (if c then a else b) := by
  split
  · exact ha ‹_›
  · exact hb ‹_›

theorem tabInv_operator {c : PCtx} {fuel : Nat} (ih : TabInv c fuel) (pipe : Span) (name : Token)
    (ts : List Token) (r : PRes Op) :
    pOperator c (fuel + 1) pipe name ts = some r → r.errs = [] → r.val.Good := by
  unfold pOperator
  extract_lets kw v rE rC rP rX rI
  have hE : rE.errs = [] → rE.val.Good := pExpr_good
  have hC : rC.errs = [] → rC.val.Good := pRowCount_good
  have hP : rP.errs = [] → ∀ k ∈ rP.val, k.ProjGood := fun h => pProjectCols_good _ _ _ h (by simp)
  have hX : rX.errs = [] → ∀ k ∈ rX.val, k.x.Good := fun h => pExtendCols_good _ _ _ h (by simp)
  have hI : rI.errs = [] → rI.val ≠ none := pIdent_val_of_errs
  clear_value v kw rE rC rP rX rI
  -- count
  refine opt_ite (Q := fun r : PRes Op => r.errs = [] → r.val.Good) (fun _ => trivial) ?_
  -- where
  refine opt_ite (Q := fun r : PRes Op => r.errs = [] → r.val.Good) ?_ ?_
  · simp only [mkOpaque_eq_nil, Op.good_where]; exact hE
  -- sort
  refine ite_elim (fun x : Option (PRes Op) => x = some r → r.errs = [] → r.val.Good) (fun _ => ?_) (fun _ => ?_)
  · split
    · rintro ⟨⟩; simp
    · split
      · rintro ⟨⟩; simp
      · rintro ⟨⟩
        simp only [Op.good_sort]
        intro h; exact pSortTerms_good _ _ _ h (by simp)
  -- take
  refine opt_ite (Q := fun r : PRes Op => r.errs = [] → r.val.Good) ?_ ?_
  · simp only [mkOpaque_eq_nil, Op.good_take]; exact hC
  -- top
  refine ite_elim (fun x : Option (PRes Op) => x = some r → r.errs = [] → r.val.Good) (fun _ => ?_) (fun _ => ?_)
  · split
    · next hne => rintro ⟨⟩; intro h; exact absurd (by simpa using h) hne
    · next hne =>
      split
      · rintro ⟨⟩; simp
      · split
        · rintro ⟨⟩; simp
        · rintro ⟨⟩
          simp only [mkOpaque_eq_nil, Op.good_top]
          intro h
          exact ⟨hC (by simpa using hne), pSortTerm_good h⟩
  -- project
  refine opt_ite (Q := fun r : PRes Op => r.errs = [] → r.val.Good) ?_ ?_
  · simp only [Op.good_project]; exact hP
  -- extend
  refine opt_ite (Q := fun r : PRes Op => r.errs = [] → r.val.Good) ?_ ?_
  · simp only [Op.good_extend]
    intro h k hk
    exact Or.inr (hX h k hk)
  -- summarize, join
  refine opt_ite (Q := fun r : PRes Op => r.errs = [] → r.val.Good) pSummarize_good ?_
  refine opt_ite (Q := fun r : PRes Op => r.errs = [] → r.val.Good) (ih.join _ _ _) ?_
  -- as
  refine opt_ite (Q := fun r : PRes Op => r.errs = [] → r.val.Good) ?_ ?_
  · simp only [mkOpaque_eq_nil, Op.good_as]; exact hI
  -- render
  refine opt_ite (Q := fun r : PRes Op => r.errs = [] → r.val.Good) pRender_good ?_
  simp

theorem tabInv_join {c : PCtx} {fuel : Nat} (ih : TabInv c fuel) (pipe kw : Span) (ts : List Token) :
    (pJoin c (fuel + 1) pipe kw ts).errs = [] → (pJoin c (fuel + 1) pipe kw ts).val.Good := by
  unfold pJoin
  extract_lets mk
  split
  · simp
  · next t0 rest0 =>
    extract_lets hdr
    have hhdr : (∀ r, hdr = .inr r → r.errs ≠ []) ∧ hdr ≠ .inl none := by
      simp only [hdr]
      split
      · split
        · simp
        · split
          · simp
          · split
            · simp
            · split
              · simp
              · simp
      · simp
    clear_value hdr
    split
    · next r => intro h; exact absurd h (hhdr.1 r rfl)
    · exact absurd rfl hhdr.2
    · next kind ka fl e0 rest =>
      split
      · simp
      · next lp rest1 =>
        split
        · simp
        · extract_lets sp rr e1
          have hrr : rr.errs = [] → rr.val.Good := ih.tabular _
          have he1 : e1 = [] → rr.errs = [] := by
            simp only [e1, List.append_eq_nil_iff, mkOpaque_eq_nil]
            exact fun h => h.1.2
          clear_value e1 rr sp
          split
          · simp
          · split
            · simp
            · split
              · simp
              · split
                · simp
                · extract_lets rc
                  have hrc : rc.errs = [] → rc.val.Good := pExprList_good
                  clear_value rc
                  simp only [List.append_eq_nil_iff, mkOpaque_eq_nil, mk, Op.good_join]
                  intro h
                  exact ⟨hrr (he1 h.1), hrc h.2⟩

theorem tabInv (c : PCtx) : ∀ fuel, TabInv c fuel
  | 0 => tabInv_zero c
  | fuel + 1 =>
    have ih := tabInv c fuel
    { tabular := tabInv_tabular ih
      ops := tabInv_ops ih
      operator := tabInv_operator ih
      join := tabInv_join ih }

theorem pTabular_good {c : PCtx} {fuel : Nat} {ts : List Token}
    (h : (pTabular c fuel ts).errs = []) : (pTabular c fuel ts).val.Good :=
  (tabInv c fuel).tabular ts h

/-! ### statements -/

theorem pLet_good {c : PCtx} {fuel : Nat} {ts : List Token} :
    (pLet c fuel ts).errs = [] → ∀ s, (pLet c fuel ts).val = some s → s.Good := by
  unfold pLet
  split
  · simp
  · next kwd rest =>
    split
    · simp
    · extract_lets ri
      have hi : ri.errs = [] → ri.val ≠ none := pIdent_val_of_errs
      clear_value ri
      split
      · next hv => intro h; exact absurd hv (hi (by simpa using h))
      · split
        · simp
        · split
          · simp
          · extract_lets r
            have hr : r.errs = [] → r.val.Good := pExpr_good
            clear_value r
            simp only [mkOpaque_eq_nil, Option.some.injEq]
            rintro h s rfl
            exact ⟨by simp, hr h⟩

theorem pStatement_good {c : PCtx} {ts : List Token} :
    (pStatement c ts).2.1 = [] → ∀ s, (pStatement c ts).1 = some s → s.Good := by
  unfold pStatement
  extract_lets fuel rl rt first
  have ht : rt.errs = [] → rt.val.Good := pTabular_good
  have hf : first.errs = [] → ∀ s, first.val = some s → s.Good := by
    simp only [first]
    split
    · exact pLet_good
    · clear_value rt
      split
      · simp
      · next t hne =>
        simp only [Option.some.injEq]
        rintro h s rfl
        exact ht h
  clear_value first rt rl
  split
  · split <;> simp
  · simp only [List.append_eq_nil_iff, mkOpaque_eq_nil]
    intro h; exact hf h.1

theorem pStatement_replace {c : PCtx} {ts : List Token} :
    (pStatement c ts).2.2 = true → (pStatement c ts).2.1 ≠ [] := by
  unfold pStatement
  extract_lets fuel rl rt first
  clear_value first rt rl
  split
  · split <;> simp
  · simp

theorem pStatements_good {c : PCtx} : ∀ (n : Nat) (acc : List Stmt) (errs : Errs) (ts : List Token),
    (pStatements c n acc errs ts).2 = [] →
      errs = [] ∧ ((∀ s ∈ acc, s.Good) → ∀ s ∈ (pStatements c n acc errs ts).1, s.Good)
  | 0, acc, errs, ts => by simp [pStatements]
  | n + 1, acc, errs, ts => by
    unfold pStatements
    extract_lets sp r acc' errs'
    have hr : r.2.1 = [] → ∀ s, r.1 = some s → s.Good := pStatement_good
    have hrep : r.2.2 = true → r.2.1 ≠ [] := pStatement_replace
    have he : errs' = [] → errs = [] ∧ r.2.1 = [] := by
      simp only [errs']
      split
      · next h => intro h'; exact absurd h' (hrep h)
      · simp
    have hacc : r.2.1 = [] → (∀ s ∈ acc, s.Good) → ∀ s ∈ acc', s.Good := by
      intro h ha
      simp only [acc']
      split
      · next s hs => exact forall_mem_snoc ha (hr h s hs)
      · exact ha
    clear_value acc' errs' r sp
    split
    · intro h
      have := he h
      exact ⟨this.1, hacc this.2⟩
    · intro h
      have h1 := pStatements_good n acc' errs' _ h
      have := he h1.1
      exact ⟨this.1, fun ha => h1.2 (hacc this.2 ha)⟩

/-- Every statement of a successfully parsed program has no nil in a required position. -/
theorem parseTokens_good {srcLen : Nat} {ts : List Token} {stmts : List Stmt}
    (h : parseTokens srcLen ts = (stmts, [])) : ∀ s ∈ stmts, s.Good := by
  have h1 := pStatements_good (c := ⟨srcLen⟩) (ts.length + 1) [] [] ts
  unfold parseTokens at h
  rw [h] at h1
  exact (h1 rfl).2 (by simp)

end Pql
