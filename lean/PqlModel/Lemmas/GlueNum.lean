/-
Glue A (C04, numbers end to end), lemma part.

`sqlNumValue`: an SQL-side reading of a number token `digits [. digits*] [(e|E)[+|-]digits]`,
written as a small left-to-right state machine (integer part → fraction → exponent) that
accumulates ONE integer mantissa and a decimal scale ("scientific" reading
`mantissa / 10^scale * 10^exponent`) — independently of `C09.decValue` (which is written with
`takeWhile`/`dropWhile` and adds integer and fractional parts).  The two are proved equal on
every text that starts with a digit, in particular on every `numOK` text.
-/
import PqlModel.Props.C09b
import PqlModel.Lemmas.ParsedOKNum
set_option linter.unusedSimpArgs false
namespace Pql.Glue
open Pql Sql

/-! ### the SQL-side value of a number token (new specification-level definition) -/

/-- value of an ASCII decimal digit -/
def digitOf (c : UInt8) : Option Nat :=
  if 48 ≤ c.toNat ∧ c.toNat ≤ 57 then some (c.toNat - 48) else none

/-- all remaining bytes are digits: the number they spell after `acc` -/
def sqlDigits : Bytes → Nat → Option Nat
  | [], acc => some acc
  | c :: t, acc =>
    match digitOf c with
    | some d => sqlDigits t (acc * 10 + d)
    | none => none

/-- the text after `e`/`E`: `[+|-] digits+`, up to the end of the token -/
def sqlExpPart : Bytes → Option Int
  | [] => none
  | sg :: ds =>
    if sg = 43 then (if ds = [] then none else (sqlDigits ds 0).map fun n => (n : Int))
    else if sg = 45 then (if ds = [] then none else (sqlDigits ds 0).map fun n => -(n : Int))
    else (sqlDigits (sg :: ds) 0).map fun n => (n : Int)

/-- after the decimal point: mantissa `m` so far, `k` fraction digits so far -/
def sqlFrac : Bytes → Nat → Nat → Option Rat
  | [], m, k => some ((m : Rat) / (10 : Rat) ^ k)
  | c :: t, m, k =>
    match digitOf c with
    | some d => sqlFrac t (m * 10 + d) (k + 1)
    | none =>
      if c = 101 ∨ c = 69 then
        (sqlExpPart t).map fun ex => (m : Rat) / (10 : Rat) ^ k * (10 : Rat) ^ ex
      else none

/-- in the integer part: mantissa `m` so far -/
def sqlInt : Bytes → Nat → Option Rat
  | [], m => some (m : Rat)
  | c :: t, m =>
    match digitOf c with
    | some d => sqlInt t (m * 10 + d)
    | none =>
      if c = 46 then sqlFrac t m 0
      else if c = 101 ∨ c = 69 then (sqlExpPart t).map fun ex => (m : Rat) * (10 : Rat) ^ ex
      else none

/-- **Value of an SQL number token** `digit digits* [. digits*] [(e|E)[+|-]digits+]`
    (exact rational); `none` for any other text. -/
def sqlNumValue : Bytes → Option Rat
  | [] => none
  | c :: t =>
    match digitOf c with
    | some d => sqlInt t d
    | none => none

-- sanity tests (evaluated)
#guard sqlNumValue (Bytes.ofString "31") = some 31
#guard sqlNumValue (Bytes.ofString "7") = some 7
#guard sqlNumValue (Bytes.ofString "0.5") = some (1 / 2)
#guard sqlNumValue (Bytes.ofString "1e3") = some 1000
#guard sqlNumValue (Bytes.ofString "2.5E-3") = some (1 / 400)
#guard sqlNumValue (Bytes.ofString "12.") = some 12
#guard sqlNumValue (Bytes.ofString "0e0") = some 0
#guard sqlNumValue (Bytes.ofString "1.25e+2") = some 125
#guard sqlNumValue (Bytes.ofString ".5") = none
#guard sqlNumValue (Bytes.ofString "1e") = none
#guard sqlNumValue (Bytes.ofString "1e+") = none
#guard sqlNumValue (Bytes.ofString "1.2.3") = none
#guard sqlNumValue (Bytes.ofString "0x1F") = none
#guard sqlNumValue (Bytes.ofString "1 ") = none
#guard sqlNumValue (Bytes.ofString "") = none

/-! ### agreement with `C09.decValue` -/

theorem digitOf_eq (c : UInt8) :
    digitOf c = if C09.isDec c then some (C09.decDigit c) else none := by
  simp only [digitOf, C09.isDec, C09.decDigit, Bool.and_eq_true, decide_eq_true_eq]

theorem digitOf_dec {c : UInt8} (h : C09.isDec c = true) : digitOf c = some (C09.decDigit c) := by
  rw [digitOf_eq, if_pos h]

theorem digitOf_nondec {c : UInt8} (h : C09.isDec c = false) : digitOf c = none := by
  rw [digitOf_eq, h]; rfl

/-- the digit fold started at `m` -/
def foldDigits (m : Nat) (ds : Bytes) : Nat := ds.foldl (fun a c => a * 10 + C09.decDigit c) m

theorem foldDigits_cons (m : Nat) (c : UInt8) (ds : Bytes) :
    foldDigits m (c :: ds) = foldDigits (m * 10 + C09.decDigit c) ds := by
  simp only [foldDigits, List.foldl_cons]

theorem natOfDigits_eq (ds : Bytes) : C09.natOfDigits ds = foldDigits 0 ds := by
  simp only [foldDigits, C09.natOfDigits]

theorem foldDigits_eq (m : Nat) (ds : Bytes) :
    foldDigits m ds = m * 10 ^ ds.length + foldDigits 0 ds := by
  induction ds generalizing m with
  | nil => simp [foldDigits]
  | cons c ds ih =>
    rw [foldDigits_cons, ih, foldDigits_cons, ih (0 * 10 + C09.decDigit c)]
    simp only [List.length_cons, Nat.pow_succ, Nat.zero_mul, Nat.zero_add, Nat.add_mul]
    rw [Nat.mul_assoc, Nat.mul_comm 10, Nat.add_assoc]

theorem sqlDigits_eq (ds : Bytes) (acc : Nat) :
    sqlDigits ds acc = if ds.all C09.isDec then some (foldDigits acc ds) else none := by
  induction ds generalizing acc with
  | nil => rfl
  | cons c ds ih =>
    cases hc : C09.isDec c with
    | true => simp only [sqlDigits, digitOf_dec hc, ih, List.all_cons, hc, Bool.true_and, foldDigits_cons]
    | false => simp only [sqlDigits, digitOf_nondec hc, List.all_cons, hc, Bool.false_and,
        Bool.false_eq_true, if_false]

theorem sqlExpPart_eq (e : UInt8) (t : Bytes) (he : e = 101 ∨ e = 69) :
    C09.expValue (e :: t) = sqlExpPart t := by
  have he' : (e == 101 || e == 69) = true := by rcases he with rfl | rfl <;> rfl
  simp only [C09.expValue, he', if_true]
  cases t with
  | nil => rfl
  | cons sg ds =>
    simp only [sqlExpPart, beq_iff_eq]
    by_cases h43 : sg = 43
    · subst h43
      cases ds with
      | nil => rfl
      | cons d ds' =>
        simp only [if_true, C09.allDigits, List.isEmpty_cons, Bool.not_false, Bool.true_and,
          sqlDigits_eq, natOfDigits_eq, reduceCtorEq, if_false]
        split <;> simp
    · by_cases h45 : sg = 45
      · subst h45
        cases ds with
        | nil => rfl
        | cons d ds' =>
          simp only [if_true, C09.allDigits, List.isEmpty_cons, Bool.not_false, Bool.true_and,
            sqlDigits_eq, natOfDigits_eq, reduceCtorEq, if_false, if_neg h43]
          split <;> simp
      · simp only [if_neg h43, if_neg h45, C09.allDigits, List.isEmpty_cons, Bool.not_false,
          Bool.true_and, sqlDigits_eq, natOfDigits_eq]
        split <;> simp

theorem expValue_other (c : UInt8) (t : Bytes) (he : ¬ (c = 101 ∨ c = 69)) :
    C09.expValue (c :: t) = none := by
  have : (c == 101 || c == 69) = false := by
    simp only [not_or] at he
    simp [he.1, he.2]
  simp [C09.expValue, this]

theorem pow10_ne_zero (k : Nat) : (10 : Rat) ^ k ≠ 0 := by
  induction k with
  | zero => simp
  | succ n ih =>
    rw [Rat.pow_succ]
    intro h
    rcases Rat.mul_eq_zero.mp h with h | h
    · exact ih h
    · exact absurd h (by decide)

/-- `(m·10^k + f) / 10^k = m + f / 10^k` -/
theorem mantissa_split (m f k : Nat) :
    (((m * 10 ^ k + f : Nat) : Rat)) / (10 : Rat) ^ k = (m : Rat) + (f : Rat) / (10 : Rat) ^ k := by
  have h := pow10_ne_zero k
  simp [Rat.div_def, Rat.add_mul, Rat.mul_assoc, Rat.mul_inv_cancel _ h]

theorem sqlFrac_eq (t : Bytes) (m k : Nat) :
    sqlFrac t m k =
      (C09.expValue (t.dropWhile C09.isDec)).map fun ex =>
        ((foldDigits m (t.takeWhile C09.isDec) : Nat) : Rat) /
          (10 : Rat) ^ (k + (t.takeWhile C09.isDec).length) * (10 : Rat) ^ ex := by
  induction t generalizing m k with
  | nil => simp [sqlFrac, C09.expValue, foldDigits]
  | cons c t ih =>
    cases hc : C09.isDec c with
    | true =>
      simp only [sqlFrac, digitOf_dec hc, ih, List.takeWhile_cons, List.dropWhile_cons, hc, if_true,
        foldDigits_cons, List.length_cons]
      have : k + 1 + (t.takeWhile C09.isDec).length = k + ((t.takeWhile C09.isDec).length + 1) := by
        omega
      rw [this]
    | false =>
      simp only [sqlFrac, digitOf_nondec hc, List.takeWhile_cons, List.dropWhile_cons, hc,
        Bool.false_eq_true, if_false, List.length_nil, Nat.add_zero]
      by_cases he : c = 101 ∨ c = 69
      · rw [if_pos he, sqlExpPart_eq c t he]; rfl
      · rw [if_neg he, expValue_other c t he]; rfl

theorem sqlInt_eq (s : Bytes) (m : Nat) :
    sqlInt s m =
      C09.decTail (foldDigits m (s.takeWhile C09.isDec)) false (s.dropWhile C09.isDec) := by
  induction s generalizing m with
  | nil => simp [sqlInt, C09.decTail, C09.splitFrac, C09.expValue, foldDigits, C09.natOfDigits, Rat.div_def, Rat.add_zero]
  | cons c t ih =>
    cases hc : C09.isDec c with
    | true =>
      simp only [sqlInt, digitOf_dec hc, ih, List.takeWhile_cons, List.dropWhile_cons, hc, if_true,
        foldDigits_cons]
    | false =>
      simp only [sqlInt, digitOf_nondec hc, List.takeWhile_cons, List.dropWhile_cons, hc,
        Bool.false_eq_true, if_false]
      have hf : foldDigits m [] = m := by simp only [foldDigits, List.foldl_nil]
      rw [hf]
      by_cases h46 : c = 46
      · subst h46
        simp only [if_true, C09.decTail, C09.splitFrac, beq_self_eq_true, Bool.false_and,
          Bool.false_eq_true, if_false, sqlFrac_eq, Nat.zero_add]
        congr 1
        funext ex
        rw [foldDigits_eq, mantissa_split, natOfDigits_eq]
      · have h46' : (c == 46) = false := by simpa using h46
        simp only [if_neg h46, C09.decTail, C09.splitFrac, h46', Bool.false_eq_true, if_false,
          Bool.false_and]
        by_cases he : c = 101 ∨ c = 69
        · rw [if_pos he, sqlExpPart_eq c t he]
          congr 1
          funext ex
          simp [C09.natOfDigits, Rat.div_def, Rat.add_zero]
        · rw [if_neg he, expValue_other c t he]; rfl

/-- **the two readings agree on every text that starts with a digit** -/
theorem sqlNumValue_eq_decValue (c : UInt8) (t : Bytes) (hc : C09.isDec c = true) :
    sqlNumValue (c :: t) = C09.decValue (c :: t) := by
  simp only [sqlNumValue, digitOf_dec hc, sqlInt_eq, C09.decValue, List.takeWhile_cons,
    List.dropWhile_cons, hc, if_true, List.isEmpty_cons, natOfDigits_eq, foldDigits_cons,
    Nat.zero_mul, Nat.zero_add]

theorem isDec_eq_isDigitB (c : UInt8) : C09.isDec c = isDigitB c := by
  simp [C09.isDec, isDigitB]

/-- **the two readings agree on every text the SQL lexer reads as one number token** -/
theorem sqlNumValue_eq_of_numOK (v : Bytes) (h : numOK v = true) :
    sqlNumValue v = C09.decValue v := by
  obtain ⟨c, v', rfl, hc, _⟩ := LexRender.numOK_scan v h
  exact sqlNumValue_eq_decValue c v' (by rw [isDec_eq_isDigitB]; exact hc)

/-- the SQL-side reading never accepts a text that does not start with a digit (so it is defined
    on strictly fewer texts than `decValue`, which also reads `.5`) -/
theorem sqlNumValue_head (v : Bytes) (q : Rat) (h : sqlNumValue v = some q) :
    ∃ c t, v = c :: t ∧ isDigitB c = true := by
  cases v with
  | nil => cases h
  | cons c t =>
    refine ⟨c, t, rfl, ?_⟩
    rw [← isDec_eq_isDigitB]
    cases hc : C09.isDec c with
    | true => rfl
    | false => simp [sqlNumValue, digitOf_nondec hc] at h

end Pql.Glue
