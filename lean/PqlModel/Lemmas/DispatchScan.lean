/-
The model's one-step function `scanOne` equals the interpretation of the regenerated main switch of
`Scan` (`Dispatch.interp`), for every input.  Pieces: which case an ASCII rune selects (decided over
the 128 ASCII runes against `modelAction`, the model's if-chain read as a table), which case a rune
≥ 0x80 selects (only `unicode.IsSpace` or the default: every other condition is ASCII), and what
each action does on an arbitrary suffix.
-/
import PqlModel.Lemmas.DispatchRune
namespace Pql.Dispatch
open Pql
open Pql.Facts (ScanAction)
set_option linter.unusedSimpArgs false

/-- the model's main dispatch read as a table: the action `scanOne` takes on an ASCII byte
    (hand-written from Model/Lex.lean `scanOne` / `scanPunct`; a proof device, see `scanOne_exec_ascii`) -/
def modelAction (c : UInt8) : ScanAction :=
  if isAsciiSpace c then .skip
  else if isIdentStart c then .sub "ident"
  else if isDigit c || c == 46 then .sub "numberOrDot"
  else if c == 34 || c == 39 then .sub "string"
  else if c == 96 then .sub "quotedIdent"
  else match singleKind c with
    | some k => .single k.goName
    | none =>
      if c == 61 then .two [(61, "TokenEq"), (126, "TokenCaseInsensitiveEq")] "TokenAssign" true
      else if c == 33 then .two [(61, "TokenNE"), (126, "TokenCaseInsensitiveNE")] "TokenError" true
      else if c == 60 then .two [(61, "TokenLE")] "TokenLT" true
      else if c == 62 then .two [(61, "TokenGE")] "TokenGT" true
      else if c == 47 then .comment 47 10 "TokenSlash" "TokenSlash" true
      else .error

/-- on every ASCII rune the regenerated switch selects the case the model takes
    (order of the cases included: a decision over 128 runes × the whole case list) -/
theorem select_ascii : ∀ n, n < 128 →
    select Facts.scanCases Facts.scanDefault n = some (modelAction (UInt8.ofNat n)) := by
  decide

theorem select_ascii_byte (c : UInt8) (h : c.toNat < 128) :
    select Facts.scanCases Facts.scanDefault c.toNat = some (modelAction c) := by
  have := select_ascii c.toNat h
  rwa [UInt8.ofNat_toNat] at this

theorem ofGoName_goName (k : TokKind) : TokKind.ofGoName k.goName = some k := by
  cases k <;> decide

/-! ### runes ≥ 0x80 -/

/-- a case whose condition mentions only the ASCII classes and ASCII literals -/
def caseAscii (p : List String × List Nat × ScanAction) : Bool :=
  p.1.all (fun n => n = "isAlpha" || n = "isDigit" || n = "isHexDigit") && p.2.1.all (· < 128)

theorem ranges_ascii :
    (Facts.isAlphaRanges ++ Facts.isDigitRanges ++ Facts.isHexDigitRanges).all (fun p => p.2 < 128) = true := by
  decide

theorem inRangesNat_false (rs : List (Nat × Nat)) (h : rs.all (fun p => p.2 < 128) = true) (r : Nat)
    (hr : 128 ≤ r) : inRangesNat rs r = false := by
  unfold inRangesNat
  rw [List.any_eq_false]
  intro p hp
  have := (List.all_eq_true.mp h) p hp
  simp only [decide_eq_true_eq] at this
  simp only [Bool.and_eq_true, decide_eq_true_eq, not_and, Nat.not_le]
  intro _; omega

theorem classesHold_nonascii (cl : List String)
    (h : cl.all (fun n => n = "isAlpha" || n = "isDigit" || n = "isHexDigit") = true) (r : Nat) (hr : 128 ≤ r) :
    classesHold cl r = some false := by
  have hall := ranges_ascii
  simp only [List.all_append, Bool.and_eq_true] at hall
  induction cl with
  | nil => rfl
  | cons n ns ih =>
    simp only [List.all_cons, Bool.and_eq_true, Bool.or_eq_true, decide_eq_true_eq] at h
    have ih' := ih (by simpa using h.2)
    have hn : classHolds n r = some false := by
      rcases h.1 with (rfl | rfl) | rfl
      · simp [classHolds, inRangesNat_false _ hall.1.1 r hr]
      · simp [classHolds, inRangesNat_false _ hall.1.2 r hr]
      · simp [classHolds, inRangesNat_false _ hall.2 r hr]
    simp [classesHold, hn, ih']

theorem condHolds_nonascii (p : List String × List Nat × ScanAction) (hp : caseAscii p = true)
    (r : Nat) (hr : 128 ≤ r) : condHolds p.1 p.2.1 r = some false := by
  simp only [caseAscii, Bool.and_eq_true] at hp
  have hnot : p.2.1.contains r = false := by
    rw [List.contains_eq_mem]
    simp only [decide_eq_false_iff_not]
    intro hm
    have := (List.all_eq_true.mp hp.2) r hm
    simp only [decide_eq_true_eq] at this
    omega
  simp only [condHolds, classesHold_nonascii p.1 hp.1 r hr, hnot, Option.map_some, Bool.or_self]

theorem select_all_ascii (cs : List (List String × List Nat × ScanAction)) (d : ScanAction)
    (h : cs.all caseAscii = true) (r : Nat) (hr : 128 ≤ r) : select cs d r = some d := by
  induction cs with
  | nil => rfl
  | cons p ps ih =>
    simp only [List.all_cons, Bool.and_eq_true] at h
    obtain ⟨cl, rs, a⟩ := p
    have := condHolds_nonascii (cl, rs, a) h.1 r hr
    simp only at this
    simp only [select, this, ih h.2]

/-- all conditions after the first are ASCII-only: a rune ≥ 0x80 reaches the default unless it is
    white space -/
theorem select_nonascii (r : Nat) (hr : 128 ≤ r) :
    select Facts.scanCases Facts.scanDefault r = some (if isSpaceRune r then .skip else .error) := by
  have hsplit : Facts.scanCases = (["unicode.IsSpace"], [], .skip) :: Facts.scanCases.tail := by decide
  have htail : Facts.scanCases.tail.all caseAscii = true := by decide
  rw [hsplit]
  simp only [select, condHolds, classesHold, classHolds, ↓reduceIte, Bool.or_false, Option.map_some,
    List.contains_nil]
  cases hs : isSpaceRune r
  · simp only [Bool.false_eq_true, ↓reduceIte]
    exact select_all_ascii _ _ htail r hr
  · simp

/-! ### what the selected action does = what the model does -/

/-- comparing the first rune with an ASCII rune = comparing the first byte -/
theorem rune_beq_ascii (d : UInt8) (r : Bytes) (k : UInt8) (hk : k.toNat < 128) :
    (k.toNat == (decodeRune (d :: r)).1) = (d == k) := by
  have := decodeRune_eq_ascii d r k.toNat hk
  by_cases h : d = k
  · subst h
    simp [this.mpr rfl]
  · have hne : d.toNat ≠ k.toNat := fun e => h (UInt8.toNat_inj.mp e)
    have hr : (decodeRune (d :: r)).1 ≠ k.toNat := fun e => hne (this.mp e)
    have e1 : (d == k) = false := by rw [beq_toNat]; simp [hne]
    have e2 : (k.toNat == (decodeRune (d :: r)).1) = false := by
      simp only [beq_eq_false_iff_ne, ne_eq]; exact fun e => hr e.symm
    rw [e1, e2]

theorem width_of_ascii_rune (d : UInt8) (r : Bytes) (k : Nat) (hk : k < 128)
    (h : (decodeRune (d :: r)).1 = k) : (decodeRune (d :: r)).2 = 1 := by
  have hd := (decodeRune_eq_ascii d r k hk).mp h
  rw [decodeRune_ascii' d r (by omega)]

/-- an ASCII byte: executing the case the model takes gives the model's step -/
theorem scanOne_exec_ascii (c : UInt8) (rest : Bytes) (h : c.toNat < 128) :
    exec (modelAction c) (c :: rest) = some (scanOne (c :: rest)) := by
  have hd := decodeRune_ascii' c rest h
  have h128 : ¬ 128 ≤ c.toNat := by omega
  unfold scanOne modelAction
  simp only [h128, ↓reduceIte]
  split
  · simp [exec, hd]
  split
  · simp [exec, subScanner]
  split
  · simp [exec, subScanner]
  split
  · simp [exec, subScanner]
  split
  · simp [exec, subScanner]
  unfold scanPunct
  cases hk : singleKind c with
  | some k => simp [exec, hd, ofGoName_goName]
  | none =>
    simp only
    have ofEq : TokKind.ofGoName "TokenEq" = some .eq := by decide
    have ofCieq : TokKind.ofGoName "TokenCaseInsensitiveEq" = some .cieq := by decide
    have ofAssign : TokKind.ofGoName "TokenAssign" = some .assign := by decide
    have ofNe : TokKind.ofGoName "TokenNE" = some .ne := by decide
    have ofCine : TokKind.ofGoName "TokenCaseInsensitiveNE" = some .cine := by decide
    have ofErr : TokKind.ofGoName "TokenError" = some .error := by decide
    have ofLe : TokKind.ofGoName "TokenLE" = some .le := by decide
    have ofLt : TokKind.ofGoName "TokenLT" = some .lt := by decide
    have ofGe : TokKind.ofGoName "TokenGE" = some .ge := by decide
    have ofGt : TokKind.ofGoName "TokenGT" = some .gt := by decide
    have ofSlash : TokKind.ofGoName "TokenSlash" = some .slash := by decide
    cases rest with
    | nil =>
      simp only [List.head?_nil]
      repeat' split
      all_goals simp [exec, hd, ofAssign, ofErr, ofLt, ofGt, ofSlash, Step.sym]
    | cons d r =>
      simp only [List.head?_cons]
      have b61 : ((61 : Nat) == (decodeRune (d :: r)).1) = (d == 61) := rune_beq_ascii d r 61 (by decide)
      have b126 : ((126 : Nat) == (decodeRune (d :: r)).1) = (d == 126) := rune_beq_ascii d r 126 (by decide)
      have b47 : ((decodeRune (d :: r)).1 == (47 : Nat)) = (d == 47) := by
        rw [← rune_beq_ascii d r 47 (by decide)]; exact Bool.beq_comm
      have hw : ∀ k : UInt8, k.toNat < 128 → d = k → (decodeRune (d :: r)).2 = 1 := by
        intro k hk e; subst e; rw [decodeRune_ascii' d r hk]
      by_cases c61 : c = 61
      · subst c61
        simp (config := { decide := true }) only [exec, hd, List.drop_succ_cons, List.drop_zero, List.isEmpty_cons,
          Bool.false_eq_true, ↓reduceIte, List.find?_cons, b61, b126, b47, List.find?_nil]
        by_cases d61 : d = 61
        · subst d61; simp [ofEq, Step.sym, hw 61 (by decide) rfl]
        · by_cases d126 : d = 126
          · subst d126; simp (config := { decide := true }) [ofCieq, Step.sym, hw 126 (by decide) rfl]
          · simp [beq_eq_false_iff_ne.mpr d61, beq_eq_false_iff_ne.mpr d126, d61, d126, ofAssign, Step.sym]
      by_cases c33 : c = 33
      · subst c33
        simp (config := { decide := true }) only [exec, hd, List.drop_succ_cons, List.drop_zero, List.isEmpty_cons,
          Bool.false_eq_true, ↓reduceIte, List.find?_cons, b61, b126, b47, List.find?_nil]
        by_cases d61 : d = 61
        · subst d61; simp [ofNe, Step.sym, hw 61 (by decide) rfl]
        · by_cases d126 : d = 126
          · subst d126; simp (config := { decide := true }) [ofCine, Step.sym, hw 126 (by decide) rfl]
          · simp [beq_eq_false_iff_ne.mpr d61, beq_eq_false_iff_ne.mpr d126, d61, d126, ofErr, Step.sym]
      by_cases c60 : c = 60
      · subst c60
        simp (config := { decide := true }) only [exec, hd, List.drop_succ_cons, List.drop_zero, List.isEmpty_cons,
          Bool.false_eq_true, ↓reduceIte, List.find?_cons, b61, b126, b47, List.find?_nil]
        by_cases d61 : d = 61
        · subst d61; simp [ofLe, Step.sym, hw 61 (by decide) rfl]
        · simp [beq_eq_false_iff_ne.mpr d61, d61, ofLt, Step.sym]
      by_cases c62 : c = 62
      · subst c62
        simp (config := { decide := true }) only [exec, hd, List.drop_succ_cons, List.drop_zero, List.isEmpty_cons,
          Bool.false_eq_true, ↓reduceIte, List.find?_cons, b61, b126, b47, List.find?_nil]
        by_cases d61 : d = 61
        · subst d61; simp [ofGe, Step.sym, hw 61 (by decide) rfl]
        · simp [beq_eq_false_iff_ne.mpr d61, d61, ofGt, Step.sym]
      by_cases c47 : c = 47
      · subst c47
        simp (config := { decide := true }) only [exec, hd, List.drop_succ_cons, List.drop_zero, List.isEmpty_cons,
          Bool.false_eq_true, ↓reduceIte, List.find?_cons, b61, b126, b47, List.find?_nil]
        by_cases d47 : d = 47
        · subst d47
          simp [Step.skip, hw 47 (by decide) rfl, runesUntil_newline]
          omega
        · simp [beq_eq_false_iff_ne.mpr d47, d47, ofSlash, Step.sym]
      simp [c61, c33, c60, c62, c47, exec, hd]

/-- **`scanOne` is the interpretation of the regenerated switch**, for every input -/
theorem interp_eq_scanOne (s : Bytes) : interp s = some (scanOne s) := by
  cases s with
  | nil => rfl
  | cons c rest =>
    have hi : interp (c :: rest) =
        (select Facts.scanCases Facts.scanDefault (decodeRune (c :: rest)).1).bind (exec · (c :: rest)) := rfl
    rw [hi]
    by_cases h : c.toNat < 128
    · have hrune : (decodeRune (c :: rest)).1 = c.toNat := by rw [decodeRune_ascii' c rest h]
      rw [hrune, select_ascii_byte c h, Option.bind_some]
      exact scanOne_exec_ascii c rest h
    · have hr := decodeRune_rune_ge c rest (by omega)
      rw [select_nonascii _ hr, Option.bind_some]
      have h128 : 128 ≤ c.toNat := by omega
      simp only [scanOne, h128, ↓reduceIte, scanNonAscii]
      cases isSpaceRune (decodeRune (c :: rest)).1 <;> simp [exec]

end Pql.Dispatch
