/-
Rune-level facts for the dispatch tie: a lead byte ≥ 0x80 never decodes to an ASCII rune; the rune
loop of a `//` comment consumes the same bytes as the model's byte loop `commentLen`.
-/
import PqlModel.Lemmas.Dispatch
import PqlModel.Lemmas.LinecolLemmas
namespace Pql.Dispatch
open Pql

theorem beq_toNat (c d : UInt8) : (c == d) = decide (c.toNat = d.toNat) := by
  by_cases h : c = d
  · subst h; simp
  · have : c.toNat ≠ d.toNat := fun h' => h (UInt8.toNat_inj.mp h')
    simp [h, this]

theorem decodeMulti_rune_ge {n0 : Nat} {rest : Bytes} {r w : Nat}
    (h : decodeMulti n0 rest = some (r, w)) : 128 ≤ r := by
  unfold decodeMulti at h
  simp only [secondLo, secondHi, isCont, Bool.and_eq_true, decide_eq_true_eq, beq_iff_eq] at h
  repeat' split at h
  all_goals first | (cases h; done) | skip
  all_goals
    simp only [Option.some.injEq, Prod.mk.injEq] at h
    omega

/-- a byte ≥ 0x80 at the head decodes to a rune ≥ 0x80 (possibly U+FFFD) -/
theorem decodeRune_rune_ge (c : UInt8) (rest : Bytes) (h : 128 ≤ c.toNat) :
    128 ≤ (decodeRune (c :: rest)).1 := by
  rw [decodeRune_cons, if_neg (by omega)]
  cases hm : decodeMulti c.toNat rest with
  | none => simp [runeError]
  | some rw =>
    obtain ⟨r, w⟩ := rw
    exact decodeMulti_rune_ge hm

theorem decodeRune_ascii' (c : UInt8) (rest : Bytes) (h : c.toNat < 128) :
    decodeRune (c :: rest) = (c.toNat, 1) := by
  simp [decodeRune_cons, h]

/-- the first rune is the ASCII rune `k` iff the first byte is `k` -/
theorem decodeRune_eq_ascii (d : UInt8) (r : Bytes) (k : Nat) (hk : k < 128) :
    (decodeRune (d :: r)).1 = k ↔ d.toNat = k := by
  by_cases h : d.toNat < 128
  · rw [decodeRune_ascii' d r h]
  · have := decodeRune_rune_ge d r (by omega)
    omega

theorem commentLen_skip (x y : Bytes) (hx : ∀ b ∈ x, b ≠ 10) :
    commentLen (x ++ y) = x.length + commentLen y := by
  induction x with
  | nil => simp
  | cons c x ih =>
    have hc : c ≠ 10 := hx c List.mem_cons_self
    have := ih fun b hb => hx b (List.mem_cons_of_mem _ hb)
    simp only [List.cons_append, commentLen, beq_iff_eq, hc, ↓reduceIte, this, List.length_cons]
    omega

/-- **the comment loop by runes = the model's loop by bytes** -/
theorem runesUntil_newline (s : Bytes) : runesUntil 10 s = commentLen s := by
  induction h : s.length using Nat.strongRecOn generalizing s with
  | _ n ih =>
    cases s with
    | nil => simp [runesUntil, commentLen]
    | cons c rest =>
      rw [runesUntil]
      by_cases hc : c.toNat < 128
      · rw [decodeRune_ascii' c rest hc]
        simp only [List.drop_succ_cons, List.drop_zero, commentLen]
        by_cases h10 : c = 10
        · subst h10; simp
        · have : c.toNat ≠ 10 := fun e => h10 (UInt8.toNat_inj.mp e)
          simp only [beq_iff_eq, this, ↓reduceIte, h10]
          rw [ih rest.length (by simp at h; omega) rest rfl]
          omega
      · have hge := decodeRune_rune_ge c rest (by omega)
        have hne : ((decodeRune (c :: rest)).1 == 10) = false := by
          simp only [beq_eq_false_iff_ne, ne_eq]; omega
        rw [hne]
        simp only [Bool.false_eq_true, ↓reduceIte]
        have hpos := decodeRune_width_pos c rest
        have hle := decodeRune_width_le (c :: rest)
        generalize hw : (decodeRune (c :: rest)).2 = w at *
        have htail := decodeRune_tail_ge c rest
        rw [hw] at htail
        rw [ih ((c :: rest).drop w).length (by simp at h ⊢; omega) _ rfl]
        have hsplit : c :: rest = (c :: rest).take w ++ (c :: rest).drop w := (List.take_append_drop w _).symm
        conv => rhs; rw [hsplit]
        rw [commentLen_skip]
        · simp only [List.length_take, List.length_cons]
          simp only [List.length_cons] at hle
          omega
        · intro b hb
          obtain ⟨w', rfl⟩ : ∃ w', w = w' + 1 := ⟨w - 1, by omega⟩
          simp only [List.take_succ_cons, List.mem_cons, Nat.add_one_sub_one] at hb htail
          rcases hb with rfl | hb
          · intro e; subst e; simp at hc
          · have := htail b hb
            intro e; subst e; simp at this

end Pql.Dispatch
