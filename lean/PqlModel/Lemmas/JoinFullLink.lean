/-
C03 / C02, the general statement theorem, helper 3: the SELECT of ANY link of the intended chain —
reading a table, or joining two, with ORDER BY / LIMIT attached or not — evaluates to the link's
clauses applied, in order, to the table(s) it reads (`linkVal`).
-/
import PqlModel.Lemmas.JoinFullAlias
namespace Pql.JoinFull
open Pql Sql CompileOracle Intended SplitQ SelSem C02

/-- `SelSem.post` with the ORDER BY hypothesis restricted to the rows and the ORDER BY terms at hand -/
theorem post' {ρ} (src : Bytes) (db : DB) (a : SubA) (obs : List OrderTerm) (lim : Option Sql.SExpr)
    (hob : obsOf a = some obs) (hlim : limOf a = some lim)
    (outCols : List Bytes) (rows : List ρ) (g : ρ → ORow)
    (hkey : ∀ r ∈ rows, ∀ o ∈ obs, evalS (g r).2.1 (envOfRow [] outCols (g r).2.2 ++ (g r).1) o.expr =
                    evalS [] (envOfRow [] outCols (g r).2.2) o.expr) :
    (sortTakeA a).foldl (interpClause src db) ⟨outCols, rows.map fun r => (g r).2.2⟩ =
      ⟨outCols, (limitStep lim (sortStep obs outCols (rows.map g))).map (·.2.2)⟩ := by
  have hsort : (match a.sort with | some ts => [Clause.sort ts] | none => []).foldl (interpClause src db)
        ⟨outCols, rows.map fun r => (g r).2.2⟩ =
      ⟨outCols, (sortStep obs outCols (rows.map g)).map (·.2.2)⟩ := by
    cases hs : a.sort with
    | none =>
      simp only [obsOf, hs, pure, Option.some.injEq] at hob
      subst hob
      simp [sortStep]
    | some terms =>
      simp only [obsOf, hs] at hob
      obtain ⟨hd, hk⟩ := mapM_orderOf terms obs hob
      simp only [List.foldl_cons, List.foldl_nil, interpClause, Rel.sortTable, Rel.rowEnv, Table.mk.injEq, true_and]
      rw [sortStep_eq, sortByKeys_map, sortByKeys_map, List.map_map, ← hd]
      congr 1
      apply sortByKeys_congr
      intro r hr
      rw [hk]
      apply List.map_congr_left
      intro o ho
      exact (hkey r hr o ho).symm
  unfold sortTakeA
  rw [List.foldl_append]
  erw [hsort]
  cases ht : a.take with
  | none =>
    simp only [limOf, ht, pure, Option.some.injEq] at hlim
    subst hlim
    simp [limitStep]
  | some n =>
    simp only [limOf, ht] at hlim
    cases hn : tr false n with
    | none => simp [hn] at hlim
    | some l =>
      simp only [hn, Option.map_some, Option.some.injEq] at hlim
      subst hlim
      simp only [List.foldl_cons, List.foldl_nil, interpClause, Rel.takeTable, limitStep,
        evalP_eq false [] [] n l hn]
      cases limitOf (evalS [] [] l) with
      | none => rfl
      | some k => simp [List.map_take]

/-- the SELECT of a join link -/
def joinSel (unique left : Bool) (l r : Bytes) (c : Sql.SExpr) (obs : List OrderTerm) (lim : Option Sql.SExpr) : Select :=
  { items := [starItem],
    source := (if unique then TableRef.distinctOf l (some leftA) else TableRef.named l (some leftA)),
    join := some ⟨left, .named r (some rightA), c⟩,
    where_ := none, groupBy := [], orderBy := obs, limit := lim }

theorem selOf_join_eq (src : Bytes) (a : SubA) (unique left : Bool) (l r : Bytes) (cond : Expr)
    (hsrc : a.source = .join unique left l r cond) (hop : a.op = none) :
    selOf src a = (do
      let c ← tr true cond
      let obs ← obsOf a
      let lim ← limOf a
      pure (joinSel unique left l r c obs lim)) := by
  obtain ⟨name, source, op, sort, take⟩ := a
  simp only at hsrc hop
  subst hsrc hop
  unfold selOf obsOf limOf joinSel
  cases sort <;> cases take <;> dsimp only <;> cases tr true cond <;> rfl

theorem selOf_joinSel (src : Bytes) (a : SubA) (unique left : Bool) (l r : Bytes) (cond : Expr) (sel : Select)
    (hsrc : a.source = .join unique left l r cond) (hop : a.op = none) (hsel : selOf src a = some sel) :
    ∃ c obs lim, tr true cond = some c ∧ obsOf a = some obs ∧ limOf a = some lim ∧
      sel = joinSel unique left l r c obs lim := by
  rw [selOf_join_eq src a unique left l r cond hsrc hop] at hsel
  simp only [bind, Option.bind, pure] at hsel
  cases hc : tr true cond with
  | none => simp [hc] at hsel
  | some c =>
    cases ho : obsOf a with
    | none => simp [hc, ho] at hsel
    | some obs =>
      cases hl : limOf a with
      | none => simp [hc, ho, hl] at hsel
      | some lim =>
        simp only [hc, ho, hl, Option.some.injEq] at hsel
        exact ⟨c, obs, lim, rfl, rfl, rfl, hsel.symm⟩

/-- the FROM / JOIN rows of `evalSelect` for a join SELECT: (ON environment, flat row) -/
def joinPairs (left : Bool) (lcols : List Bytes) (rt : Table) (c : Sql.SExpr) (rows : List (List Val)) :
    List (Env × List Val) :=
  rows.flatMap fun l =>
    let le := envOfRow leftA lcols l
    let ms := rt.rows.filterMap fun r =>
      let env := le ++ envOfRow rightA rt.cols r
      if evalS [] env c == .bool true then some (env, l ++ r) else none
    if ms.isEmpty && left then [(le ++ envOfRow rightA rt.cols (rt.cols.map fun _ => Val.null), l ++ rt.cols.map fun _ => Val.null)]
    else ms

theorem evalSelect_joinSel (db : DB) (ctes : List (Bytes × Table)) (unique left : Bool) (l r : Bytes)
    (c : Sql.SExpr) (obs : List OrderTerm) (lim : Option Sql.SExpr) :
    evalSelect db ctes (joinSel unique left l r c obs lim) =
      let lt := lookupTable db ctes l
      let rt := lookupTable db ctes r
      let pairs := joinPairs left lt.cols rt c (if unique then distinctRows lt.rows else lt.rows)
      ⟨lt.cols ++ rt.cols,
       (limitStep lim (sortStep obs (lt.cols ++ rt.cols)
          (pairs.map fun p => ((p.1, [], p.2) : ORow)))).map (·.2.2)⟩ := by
  cases unique
  · simp only [evalSelect, joinSel, refTable, starItem, Option.getD, Bool.false_eq_true, ↓reduceIte, List.isEmpty_nil,
      Bool.not_true, List.any_cons, List.any_nil, Bool.false_and, Bool.or_false,
      List.flatMap_cons, List.flatMap_nil, List.append_nil]
    rfl
  · simp only [evalSelect, joinSel, refTable, starItem, Option.getD, Bool.false_eq_true, ↓reduceIte, List.isEmpty_nil,
      Bool.not_true, List.any_cons, List.any_nil, Bool.false_and, Bool.or_false,
      List.flatMap_cons, List.flatMap_nil, List.append_nil]
    rfl

/-- every pair is (left row under `$left` ++ right row under `$right`, left row ++ right row), the left
    row a row of the left table -/
theorem joinPairs_shape (left : Bool) (lcols : List Bytes) (rt : Table) (c : Sql.SExpr) (rows : List (List Val))
    (p : Env × List Val) (hp : p ∈ joinPairs left lcols rt c rows) :
    ∃ l r, l ∈ rows ∧ p = (envOfRow leftA lcols l ++ envOfRow rightA rt.cols r, l ++ r) := by
  simp only [joinPairs, List.mem_flatMap] at hp
  obtain ⟨l, hl, hp⟩ := hp
  split at hp
  · simp only [List.mem_singleton] at hp
    exact ⟨l, _, hl, hp⟩
  · simp only [List.mem_filterMap] at hp
    obtain ⟨r, _, hsome⟩ := hp
    split at hsome
    · simp only [Option.some.injEq] at hsome
      exact ⟨l, r, hl, hsome.symm⟩
    · cases hsome

/-- **C03 (the join link, with ORDER BY and / or LIMIT attached).**  The SELECT of a join link
    evaluates to the link's ORDER BY / LIMIT (`Rel.sortTable`, `Rel.takeTable`) applied to the documented
    join of the two tables it names — when there is an ORDER BY: provided the left table is rectangular
    and the sort terms do not mention `$left.…` / `$right.…`. -/
theorem evalSelect_join_sort (src : Bytes) (db : DB) (ctes : List (Bytes × Table)) (a : SubA)
    (unique left : Bool) (l r : Bytes) (cond : Expr) (sel : Select)
    (hsrc : a.source = .join unique left l r cond) (hop : a.op = none) (hsel : selOf src a = some sel)
    (hal : ∀ ts, a.sort = some ts → aliasFreeTerms ts = true)
    (hrect : a.sort.isSome = true → Rect (lookupTable db ctes l)) :
    evalSelect db ctes sel =
      (sortTakeA a).foldl (interpClause src db)
        (JoinSem.joinTables unique left (lookupTable db ctes l) (lookupTable db ctes r) cond) := by
  obtain ⟨c, obs, lim, hc, ho, hl, rfl⟩ := selOf_joinSel src a unique left l r cond sel hsrc hop hsel
  rw [evalSelect_joinSel]
  have hev : ∀ env, evalS [] env c = Rel.evalP true [] env cond :=
    fun env => (JoinSem.evalP_eq_evalS true cond c hc [] env).symm
  have hJ : JoinSem.joinTables unique left (lookupTable db ctes l) (lookupTable db ctes r) cond =
      ⟨(lookupTable db ctes l).cols ++ (lookupTable db ctes r).cols,
       (joinPairs left (lookupTable db ctes l).cols (lookupTable db ctes r) c
          (if unique then distinctRows (lookupTable db ctes l).rows else (lookupTable db ctes l).rows)).map
            fun p => (((p.1, [], p.2) : ORow)).2.2⟩ := by
    simp only [JoinSem.joinTables, Table.mk.injEq, true_and]
    exact (JoinSem.joinPairs_map_snd left _ _ cond c hev _).symm
  rw [hJ]
  refine (post' src db a obs lim ho hl _ _ (fun (p : Env × List Val) => ((p.1, [], p.2) : ORow)) ?_).symm
  intro p hp o hobs
  cases hs : a.sort with
  | none =>
    simp only [obsOf, hs, pure, Option.some.injEq] at ho
    subst ho
    cases hobs
  | some ts =>
    obtain ⟨l0, r0, hl0, rfl⟩ := joinPairs_shape _ _ _ _ _ p hp
    have hlen : l0.length = (lookupTable db ctes l).cols.length := by
      apply hrect (by rw [hs]; rfl)
      cases unique
      · simpa using hl0
      · exact (JoinSem.distinctRows_spec _).2.1 l0 |>.mp (by simpa using hl0)
    apply evalS_joinEnv _ _ _ _ hlen
    -- the ORDER BY term is the translation of an alias-free sort term
    have hts := hal ts hs
    simp only [obsOf, hs] at ho
    have : ∀ (ts : List SortTerm) (obs : List OrderTerm), ts.mapM orderOf = some obs → aliasFreeTerms ts = true →
        ∀ o ∈ obs, aliasFreeS o.expr = true := by
      intro ts
      induction ts with
      | nil => intro obs h _ o ho; simp only [List.mapM_nil, pure, Option.some.injEq] at h; subst h; cases ho
      | cons t ts ih =>
        intro obs h hfree o ho
        simp only [List.mapM_cons, bind, Option.bind] at h
        cases ht : orderOf t with
        | none => simp [ht] at h
        | some ot =>
          cases hts' : ts.mapM orderOf with
          | none => simp [ht, hts'] at h
          | some os =>
            simp only [ht, hts', pure, Option.some.injEq] at h
            subst h
            simp only [aliasFreeTerms, List.all_cons, Bool.and_eq_true] at hfree
            rcases List.mem_cons.mp ho with rfl | ho
            · simp only [orderOf, bind, Option.bind] at ht
              cases hx : tr false t.x with
              | none => simp [hx] at ht
              | some e =>
                simp only [hx, pure, Option.some.injEq] at ht
                subst ht
                have := hfree.1
                simp only [hx] at this
                exact this
            · exact ih os hts' hfree.2 o ho
    exact this ts obs ho hts o hobs

end Pql.JoinFull
