/-
LexRender, part 1: a fuel-free, one-token view of the SQL lexer.

`lexStep mode c rest` is what one iteration of `Sql.lexAux` does on the input `c :: rest`:
the tokens it emits (none for white space) and the remaining input, or `none` for a lexing
failure.  `lexAux_step` is the only place where the long `if` chain of `lexAux` is opened.
-/
import PqlModel.Spec.Sql.Lex
namespace Pql.LexRender
open Pql Sql

/-- the number branch of `lexAux`: text after the first digit and the remaining input -/
def numStep (rest : Bytes) : Option (Bytes × Bytes) :=
  let ip := spanWhile isDigitB rest
  let fr : Bytes × Bytes :=
    match ip.2 with
    | d :: r => if d == 46 then let f := spanWhile isDigitB r; (46 :: f.1, f.2) else ([], ip.2)
    | [] => ([], [])
  let ex := lexExponent fr.2
  if (ex.2.head?.map isWordStart).getD false then none
  else some (ip.1 ++ fr.1 ++ ex.1, ex.2)

/-- one iteration of `lexAux` on `c :: rest` -/
def lexStep (mode : QuoteMode) (c : UInt8) (rest : Bytes) : Option (List STok × Bytes) :=
  if isSpaceB c then some ([], rest)
  else if c == 45 && rest.head? == some 45 then some ([STok.comment], skipLineComment rest)
  else if c == 47 && rest.head? == some 42 then
    match skipBlockComment rest.tail with
    | some r => some ([STok.comment], r)
    | none => none
  else if c == 39 then
    match lexQuoted mode 39 rest with
    | some (v, r) => some ([STok.str v], r)
    | none => none
  else if c == 34 then
    match lexQuoted mode 34 rest with
    | some (v, r) => some ([STok.qid v], r)
    | none => none
  else if isWordStart c then
    let r := spanWhile isWordCont rest
    some ([STok.word (c :: r.1)], r.2)
  else if isDigitB c then
    match numStep rest with
    | some (t, r) => some ([STok.num (c :: t)], r)
    | none => none
  else if c == 36 then
    let r := spanWhile isWordCont rest
    if r.1.isEmpty then none else some ([STok.param (c :: r.1)], r.2)
  else if c == 63 then some ([STok.param [63]], rest)
  else if c == 123 then
    let r := spanWhile (· != 125) rest
    match r.2 with
    | _ :: r2 => some ([STok.param (c :: r.1 ++ [125])], r2)
    | [] => none
  else
    match rest.head?.bind (fun d => twoCharSyms.find? (fun o => o.1 == c && o.2.1 == d)) with
    | some o => some ([STok.sym o.2.2], rest.tail)
    | none =>
      match oneCharSyms.find? (fun o => o.1 == c) with
      | some o => some ([STok.sym o.2], rest)
      | none => none

/-- continue lexing after one step -/
def andThen (mode : QuoteMode) (fuel : Nat) : Option (List STok × Bytes) → Option (List STok)
  | none => none
  | some (t, r) => (lexAux mode fuel r).map (t ++ ·)

theorem lexAux_step (mode : QuoteMode) (fuel : Nat) (c : UInt8) (rest : Bytes) :
    lexAux mode (fuel + 1) (c :: rest) = andThen mode fuel (lexStep mode c rest) := by
  rw [lexAux, lexStep]
  by_cases h1 : isSpaceB c = true
  · rw [if_pos h1, if_pos h1]; simp [andThen]
  rw [if_neg h1, if_neg h1]
  by_cases h2 : (c == 45 && rest.head? == some 45) = true
  · rw [if_pos h2, if_pos h2]; rfl
  rw [if_neg h2, if_neg h2]
  by_cases h3 : (c == 47 && rest.head? == some 42) = true
  · rw [if_pos h3, if_pos h3]; cases skipBlockComment rest.tail <;> rfl
  rw [if_neg h3, if_neg h3]
  by_cases h4 : (c == 39) = true
  · rw [if_pos h4, if_pos h4]; rcases lexQuoted mode 39 rest with _ | ⟨v, r⟩ <;> rfl
  rw [if_neg h4, if_neg h4]
  by_cases h5 : (c == 34) = true
  · rw [if_pos h5, if_pos h5]; rcases lexQuoted mode 34 rest with _ | ⟨v, r⟩ <;> rfl
  rw [if_neg h5, if_neg h5]
  by_cases h6 : isWordStart c = true
  · rw [if_pos h6, if_pos h6]; rfl
  rw [if_neg h6, if_neg h6]
  by_cases h7 : isDigitB c = true
  · rw [if_pos h7, if_pos h7]
    unfold numStep
    dsimp only
    generalize spanWhile isDigitB rest = ip
    obtain ⟨ip1, ip2⟩ := ip
    have fin : ∀ (fr : Bytes × Bytes),
        (if (Option.map isWordStart (List.head? (lexExponent fr.2).2)).getD false = true then none
         else Option.map (fun x => STok.num (c :: ip1 ++ fr.1 ++ (lexExponent fr.2).1) :: x)
          (lexAux mode fuel (lexExponent fr.2).2)) =
        andThen mode fuel
          (match (if (Option.map isWordStart (List.head? (lexExponent fr.2).2)).getD false = true then none
            else some (ip1 ++ fr.1 ++ (lexExponent fr.2).1, (lexExponent fr.2).2)) with
          | some (t, r) => some ([STok.num (c :: t)], r)
          | none => none) := by
      intro fr
      by_cases h8 : (Option.map isWordStart (List.head? (lexExponent fr.2).2)).getD false = true
      · rw [if_pos h8, if_pos h8]; rfl
      · rw [if_neg h8, if_neg h8]; simp [andThen]
    rcases ip2 with _ | ⟨d, r⟩
    · exact fin ([], [])
    · dsimp only
      by_cases hd : (d == 46) = true
      · simp only [hd, if_true]; exact fin (46 :: (spanWhile isDigitB r).1, (spanWhile isDigitB r).2)
      · simp only [hd]; exact fin ([], d :: r)
  rw [if_neg h7, if_neg h7]
  by_cases h9 : (c == 36) = true
  · rw [if_pos h9, if_pos h9]; dsimp only
    by_cases h10 : (spanWhile isWordCont rest).1.isEmpty = true
    · rw [if_pos h10, if_pos h10]; rfl
    · rw [if_neg h10, if_neg h10]; rfl
  rw [if_neg h9, if_neg h9]
  by_cases h11 : (c == 63) = true
  · rw [if_pos h11, if_pos h11]; rfl
  rw [if_neg h11, if_neg h11]
  by_cases h12 : (c == 123) = true
  · rw [if_pos h12, if_pos h12]; dsimp only
    cases (spanWhile (fun x => x != 125) rest).2 <;> rfl
  rw [if_neg h12, if_neg h12]
  cases rest.head?.bind (fun d => twoCharSyms.find? (fun o => o.1 == c && o.2.1 == d)) with
  | some o => rfl
  | none =>
    dsimp only
    cases oneCharSyms.find? (fun o => o.1 == c) <;> rfl

end Pql.LexRender
