/-
Which names does `writeExpr` look at?  `keyName`: the join aliases `$left` / `$right`
(unquoted, or in any form inside a join condition, where `hasJoinTerms` compares names without
looking at the quoting) and, for an unquoted single-part name, the names bound in the scope and
the built-in constants.  A content map is *inert* on an expression when it fixes the key names
and maps no other name to a key name.
-/
import PqlModel.Lemmas.ShapeBasic
import PqlModel.Lemmas.ScopeWriteSub
namespace Pql

def isAlias (n : Bytes) : Bool := n == leftAlias || n == rightAlias

def keyName (s : Scope) (m : Mode) (single : Bool) (p : Ident) : Bool :=
  (isAlias p.name && (!p.quoted || m == .join)) ||
  (single && !p.quoted && ((lookupScope s p.name).isSome || (builtinIdent p.name).isSome))

def inertPart (s : Scope) (m : Mode) (φ : CMap) (single : Bool) (p : Ident) : Bool :=
  if keyName s m single p then φ.fn p.name == p.name else !keyName s m single (φ.ident p)

mutual
def inertE (s : Scope) (m : Mode) (φ : CMap) : Expr → Bool
  | .nil => true
  | .qident parts => parts.all (inertPart s m φ (parts.length == 1))
  | .lit .. => true
  | .unary _ _ x => inertE s m φ x
  | .binary x _ _ y => inertE s m φ x && inertE s m φ y
  | .inE x _ _ vals _ => inertE s m φ x && inertL s m φ vals
  | .paren _ x _ => inertE s m φ x
  | .call _ _ args _ => inertL s m φ args
  | .index x _ idx _ => inertE s m φ x && inertE s m φ idx
def inertL (s : Scope) (m : Mode) (φ : CMap) : ExprList → Bool
  | .nil => true
  | .cons e es => inertE s m φ e && inertL s m φ es
end

/-! ### related scopes -/

/-- the two scopes bind the same names, to related texts -/
def ScopeRel (R : List Chunk → List Chunk → Prop) (s s' : Scope) : Prop :=
  ∀ n, OptRel R (lookupScope s n) (lookupScope s' n)

theorem ScopeRel.nil (R : List Chunk → List Chunk → Prop) : ScopeRel R [] [] := fun _ => .none

theorem ScopeRel.isSome {R : List Chunk → List Chunk → Prop} {s s' : Scope} (h : ScopeRel R s s') (n : Bytes) :
    (lookupScope s' n).isSome = (lookupScope s n).isSome := by
  have := h n
  revert this
  generalize lookupScope s n = l1
  generalize lookupScope s' n = l2
  intro this
  cases this <;> rfl

theorem ScopeRel.cons {R : List Chunk → List Chunk → Prop} {s s' : Scope} (h : ScopeRel R s s')
    (n : Bytes) {v v' : List Chunk} (hv : R v v') : ScopeRel R ((n, v) :: s) ((n, v') :: s') := by
  intro k
  rw [lookupScope_cons, lookupScope_cons]
  dsimp only
  split
  · exact .some hv
  · exact h k

theorem keyName_scopeRel {R : List Chunk → List Chunk → Prop} {s s' : Scope} (h : ScopeRel R s s')
    (m : Mode) (single : Bool) (p : Ident) : keyName s' m single p = keyName s m single p := by
  simp only [keyName, h.isSome]

/-- every scope is related to its image -/
theorem ScopeRel.map {φ : CMap} {R : List Chunk → List Chunk → Prop} (hR : MapCong φ R) :
    (s : Scope) → ScopeRel R s (s.map fun kv => (kv.1, kv.2.map (Chunk.mapC φ)))
  | [] => ScopeRel.nil R
  | (n, v) :: s => by
    simp only [List.map_cons]
    exact (ScopeRel.map hR s).cons n (hR.map v)

/-! ### consequences of inertness for one part -/

section
variable {s : Scope} {m : Mode} {φ : CMap} {single : Bool} {p : Ident}

theorem inertPart_key (h : inertPart s m φ single p = true) (hk : keyName s m single p = true) :
    φ.fn p.name = p.name := by
  simp only [inertPart, hk, if_true, beq_iff_eq] at h
  exact h

theorem inertPart_notKey (h : inertPart s m φ single p = true) (hk : keyName s m single p = false) :
    keyName s m single (φ.ident p) = false := by
  simp only [inertPart, hk, Bool.false_eq_true, if_false, Bool.not_eq_true'] at h
  exact h

/-- a property of parts (of their name and quoting) that holds for no key-free part is preserved -/
theorem inertPart_pred (h : inertPart s m φ single p = true) (P : Bytes → Bool → Bool)
    (hP : ∀ q, keyName s m single q = false → P q.name q.quoted = false) :
    P (φ.ident p).name (φ.ident p).quoted = P p.name p.quoted := by
  cases hk : keyName s m single p with
  | true => simp only [CMap.ident_name, CMap.ident_quoted, inertPart_key h hk]
  | false => rw [hP _ (inertPart_notKey h hk), hP _ hk]

end

theorem keyName_false_alias {s : Scope} {m : Mode} {single : Bool} {q : Ident}
    (h : keyName s m single q = false) :
    (isAlias q.name && (!q.quoted || m == .join)) = false := by
  simp only [keyName, Bool.or_eq_false_iff] at h
  exact h.1

/-- the `$left` / `$right` outside a join check of `writeExpr` -/
theorem inertPart_aliasErr {s : Scope} {m : Mode} {φ : CMap} {single : Bool} {p : Ident}
    (h : inertPart s m φ single p = true) :
    (!(φ.ident p).quoted && ((φ.ident p).name == leftAlias || (φ.ident p).name == rightAlias) && decide (m ≠ .join)) =
    (!p.quoted && (p.name == leftAlias || p.name == rightAlias) && decide (m ≠ .join)) := by
  refine inertPart_pred h (fun n q => !q && (n == leftAlias || n == rightAlias) && decide (m ≠ .join)) ?_
  intro q hq
  have := keyName_false_alias hq
  simp only [isAlias] at this
  cases hquo : q.quoted <;> cases hal : (q.name == leftAlias || q.name == rightAlias) <;>
    cases m <;> simp_all

/-- in a join condition no part changes its being `$left` (or `$right`) -/
theorem inertPart_isName {s : Scope} {φ : CMap} {single : Bool} {p : Ident}
    (h : inertPart s .join φ single p = true) (a : Bytes) (ha : isAlias a = true) :
    ((φ.ident p).name == a) = (p.name == a) := by
  refine inertPart_pred h (fun n _ => n == a) ?_
  intro q hq
  have := keyName_false_alias hq
  simp only [beq_self_eq_true, Bool.or_true, Bool.and_true] at this
  cases hqa : q.name == a with
  | false => rfl
  | true =>
    rw [beq_iff_eq] at hqa
    rw [hqa, ha] at this
    exact absurd this (by decide)

/-! ### `hasJoinTerms` -/

mutual
theorem exprIdents_mapE (φ : CMap) : (e : Expr) → exprIdents (mapE φ e) = (exprIdents e).map φ.ident
  | .nil => by simp only [mapE, exprIdents, List.map_nil]
  | .qident parts => by simp only [mapE, exprIdents]
  | .lit .. => by simp only [mapE, exprIdents, List.map_nil]
  | .unary _ _ x => by simp only [mapE, exprIdents, exprIdents_mapE φ x]
  | .binary x _ _ y => by simp only [mapE, exprIdents, exprIdents_mapE φ x, exprIdents_mapE φ y, List.map_append]
  | .inE x _ _ vals _ => by
    simp only [mapE, exprIdents, exprIdents_mapE φ x, exprListIdents_mapL φ vals, List.map_append]
  | .paren _ x _ => by simp only [mapE, exprIdents, exprIdents_mapE φ x]
  | .call _ _ args _ => by simp only [mapE, exprIdents, exprListIdents_mapL φ args]
  | .index x _ idx _ => by
    simp only [mapE, exprIdents, exprIdents_mapE φ x, exprIdents_mapE φ idx, List.map_append]
theorem exprListIdents_mapL (φ : CMap) : (es : ExprList) → exprListIdents (mapL φ es) = (exprListIdents es).map φ.ident
  | .nil => by simp only [mapL, exprListIdents, List.map_nil]
  | .cons e es => by
    simp only [mapL, exprListIdents, exprIdents_mapE φ e, exprListIdents_mapL φ es, List.map_append]
end

/-- every identifier below an inert expression is inert (as a single or as a qualified part) -/
def inertAny (s : Scope) (m : Mode) (φ : CMap) (p : Ident) : Prop :=
  ∃ single, inertPart s m φ single p = true

mutual
theorem inertE_idents {s : Scope} {m : Mode} {φ : CMap} :
    (e : Expr) → inertE s m φ e = true → ∀ p ∈ exprIdents e, inertAny s m φ p
  | .nil, _ => by simp [exprIdents]
  | .qident parts, h => by
    simp only [inertE, List.all_eq_true] at h
    intro p hp
    exact ⟨_, h p hp⟩
  | .lit .., _ => by simp [exprIdents]
  | .unary _ _ x, h => by
    simp only [inertE] at h
    simpa only [exprIdents] using inertE_idents x h
  | .binary x _ _ y, h => by
    simp only [inertE, Bool.and_eq_true] at h
    intro p hp
    simp only [exprIdents, List.mem_append] at hp
    rcases hp with hp | hp
    · exact inertE_idents x h.1 p hp
    · exact inertE_idents y h.2 p hp
  | .inE x _ _ vals _, h => by
    simp only [inertE, Bool.and_eq_true] at h
    intro p hp
    simp only [exprIdents, List.mem_append] at hp
    rcases hp with hp | hp
    · exact inertE_idents x h.1 p hp
    · exact inertL_idents vals h.2 p hp
  | .paren _ x _, h => by
    simp only [inertE] at h
    simpa only [exprIdents] using inertE_idents x h
  | .call _ _ args _, h => by
    simp only [inertE] at h
    simpa only [exprIdents] using inertL_idents args h
  | .index x _ idx _, h => by
    simp only [inertE, Bool.and_eq_true] at h
    intro p hp
    simp only [exprIdents, List.mem_append] at hp
    rcases hp with hp | hp
    · exact inertE_idents x h.1 p hp
    · exact inertE_idents idx h.2 p hp
theorem inertL_idents {s : Scope} {m : Mode} {φ : CMap} :
    (es : ExprList) → inertL s m φ es = true → ∀ p ∈ exprListIdents es, inertAny s m φ p
  | .nil, _ => by simp [exprListIdents]
  | .cons e es, h => by
    simp only [inertL, Bool.and_eq_true] at h
    intro p hp
    simp only [exprListIdents, List.mem_append] at hp
    rcases hp with hp | hp
    · exact inertE_idents e h.1 p hp
    · exact inertL_idents es h.2 p hp
end

theorem any_map_congr {α : Type} (f : α → α) (P : α → Bool) :
    (l : List α) → (∀ p ∈ l, P (f p) = P p) → (l.map f).any P = l.any P
  | [], _ => rfl
  | a :: l, h => by
    simp only [List.map_cons, List.any_cons]
    rw [h a (List.mem_cons_self ..), any_map_congr f P l fun p hp => h p (List.mem_cons_of_mem _ hp)]

theorem hasJoinTerms_mapE {s : Scope} {φ : CMap} (e : Expr) (h : inertE s .join φ e = true) :
    hasJoinTerms (mapE φ e) = hasJoinTerms e := by
  have hall := inertE_idents e h
  simp only [hasJoinTerms, exprIdents_mapE]
  rw [any_map_congr, any_map_congr]
  · intro p hp
    obtain ⟨single, hi⟩ := hall p hp
    exact inertPart_isName hi rightAlias (by decide)
  · intro p hp
    obtain ⟨single, hi⟩ := hall p hp
    exact inertPart_isName hi leftAlias (by decide)

end Pql
