/-
Heap lemmas for `SplitImp.Machine`: what `alloc` / `load` / `store` do to the list of subqueries a
slice of pointers denotes (`abs`), the loop invariant `Inv` (what `lastSubquery` points to) and
the frame condition `Frame` (objects allocated before the activation are never written).
-/
import PqlModel.Lemmas.SplitImpMachine
import PqlModel.Lemmas.SplitQueriesRun
namespace Pql.SplitImp
open Pql

/-! ### cells -/

theorem push_set_last (h : Heap) (s v : Subquery) : (h.push s).setIfInBounds h.size v = h.push v := by
  apply Array.ext_getElem?
  intro i
  rw [Array.getElem?_setIfInBounds, Array.getElem?_push, Array.getElem?_push]
  by_cases hi : h.size = i
  · subst hi; simp
  · have : i ≠ h.size := fun e => hi e.symm
    simp [hi, this]

theorem cell_push_lt (h : Heap) (s : Subquery) {a : Addr} (ha : a < h.size) :
    cell (h.push s) a = cell h a := by
  unfold cell
  rw [Array.getElem?_push, if_neg (Nat.ne_of_lt ha)]

theorem cell_push_size (h : Heap) (s : Subquery) : cell (h.push s) h.size = s := by
  unfold cell
  rw [Array.getElem?_push, if_pos rfl]; rfl

theorem cell_set (h : Heap) {p : Addr} (v : Subquery) (a : Addr) (hp : p < h.size) :
    cell (h.setIfInBounds p v) a = if a = p then v else cell h a := by
  unfold cell
  rw [Array.getElem?_setIfInBounds]
  by_cases hpa : p = a
  · subst hpa; simp [hp]
  · have : ¬ a = p := fun e => hpa e.symm
    simp [hpa, this]

theorem getElem?_eq_some_cell (h : Heap) {a : Addr} (ha : a < h.size) : h[a]? = some (cell h a) := by
  unfold cell
  rw [Array.getElem?_eq_getElem ha]; rfl

theorem load_ok (h : Heap) {a : Addr} (ha : a < h.size) : load h a = .ok (cell h a) := by
  unfold load
  rw [getElem?_eq_some_cell h ha]

theorem load_push_lt (h : Heap) (s : Subquery) {a : Addr} (ha : a < h.size) :
    load (h.push s) a = .ok (cell h a) := by
  have ha' : a < (h.push s).size := by rw [Array.size_push]; exact Nat.lt_succ_of_lt ha
  rw [load_ok (h.push s) ha', cell_push_lt h s ha]

theorem store_ok (h : Heap) {a : Addr} (f : Subquery → Subquery) (ha : a < h.size) :
    store h a f = .ok (h.setIfInBounds a (f (cell h a))) := by
  unfold store
  rw [getElem?_eq_some_cell h ha]

theorem index_last (pre : List Addr) (p : Addr) :
    index (pre ++ [p]) (((pre ++ [p]).length : Int) - 1) = .ok p := by
  unfold index
  have h1 : (0 : Int) ≤ ((pre ++ [p]).length : Int) - 1 := by simp
  have h2 : (((pre ++ [p]).length : Int) - 1).toNat = pre.length := by simp
  rw [if_pos h1, h2]
  simp

theorem index_nat (dst : List Addr) (i : Nat) (hi : i < dst.length) :
    index dst (i : Int) = .ok dst[i] := by
  unfold index
  rw [if_pos (Int.natCast_nonneg i)]
  simp [hi]

/-! ### the denoted list -/

theorem abs_length (h : Heap) (dst : List Addr) : (abs h dst).length = dst.length := by
  simp [abs]

theorem abs_append (h : Heap) (d e : List Addr) : abs h (d ++ e) = abs h d ++ abs h e := by
  simp [abs]

theorem abs_congr {h h' : Heap} {dst : List Addr} (hc : ∀ a ∈ dst, cell h' a = cell h a) :
    abs h' dst = abs h dst := by
  unfold abs
  exact List.map_congr_left hc

theorem abs_push (h : Heap) (s : Subquery) {dst : List Addr} (hv : ∀ a ∈ dst, a < h.size) :
    abs (h.push s) dst = abs h dst :=
  abs_congr fun a ha => cell_push_lt h s (hv a ha)

theorem abs_push_snoc (h : Heap) (s : Subquery) {dst : List Addr} (hv : ∀ a ∈ dst, a < h.size) :
    abs (h.push s) (dst ++ [h.size]) = abs h dst ++ [s] := by
  rw [abs_append, abs_push h s hv]
  simp [abs, cell_push_size]

theorem abs_set_notin (h : Heap) {p : Addr} (v : Subquery) {dst : List Addr} (hp : p < h.size)
    (hn : p ∉ dst) : abs (h.setIfInBounds p v) dst = abs h dst :=
  abs_congr fun a ha => by
    rw [cell_set h v a hp, if_neg]
    rintro rfl; exact hn ha

theorem abs_set_last (h : Heap) {p : Addr} (v : Subquery) {pre : List Addr} (hp : p < h.size)
    (hn : p ∉ pre) : abs (h.setIfInBounds p v) (pre ++ [p]) = abs h pre ++ [v] := by
  rw [abs_append, abs_set_notin h v hp hn]
  simp [abs, cell_set h v p hp]

theorem abs_getLast? (h : Heap) (pre : List Addr) (p : Addr) :
    (abs h (pre ++ [p])).getLast? = some (cell h p) := by
  simp [abs]

/-! ### invariant and frame -/

/-- **What `lastSubquery` points to**, between two iterations of the loop of the activation that
    started with `len(dst) = k` on a heap of `n0` objects: it is `nil` exactly as long as the
    activation has appended nothing; afterwards it is the LAST pointer of `dst`, that address
    occurs nowhere else in `dst`, and the object was allocated by this activation. -/
structure Inv (n0 k : Nat) (st : St) : Prop where
  valid : ∀ a ∈ st.dst, a < st.heap.size
  base : n0 ≤ st.heap.size
  start_le : k ≤ st.dst.length
  last : match st.last with
    | none => st.dst.length = k
    | some p => k < st.dst.length ∧ n0 ≤ p ∧ ∃ pre, st.dst = pre ++ [p] ∧ p ∉ pre

/-- the heap only grows, and the objects that existed when the activation started (addresses
    below `n0`) are unchanged -/
def Frame (n0 : Nat) (h h' : Heap) : Prop := h.size ≤ h'.size ∧ ∀ a, a < n0 → h'[a]? = h[a]?

theorem Frame.refl (n0 : Nat) (h : Heap) : Frame n0 h h := ⟨Nat.le_refl _, fun _ _ => rfl⟩

theorem Frame.trans {n0 : Nat} {h1 h2 h3 : Heap} (a : Frame n0 h1 h2) (b : Frame n0 h2 h3) :
    Frame n0 h1 h3 :=
  ⟨Nat.le_trans a.1 b.1, fun x hx => (b.2 x hx).trans (a.2 x hx)⟩

theorem Frame.mono {n0 n1 : Nat} {h h' : Heap} (hle : n0 ≤ n1) (a : Frame n1 h h') : Frame n0 h h' :=
  ⟨a.1, fun x hx => a.2 x (Nat.lt_of_lt_of_le hx hle)⟩

theorem Frame.push (n0 : Nat) (h : Heap) (s : Subquery) (hb : n0 ≤ h.size) : Frame n0 h (h.push s) := by
  refine ⟨by simp, fun a ha => ?_⟩
  rw [Array.getElem?_push, if_neg]; omega

theorem Frame.set (n0 : Nat) (h : Heap) (p : Addr) (v : Subquery) (hp : n0 ≤ p) :
    Frame n0 h (h.setIfInBounds p v) := by
  refine ⟨by simp, fun a ha => ?_⟩
  rw [Array.getElem?_setIfInBounds, if_neg]; omega

/-- the state right after `p := &subquery{…}; dst = append(dst, p)` -/
theorem inv_fresh {n0 k : Nat} {h : Heap} {dst : List Addr} (s : Subquery)
    (hv : ∀ a ∈ dst, a < h.size) (hb : n0 ≤ h.size) (hk : k ≤ dst.length) :
    Inv n0 k ⟨h.push s, dst ++ [h.size], some h.size⟩ := by
  refine ⟨?_, ?_, ?_, ?_⟩
  · intro a ha
    simp only [List.mem_append, List.mem_singleton] at ha
    simp only [Array.size_push]
    rcases ha with ha | rfl
    · exact Nat.lt_succ_of_lt (hv a ha)
    · exact Nat.lt_succ_self _
  · simp only [Array.size_push]; omega
  · simp only [List.length_append, List.length_singleton]; omega
  · refine ⟨?_, hb, dst, rfl, fun hm => Nat.lt_irrefl _ (hv _ hm)⟩
    simp only [List.length_append, List.length_singleton]; omega

/-- the functional model's stand-in for `lastSubquery` (`lastOf`) is the object the pointer
    points to -/
theorem lastOf_abs {n0 k : Nat} {st : St} (inv : Inv n0 k st) :
    lastOf (abs st.heap st.dst) k = st.last.map (cell st.heap) := by
  have hl := inv.last
  unfold lastOf
  rw [abs_length]
  cases hlast : st.last with
  | none =>
    rw [hlast] at hl
    simp only at hl
    rw [if_neg (by omega)]; rfl
  | some p =>
    rw [hlast] at hl
    obtain ⟨hk, _, pre, hd, _⟩ := hl
    rw [if_pos hk, hd, abs_getLast?]; rfl

end Pql.SplitImp
