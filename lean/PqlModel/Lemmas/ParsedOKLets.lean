/-
Side conditions discharged for parsed trees (part 7): `let` resolution.

The four expression-level facts (`sOK`, `leavesE tokP`, no K4 function, `arOK`) are preserved by
`substExpr env` when every value of `env` satisfies them; hence `tabularOK` is preserved by
`substTabular env` (the let-resolved pipeline of a program with `let` statements).
-/
import PqlModel.Lemmas.ParsedOKTree
namespace Pql.ParsedOK
open Pql Pql.Exact CompileOracle Sql Pql.RT Pql.C05

theorem substList_length (env : List (Bytes × Expr)) : ∀ l : ExprList, (substList env l).length = l.length
  | .nil => rfl
  | .cons e es => by simp [substList, ExprList.length, substList_length env es]

mutual
theorem sOK_subst (env : List (Bytes × Expr)) (henv : ∀ kv ∈ env, sOK kv.2 = true) :
    ∀ e : Expr, sOK e = true → sOK (substExpr env e) = true
  | .qident [p], h => by
    simp only [substExpr]
    split
    · exact h
    · split
      · next v hf => simp only [sOK]; exact henv _ (List.mem_of_find?_eq_some hf)
      · exact h
  | .qident [], h => by simpa [substExpr] using h
  | .qident (_ :: _ :: _), h => by simpa [substExpr] using h
  | .nil, h => by simpa [substExpr] using h
  | .lit .., h => by simpa [substExpr] using h
  | .unary a b x, h => by
    simp only [substExpr, sOK, Bool.and_eq_true] at h ⊢
    exact ⟨h.1, sOK_subst env henv x h.2⟩
  | .paren a x b, h => by
    simp only [substExpr, sOK] at h ⊢
    exact sOK_subst env henv x h
  | .binary x a b y, h => by
    simp only [substExpr, sOK, Bool.and_eq_true] at h ⊢
    exact ⟨h.1, sOK_subst env henv x h.2.1, sOK_subst env henv y h.2.2⟩
  | .index x a y b, h => by
    simp only [substExpr, sOK, Bool.and_eq_true] at h ⊢
    exact ⟨sOK_subst env henv x h.1, sOK_subst env henv y h.2⟩
  | .inE x a b vs c, h => by
    simp only [substExpr, sOK, Bool.and_eq_true, substList_length] at h ⊢
    exact ⟨sOK_subst env henv x h.1, sOKList_subst env henv vs h.2.1, h.2.2⟩
  | .call fn a args b, h => by
    simp only [substExpr, sOK, Bool.and_eq_true] at h ⊢
    exact ⟨h.1, sOKList_subst env henv args h.2⟩
theorem sOKList_subst (env : List (Bytes × Expr)) (henv : ∀ kv ∈ env, sOK kv.2 = true) :
    ∀ l : ExprList, sOKList l = true → sOKList (substList env l) = true
  | .nil, _ => by simp [substList, sOKList]
  | .cons e es, h => by
    simp only [substList, sOKList, Bool.and_eq_true] at h ⊢
    exact ⟨sOK_subst env henv e h.1, sOKList_subst env henv es h.2⟩
end

mutual
theorem leaves_subst (P : LP) (env : List (Bytes × Expr)) (henv : ∀ kv ∈ env, leavesE P kv.2 = true) :
    ∀ e : Expr, leavesE P e = true → leavesE P (substExpr env e) = true
  | .qident [p], h => by
    simp only [substExpr]
    split
    · exact h
    · split
      · next v hf => simp only [leavesE]; exact henv _ (List.mem_of_find?_eq_some hf)
      · exact h
  | .qident [], h => by simpa [substExpr] using h
  | .qident (_ :: _ :: _), h => by simpa [substExpr] using h
  | .nil, h => by simpa [substExpr] using h
  | .lit .., h => by simpa [substExpr] using h
  | .unary a b x, h => by
    simp only [substExpr, leavesE] at h ⊢
    exact leaves_subst P env henv x h
  | .paren a x b, h => by
    simp only [substExpr, leavesE] at h ⊢
    exact leaves_subst P env henv x h
  | .binary x a b y, h => by
    simp only [substExpr, leavesE, Bool.and_eq_true] at h ⊢
    exact ⟨leaves_subst P env henv x h.1, leaves_subst P env henv y h.2⟩
  | .index x a y b, h => by
    simp only [substExpr, leavesE, Bool.and_eq_true] at h ⊢
    exact ⟨leaves_subst P env henv x h.1, leaves_subst P env henv y h.2⟩
  | .inE x a b vs c, h => by
    simp only [substExpr, leavesE, Bool.and_eq_true] at h ⊢
    exact ⟨leaves_subst P env henv x h.1, leavesL_subst P env henv vs h.2⟩
  | .call fn a args b, h => by
    simp only [substExpr, leavesE, Bool.and_eq_true] at h ⊢
    exact ⟨h.1, leavesL_subst P env henv args h.2⟩
theorem leavesL_subst (P : LP) (env : List (Bytes × Expr)) (henv : ∀ kv ∈ env, leavesE P kv.2 = true) :
    ∀ l : ExprList, leavesL P l = true → leavesL P (substList env l) = true
  | .nil, _ => by simp [substList, leavesL]
  | .cons e es, h => by
    simp only [substList, leavesL, Bool.and_eq_true] at h ⊢
    exact ⟨leaves_subst P env henv e h.1, leavesL_subst P env henv es h.2⟩
end

mutual
theorem noKw_subst (env : List (Bytes × Expr)) (henv : ∀ kv ∈ env, exprHasKeywordFn kv.2 = false) :
    ∀ e : Expr, exprHasKeywordFn e = false → exprHasKeywordFn (substExpr env e) = false
  | .qident [p], h => by
    simp only [substExpr]
    split
    · exact h
    · split
      · next v hf => simp only [exprHasKeywordFn]; exact henv _ (List.mem_of_find?_eq_some hf)
      · exact h
  | .qident [], h => by simpa [substExpr] using h
  | .qident (_ :: _ :: _), h => by simpa [substExpr] using h
  | .nil, h => by simpa [substExpr] using h
  | .lit .., h => by simpa [substExpr] using h
  | .unary a b x, h => by
    simp only [substExpr, exprHasKeywordFn] at h ⊢
    exact noKw_subst env henv x h
  | .paren a x b, h => by
    simp only [substExpr, exprHasKeywordFn] at h ⊢
    exact noKw_subst env henv x h
  | .binary x a b y, h => by
    simp only [substExpr, exprHasKeywordFn, Bool.or_eq_false_iff] at h ⊢
    exact ⟨noKw_subst env henv x h.1, noKw_subst env henv y h.2⟩
  | .index x a y b, h => by
    simp only [substExpr, exprHasKeywordFn, Bool.or_eq_false_iff] at h ⊢
    exact ⟨noKw_subst env henv x h.1, noKw_subst env henv y h.2⟩
  | .inE x a b vs c, h => by
    simp only [substExpr, exprHasKeywordFn, Bool.or_eq_false_iff] at h ⊢
    exact ⟨noKw_subst env henv x h.1, noKwL_subst env henv vs h.2⟩
  | .call fn a args b, h => by
    simp only [substExpr, exprHasKeywordFn, Bool.or_eq_false_iff] at h ⊢
    exact ⟨h.1, noKwL_subst env henv args h.2⟩
theorem noKwL_subst (env : List (Bytes × Expr)) (henv : ∀ kv ∈ env, exprHasKeywordFn kv.2 = false) :
    ∀ l : ExprList, listHasKeywordFn l = false → listHasKeywordFn (substList env l) = false
  | .nil, _ => by simp [substList, listHasKeywordFn]
  | .cons e es, h => by
    simp only [substList, listHasKeywordFn, Bool.or_eq_false_iff] at h ⊢
    exact ⟨noKw_subst env henv e h.1, noKwL_subst env henv es h.2⟩
end

mutual
theorem arOK_subst (env : List (Bytes × Expr)) (henv : ∀ kv ∈ env, arOK kv.2 = true) :
    ∀ e : Expr, arOK e = true → arOK (substExpr env e) = true
  | .qident [p], h => by
    simp only [substExpr]
    split
    · exact h
    · split
      · next v hf => simp only [arOK]; exact henv _ (List.mem_of_find?_eq_some hf)
      · exact h
  | .qident [], h => by simpa [substExpr] using h
  | .qident (_ :: _ :: _), h => by simpa [substExpr] using h
  | .nil, h => by simpa [substExpr] using h
  | .lit .., h => by simpa [substExpr] using h
  | .unary a b x, h => by
    simp only [substExpr, arOK] at h ⊢
    exact arOK_subst env henv x h
  | .paren a x b, h => by
    simp only [substExpr, arOK] at h ⊢
    exact arOK_subst env henv x h
  | .binary x a b y, h => by
    simp only [substExpr, arOK, Bool.and_eq_true] at h ⊢
    exact ⟨arOK_subst env henv x h.1, arOK_subst env henv y h.2⟩
  | .index x a y b, h => by
    simp only [substExpr, arOK, Bool.and_eq_true] at h ⊢
    exact ⟨arOK_subst env henv x h.1, arOK_subst env henv y h.2⟩
  | .inE x a b vs c, h => by
    simp only [substExpr, arOK, Bool.and_eq_true] at h ⊢
    exact ⟨arOK_subst env henv x h.1, arOKL_subst env henv vs h.2⟩
  | .call fn a args b, h => by
    simp only [substExpr, arOK, Bool.and_eq_true, substList_length] at h ⊢
    exact ⟨h.1, arOKL_subst env henv args h.2⟩
theorem arOKL_subst (env : List (Bytes × Expr)) (henv : ∀ kv ∈ env, arOK kv.2 = true) :
    ∀ l : ExprList, arOKL l = true → arOKL (substList env l) = true
  | .nil, _ => by simp [substList, arOKL]
  | .cons e es, h => by
    simp only [substList, arOKL, Bool.and_eq_true] at h ⊢
    exact ⟨arOK_subst env henv e h.1, arOKL_subst env henv es h.2⟩
end

/-- every value of the environment satisfies the four facts -/
def EnvOK (env : List (Bytes × Expr)) : Prop := ∀ kv ∈ env, fullE kv.2

theorem fullE_subst {env : List (Bytes × Expr)} (henv : EnvOK env) {e : Expr} (h : fullE e) :
    fullE (substExpr env e) :=
  ⟨sOK_subst env (fun kv hk => (henv kv hk).1) e h.1,
   leaves_subst tokP env (fun kv hk => (henv kv hk).2.1) e h.2.1,
   noKw_subst env (fun kv hk => (henv kv hk).2.2.1) e h.2.2.1,
   arOK_subst env (fun kv hk => (henv kv hk).2.2.2) e h.2.2.2⟩

theorem fullE_paren {v : Expr} (h : fullE v) : fullE (.paren .zero v .zero) := by
  obtain ⟨h1, h2, h3, h4⟩ := h
  exact ⟨by simpa [sOK] using h1, by simpa [leavesE] using h2, by simpa [exprHasKeywordFn] using h3,
    by simpa [arOK] using h4⟩

/-! ### columns, join conditions -/

def fullL' (l : ExprList) : Prop :=
  sOKList l = true ∧ leavesL tokP l = true ∧ listHasKeywordFn l = false ∧ arOKL l = true

theorem exprOK_ne_nil {e : Expr} (h : exprOK e = true) : e ≠ .nil := by
  rintro rfl
  simp [exprOKin, Expr.lexOK] at h

theorem projColOK_of_exprOK {c : Column} (h : exprOK c.x = true) : projColOK c = true := by
  unfold projColOK
  split
  · next hx => exact absurd hx (exprOK_ne_nil h)
  · exact h

theorem substColumn_x {env : List (Bytes × Expr)} {c : Column} (h : c.x ≠ .nil) :
    (substColumn env c).x = substExpr env c.x := by
  unfold substColumn
  split
  · next hx _ => exact absurd hx h
  · rfl

theorem colOK_subst {env : List (Bytes × Expr)} (henv : EnvOK env) {c : Column} (h : fullE c.x) :
    colOK (substColumn env c) = true := by
  have hne : c.x ≠ .nil := by
    intro hx; have := h.1; rw [hx] at this; simp [sOK] at this
  unfold colOK
  rw [substColumn_x hne]
  exact exprOKin_of_full false (fullE_subst henv h)

theorem projColOK_subst {env : List (Bytes × Expr)} (henv : EnvOK env) {c : Column}
    (hc : projColOK c = true) (h : c.x = .nil ∨ fullE c.x) : projColOK (substColumn env c) = true := by
  by_cases hx : c.x = .nil
  · unfold substColumn
    split
    · next n _ hn =>
      split
      · next v hf =>
        split
        · exact hc
        · apply projColOK_of_exprOK
          exact exprOKin_of_full false (fullE_paren (henv _ (List.mem_of_find?_eq_some hf)))
      · exact hc
    · next hno =>
      -- `c.x = .nil` and no name: excluded by `projColOK c`
      unfold projColOK at hc
      rw [hx] at hc
      simp only at hc
      cases hn : c.name with
      | none => rw [hn] at hc; cases hc
      | some n => exact absurd hn (fun h' => hno n hx h')
  · have hf : fullE c.x := h.resolve_left hx
    apply projColOK_of_exprOK
    rw [substColumn_x hx]
    exact exprOKin_of_full false (fullE_subst henv hf)

theorem condsOK_substConds {env : List (Bytes × Expr)} (henv : EnvOK env) : ∀ l : ExprList,
    sOKList l = true → leavesL tokP l = true → listHasKeywordFn l = false → arOKL l = true →
    condsOK (substConds env l) = true
  | .nil, _, _, _, _ => rfl
  | .cons e es, h1, h2, h3, h4 => by
    simp only [sOKList, Bool.and_eq_true] at h1
    simp only [leavesL, Bool.and_eq_true] at h2
    simp only [listHasKeywordFn, Bool.or_eq_false_iff] at h3
    simp only [arOKL, Bool.and_eq_true] at h4
    simp only [substConds, condsOK, Bool.and_eq_true]
    refine ⟨?_, condsOK_substConds henv es h1.2 h2.2 h3.2 h4.2⟩
    have hf : fullE e := ⟨h1.1, h2.1, h3.1, h4.1⟩
    unfold substCond
    split
    · exact exprOKin_of_full true hf
    · exact exprOKin_of_full true (fullE_subst henv hf)

/-! ### `tabularOK` of the resolved pipeline -/

mutual
theorem tabularOK_subst {env : List (Bytes × Expr)} (henv : EnvOK env) : ∀ t : Tabular,
    tabularOK t = true → TabAll fullE fullL' t → tabularOK (substTabular env t) = true
  | .nil, _, _ => by simp [substTabular, tabularOK]
  | .mk _ ops, h, ha => by
    simp only [tabularOK] at h
    simp only [TabAll] at ha
    simp only [substTabular, tabularOK]
    exact opsOK_subst henv ops h ha
theorem opsOK_subst {env : List (Bytes × Expr)} (henv : EnvOK env) : ∀ ops : OpList,
    opsOK ops = true → OpsAll fullE fullL' ops → opsOK (substOps env ops) = true
  | .nil, _, _ => by simp [substOps, opsOK]
  | .cons o os, h, ha => by
    simp only [opsOK, Bool.and_eq_true] at h
    simp only [OpsAll] at ha
    simp only [substOps, opsOK, Bool.and_eq_true]
    exact ⟨opOK1_subst henv o h.1 ha.1, opsOK_subst henv os h.2 ha.2⟩
theorem opOK1_subst {env : List (Bytes × Expr)} (henv : EnvOK env) : ∀ o : Op,
    opOK1 o = true → OpAll fullE fullL' o → opOK1 (substOp env o) = true
  | .count .., h, _ => by simpa [substOp] using h
  | .as_ .., h, _ => by simpa [substOp] using h
  | .render .., h, _ => by simpa [substOp] using h
  | .where_ _ _ e, _, ha => by
    simp only [OpAll] at ha
    simp only [substOp, opOK1, opOK]
    exact exprOKin_of_full false (fullE_subst henv ha)
  | .take _ _ e, _, ha => by
    simp only [OpAll] at ha
    simp only [substOp, opOK1]
    exact exprOKin_of_full false (fullE_subst henv ha)
  | .sort _ _ ts, h, ha => by
    simp only [OpAll] at ha
    simp only [opOK1, sortOK, Bool.and_eq_true] at h
    simp only [substOp, opOK1, sortOK, Bool.and_eq_true, List.all_eq_true, List.mem_map,
      forall_exists_index, and_imp, forall_apply_eq_imp_iff₂]
    refine ⟨by simpa using h.1, fun t ht => exprOKin_of_full false (fullE_subst henv (ha t ht))⟩
  | .top _ _ n _ c, _, ha => by
    simp only [OpAll] at ha
    simp only [substOp, opOK1, Bool.and_eq_true]
    refine ⟨exprOKin_of_full false (fullE_subst henv ha.1), ?_⟩
    cases c with
    | none => rfl
    | some t => exact exprOKin_of_full false (fullE_subst henv (ha.2 t rfl))
  | .project _ _ cs, h, ha => by
    simp only [OpAll] at ha
    simp only [opOK1, opOK, Bool.and_eq_true, List.all_eq_true] at h
    simp only [substOp, opOK1, opOK, Bool.and_eq_true, List.all_eq_true, List.mem_map,
      forall_exists_index, and_imp, forall_apply_eq_imp_iff₂]
    exact ⟨by simpa using h.1, fun c hc => projColOK_subst henv (h.2 c hc) (ha c hc)⟩
  | .extend _ _ cs, _, ha => by
    simp only [OpAll] at ha
    simp only [substOp, opOK1, opOK, List.all_eq_true, List.mem_map,
      forall_exists_index, and_imp, forall_apply_eq_imp_iff₂]
    exact fun c hc => colOK_subst henv (ha c hc)
  | .summarize _ _ cs _ gs, h, ha => by
    simp only [OpAll] at ha
    simp only [opOK1, opOK, Bool.and_eq_true] at h
    simp only [substOp, opOK1, opOK, Bool.and_eq_true, List.all_eq_true, List.mem_map,
      forall_exists_index, and_imp, forall_apply_eq_imp_iff₂]
    refine ⟨⟨?_, fun c hc => colOK_subst henv (ha.1 c hc)⟩, fun c hc => colOK_subst henv (ha.2 c hc)⟩
    have := h.1.1
    simp only [Bool.not_eq_true', List.isEmpty_eq_false_iff, ne_eq, List.append_eq_nil_iff, List.map_eq_nil_iff] at this ⊢
    exact this
  | .join _ _ _ _ _ _ right _ _ conds, h, ha => by
    simp only [OpAll] at ha
    simp only [opOK1, Bool.and_eq_true] at h
    simp only [substOp, opOK1, Bool.and_eq_true]
    exact ⟨tabularOK_subst henv right h.1 ha.1,
      condsOK_build _ (condsOK_substConds henv conds ha.2.1 ha.2.2.1 ha.2.2.2.1 ha.2.2.2.2)⟩
end

/-! ### the statement loop -/

/-- what an error-free parse of a K4-free program gives for each statement (Props/C05Parsed.lean) -/
def StmtFacts (s : Stmt) : Prop :=
  s.Good ∧
  StmtAll (fun e => (sOK e = true ∧ leavesE tokP e = true) ∧ exprHasKeywordFn e = false)
    (fun l => ((sOKList l = true ∧ l.length ≠ 0) ∧ leavesL tokP l = true) ∧ listHasKeywordFn l = false) s ∧
  (∀ t, s = .tabular t → TabNE t = true)

/-- **the let-resolved query is `tabularOK`** (statement loop: `resolveLets` against `misuseStmts`) -/
theorem resolveLets_tabularOK : ∀ (stmts : List Stmt) (env : List (Bytes × Expr)) (bound : List Bytes),
    EnvOK env → (∀ s ∈ stmts, StmtFacts s) → Misuse.misuseStmts stmts bound 0 = false →
    ∀ q, resolveLets stmts env = some q → tabularOK q = true
  | [], _, _, _, _, _, q, hq => by simp [resolveLets] at hq
  | .tabular t :: rest, env, bound, henv, hf, hm, q, hq => by
    simp only [resolveLets, Option.some.injEq] at hq
    subst hq
    simp only [Misuse.misuseStmts, ge_iff_le, Nat.le_zero_eq, Nat.succ_ne_zero, if_false,
      Bool.or_eq_false_iff] at hm
    obtain ⟨hg, h2, hne⟩ := hf _ List.mem_cons_self
    have h4 := tabAll_notBad bound t hm.1
    have hfull : TabAll fullE fullL' t := by
      refine TabAll.imp ?_ ?_ t (TabAll.and t h2 h4)
      · rintro e ⟨⟨⟨h1, h2⟩, h3⟩, h4⟩; exact ⟨h1, h2, h3, h4⟩
      · rintro l ⟨⟨⟨⟨h1, _⟩, h2⟩, h3⟩, h4⟩; exact ⟨h1, h2, h3, h4⟩
    have hall : TabAll (fun e => exprOK e = true) (fun l => condsOK l = true) t := by
      refine TabAll.imp ?_ ?_ t hfull
      · intro e he; exact exprOKin_of_full false he
      · rintro l ⟨h1, h2, h3, h4⟩; exact condsOK_of_full l h1 h2 h3 h4
    exact tabularOK_subst henv t (tabularOK_of t hg hall (hne t rfl)) hfull
  | .let_ _ none _ _ :: _, _, _, _, _, _, q, hq => by simp [resolveLets] at hq
  | .let_ kw (some n) a x :: rest, env, bound, henv, hf, hm, q, hq => by
    simp only [resolveLets] at hq
    simp only [Misuse.misuseStmts, ge_iff_le, Nat.le_zero_eq, Nat.succ_ne_zero, if_false,
      Bool.or_eq_false_iff] at hm
    obtain ⟨_, h2, _⟩ := hf _ List.mem_cons_self
    have hx : fullE x := ⟨h2.1.1, h2.1.2, h2.2, arOK_of_notBad _ _ x hm.1⟩
    have henv' : EnvOK ((n.name, substExpr env x) :: env) := by
      intro kv hkv
      rcases List.mem_cons.1 hkv with rfl | hkv
      · exact fullE_subst henv hx
      · exact henv kv hkv
    exact resolveLets_tabularOK rest _ _ henv' (fun s hs => hf s (List.mem_cons_of_mem _ hs)) hm.2 q hq

end Pql.ParsedOK
