/-
The loop of `Scan` as translated: one pass = one step of the model's `scanOne` at the cursor, the whole
loop = `scanFrom`, with `src.length + 1` passes at most; and the whole function.
-/
import PqlModel.Lemmas.LexScanIRScanSwitch
import PqlModel.Lemmas.LexReach
namespace Pql.ScanIR
open Pql
open Pql.LexIR (IErr M BinOp goPanic stuck irOf)
set_option linter.unusedSimpArgs false
set_option linter.unusedVariables false

theorem stepToks_eq (off : Nat) (st : Step) : stepToks off st = st.toks off := rfl

section
variable (env : Env) (fuel : Nat) (E : ScanEnv fuel env) (src : Bytes)
include E

/-- a pass through the body at the end of the input: `break` -/
theorem scan_body_end (acc : List Token) (k l : Nat) (bs : List (Nat × Bytes)) (hlen : src.length ≤ k) :
    execBlock env fuel scanLoopBody (scanSt src acc (sp src k l bs)) =
      .ok (.brk, inSt src acc k 0 false (sp src k l bs)) := by
  obtain ⟨fN, hN, sN⟩ := E.cur.next
  unfold scanLoopBody scanSt inSt
  ls_simp [hN, nextS_end sN src k l bs hlen]

/-- **one pass through the body = one step of the model** -/
theorem scan_body (acc : List Token) (k l : Nat) (bs : List (Nat × Bytes)) (c : UInt8) (rest : Bytes)
    (hd : src.drop k = c :: rest) (hfuel : src.length < fuel) :
    ∃ f c' ok' l' bs', (f = .next ∨ f = .cont) ∧
      execBlock env fuel scanLoopBody (scanSt src acc (sp src k l bs)) =
        .ok (f, inSt src (acc ++ stepToks k (scanOne (c :: rest))) k c' ok'
          (sp src (k + (scanOne (c :: rest)).width) l' bs')) := by
  obtain ⟨fN, hN, sN⟩ := E.cur.next
  obtain ⟨r, w, hr, _⟩ := rune_facts c rest
  have nx := nextS_cons sN src k l bs c rest r w hd hr
  obtain ⟨f, c', ok', l', bs', hf, e⟩ := scan_switch env fuel E src acc k bs c rest r w hd hr hfuel
  refine ⟨f, c', ok', l', bs', hf, ?_⟩
  unfold inSt at e
  unfold scanLoopBody scanSt inSt
  ls_simp [hN, nx, e]

/-- **the loop of `Scan` is the model's `scanFrom`** -/
theorem scan_loop (hfuel : src.length < fuel) :
    ∀ (n k : Nat) (acc : List Token) (l : Nat) (bs : List (Nat × Bytes)), k ≤ src.length → src.length - k < n →
      ∃ l' bs', foreverLoop (execBlock env fuel scanLoopBody) n (scanSt src acc (sp src k l bs)) =
        .ok (.next, scanSt src (acc ++ scanFrom (src.drop k) k) (sp src src.length l' bs')) := by
  intro n
  induction n with
  | zero => intro k acc l bs _ h; omega
  | succ n ih =>
    intro k acc l bs hk hn
    cases hd : src.drop k with
    | nil =>
      have hlen : src.length ≤ k := List.drop_eq_nil_iff.mp hd
      have hk' : k = src.length := by omega
      refine ⟨l, bs, ?_⟩
      simp only [foreverLoop, scan_body_end env fuel E src acc k l bs hlen, bind, Except.bind, pure, Except.pure, leave_scanSt,
        scanFrom_nil, List.append_nil]
      rw [hk']
    | cons c rest =>
      have hlt := LexIR.lt_of_drop_cons hd
      obtain ⟨f, c', ok', l', bs', hf, e⟩ := scan_body env fuel E src acc k l bs c rest hd hfuel
      have hw1 := scanOne_width_pos c rest
      have hw2 := scanOne_width_le (c :: rest)
      have hlen : (c :: rest).length = src.length - k := by rw [← hd]; simp
      obtain ⟨l'', bs'', e2⟩ := ih (k + (scanOne (c :: rest)).width) (acc ++ stepToks k (scanOne (c :: rest))) l' bs'
        (by omega) (by omega)
      refine ⟨l'', bs'', ?_⟩
      have hstep := scanFrom_step (s := c :: rest) (by simp) k
      have hdd : (c :: rest).drop (scanOne (c :: rest)).width = src.drop (k + (scanOne (c :: rest)).width) := by
        rw [← hd, List.drop_drop]
      rw [hdd] at hstep
      rw [hstep, ← stepToks_eq, ← List.append_assoc, ← e2]
      rcases hf with rfl | rfl <;> simp only [foreverLoop, e, bind, Except.bind, leave_scanSt]

/-- **`Scan` is the model's `scan`** (in any environment that has what `Scan` calls) -/
theorem scan_spec (hfuel : src.length < fuel) (h0 : Store) :
    ∃ h1, interpFn env fuel scanDecl [.str src] h0 = .ok ([.toks (scan src)], h1) := by
  obtain ⟨l', bs', e⟩ := scan_loop env fuel E src hfuel fuel 0 [] 0 h0.blds (by omega) (by omega)
  refine ⟨sp src src.length l' bs', ?_⟩
  simp only [List.drop_zero, List.nil_append, scanSt] at e
  unfold scanDecl
  unfold sp at e
  ls_simp [e, scan]
  rfl

end
end Pql.ScanIR
