/-
Scoped ParseRoundtrip (task R5), part 7: `envJoinSafe` from the names alone.  A let value is written in
let mode, where every identifier must be a bound name or `true` / `false` / `null`; so the resolved
value of a let mentions `$left` / `$right` only if an earlier let is so called (or the value contains
an operator the writer does not handle — then it has no translation).
-/
import PqlModel.Lemmas.ScopeRTLets
namespace Pql.RT
set_option linter.unusedSectionVars false
open Pql Sql CompileOracle

/-- decidable: no binding is called `$left` / `$right` -/
def scopeNamesSafe (scope : Scope) : Bool :=
  scope.all fun kv => !(kv.1 == leftAlias) && !(kv.1 == rightAlias)

theorem lookupScope_mem {scope : Scope} {name : Bytes} {sql : List Chunk} (h : lookupScope scope name = some sql) :
    ∃ kv ∈ scope, kv.1 = name := by
  unfold lookupScope at h
  obtain ⟨kv, hk, _⟩ := Option.map_eq_some_iff.mp h
  have hp := List.find?_some hk
  exact ⟨kv, List.mem_of_find?_eq_some hk, eq_of_beq hp⟩

/-- the children of a translatable binary expression are both written -/
theorem binary_children_written {ctx : Ctx} {x y : Expr} {a : Span} {op : TokKind} {cs : List Chunk}
    (h : writeExpr ctx (.binary x a op y) = .ok cs)
    (hop : op = .eq ∨ op = .ne ∨ op = .cieq ∨ op = .cine ∨ (binaryOpText op).isSome) :
    ∃ xs ys, writeExpr ctx x = .ok xs ∧ writeExpr ctx y = .ok ys := by
  have wrapped : ∀ {k : List Chunk → List Chunk → Except WErr (List Chunk)},
      (do let xs ← (writeExpr ctx x).map (wrapMaybe x); let ys ← (writeExpr ctx y).map (wrapMaybe y); k xs ys) = .ok cs →
      ∃ xs ys, writeExpr ctx x = .ok xs ∧ writeExpr ctx y = .ok ys := by
    intro k hh
    obtain ⟨xs, hx, hh⟩ := map_ok hh
    obtain ⟨ys, hy, _⟩ := map_ok hh
    exact ⟨xs, ys, hx, hy⟩
  have plain : ∀ {k : List Chunk → List Chunk → Except WErr (List Chunk)},
      (do let xs ← writeExpr ctx x; let ys ← writeExpr ctx y; k xs ys) = .ok cs →
      ∃ xs ys, writeExpr ctx x = .ok xs ∧ writeExpr ctx y = .ok ys := by
    intro k hh
    obtain ⟨xs, hx, hh⟩ := bind_ok hh
    obtain ⟨ys, hy, _⟩ := bind_ok hh
    exact ⟨xs, ys, hx, hy⟩
  simp only [writeExpr] at h
  by_cases h1 : op = .eq
  · rw [if_pos h1] at h
    split at h
    · exact wrapped h
    · exact wrapped h
  rw [if_neg h1] at h
  by_cases h2 : op = .ne
  · rw [if_pos h2] at h; exact wrapped h
  rw [if_neg h2] at h
  by_cases h3 : op = .cieq
  · rw [if_pos h3] at h; exact plain h
  rw [if_neg h3] at h
  by_cases h4 : op = .cine
  · rw [if_pos h4] at h; exact plain h
  rw [if_neg h4] at h
  cases hb : binaryOpText op with
  | none =>
    rcases hop with h | h | h | h | h
    · exact absurd h h1
    · exact absurd h h2
    · exact absurd h h3
    · exact absurd h h4
    · rw [hb] at h; cases h
  | some sql =>
    rw [hb] at h
    exact wrapped h

/-- a translatable binary operator is one the writer handles -/
theorem tr_binary_op {j : Bool} {x y : Expr} {a : Span} {op : TokKind} {w : SExpr}
    (h : tr j (.binary x a op y) = some w) :
    (∃ wx wy, tr j x = some wx ∧ tr j y = some wy) ∧
      (op = .eq ∨ op = .ne ∨ op = .cieq ∨ op = .cine ∨ (binaryOpText op).isSome) := by
  simp only [tr] at h
  obtain ⟨wx, hwx, h⟩ := obind_some h
  obtain ⟨wy, hwy, h⟩ := obind_some h
  refine ⟨⟨wx, wy, hwx, hwy⟩, ?_⟩
  by_cases h1 : op = .eq; · exact .inl h1
  by_cases h2 : op = .ne; · exact .inr (.inl h2)
  by_cases h3 : op = .cieq; · exact .inr (.inr (.inl h3))
  by_cases h4 : op = .cine; · exact .inr (.inr (.inr (.inl h4)))
  rw [if_neg h1, if_neg h2, if_neg h3, if_neg h4] at h
  cases hp : plainOp op with
  | none => rw [hp] at h; cases h
  | some sym =>
    refine .inr (.inr (.inr (.inr ?_)))
    rw [(plain_op hp).1]; rfl

section
variable {src : Bytes} {scope : Scope} {env : List (Bytes × Expr)} {a : Bytes}
  (ha : builtinIdent a = none)
  (hsc : ∀ name sql, lookupScope scope name = some sql → (name == a) = false)
  (henv : ∀ kv ∈ env, IdsFree a (exprIdents kv.2))
include ha hsc henv

mutual
theorem let_value_idsFree : (x : Expr) → (cs : List Chunk) → (w : SExpr) →
    writeExpr ⟨src, scope, .let_⟩ x = .ok cs → tr false (substExpr env x) = some w →
    IdsFree a (exprIdents (substExpr env x))
  | .nil, _, _, _, h2 => by simp [substExpr, tr] at h2
  | .paren _ x _, cs, w, h1, h2 => by
    simp only [writeExpr] at h1
    simp only [substExpr, tr] at h2
    simp only [substExpr, exprIdents]
    exact let_value_idsFree x cs w h1 h2
  | .qident [], _, _, h1, _ => by simp [writeExpr] at h1
  | .qident (_ :: _ :: _), _, _, h1, _ => by simp [writeExpr] at h1
  | .qident [p], cs, _, h1, _ => by
    cases hq : p.quoted with
    | true => simp [writeExpr, hq] at h1
    | false =>
      simp only [substExpr, hq, Bool.false_eq_true, if_false]
      cases hf : env.find? (·.1 == p.name) with
      | some kv =>
        obtain ⟨n, v⟩ := kv
        simp only [exprIdents]
        exact henv _ (List.mem_of_find?_eq_some hf)
      | none =>
        simp only [exprIdents, IdsFree, List.any_cons, List.any_nil, Bool.or_false]
        cases hl : lookupScope scope p.name with
        | some sql => exact hsc _ _ hl
        | none =>
          cases hb : builtinIdent p.name with
          | none => simp [writeExpr, hq, hl, hb] at h1
          | some sql =>
            cases hpa : p.name == a with
            | false => rfl
            | true =>
              rw [eq_of_beq hpa, ha] at hb
              cases hb
  | .lit .., _, _, _, _ => by simp only [substExpr, exprIdents, IdsFree, List.any_nil]
  | .unary _ op x, cs, w, h1, h2 => by
    simp only [writeExpr] at h1
    obtain ⟨xs, hx, _⟩ := map_ok h1
    simp only [substExpr, tr] at h2
    obtain ⟨wx, hwx, _⟩ := obind_some h2
    simp only [substExpr, exprIdents]
    exact let_value_idsFree x xs wx hx hwx
  | .binary x _ op y, cs, w, h1, h2 => by
    simp only [substExpr] at h2
    obtain ⟨⟨wx, wy, hwx, hwy⟩, hop⟩ := tr_binary_op h2
    obtain ⟨xs, ys, hx, hy⟩ := binary_children_written h1 hop
    simp only [substExpr, exprIdents, IdsFree.append]
    exact ⟨let_value_idsFree x xs wx hx hwx, let_value_idsFree y ys wy hy hwy⟩
  | .index x _ idx _, cs, w, h1, h2 => by
    simp only [writeExpr] at h1
    obtain ⟨xs, hx, h1⟩ := map_ok h1
    obtain ⟨is, hi, _⟩ := bind_ok h1
    simp only [substExpr, tr] at h2
    obtain ⟨wx, hwx, h2⟩ := obind_some h2
    obtain ⟨wi, hwi, _⟩ := obind_some h2
    simp only [substExpr, exprIdents, IdsFree.append]
    exact ⟨let_value_idsFree x xs wx hx hwx, let_value_idsFree idx is wi hi hwi⟩
  | .inE x _ _ vals _, cs, w, h1, h2 => by
    simp only [writeExpr] at h1
    obtain ⟨xs, hx, h1⟩ := map_ok h1
    obtain ⟨vs, hvs, _⟩ := bind_ok h1
    obtain ⟨as, has, _⟩ := writeListMaybeParen_eq vals vs hvs
    simp only [substExpr, tr] at h2
    obtain ⟨wx, hwx, h2⟩ := obind_some h2
    obtain ⟨ws, hws, _⟩ := obind_some h2
    simp only [substExpr, exprIdents, IdsFree.append]
    exact ⟨let_value_idsFree x xs wx hx hwx, let_values_idsFree vals as ws has hws⟩
  | .call fn _ args _, cs, w, h1, h2 => by
    simp only [substExpr, tr] at h2
    obtain ⟨ws, hws, _⟩ := obind_some h2
    simp only [substExpr, exprIdents]
    simp only [writeExpr] at h1
    split at h1
    · split at h1
      · cases h1
      · obtain ⟨as, has, _⟩ := bind_ok h1
        exact let_values_idsFree args as ws has hws
    · obtain ⟨as, has, _⟩ := bind_ok h1
      exact let_values_idsFree args as ws has hws
theorem let_values_idsFree : (es : ExprList) → (as : List (List Chunk)) → (ws : SExprList) →
    writeList ⟨src, scope, .let_⟩ es = .ok as → trList false (substList env es) = some ws →
    IdsFree a (exprListIdents (substList env es))
  | .nil, _, _, _, _ => by simp only [substList, exprListIdents, IdsFree, List.any_nil]
  | .cons e es, as, ws, h1, h2 => by
    simp only [writeList] at h1
    obtain ⟨c, hc, h1⟩ := bind_ok h1
    obtain ⟨cs, hcs, _⟩ := bind_ok h1
    simp only [substList, trList] at h2
    obtain ⟨w, hw, h2⟩ := obind_some h2
    obtain ⟨ws', hws, _⟩ := obind_some h2
    simp only [substList, exprListIdents, IdsFree.append]
    exact ⟨let_value_idsFree e c w hc hw, let_values_idsFree es cs ws' hcs hws⟩
end

end

theorem builtin_left : builtinIdent leftAlias = none := by decide
theorem builtin_right : builtinIdent rightAlias = none := by decide

/-- **the names decide.** If no let is called `$left` / `$right` and every resolved value has a
    translation, then no resolved value mentions `$left` / `$right`: `envJoinSafe`. -/
theorem envJoinSafe_of_names {src : Bytes} {scope : Scope} {env : List (Bytes × Expr)}
    (h : ScopeLetsEnv src scope env) (hn : scopeNamesSafe scope = true)
    (ht : ∀ kv ∈ env, (tr false kv.2).isSome = true) : envJoinSafe env = true := by
  induction h with
  | nil => rfl
  | @cons scope env n x cs hsc hok hshape hw ih =>
    simp only [scopeNamesSafe, List.all_cons, Bool.and_eq_true, Bool.not_eq_true'] at hn
    have hn' : scopeNamesSafe scope = true := hn.2
    have ih' := ih hn' (fun kv hkv => ht kv (List.mem_cons_of_mem _ hkv))
    obtain ⟨hl, hr⟩ := envJoinSafe_elim ih'
    have hsafe : ∀ (a : Bytes), (∀ kv ∈ scope, (kv.1 == a) = false) →
        ∀ name sql, lookupScope scope name = some sql → (name == a) = false := by
      intro a hall name sql hlk
      obtain ⟨kv, hkv, rfl⟩ := lookupScope_mem hlk
      exact hall kv hkv
    have hscL : ∀ kv ∈ scope, (kv.1 == leftAlias) = false := by
      intro kv hkv
      simp only [scopeNamesSafe, List.all_eq_true, Bool.and_eq_true, Bool.not_eq_true'] at hn'
      exact (hn' kv hkv).1
    have hscR : ∀ kv ∈ scope, (kv.1 == rightAlias) = false := by
      intro kv hkv
      simp only [scopeNamesSafe, List.all_eq_true, Bool.and_eq_true, Bool.not_eq_true'] at hn'
      exact (hn' kv hkv).2
    have hsome := ht (n, substExpr env x) List.mem_cons_self
    obtain ⟨w, hw'⟩ := Option.isSome_iff_exists.mp hsome
    have fl := let_value_idsFree builtin_left (hsafe leftAlias hscL) (fun kv hkv => (hl kv hkv).2) x cs w hw hw'
    have fr := let_value_idsFree builtin_right (hsafe rightAlias hscR) (fun kv hkv => (hr kv hkv).2) x cs w hw hw'
    unfold IdsFree at fl fr
    simp only [envJoinSafe, List.all_cons, Bool.and_eq_true, Bool.not_eq_true']
    exact ⟨⟨⟨⟨hn.1.1, hn.1.2⟩, fl⟩, fr⟩, ih'⟩

end Pql.RT
