/-
Who reads whom (C05, clause 4): the block structure of the subquery list `splitQueries`
produces, by induction over `Run` (Lemmas/SplitQueriesRun.lean).
-/
import PqlModel.Lemmas.SplitQueriesClauses
import PqlModel.Lemmas.SplitQueriesInv
namespace Pql.SplitQ
open Pql
/-! ### clause 4: who reads whom -/

/-- the name the next subquery of a block reads: the last subquery of the block so far, or
    the base table of the pipeline when the block is still empty -/
def prevName (source : Option Ident) (blk : List Subquery) : Bytes :=
  match blk.getLast? with
  | some s => s.name
  | none => identName source

/-- The block of subqueries one pipeline (`source | ops`) contributes.
    * `chain`: a subquery reading the previous subquery of the same block (the base table for
      the first one);
    * `join`: the complete block `rblk` of the right-hand pipeline (it has its own base table
      `rsource`), followed by the join subquery, whose left side is what a chained subquery
      would have read (the subquery in front of the right-hand block, or the base table) and
      whose right side is the last subquery of the right-hand block.
    `joins = false` describes join-free pipelines. -/
inductive Block (joins : Bool) : Option Ident → List Subquery → Prop
  | nil {source} : Block joins source []
  | chain {source blk} (s : Subquery) :
      Block joins source blk → s.source = [.qid (prevName source blk)] → Block joins source (blk ++ [s])
  | join {source blk} (rsource : Option Ident) (rblk : List Subquery) (r s : Subquery)
      (unique : Bool) (kw : String) (cond : List Chunk) :
      joins = true →
      Block joins source blk → Block joins rsource rblk → rblk.getLast? = some r →
      s.source = joinSourceOf unique kw [.qid (prevName source blk)] r.name cond →
      Block joins source (blk ++ rblk ++ [s])

theorem snoc_inj {α : Type} {a b : List α} {x y : α} (h : a ++ [x] = b ++ [y]) : a = b ∧ x = y := by
  have := List.append_inj' h rfl
  exact ⟨this.1, by simpa using this.2⟩

/-- attaching ORDER BY / LIMIT to the last subquery does not change who reads whom -/
theorem Block.congr_last {joins : Bool} {source : Option Ident} {blk : List Subquery} {s s' : Subquery}
    (h : Block joins source (blk ++ [s])) (hsrc : s'.source = s.source) :
    Block joins source (blk ++ [s']) := by
  generalize hL : blk ++ [s] = L at h
  cases h with
  | nil => simp at hL
  | chain s0 hb hs0 =>
    obtain ⟨rfl, rfl⟩ := snoc_inj hL
    exact Block.chain s' hb (hsrc.trans hs0)
  | join rsource rblk r s0 unique kw cond hj hb hr hlast hs0 =>
    obtain ⟨rfl, rfl⟩ := snoc_inj hL
    exact Block.join rsource rblk r s' unique kw cond hj hb hr hlast (hsrc.trans hs0)

theorem chain_source (pre blk : List Subquery) (source : Option Ident) :
    (chainSubquery (pre ++ blk) pre.length source).source = [.qid (prevName source blk)] := by
  unfold chainSubquery prevName
  cases hb : blk.getLast? with
  | none =>
    have : blk = [] := by simpa using hb
    subst this; simp
  | some l =>
    obtain ⟨b0, rfl⟩ := List.getLast?_eq_some_iff.mp hb
    simp [← List.append_assoc]
    intro h; omega

theorem joinLeft_eq (pre blk rblk : List Subquery) (source : Option Ident) :
    joinLeft source pre.length (pre ++ blk).length (pre ++ blk ++ rblk) = [.qid (prevName source blk)] := by
  unfold joinLeft prevName
  cases hb : blk.getLast? with
  | none =>
    have : blk = [] := by simpa using hb
    subst this
    have : ¬ ((((pre ++ []).length : Nat) : Int) - 1 ≥ (pre.length : Int)) := by simp; omega
    simp only [this, ↓reduceIte]
  | some l =>
    obtain ⟨b0, rfl⟩ := List.getLast?_eq_some_iff.mp hb
    have h1 : ((((pre ++ (b0 ++ [l])).length : Nat) : Int) - 1 ≥ (pre.length : Int)) := by
      simp; omega
    have h2 : ((((pre ++ (b0 ++ [l])).length : Nat) : Int) - 1).toNat = (pre ++ b0).length := by
      simp; omega
    simp only [h1, ↓reduceIte, h2]
    have : pre ++ (b0 ++ [l]) ++ rblk = (pre ++ b0) ++ l :: rblk := by simp
    rw [this, List.getElem?_append_right (Nat.le_refl _)]
    simp

/-- a list that ends with `l` at or after the end of `pre` ends with `l` inside the block -/
theorem split_last {pre blk init : List Subquery} {l : Subquery} (h : init ++ [l] = pre ++ blk)
    (hk : pre.length ≤ init.length) : ∃ b0, blk = b0 ++ [l] ∧ init = pre ++ b0 := by
  rcases List.eq_nil_or_concat blk with rfl | ⟨b0, x, rfl⟩
  · have := congrArg List.length h
    simp at this; omega
  · rw [List.concat_eq_append, ← List.append_assoc] at h
    obtain ⟨h1, rfl⟩ := snoc_inj h
    exact ⟨b0, by simp, h1⟩

theorem block_closeBlock {joins : Bool} {dst rblk0 : List Subquery} {rsource : Option Ident}
    (hb : Block joins rsource rblk0) :
    ∃ rblk r, closeBlock (dst ++ rblk0) dst.length rsource = dst ++ rblk ∧ Block joins rsource rblk ∧
      rblk.getLast? = some r := by
  unfold closeBlock
  by_cases hlen : (dst ++ rblk0).length = dst.length
  · have : rblk0 = [] := by simpa using hlen
    subst this
    refine ⟨[chainSubquery (dst ++ []) dst.length rsource], _, by simp, ?_, rfl⟩
    have := Block.chain (chainSubquery (dst ++ []) dst.length rsource) hb (chain_source dst [] rsource)
    simpa using this
  · simp only [hlen, ↓reduceIte]
    rcases List.eq_nil_or_concat rblk0 with rfl | ⟨b0, x, rfl⟩
    · simp at hlen
    · exact ⟨_, x, rfl, hb, by simp⟩

theorem joinFree_tail {joins : Bool} {o : Op} {rest : OpList}
    (h : joinFree (.cons o rest) = true ∨ joins = true) : joinFree rest = true ∨ joins = true := by
  rw [joinFree_cons, Bool.and_eq_true] at h
  exact h.imp_left And.right

theorem run_block {joins : Bool} {source : Option Ident} {dstStart : Nat} {dst out : List Subquery} {ops : OpList}
    (h : Run source dstStart dst ops out) :
    (joinFree ops = true ∨ joins = true) →
    ∀ pre blk, dst = pre ++ blk → pre.length = dstStart → Block joins source blk →
      ∃ blk', out = pre ++ blk' ∧ Block joins source blk' := by
  induction h with
  | nil => intro _ pre blk hd _ hb; exact ⟨blk, hd, hb⟩
  | as_ p k name _ ih =>
    intro hj pre blk hd hp hb; subst hd; subst hp
    exact ih (joinFree_tail hj) pre (blk ++ [_]) (List.append_assoc _ _ _) rfl
      (Block.chain _ hb (chain_source pre blk _))
  | plain o ho _ ih =>
    intro hj pre blk hd hp hb; subst hd; subst hp
    exact ih (joinFree_tail hj) pre (blk ++ [_]) (List.append_assoc _ _ _) rfl
      (Block.chain _ hb (chain_source pre blk _))
  | sortChain p k terms _ ih =>
    intro hj pre blk hd hp hb; subst hd; subst hp
    exact ih (joinFree_tail hj) pre (blk ++ [_]) (List.append_assoc _ _ _) rfl
      (Block.chain _ hb (chain_source pre blk _))
  | takeChain p k n _ ih =>
    intro hj pre blk hd hp hb; subst hd; subst hp
    exact ih (joinFree_tail hj) pre (blk ++ [_]) (List.append_assoc _ _ _) rfl
      (Block.chain _ hb (chain_source pre blk _))
  | topChain p k n b c _ ih =>
    intro hj pre blk hd hp hb; subst hd; subst hp
    exact ih (joinFree_tail hj) pre (blk ++ [_]) (List.append_assoc _ _ _) rfl
      (Block.chain _ hb (chain_source pre blk _))
  | sortAttach p k terms init l hdst hk hc hs ht _ ih =>
    intro hj pre blk hd hp hb; subst hdst; subst hp
    obtain ⟨b0, rfl, rfl⟩ := split_last hd hk
    exact ih (joinFree_tail hj) pre (b0 ++ [_]) (List.append_assoc _ _ _) rfl (hb.congr_last rfl)
  | takeAttach p k n init l hdst hk hc ht _ ih =>
    intro hj pre blk hd hp hb; subst hdst; subst hp
    obtain ⟨b0, rfl, rfl⟩ := split_last hd hk
    exact ih (joinFree_tail hj) pre (b0 ++ [_]) (List.append_assoc _ _ _) rfl (hb.congr_last rfl)
  | topAttach p k n b c init l hdst hk hc hs ht _ ih =>
    intro hj pre blk hd hp hb; subst hdst; subst hp
    obtain ⟨b0, rfl, rfl⟩ := split_last hd hk
    exact ih (joinFree_tail hj) pre (b0 ++ [_]) (List.append_assoc _ _ _) rfl (hb.congr_last rfl)
  | @join source dstStart dst rest out p k kind ka flavor lp rsource rops rp on conds unique kw cond mid dst' _ hd' _ ih1 ih2 =>
    intro hj pre blk hd hp hb
    have hjt : joins = true := by
      rcases hj with hj | hj
      · simp [joinFree] at hj
      · exact hj
    obtain ⟨rblk0, hmid, hrb0⟩ := ih1 (.inr hjt) dst [] (by simp) rfl Block.nil
    subst hmid
    obtain ⟨rblk, r, hcb, hrb, hlast⟩ := block_closeBlock (dst := dst) hrb0
    rw [hcb] at hd'
    subst hd'; subst hd; subst hp
    have key : ∀ x : Subquery, pre ++ blk ++ rblk ++ [x] = pre ++ (blk ++ rblk ++ [x]) := fun x => by simp
    refine ih2 (joinFree_tail hj) pre (blk ++ rblk ++ [_]) (key _) rfl
      (Block.join rsource rblk r _ unique kw cond hjt hb hrb hlast ?_)
    show joinSourceOf _ _ _ _ _ = _
    rw [joinLeft_eq]
    have : joinRight (pre ++ blk ++ rblk) = r.name := by
      unfold joinRight
      obtain ⟨b0, rfl⟩ := List.getLast?_eq_some_iff.mp hlast
      simp [← List.append_assoc]
    rw [this]
/-- join-free blocks, index by index: every subquery reads the one before it, the first one the
    base table -/
theorem Block.reads_prev {source : Option Ident} {blk : List Subquery} (h : Block false source blk) :
    ∀ (i : Nat) (hi : i < blk.length), blk[i].source = [.qid (prevName source (blk.take i))] := by
  induction h with
  | nil => intro i hi; simp at hi
  | @chain source blk s hb hs ih =>
    intro i hi
    by_cases hlt : i < blk.length
    · rw [List.getElem_append_left hlt, List.take_append_of_le_length (Nat.le_of_lt hlt)]
      exact ih i hlt
    · have : i = blk.length := by simp at hi; omega
      subst this
      simpa using hs
  | join rsource rblk r s unique kw cond hj => cases hj

theorem prevName_take_zero (source : Option Ident) (blk : List Subquery) :
    prevName source (blk.take 0) = identName source := by simp [prevName]

theorem prevName_take_succ (source : Option Ident) (blk : List Subquery) (i : Nat) (hi : i < blk.length) :
    prevName source (blk.take (i + 1)) = blk[i].name := by
  unfold prevName
  have : blk.take (i + 1) = blk.take i ++ [blk[i]] := by simp
  rw [this, List.getLast?_concat]

theorem Block.mono {source : Option Ident} {blk : List Subquery} (h : Block false source blk) :
    Block true source blk := by
  induction h with
  | nil => exact Block.nil
  | chain s _ hs ih => exact Block.chain s ih hs
  | join rsource rblk r s unique kw cond hj => cases hj

end Pql.SplitQ
