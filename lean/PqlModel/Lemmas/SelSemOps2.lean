/-
Bodies `SELECT *, e₁ AS a₁, …` (extend, render) and `SELECT e₁ AS a₁, …` (project).
-/
import PqlModel.Lemmas.SelSemOps
namespace Pql.SelSem
open Pql Sql CompileOracle Intended SplitQ

/-! ### generic facts about `mapM` in `Option` -/

theorem mapM_some {α β} (f : α → Option β) (d : β) : ∀ (l : List α) (ys : List β), l.mapM f = some ys →
    ys = l.map (fun x => (f x).getD d) ∧ ∀ x ∈ l, f x = some ((f x).getD d)
  | [], ys, h => by
    simp only [List.mapM_nil, pure, Option.some.injEq] at h
    subst h; simp
  | x :: xs, ys, h => by
    simp only [List.mapM_cons, bind, Option.bind] at h
    cases hx : f x with
    | none => simp [hx] at h
    | some y =>
      cases hxs : xs.mapM f with
      | none => simp [hx, hxs] at h
      | some ys' =>
        simp only [hx, hxs, pure, Option.some.injEq] at h
        subst h
        obtain ⟨h1, h2⟩ := mapM_some f d xs ys' hxs
        refine ⟨by simp [hx, ← h1], ?_⟩
        intro z hz
        rcases List.mem_cons.mp hz with rfl | hz
        · simp [hx]
        · exact h2 z hz

theorem flatMap_congr' {α β} {f g : α → List β} : ∀ (l : List α), (∀ x ∈ l, f x = g x) → l.flatMap f = l.flatMap g
  | [], _ => rfl
  | x :: xs, h => by
    simp only [List.flatMap_cons]
    rw [h x (List.mem_cons_self ..), flatMap_congr' xs (fun y hy => h y (List.mem_cons_of_mem _ hy))]

/-- the translation, or a dummy when there is none -/
def trD (e : Expr) : SExpr := (tr false e).getD .none_

theorem evalP_trD (g : List Env) (env : Env) (e : Expr) (h : tr false e = some (trD e)) :
    Rel.evalP false g env e = evalS g env (trD e) := evalP_eq false g env e _ h

theorem isAggExpr_trD (e : Expr) (h : tr false e = some (trD e)) : Rel.isAggExpr e = hasAgg (trD e) := by
  unfold Rel.isAggExpr; rw [h]

/-! ### `SELECT *, items` -/

theorem outCols_starPlus (n : Bytes) (its : List SelectItem) (t : Table) (hns : ∀ it ∈ its, it.star = false) :
    outColsOf (mkSel n (starItem :: its) none [] [] none) t =
      t.cols ++ its.map fun it => it.alias.getD (Bytes.ofString "?") := by
  simp only [outColsOf, mkSel, List.flatMap_cons, starItem, ↓reduceIte]
  congr 1
  rw [← flatMap_single]
  apply flatMap_congr'
  intro it hit
  simp [hns it hit]

theorem outRows_starPlus (n : Bytes) (its : List SelectItem) (t : Table) (hns : ∀ it ∈ its, it.star = false)
    (hna : ∀ it ∈ its, hasAgg it.expr = false) :
    outRowsOf (mkSel n (starItem :: its) none [] [] none) t =
      t.rows.map fun r => ((envOfRow [] t.cols r, [],
        r ++ its.map fun it => evalS [] (envOfRow [] t.cols r) it.expr) : ORow) := by
  have hq : isAggQ (mkSel n (starItem :: its) none [] [] none) = false := by
    simp only [isAggQ, mkSel, List.isEmpty_nil, Bool.not_true, Bool.false_or, List.any_cons, starItem,
      Bool.false_and, List.any_eq_false]
    intro it hit
    simp [hna it hit]
  unfold outRowsOf
  rw [hq]
  simp only [Bool.false_eq_true, ↓reduceIte, whereRows, mkSel, srcRowsOf, List.map_map]
  apply List.map_congr_left
  intro r _
  simp only [Function.comp_def, List.flatMap_cons, starItem, ↓reduceIte, Prod.mk.injEq, true_and]
  congr 1
  rw [← flatMap_single]
  apply flatMap_congr'
  intro it hit
  simp [hns it hit]

theorem sel_starPlus (src : Bytes) (db : DB) (ctes : List (Bytes × Table)) (a : SubA) (n : Bytes)
    (its : List SelectItem) (hns : ∀ it ∈ its, it.star = false) (hna : ∀ it ∈ its, hasAgg it.expr = false)
    (obs : List OrderTerm) (lim : Option SExpr) (ho : obsOf a = some obs) (hl : limOf a = some lim)
    (hop : (opPartA a).foldl (interpClause src db) (lookupTable db ctes n) =
      ⟨(lookupTable db ctes n).cols ++ its.map fun it => it.alias.getD (Bytes.ofString "?"),
       (lookupTable db ctes n).rows.map fun r => r ++ its.map fun it =>
          evalS [] (envOfRow [] (lookupTable db ctes n).cols r) it.expr⟩) :
    evalSelect db ctes (mkSel n (starItem :: its) none [] obs lim) = subEvalA src db (lookupTable db ctes n) a := by
  apply sel_core src db ctes a n _ _ _ obs lim ho hl (lookupTable db ctes n).rows
    (fun r => ((envOfRow [] (lookupTable db ctes n).cols r, [],
        r ++ its.map fun it => evalS [] (envOfRow [] (lookupTable db ctes n).cols r) it.expr) : ORow)) _ _ _ _ _ hop
  · exact outCols_starPlus n its _ hns
  · exact outRows_starPlus n its _ hns hna
  · rfl
  · right; left
    intro r e
    exact evalS_append_subset [] _ _ (envOfRow_subset _ _ _ _) e

/-! ### render -/

def renderItems (chart : Option Ident) (props : List RenderProp) : List SelectItem :=
  ⟨false, .str (identName chart), some (Bytes.ofString "render_type")⟩ ::
    (props.map fun p => ⟨false, .str (renderPropValue p.value), some (Bytes.ofString "render_prop_" ++ identName p.name)⟩)

theorem sel_render (src : Bytes) (db : DB) (ctes : List (Bytes × Table)) (a : SubA) (n : Bytes)
    (pp k : Span) (chart : Option Ident) (w lp : Span) (props : List RenderProp) (rp : Span)
    (obs : List OrderTerm) (lim : Option SExpr) (ho : obsOf a = some obs) (hl : limOf a = some lim)
    (hop : a.op = some (.render pp k chart w lp props rp)) :
    evalSelect db ctes (mkSel n (starItem :: renderItems chart props) none [] obs lim) =
      subEvalA src db (lookupTable db ctes n) a := by
  apply sel_starPlus src db ctes a n _ _ _ obs lim ho hl
  · simp [opPartA, hop, interpClause, Rel.interpOp, renderItems, evalS, Function.comp_def]
  · intro it hit
    simp only [renderItems, List.mem_cons, List.mem_map] at hit
    rcases hit with rfl | ⟨p, _, rfl⟩ <;> rfl
  · intro it hit
    simp only [renderItems, List.mem_cons, List.mem_map] at hit
    rcases hit with rfl | ⟨p, _, rfl⟩ <;> simp [hasAgg]

/-! ### extend -/

theorem itemOf_eq (src : Bytes) (c : Column) :
    itemOf src c = (tr false c.x).map fun e => ⟨false, e, some (aliasOf src c)⟩ := by
  unfold itemOf
  cases tr false c.x <;> rfl

theorem mapM_itemOf (src : Bytes) (cols : List Column) (its : List SelectItem)
    (h : cols.mapM (itemOf src) = some its) :
    its = cols.map (fun c => ⟨false, trD c.x, some (aliasOf src c)⟩) ∧ ∀ c ∈ cols, tr false c.x = some (trD c.x) := by
  obtain ⟨h1, h2⟩ := mapM_some (itemOf src) ⟨false, .none_, none⟩ cols its h
  have key : ∀ c ∈ cols, tr false c.x = some (trD c.x) := by
    intro c hc
    have := h2 c hc
    rw [itemOf_eq] at this
    cases hx : tr false c.x with
    | none => simp [hx] at this
    | some e => simp [trD, hx]
  refine ⟨?_, key⟩
  rw [h1]
  apply List.map_congr_left
  intro c hc
  rw [itemOf_eq, key c hc]
  rfl

theorem colName_eq_aliasOf (src : Bytes) (c : Column) : Rel.colName src c = aliasOf src c := rfl

theorem sel_extend (src : Bytes) (db : DB) (ctes : List (Bytes × Table)) (a : SubA) (n : Bytes)
    (pp k : Span) (cols : List Column) (its : List SelectItem) (hits : cols.mapM (itemOf src) = some its)
    (hna : ∀ c ∈ cols, Rel.isAggExpr c.x = false)
    (obs : List OrderTerm) (lim : Option SExpr) (ho : obsOf a = some obs) (hl : limOf a = some lim)
    (hop : a.op = some (.extend pp k cols)) :
    evalSelect db ctes (mkSel n (starItem :: its) none [] obs lim) = subEvalA src db (lookupTable db ctes n) a := by
  obtain ⟨hi, htr⟩ := mapM_itemOf src cols its hits
  subst hi
  apply sel_starPlus src db ctes a n _ _ _ obs lim ho hl
  · simp only [opPartA, hop, List.foldl_cons, List.foldl_nil, interpClause, Rel.interpOp, List.map_map, Table.mk.injEq,
      Rel.rowEnv]
    refine ⟨by congr 1, ?_⟩
    apply List.map_congr_left
    intro r _
    congr 1
    apply List.map_congr_left
    intro c hc
    simp [evalP_trD _ _ _ (htr c hc)]
  · intro it hit
    simp only [List.mem_map] at hit
    obtain ⟨c, _, rfl⟩ := hit; rfl
  · intro it hit
    simp only [List.mem_map] at hit
    obtain ⟨c, hc, rfl⟩ := hit
    simp only
    rw [← isAggExpr_trD _ (htr c hc)]
    exact hna c hc

end Pql.SelSem
