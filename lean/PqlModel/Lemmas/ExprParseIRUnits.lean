/-
The regenerated units of `Facts.exprParseIR` (harness/extract_exprparse.go), decoded: the expected statement tree
of every unit and the fact that the regenerated IR decodes to it.  A changed Go statement changes the
regenerated IR and the `…_ir` fact of that unit stops being true; the semantic theorems of
Lemmas/ExprParseIRCursor.lean, Lemmas/ExprParseIRLeaves.lean and Props/C07ExprIR.lean are about these trees.
(The trees were printed once from the decoder and are kept here as the pinned expectation.)
-/
import PqlModel.Model.ExprParseIR
namespace Pql.ExprParseIR
open Pql

/-- `next` -/
def nextIR : List Stmt :=
  [.ite
   (.cmp "ge" (.field (.var "p") "pos") (.len (.field (.var "p") "tokens")))
   [.assign false [.field "p" "pos"] (.e (.add (.len (.field (.var "p") "tokens")) (.int 1))),
    .ret [.struct "Token" ["Kind", "Span", "Value"] [.kind "TokenError", .call "indexSpan" [.len (.field (.var "p") "source")], .str "EOF"], .bool false]]
   [],
 .assign true [.var "tok"] (.e (.index (.field (.var "p") "tokens") (.field (.var "p") "pos"))),
 .assign false [.field "p" "pos"] (.e (.add (.field (.var "p") "pos") (.int 1))),
 .ret [.var "tok", .bool true]]

set_option maxRecDepth 100000 in
theorem nextIR_ir : decode (irOf "next") = some nextIR := by rfl

/-- `prev` -/
def prevIR : List Stmt :=
  [.ite
   (.and (.cmp "gt" (.field (.var "p") "pos") (.int 0)) (.cmp "le" (.field (.var "p") "pos") (.len (.field (.var "p") "tokens"))))
   [.assign false [.field "p" "pos"] (.e (.sub (.field (.var "p") "pos") (.int 1)))]
   []]

set_option maxRecDepth 100000 in
theorem prevIR_ir : decode (irOf "prev") = some prevIR := by rfl

/-- `endSplit` -/
def endSplitIR : List Stmt :=
  [.ite (.cmp "eq" (.field (.var "p") "splitKind") (.int 0)) [.ret [.errnopos]] [],
 .ite
   (.cmp "lt" (.field (.var "p") "pos") (.len (.field (.var "p") "tokens")))
   [.decl "s" "string",
    .ite
      (.cmp "eq" (.field (.var "p") "splitKind") (.kind "TokenPipe"))
      [.assign false [.var "s"] (.e (.str "'|'"))]
      [.ite
         (.cmp "eq" (.field (.var "p") "splitKind") (.kind "TokenRParen"))
         [.assign false [.var "s"] (.e (.str "')'"))]
         [.ite
            (.cmp "eq" (.field (.var "p") "splitKind") (.kind "TokenRBracket"))
            [.assign false [.var "s"] (.e (.str "']'"))]
            [.assign false [.var "s"] (.e (.mcall "String" (.field (.var "p") "splitKind")))]]],
    .assign true [.var "tok"] (.e (.index (.field (.var "p") "tokens") (.field (.var "p") "pos"))),
    .ret [.perr false (.field (.var "tok") "Span")]]
   [],
 .ret [.nil]]

set_option maxRecDepth 100000 in
theorem endSplitIR_ir : decode (irOf "endSplit") = some endSplitIR := by rfl

/-- `split` -/
def splitIR : List Stmt :=
  [.decl "stack" "[]TokenKind",
 .assign true [.var "start"] (.e (.field (.var "p") "pos")),
 .loop
   "loop"
   (.bool true)
   [.assign true [.var "tok", .var "ok"] (.pcall "p" "next" []),
    .ite
      (.not (.var "ok"))
      [.ret [.new "parser" ["source", "tokens", "splitKind"] [.field (.var "p") "source", .slice (.field (.var "p") "tokens") (.var "start") (.none), .var "search"]]]
      [],
    .ite
      (.or (.cmp "eq" (.field (.var "tok") "Kind") (.kind "TokenLParen")) (.cmp "eq" (.field (.var "tok") "Kind") (.kind "TokenLBracket")))
      [.ite (.cmp "eq" (.var "search") (.field (.var "tok") "Kind")) [.do_ (.pcall "p" "prev" []), .brk "loop"] [],
       .ite
         (.cmp "eq" (.field (.var "tok") "Kind") (.kind "TokenLParen"))
         [.assign false [.var "stack"] (.e (.append (.var "stack") (.kind "TokenRParen")))]
         [.ite
            (.cmp "eq" (.field (.var "tok") "Kind") (.kind "TokenLBracket"))
            [.assign false [.var "stack"] (.e (.append (.var "stack") (.kind "TokenRBracket")))]
            [.panic]]]
      [.ite
         (.or (.cmp "eq" (.field (.var "tok") "Kind") (.kind "TokenRParen")) (.cmp "eq" (.field (.var "tok") "Kind") (.kind "TokenRBracket")))
         [.ite
            (.cmp "gt" (.len (.var "stack")) (.int 0))
            [.loop
               ""
               (.cmp "gt" (.len (.var "stack")) (.int 0))
               [.assign true [.var "k"] (.e (.index (.var "stack") (.sub (.len (.var "stack")) (.int 1)))),
                .assign false [.var "stack"] (.e (.slice (.var "stack") (.none) (.sub (.len (.var "stack")) (.int 1)))),
                .ite (.cmp "eq" (.var "k") (.field (.var "tok") "Kind")) [.brk ""] []]]
            [.ite (.cmp "eq" (.var "search") (.field (.var "tok") "Kind")) [.do_ (.pcall "p" "prev" []), .brk "loop"] []]]
         [.ite
            (.cmp "eq" (.field (.var "tok") "Kind") (.var "search"))
            [.ite (.cmp "eq" (.len (.var "stack")) (.int 0)) [.do_ (.pcall "p" "prev" []), .brk "loop"] []]
            []]]],
 .ret [.new "parser" ["source", "tokens", "splitKind"] [.field (.var "p") "source", .slice (.field (.var "p") "tokens") (.var "start") (.field (.var "p") "pos"), .var "search"]]]

set_option maxRecDepth 100000 in
theorem splitIR_ir : decode (irOf "split") = some splitIR := by rfl

/-- `ident` -/
def identIR : List Stmt :=
  [.assign true [.var "tok", .blank] (.pcall "p" "next" []),
 .ite
   (.and (.cmp "ne" (.field (.var "tok") "Kind") (.kind "TokenIdentifier")) (.cmp "ne" (.field (.var "tok") "Kind") (.kind "TokenQuotedIdentifier")))
   [.do_ (.pcall "p" "prev" []), .ret [.nil, .perr true (.call "indexSpan" [.len (.field (.var "p") "source")])]]
   [],
 .ret
   [.new "Ident" ["Name", "NameSpan", "Quoted"] [.field (.var "tok") "Value", .field (.var "tok") "Span", .cmp "eq" (.field (.var "tok") "Kind") (.kind "TokenQuotedIdentifier")], .nil]]

set_option maxRecDepth 100000 in
theorem identIR_ir : decode (irOf "ident") = some identIR := by rfl

/-- `qualifiedIdent` -/
def qualifiedIdentIR : List Stmt :=
  [.assign true [.var "id", .var "err"] (.pcall "p" "ident" []),
 .ite (.cmp "ne" (.var "err") (.nil)) [.ret [.nil, .var "err"]] [],
 .assign true [.var "qid"] (.e (.mcall "AsQualified" (.var "id"))),
 .loop
   ""
   (.bool true)
   [.assign true [.var "tok", .blank] (.pcall "p" "next" []),
    .ite (.cmp "ne" (.field (.var "tok") "Kind") (.kind "TokenDot")) [.do_ (.pcall "p" "prev" []), .ret [.var "qid", .nil]] [],
    .assign true [.var "sel", .var "err"] (.pcall "p" "ident" []),
    .ite (.cmp "ne" (.var "err") (.nil)) [.ret [.var "qid", .call "makeErrorOpaque" [.var "err"]]] [],
    .assign false [.field "qid" "Parts"] (.e (.append (.field (.var "qid") "Parts") (.var "sel")))]]

set_option maxRecDepth 100000 in
theorem qualifiedIdentIR_ir : decode (irOf "qualifiedIdent") = some qualifiedIdentIR := by rfl

/-- `innerPrimaryExpr` -/
def innerIR : List Stmt :=
  [.assign true [.var "tok", .var "ok"] (.pcall "p" "next" []),
 .ite (.not (.var "ok")) [.ret [.nil, .perr true (.call "indexSpan" [.len (.field (.var "p") "source")])]] [],
 .ite
   (.or (.cmp "eq" (.field (.var "tok") "Kind") (.kind "TokenNumber")) (.cmp "eq" (.field (.var "tok") "Kind") (.kind "TokenString")))
   [.ret [.new "BasicLit" ["ValueSpan", "Kind", "Value"] [.field (.var "tok") "Span", .field (.var "tok") "Kind", .field (.var "tok") "Value"], .nil]]
   [.ite
      (.cmp "eq" (.field (.var "tok") "Kind") (.kind "TokenIdentifier"))
      [.do_ (.pcall "p" "prev" []),
       .assign true [.var "id", .var "err"] (.pcall "p" "qualifiedIdent" []),
       .ite (.cmp "ne" (.var "err") (.nil)) [.ret [.var "id", .var "err"]] [],
       .ite (.cmp "gt" (.len (.field (.var "id") "Parts")) (.int 1)) [.ret [.var "id", .nil]] [],
       .assign true [.var "nextTok", .blank] (.pcall "p" "next" []),
       .ite (.cmp "ne" (.field (.var "nextTok") "Kind") (.kind "TokenLParen")) [.do_ (.pcall "p" "prev" []), .ret [.var "id", .nil]] [],
       .assign true [.var "argParser"] (.pcall "p" "split" [.kind "TokenRParen"]),
       .assign true [.var "args", .var "err"] (.pcall "argParser" "exprList" []),
       .ite
         (.call "isNotFound" [.var "err"])
         [.assign false [.var "err"] (.e (.nil))]
         [.ite
            (.cmp "eq" (.var "err") (.nil))
            [.block
               [.assign true [.var "tok", .blank] (.pcall "argParser" "next" []),
                .ite (.cmp "ne" (.field (.var "tok") "Kind") (.kind "TokenComma")) [.do_ (.pcall "argParser" "prev" [])] []]]
            []],
       .assign false [.var "err"] (.e (.call "joinErrors" [.var "err", .mcall "endSplit" (.var "argParser")])),
       .assign true [.var "rparen"] (.e (.call "nullSpan" [])),
       .block
         [.assign true [.var "finalTok", .blank] (.pcall "p" "next" []),
          .ite
            (.cmp "eq" (.field (.var "finalTok") "Kind") (.kind "TokenRParen"))
            [.assign false [.var "rparen"] (.e (.field (.var "finalTok") "Span"))]
            [.do_ (.pcall "p" "prev" []), .assign false [.var "err"] (.e (.call "joinErrors" [.var "err", .perr false (.field (.var "finalTok") "Span")]))]],
       .ret
         [.new
            "CallExpr"
            ["Func", "Lparen", "Args", "Rparen"]
            [.new "Ident" ["Name", "NameSpan"] [.field (.var "tok") "Value", .field (.var "tok") "Span"], .field (.var "nextTok") "Span", .var "args", .var "rparen"],
          .var "err"]]
      [.ite
         (.cmp "eq" (.field (.var "tok") "Kind") (.kind "TokenQuotedIdentifier"))
         [.do_ (.pcall "p" "prev" []), .retCall (.pcall "p" "qualifiedIdent" [])]
         [.ite
            (.cmp "eq" (.field (.var "tok") "Kind") (.kind "TokenLParen"))
            [.assign true [.var "exprParser"] (.pcall "p" "split" [.kind "TokenRParen"]),
             .assign true [.var "x", .var "err"] (.pcall "exprParser" "expr" []),
             .assign false [.var "err"] (.e (.call "makeErrorOpaque" [.var "err"])),
             .assign false [.var "err"] (.e (.call "joinErrors" [.var "err", .mcall "endSplit" (.var "exprParser")])),
             .assign true [.var "endTok", .blank] (.pcall "p" "next" []),
             .ite
               (.cmp "ne" (.field (.var "endTok") "Kind") (.kind "TokenRParen"))
               [.assign false [.var "err"] (.e (.call "joinErrors" [.var "err", .perr false (.field (.var "endTok") "Span")])),
                .ret [.new "ParenExpr" ["Lparen", "X", "Rparen"] [.field (.var "tok") "Span", .var "x", .call "nullSpan" []], .var "err"]]
               [],
             .ret [.new "ParenExpr" ["Lparen", "X", "Rparen"] [.field (.var "tok") "Span", .var "x", .field (.var "endTok") "Span"], .var "err"]]
            [.do_ (.pcall "p" "prev" []), .ret [.nil, .perr true (.field (.var "tok") "Span")]]]]]]

set_option maxRecDepth 100000 in
theorem innerIR_ir : decode (irOf "innerPrimaryExpr") = some innerIR := by rfl

/-- `primaryExpr` -/
def primaryIR : List Stmt :=
  [.assign true [.var "x", .var "err"] (.pcall "p" "innerPrimaryExpr" []),
 .ite (.cmp "ne" (.var "err") (.nil)) [.ret [.var "x", .var "err"]] [],
 .loop
   ""
   (.bool true)
   [.assign true [.var "tok", .var "ok"] (.pcall "p" "next" []),
    .ite (.not (.var "ok")) [.ret [.var "x", .nil]] [],
    .ite
      (.cmp "eq" (.field (.var "tok") "Kind") (.kind "TokenLBracket"))
      [.assign true [.var "idx"] (.e (.new "IndexExpr" ["X", "Lbrack"] [.var "x", .field (.var "tok") "Span"])),
       .assign true [.var "indexParser"] (.pcall "p" "split" [.kind "TokenRBracket"]),
       .decl "err" "error",
       .assign false [.field "idx" "Index", .var "err"] (.pcall "indexParser" "expr" []),
       .assign false [.var "err"] (.e (.call "makeErrorOpaque" [.var "err"])),
       .assign false [.var "err"] (.e (.call "joinErrors" [.var "err", .mcall "endSplit" (.var "indexParser")])),
       .block
         [.assign true [.var "tok", .blank] (.pcall "p" "next" []),
          .ite
            (.cmp "eq" (.field (.var "tok") "Kind") (.kind "TokenRBracket"))
            [.assign false [.field "idx" "Rbrack"] (.e (.field (.var "tok") "Span"))]
            [.assign false [.var "err"] (.e (.call "joinErrors" [.var "err", .perr false (.field (.var "tok") "Span")]))]],
       .ret [.var "idx", .var "err"]]
      [.do_ (.pcall "p" "prev" []), .ret [.var "x", .nil]]]]

set_option maxRecDepth 100000 in
theorem primaryIR_ir : decode (irOf "primaryExpr") = some primaryIR := by rfl

/-- `unaryExpr` -/
def unaryIR : List Stmt :=
  [.assign true [.var "tok", .var "ok"] (.pcall "p" "next" []),
 .ite (.not (.var "ok")) [.ret [.nil, .perr true (.call "indexSpan" [.len (.field (.var "p") "source")])]] [],
 .ite
   (.or (.cmp "eq" (.field (.var "tok") "Kind") (.kind "TokenPlus")) (.cmp "eq" (.field (.var "tok") "Kind") (.kind "TokenMinus")))
   [.assign true [.var "x", .var "err"] (.pcall "p" "primaryExpr" []),
    .assign false [.var "err"] (.e (.call "makeErrorOpaque" [.var "err"])),
    .ret [.new "UnaryExpr" ["OpSpan", "Op", "X"] [.field (.var "tok") "Span", .field (.var "tok") "Kind", .var "x"], .var "err"]]
   [.do_ (.pcall "p" "prev" []), .retCall (.pcall "p" "primaryExpr" [])]]

set_option maxRecDepth 100000 in
theorem unaryIR_ir : decode (irOf "unaryExpr") = some unaryIR := by rfl

/-- `exprBinaryTrail` -/
def trailIR : List Stmt :=
  [.decl "finalError" "error",
 .loop
   ""
   (.bool true)
   [.assign true [.var "op1", .var "ok"] (.pcall "p" "next" []),
    .ite (.not (.var "ok")) [.ret [.var "x", .var "finalError"]] [],
    .assign true [.var "precedence1"] (.e (.call "operatorPrecedence" [.field (.var "op1") "Kind"])),
    .ite
      (.or (.cmp "lt" (.var "precedence1") (.int 0)) (.cmp "lt" (.var "precedence1") (.var "minPrecedence")))
      [.do_ (.pcall "p" "prev" []), .ret [.var "x", .var "finalError"]]
      [],
    .ite
      (.cmp "eq" (.field (.var "op1") "Kind") (.kind "TokenIn"))
      [.assign true [.var "lparen", .blank] (.pcall "p" "next" []),
       .ite
         (.cmp "ne" (.field (.var "lparen") "Kind") (.kind "TokenLParen"))
         [.assign false [.var "x"] (.e (.new "InExpr" ["X", "In", "Lparen", "Rparen"] [.var "x", .field (.var "op1") "Span", .call "nullSpan" [], .call "nullSpan" []])),
          .assign false [.var "finalError"] (.e (.call "joinErrors" [.var "finalError", .perr false (.field (.var "lparen") "Span")])),
          .ret [.var "x", .var "finalError"]]
         [],
       .assign true [.var "valParser"] (.pcall "p" "split" [.kind "TokenRParen"]),
       .assign true [.var "vals", .var "err"] (.pcall "valParser" "exprList" []),
       .assign false [.var "finalError"] (.e (.call "joinErrors" [.var "finalError", .call "makeErrorOpaque" [.var "err"], .mcall "endSplit" (.var "valParser")])),
       .assign true [.var "rparen", .blank] (.pcall "p" "next" []),
       .ite
         (.cmp "ne" (.field (.var "rparen") "Kind") (.kind "TokenRParen"))
         [.assign
            false
            [.var "x"]
            (.e (.new "InExpr" ["X", "In", "Lparen", "Vals", "Rparen"] [.var "x", .field (.var "op1") "Span", .field (.var "lparen") "Span", .var "vals", .call "nullSpan" []])),
          .assign false [.var "finalError"] (.e (.call "joinErrors" [.var "finalError", .perr false (.field (.var "lparen") "Span")])),
          .ret [.var "x", .var "finalError"]]
         [],
       .assign
         false
         [.var "x"]
         (.e (.new "InExpr" ["X", "In", "Lparen", "Vals", "Rparen"] [.var "x", .field (.var "op1") "Span", .field (.var "lparen") "Span", .var "vals", .field (.var "rparen") "Span"])),
       .cont]
      [],
    .assign true [.var "y", .var "err"] (.pcall "p" "unaryExpr" []),
    .ite (.cmp "ne" (.var "err") (.nil)) [.assign false [.var "finalError"] (.e (.call "joinErrors" [.var "finalError", .call "makeErrorOpaque" [.var "err"]]))] [],
    .loop
      ""
      (.bool true)
      [.assign true [.var "op2", .var "ok"] (.pcall "p" "next" []),
       .ite (.not (.var "ok")) [.brk ""] [],
       .do_ (.pcall "p" "prev" []),
       .assign true [.var "precedence2"] (.e (.call "operatorPrecedence" [.field (.var "op2") "Kind"])),
       .ite (.or (.cmp "lt" (.var "precedence2") (.int 0)) (.cmp "le" (.var "precedence2") (.var "precedence1"))) [.brk ""] [],
       .assign false [.var "y", .var "err"] (.pcall "p" "exprBinaryTrail" [.var "y", .add (.var "precedence1") (.int 1)]),
       .ite (.cmp "ne" (.var "err") (.nil)) [.assign false [.var "finalError"] (.e (.call "joinErrors" [.var "finalError", .call "makeErrorOpaque" [.var "err"]]))] []],
    .assign false [.var "x"] (.e (.new "BinaryExpr" ["X", "OpSpan", "Op", "Y"] [.var "x", .field (.var "op1") "Span", .field (.var "op1") "Kind", .var "y"]))]]

set_option maxRecDepth 100000 in
theorem trailIR_ir : decode (irOf "exprBinaryTrail") = some trailIR := by rfl

/-- `expr` -/
def exprIR : List Stmt :=
  [.assign true [.var "x", .var "err1"] (.pcall "p" "unaryExpr" []),
 .ite (.call "isNotFound" [.var "err1"]) [.ret [.var "x", .var "err1"]] [],
 .assign true [.var "x", .var "err2"] (.pcall "p" "exprBinaryTrail" [.var "x", .int 0]),
 .ret [.var "x", .call "joinErrors" [.var "err1", .var "err2"]]]

set_option maxRecDepth 100000 in
theorem exprIR_ir : decode (irOf "expr") = some exprIR := by rfl

/-- `exprList` -/
def exprListIR : List Stmt :=
  [.assign true [.var "first", .var "err"] (.pcall "p" "expr" []),
 .ite (.cmp "ne" (.var "err") (.nil)) [.ret [.nil, .var "err"]] [],
 .assign true [.var "result"] (.e (.list [.var "first"])),
 .loop
   ""
   (.bool true)
   [.assign true [.var "restorePos"] (.e (.field (.var "p") "pos")),
    .assign true [.var "tok", .var "ok"] (.pcall "p" "next" []),
    .ite (.not (.var "ok")) [.ret [.var "result", .nil]] [],
    .ite (.cmp "ne" (.field (.var "tok") "Kind") (.kind "TokenComma")) [.do_ (.pcall "p" "prev" []), .ret [.var "result", .nil]] [],
    .assign true [.var "x", .var "err"] (.pcall "p" "expr" []),
    .ite (.call "isNotFound" [.var "err"]) [.assign false [.field "p" "pos"] (.e (.var "restorePos")), .ret [.var "result", .nil]] [],
    .ite (.cmp "ne" (.var "x") (.nil)) [.assign false [.var "result"] (.e (.append (.var "result") (.var "x")))] [],
    .ite (.cmp "ne" (.var "err") (.nil)) [.ret [.var "result", .call "makeErrorOpaque" [.var "err"]]] []]]

set_option maxRecDepth 100000 in
theorem exprListIR_ir : decode (irOf "exprList") = some exprListIR := by rfl

end Pql.ExprParseIR
