/-
Lemmas about `linecol` / `linecolRunes` (Model/Parse.lean) and the UTF-8 decoder:

* a multi-byte rune accepted by `decodeRune` consists of bytes ≥ 0x80 only, so a newline byte
  (or any ASCII byte) is never swallowed by a rune step;
* the line component of `linecolRunes` counts newline *bytes*;
* the column component stays ≥ 1.
-/
import PqlModel.Model.Parse
namespace Pql

/-! ### the decoder never swallows an ASCII byte -/

theorem isCont_ge {b : UInt8} (h : isCont b = true) : 0x80 ≤ b.toNat := by
  simp only [isCont, Bool.and_eq_true, decide_eq_true_eq] at h
  exact h.1

theorem secondLo_ge (n0 : Nat) : 0x80 ≤ secondLo n0 := by
  unfold secondLo
  split
  · omega
  · split <;> omega

/-- the continuation bytes consumed by a successful multi-byte decode are all ≥ 0x80 -/
theorem decodeMulti_bytes_ge {n0 : Nat} {rest : Bytes} {r w : Nat}
    (h : decodeMulti n0 rest = some (r, w)) : ∀ x ∈ rest.take (w - 1), 0x80 ≤ x.toNat := by
  have hlo := secondLo_ge n0
  unfold decodeMulti at h
  split at h
  · cases h
  · split at h
    · split at h
      · split at h
        · rename_i b1 _ hc
          cases h
          intro x hx
          simp only [Nat.add_one_sub_one, List.take_succ_cons, List.take_zero, List.mem_cons,
            List.not_mem_nil, or_false] at hx
          subst hx
          exact isCont_ge hc
        · cases h
      · cases h
    · split at h
      · split at h
        · split at h
          · rename_i b1 b2 _ hc
            cases h
            simp only [Bool.and_eq_true, decide_eq_true_eq] at hc
            intro x hx
            simp only [Nat.add_one_sub_one, List.take_succ_cons, List.take_zero, List.mem_cons,
              List.not_mem_nil, or_false] at hx
            rcases hx with rfl | rfl
            · omega
            · exact isCont_ge hc.2
          · cases h
        · cases h
      · split at h
        · split at h
          · split at h
            · rename_i b1 b2 b3 _ hc
              cases h
              simp only [Bool.and_eq_true, decide_eq_true_eq] at hc
              intro x hx
              simp only [Nat.add_one_sub_one, List.take_succ_cons, List.take_zero, List.mem_cons,
                List.not_mem_nil, or_false] at hx
              rcases hx with rfl | rfl | rfl
              · omega
              · exact isCont_ge hc.1.2
              · exact isCont_ge hc.2
            · cases h
          · cases h
        · cases h

/-- the bytes a rune step consumes after the lead byte are all ≥ 0x80 -/
theorem decodeRune_tail_ge (c : UInt8) (rest : Bytes) :
    ∀ x ∈ rest.take ((decodeRune (c :: rest)).2 - 1), 0x80 ≤ x.toNat := by
  rw [decodeRune_cons]
  split
  · simp
  · cases h : decodeMulti c.toNat rest with
    | none => simp
    | some rw =>
      obtain ⟨r, w⟩ := rw
      exact decodeMulti_bytes_ge h

/-- when the decoded width is > 1 none of the consumed bytes is < 0x80 -/
theorem decodeRune_wide_all_ge (s : Bytes) (hw : 1 < (decodeRune s).2) :
    ∀ x ∈ s.take (decodeRune s).2, 0x80 ≤ x.toNat := by
  cases s with
  | nil => simp [decodeRune] at hw
  | cons c rest =>
    have ht := decodeRune_tail_ge c rest
    intro x hx
    have hpos := decodeRune_width_pos c rest
    obtain ⟨w, hw'⟩ : ∃ w, (decodeRune (c :: rest)).2 = w + 1 := ⟨(decodeRune (c :: rest)).2 - 1, by omega⟩
    rw [hw'] at hx ht hw
    simp only [List.take_succ_cons, List.mem_cons, Nat.add_one_sub_one] at hx ht
    rcases hx with rfl | hx
    · -- the lead byte: if it were ASCII the width would be 1
      rw [decodeRune_cons] at hw'
      split at hw'
      · simp at hw'; omega
      · omega
    · exact ht x hx

/-- an ASCII byte at the head is a rune of its own -/
theorem decodeRune_ascii_width (c : UInt8) (rest : Bytes) (h : c.toNat < 0x80) :
    (decodeRune (c :: rest)).2 = 1 := by
  rw [decodeRune_cons, if_pos h]

/-- a rune step never skips a newline byte: the bytes after the lead byte contain none -/
theorem count_newline_skipped (c : UInt8) (rest : Bytes) :
    (rest.take ((decodeRune (c :: rest)).2 - 1)).count 10 = 0 := by
  rw [List.count_eq_zero]
  intro hmem
  have := decodeRune_tail_ge c rest 10 hmem
  simp at this

/-- newline bytes of a non-empty suffix: the head byte, and those after the first rune -/
theorem count_newline_step (c : UInt8) (rest : Bytes) :
    (c :: rest).count 10 =
      (if c == 10 then 1 else 0) + ((c :: rest).drop (decodeRune (c :: rest)).2).count 10 := by
  have hpos := decodeRune_width_pos c rest
  obtain ⟨w, hw⟩ : ∃ w, (decodeRune (c :: rest)).2 = w + 1 := ⟨(decodeRune (c :: rest)).2 - 1, by omega⟩
  have hskip := count_newline_skipped c rest
  rw [hw] at hskip ⊢
  simp only [Nat.add_one_sub_one] at hskip
  rw [List.drop_succ_cons, List.count_cons]
  conv => lhs; rw [← List.take_append_drop w rest]
  rw [List.count_append, hskip]
  omega

/-! ### `linecolRunes` -/

theorem linecolRunes_nil (fuel line col : Nat) : linecolRunes fuel [] line col = (line, col) := by
  cases fuel <;> rfl

theorem linecolRunes_cons (fuel : Nat) (c : UInt8) (rest : Bytes) (line col : Nat) :
    linecolRunes (fuel + 1) (c :: rest) line col =
      if c == 10 then
        linecolRunes fuel ((c :: rest).drop (decodeRune (c :: rest)).2) (line + 1) 1
      else if c == 9 then
        linecolRunes fuel ((c :: rest).drop (decodeRune (c :: rest)).2) line (col + (8 - (col - 1) % 8))
      else linecolRunes fuel ((c :: rest).drop (decodeRune (c :: rest)).2) line (col + 1) := rfl

/-- the line component counts the newline bytes -/
theorem linecolRunes_line (fuel : Nat) : ∀ (s : Bytes) (line col : Nat), s.length < fuel →
    (linecolRunes fuel s line col).1 = line + s.count 10 := by
  induction fuel with
  | zero => intro s line col h; omega
  | succ fuel ih =>
    intro s line col h
    cases s with
    | nil => simp [linecolRunes_nil]
    | cons c rest =>
      have hpos := decodeRune_width_pos c rest
      have hlen : ((c :: rest).drop (decodeRune (c :: rest)).2).length < fuel := by
        simp only [List.length_drop, List.length_cons] at h ⊢
        omega
      rw [linecolRunes_cons, count_newline_step c rest]
      by_cases h10 : (c == 10) = true
      · rw [if_pos h10, if_pos h10, ih _ _ _ hlen]; omega
      · rw [if_neg h10, if_neg h10]
        by_cases h9 : (c == 9) = true
        · rw [if_pos h9, ih _ _ _ hlen]; omega
        · rw [if_neg h9, ih _ _ _ hlen]; omega

/-- the column component stays ≥ 1 -/
theorem linecolRunes_col_pos (fuel : Nat) : ∀ (s : Bytes) (line col : Nat), 1 ≤ col →
    1 ≤ (linecolRunes fuel s line col).2 := by
  induction fuel with
  | zero => intro s line col h; exact h
  | succ fuel ih =>
    intro s line col h
    cases s with
    | nil => simpa [linecolRunes_nil] using h
    | cons c rest =>
      rw [linecolRunes_cons]
      split
      · exact ih _ _ _ (Nat.le_refl 1)
      · split
        · exact ih _ _ _ (by omega)
        · exact ih _ _ _ (by omega)

end Pql
