/-
C08, second sentence — part 4: the token classes of `unparseStmt` (structural induction over sort
terms, columns, render properties, operators, pipelines, statements).
-/
import PqlModel.Lemmas.RejectExpr
import PqlModel.Lemmas.RejectLift
namespace Pql.Reject
open Pql Pql.Grammar
open Pql.ParsedOK (sOK sOKList)

/-- last classes of a sort term -/
def LS : List Cl := [.nm, .lit, .s .rparen, .s .rbracket, .kDir, .kNF]
/-- last classes of an operator, a pipeline, a statement -/
def LO : List Cl := [.nm, .lit, .s .rparen, .s .rbracket, .kCount, .kDir, .kNF]

abbrev EOK : Expr → Prop := fun e => sOK e = true
abbrev LOK : ExprList → Prop := fun l => sOKList l = true ∧ l.length ≠ 0

/-! ### keyword tokens -/

theorem cl_dir (a : Bool) (sp : Span) : cl (kwTok [if a then "asc" else "desc"] sp) = .kDir := by
  cases a <;> rfl
theorem cl_nulls (s : Option Int) : cl { kwPlain ["nulls"] with start := s } = .kw := by rfl
theorem cl_nf (a : Bool) (s : Option Int) :
    cl { kwPlain [if a then "first" else "last"] with stop := s } = .kNF := by
  cases a <;> rfl
theorem cl_by (s : Option Int) : cl { kind := .by_, stop := s } = .s .by_ := rfl
theorem cl_sortKw (s : Option Int) : cl { kwPlain ["sort", "order"] with start := s } = .kw := by rfl

/-- `| keyword body` -/
theorem opHead {F L : List Cl} {body : List UTok} (p : Span) (kwu : UTok) (hkw : cl kwu = .kw)
    (hb : Good F L body) (h : ∀ y ∈ F, okPair .kw y = true) :
    Good [.s .pipe] L (sym .pipe p :: kwu :: body) :=
  (hb.cons kwu .kw hkw rfl h).cons (sym .pipe p) (.s .pipe) rfl rfl (by decide)

/-! ### lists -/

theorem sepBy_good {F L : List Cl} (hL : ∀ x ∈ L, okPair x (.s .comma) = true)
    (hF : ∀ y ∈ F, okPair (.s .comma) y = true) :
    ∀ tss : List (List UTok), (∀ us ∈ tss, Good F L us) → tss ≠ [] → Good F L (sepBy commaTok tss)
  | [], _, h => absurd rfl h
  | [x], hg, _ => by simpa [sepBy] using hg x (by simp)
  | x :: y :: xs, hg, _ => by
    have ih := sepBy_good hL hF (y :: xs) (fun us hus => hg us (List.mem_cons_of_mem _ hus)) (by simp)
    have hx := hg x (by simp)
    simp only [sepBy]
    exact hx.app (ih.cons commaTok (.s .comma) rfl rfl hF)
      (by intro a ha c hc; rw [List.mem_singleton.1 hc]; exact hL a ha)

theorem listM_all {α β : Type} (f : α → Option β) (P : β → Prop) : ∀ (xs : List α) (ys : List β),
    listM f xs = some ys → (∀ x ∈ xs, ∀ y, f x = some y → P y) →
      (∀ y ∈ ys, P y) ∧ (xs ≠ [] → ys ≠ [])
  | [], ys, h, _ => by
    simp only [listM, Option.some.injEq] at h
    subst h; simp
  | x :: xs, ys, h, hp => by
    simp only [listM, Option.bind_eq_bind, Option.pure_def, Option.bind_eq_some_iff,
      Option.some.injEq] at h
    obtain ⟨y, hy, ys', hys, rfl⟩ := h
    have ih := listM_all f P xs ys' hys (fun x' hx' => hp x' (List.mem_cons_of_mem _ hx'))
    refine ⟨?_, by simp⟩
    intro y' hy'
    rcases List.mem_cons.1 hy' with rfl | hy'
    · exact hp x (by simp) _ hy
    · exact ih.1 y' hy'

/-- a comma-separated non-empty list of items -/
theorem sepList_good {α : Type} {F L : List Cl} (f : α → Option (List UTok))
    (hL : ∀ x ∈ L, okPair x (.s .comma) = true) (hF : ∀ y ∈ F, okPair (.s .comma) y = true)
    (xs : List α) (tss : List (List UTok)) (h : listM f xs = some tss)
    (hp : ∀ x ∈ xs, ∀ us, f x = some us → Good F L us) (hne : xs ≠ []) :
    Good F L (sepBy commaTok tss) := by
  have := listM_all f (Good F L) xs tss h hp
  exact sepBy_good hL hF tss this.1 (this.2 hne)

/-! ### sort terms, columns, render properties -/

theorem sortTerm_good (t : SortTerm) (us : List UTok) (hs : sOK t.x = true)
    (h : unparseSortTerm t = some us) : Good FE LS us := by
  simp only [unparseSortTerm, Option.bind_eq_bind, Option.pure_def, Option.bind_eq_some_iff,
    Option.some.injEq] at h
  obtain ⟨xs, hx, rfl⟩ := h
  have hg := expr_good t.x xs hs hx
  have hn : Good [.kw] [.kNF]
      [{ kwPlain ["nulls"] with start := some t.nullsSpan.start },
       { kwPlain [if t.nullsFirst then "first" else "last"] with stop := some t.nullsSpan.stop }] :=
    by
      have h0 := Good.one { kwPlain [if t.nullsFirst then "first" else "last"] with stop := some t.nullsSpan.stop }
        (by rw [cl_nf]; rfl)
      rw [cl_nf] at h0
      exact h0.cons _ .kw (cl_nulls _) rfl (by decide)
  have hd : Good [.kDir] [.kDir] [kwTok [if t.asc then "asc" else "desc"] t.ascDescSpan] := by
    have := Good.one (kwTok [if t.asc then "asc" else "desc"] t.ascDescSpan) (by rw [cl_dir]; rfl)
    rwa [cl_dir] at this
  by_cases h1 : t.ascDescSpan.isValid = true <;> by_cases h2 : t.nullsSpan.isValid = true <;>
    simp only [h1, h2, ↓reduceIte, Bool.false_eq_true, List.append_nil]
  · exact ((hg.app hd (by decide)).app hn (by decide)).mono (L' := LS) (fun _ h => h) (by decide)
  · exact (hg.app hd (by decide)).mono (L' := LS) (fun _ h => h) (by decide)
  · exact (hg.app hn (by decide)).mono (L' := LS) (fun _ h => h) (by decide)
  · exact hg.mono (L' := LS) (fun _ h => h) (by decide)

theorem named_good (n : Ident) (asg : Span) {xs : List UTok} (hg : Good FE LE xs) :
    Good FE LE (identTok n :: sym .assign asg :: xs) :=
  ((hg.cons (sym .assign asg) (.s .assign) rfl rfl (by decide)).cons (identTok n) .nm (by simp) rfl
    (by decide)).mono (by decide) (fun _ h => h)

theorem column_good (project : Bool) (c : Column) (us : List UTok) (hs : c.x = .nil ∨ sOK c.x = true)
    (h : unparseColumn project c = some us) : Good FE LE us := by
  unfold unparseColumn at h
  split at h
  · next n _ =>
    split at h
    · simp only [Option.bind_eq_bind, Option.pure_def, Option.bind_eq_some_iff,
        Option.some.injEq] at h
      obtain ⟨xs, hx, rfl⟩ := h
      rcases hs with hs | hs
      · rw [hs] at hx; simp [unparseExpr] at hx
      · exact named_good n _ (expr_good c.x xs hs hx)
    · split at h
      · split at h
        · simp only [Option.some.injEq] at h
          subst h
          have := Good.one (identTok n) (by simp [Cl.br])
          rw [cl_identTok] at this
          exact this.mono (by decide) (by decide)
        · cases h
      · cases h
  · split at h
    · cases h
    · rcases hs with hs | hs
      · rw [hs] at h; simp [unparseExpr] at h
      · exact expr_good c.x us hs h

theorem prop_good (p : RenderProp) (us : List UTok) (hs : sOK p.value = true)
    (h : unparseProp p = some us) : Good FE LE us := by
  simp only [unparseProp, Option.bind_eq_bind, Option.pure_def, Option.bind_eq_some_iff,
    Option.some.injEq] at h
  obtain ⟨n, _, vs, hv, rfl⟩ := h
  exact named_good n _ (expr_good p.value vs hs hv)

theorem cols_good (project : Bool) (cs : List Column) (css : List (List UTok))
    (h : listM (unparseColumn project) cs = some css) (hs : ∀ c ∈ cs, c.x = .nil ∨ sOK c.x = true)
    (hne : cs ≠ []) : Good FE LE (sepBy commaTok css) :=
  sepList_good (unparseColumn project) (by decide) (by decide) cs css h
    (fun c hc us hu => column_good project c us (hs c hc) hu) hne

theorem isEmpty_false_ne {α : Type} {l : List α} (h : ¬ l.isEmpty = true) : l ≠ [] := by
  intro hl; rw [hl] at h; exact h rfl

/-! ### operators, pipelines -/

mutual
theorem tab_good : ∀ (t : Tabular) (us : List UTok), TabAll EOK LOK t → unparseTabular t = some us →
    Good [.nm] LO us
  | .nil, _, _, h => by simp [unparseTabular] at h
  | .mk src ops, us, ha, h => by
    simp only [unparseTabular, Option.bind_eq_bind, Option.pure_def, Option.bind_eq_some_iff,
      Option.some.injEq] at h
    obtain ⟨s, _, os, ho, rfl⟩ := h
    simp only [TabAll] at ha
    rcases ops_good ops os ha ho with hn | hg
    · subst hn
      have := Good.one (identTok s) (by simp [Cl.br])
      rw [cl_identTok] at this
      exact this.mono (fun _ h => h) (by decide)
    · exact hg.cons (identTok s) .nm (by simp) rfl (by decide)
theorem ops_good : ∀ (ops : OpList) (us : List UTok), OpsAll EOK LOK ops → unparseOps ops = some us →
    us = [] ∨ Good [.s .pipe] LO us
  | .nil, us, _, h => by
    simp only [unparseOps, Option.some.injEq] at h
    exact Or.inl h.symm
  | .cons o os, us, ha, h => by
    simp only [unparseOps, Option.bind_eq_bind, Option.pure_def, Option.bind_eq_some_iff,
      Option.some.injEq] at h
    obtain ⟨a, hao, c, hc, rfl⟩ := h
    simp only [OpsAll] at ha
    have h1 := op_good o a ha.1 hao
    rcases ops_good os c ha.2 hc with hn | hg
    · subst hn; rw [List.append_nil]; exact Or.inr h1
    · exact Or.inr (h1.app hg (by decide))
theorem op_good : ∀ (o : Op) (us : List UTok), OpAll EOK LOK o → unparseOp o = some us →
    Good [.s .pipe] LO us
  | .count p k, us, _, h => by
    simp only [unparseOp, Option.some.injEq] at h
    subst h
    have h1 : Good [.kCount] [.kCount] [kwTok ["count"] k] := Good.one (kwTok ["count"] k) (by rfl)
    exact (h1.cons (sym .pipe p) (.s .pipe) rfl rfl (by decide)).mono (fun _ h => h) (by decide)
  | .as_ p k n, us, _, h => by
    simp only [unparseOp, Option.bind_eq_bind, Option.pure_def, Option.bind_eq_some_iff,
      Option.some.injEq] at h
    obtain ⟨nm, _, rfl⟩ := h
    have h1 : Good [.nm] [.nm] [identTok nm] := by
      have := Good.one (identTok nm) (by simp [Cl.br])
      rwa [cl_identTok] at this
    exact (opHead p (kwTok ["as"] k) (by rfl) h1 (by decide)).mono (fun _ h => h) (by decide)
  | .where_ p k e, us, ha, h => by
    simp only [unparseOp, Option.bind_eq_bind, Option.pure_def, Option.bind_eq_some_iff,
      Option.some.injEq] at h
    obtain ⟨xs, hx, rfl⟩ := h
    simp only [OpAll] at ha
    exact (opHead p (kwTok ["where", "filter"] k) (by rfl) (expr_good e xs ha hx) (by decide)).mono
      (fun _ h => h) (by decide)
  | .take p k n, us, ha, h => by
    simp only [unparseOp, Option.bind_eq_bind, Option.pure_def, Option.bind_eq_some_iff,
      Option.some.injEq] at h
    obtain ⟨xs, hx, rfl⟩ := h
    simp only [OpAll] at ha
    exact (opHead p (kwTok ["take", "limit"] k) (by rfl) (expr_good n xs ha hx) (by decide)).mono
      (fun _ h => h) (by decide)
  | .top p k n b c, us, ha, h => by
    simp only [unparseOp, Option.bind_eq_bind, Option.pure_def, Option.bind_eq_some_iff,
      Option.some.injEq] at h
    obtain ⟨xs, hx, col, hc, cs, hcs, rfl⟩ := h
    simp only [OpAll] at ha
    have h1 := sortTerm_good col cs (ha.2 col hc) hcs
    have h2 := (expr_good n xs ha.1 hx).app (h1.cons (sym .by_ b) (.s .by_) rfl rfl (by decide)) (by decide)
    exact (opHead p (kwTok ["top"] k) (by rfl) h2 (by decide)).mono (fun _ h => h) (by decide)
  | .sort p k ts, us, ha, h => by
    simp only [unparseOp, Option.bind_eq_bind, Option.pure_def] at h
    split at h
    · simp at h
    · next hne =>
      simp only [Option.bind_eq_some_iff, Option.some.injEq] at h
      obtain ⟨tss, htss, rfl⟩ := h
      simp only [OpAll] at ha
      have h1 : Good FE LS (sepBy commaTok tss) :=
        sepList_good unparseSortTerm (by decide) (by decide) ts tss htss
          (fun t ht us hu => sortTerm_good t us (ha t ht) hu) (isEmpty_false_ne hne)
      have h2 := h1.cons { kind := .by_, stop := some k.stop } (.s .by_) (cl_by _) rfl (by decide)
      exact (opHead p _ (cl_sortKw _) h2 (by decide)).mono (fun _ h => h) (by decide)
  | .project p k cs, us, ha, h => by
    simp only [unparseOp, Option.bind_eq_bind, Option.pure_def] at h
    split at h
    · simp at h
    · next hne =>
      simp only [Option.bind_eq_some_iff, Option.some.injEq] at h
      obtain ⟨css, hcss, rfl⟩ := h
      simp only [OpAll] at ha
      exact (opHead p (kwTok ["project"] k) (by rfl) (cols_good true cs css hcss ha (isEmpty_false_ne hne))
        (by decide)).mono (fun _ h => h) (by decide)
  | .extend p k cs, us, ha, h => by
    simp only [unparseOp, Option.bind_eq_bind, Option.pure_def] at h
    split at h
    · simp at h
    · next hne =>
      simp only [Option.bind_eq_some_iff, Option.some.injEq] at h
      obtain ⟨css, hcss, rfl⟩ := h
      simp only [OpAll] at ha
      exact (opHead p (kwTok ["extend"] k) (by rfl)
        (cols_good false cs css hcss (fun c hc => Or.inr (ha c hc)) (isEmpty_false_ne hne))
        (by decide)).mono (fun _ h => h) (by decide)
  | .summarize p k cs b gs, us, ha, h => by
    simp only [unparseOp, Option.bind_eq_bind, Option.pure_def, Option.bind_eq_some_iff] at h
    obtain ⟨css, hcss, gss, hgss, h⟩ := h
    simp only [OpAll] at ha
    have hcs : cs ≠ [] → Good FE LE (sepBy commaTok css) :=
      cols_good false cs css hcss (fun c hc => Or.inr (ha.1 c hc))
    have hgs : gs ≠ [] → Good FE LE (sepBy commaTok gss) :=
      cols_good false gs gss hgss (fun c hc => Or.inr (ha.2 c hc))
    split at h
    · split at h
      · simp at h
      · next hne =>
        simp only [Option.some.injEq] at h
        subst h
        have hby : Good [.s .by_] LE ({ sym .by_ b with optComma := !cs.isEmpty } :: sepBy commaTok gss) :=
          (hgs (isEmpty_false_ne hne)).cons _ (.s .by_) rfl rfl (by decide)
        by_cases hc : cs = []
        · subst hc
          simp only [listM, Option.some.injEq] at hcss
          subst hcss
          simp only [sepBy]
          exact (opHead p (kwTok ["summarize"] k) (by rfl) hby (by decide)).mono (fun _ h => h) (by decide)
        · exact (opHead p (kwTok ["summarize"] k) (by rfl) ((hcs hc).app hby (by decide)) (by decide)).mono
            (fun _ h => h) (by decide)
    · split at h
      · simp at h
      · next hg =>
        simp only [Option.some.injEq] at h
        subst h
        simp only [Bool.or_eq_true, Bool.not_eq_true', not_or, Bool.not_eq_true] at hg
        have hc : cs ≠ [] := by
          intro hc; rw [hc] at hg; simp at hg
        exact (opHead p (kwTok ["summarize"] k) (by rfl) (hcs hc) (by decide)).mono (fun _ h => h) (by decide)
  | .join p k kind ka fl lp right rp on conds, us, ha, h => by
    simp only [unparseOp, Option.bind_eq_bind, Option.pure_def, Option.bind_eq_some_iff] at h
    obtain ⟨r, hr, cs, hcs, h⟩ := h
    simp only [OpAll] at ha
    have hrt := tab_good right r ha.1 hr
    have hcg : Good FE LE cs := by
      rcases list_good conds cs ha.2.1 hcs with ⟨hn, _⟩ | ⟨_, hg⟩
      · rw [hn] at ha; exact absurd rfl ha.2.2
      · exact hg
    have hbody : Good [.s .lparen] LE (sym .lparen lp :: (r ++ sym .rparen rp :: kwTok ["on"] on :: cs)) :=
      Good.parenRest (sym .lparen lp) (sym .rparen rp) rfl rfl hrt
        (hcg.cons (kwTok ["on"] on) .kw (by rfl) rfl (by decide)) (by decide) (by decide) (by decide)
    split at h
    · simp at h
    · split at h
      · next f =>
        simp only [Option.bind_some, Option.some.injEq] at h
        subst h
        have hh : Good [.kw] LE (kwTok ["kind"] kind :: sym .assign ka :: identTok f ::
            sym .lparen lp :: (r ++ sym .rparen rp :: kwTok ["on"] on :: cs)) :=
          ((hbody.cons (identTok f) .nm (by simp) rfl (by decide)).cons (sym .assign ka) (.s .assign) rfl rfl
            (by decide)).cons (kwTok ["kind"] kind) .kw (by rfl) rfl (by decide)
        have := (opHead p (kwTok ["join"] k) (by rfl) hh (by decide)).mono (L' := LO) (fun _ h => h) (by decide)
        simpa using this
      · split at h
        · simp at h
        · simp only [Option.bind_some, Option.some.injEq] at h
          subst h
          have := (opHead p (kwTok ["join"] k) (by rfl) hbody (by decide)).mono (L' := LO) (fun _ h => h)
            (by decide)
          simpa using this
  | .render p k ch w lp props rp, us, ha, h => by
    simp only [unparseOp, Option.bind_eq_bind, Option.pure_def, Option.bind_eq_some_iff] at h
    obtain ⟨c, _, pss, hpss, h⟩ := h
    simp only [OpAll] at ha
    split at h
    · split at h
      · simp at h
      · next hne =>
        simp only [Option.some.injEq] at h
        subst h
        have hp : Good FE LE (sepBy commaTok pss) :=
          sepList_good unparseProp (by decide) (by decide) props pss hpss
            (fun q hq us hu => prop_good q us (ha q hq) hu) (isEmpty_false_ne hne)
        have hb := (Good.paren (sym .lparen lp) (sym .rparen rp) rfl rfl hp (by decide) (by decide)).cons
          (kwTok ["with"] w) .kw (by rfl) rfl (by decide)
        have hc := hb.cons (identTok c) .nm (by simp) rfl (by decide)
        have := (opHead p (kwTok ["render"] k) (by rfl) hc (by decide)).mono (L' := LO) (fun _ h => h)
          (by decide)
        simpa using this
    · split at h
      · simp at h
      · simp only [Option.some.injEq] at h
        subst h
        have h1 : Good [.nm] [.nm] [identTok c] := by
          have := Good.one (identTok c) (by simp [Cl.br])
          rwa [cl_identTok] at this
        exact (opHead p (kwTok ["render"] k) (by rfl) h1 (by decide)).mono (fun _ h => h) (by decide)
end

/-- first classes of a statement: a name (table) or the keyword `let` -/
def FS : List Cl := [.nm, .kw]

/-- **the token classes of a statement's `unparse`**: non-empty, begins with a name or `let`, ends
    with an operand end or one of the keywords `count asc desc first last`, only allowed
    neighbours, brackets balanced -/
theorem stmt_good (s : Stmt) (us : List UTok) (ha : StmtAll EOK LOK s) (h : unparseStmt s = some us) :
    Good FS LO us := by
  cases s with
  | let_ kw name asg x =>
    simp only [unparseStmt, Option.bind_eq_bind, Option.pure_def, Option.bind_eq_some_iff,
      Option.some.injEq] at h
    obtain ⟨n, _, xs, hx, rfl⟩ := h
    simp only [StmtAll] at ha
    have h1 := named_good n asg (expr_good x xs ha hx)
    exact (h1.cons (kwTok ["let"] kw) .kw (by rfl) rfl (by decide)).mono (by decide) (by decide)
  | tabular t =>
    simp only [unparseStmt] at h
    simp only [StmtAll] at ha
    exact (tab_good t us ha h).mono (by decide) (fun _ h => h)

end Pql.Reject
