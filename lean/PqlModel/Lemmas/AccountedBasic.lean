/-
Basic lemmas for property C08 ("the parser accepts only what its tree represents"):

* `TokOK`  — the well-formedness of token lists the property needs (and `scan` guarantees):
             every token has `start ≤ stop`, tokens are in source order, and a token whose kind
             carries no text (everything but identifiers, numbers, strings) has an empty value;
* `accounts` — congruence lemmas (`accounts_cons`, `accounts_append`, the optional comma);
* single-token lemmas (`tokOk_sym`, `tokOk_identTok`, `tokOk_kwTok`, `tokOk_lit`);
* the little error algebra needed when the error list is empty;
* `unparse…` equation lemmas in the form used by the parser induction.
-/
import PqlModel.Model.Parse
import PqlModel.Spec.Grammar
import PqlModel.Lemmas.SplitBasic
namespace Pql
open Grammar

/-! ### well-formed token lists -/

/-- one token: `start ≤ stop`; kinds without text have the empty value -/
structure TokWF (t : Token) : Prop where
  le : t.start ≤ t.stop
  val : t.kind ≠ .ident → t.kind ≠ .qident → t.kind ≠ .number → t.kind ≠ .string → t.value = []

/-- a token list as `scan` produces it: every token well-formed, tokens in source order -/
def TokOK (ts : List Token) : Prop :=
  (∀ t ∈ ts, TokWF t) ∧ ts.Pairwise (fun a b => a.stop ≤ b.start)

theorem TokOK.nil : TokOK [] := ⟨by simp, List.Pairwise.nil⟩

theorem TokOK.sublist {l₁ l₂ : List Token} (hs : l₁.Sublist l₂) (h : TokOK l₂) : TokOK l₁ :=
  ⟨fun t ht => h.1 t (hs.subset ht), h.2.sublist hs⟩

theorem TokOK.left {a b : List Token} (h : TokOK (a ++ b)) : TokOK a :=
  h.sublist (List.sublist_append_left a b)

theorem TokOK.right {a b : List Token} (h : TokOK (a ++ b)) : TokOK b :=
  h.sublist (List.sublist_append_right a b)

theorem TokOK.of_eq_append {ts a b : List Token} (h : TokOK ts) (e : ts = a ++ b) : TokOK b := by
  subst e; exact h.right

theorem TokOK.tail {t : Token} {ts : List Token} (h : TokOK (t :: ts)) : TokOK ts :=
  h.sublist (List.sublist_cons_self t ts)

theorem TokOK.head {t : Token} {ts : List Token} (h : TokOK (t :: ts)) : TokWF t :=
  h.1 t (by simp)

theorem TokOK.head_le {t : Token} {ts : List Token} (h : TokOK (t :: ts)) : t.start ≤ t.stop :=
  h.head.le

/-- the first token starts before the second one stops -/
theorem TokOK.head2 {t t2 : Token} {ts : List Token} (h : TokOK (t :: t2 :: ts)) : t.start ≤ t2.stop := by
  have h1 := h.head.le
  have h2 := h.tail.head.le
  have h3 : t.stop ≤ t2.start := by
    have := h.2
    rw [List.pairwise_cons] at this
    exact this.1 t2 (by simp)
  omega

theorem TokOK.split1 {k : TokKind} {ts : List Token} (h : TokOK ts) : TokOK (split k ts).1 := by
  rw [← split_append k ts] at h; exact h.left

theorem TokOK.split2 {k : TokKind} {ts : List Token} (h : TokOK ts) : TokOK (split k ts).2 := by
  rw [← split_append k ts] at h; exact h.right

theorem TokOK.splitSemi1 {ts : List Token} (h : TokOK ts) : TokOK (splitSemi ts).1 := by
  rw [← splitSemi_append ts] at h; exact h.left

theorem TokOK.splitSemi2 {ts : List Token} (h : TokOK ts) : TokOK (splitSemi ts).2 := by
  rw [← splitSemi_append ts] at h; exact h.right

theorem span_isValid {t : Token} (h : t.start ≤ t.stop) : t.span.isValid = true := by
  simp [Token.span, Span.isValid]
  omega

theorem span2_isValid {t t2 : Token} (h : t.start ≤ t2.stop) :
    (Span.mk (t.start : Int) (t2.stop : Int)).isValid = true := by
  simp [Span.isValid]
  omega

@[simp] theorem null_isValid : Span.null.isValid = false := by decide

/-! ### the error algebra, as far as an empty error list needs it -/

@[simp] theorem mkOpaque_eq_nil (es : Errs) : mkOpaque es = [] ↔ es = [] := by
  simp [mkOpaque]

@[simp] theorem endSplit_eq_nil (ts : List Token) : endSplit ts = [] ↔ ts = [] := by
  cases ts <;> simp [endSplit, errAt]

@[simp] theorem errAt_ne_nil (s : Span) : errAt s ≠ [] := by simp [errAt]
@[simp] theorem nfAt_ne_nil (s : Span) : nfAt s ≠ [] := by simp [nfAt]
@[simp] theorem errFuel_ne_nil : errFuel ≠ [] := by simp [errFuel]
@[simp] theorem errNoPos_ne_nil : errNoPos ≠ [] := by simp [errNoPos]
@[simp] theorem nil_ne_errAt (s : Span) : [] ≠ errAt s := by simp [errAt]
@[simp] theorem nil_ne_nfAt (s : Span) : [] ≠ nfAt s := by simp [nfAt]
@[simp] theorem nil_ne_errFuel : [] ≠ errFuel := by simp [errFuel]
@[simp] theorem nil_ne_errNoPos : [] ≠ errNoPos := by simp [errNoPos]
@[simp] theorem errAt_eq_nil (s : Span) : errAt s = [] ↔ False := by simp [errAt]
@[simp] theorem nfAt_eq_nil (s : Span) : nfAt s = [] ↔ False := by simp [nfAt]
@[simp] theorem errFuel_eq_nil : errFuel = [] ↔ False := by simp [errFuel]
@[simp] theorem errNoPos_eq_nil : errNoPos = [] ↔ False := by simp [errNoPos]

@[simp] theorem isNF_nil : isNF [] = false := rfl
@[simp] theorem isNF_append (a b : Errs) : isNF (a ++ b) = (isNF a || isNF b) := by simp [isNF]
@[simp] theorem isNF_mkOpaque (a : Errs) : isNF (mkOpaque a) = false := by
  simp [isNF, mkOpaque]
@[simp] theorem isNF_errAt (s : Span) : isNF (errAt s) = false := by simp [isNF, errAt]
@[simp] theorem isNF_errFuel : isNF errFuel = false := by simp [isNF, errFuel]
@[simp] theorem isNF_errNoPos : isNF errNoPos = false := by simp [isNF, errNoPos]
@[simp] theorem isNF_nfAt (s : Span) : isNF (nfAt s) = true := by simp [isNF, nfAt]
@[simp] theorem isNF_endSplit (ts : List Token) : isNF (endSplit ts) = false := by
  cases ts <;> simp [endSplit]

/-! ### `accounts` -/

/-- token and (claimed) position match -/
def tokOk (u : UTok) (t : Token) : Bool := tokMatches u t && posMatches u t

@[simp] theorem accounts_nil (pos : Bool) : accounts pos [] [] = true := by simp [accounts]

theorem accounts_cons {pos : Bool} {u : UTok} {t : Token} {us : List UTok} {ts : List Token}
    (h : tokOk u t = true) (hr : accounts pos us ts = true) : accounts pos (u :: us) (t :: ts) = true := by
  simp only [tokOk, Bool.and_eq_true] at h
  simp [accounts, h.1, h.2, hr]

theorem accounts_single {pos : Bool} {u : UTok} {t : Token} (h : tokOk u t = true) :
    accounts pos [u] [t] = true := accounts_cons h (accounts_nil pos)

/-- a comma the tree does not record, directly before a token that allows it -/
theorem accounts_optComma {pos : Bool} {u : UTok} {cm t : Token} {us : List UTok} {ts : List Token}
    (ho : u.optComma = true) (hk : u.kind ≠ .comma) (hc : cm.kind = .comma)
    (h : tokOk u t = true) (hr : accounts pos us ts = true) :
    accounts pos (u :: us) (cm :: t :: ts) = true := by
  simp only [tokOk, Bool.and_eq_true] at h
  have hm : tokMatches u cm = false := by
    simp only [tokMatches, Bool.and_eq_false_imp, beq_iff_eq]
    intro hh; rw [hc] at hh; exact absurd hh hk
  simp [accounts, hm, ho, hc, h.1, h.2, hr]

theorem accounts_append {pos : Bool} : ∀ {us1 : List UTok} {ts1 : List Token} {us2 : List UTok} {ts2 : List Token},
    accounts pos us1 ts1 = true → accounts pos us2 ts2 = true →
    accounts pos (us1 ++ us2) (ts1 ++ ts2) = true
  | [], [], _, _, _, h2 => by simpa using h2
  | [], _ :: _, _, _, h1, _ => by simp [accounts] at h1
  | _ :: _, [], _, _, h1, _ => by simp [accounts] at h1
  | u :: us, t :: ts, us2, ts2, h1, h2 => by
    simp only [List.cons_append]
    unfold accounts at h1 ⊢
    split at h1
    · rename_i hm
      rw [if_pos hm]
      exact accounts_append h1 h2
    · rename_i hm
      rw [if_neg hm]
      split at h1
      · rename_i hc
        rw [if_pos hc]
        cases ts with
        | nil => simp at h1
        | cons t2 ts2' =>
          simp only [Bool.and_eq_true] at h1
          simp only [List.cons_append, Bool.and_eq_true]
          exact ⟨h1.1, accounts_append h1.2 h2⟩
      · simp at h1

/-- `accounts` of an empty tree-side list: nothing was consumed -/
theorem accounts_nil_left {pos : Bool} {ts : List Token} (h : accounts pos [] ts = true) : ts = [] := by
  cases ts with
  | nil => rfl
  | cons t ts => simp [accounts] at h

/-! ### single tokens -/

theorem tokOk_sym {t : Token} {k : TokKind} (hk : t.kind = k) (hv : t.value = []) :
    tokOk (sym k t.span) t = true := by
  simp [tokOk, tokMatches, posMatches, sym, Token.span, hk, hv]

theorem tokOk_symOpt {t : Token} {k : TokKind} (hk : t.kind = k) (hv : t.value = []) (b : Bool) :
    tokOk { sym k t.span with optComma := b } t = true := by
  simp [tokOk, tokMatches, posMatches, sym, Token.span, hk, hv]

theorem tokOk_commaTok {t : Token} (hk : t.kind = .comma) (hv : t.value = []) :
    tokOk commaTok t = true := by
  simp [tokOk, tokMatches, posMatches, commaTok, hk, hv]

theorem tokOk_dot {t : Token} (hk : t.kind = .dot) (hv : t.value = []) :
    tokOk { kind := .dot } t = true := by
  simp [tokOk, tokMatches, posMatches, hk, hv]

/-- the identifier the parser builds from an identifier token -/
def identOf (t : Token) : Ident := ⟨t.value, t.span, t.kind = .qident⟩

theorem tokOk_identTok {t : Token} (hk : t.kind = .ident ∨ t.kind = .qident) :
    tokOk (identTok ⟨t.value, t.span, t.kind = .qident⟩) t = true := by
  rcases hk with hk | hk <;>
    simp [tokOk, tokMatches, posMatches, identTok, Token.span, hk]

theorem tokOk_identTok_plain {t : Token} (hk : t.kind = .ident) :
    tokOk (identTok ⟨t.value, t.span, false⟩) t = true := by
  simp [tokOk, tokMatches, posMatches, identTok, Token.span, hk]

theorem tokOk_lit {t : Token} :
    tokOk { kind := t.kind, value := t.value, start := some t.span.start, stop := some t.span.stop } t = true := by
  simp [tokOk, tokMatches, posMatches, Token.span]

theorem isIdentNamed_iff {t : Token} {name : String} :
    isIdentNamed t name = true ↔ t.kind = .ident ∧ t.value = Bytes.ofString name := by
  simp [isIdentNamed]

theorem tokOk_kwTok {t : Token} {names : List String} (hk : t.kind = .ident)
    (hv : t.value ∈ names.map Bytes.ofString) : tokOk (kwTok names t.span) t = true := by
  have hne : (names.map Bytes.ofString).isEmpty = false := by
    cases names with
    | nil => simp at hv
    | cons a as => simp
  simp only [tokOk, tokMatches, posMatches, kwTok, Token.span, hk, hne, Bool.and_eq_true,
    BEq.rfl, true_and, and_true]
  simpa using hv

/-- keyword token without recorded position -/
theorem tokOk_kwPlain {t : Token} {names : List String} (hk : t.kind = .ident)
    (hv : t.value ∈ names.map Bytes.ofString) : tokOk (kwPlain names) t = true := by
  have hne : (names.map Bytes.ofString).isEmpty = false := by
    cases names with
    | nil => simp at hv
    | cons a as => simp
  simp only [tokOk, tokMatches, posMatches, kwPlain, hk, hne, Bool.and_eq_true,
    BEq.rfl, true_and, and_true]
  simpa using hv

theorem tokOk_kwPlain_start {t : Token} {names : List String} (hk : t.kind = .ident)
    (hv : t.value ∈ names.map Bytes.ofString) :
    tokOk { kwPlain names with start := some (t.start : Int) } t = true := by
  have hne : (names.map Bytes.ofString).isEmpty = false := by
    cases names with
    | nil => simp at hv
    | cons a as => simp
  simp only [tokOk, tokMatches, posMatches, kwPlain, hk, hne, Bool.and_eq_true,
    BEq.rfl, true_and, and_true]
  simpa using hv

theorem tokOk_kwPlain_stop {t : Token} {names : List String} (hk : t.kind = .ident)
    (hv : t.value ∈ names.map Bytes.ofString) :
    tokOk { kwPlain names with stop := some (t.stop : Int) } t = true := by
  have hne : (names.map Bytes.ofString).isEmpty = false := by
    cases names with
    | nil => simp at hv
    | cons a as => simp
  simp only [tokOk, tokMatches, posMatches, kwPlain, hk, hne, Bool.and_eq_true,
    BEq.rfl, true_and, and_true]
  simpa using hv

/-- a kind with a binary precedence carries no text -/
theorem prec_kind {k : TokKind} (h : ¬ precOf k < 0) :
    k ≠ .ident ∧ k ≠ .qident ∧ k ≠ .number ∧ k ≠ .string := by
  refine ⟨?_, ?_, ?_, ?_⟩ <;> (intro hk; subst hk; exact h (by decide))

end Pql
