/-
Helper lemmas for `Props/C11Compile.lean`: the identifier nodes in the pre-order of a tree
(`allNodes`, WalkLemmas) and the events they produce.

New specification-level definitions (all in namespace `Pql.Glue`):
* `identOf`     — the `*Ident` behind a node, if the node is a non-nil `*Ident`;
* `isIdentEvent` — the event was recorded for a node whose Go type name is `"Ident"`;
* `identEvent`  — the event the test visitor records for an identifier.
-/
import PqlModel.Lemmas.WalkLemmas
import PqlModel.Model.Compile
namespace Pql.Glue
open Pql

/-- what Go's `n.(*parser.Ident)` type assertion yields in the visitor of `hasJoinTerms`
    (a nil `*Ident` also passes the assertion in Go, and `n.Name` then panics; such nodes do
    not occur below an expression: `Node.children` of a `QualifiedIdent` pushes `some i` only) -/
def identOf : Node → Option Ident
  | .ident (some i) => some i
  | _ => none

/-- the event has Go type name `"Ident"` -/
def isIdentEvent : WalkEvent → Bool
  | .visit ty _ => ty == "Ident"
  | _ => false

/-- what the recording visitor notes for an identifier -/
def identEvent (i : Ident) : WalkEvent := .visit "Ident" i.span

/-! ### `allNodes` unfolding -/

theorem allNodes_of_none {n : Node} (hc : n.children = none) : allNodes n = [n] := by
  rw [allNodes]
  split
  · next kids' h' => rw [hc] at h'; cases h'
  · rfl

theorem allNodesList_append (a b : List Node) :
    allNodesList (a ++ b) = allNodesList a ++ allNodesList b := by
  simp [allNodesList_eq_flatMap]

theorem allNodes_ident (i : Option Ident) : allNodes (.ident i) = [.ident i] := by
  rw [allNodes_eq (kids := []) rfl]; simp

theorem allNodesList_idents (parts : List Ident) :
    allNodesList (parts.map fun i => Node.ident (some i)) = parts.map fun i => Node.ident (some i) := by
  induction parts with
  | nil => simp
  | cons p ps ih => simp [allNodesList_cons, allNodes_ident, ih]

theorem filterMap_identOf_idents (parts : List Ident) :
    (parts.map fun i => Node.ident (some i)).filterMap identOf = parts := by
  induction parts with
  | nil => rfl
  | cons p ps ih => simp [identOf, ih]

/-! ### `NoPanic` is hereditary -/

theorem noPanic_allNodes {n : Node} (h : NoPanic n) : ∀ m ∈ allNodes n, NoPanic m := by
  induction h with
  | mk n kids hc hk ih =>
    intro m hm
    rw [allNodes_eq hc, allNodesList_eq_flatMap] at hm
    rcases List.mem_cons.1 hm with rfl | hm
    · exact .mk _ kids hc hk
    · obtain ⟨k, hk', hmk⟩ := List.mem_flatMap.1 hm
      exact ih k hk' m hmk

theorem complete_allNodes {n : Node} (h : Complete n) : ∀ m ∈ allNodes n, Complete m := by
  induction h with
  | mk n kids hl hc hk ih =>
    intro m hm
    rw [allNodes_eq hc, allNodesList_eq_flatMap] at hm
    rcases List.mem_cons.1 hm with rfl | hm
    · exact .mk _ kids hl hc hk
    · obtain ⟨k, hk', hmk⟩ := List.mem_flatMap.1 hm
      exact ih k hk' m hmk

/-! ### events of identifier nodes: no other node type has the label `"Ident"` -/

theorem eventOf_ident (i : Ident) : eventOf (.ident (some i)) = identEvent i := rfl

/-- A node's event carries the type name `"Ident"` exactly when the node is a non-nil
    `*Ident`, and then the event is `identEvent` of that identifier. -/
theorem isIdentEvent_eventOf (n : Node) :
    isIdentEvent (eventOf n) = (identOf n).isSome := by
  cases n with
  | ident i => cases i <;> rfl
  | expr e => cases e <;> simp [eventOf, Node.label, isIdentEvent, identOf]
  | tabular t => simp [eventOf, Node.label, isIdentEvent, identOf]
  | tableRef t => simp [eventOf, Node.label, isIdentEvent, identOf]
  | op o => cases o <;> simp [eventOf, Node.label, isIdentEvent, identOf]
  | sortTerm t => cases t <;> simp [eventOf, Node.label, isIdentEvent, identOf]
  | column k c => cases k <;> simp [eventOf, Node.label, isIdentEvent, identOf]
  | letStmt kw nm a x => simp [eventOf, Node.label, isIdentEvent, identOf]

theorem eventOf_of_identOf {n : Node} {i : Ident} (h : identOf n = some i) :
    eventOf n = identEvent i := by
  cases n with
  | ident j =>
    cases j with
    | none => simp [identOf] at h
    | some j => simp [identOf] at h; subst h; rfl
  | _ => simp [identOf] at h

/-- For any list of nodes: the `"Ident"` events among the nodes' events are the events of the
    identifier nodes, in order. -/
theorem filter_identEvents (l : List Node) :
    (l.map eventOf).filter isIdentEvent = (l.filterMap identOf).map identEvent := by
  induction l with
  | nil => rfl
  | cons n l ih =>
    have h1 := isIdentEvent_eventOf n
    cases hn : identOf n with
    | none =>
      rw [hn] at h1
      simp only [List.map_cons, List.filter_cons, h1, List.filterMap_cons, hn, ih]
      simp
    | some i =>
      have h2 : isIdentEvent (identEvent i) = true := rfl
      simp only [List.map_cons, List.filter_cons, List.filterMap_cons, hn, ih,
        eventOf_of_identOf hn, h2]
      simp

end Pql.Glue
