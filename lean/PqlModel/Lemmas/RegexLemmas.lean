/-
Facts about the derivative matcher of Spec/Regex.lean and about the concrete regular
expressions of Spec/LexSpec.lean: for every regex of the lexical grammar, the automaton of its
derivatives is computed state by state and `Re.longest` is related to the corresponding byte
loop of the model (Model/Lex.lean).
-/
import PqlModel.Spec.LexSpec
import PqlModel.Lemmas.LexNumber
set_option linter.unusedSimpArgs false
namespace Pql
open Re LexSpec

/-! ### the matcher -/

theorem longestFrom_cons (r : Re) (c : UInt8) (rest : Bytes) (n : Nat) (best : Option Nat) :
    longestFrom r (c :: rest) n best =
      if r.deriv c = empty then (if r.nullable then some n else best)
      else longestFrom (r.deriv c) rest (n + 1) (if r.nullable then some n else best) := rfl

theorem longestFrom_nil (r : Re) (n : Nat) (best : Option Nat) :
    longestFrom r [] n best = if r.nullable then some n else best := rfl

theorem longestFrom_eps (s : Bytes) (n : Nat) (best : Option Nat) :
    longestFrom eps s n best = some n := by
  cases s <;> simp [longestFrom_cons, longestFrom_nil, deriv, nullable]

/-- a regex that is not nullable and whose derivative by the first byte is dead matches nothing -/
theorem longest_none_of_deriv (r : Re) (c : UInt8) (rest : Bytes) (hn : r.nullable = false)
    (hd : r.deriv c = empty) : r.longest (c :: rest) = none := by
  simp [longest, longestFrom_cons, hn, hd]

theorem longest_cons_of_deriv (r : Re) (c : UInt8) (rest : Bytes) (hn : r.nullable = false)
    (d : Re) (hd : r.deriv c = d) (hne : d ≠ empty) :
    r.longest (c :: rest) = longestFrom d rest 1 none := by
  simp [longest, longestFrom_cons, hn, hd, hne]

/-! ### byte classes -/

theorem beq_iff_toNat (c d : UInt8) : (c == d) = decide (c.toNat = d.toNat) := by
  by_cases h : c = d
  · subst h; simp
  · have : c.toNat ≠ d.toNat := fun h' => h (UInt8.toNat_inj.mp h')
    simp [h, this]

theorem rangeEq (a x : Nat) : (decide (a ≤ x) && decide (x ≤ a)) = decide (x = a) := by
  by_cases h : x = a
  · subst h; simp
  · have : ¬ (a ≤ x ∧ x ≤ a) := by omega
    simpa [h] using this

theorem mem_byte (a : Nat) (c : UInt8) :
    ByteClass.mem ⟨[(a, a)], false⟩ c = decide (c.toNat = a) := by
  simp only [ByteClass.mem, List.any_cons, List.any_nil, Bool.or_false, rangeEq]
  cases decide (c.toNat = a) <;> rfl

theorem mem_oneOf2 (a b : Nat) (c : UInt8) :
    ByteClass.mem ⟨[(a, a), (b, b)], false⟩ c = (decide (c.toNat = a) || decide (c.toNat = b)) := by
  simp only [ByteClass.mem, List.any_cons, List.any_nil, Bool.or_false, rangeEq]
  cases decide (c.toNat = a) <;> cases decide (c.toNat = b) <;> rfl

theorem mem_noneOf1 (a : Nat) (c : UInt8) :
    ByteClass.mem ⟨[(a, a)], true⟩ c = !decide (c.toNat = a) := by
  simp only [ByteClass.mem, List.any_cons, List.any_nil, Bool.or_false, rangeEq]
  cases decide (c.toNat = a) <;> rfl

theorem mem_noneOf2 (a b : Nat) (c : UInt8) :
    ByteClass.mem ⟨[(a, a), (b, b)], true⟩ c = !(decide (c.toNat = a) || decide (c.toNat = b)) := by
  simp only [ByteClass.mem, List.any_cons, List.any_nil, Bool.or_false, rangeEq]
  cases decide (c.toNat = a) <;> cases decide (c.toNat = b) <;> rfl

theorem mem_noneOf3 (a b d : Nat) (c : UInt8) :
    ByteClass.mem ⟨[(a, a), (b, b), (d, d)], true⟩ c =
      !(decide (c.toNat = a) || decide (c.toNat = b) || decide (c.toNat = d)) := by
  simp only [ByteClass.mem, List.any_cons, List.any_nil, Bool.or_false, rangeEq]
  cases decide (c.toNat = a) <;> cases decide (c.toNat = b) <;> cases decide (c.toNat = d) <;> rfl

theorem mem_D (c : UInt8) : ByteClass.mem ⟨[(48, 57)], false⟩ c = isDigit c := by
  simp [ByteClass.mem, isDigit_iff]

theorem mem_H (c : UInt8) :
    ByteClass.mem ⟨[(48, 57), (97, 102), (65, 70)], false⟩ c = isHexDigit c := by
  simp [ByteClass.mem, isHexDigit_iff, Bool.or_assoc]

theorem isIdentStart_iff (c : UInt8) :
    isIdentStart c = ((decide (97 ≤ c.toNat) && decide (c.toNat ≤ 122)) ||
      (decide (65 ≤ c.toNat) && decide (c.toNat ≤ 90)) || decide (c.toNat = 95) ||
      decide (c.toNat = 36)) := by
  simp [isIdentStart, isAlpha, inRanges, Facts.isAlphaRanges, beq_iff_toNat]

theorem isIdentCont_iff (c : UInt8) :
    isIdentCont c = ((decide (97 ≤ c.toNat) && decide (c.toNat ≤ 122)) ||
      (decide (65 ≤ c.toNat) && decide (c.toNat ≤ 90)) ||
      (decide (48 ≤ c.toNat) && decide (c.toNat ≤ 57)) || decide (c.toNat = 95)) := by
  simp [isIdentCont, isAlpha, isDigit, inRanges, Facts.isAlphaRanges, Facts.isDigitRanges,
    beq_iff_toNat]

theorem mem_identStart (c : UInt8) :
    ByteClass.mem ⟨[(97, 122), (65, 90), (95, 95), (36, 36)], false⟩ c = isIdentStart c := by
  rw [isIdentStart_iff]
  simp only [ByteClass.mem, List.any_cons, List.any_nil, Bool.or_false, rangeEq]
  simp [Bool.or_assoc]

theorem mem_identCont (c : UInt8) :
    ByteClass.mem ⟨[(97, 122), (65, 90), (48, 57), (95, 95)], false⟩ c = isIdentCont c := by
  rw [isIdentCont_iff]
  simp only [ByteClass.mem, List.any_cons, List.any_nil, Bool.or_false, rangeEq]
  simp [Bool.or_assoc]


/-! ### identifiers -/

theorem longestFrom_star_identCont (s : Bytes) (n : Nat) (best : Option Nat) :
    longestFrom (star identCont) s n best = some (n + identLoop s) := by
  induction s generalizing n best with
  | nil => simp [longestFrom_nil, nullable, identLoop]
  | cons c rest ih =>
    rw [longestFrom_cons]
    by_cases h : isIdentCont c = true
    · have hd : (star identCont).deriv c = star identCont := by
        simp [identCont, ranges, deriv, mem_identCont, h, mkSeq]
      rw [hd, ih]
      simp [identLoop, h]; omega
    · have hd : (star identCont).deriv c = empty := by
        simp [identCont, ranges, deriv, mem_identCont, h, mkSeq]
      simp [hd, nullable, identLoop, h]

theorem reIdent_longest (c : UInt8) (rest : Bytes) :
    reIdent.longest (c :: rest) = if isIdentStart c then some (identLoop rest + 1) else none := by
  by_cases h : isIdentStart c = true
  · have hd : reIdent.deriv c = star identCont := by
      simp [reIdent, identStart, identCont, ranges, deriv, nullable, mem_identStart, h, mkSeq]
    rw [longest_cons_of_deriv reIdent c rest (by decide) _ hd (by simp), longestFrom_star_identCont]
    simp [h, Nat.add_comm]
  · have hd : reIdent.deriv c = empty := by
      simp [reIdent, identStart, identCont, ranges, deriv, nullable, mem_identStart, h, mkSeq]
    rw [longest_none_of_deriv reIdent c rest (by decide) hd]
    simp [h]


/-! ### comments -/

def commentTail : Re := seq (star (noneOf [10])) (opt (byte 10))

theorem longestFrom_commentTail (s : Bytes) (n : Nat) (best : Option Nat) :
    longestFrom commentTail s n best = some (n + commentLen s) := by
  induction s generalizing n best with
  | nil => simp [longestFrom_nil, commentTail, opt, nullable, commentLen]
  | cons c rest ih =>
    rw [longestFrom_cons]
    by_cases h : c.toNat = 10
    · have hd : commentTail.deriv c = eps := by
        simp [commentTail, noneOf, opt, byte, deriv, nullable, mem_noneOf1, mem_byte, h, mkSeq, mkAlt]
      have hc : (c == 10) = true := by simp [beq_iff_toNat, h]
      simp [hd, longestFrom_eps, commentLen, hc]
    · have hd : commentTail.deriv c = commentTail := by
        simp [commentTail, noneOf, opt, byte, deriv, nullable, mem_noneOf1, mem_byte, h, mkSeq, mkAlt]
      have hc : (c == 10) = false := by simp [beq_iff_toNat, h]
      rw [hd, ih]
      simp [commentTail, commentLen, hc]; omega

theorem reComment_longest_none (c : UInt8) (rest : Bytes) (h : c.toNat ≠ 47) :
    reComment.longest (c :: rest) = none := by
  apply longest_none_of_deriv _ _ _ (by decide)
  simp [reComment, seqs, byte, deriv, nullable, mem_byte, h, mkSeq]

theorem reComment_longest_slash (c : UInt8) (rest : Bytes) (h : c.toNat = 47) :
    reComment.longest (c :: rest) =
      match rest with
      | [] => none
      | d :: r => if d.toNat = 47 then some (commentLen r + 2) else none := by
  have hd : reComment.deriv c = seq (byte 47) commentTail := by
    simp [reComment, seqs, byte, deriv, nullable, mem_byte, h, mkSeq, commentTail]
  rw [longest_cons_of_deriv reComment c rest (by decide) _ hd (by simp)]
  cases rest with
  | nil => simp [longestFrom_nil, nullable, byte]
  | cons d r =>
    rw [longestFrom_cons]
    by_cases h2 : d.toNat = 47
    · have hd2 : (seq (byte 47) commentTail).deriv d = commentTail := by
        simp [byte, deriv, nullable, mem_byte, h2, mkSeq, commentTail, noneOf, opt]
      rw [hd2, longestFrom_commentTail]
      simp [commentTail, h2]; omega
    · have hd2 : (seq (byte 47) commentTail).deriv d = empty := by
        simp [byte, deriv, nullable, mem_byte, h2, mkSeq, commentTail, noneOf, opt]
      rw [hd2]
      simp [nullable, byte, h2]


/-! ### hexadecimal literals -/

theorem longestFrom_star_H (s : Bytes) (n : Nat) (best : Option Nat) :
    longestFrom (star H) s n best = some (n + hexDigitsLen s) := by
  induction s generalizing n best with
  | nil => simp [longestFrom_nil, nullable, hexDigitsLen]
  | cons c rest ih =>
    rw [longestFrom_cons]
    by_cases h : isHexDigit c = true
    · have hd : (star H).deriv c = star H := by
        simp [H, ranges, deriv, mem_H, h, mkSeq]
      rw [hd, ih]
      simp [hexDigitsLen, h]; omega
    · have hd : (star H).deriv c = empty := by
        simp [H, ranges, deriv, mem_H, h, mkSeq]
      simp [hd, nullable, hexDigitsLen, h]

theorem longestFrom_plus_H (s : Bytes) (n : Nat) :
    longestFrom (plus H) s n none =
      if hexDigitsLen s = 0 then none else some (n + hexDigitsLen s) := by
  cases s with
  | nil => simp [longestFrom_nil, nullable, hexDigitsLen, plus, H, ranges]
  | cons c rest =>
    rw [longestFrom_cons]
    by_cases h : isHexDigit c = true
    · have hd : (plus H).deriv c = star H := by
        simp [plus, H, ranges, deriv, nullable, mem_H, h, mkSeq]
      rw [hd, longestFrom_star_H]
      simp [hexDigitsLen, h]; omega
    · have hd : (plus H).deriv c = empty := by
        simp [plus, H, ranges, deriv, nullable, mem_H, h, mkSeq]
      rw [hd]
      simp [nullable, hexDigitsLen, h, plus, H, ranges]

theorem reHex_none_of_first (c : UInt8) (rest : Bytes) (h : c.toNat ≠ 48) :
    reHex.longest (c :: rest) = none := by
  apply longest_none_of_deriv _ _ _ (by decide)
  simp [reHex, seqs, byte, deriv, nullable, mem_byte, h, mkSeq]

theorem reHexPrefix_none_of_first (c : UInt8) (rest : Bytes) (h : c.toNat ≠ 48) :
    reHexPrefix.longest (c :: rest) = none := by
  apply longest_none_of_deriv _ _ _ (by decide)
  simp [reHexPrefix, byte, deriv, nullable, mem_byte, h, mkSeq]

theorem reHex_zero (c : UInt8) (rest : Bytes) (h : c.toNat = 48) :
    reHex.longest (c :: rest) =
      match rest with
      | [] => none
      | x :: r =>
        if x.toNat = 120 ∨ x.toNat = 88 then
          (if hexDigitsLen r = 0 then none else some (hexDigitsLen r + 2))
        else none := by
  have hd : reHex.deriv c = seq (oneOf [120, 88]) (plus H) := by
    simp [reHex, seqs, byte, deriv, nullable, mem_byte, h, mkSeq, oneOf, plus, H, ranges]
  rw [longest_cons_of_deriv reHex c rest (by decide) _ hd (by simp)]
  cases rest with
  | nil => simp [longestFrom_nil, nullable, oneOf]
  | cons x r =>
    rw [longestFrom_cons]
    by_cases h2 : x.toNat = 120 ∨ x.toNat = 88
    · have hd2 : (seq (oneOf [120, 88]) (plus H)).deriv x = plus H := by
        simp [oneOf, deriv, nullable, mem_oneOf2, h2, mkSeq, plus, H, ranges]
      rw [hd2]
      have : (seq (oneOf [120, 88]) (plus H)).nullable = false := by decide
      rw [this]
      simp only [Bool.false_eq_true, if_false]
      rw [longestFrom_plus_H]
      have hne : plus H ≠ empty := by simp [plus]
      simp [h2, Nat.add_comm, hne]
    · have hd2 : (seq (oneOf [120, 88]) (plus H)).deriv x = empty := by
        simp [oneOf, deriv, nullable, mem_oneOf2, h2, mkSeq, plus, H, ranges]
      rw [hd2]
      simp [nullable, oneOf, h2]

theorem reHexPrefix_zero (c : UInt8) (rest : Bytes) (h : c.toNat = 48) :
    reHexPrefix.longest (c :: rest) =
      match rest with
      | [] => none
      | x :: _ => if x.toNat = 120 ∨ x.toNat = 88 then some 2 else none := by
  have hd : reHexPrefix.deriv c = oneOf [120, 88] := by
    simp [reHexPrefix, byte, deriv, nullable, mem_byte, h, mkSeq, oneOf]
  rw [longest_cons_of_deriv reHexPrefix c rest (by decide) _ hd (by simp [oneOf])]
  cases rest with
  | nil => simp [longestFrom_nil, nullable, oneOf]
  | cons x r =>
    rw [longestFrom_cons]
    by_cases h2 : x.toNat = 120 ∨ x.toNat = 88
    · have hd2 : (oneOf [120, 88]).deriv x = eps := by
        simp [oneOf, deriv, mem_oneOf2, h2]
      rw [hd2, longestFrom_eps]
      simp [h2]
    · have hd2 : (oneOf [120, 88]).deriv x = empty := by
        simp [oneOf, deriv, mem_oneOf2, h2]
      rw [hd2]
      simp [nullable, oneOf, h2]

/-! ### decimal literals -/

def dX : Re := opt reExp
def dF : Re := opt (seq (byte 46) (star D))
def dS1 : Re := seq (star D) (seq dF dX)
def dS2 : Re := seq (plus D) dX
def dS3 : Re := seq (star D) dX
def dS4 : Re := seq (opt (oneOf [43, 45])) (plus D)

theorem longestFrom_star_D (s : Bytes) (n : Nat) (best : Option Nat) :
    longestFrom (star D) s n best = some (n + digitsLen s) := by
  induction s generalizing n best with
  | nil => simp [longestFrom_nil, nullable, digitsLen]
  | cons c rest ih =>
    rw [longestFrom_cons]
    by_cases h : isDigit c = true
    · have hd : (star D).deriv c = star D := by
        simp [D, range, deriv, mem_D, h, mkSeq]
      rw [hd, ih]
      simp [digitsLen, h]; omega
    · have hd : (star D).deriv c = empty := by
        simp [D, range, deriv, mem_D, h, mkSeq]
      simp [hd, nullable, digitsLen, h]

theorem longestFrom_plus_D (s : Bytes) (n : Nat) (best : Option Nat) :
    longestFrom (plus D) s n best =
      match s with
      | [] => best
      | d :: r => if isDigit d then some (n + 1 + digitsLen r) else best := by
  cases s with
  | nil => simp [longestFrom_nil, nullable, plus, D, range]
  | cons c rest =>
    rw [longestFrom_cons]
    by_cases h : isDigit c = true
    · have hd : (plus D).deriv c = star D := by
        simp [plus, D, range, deriv, nullable, mem_D, h, mkSeq]
      rw [hd, longestFrom_star_D]
      simp [h]
    · have hd : (plus D).deriv c = empty := by
        simp [plus, D, range, deriv, nullable, mem_D, h, mkSeq]
      rw [hd]
      simp [nullable, h, plus, D, range]

theorem isDigit_not_sign (c : UInt8) (h : c.toNat = 43 ∨ c.toNat = 45) : isDigit c = false := by
  rw [isDigit_iff]; rcases h with h | h <;> simp [h]

theorem isDigit_not_e (c : UInt8) (h : c.toNat = 101 ∨ c.toNat = 69) : isDigit c = false := by
  rw [isDigit_iff]; rcases h with h | h <;> simp [h]

theorem isDigit_not_dot (c : UInt8) (h : c.toNat = 46) : isDigit c = false := by
  rw [isDigit_iff]; simp [h]

/-- after `e`/`E` (at offset `n`, the state before it being nullable) the exponent automaton
    finds exactly what `exponentLen` measures -/
theorem longestFrom_dS4 (e : UInt8) (he : e.toNat = 101 ∨ e.toNat = 69) (s : Bytes) (n : Nat) :
    longestFrom dS4 s (n + 1) (some n) = some (n + exponentLen (e :: s)) := by
  have hee : (e == 101 || e == 69) = true := by
    simp only [beq_iff_toNat]; rcases he with h | h <;> simp [h]
  have hnull : dS4.nullable = false := by decide
  cases s with
  | nil => simp [longestFrom_nil, hnull, exponentLen]
  | cons c rest =>
    rw [longestFrom_cons, hnull]
    simp only [Bool.false_eq_true, if_false]
    by_cases hs : c.toNat = 43 ∨ c.toNat = 45
    · have hd : dS4.deriv c = plus D := by
        simp [dS4, opt, oneOf, plus, D, range, deriv, nullable, mem_oneOf2, mem_D, hs,
          isDigit_not_sign c hs, mkSeq, mkAlt]
      have hne : plus D ≠ empty := by simp [plus]
      have hcs : (c == 43 || c == 45) = true := by
        simp only [beq_iff_toNat]; rcases hs with h | h <;> simp [h]
      rw [hd, if_neg hne, longestFrom_plus_D]
      cases rest with
      | nil => simp [exponentLen, hee, hcs]
      | cons d r =>
        by_cases hdg : isDigit d = true
        · simp [exponentLen, hee, hcs, hdg]; omega
        · simp [exponentLen, hee, hcs, hdg]
    · have hcs : (c == 43 || c == 45) = false := by
        simp only [beq_iff_toNat]; simpa using hs
      by_cases hdg : isDigit c = true
      · have hd : dS4.deriv c = star D := by
          simp [dS4, opt, oneOf, plus, D, range, deriv, nullable, mem_oneOf2, mem_D, hs, hdg, mkSeq,
            mkAlt]
        rw [hd, longestFrom_star_D]
        simp [exponentLen, hee, hcs, hdg]; omega
      · have hd : dS4.deriv c = empty := by
          simp [dS4, opt, oneOf, plus, D, range, deriv, nullable, mem_oneOf2, mem_D, hs, hdg, mkSeq,
            mkAlt]
        rw [hd]
        simp [exponentLen, hee, hcs, hdg]


theorem exponentLen_of_not_e (c : UInt8) (rest : Bytes) (h : ¬ (c.toNat = 101 ∨ c.toNat = 69)) :
    exponentLen (c :: rest) = 0 := by
  have hee : (c == 101 || c == 69) = false := by
    simp only [beq_iff_toNat]; simpa using h
  cases rest <;> simp [exponentLen, hee]

theorem dS3_deriv_digit (c : UInt8) (h : isDigit c = true) : dS3.deriv c = dS3 := by
  have h1 : ¬ (c.toNat = 101 ∨ c.toNat = 69) := by
    intro h'; rw [isDigit_not_e c h'] at h; cases h
  simp [dS3, dX, opt, reExp, seqs, oneOf, plus, D, range, deriv, nullable, mem_oneOf2, mem_D, h, h1,
    mkSeq, mkAlt]

theorem dS3_deriv_e (c : UInt8) (h : c.toNat = 101 ∨ c.toNat = 69) : dS3.deriv c = dS4 := by
  simp [dS3, dS4, dX, opt, reExp, seqs, oneOf, plus, D, range, deriv, nullable, mem_oneOf2, mem_D, h,
    isDigit_not_e c h, mkSeq, mkAlt]

theorem dS3_deriv_other (c : UInt8) (h : isDigit c = false) (h1 : ¬ (c.toNat = 101 ∨ c.toNat = 69)) :
    dS3.deriv c = empty := by
  simp [dS3, dX, opt, reExp, seqs, oneOf, plus, D, range, deriv, nullable, mem_oneOf2, mem_D, h, h1,
    mkSeq, mkAlt]

theorem dS4_ne_empty : dS4 ≠ empty := by simp [dS4]
theorem dS3_ne_empty : dS3 ≠ empty := by simp [dS3]
theorem dS3_nullable : dS3.nullable = true := by decide

theorem longestFrom_dS3 (s : Bytes) (n : Nat) (best : Option Nat) :
    longestFrom dS3 s n best =
      some (n + digitsLen s + exponentLen (s.drop (digitsLen s))) := by
  induction s generalizing n best with
  | nil => simp [longestFrom_nil, dS3_nullable, digitsLen, exponentLen]
  | cons c rest ih =>
    rw [longestFrom_cons, dS3_nullable]
    simp only [if_true]
    by_cases hdg : isDigit c = true
    · rw [dS3_deriv_digit c hdg, if_neg dS3_ne_empty, ih]
      simp [digitsLen, hdg]; omega
    · have hdg' : isDigit c = false := by simpa using hdg
      by_cases he : c.toNat = 101 ∨ c.toNat = 69
      · rw [dS3_deriv_e c he, if_neg dS4_ne_empty, longestFrom_dS4 c he]
        simp [digitsLen, hdg']
      · rw [dS3_deriv_other c hdg' he]
        simp [digitsLen, hdg', exponentLen_of_not_e c rest he]

theorem dS1_nullable : dS1.nullable = true := by decide
theorem dS1_ne_empty : dS1 ≠ empty := by simp [dS1]

theorem dS1_deriv_digit (c : UInt8) (h : isDigit c = true) : dS1.deriv c = dS1 := by
  have h1 : ¬ (c.toNat = 101 ∨ c.toNat = 69) := by
    intro h'; rw [isDigit_not_e c h'] at h; cases h
  have h2 : ¬ c.toNat = 46 := by
    intro h'; rw [isDigit_not_dot c h'] at h; cases h
  simp [dS1, dF, dX, opt, reExp, seqs, oneOf, byte, plus, D, range, deriv, nullable, mem_oneOf2,
    mem_byte, mem_D, h, h1, h2, mkSeq, mkAlt]

theorem dS1_deriv_dot (c : UInt8) (h : c.toNat = 46) : dS1.deriv c = dS3 := by
  have h1 : ¬ (c.toNat = 101 ∨ c.toNat = 69) := by omega
  simp [dS1, dS3, dF, dX, opt, reExp, seqs, oneOf, byte, plus, D, range, deriv, nullable, mem_oneOf2,
    mem_byte, mem_D, h, h1, isDigit_not_dot c h, mkSeq, mkAlt]

theorem dS1_deriv_e (c : UInt8) (h : c.toNat = 101 ∨ c.toNat = 69) : dS1.deriv c = dS4 := by
  have h2 : ¬ c.toNat = 46 := by omega
  simp [dS1, dS4, dF, dX, opt, reExp, seqs, oneOf, byte, plus, D, range, deriv, nullable, mem_oneOf2,
    mem_byte, mem_D, h, h2, isDigit_not_e c h, mkSeq, mkAlt]

theorem dS1_deriv_other (c : UInt8) (h : isDigit c = false) (h1 : ¬ (c.toNat = 101 ∨ c.toNat = 69))
    (h2 : ¬ c.toNat = 46) : dS1.deriv c = empty := by
  simp [dS1, dF, dX, opt, reExp, seqs, oneOf, byte, plus, D, range, deriv, nullable, mem_oneOf2,
    mem_byte, mem_D, h, h1, h2, mkSeq, mkAlt]

theorem longestFrom_dS1 (s : Bytes) (n : Nat) (best : Option Nat) :
    longestFrom dS1 s n best =
      some (n + mantissaLoop false s + exponentLen (s.drop (mantissaLoop false s))) := by
  induction s generalizing n best with
  | nil => simp [longestFrom_nil, dS1_nullable, mantissaLoop, exponentLen]
  | cons c rest ih =>
    rw [longestFrom_cons, dS1_nullable]
    simp only [if_true]
    by_cases hdot : c.toNat = 46
    · have hc : (c == 46) = true := by simp [beq_iff_toNat, hdot]
      rw [dS1_deriv_dot c hdot, if_neg dS3_ne_empty, longestFrom_dS3]
      simp [mantissaLoop, hc, mantissaLoop_true]; omega
    · have hc : (c == 46) = false := by simp [beq_iff_toNat, hdot]
      by_cases hdg : isDigit c = true
      · rw [dS1_deriv_digit c hdg, if_neg dS1_ne_empty, ih]
        simp [mantissaLoop, hc, hdg]; omega
      · have hdg' : isDigit c = false := by simpa using hdg
        by_cases he : c.toNat = 101 ∨ c.toNat = 69
        · rw [dS1_deriv_e c he, if_neg dS4_ne_empty, longestFrom_dS4 c he]
          simp [mantissaLoop, hc, hdg']
        · rw [dS1_deriv_other c hdg' he hdot]
          simp [mantissaLoop, hc, hdg', exponentLen_of_not_e c rest he]

theorem reDecimal_digit (c : UInt8) (rest : Bytes) (h : isDigit c = true) :
    reDecimal.longest (c :: rest) =
      some (1 + mantissaLoop false rest + exponentLen (rest.drop (mantissaLoop false rest))) := by
  have h2 : ¬ c.toNat = 46 := by
    intro h'; rw [isDigit_not_dot c h'] at h; cases h
  have hd : reDecimal.deriv c = dS1 := by
    simp [reDecimal, dS1, dF, dX, opt, seqs, byte, plus, D, range, deriv, nullable,
      mem_byte, mem_D, h, h2, mkSeq, mkAlt]
  rw [longest_cons_of_deriv reDecimal c rest (by decide) _ hd dS1_ne_empty, longestFrom_dS1]

theorem reDecimal_dot (c : UInt8) (rest : Bytes) (h : c.toNat = 46) :
    reDecimal.longest (c :: rest) =
      match rest with
      | [] => none
      | d :: r =>
        if isDigit d then some (2 + digitsLen r + exponentLen (r.drop (digitsLen r))) else none := by
  have hd : reDecimal.deriv c = dS2 := by
    simp [reDecimal, dS2, dX, opt, seqs, byte, plus, D, range, deriv, nullable,
      mem_byte, mem_D, h, isDigit_not_dot c h, mkSeq, mkAlt]
  have hne : dS2 ≠ empty := by simp [dS2]
  have hnull : dS2.nullable = false := by decide
  rw [longest_cons_of_deriv reDecimal c rest (by decide) _ hd hne]
  cases rest with
  | nil => simp [longestFrom_nil, hnull]
  | cons d r =>
    rw [longestFrom_cons, hnull]
    simp only [Bool.false_eq_true, if_false]
    by_cases hdg : isDigit d = true
    · have hd2 : dS2.deriv d = dS3 := by
        simp [dS2, dS3, dX, opt, plus, D, range, deriv, nullable, mem_D, hdg, mkSeq, mkAlt]
      rw [hd2, if_neg dS3_ne_empty, longestFrom_dS3]
      simp [hdg]
    · have hd2 : dS2.deriv d = empty := by
        simp [dS2, dX, opt, plus, D, range, deriv, nullable, mem_D, hdg, mkSeq, mkAlt]
      rw [hd2]
      simp [hdg]

theorem reDecimal_none (c : UInt8) (rest : Bytes) (h : isDigit c = false) (h2 : ¬ c.toNat = 46) :
    reDecimal.longest (c :: rest) = none := by
  apply longest_none_of_deriv _ _ _ (by decide)
  simp [reDecimal, opt, seqs, byte, plus, D, range, deriv, nullable, mem_byte, mem_D, h, h2, mkSeq,
    mkAlt]

/-! ### strings -/

def sC1 (q : Nat) : Re := seq (reStringBody q) (byte q)
def sC2 (q : Nat) : Re := seq (seq (noneOf [10]) (reStringBody q)) (byte q)
def sO1 (q : Nat) : Re := seq (reStringBody q) (opt (byte 92))
def sO2 (q : Nat) : Re := seq (seq (noneOf [10]) (reStringBody q)) (opt (byte 92))
def sO3 (q : Nat) : Re := alt (sO2 q) eps

theorem sC1_deriv_normal (q : Nat) (hq : q = 39 ∨ q = 34) (d : UInt8) (h1 : d.toNat ≠ q)
    (h2 : d.toNat ≠ 92) (h3 : d.toNat ≠ 10) : (sC1 q).deriv d = sC1 q := by
  rcases hq with rfl | rfl <;>
  simp [sC1, reStringBody, noneOf, byte, deriv, nullable, mem_noneOf3, mem_noneOf1, mem_byte, h1, h2,
    h3, mkSeq, mkAlt]

theorem sC1_deriv_bs (q : Nat) (hq : q = 39 ∨ q = 34) (d : UInt8) (h2 : d.toNat = 92) :
    (sC1 q).deriv d = sC2 q := by
  rcases hq with rfl | rfl <;>
  simp [sC1, sC2, reStringBody, noneOf, byte, deriv, nullable, mem_noneOf3, mem_noneOf1, mem_byte,
    h2, mkSeq, mkAlt]

theorem sC1_deriv_q (q : Nat) (hq : q = 39 ∨ q = 34) (d : UInt8) (h1 : d.toNat = q) :
    (sC1 q).deriv d = eps := by
  rcases hq with rfl | rfl <;>
  simp [sC1, reStringBody, noneOf, byte, deriv, nullable, mem_noneOf3, mem_noneOf1, mem_byte, h1,
    mkSeq, mkAlt]

theorem sC1_deriv_nl (q : Nat) (hq : q = 39 ∨ q = 34) (d : UInt8) (h1 : d.toNat = 10) :
    (sC1 q).deriv d = empty := by
  rcases hq with rfl | rfl <;>
  simp [sC1, reStringBody, noneOf, byte, deriv, nullable, mem_noneOf3, mem_noneOf1, mem_byte, h1,
    mkSeq, mkAlt]

theorem sC2_deriv (q : Nat) (hq : q = 39 ∨ q = 34) (d : UInt8) :
    (sC2 q).deriv d = if d.toNat = 10 then empty else sC1 q := by
  by_cases h : d.toNat = 10
  · rcases hq with rfl | rfl <;>
    simp [sC1, sC2, reStringBody, noneOf, byte, deriv, nullable, mem_noneOf3, mem_noneOf1, mem_byte, h,
      mkSeq, mkAlt]
  · rcases hq with rfl | rfl <;>
    simp [sC1, sC2, reStringBody, noneOf, byte, deriv, nullable, mem_noneOf3, mem_noneOf1, mem_byte, h,
      mkSeq, mkAlt]

theorem sO1_deriv_normal (q : Nat) (hq : q = 39 ∨ q = 34) (d : UInt8) (h1 : d.toNat ≠ q)
    (h2 : d.toNat ≠ 92) (h3 : d.toNat ≠ 10) : (sO1 q).deriv d = sO1 q := by
  rcases hq with rfl | rfl <;>
  simp [sO1, reStringBody, noneOf, byte, opt, deriv, nullable, mem_noneOf3, mem_noneOf1, mem_byte, h1,
    h2, h3, mkSeq, mkAlt]

theorem sO1_deriv_bs (q : Nat) (hq : q = 39 ∨ q = 34) (d : UInt8) (h2 : d.toNat = 92) :
    (sO1 q).deriv d = sO3 q := by
  rcases hq with rfl | rfl <;>
  simp [sO1, sO2, sO3, reStringBody, noneOf, byte, opt, deriv, nullable, mem_noneOf3, mem_noneOf1,
    mem_byte, h2, mkSeq, mkAlt]

theorem sO1_deriv_q (q : Nat) (hq : q = 39 ∨ q = 34) (d : UInt8) (h1 : d.toNat = q) :
    (sO1 q).deriv d = empty := by
  rcases hq with rfl | rfl <;>
  simp [sO1, reStringBody, noneOf, byte, opt, deriv, nullable, mem_noneOf3, mem_noneOf1, mem_byte, h1,
    mkSeq, mkAlt]

theorem sO1_deriv_nl (q : Nat) (hq : q = 39 ∨ q = 34) (d : UInt8) (h1 : d.toNat = 10) :
    (sO1 q).deriv d = empty := by
  rcases hq with rfl | rfl <;>
  simp [sO1, reStringBody, noneOf, byte, opt, deriv, nullable, mem_noneOf3, mem_noneOf1, mem_byte, h1,
    mkSeq, mkAlt]

theorem sO3_deriv (q : Nat) (hq : q = 39 ∨ q = 34) (d : UInt8) :
    (sO3 q).deriv d = if d.toNat = 10 then empty else sO1 q := by
  by_cases h : d.toNat = 10
  · rcases hq with rfl | rfl <;>
    simp [sO1, sO2, sO3, reStringBody, noneOf, byte, opt, deriv, nullable, mem_noneOf3, mem_noneOf1,
      mem_byte, h, mkSeq, mkAlt]
  · rcases hq with rfl | rfl <;>
    simp [sO1, sO2, sO3, reStringBody, noneOf, byte, opt, deriv, nullable, mem_noneOf3, mem_noneOf1,
      mem_byte, h, mkSeq, mkAlt]


theorem sC1_nullable (q : Nat) : (sC1 q).nullable = false := by simp [sC1, nullable, byte]
theorem sC2_nullable (q : Nat) : (sC2 q).nullable = false := by simp [sC2, nullable, byte]
theorem sO1_nullable (q : Nat) : (sO1 q).nullable = true := by
  simp [sO1, nullable, opt, reStringBody]
theorem sO3_nullable (q : Nat) : (sO3 q).nullable = true := by simp [sO3, nullable]
theorem sC1_ne (q : Nat) : sC1 q ≠ empty := by simp [sC1]
theorem sC2_ne (q : Nat) : sC2 q ≠ empty := by simp [sC2]
theorem sO1_ne (q : Nat) : sO1 q ≠ empty := by simp [sO1]
theorem sO3_ne (q : Nat) : sO3 q ≠ empty := by simp [sO3]

def QRes.closedWidth : QRes → Option Nat
  | .closed _ w => some w
  | .bad _ => none

@[simp] theorem QRes.closedWidth_shift (k : Nat) (c : Option UInt8) (r : QRes) :
    (r.shift k c).closedWidth = r.closedWidth.map (· + k) := by
  cases r <;> simp [QRes.shift, QRes.closedWidth]

theorem longestFrom_sC1 (qb : UInt8) (hq : qb.toNat = 39 ∨ qb.toNat = 34) (s : Bytes) (n : Nat)
    (best : Option Nat) :
    longestFrom (sC1 qb.toNat) s n best =
      match (stringLoop qb s).closedWidth with
      | some w => some (n + w)
      | none => best := by
  fun_induction stringLoop qb s generalizing n best with
  | case1 => simp [longestFrom_nil, sC1_nullable, QRes.closedWidth]
  | case2 c rest h =>
    have hc : c.toNat = qb.toNat := by simpa [beq_iff_toNat] using h
    rw [longestFrom_cons, sC1_deriv_q _ hq c hc]
    simp [longestFrom_eps, QRes.closedWidth]
  | case3 c rest h1 h2 =>
    have hc : c.toNat = 10 := by simpa [beq_iff_toNat] using h2
    rw [longestFrom_cons, sC1_deriv_nl _ hq c hc]
    simp [sC1_nullable, QRes.closedWidth]
  | case4 c h1 h2 h3 =>
    have hc : c.toNat = 92 := by simpa [beq_iff_toNat] using h3
    rw [longestFrom_cons, sC1_deriv_bs _ hq c hc, if_neg (sC2_ne _)]
    simp [longestFrom_nil, sC1_nullable, sC2_nullable, QRes.closedWidth]
  | case5 c h1 h2 h3 e rest' h4 =>
    have hc : c.toNat = 92 := by simpa [beq_iff_toNat] using h3
    have he : e.toNat = 10 := by simpa [beq_iff_toNat] using h4
    rw [longestFrom_cons, sC1_deriv_bs _ hq c hc, if_neg (sC2_ne _), longestFrom_cons,
      sC2_deriv _ hq]
    simp [he, sC1_nullable, sC2_nullable, QRes.closedWidth]
  | case6 c h1 h2 h3 e rest' h4 v ih =>
    have hc : c.toNat = 92 := by simpa [beq_iff_toNat] using h3
    have he : e.toNat ≠ 10 := by simpa [beq_iff_toNat] using h4
    rw [longestFrom_cons, sC1_deriv_bs _ hq c hc, if_neg (sC2_ne _), longestFrom_cons,
      sC2_deriv _ hq, if_neg he, if_neg (sC1_ne _), ih]
    simp only [sC1_nullable, sC2_nullable, QRes.closedWidth_shift]
    cases (stringLoop qb rest').closedWidth <;> simp <;> omega
  | case7 c rest h1 h2 h3 ih =>
    have hc1 : c.toNat ≠ qb.toNat := by simpa [beq_iff_toNat] using h1
    have hc2 : c.toNat ≠ 10 := by simpa [beq_iff_toNat] using h2
    have hc3 : c.toNat ≠ 92 := by simpa [beq_iff_toNat] using h3
    rw [longestFrom_cons, sC1_deriv_normal _ hq c hc1 hc3 hc2, if_neg (sC1_ne _), ih]
    simp only [sC1_nullable, QRes.closedWidth_shift]
    cases (stringLoop qb rest).closedWidth <;> simp <;> omega


def QRes.badWidth : QRes → Option Nat
  | .closed _ _ => none
  | .bad w => some w

@[simp] theorem QRes.badWidth_shift (k : Nat) (c : Option UInt8) (r : QRes) :
    (r.shift k c).badWidth = r.badWidth.map (· + k) := by
  cases r <;> simp [QRes.shift, QRes.badWidth]

theorem longestFrom_sO1 (qb : UInt8) (hq : qb.toNat = 39 ∨ qb.toNat = 34) (s : Bytes) (n : Nat)
    (best : Option Nat) (w : Nat) (hw : (stringLoop qb s).badWidth = some w) :
    longestFrom (sO1 qb.toNat) s n best = some (n + w) := by
  fun_induction stringLoop qb s generalizing n best w with
  | case1 =>
    simp [QRes.badWidth] at hw; subst hw
    simp [longestFrom_nil, sO1_nullable]
  | case2 c rest h => simp [QRes.badWidth] at hw
  | case3 c rest h1 h2 =>
    have hc : c.toNat = 10 := by simpa [beq_iff_toNat] using h2
    simp [QRes.badWidth] at hw; subst hw
    rw [longestFrom_cons, sO1_deriv_nl _ hq c hc]
    simp [sO1_nullable]
  | case4 c h1 h2 h3 =>
    have hc : c.toNat = 92 := by simpa [beq_iff_toNat] using h3
    simp [QRes.badWidth] at hw; subst hw
    rw [longestFrom_cons, sO1_deriv_bs _ hq c hc, if_neg (sO3_ne _)]
    simp [longestFrom_nil, sO3_nullable]
  | case5 c h1 h2 h3 e rest' h4 =>
    have hc : c.toNat = 92 := by simpa [beq_iff_toNat] using h3
    have he : e.toNat = 10 := by simpa [beq_iff_toNat] using h4
    simp [QRes.badWidth] at hw; subst hw
    rw [longestFrom_cons, sO1_deriv_bs _ hq c hc, if_neg (sO3_ne _), longestFrom_cons,
      sO3_deriv _ hq]
    simp [he, sO3_nullable]
  | case6 c h1 h2 h3 e rest' h4 v ih =>
    have hc : c.toNat = 92 := by simpa [beq_iff_toNat] using h3
    have he : e.toNat ≠ 10 := by simpa [beq_iff_toNat] using h4
    simp only [QRes.badWidth_shift, Option.map_eq_some_iff] at hw
    obtain ⟨w', hw', rfl⟩ := hw
    rw [longestFrom_cons, sO1_deriv_bs _ hq c hc, if_neg (sO3_ne _), longestFrom_cons,
      sO3_deriv _ hq, if_neg he, if_neg (sO1_ne _), ih _ _ _ hw']
    simp; omega
  | case7 c rest h1 h2 h3 ih =>
    have hc1 : c.toNat ≠ qb.toNat := by simpa [beq_iff_toNat] using h1
    have hc2 : c.toNat ≠ 10 := by simpa [beq_iff_toNat] using h2
    have hc3 : c.toNat ≠ 92 := by simpa [beq_iff_toNat] using h3
    simp only [QRes.badWidth_shift, Option.map_eq_some_iff] at hw
    obtain ⟨w', hw', rfl⟩ := hw
    rw [longestFrom_cons, sO1_deriv_normal _ hq c hc1 hc3 hc2, if_neg (sO1_ne _), ih _ _ _ hw']
    simp; omega

theorem unescape_cons_ne (c : UInt8) (rest : Bytes) (h : c ≠ 92) :
    unescape (c :: rest) = c :: unescape rest := by
  rw [unescape.eq_def]
  split
  · rename_i heq
    simp at heq
    exact absurd heq.1 h
  · rename_i heq
    simp at heq
    obtain ⟨rfl, rfl⟩ := heq
    rfl
  · rename_i heq; simp at heq

theorem unescape_bs (e : UInt8) (rest : Bytes) :
    unescape (92 :: e :: rest) = (if e == 110 then 10 else if e == 116 then 9 else e) :: unescape rest := by
  rw [unescape]

theorem undouble_cons_ne (c : UInt8) (rest : Bytes) (h : c ≠ 96) :
    undouble (c :: rest) = c :: undouble rest := by
  rw [undouble.eq_def]
  split
  · rename_i heq
    simp at heq
    exact absurd heq.1 h
  · rename_i heq
    simp at heq
    obtain ⟨rfl, rfl⟩ := heq
    rfl
  · rename_i heq; simp at heq

theorem undouble_qq (rest : Bytes) : undouble (96 :: 96 :: rest) = 96 :: undouble rest := by
  rw [undouble]

/-- the value of a closed string is the unescaped body -/
theorem stringLoop_value (qb : UInt8) (s : Bytes) (v : Bytes)
    (w : Nat) (h : stringLoop qb s = .closed v w) : 1 ≤ w ∧ unescape (s.take (w - 1)) = v := by
  fun_induction stringLoop qb s generalizing v w with
  | case1 => cases h
  | case2 c rest hc => cases h; simp [unescape]
  | case3 => cases h
  | case4 => cases h
  | case5 => cases h
  | case6 c h1 h2 h3 e rest' h4 ev ih =>
    cases hr : stringLoop qb rest' with
    | bad w' => rw [hr] at h; simp [QRes.shift] at h
    | closed v' w' =>
      rw [hr] at h
      simp only [QRes.shift, QRes.closed.injEq] at h
      obtain ⟨hv, hw⟩ := h
      obtain ⟨h1w, ihv⟩ := ih v' w' hr
      subst hv hw
      have hc : c = 92 := by simpa using h3
      subst hc
      refine ⟨by omega, ?_⟩
      have : w' + 2 - 1 = (w' - 1) + 2 := by omega
      rw [this]
      simp [unescape_bs, ihv, ev]
  | case7 c rest h1 h2 h3 ih =>
    cases hr : stringLoop qb rest with
    | bad w' => rw [hr] at h; simp [QRes.shift] at h
    | closed v' w' =>
      rw [hr] at h
      simp only [QRes.shift, QRes.closed.injEq] at h
      obtain ⟨hv, hw⟩ := h
      obtain ⟨h1w, ihv⟩ := ih v' w' hr
      subst hv hw
      refine ⟨by omega, ?_⟩
      have : w' + 1 - 1 = (w' - 1) + 1 := by omega
      rw [this]
      have hc3 : c ≠ 92 := by simpa using h3
      simp only [List.take_succ_cons]
      rw [unescape_cons_ne c _ hc3, ihv]


theorem reStringClosed_longest (qb : UInt8) (hq : qb.toNat = 39 ∨ qb.toNat = 34) (rest : Bytes) :
    (reStringClosed qb.toNat).longest (qb :: rest) =
      (stringLoop qb rest).closedWidth.map (· + 1) := by
  have hd : (reStringClosed qb.toNat).deriv qb = sC1 qb.toNat := by
    rcases hq with h | h <;>
    simp [reStringClosed, sC1, seqs, byte, deriv, nullable, mem_byte, h, mkSeq]
  have hn : (reStringClosed qb.toNat).nullable = false := by
    simp [reStringClosed, seqs, byte, nullable]
  rw [longest_cons_of_deriv _ qb rest hn _ hd (sC1_ne _), longestFrom_sC1 qb hq]
  cases (stringLoop qb rest).closedWidth <;> simp [Nat.add_comm]

theorem reStringOpen_longest (qb : UInt8) (hq : qb.toNat = 39 ∨ qb.toNat = 34) (rest : Bytes)
    (w : Nat) (hw : (stringLoop qb rest).badWidth = some w) :
    (reStringOpen qb.toNat).longest (qb :: rest) = some (w + 1) := by
  have hd : (reStringOpen qb.toNat).deriv qb = sO1 qb.toNat := by
    rcases hq with h | h <;>
    simp [reStringOpen, sO1, seqs, byte, deriv, nullable, mem_byte, h, mkSeq]
  have hn : (reStringOpen qb.toNat).nullable = false := by
    simp [reStringOpen, seqs, byte, nullable]
  rw [longest_cons_of_deriv _ qb rest hn _ hd (sO1_ne _), longestFrom_sO1 qb hq _ _ _ w hw]
  simp [Nat.add_comm]

/-! ### quoted names -/

def qS0 : Re := seq reQidentBody (byte 96)
def qS1 : Re := alt (seq (seq (byte 96) reQidentBody) (byte 96)) eps
def qT : Re := seq (byte 96) reQidentBody

theorem qS0_deriv_normal (d : UInt8) (h1 : d.toNat ≠ 96) (h2 : d.toNat ≠ 10) : qS0.deriv d = qS0 := by
  simp [qS0, reQidentBody, noneOf, byte, deriv, nullable, mem_noneOf2, mem_byte, h1, h2, mkSeq, mkAlt]

theorem qS0_deriv_q (d : UInt8) (h1 : d.toNat = 96) : qS0.deriv d = qS1 := by
  simp [qS0, qS1, reQidentBody, noneOf, byte, deriv, nullable, mem_noneOf2, mem_byte, h1, mkSeq, mkAlt]

theorem qS0_deriv_nl (d : UInt8) (h1 : d.toNat = 10) : qS0.deriv d = empty := by
  simp [qS0, reQidentBody, noneOf, byte, deriv, nullable, mem_noneOf2, mem_byte, h1, mkSeq, mkAlt]

theorem qS1_deriv (d : UInt8) : qS1.deriv d = if d.toNat = 96 then qS0 else empty := by
  by_cases h : d.toNat = 96 <;>
  simp [qS0, qS1, reQidentBody, noneOf, byte, deriv, nullable, mem_noneOf2, mem_byte, h, mkSeq, mkAlt]

theorem qB_deriv_normal (d : UInt8) (h1 : d.toNat ≠ 96) (h2 : d.toNat ≠ 10) :
    reQidentBody.deriv d = reQidentBody := by
  simp [reQidentBody, noneOf, byte, deriv, nullable, mem_noneOf2, mem_byte, h1, h2, mkSeq, mkAlt]

theorem qB_deriv_q (d : UInt8) (h1 : d.toNat = 96) : reQidentBody.deriv d = qT := by
  simp [qT, reQidentBody, noneOf, byte, deriv, nullable, mem_noneOf2, mem_byte, h1, mkSeq, mkAlt]

theorem qB_deriv_nl (d : UInt8) (h1 : d.toNat = 10) : reQidentBody.deriv d = empty := by
  simp [reQidentBody, noneOf, byte, deriv, nullable, mem_noneOf2, mem_byte, h1, mkSeq, mkAlt]

theorem qT_deriv (d : UInt8) : qT.deriv d = if d.toNat = 96 then reQidentBody else empty := by
  by_cases h : d.toNat = 96 <;>
  simp [qT, reQidentBody, noneOf, byte, deriv, nullable, mem_noneOf2, mem_byte, h, mkSeq, mkAlt]

theorem qS0_nullable : qS0.nullable = false := by decide
theorem qS1_nullable : qS1.nullable = true := by decide
theorem qB_nullable : reQidentBody.nullable = true := by decide
theorem qT_nullable : qT.nullable = false := by decide
theorem qS0_ne : qS0 ≠ empty := by simp [qS0]
theorem qS1_ne : qS1 ≠ empty := by simp [qS1]
theorem qB_ne : reQidentBody ≠ empty := by simp [reQidentBody]
theorem qT_ne : qT ≠ empty := by simp [qT]


/-- closed quoted name: the closed regex finds exactly the model's width, the byte after it is
    not a back-quote, and the value is the un-doubled body -/
theorem qidentLoop_closed (s : Bytes) (v : Bytes) (w : Nat) (h : qidentLoop s = .closed v w) :
    (∀ n best, longestFrom qS0 s n best = some (n + w)) ∧
    (s.drop w).head? ≠ some 96 ∧ 1 ≤ w ∧ undouble (s.take (w - 1)) = v := by
  fun_induction qidentLoop s generalizing v w with
  | case1 => cases h
  | case2 c hc =>
    have hc' : c.toNat = 96 := by simpa [beq_iff_toNat] using hc
    cases h
    refine ⟨?_, by simp, by omega, by simp [undouble]⟩
    intro n best
    rw [longestFrom_cons, qS0_deriv_q c hc', if_neg qS1_ne]
    simp [longestFrom_nil, qS1_nullable]
  | case3 c hc d rest' hd ih =>
    have hc' : c.toNat = 96 := by simpa [beq_iff_toNat] using hc
    have hd' : d.toNat = 96 := by simpa [beq_iff_toNat] using hd
    cases hr : qidentLoop rest' with
    | bad w' => rw [hr] at h; simp [QRes.shift] at h
    | closed v' w' =>
      rw [hr] at h
      simp only [QRes.shift, QRes.closed.injEq] at h
      obtain ⟨hv, hw⟩ := h
      obtain ⟨ih1, ih2, ih3, ih4⟩ := ih v' w' hr
      subst hv hw
      have hc2 : c = 96 := by simpa using hc
      have hd2 : d = 96 := by simpa using hd
      subst hc2 hd2
      refine ⟨?_, by simpa using ih2, by omega, ?_⟩
      · intro n best
        rw [longestFrom_cons, qS0_deriv_q _ hc', if_neg qS1_ne, longestFrom_cons, qS1_deriv,
          if_pos hd', if_neg qS0_ne, ih1]
        simp; omega
      · have : w' + 2 - 1 = (w' - 1) + 2 := by omega
        rw [this]
        simp [undouble_qq, ih4]
  | case4 c hc d rest' hd =>
    have hc' : c.toNat = 96 := by simpa [beq_iff_toNat] using hc
    have hd' : d.toNat ≠ 96 := by simpa [beq_iff_toNat] using hd
    have hd2 : d ≠ 96 := by simpa using hd
    cases h
    refine ⟨?_, by simpa using hd2, by omega, by simp [undouble]⟩
    intro n best
    rw [longestFrom_cons, qS0_deriv_q c hc', if_neg qS1_ne, longestFrom_cons, qS1_deriv, if_neg hd']
    simp [qS1_nullable]
  | case5 c rest hc hn => cases h
  | case6 c rest hc hn ih =>
    have hc' : c.toNat ≠ 96 := by simpa [beq_iff_toNat] using hc
    have hn' : c.toNat ≠ 10 := by simpa [beq_iff_toNat] using hn
    have hc2 : c ≠ 96 := by simpa using hc
    cases hr : qidentLoop rest with
    | bad w' => rw [hr] at h; simp [QRes.shift] at h
    | closed v' w' =>
      rw [hr] at h
      simp only [QRes.shift, QRes.closed.injEq] at h
      obtain ⟨hv, hw⟩ := h
      obtain ⟨ih1, ih2, ih3, ih4⟩ := ih v' w' hr
      subst hv hw
      refine ⟨?_, by simpa using ih2, by omega, ?_⟩
      · intro n best
        rw [longestFrom_cons, qS0_deriv_normal c hc' hn', if_neg qS0_ne, ih1]
        simp; omega
      · have : w' + 1 - 1 = (w' - 1) + 1 := by omega
        rw [this]
        simp only [List.take_succ_cons]
        rw [undouble_cons_ne c _ hc2, ih4]


/-- unterminated quoted name: whatever the closed regex finds is directly followed by a
    back-quote, and the open regex finds exactly the model's width -/
theorem qidentLoop_bad (s : Bytes) (w : Nat) (h : qidentLoop s = .bad w) :
    (∀ n best, longestFrom qS0 s n best = best ∨
      ∃ k, longestFrom qS0 s n best = some (n + k) ∧ (s.drop k).head? = some 96) ∧
    (∀ n best, longestFrom reQidentBody s n best = some (n + w)) := by
  fun_induction qidentLoop s generalizing w with
  | case1 =>
    cases h
    exact ⟨fun n best => Or.inl (by simp [longestFrom_nil, qS0_nullable]),
      fun n best => by simp [longestFrom_nil, qB_nullable]⟩
  | case2 c hc => cases h
  | case3 c hc d rest' hd ih =>
    have hc' : c.toNat = 96 := by simpa [beq_iff_toNat] using hc
    have hd' : d.toNat = 96 := by simpa [beq_iff_toNat] using hd
    have hd2 : d = 96 := by simpa using hd
    cases hr : qidentLoop rest' with
    | closed v' w' => rw [hr] at h; simp [QRes.shift] at h
    | bad w' =>
      rw [hr] at h
      simp only [QRes.shift, QRes.bad.injEq] at h
      subst h
      obtain ⟨ih1, ih2⟩ := ih w' hr
      refine ⟨?_, ?_⟩
      · intro n best
        rw [longestFrom_cons, qS0_deriv_q c hc', if_neg qS1_ne, longestFrom_cons, qS1_deriv,
          if_pos hd', if_neg qS0_ne]
        simp only [qS0_nullable, qS1_nullable, Bool.false_eq_true, if_false, if_true]
        rcases ih1 (n + 1 + 1) (some (n + 1)) with h1 | ⟨k, h1, h2⟩
        · exact Or.inr ⟨1, by rw [h1], by simp [hd2]⟩
        · exact Or.inr ⟨k + 2, by rw [h1]; congr 1; omega, by simpa using h2⟩
      · intro n best
        rw [longestFrom_cons, qB_deriv_q c hc', if_neg qT_ne, longestFrom_cons, qT_deriv,
          if_pos hd', if_neg qB_ne, ih2]
        simp; omega
  | case4 c hc d rest' hd => cases h
  | case5 c rest hc hn =>
    have hn' : c.toNat = 10 := by simpa [beq_iff_toNat] using hn
    cases h
    refine ⟨fun n best => Or.inl ?_, fun n best => ?_⟩
    · rw [longestFrom_cons, qS0_deriv_nl c hn']; simp [qS0_nullable]
    · rw [longestFrom_cons, qB_deriv_nl c hn']; simp [qB_nullable]
  | case6 c rest hc hn ih =>
    have hc' : c.toNat ≠ 96 := by simpa [beq_iff_toNat] using hc
    have hn' : c.toNat ≠ 10 := by simpa [beq_iff_toNat] using hn
    cases hr : qidentLoop rest with
    | closed v' w' => rw [hr] at h; simp [QRes.shift] at h
    | bad w' =>
      rw [hr] at h
      simp only [QRes.shift, QRes.bad.injEq] at h
      subst h
      obtain ⟨ih1, ih2⟩ := ih w' hr
      refine ⟨?_, ?_⟩
      · intro n best
        rw [longestFrom_cons, qS0_deriv_normal c hc' hn', if_neg qS0_ne]
        simp only [qS0_nullable, Bool.false_eq_true, if_false]
        rcases ih1 (n + 1) best with h1 | ⟨k, h1, h2⟩
        · exact Or.inl h1
        · exact Or.inr ⟨k + 1, by rw [h1]; congr 1; omega, by simpa using h2⟩
      · intro n best
        rw [longestFrom_cons, qB_deriv_normal c hc' hn', if_neg qB_ne, ih2]
        simp; omega

theorem reQidentClosed_deriv (c : UInt8) (h : c.toNat = 96) : reQidentClosed.deriv c = qS0 := by
  simp [reQidentClosed, qS0, seqs, byte, deriv, nullable, mem_byte, h, mkSeq]

theorem reQidentOpen_deriv (c : UInt8) (h : c.toNat = 96) : reQidentOpen.deriv c = reQidentBody := by
  simp [reQidentOpen, byte, deriv, nullable, mem_byte, h, mkSeq, reQidentBody]

theorem reQidentClosed_longest (c : UInt8) (h : c.toNat = 96) (rest : Bytes) :
    reQidentClosed.longest (c :: rest) = longestFrom qS0 rest 1 none :=
  longest_cons_of_deriv _ c rest (by decide) _ (reQidentClosed_deriv c h) qS0_ne

theorem reQidentOpen_longest (c : UInt8) (h : c.toNat = 96) (rest : Bytes) :
    reQidentOpen.longest (c :: rest) = longestFrom reQidentBody rest 1 none :=
  longest_cons_of_deriv _ c rest (by decide) _ (reQidentOpen_deriv c h) qB_ne

end Pql
