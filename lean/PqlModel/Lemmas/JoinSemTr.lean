/-
C03 semantics, helper 2: the intended translation `tr` never produces the operator `!=`,
hence `Rel.evalP` is the evaluator applied to `tr` itself.
-/
import PqlModel.Lemmas.JoinSemNorm
namespace Pql.JoinSem
open Pql Sql CompileOracle

theorem noBang_fnCall (name : String) (args : List SExpr) (h : ∀ a ∈ args, noBang a = true) :
    noBang (fnCall name args) = true := by
  simp only [fnCall, noBang, Bool.and_true]
  induction args with
  | nil => simp [noBangL]
  | cons a rest ih =>
    simp only [List.foldr, noBangL, Bool.and_eq_true]
    exact ⟨h a (by simp), ih (fun b hb => h b (by simp [hb]))⟩

theorem noBang_coalesceFalse (x : SExpr) (h : noBang x = true) : noBang (coalesceFalse x) = true := by
  apply noBang_fnCall
  intro a ha
  simp at ha
  rcases ha with rfl | rfl
  · exact h
  · simp [noBang]

theorem noBang_of_mem_toList : (l : SExprList) → noBangL l = true → ∀ a ∈ l.toList, noBang a = true
  | .nil, _, a, ha => by simp [SExprList.toList] at ha
  | .cons e es, h, a, ha => by
    simp only [noBangL, Bool.and_eq_true] at h
    simp only [SExprList.toList, List.mem_cons] at ha
    rcases ha with rfl | ha
    · exact h.1
    · exact noBang_of_mem_toList es h.2 a ha

theorem noBang_foldl_concat (rest : List SExpr) (a : SExpr) (ha : noBang a = true)
    (hr : ∀ b ∈ rest, noBang b = true) :
    noBang (rest.foldl (fun acc b => SExpr.bin "||" acc b) a) = true := by
  induction rest generalizing a with
  | nil => simpa using ha
  | cons b rest ih =>
    simp only [List.foldl]
    apply ih
    · simp only [noBang, Bool.and_eq_true]
      exact ⟨⟨by decide, ha⟩, hr b (by simp)⟩
    · intro c hc; exact hr c (by simp [hc])

mutual
theorem tr_noBang (j : Bool) : (e : Expr) → (s : SExpr) → tr j e = some s → noBang s = true
  | .nil, s, h => by simp [tr] at h
  | .paren _ x _, s, h => by
    simp only [tr] at h
    exact tr_noBang j x s h
  | .qident parts, s, h => by
    simp only [tr] at h
    split at h
    · split at h
      · cases h; rfl
      · split at h
        · cases h; rfl
        · split at h
          · cases h; rfl
          · cases h; rfl
    · cases h; rfl
  | .lit _ k v, s, h => by
    simp only [tr] at h
    split at h
    · cases h; rfl
    · split at h
      · cases h; rfl
      · cases h
  | .unary _ op x, s, h => by
    simp only [tr, bind, Option.bind] at h
    cases hx : tr j x with
    | none => simp [hx] at h
    | some a =>
      have ha := tr_noBang j x a hx
      simp only [hx] at h
      split at h
      · cases h; simpa [noBang] using ha
      · split at h
        · cases h; simpa [noBang] using ha
        · cases h
  | .binary x _ op y, s, h => by
    simp only [tr, bind, Option.bind] at h
    cases hx : tr j x with
    | none => simp [hx] at h
    | some a =>
      cases hy : tr j y with
      | none => simp [hx, hy] at h
      | some b =>
        have ha := tr_noBang j x a hx
        have hb := tr_noBang j y b hy
        simp only [hx, hy] at h
        have hbin : ∀ o : String, o ≠ "!=" → noBang (.bin o a b) = true := by
          intro o ho; simp [noBang, ho, ha, hb]
        have hlow : ∀ z, noBang z = true → noBang (fnCall "lower" [z]) = true := by
          intro z hz; apply noBang_fnCall; intro w hw; simp at hw; subst hw; exact hz
        split at h
        · split at h
          · cases h; exact hbin _ (by decide)
          · cases h; exact noBang_coalesceFalse _ (hbin _ (by decide))
        · split at h
          · cases h; exact noBang_coalesceFalse _ (hbin _ (by decide))
          · split at h
            · cases h; simp only [noBang, Bool.and_eq_true]
              exact ⟨⟨by decide, hlow a ha⟩, hlow b hb⟩
            · split at h
              · cases h; simp only [noBang, Bool.and_eq_true]
                exact ⟨⟨by decide, hlow a ha⟩, hlow b hb⟩
              · split at h
                · rename_i o ho
                  cases h
                  apply hbin
                  cases op <;> simp [plainOp] at ho <;> subst ho <;> decide
                · cases h
  | .inE x _ _ vals _, s, h => by
    simp only [tr, bind, Option.bind] at h
    cases hx : tr j x with
    | none => simp [hx] at h
    | some a =>
      cases hv : trList j vals with
      | none => simp [hx, hv] at h
      | some vs =>
        simp only [hx, hv, pure, Option.some.injEq] at h
        subst h
        simp [noBang, tr_noBang j x a hx, trList_noBang j vals vs hv]
  | .index x _ idx _, s, h => by
    simp only [tr, bind, Option.bind] at h
    cases hx : tr j x with
    | none => simp [hx] at h
    | some a =>
      cases hv : tr j idx with
      | none => simp [hx, hv] at h
      | some vs =>
        simp only [hx, hv, pure, Option.some.injEq] at h
        subst h
        simp [noBang, tr_noBang j x a hx, tr_noBang j idx vs hv]
  | .call fn _ args _, s, h => by
    simp only [tr, bind, Option.bind] at h
    cases hv : trList j args with
    | none => simp [hv] at h
    | some as =>
      have hall := trList_noBang j args as hv
      have hmem := noBang_of_mem_toList as hall
      simp only [hv] at h
      repeat' split at h
      all_goals (try cases h)
      all_goals (try (simp_all [noBang]; done))
      all_goals first
        | (apply noBang_fnCall; intro w hw; apply hmem; simp_all; done)
        | (simp only [noBang, Bool.and_eq_true]
           exact ⟨⟨noBang_coalesceFalse _ (hmem _ (by simp_all)), hmem _ (by simp_all)⟩, hmem _ (by simp_all)⟩)
        | (apply noBang_foldl_concat
           · apply hmem; simp_all
           · intro b hb; apply hmem; simp_all)
        | (simp only [noBang, noBangL, Bool.true_and]; apply hmem; simp_all; done)
theorem trList_noBang (j : Bool) : (l : ExprList) → (s : SExprList) → trList j l = some s → noBangL s = true
  | .nil, s, h => by simp [trList] at h; subst h; rfl
  | .cons e es, s, h => by
    simp only [trList, bind, Option.bind] at h
    cases hx : tr j e with
    | none => simp [hx] at h
    | some a =>
      cases hv : trList j es with
      | none => simp [hx, hv] at h
      | some vs =>
        simp only [hx, hv, pure, Option.some.injEq] at h
        subst h
        simp [noBangL, tr_noBang j e a hx, trList_noBang j es vs hv]
end

/-- `Rel.evalP` is the evaluator applied to the intended translation itself -/
theorem evalP_eq_evalS (j : Bool) (e : Expr) (s : SExpr) (h : tr j e = some s) (g : List Env) (env : Env) :
    Rel.evalP j g env e = evalS g env s := by
  simp only [Rel.evalP, h]
  exact evalS_normS s (tr_noBang j e s h) g env

end Pql.JoinSem
