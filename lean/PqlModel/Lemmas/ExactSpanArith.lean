/-
C13 exactness, spans (part 1): arithmetic of `unionSpans` with an upper bound — a union of
spans that are each invalid or end at most at `N` is invalid or ends at most at `N`, and it is
valid as soon as one member is.
-/
import PqlModel.Props.C10
import PqlModel.Model.Parse
namespace Pql.Exact
open Pql

/-- bounded if valid -/
def SpB (N : Nat) (sp : Span) : Prop := sp.isValid = true → sp.stop ≤ (N : Int)

theorem SpB.null (N : Nat) : SpB N Span.null := by
  intro h; exact absurd h (by decide)

theorem SpB.zero (N : Nat) : SpB N Span.zero := by
  intro _; show (0 : Int) ≤ N; omega

/-- a token's position: in order and inside the source -/
def TB (N : Nat) (t : Token) : Prop := t.start ≤ t.stop ∧ t.stop ≤ N

def TBs (N : Nat) (ts : List Token) : Prop := ∀ t ∈ ts, TB N t

theorem TB.valid {N : Nat} {t : Token} (h : TB N t) : t.span.isValid = true := by
  rw [C10.isValid_iff]
  unfold Token.span
  simp only
  have := h.1
  omega

theorem TB.spB {N : Nat} {t : Token} (h : TB N t) : SpB N t.span := by
  intro _
  unfold Token.span
  simp only
  have := h.2
  omega

theorem TBs.nil (N : Nat) : TBs N [] := by intro t ht; cases ht

theorem TBs.head {N : Nat} {t : Token} {ts : List Token} (h : TBs N (t :: ts)) : TB N t :=
  h t (List.mem_cons_self ..)

theorem TBs.tail {N : Nat} {t : Token} {ts : List Token} (h : TBs N (t :: ts)) : TBs N ts :=
  fun x hx => h x (List.mem_cons_of_mem _ hx)

theorem TBs.of_append_left {N : Nat} {a b : List Token} (h : TBs N (a ++ b)) : TBs N a :=
  fun x hx => h x (List.mem_append_left _ hx)

theorem TBs.of_append_right {N : Nat} {a b : List Token} (h : TBs N (a ++ b)) : TBs N b :=
  fun x hx => h x (List.mem_append_right _ hx)

theorem SpB.union {N : Nat} {u s : Span} (hu : SpB N u) (hs : SpB N s) : SpB N (Span.union u s) := by
  unfold Span.union
  cases hsv : s.isValid
  · simpa using hu
  · cases huv : u.isValid
    · simpa using hs
    · simp only [Bool.not_true, Bool.false_eq_true, if_false, if_true]
      intro _
      have h1 := hu huv
      have h2 := hs hsv
      simp only
      omega

theorem SpB.foldl {N : Nat} : ∀ (ss : List Span) (u : Span), SpB N u → (∀ s ∈ ss, SpB N s) →
    SpB N (ss.foldl Span.union u)
  | [], u, hu, _ => hu
  | s :: ss, u, hu, h => by
    rw [List.foldl_cons]
    exact SpB.foldl ss _ (hu.union (h s (List.mem_cons_self ..)))
      (fun x hx => h x (List.mem_cons_of_mem _ hx))

theorem SpB.unions {N : Nat} (ss : List Span) (h : ∀ s ∈ ss, SpB N s) : SpB N (Span.unions ss) :=
  SpB.foldl ss _ (SpB.null N) h

theorem SpB.sliceSpan {N : Nat} (ss : List Span) (h : ∀ s ∈ ss, SpB N s) : SpB N (sliceSpan ss) :=
  SpB.unions _ (fun s hs => h s (List.mem_filter.1 hs).1)

theorem foldl_valid_of_mem : ∀ (ss : List Span) (u : Span) (s : Span), s ∈ ss → s.isValid = true →
    (ss.foldl Span.union u).isValid = true
  | a :: ss, u, s, hmem, hs => by
    rw [List.foldl_cons]
    rcases List.mem_cons.1 hmem with rfl | hin
    · exact (C10.foldl_union_contains_acc ss _ (C10.union_valid_of_right hs)).2
    · exact foldl_valid_of_mem ss _ s hin hs

theorem unions_valid_of_mem {ss : List Span} {s : Span} (hmem : s ∈ ss) (hs : s.isValid = true) :
    (Span.unions ss).isValid = true := foldl_valid_of_mem ss _ s hmem hs

theorem sliceSpan_valid_of_mem {ss : List Span} {s : Span} (hmem : s ∈ ss) (hs : s.isValid = true) :
    (sliceSpan ss).isValid = true :=
  unions_valid_of_mem (List.mem_filter.2 ⟨hmem, hs⟩) hs

end Pql.Exact
