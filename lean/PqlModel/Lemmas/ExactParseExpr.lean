/-
C13 exactness, the hypothesis discharged for parsed trees (part 1, expressions): every
expression the parser builds — with or without errors — uses only binary operators the
compiler translates (`opsKnown`).
-/
import PqlModel.Lemmas.ExactExpr
import PqlModel.Lemmas.ParseGood
namespace Pql.Exact
open Pql

/-- an operator token with a precedence, other than `in`, is one the compiler translates -/
theorem knownBinOp_of_prec (k : TokKind) (hp : ¬ precOf k < 0) (hin : k ≠ .in_) :
    knownBinOp k = true := by
  cases k <;> first
    | rfl
    | exact absurd rfl hin
    | exact absurd (by decide) hp

theorem opsKnownList_snoc : ∀ (acc : ExprList) (x : Expr),
    opsKnownList (acc.snoc x) = (opsKnownList acc && opsKnown x)
  | .nil, x => by simp [ExprList.snoc, opsKnownList]
  | .cons e es, x => by simp [ExprList.snoc, opsKnownList, opsKnownList_snoc es x, Bool.and_assoc]

theorem opsKnownList_snocNonNil {acc : ExprList} (ha : opsKnownList acc = true) :
    ∀ v : Expr, opsKnown v = true → opsKnownList (match v with | .nil => acc | x => acc.snoc x) = true := by
  intro v hv
  cases v <;> simp only [opsKnownList_snoc, ha, hv, Bool.and_self]

structure XInv (c : PCtx) (fuel : Nat) : Prop where
  expr : ∀ ts, opsKnown (pExpr c fuel ts).val = true
  trail : ∀ x mp acc ts, opsKnown x = true → opsKnown (pTrail c fuel x mp acc ts).val = true
  higher : ∀ y p1 acc ts, opsKnown y = true → opsKnown (pHigher c fuel y p1 acc ts).val = true
  unary : ∀ ts, opsKnown (pUnary c fuel ts).val = true
  primary : ∀ ts, opsKnown (pPrimary c fuel ts).val = true
  inner : ∀ ts, opsKnown (pInner c fuel ts).val = true
  list : ∀ ts, opsKnownList (pExprList c fuel ts).val = true
  listTail : ∀ acc ts, opsKnownList acc = true → opsKnownList (pExprListTail c fuel acc ts).val = true

theorem xInv_zero (c : PCtx) : XInv c 0 where
  expr := by simp [pExpr, opsKnown]
  trail := by simp [pTrail]
  higher := by simp [pHigher]
  unary := by simp [pUnary, opsKnown]
  primary := by simp [pPrimary, opsKnown]
  inner := by simp [pInner, opsKnown]
  list := by simp [pExprList, opsKnownList]
  listTail := by simp [pExprListTail]

theorem xInv_expr {c : PCtx} {fuel : Nat} (ih : XInv c fuel) (ts : List Token) :
    opsKnown (pExpr c (fuel + 1) ts).val = true := by
  simp only [pExpr]
  split
  · exact ih.unary _
  · exact ih.trail _ _ _ _ (ih.unary _)

theorem xInv_unary {c : PCtx} {fuel : Nat} (ih : XInv c fuel) (ts : List Token) :
    opsKnown (pUnary c (fuel + 1) ts).val = true := by
  simp only [pUnary]
  split
  · rfl
  · split
    · simp only [opsKnown]; exact ih.primary _
    · exact ih.primary _

theorem xInv_primary {c : PCtx} {fuel : Nat} (ih : XInv c fuel) (ts : List Token) :
    opsKnown (pPrimary c (fuel + 1) ts).val = true := by
  simp only [pPrimary]
  have hi := ih.inner ts
  split
  · exact hi
  · split
    · exact hi
    · split
      · split
        · simp only [opsKnown, hi, ih.expr, Bool.and_self]
        · split <;> simp only [opsKnown, hi, ih.expr, Bool.and_self]
      · exact hi

theorem xInv_inner {c : PCtx} {fuel : Nat} (ih : XInv c fuel) (ts : List Token) :
    opsKnown (pInner c (fuel + 1) ts).val = true := by
  simp only [pInner]
  split
  · rfl
  · split
    · rfl
    · split
      · split
        · rfl
        · split
          · rfl
          · split
            · rfl
            · split
              · rfl
              · split
                · rfl
                · split
                  · simp only [opsKnown]; exact ih.list _
                  · split <;> (simp only [opsKnown]; exact ih.list _)
      · split
        · split <;> rfl
        · split
          · split
            · simp only [opsKnown]; exact ih.expr _
            · split <;> (simp only [opsKnown]; exact ih.expr _)
          · rfl

theorem xInv_list {c : PCtx} {fuel : Nat} (ih : XInv c fuel) (ts : List Token) :
    opsKnownList (pExprList c (fuel + 1) ts).val = true := by
  simp only [pExprList]
  split
  · rfl
  · exact ih.listTail _ _ (by simp only [opsKnownList, ih.expr, Bool.and_self])

theorem xInv_listTail {c : PCtx} {fuel : Nat} (ih : XInv c fuel) (acc : ExprList) (ts : List Token)
    (ha : opsKnownList acc = true) : opsKnownList (pExprListTail c (fuel + 1) acc ts).val = true := by
  simp only [pExprListTail]
  split
  · exact ha
  · next t rest =>
    split
    · exact ha
    · split
      · exact ha
      · have hacc := opsKnownList_snocNonNil ha _ (ih.expr rest)
        split
        · exact hacc
        · exact ih.listTail _ _ hacc

theorem xInv_higher {c : PCtx} {fuel : Nat} (ih : XInv c fuel) (y : Expr) (p1 : Int) (acc : Errs)
    (ts : List Token) (hy : opsKnown y = true) : opsKnown (pHigher c (fuel + 1) y p1 acc ts).val = true := by
  simp only [pHigher]
  split
  · exact hy
  · split
    · exact hy
    · exact ih.higher _ _ _ _ (ih.trail _ _ _ _ hy)

theorem xInv_trail {c : PCtx} {fuel : Nat} (ih : XInv c fuel) (x : Expr) (mp : Int) (acc : Errs)
    (ts : List Token) (hx : opsKnown x = true) : opsKnown (pTrail c (fuel + 1) x mp acc ts).val = true := by
  simp only [pTrail]
  split
  · exact hx
  · next op1 rest =>
    split
    · exact hx
    · next hprec =>
      split
      · split
        · simp only [opsKnown, hx, opsKnownList, Bool.and_self]
        · split
          · simp only [opsKnown, hx, opsKnownList, Bool.and_self]
          · split
            · simp only [opsKnown, hx, ih.list, Bool.and_self]
            · split
              · simp only [opsKnown, hx, ih.list, Bool.and_self]
              · exact ih.trail _ _ _ _ (by simp only [opsKnown, hx, ih.list, Bool.and_self])
      · next hin =>
        refine ih.trail _ _ _ _ ?_
        have hk : knownBinOp op1.kind = true :=
          knownBinOp_of_prec _ (fun h => hprec (Or.inl h)) hin
        simp only [opsKnown, hk, hx, Bool.true_and]
        exact ih.higher _ _ _ _ (ih.unary _)

theorem xInv (c : PCtx) : ∀ fuel, XInv c fuel
  | 0 => xInv_zero c
  | fuel + 1 =>
    have ih := xInv c fuel
    { expr := xInv_expr ih
      trail := xInv_trail ih
      higher := xInv_higher ih
      unary := xInv_unary ih
      primary := xInv_primary ih
      inner := xInv_inner ih
      list := xInv_list ih
      listTail := xInv_listTail ih }

/-- every expression the parser returns uses only operators the compiler translates -/
theorem pExpr_opsKnown (c : PCtx) (fuel : Nat) (ts : List Token) :
    opsKnown (pExpr c fuel ts).val = true := (xInv c fuel).expr ts

theorem pExprList_opsKnown (c : PCtx) (fuel : Nat) (ts : List Token) :
    opsKnownList (pExprList c fuel ts).val = true := (xInv c fuel).list ts

end Pql.Exact
