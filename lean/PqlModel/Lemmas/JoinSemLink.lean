/-
C03 semantics, helper 3: `joinTables` — the join case of `Rel.interpOp` as a function of the two
tables — and the SELECT of a join link evaluates to it.
-/
import PqlModel.Lemmas.JoinSemTr
import PqlModel.Spec.Intended
namespace Pql.JoinSem
open Pql Sql CompileOracle Intended

/-- the rows the left row `l` contributes -/
def joinRow (left : Bool) (lcols : List Bytes) (rt : Table) (cond : Expr) (l : List Val) : List (List Val) :=
  let ms := rt.rows.filterMap fun r =>
    if Rel.evalP true [] (envOfRow leftA lcols l ++ envOfRow rightA rt.cols r) cond == .bool true
    then some (l ++ r) else none
  if ms.isEmpty && left then [l ++ rt.cols.map fun _ => Val.null] else ms

/-- the documented join of two tables: nested loop, left-major; `unique` (innerunique) removes
    duplicate left rows first; `left` (leftouter) keeps unmatched left rows padded with NULLs -/
def joinTables (unique left : Bool) (lt rt : Table) (cond : Expr) : Table :=
  ⟨lt.cols ++ rt.cols,
   (if unique then distinctRows lt.rows else lt.rows).flatMap (joinRow left lt.cols rt cond)⟩

def kindOf (flavor : Option Ident) : Bytes :=
  match flavor with | some f => f.name | none => Bytes.ofString "innerunique"

/-- the join case of the pipeline interpreter is `joinTables` (whatever the kind) -/
theorem interpOp_join (src : Bytes) (db : DB) (t : Table) (p k a b : Span) (flavor : Option Ident) (d : Span)
    (right : Tabular) (e f : Span) (conds : ExprList) :
    Rel.interpOp src db t (.join p k a b flavor d right e f conds) =
      joinTables (kindOf flavor == Bytes.ofString "innerunique") (kindOf flavor == Bytes.ofString "leftouter")
        t (Rel.interp src db right) (buildJoinCondition conds) := by
  cases flavor <;> rfl

theorem selOf_join (src : Bytes) (a : SubA) (unique left : Bool) (l r : Bytes) (cond : Expr) (sel : Select)
    (hsrc : a.source = .join unique left l r cond) (hop : a.op = none) (hsort : a.sort = none)
    (htake : a.take = none) (hsel : selOf src a = some sel) :
    ∃ c, tr true cond = some c ∧
      sel = { items := [starItem],
              source := (if unique then TableRef.distinctOf l (some leftA) else TableRef.named l (some leftA)),
              join := some ⟨left, .named r (some rightA), c⟩,
              where_ := none, groupBy := [], orderBy := [], limit := none } := by
  simp only [selOf, hsrc, hop, hsort, htake, bind, Option.bind, pure] at hsel
  cases hc : tr true cond with
  | none => simp [hc] at hsel
  | some c =>
    simp only [hc, Option.some.injEq] at hsel
    exact ⟨c, rfl, hsel.symm⟩

/-- the FROM/JOIN rows of `evalSelect`, projected to the flat rows -/
theorem joinPairs_map_snd (left : Bool) (lcols : List Bytes) (rt : Table) (cond : Expr) (c : SExpr)
    (hev : ∀ env, evalS [] env c = Rel.evalP true [] env cond) (rows : List (List Val)) :
    (rows.flatMap fun l =>
        let le := envOfRow leftA lcols l
        let ms := rt.rows.filterMap fun r =>
          let env := le ++ envOfRow rightA rt.cols r
          if evalS [] env c == .bool true then some (env, l ++ r) else none
        if ms.isEmpty && left then [(le ++ envOfRow rightA rt.cols (rt.cols.map fun _ => Val.null), l ++ rt.cols.map fun _ => Val.null)]
        else ms).map (·.2) = rows.flatMap (joinRow left lcols rt cond) := by
  rw [List.map_flatMap]
  congr 1
  funext l
  have hms : (rt.rows.filterMap fun r =>
        if evalS [] (envOfRow leftA lcols l ++ envOfRow rightA rt.cols r) c == .bool true
        then some (envOfRow leftA lcols l ++ envOfRow rightA rt.cols r, l ++ r) else none).map (·.2) =
      rt.rows.filterMap fun r =>
        if Rel.evalP true [] (envOfRow leftA lcols l ++ envOfRow rightA rt.cols r) cond == .bool true
        then some (l ++ r) else none := by
    rw [List.map_filterMap]
    congr 1
    funext r
    rw [hev]
    split <;> rfl
  simp only [joinRow]
  rw [← hms]
  simp only [List.isEmpty_map]
  split <;> rfl

/-- evaluation of `SELECT * FROM l AS "$left" [LEFT] JOIN r AS "$right" ON c`  -/
theorem evalSelect_join (db : DB) (ctes : List (Bytes × Table)) (unique left : Bool) (l r : Bytes)
    (cond : Expr) (c : SExpr) (hc : tr true cond = some c) :
    evalSelect db ctes
      { items := [starItem],
        source := (if unique then TableRef.distinctOf l (some leftA) else TableRef.named l (some leftA)),
        join := some ⟨left, .named r (some rightA), c⟩,
        where_ := none, groupBy := [], orderBy := [], limit := none } =
    joinTables unique left (lookupTable db ctes l) (lookupTable db ctes r) cond := by
  have hev : ∀ env, evalS [] env c = Rel.evalP true [] env cond := fun env => (evalP_eq_evalS true cond c hc [] env).symm
  have hcomp : ((fun x : Env × List Env × List Val => x.snd.snd) ∘
      fun x : Env × List Val => (x.fst, ([] : List Env), x.snd)) = (·.2) := rfl
  cases unique
  · simp only [evalSelect, refTable, starItem, Option.getD, Bool.false_eq_true, ↓reduceIte, List.isEmpty_nil,
      Bool.not_true, List.any_cons, List.any_nil, Bool.not_true, Bool.false_and, Bool.or_false,
      List.flatMap_cons, List.flatMap_nil, List.append_nil, List.map_map, joinTables]
    congr 1
    rw [hcomp]
    exact joinPairs_map_snd left _ _ cond c hev _
  · simp only [evalSelect, refTable, starItem, Option.getD, Bool.false_eq_true, ↓reduceIte, List.isEmpty_nil,
      Bool.not_true, List.any_cons, List.any_nil, Bool.not_true, Bool.false_and, Bool.or_false,
      List.flatMap_cons, List.flatMap_nil, List.append_nil, List.map_map, joinTables]
    congr 1
    rw [hcomp]
    exact joinPairs_map_snd left _ _ cond c hev _

end Pql.JoinSem
