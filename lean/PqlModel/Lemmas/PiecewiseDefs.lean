/-
Property C15, parse half — vocabulary.

`shSpan d`   : move a span `d` bytes to the right.  The two constant spans the parser writes into
               trees, `Span.null` (-1:-1) and `Span.zero` (0:0, the never-assigned `Rbrack` of a
               broken index expression), are fixed points: a span is moved iff its `stop` is
               positive.  Every valid span other than `Span.zero` is moved (`shSpan_valid`).
`shStmt d`   : `shSpan d` on every span field of a statement (and `shExpr`, `shTabular`, …).
`shESpan`    : what happens to the position of an error leaf when a statement of a source of
               length `n` is parsed inside a source of length `m` at offset `d`: the EOF index `n:n`
               becomes the EOF index `m:m` of the *whole* source, every other position moves by `d`.
`TokP ts`    : every token of `ts` is non-empty (`start < stop`) — what `scan` guarantees.
`Sh`         : the result of a production on the moved tokens is the moved result.
-/
import PqlModel.Model.Parse
import PqlModel.Lemmas.LexSplit
import PqlModel.Lemmas.SplitBasic
import PqlModel.Lemmas.AccountedBasic
namespace Pql.Piecewise
open Pql

/-! ### spans -/

def shSpan (d : Nat) (s : Span) : Span := if 0 < s.stop then ⟨s.start + d, s.stop + d⟩ else s

@[simp] theorem shSpan_null (d : Nat) : shSpan d .null = .null := by simp [shSpan, Span.null]
@[simp] theorem shSpan_zero (d : Nat) : shSpan d .zero = .zero := by simp [shSpan, Span.zero]

theorem shSpan_valid (d : Nat) (s : Span) (hv : s.isValid = true) (hz : s ≠ .zero) :
    shSpan d s = ⟨s.start + d, s.stop + d⟩ := by
  obtain ⟨a, b⟩ := s
  simp only [Span.isValid, Bool.and_eq_true, decide_eq_true_eq] at hv
  have : 0 < b := by
    by_cases h : 0 < b
    · exact h
    · exfalso; apply hz
      have hb : b = 0 := by omega
      have ha : a = 0 := by omega
      subst ha hb; rfl
  simp [shSpan, this]

theorem shSpan_nonpos (d : Nat) (s : Span) (h : s.stop ≤ 0) :
    shSpan d s = s := by
  simp [shSpan]; omega

@[simp] theorem shSpan_zero_shift (s : Span) : shSpan 0 s = s := by
  simp [shSpan]

def TokP (ts : List Token) : Prop := ∀ t ∈ ts, t.start < t.stop

@[simp] theorem TokP_nil : TokP [] := by simp [TokP]
@[simp] theorem TokP_cons (t : Token) (ts : List Token) :
    TokP (t :: ts) ↔ t.start < t.stop ∧ TokP ts := by simp [TokP]
theorem TokP_append (a b : List Token) : TokP (a ++ b) ↔ TokP a ∧ TokP b := by
  simp only [TokP, List.mem_append]
  exact ⟨fun h => ⟨fun t ht => h t (Or.inl ht), fun t ht => h t (Or.inr ht)⟩,
    fun ⟨h1, h2⟩ t ht => ht.elim (h1 t) (h2 t)⟩

theorem TokP.split1 {k : TokKind} {ts : List Token} (h : TokP ts) : TokP (split k ts).1 := by
  rw [← split_append k ts, TokP_append] at h; exact h.1
theorem TokP.split2 {k : TokKind} {ts : List Token} (h : TokP ts) : TokP (split k ts).2 := by
  rw [← split_append k ts, TokP_append] at h; exact h.2

theorem TokP_scan (s : Bytes) : TokP (scan s) := fun t ht => (mem_scan_bounds s t ht).1

theorem span_shift (d : Nat) (t : Token) (h : t.start < t.stop) :
    (t.shift d).span = shSpan d t.span := by
  have : (0 : Int) < (t.stop : Int) := by omega
  show _ = if 0 < (t.stop : Int) then _ else _
  rw [if_pos this]
  simp only [Token.span, Token.shift, Int.natCast_add]

theorem span2_shift (d : Nat) (t t2 : Token) (h : t2.start < t2.stop) :
    (⟨((t.shift d).start : Nat), ((t2.shift d).stop : Nat)⟩ : Span) =
      shSpan d ⟨t.start, t2.stop⟩ := by
  have : (0 : Int) < (t2.stop : Int) := by omega
  show _ = if 0 < (t2.stop : Int) then _ else _
  rw [if_pos this]
  simp only [Token.shift, Int.natCast_add]

theorem span2_shift' (d : Nat) (t t2 : Token) (h : t2.start < t2.stop) :
    (⟨(t.start : Int) + (d : Int), (t2.stop : Int) + (d : Int)⟩ : Span) =
      shSpan d ⟨t.start, t2.stop⟩ := by
  have : (0 : Int) < (t2.stop : Int) := by omega
  show _ = if 0 < (t2.stop : Int) then _ else _
  rw [if_pos this]

/-- not a `rfl`-lemma on purpose: `simp` then rebuilds the `Decidable` instances of the tests
    it rewrites, so that both sides of a commutation goal carry the same instance -/
theorem shift_kind_eq (d : Nat) (t : Token) : (t.shift d).kind = t.kind := by
  cases t; exact rfl

@[simp] theorem shift_value (d : Nat) (t : Token) : (t.shift d).value = t.value := rfl
@[simp] theorem isIdentNamed_shift (d : Nat) (t : Token) (s : String) :
    isIdentNamed (t.shift d) s = isIdentNamed t s := rfl

/-! ### error leaves -/

def shESpan (n m d : Nat) (s : Span) : Span :=
  if s = Span.index n then Span.index m else ⟨s.start + d, s.stop + d⟩

def shErr (n m d : Nat) (e : PErr) : PErr := { e with span := e.span.map (shESpan n m d) }

def mapE (n m d : Nat) (es : Errs) : Errs := es.map (shErr n m d)

section
variable (n m d : Nat)

@[simp] theorem mapE_nil : mapE n m d [] = [] := rfl
@[simp] theorem mapE_append (a b : Errs) : mapE n m d (a ++ b) = mapE n m d a ++ mapE n m d b := by
  simp [mapE]
@[simp] theorem mapE_mkOpaque (a : Errs) : mapE n m d (mkOpaque a) = mkOpaque (mapE n m d a) := by
  simp [mapE, mkOpaque, shErr]
@[simp] theorem isNF_mapE (a : Errs) : isNF (mapE n m d a) = isNF a := by
  simp only [mapE, isNF, List.any_map]
  rfl
@[simp] theorem mapE_eq_nil (a : Errs) : mapE n m d a = [] ↔ a = [] := by simp [mapE]
@[simp] theorem mapE_errNoPos : mapE n m d errNoPos = errNoPos := rfl
@[simp] theorem mapE_errFuel : mapE n m d errFuel = errFuel := rfl
theorem mapE_errAt (s : Span) : mapE n m d (errAt s) = errAt (shESpan n m d s) := rfl
theorem mapE_nfAt (s : Span) : mapE n m d (nfAt s) = nfAt (shESpan n m d s) := rfl
@[simp] theorem shESpan_eof : shESpan n m d (PCtx.eof ⟨n⟩) = PCtx.eof ⟨m⟩ := by
  simp [shESpan, PCtx.eof]
@[simp] theorem mapE_errAt_eof : mapE n m d (errAt (PCtx.eof ⟨n⟩)) = errAt (PCtx.eof ⟨m⟩) := by
  rw [mapE_errAt, shESpan_eof]
@[simp] theorem mapE_nfAt_eof : mapE n m d (nfAt (PCtx.eof ⟨n⟩)) = nfAt (PCtx.eof ⟨m⟩) := by
  rw [mapE_nfAt, shESpan_eof]

theorem shESpan_tok (t : Token) (h : t.start < t.stop) :
    shESpan n m d t.span = (t.shift d).span := by
  have hne : t.span ≠ Span.index n := by
    intro he
    simp only [Token.span, Span.index, Span.mk.injEq] at he
    omega
  rw [shESpan, if_neg hne]
  simp only [Token.span, Token.shift, Int.natCast_add]

theorem mapE_errAt_tok (t : Token) (h : t.start < t.stop) :
    mapE n m d (errAt t.span) = errAt (t.shift d).span := by
  rw [mapE_errAt, shESpan_tok n m d t h]
theorem mapE_nfAt_tok (t : Token) (h : t.start < t.stop) :
    mapE n m d (nfAt t.span) = nfAt (t.shift d).span := by
  rw [mapE_nfAt, shESpan_tok n m d t h]

/-- a non-empty span at a non-negative offset (the span of a token of `TokP`) -/
def SpanP (s : Span) : Prop := 0 ≤ s.start ∧ s.start < s.stop

theorem SpanP_tok (t : Token) (h : t.start < t.stop) : SpanP t.span := by
  simp only [SpanP, Token.span]; omega

theorem shESpan_of_SpanP (s : Span) (h : SpanP s) : shESpan n m d s = shSpan d s := by
  obtain ⟨a, b⟩ := s
  simp only [SpanP] at h
  have hne : (⟨a, b⟩ : Span) ≠ Span.index n := by
    intro he
    simp only [Span.index, Span.mk.injEq] at he
    omega
  have hb : 0 < b := by omega
  rw [shESpan, if_neg hne]
  show _ = if 0 < b then _ else _
  rw [if_pos hb]

theorem mapE_errAt_SpanP (s : Span) (h : SpanP s) :
    mapE n m d (errAt s) = errAt (shSpan d s) := by
  rw [mapE_errAt, shESpan_of_SpanP n m d s h]

theorem mapE_endSplit (ts : List Token) (h : TokP ts) :
    mapE n m d (endSplit ts) = endSplit (ts.map (Token.shift d)) := by
  cases ts with
  | nil => rfl
  | cons t ts => simp only [endSplit, List.map_cons]; exact mapE_errAt_tok n m d t (h t (by simp))

end

/-! ### trees -/

def shIdent (d : Nat) (i : Ident) : Ident := { i with span := shSpan d i.span }

mutual
def shExpr (d : Nat) : Expr → Expr
  | .nil => .nil
  | .qident parts => .qident (parts.map (shIdent d))
  | .lit sp k v => .lit (shSpan d sp) k v
  | .unary os op x => .unary (shSpan d os) op (shExpr d x)
  | .binary x os op y => .binary (shExpr d x) (shSpan d os) op (shExpr d y)
  | .inE x i lp vals rp =>
    .inE (shExpr d x) (shSpan d i) (shSpan d lp) (shExprList d vals) (shSpan d rp)
  | .paren lp x rp => .paren (shSpan d lp) (shExpr d x) (shSpan d rp)
  | .call fn lp args rp => .call (shIdent d fn) (shSpan d lp) (shExprList d args) (shSpan d rp)
  | .index x lb idx rb => .index (shExpr d x) (shSpan d lb) (shExpr d idx) (shSpan d rb)
def shExprList (d : Nat) : ExprList → ExprList
  | .nil => .nil
  | .cons e es => .cons (shExpr d e) (shExprList d es)
end

def shSortTerm (d : Nat) (t : SortTerm) : SortTerm :=
  ⟨shExpr d t.x, t.asc, shSpan d t.ascDescSpan, t.nullsFirst, shSpan d t.nullsSpan⟩
def shColumn (d : Nat) (c : Column) : Column :=
  ⟨c.name.map (shIdent d), shSpan d c.assign, shExpr d c.x⟩
def shRenderProp (d : Nat) (p : RenderProp) : RenderProp :=
  ⟨p.name.map (shIdent d), shSpan d p.assign, shExpr d p.value⟩

mutual
def shTabular (d : Nat) : Tabular → Tabular
  | .nil => .nil
  | .mk src ops => .mk (src.map (shIdent d)) (shOpList d ops)
def shOp (d : Nat) : Op → Op
  | .count p k => .count (shSpan d p) (shSpan d k)
  | .where_ p k e => .where_ (shSpan d p) (shSpan d k) (shExpr d e)
  | .sort p k ts => .sort (shSpan d p) (shSpan d k) (ts.map (shSortTerm d))
  | .take p k e => .take (shSpan d p) (shSpan d k) (shExpr d e)
  | .top p k e b col =>
    .top (shSpan d p) (shSpan d k) (shExpr d e) (shSpan d b) (col.map (shSortTerm d))
  | .project p k cs => .project (shSpan d p) (shSpan d k) (cs.map (shColumn d))
  | .extend p k cs => .extend (shSpan d p) (shSpan d k) (cs.map (shColumn d))
  | .summarize p k cs b gs =>
    .summarize (shSpan d p) (shSpan d k) (cs.map (shColumn d)) (shSpan d b) (gs.map (shColumn d))
  | .join p k kind ka fl lp right rp on conds =>
    .join (shSpan d p) (shSpan d k) (shSpan d kind) (shSpan d ka) (fl.map (shIdent d)) (shSpan d lp)
      (shTabular d right) (shSpan d rp) (shSpan d on) (shExprList d conds)
  | .as_ p k nm => .as_ (shSpan d p) (shSpan d k) (nm.map (shIdent d))
  | .render p k ch w lp props rp =>
    .render (shSpan d p) (shSpan d k) (ch.map (shIdent d)) (shSpan d w) (shSpan d lp)
      (props.map (shRenderProp d)) (shSpan d rp)
def shOpList (d : Nat) : OpList → OpList
  | .nil => .nil
  | .cons o os => .cons (shOp d o) (shOpList d os)
end

/-- **the span shift of a statement** -/
def shStmt (d : Nat) : Stmt → Stmt
  | .let_ kw name asg x => .let_ (shSpan d kw) (name.map (shIdent d)) (shSpan d asg) (shExpr d x)
  | .tabular t => .tabular (shTabular d t)

theorem shExprList_snoc (d : Nat) : (es : ExprList) → (x : Expr) →
    shExprList d (es.snoc x) = (shExprList d es).snoc (shExpr d x)
  | .nil, x => by simp [ExprList.snoc, shExprList]
  | .cons e es, x => by simp [ExprList.snoc, shExprList, shExprList_snoc d es x]

theorem shOpList_snoc (d : Nat) : (os : OpList) → (x : Op) →
    shOpList d (os.snoc x) = (shOpList d os).snoc (shOp d x)
  | .nil, x => by simp [OpList.snoc, shOpList]
  | .cons o os, x => by simp [OpList.snoc, shOpList, shOpList_snoc d os x]

theorem shExpr_eq_nil (d : Nat) (x : Expr) : shExpr d x = .nil ↔ x = .nil := by
  cases x <;> simp [shExpr]

theorem shTabular_eq_nil (d : Nat) (t : Tabular) : shTabular d t = .nil ↔ t = .nil := by
  cases t <;> simp [shTabular]

/-! ### shifting by 0 is the identity -/

@[simp] theorem shIdent_zero (i : Ident) : shIdent 0 i = i := by simp [shIdent]

theorem map_shIdent_zero (l : List Ident) : l.map (shIdent 0) = l := by
  induction l <;> simp_all

theorem optmap_shIdent_zero (o : Option Ident) : o.map (shIdent 0) = o := by
  cases o <;> simp

mutual
theorem shExpr_zero : (x : Expr) → shExpr 0 x = x
  | .nil => rfl
  | .qident parts => by simp [shExpr, map_shIdent_zero]
  | .lit _ _ _ => by simp [shExpr]
  | .unary _ _ x => by simp [shExpr, shExpr_zero x]
  | .binary x _ _ y => by simp [shExpr, shExpr_zero x, shExpr_zero y]
  | .inE x _ _ vals _ => by simp [shExpr, shExpr_zero x, shExprList_zero vals]
  | .paren _ x _ => by simp [shExpr, shExpr_zero x]
  | .call _ _ args _ => by simp [shExpr, shExprList_zero args]
  | .index x _ idx _ => by simp [shExpr, shExpr_zero x, shExpr_zero idx]
theorem shExprList_zero : (es : ExprList) → shExprList 0 es = es
  | .nil => rfl
  | .cons e es => by simp [shExprList, shExpr_zero e, shExprList_zero es]
end

theorem shSortTerm_zero (t : SortTerm) : shSortTerm 0 t = t := by
  simp [shSortTerm, shExpr_zero]
theorem shColumn_zero (c : Column) : shColumn 0 c = c := by
  simp [shColumn, shExpr_zero, optmap_shIdent_zero]
theorem shRenderProp_zero (p : RenderProp) : shRenderProp 0 p = p := by
  simp [shRenderProp, shExpr_zero, optmap_shIdent_zero]

theorem map_id_of {α : Type} (f : α → α) (h : ∀ a, f a = a) (l : List α) : l.map f = l := by
  induction l <;> simp_all

mutual
theorem shTabular_zero : (t : Tabular) → shTabular 0 t = t
  | .nil => rfl
  | .mk src ops => by simp [shTabular, optmap_shIdent_zero, shOpList_zero ops]
theorem shOp_zero : (o : Op) → shOp 0 o = o
  | .count _ _ => by simp [shOp]
  | .where_ _ _ _ => by simp [shOp, shExpr_zero]
  | .sort _ _ ts => by simp [shOp, map_id_of _ shSortTerm_zero]
  | .take _ _ _ => by simp [shOp, shExpr_zero]
  | .top _ _ _ _ col => by cases col <;> simp [shOp, shExpr_zero, shSortTerm_zero]
  | .project _ _ _ => by simp [shOp, map_id_of _ shColumn_zero]
  | .extend _ _ _ => by simp [shOp, map_id_of _ shColumn_zero]
  | .summarize _ _ _ _ _ => by simp [shOp, map_id_of _ shColumn_zero]
  | .join _ _ _ _ _ _ right _ _ _ => by
    simp [shOp, optmap_shIdent_zero, shTabular_zero right, shExprList_zero]
  | .as_ _ _ _ => by simp [shOp, optmap_shIdent_zero]
  | .render _ _ _ _ _ _ _ => by simp [shOp, optmap_shIdent_zero, map_id_of _ shRenderProp_zero]
theorem shOpList_zero : (os : OpList) → shOpList 0 os = os
  | .nil => rfl
  | .cons o os => by simp [shOpList, shOp_zero o, shOpList_zero os]
end

theorem shStmt_zero (s : Stmt) : shStmt 0 s = s := by
  cases s <;> simp [shStmt, shExpr_zero, shTabular_zero, optmap_shIdent_zero]

theorem shESpan_id (n : Nat) (s : Span) : shESpan n n 0 s = s := by
  simp only [shESpan]; split
  · rename_i h; exact h.symm
  · simp

theorem mapE_id (n : Nat) (es : Errs) : mapE n n 0 es = es := by
  simp only [mapE]
  apply map_id_of
  intro e
  obtain ⟨sp, nf, fu⟩ := e
  cases sp <;> simp [shErr, shESpan_id]

/-! ### `split` commutes with moving the tokens -/

theorem splitAux_shift (d : Nat) (k : TokKind) (st : List TokKind) (ts : List Token) :
    splitAux k st (ts.map (Token.shift d)) =
      ((splitAux k st ts).1.map (Token.shift d), (splitAux k st ts).2.map (Token.shift d)) := by
  induction ts generalizing st with
  | nil => simp [splitAux]
  | cons t ts ih =>
    simp only [List.map_cons, splitAux, Token.shift_kind]
    repeat' split
    all_goals simp [ih, *]

theorem split_shift (d : Nat) (k : TokKind) (ts : List Token) :
    split k (ts.map (Token.shift d)) =
      ((split k ts).1.map (Token.shift d), (split k ts).2.map (Token.shift d)) :=
  splitAux_shift d k [] ts

theorem splitSemi_shift (d : Nat) (ts : List Token) :
    splitSemi (ts.map (Token.shift d)) =
      ((splitSemi ts).1.map (Token.shift d), (splitSemi ts).2.map (Token.shift d)) := by
  induction ts with
  | nil => simp [splitSemi]
  | cons t ts ih =>
    simp only [List.map_cons, splitSemi, Token.shift_kind]
    split <;> simp [ih, *]

/-! ### the commutation statement for one production -/

/-- `r'` (the production on the moved tokens, in a source of length `m`) is `r` (the production
    on the tokens, in a source of length `n`) moved by `d`; the remaining tokens are non-empty. -/
def Sh (n m d : Nat) {α β : Type} (f : α → β) (r : PRes α) (r' : PRes β) : Prop :=
  r' = ⟨f r.val, mapE n m d r.errs, r.rest.map (Token.shift d)⟩ ∧ TokP r.rest

end Pql.Piecewise
