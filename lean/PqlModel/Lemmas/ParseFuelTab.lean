/-
Fuel sufficiency for the tabular block (`pTabular` / `pOps` / `pOperator` / `pJoin`).  Ranks:
`pTabular`, `pOps`, `pJoin` need `4 * tokens + 1`; `pOperator` needs `4 * tokens + 6` (it hands
`fuel - 1` to the expression parser, whose `exprList` needs `4 * tokens + 5`).  `pOps` strips the
pipe and the operator name before calling `pOperator` (pays 8), `pJoin` strips the opening
parenthesis before calling `pTabular` (pays 4).
-/
import PqlModel.Lemmas.ParseFuelOps
namespace Pql

/-- the result of `pOperator`, if any, carries no out-of-fuel leaf -/
def OptNF : Option (PRes Op) → Prop
  | none => True
  | some r => NoFuel r.errs

structure TabNF (c : PCtx) (fuel : Nat) : Prop where
  tabular : ∀ ts, 4 * ts.length + 1 ≤ fuel → NoFuel (pTabular c fuel ts).errs
  ops : ∀ ops acc ts, 4 * ts.length + 1 ≤ fuel → NoFuel acc → NoFuel (pOps c fuel ops acc ts).errs
  operator : ∀ pipe name ts, 4 * ts.length + 6 ≤ fuel → OptNF (pOperator c fuel pipe name ts)
  join : ∀ pipe kw ts, 4 * ts.length + 1 ≤ fuel → NoFuel (pJoin c fuel pipe kw ts).errs

theorem TabNF.zero (c : PCtx) : TabNF c 0 := by
  constructor <;> intros <;> omega

theorem pTabular_nf_step (c : PCtx) (fuel : Nat) (ih : TabNF c fuel) (ts : List Token)
    (hf : 4 * ts.length + 1 ≤ fuel + 1) : NoFuel (pTabular c (fuel + 1) ts).errs := by
  simp only [pTabular]
  split
  · exact pIdent_noFuel c ts
  · rename_i name hv
    have := pIdent_some_rest c ts name hv
    exact ih.ops _ _ _ (by omega) NoFuel.nil

theorem pOps_nf_step (c : PCtx) (fuel : Nat) (ih : TabNF c fuel) (ops : OpList) (acc : Errs)
    (ts : List Token) (hf : 4 * ts.length + 1 ≤ fuel + 1) (hacc : NoFuel acc) :
    NoFuel (pOps c (fuel + 1) ops acc ts).errs := by
  simp only [pOps]
  split
  · exact hacc
  · rename_i pipeTok rest
    simp only [List.length_cons] at hf
    have hs := split_length .pipe rest
    split
    · exact hacc
    · split
      · exact ih.ops _ _ _ (by omega) (NoFuel.append hacc (NoFuel.errAt _))
      · rename_i name opToks heq
        rw [heq] at hs
        simp only [List.length_cons] at hs
        split
        · exact ih.ops _ _ _ (by omega) (NoFuel.append hacc (NoFuel.errAt _))
        · have hop := ih.operator pipeTok.span name opToks (by omega)
          split
          · exact ih.ops _ _ _ (by omega) (NoFuel.append hacc (NoFuel.errAt _))
          · rename_i r hr
            rw [hr] at hop
            exact ih.ops _ _ _ (by omega)
              (NoFuel.append (NoFuel.append hacc hop) (NoFuel.endSplit _))

theorem pOperator_nf_step (c : PCtx) (fuel : Nat) (ih : TabNF c fuel) (pipe : Span) (name : Token)
    (ts : List Token) (hf : 4 * ts.length + 6 ≤ fuel + 1) :
    OptNF (pOperator c (fuel + 1) pipe name ts) := by
  generalize ho : pOperator c (fuel + 1) pipe name ts = o
  rw [pOperator.eq_def] at ho
  dsimp only at ho
  by_cases h1 : (name.value == Bytes.ofString "count") = true
  · rw [if_pos h1] at ho; subst ho; exact NoFuel.nil
  rw [if_neg h1] at ho
  by_cases h2 : (name.value == Bytes.ofString "where" || name.value == Bytes.ofString "filter") = true
  · rw [if_pos h2] at ho; subst ho; exact (pExpr_noFuel c fuel ts (by omega)).mkOpaque
  rw [if_neg h2] at ho
  by_cases h3 : (name.value == Bytes.ofString "sort" || name.value == Bytes.ofString "order") = true
  · rw [if_pos h3] at ho
    split at ho
    · subst ho; exact NoFuel.errAt _
    · rename_i by_ rest
      simp only [List.length_cons] at hf
      split at ho
      · subst ho; exact NoFuel.errAt _
      · subst ho; exact pSortTerms_noFuel c fuel _ _ _ (by omega) (Nat.le_refl _)
  rw [if_neg h3] at ho
  by_cases h4 : (name.value == Bytes.ofString "take" || name.value == Bytes.ofString "limit") = true
  · rw [if_pos h4] at ho; subst ho; exact (pRowCount_noFuel c fuel ts (by omega)).mkOpaque
  rw [if_neg h4] at ho
  by_cases h5 : (name.value == Bytes.ofString "top") = true
  · rw [if_pos h5] at ho
    have h1 := pRowCount_noFuel c fuel ts (by omega)
    have hl := pRowCount_rest_le c fuel ts
    split at ho
    · subst ho; exact h1.mkOpaque
    · split at ho
      · subst ho; exact NoFuel.errAt _
      · rename_i by_ rest heq
        rw [heq] at hl
        simp only [List.length_cons] at hl
        split at ho
        · subst ho; exact NoFuel.errAt _
        · subst ho; exact (pSortTerm_noFuel c fuel rest (by omega)).mkOpaque
  rw [if_neg h5] at ho
  by_cases h6 : (name.value == Bytes.ofString "project") = true
  · rw [if_pos h6] at ho; subst ho
    exact pProjectCols_noFuel c fuel _ _ _ (by omega) (Nat.le_refl _)
  rw [if_neg h6] at ho
  by_cases h7 : (name.value == Bytes.ofString "extend") = true
  · rw [if_pos h7] at ho; subst ho
    exact pExtendCols_noFuel c fuel _ _ _ (by omega) (Nat.le_refl _)
  rw [if_neg h7] at ho
  by_cases h8 : (name.value == Bytes.ofString "summarize") = true
  · rw [if_pos h8] at ho; subst ho
    exact pSummarize_noFuel c fuel pipe name.span ts (by omega)
  rw [if_neg h8] at ho
  by_cases h9 : (name.value == Bytes.ofString "join") = true
  · rw [if_pos h9] at ho; subst ho
    exact ih.join pipe name.span ts (by omega)
  rw [if_neg h9] at ho
  by_cases h10 : (name.value == Bytes.ofString "as") = true
  · rw [if_pos h10] at ho; subst ho
    exact (pIdent_noFuel c ts).mkOpaque
  rw [if_neg h10] at ho
  by_cases h11 : (name.value == Bytes.ofString "render") = true
  · rw [if_pos h11] at ho; subst ho
    exact pRender_noFuel c fuel pipe name.span ts (by omega)
  rw [if_neg h11] at ho
  subst ho; trivial

theorem pJoin_nf_step (c : PCtx) (fuel : Nat) (ih : TabNF c fuel) (pipe kw : Span)
    (ts : List Token) (hf : 4 * ts.length + 1 ≤ fuel + 1) :
    NoFuel (pJoin c (fuel + 1) pipe kw ts).errs := by
  simp only [pJoin]
  split
  · exact NoFuel.errAt _
  · rename_i t0 rest0
    simp only [List.length_cons] at hf
    split
    · -- the header already failed
      rename_i r heq
      split at heq
      · split at heq
        · cases heq; exact NoFuel.errAt _
        · split at heq
          · cases heq; exact NoFuel.errAt _
          · split at heq
            · cases heq; exact NoFuel.errAt _
            · split at heq
              · cases heq; exact NoFuel.errAt _
              · cases heq
      · cases heq
    · exact NoFuel.nil
    · rename_i kind ka fl e0 rest heq
      have hh : NoFuel e0 ∧ rest.length ≤ rest0.length + 1 := by
        split at heq
        · split at heq
          · cases heq
          · split at heq
            · cases heq
            · split at heq
              · cases heq
              · split at heq
                · cases heq
                · simp only [Sum.inl.injEq, Option.some.injEq, Prod.mk.injEq] at heq
                  obtain ⟨_, _, _, rfl, rfl⟩ := heq
                  constructor
                  · split
                    · exact NoFuel.nil
                    · exact NoFuel.errAt _
                  · simp only [List.length_cons]; omega
        · simp only [Sum.inl.injEq, Option.some.injEq, Prod.mk.injEq] at heq
          obtain ⟨_, _, _, rfl, rfl⟩ := heq
          exact ⟨NoFuel.nil, by simp⟩
      obtain ⟨he0, hrest⟩ := hh
      split
      · exact NoFuel.append he0 (NoFuel.errAt _)
      · rename_i lp rest1
        simp only [List.length_cons] at hrest
        split
        · exact NoFuel.append he0 (NoFuel.errAt _)
        · have hs := split_length .rparen rest1
          have hr : NoFuel (pTabular c fuel (split .rparen rest1).1).errs :=
            ih.tabular _ (by omega)
          have he1 : NoFuel (e0 ++ mkOpaque (pTabular c fuel (split .rparen rest1).1).errs ++
              endSplit (pTabular c fuel (split .rparen rest1).1).rest) :=
            NoFuel.append (NoFuel.append he0 hr.mkOpaque) (NoFuel.endSplit _)
          split
          · exact NoFuel.append he1 (NoFuel.errAt _)
          · rename_i rp rest2 heq2
            rw [heq2] at hs
            simp only [List.length_cons] at hs
            split
            · exact NoFuel.append he1 (NoFuel.errAt _)
            · split
              · exact NoFuel.append he1 (NoFuel.errAt _)
              · rename_i on rest3
                simp only [List.length_cons] at hs
                split
                · exact NoFuel.append he1 (NoFuel.errAt _)
                · exact NoFuel.append he1 (pExprList_noFuel c fuel rest3 (by omega)).mkOpaque

theorem tabNF (c : PCtx) (fuel : Nat) : TabNF c fuel := by
  induction fuel with
  | zero => exact TabNF.zero c
  | succ fuel ih =>
    exact
      { tabular := pTabular_nf_step c fuel ih
        ops := pOps_nf_step c fuel ih
        operator := pOperator_nf_step c fuel ih
        join := pJoin_nf_step c fuel ih }

/-- `tabularExpr` never runs out of fuel when given `4 * (tokens) + 1` -/
theorem pTabular_noFuel (c : PCtx) (fuel : Nat) (ts : List Token) (hf : 4 * ts.length + 1 ≤ fuel) :
    NoFuel (pTabular c fuel ts).errs := (tabNF c fuel).tabular ts hf

end Pql
