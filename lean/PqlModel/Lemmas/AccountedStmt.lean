/-
Stage 3 of property C08: statements.  First the not-found flag in the tabular productions
(an error that still carries the flag comes without consumption; operators never produce one),
then `pStatement`, `pStatements` and `parseTokens` against `splitStatementsToks`.
-/
import PqlModel.Lemmas.AccountedTab
namespace Pql
open Grammar

/-! ### operator errors never carry the not-found flag -/

theorem pSortTerms_notNF (c : PCtx) (fuel : Nat) : ∀ (n : Nat) (acc : List SortTerm) (ts : List Token),
    isNF (pSortTerms c fuel n acc ts).errs = false := by
  intro n
  induction n with
  | zero => intro acc ts; simp [pSortTerms]
  | succ n ih =>
    intro acc ts
    unfold pSortTerms
    dsimp only
    split
    · simp
    · split
      · split
        · exact ih _ _
        · rfl
      · rfl

theorem pExtendCols_notNF (c : PCtx) (fuel : Nat) : ∀ (n : Nat) (acc : List Column) (ts : List Token),
    isNF (pExtendCols c fuel n acc ts).errs = false := by
  intro n
  induction n with
  | zero => intro acc ts; simp [pExtendCols]
  | succ n ih =>
    intro acc ts
    unfold pExtendCols
    dsimp only
    split
    · simp
    · split
      · split
        · exact ih _ _
        · rfl
      · rfl

theorem pProjectCols_notNF (c : PCtx) (fuel : Nat) : ∀ (n : Nat) (acc : List Column) (ts : List Token),
    isNF (pProjectCols c fuel n acc ts).errs = false := by
  intro n
  induction n with
  | zero => intro acc ts; simp [pProjectCols]
  | succ n ih =>
    intro acc ts
    unfold pProjectCols
    dsimp only
    split
    · simp
    · split
      · rfl
      · split
        · exact ih _ _
        · split
          · split
            · simp
            · split
              · rfl
              · split
                · exact ih _ _
                · simp
          · rfl

theorem pGroupByCols_notNF (c : PCtx) (fuel : Nat) : ∀ (n : Nat) (acc : List Column) (ts : List Token),
    isNF (pGroupByCols c fuel n acc ts).errs = false := by
  intro n
  induction n with
  | zero => intro acc ts; simp [pGroupByCols]
  | succ n ih =>
    intro acc ts
    unfold pGroupByCols
    dsimp only
    split
    · simp
    · split
      · simp
      · split
        · rfl
        · split
          · exact ih _ _
          · rfl

theorem pSummarizeCols_notNF (c : PCtx) (fuel : Nat) : ∀ (n : Nat) (acc : List Column) (cm : Option Span)
    (ts : List Token), isNF (pSummarizeCols c fuel n acc cm ts).errs = false := by
  intro n
  induction n with
  | zero => intro acc cm ts; simp [pSummarizeCols]
  | succ n ih =>
    intro acc cm ts
    unfold pSummarizeCols
    dsimp only
    split
    · rfl
    · split
      · simp
      · split
        · rfl
        · split
          · exact ih _ _ _
          · rfl

theorem pSummarize_notNF (c : PCtx) (fuel : Nat) (pipe kw : Span) (ts : List Token) :
    isNF (pSummarize c fuel pipe kw ts).errs = false := by
  unfold pSummarize
  dsimp only
  split
  · exact pSummarizeCols_notNF _ _ _ _ _ _
  · split
    · split
      · simp
      · split <;> simp
    · split
      · split
        · simp
        · split <;> simp
      · exact pGroupByCols_notNF _ _ _ _ _

theorem pRenderProps_notNF (c : PCtx) (fuel : Nat) : ∀ (n : Nat) (acc : List RenderProp) (ts : List Token),
    isNF (pRenderProps c fuel n acc ts).errs = false := by
  intro n
  induction n with
  | zero => intro acc ts; simp [pRenderProps]
  | succ n ih =>
    intro acc ts
    unfold pRenderProps
    dsimp only
    split
    · simp
    · split
      · simp
      · split
        · rfl
        · split
          · simp
          · exact ih _ _

theorem pRender_notNF (c : PCtx) (fuel : Nat) (pipe kw : Span) (ts : List Token) :
    isNF (pRender c fuel pipe kw ts).errs = false := by
  unfold pRender
  dsimp only
  split
  · simp
  · split
    · rfl
    · split
      · rfl
      · split
        · simp
        · split
          · simp
          · exact pRenderProps_notNF _ _ _ _ _

theorem pJoin_notNF (c : PCtx) (fuel : Nat) (pipe kw : Span) (ts : List Token) :
    isNF (pJoin c fuel pipe kw ts).errs = false := by
  cases fuel with
  | zero => simp [pJoin]
  | succ f =>
    unfold pJoin
    dsimp only
    split
    · simp
    · rename_i t0 rest0
      split
      · rename_i hdr r heq
        split at heq
        · split at heq
          · simp only [Sum.inr.injEq] at heq; subst heq; simp
          · split at heq
            · simp only [Sum.inr.injEq] at heq; subst heq; simp
            · split at heq
              · simp only [Sum.inr.injEq] at heq; subst heq; simp
              · split at heq
                · simp only [Sum.inr.injEq] at heq; subst heq; simp
                · simp at heq
        · simp at heq
      · rfl
      · rename_i hdr kind ka fl e0 rest1 heq
        have he0 : isNF e0 = false := by
          split at heq
          · split at heq
            · simp at heq
            · split at heq
              · simp at heq
              · split at heq
                · simp at heq
                · split at heq
                  · simp at heq
                  · simp only [Sum.inl.injEq, Option.some.injEq, Prod.mk.injEq] at heq
                    obtain ⟨-, -, -, rfl, -⟩ := heq
                    split <;> simp
          · simp only [Sum.inl.injEq, Option.some.injEq, Prod.mk.injEq] at heq
            obtain ⟨-, -, -, rfl, -⟩ := heq
            rfl
        split
        · simp [he0]
        · split
          · simp [he0]
          · split
            · simp [he0]
            · split
              · simp [he0]
              · split
                · simp [he0]
                · split <;> simp [he0]

theorem pOperator_notNF (c : PCtx) (fuel : Nat) (pipe : Span) (name : Token) (ts : List Token) (r : PRes Op)
    (h : pOperator c fuel pipe name ts = some r) : isNF r.errs = false := by
  cases fuel with
  | zero => simp only [pOperator, Option.some.injEq] at h; subst h; simp
  | succ f =>
    unfold pOperator at h
    extract_lets kw v rE rR rP rX rI at h
    have hP : pProjectCols c f (ts.length + 1) [] ts = rP := rfl
    have hX : pExtendCols c f (ts.length + 1) [] ts = rX := rfl
    clear_value rE rR rP rX rI v kw
    generalize Bytes.ofString "count" = s1 at h
    generalize Bytes.ofString "where" = s2 at h
    generalize Bytes.ofString "filter" = s3 at h
    generalize Bytes.ofString "sort" = s4 at h
    generalize Bytes.ofString "order" = s5 at h
    generalize Bytes.ofString "take" = s6 at h
    generalize Bytes.ofString "limit" = s7 at h
    generalize Bytes.ofString "top" = s8 at h
    generalize Bytes.ofString "project" = s9 at h
    generalize Bytes.ofString "extend" = s10 at h
    generalize Bytes.ofString "summarize" = s11 at h
    generalize Bytes.ofString "join" = s12 at h
    generalize Bytes.ofString "as" = s13 at h
    generalize Bytes.ofString "render" = s14 at h
    by_cases hv : (v == s1) = true
    · rw [if_pos hv] at h
      simp only [Option.some.injEq] at h; subst h; rfl
    rw [if_neg hv] at h; clear hv
    by_cases hv : (v == s2 || v == s3) = true
    · rw [if_pos hv] at h
      simp only [Option.some.injEq] at h; subst h; simp
    rw [if_neg hv] at h; clear hv
    by_cases hv : (v == s4 || v == s5) = true
    · rw [if_pos hv] at h
      split at h
      · simp only [Option.some.injEq] at h; subst h; simp
      · split at h
        · simp only [Option.some.injEq] at h; subst h; simp
        · simp only [Option.some.injEq] at h; subst h
          exact pSortTerms_notNF _ _ _ _ _
    rw [if_neg hv] at h; clear hv
    by_cases hv : (v == s6 || v == s7) = true
    · rw [if_pos hv] at h
      simp only [Option.some.injEq] at h; subst h; simp
    rw [if_neg hv] at h; clear hv
    by_cases hv : (v == s8) = true
    · rw [if_pos hv] at h
      split at h
      · simp only [Option.some.injEq] at h; subst h; simp
      · split at h
        · simp only [Option.some.injEq] at h; subst h; simp
        · split at h
          · simp only [Option.some.injEq] at h; subst h; simp
          · simp only [Option.some.injEq] at h; subst h; simp
    rw [if_neg hv] at h; clear hv
    by_cases hv : (v == s9) = true
    · rw [if_pos hv] at h
      simp only [Option.some.injEq] at h; subst h
      dsimp only
      rw [← hP]; exact pProjectCols_notNF _ _ _ _ _
    rw [if_neg hv] at h; clear hv
    by_cases hv : (v == s10) = true
    · rw [if_pos hv] at h
      simp only [Option.some.injEq] at h; subst h
      dsimp only
      rw [← hX]; exact pExtendCols_notNF _ _ _ _ _
    rw [if_neg hv] at h; clear hv
    by_cases hv : (v == s11) = true
    · rw [if_pos hv] at h
      simp only [Option.some.injEq] at h; subst h
      exact pSummarize_notNF _ _ _ _ _
    rw [if_neg hv] at h; clear hv
    by_cases hv : (v == s12) = true
    · rw [if_pos hv] at h
      simp only [Option.some.injEq] at h; subst h
      exact pJoin_notNF _ _ _ _ _
    rw [if_neg hv] at h; clear hv
    by_cases hv : (v == s13) = true
    · rw [if_pos hv] at h
      simp only [Option.some.injEq] at h; subst h; simp
    rw [if_neg hv] at h; clear hv
    by_cases hv : (v == s14) = true
    · rw [if_pos hv] at h
      simp only [Option.some.injEq] at h; subst h
      exact pRender_notNF _ _ _ _ _
    rw [if_neg hv] at h
    simp at h

theorem pOps_notNF (c : PCtx) (fuel : Nat) : ∀ (ops : OpList) (acc : Errs) (ts : List Token),
    isNF acc = false → isNF (pOps c fuel ops acc ts).errs = false := by
  induction fuel with
  | zero => intro ops acc ts h; simp [pOps, h]
  | succ f ih =>
    intro ops acc ts hacc
    unfold pOps
    split
    · exact hacc
    · dsimp only
      split
      · exact hacc
      · split
        · exact ih _ _ _ (by simp [hacc])
        · split
          · exact ih _ _ _ (by simp [hacc])
          · split
            · exact ih _ _ _ (by simp [hacc])
            · rename_i r hop
              exact ih _ _ _ (by simp [hacc, pOperator_notNF _ _ _ _ _ _ hop])

/-- a not-found error of `pTabular` comes without consumption -/
theorem pTabular_nf (c : PCtx) (fuel : Nat) (ts : List Token)
    (h : isNF (pTabular c fuel ts).errs = true) : (pTabular c fuel ts).rest = ts := by
  cases fuel with
  | zero => simp [pTabular] at h
  | succ f =>
    unfold pTabular at h ⊢
    dsimp only at h ⊢
    generalize hi : pIdent c ts = ri at h ⊢
    obtain ⟨iv, ie, irest⟩ := ri
    dsimp only at h ⊢
    rcases pIdent_cases hi with ⟨t0, rfl, hk0, rfl, rfl⟩ | ⟨rfl, -, -, hrest⟩
    · dsimp only at h
      rw [pOps_notNF c f _ _ _ rfl] at h
      exact absurd h (by simp)
    · exact hrest

/-- a not-found error of `pLet` comes without consumption -/
theorem pLet_nf (c : PCtx) (fuel : Nat) (ts : List Token) :
    isNF (pLet c fuel ts).errs = true → (pLet c fuel ts).rest = ts := by
  unfold pLet
  split
  · intro _; rfl
  · split
    · intro _; rfl
    · dsimp only
      split
      · simp
      · split
        · simp
        · split
          · simp
          · simp

/-! ### one statement -/

/-- `pStatement`, first half: `let` statement or tabular expression -/
def stmtFirst (c : PCtx) (ts : List Token) : PRes (Option Stmt) :=
  let fuel := fuelFor ts.length
  let rl := pLet c fuel ts
  if !isNF rl.errs then rl
  else
    let rt := pTabular c fuel ts
    match rt.val with
    | .nil => ⟨none, rt.errs, rt.rest⟩
    | t => ⟨some (.tabular t), rt.errs, rt.rest⟩

/-- `pStatement`, second half: what the loop of `Parse` does with the result -/
def stmtTail (first : PRes (Option Stmt)) : Option Stmt × Errs × Bool :=
  if isNF first.errs then
    match first.rest with
    | [] => (none, [], false)
    | t :: _ => (none, first.errs ++ errAt t.span, true)
  else (first.val, mkOpaque first.errs ++ endSplit first.rest, false)

theorem pStatement_eq (c : PCtx) (ts : List Token) : pStatement c ts = stmtTail (stmtFirst c ts) := rfl

theorem stmtTail_repl (first : PRes (Option Stmt)) (h : (stmtTail first).2.2 = true) :
    (stmtTail first).2.1 ≠ [] := by
  unfold stmtTail at h ⊢
  split
  · rename_i hnf
    rw [if_pos hnf] at h
    split
    · rename_i heq; rw [heq] at h; simp at h
    · simp
  · rename_i hnf
    rw [if_neg hnf] at h
    simp at h

theorem stmtTail_nil {first : PRes (Option Stmt)} {o : Option Stmt} {b : Bool}
    (h : stmtTail first = (o, [], b)) :
    (isNF first.errs = true ∧ first.rest = [] ∧ o = none) ∨
    (first.errs = [] ∧ first.rest = [] ∧ o = first.val) := by
  unfold stmtTail at h
  split at h
  · rename_i hnf
    split at h
    · rename_i heq
      simp only [Prod.mk.injEq, true_and] at h
      exact Or.inl ⟨hnf, heq, h.1.symm⟩
    · simp at h
  · simp only [Prod.mk.injEq, List.append_eq_nil_iff, mkOpaque_eq_nil, endSplit_eq_nil] at h
    exact Or.inr ⟨h.2.1.1, h.2.1.2, h.1.symm⟩

theorem stmtFirst_spec {c : PCtx} {g : List Token} (hok : TokOK g) :
    (isNF (stmtFirst c g).errs = true → (stmtFirst c g).rest = g) ∧
    ((stmtFirst c g).errs = [] → (stmtFirst c g).rest = [] →
      ∃ s us, (stmtFirst c g).val = some s ∧ unparseStmt s = some us ∧ accounts true us g = true) := by
  unfold stmtFirst
  dsimp only
  generalize fuelFor g.length = fuel
  have hlnf := pLet_nf c fuel g
  generalize hl : pLet c fuel g = rl at hlnf
  obtain ⟨lv, le, lrest⟩ := rl
  dsimp only at hlnf ⊢
  by_cases hnf : isNF le = true
  · simp only [hnf, Bool.not_true, Bool.false_eq_true, if_false]
    have htnf := pTabular_nf c fuel g
    generalize ht : pTabular c fuel g = rt at htnf
    obtain ⟨tv, te, trest⟩ := rt
    dsimp only at htnf ⊢
    cases tv with
    | nil =>
      dsimp only
      refine ⟨htnf, ?_⟩
      rintro rfl rfl
      obtain ⟨us, cons, hus, -, -⟩ := pTabular_acc hok ht
      simp [unparseTabular] at hus
    | mk src ops =>
      dsimp only
      refine ⟨htnf, ?_⟩
      rintro rfl rfl
      obtain ⟨us, cons, hus, hts, ha⟩ := pTabular_acc hok ht
      simp only [List.append_nil] at hts
      subst hts
      exact ⟨_, us, rfl, by simpa [unparseStmt] using hus, ha⟩
  · simp only [hnf, Bool.not_false, if_true]
    refine ⟨fun h => by simp at h, ?_⟩
    rintro rfl rfl
    obtain ⟨s, us, cons, rfl, hus, hts, ha⟩ := pLet_acc hok hl
    simp only [List.append_nil] at hts
    subst hts
    exact ⟨s, us, rfl, hus, ha⟩

theorem pStatement_nil (c : PCtx) : pStatement c [] = (none, [], false) := by
  simp [pStatement, pLet, fuelFor, pTabular, pIdent]

/-- errors that replace the accumulated ones are never empty -/
theorem pStatement_repl (c : PCtx) (g : List Token) (h : (pStatement c g).2.2 = true) :
    (pStatement c g).2.1 ≠ [] := by
  rw [pStatement_eq] at h ⊢
  exact stmtTail_repl _ h

theorem pStatement_acc {c : PCtx} {g : List Token} {o : Option Stmt} {b : Bool} (hok : TokOK g)
    (h : pStatement c g = (o, [], b)) :
    (g = [] ∧ o = none) ∨
    (∃ s us, o = some s ∧ g ≠ [] ∧ unparseStmt s = some us ∧ accounts true us g = true) := by
  by_cases hg : g = []
  · subst hg
    rw [pStatement_nil] at h
    simp only [Prod.mk.injEq] at h
    exact Or.inl ⟨rfl, h.1.symm⟩
  rw [pStatement_eq] at h
  obtain ⟨hnfspec, haccspec⟩ := stmtFirst_spec (c := c) hok
  rcases stmtTail_nil h with ⟨hnf, hrest, -⟩ | ⟨he, hrest, ho⟩
  · exact absurd ((hnfspec hnf).symm.trans hrest) hg
  · obtain ⟨s, us, hv, hus, ha⟩ := haccspec he hrest
    exact Or.inr ⟨s, us, ho.trans hv, hg, hus, ha⟩

/-! ### the statement loop against `splitStatementsToks` -/

/-- pointwise relation of two lists of equal length (Mathlib's `List.Forall₂`; core has none) -/
inductive Forall₂ {α β : Type} (R : α → β → Prop) : List α → List β → Prop
  | nil : Forall₂ R [] []
  | cons {a : α} {b : β} {l₁ : List α} {l₂ : List β} : R a b → Forall₂ R l₁ l₂ → Forall₂ R (a :: l₁) (b :: l₂)

theorem Forall₂.length_eq {α β : Type} {R : α → β → Prop} {l₁ : List α} {l₂ : List β}
    (h : Forall₂ R l₁ l₂) : l₁.length = l₂.length := by
  induction h with
  | nil => rfl
  | cons _ _ ih => simp [ih]

theorem Forall₂.append {α β : Type} {R : α → β → Prop} {a c : List α} {b d : List β}
    (h1 : Forall₂ R a b) (h2 : Forall₂ R c d) : Forall₂ R (a ++ c) (b ++ d) := by
  induction h1 with
  | nil => simpa using h2
  | cons hab _ ih => exact Forall₂.cons hab ih

theorem Forall₂.zip {α β : Type} {R : α → β → Prop} {l₁ : List α} {l₂ : List β}
    (h : Forall₂ R l₁ l₂) : ∀ p ∈ l₁.zip l₂, R p.1 p.2 := by
  induction h with
  | nil => simp
  | cons hab _ ih =>
    intro p hp
    simp only [List.zip_cons_cons, List.mem_cons] at hp
    rcases hp with rfl | hp
    · exact hab
    · exact ih p hp

theorem go_nil (cur : List Token) :
    splitStatementsToks.go [] cur = if cur.isEmpty then [] else [cur.reverse] := by
  rw [splitStatementsToks.go]

theorem go_cons (t : Token) (rest cur : List Token) :
    splitStatementsToks.go (t :: rest) cur =
      if t.kind == .semi then
        (if cur.isEmpty then splitStatementsToks.go rest [] else cur.reverse :: splitStatementsToks.go rest [])
      else splitStatementsToks.go rest (t :: cur) := by
  rw [splitStatementsToks.go]

theorem splitStatementsToks_go_eq : ∀ (ts cur : List Token),
    splitStatementsToks.go ts cur =
      (if cur.reverse ++ (splitSemi ts).1 = [] then [] else [cur.reverse ++ (splitSemi ts).1]) ++
      (if (splitSemi ts).2 = [] then [] else splitStatementsToks.go (splitSemi ts).2.tail [])
  | [], cur => by
    rw [go_nil]
    cases cur <;> simp [splitSemi]
  | t :: rest, cur => by
    rw [go_cons]
    by_cases hk : t.kind = .semi
    · have hb : (t.kind == .semi) = true := by simp [hk]
      rw [if_pos hb]
      simp only [splitSemi, hk, if_true]
      cases cur <;> simp
    · have hb : ¬ (t.kind == .semi) = true := by simp [hk]
      rw [if_neg hb, splitStatementsToks_go_eq rest (t :: cur)]
      simp [splitSemi, hk]

theorem splitStatementsToks_eq (ts : List Token) :
    splitStatementsToks ts =
      (if (splitSemi ts).1 = [] then [] else [(splitSemi ts).1]) ++
      (if (splitSemi ts).2 = [] then [] else splitStatementsToks (splitSemi ts).2.tail) := by
  show splitStatementsToks.go ts [] = _
  rw [splitStatementsToks_go_eq]
  rfl

/-- statement `st` accounts for the token group `g` -/
def StmtAcc (st : Stmt) (g : List Token) : Prop :=
  ∃ us, unparseStmt st = some us ∧ accounts true us g = true

theorem pStatements_acc (c : PCtx) : ∀ (n : Nat) (acc : List Stmt) (errs : Errs) (ts : List Token)
    (stmts : List Stmt), TokOK ts → pStatements c n acc errs ts = (stmts, []) →
    errs = [] ∧ ∃ more, stmts = acc ++ more ∧ Forall₂ StmtAcc more (splitStatementsToks ts) := by
  intro n
  induction n with
  | zero => intro acc errs ts stmts _ h; simp [pStatements] at h
  | succ n ih =>
    intro acc errs ts stmts hok h
    unfold pStatements at h
    dsimp only at h
    have hrepl := pStatement_repl c (splitSemi ts).1
    generalize hs : pStatement c (splitSemi ts).1 = r at h hrepl
    obtain ⟨o, es, b⟩ := r
    dsimp only at h hrepl
    -- what this statement contributes, once its errors are known to be empty
    have key : (if b = true then es else errs ++ es) = [] →
        errs = [] ∧
          Forall₂ StmtAcc o.toList (if (splitSemi ts).1 = [] then [] else [(splitSemi ts).1]) := by
      intro he
      cases b with
      | true => simp only [if_true] at he; exact absurd he (hrepl rfl)
      | false =>
        simp only [Bool.false_eq_true, if_false, List.append_eq_nil_iff] at he
        obtain ⟨rfl, rfl⟩ := he
        refine ⟨rfl, ?_⟩
        rcases pStatement_acc hok.splitSemi1 hs with ⟨hg, rfl⟩ | ⟨s, us, rfl, hg, hus, ha⟩
        · rw [if_pos hg]; exact Forall₂.nil
        · rw [if_neg hg]; exact Forall₂.cons ⟨us, hus, ha⟩ Forall₂.nil
    rw [splitStatementsToks_eq]
    split at h
    · rename_i hsp2
      simp only [Prod.mk.injEq] at h
      obtain ⟨rfl, he⟩ := h
      obtain ⟨herrs, hf⟩ := key he
      refine ⟨herrs, o.toList, by cases o <;> simp, ?_⟩
      rw [hsp2]
      simpa using hf
    · rename_i semi rest hsp2
      have hokr : TokOK rest := by
        have := hok.splitSemi2; rw [hsp2] at this; exact this.tail
      obtain ⟨he, more, rfl, hf⟩ := ih _ _ _ _ hokr h
      obtain ⟨herrs, hfm⟩ := key he
      refine ⟨herrs, o.toList ++ more, by cases o <;> simp, ?_⟩
      rw [hsp2]
      have e2 : (if (semi :: rest) = [] then [] else splitStatementsToks (semi :: rest).tail) =
          splitStatementsToks rest := by simp
      rw [e2]
      exact Forall₂.append hfm hf

/-- Stage 3: `parseTokens` without errors accounts for every statement's tokens. -/
theorem parseTokens_acc (srcLen : Nat) (ts : List Token) (stmts : List Stmt) (hok : TokOK ts)
    (h : parseTokens srcLen ts = (stmts, [])) : Forall₂ StmtAcc stmts (splitStatementsToks ts) := by
  unfold parseTokens at h
  obtain ⟨-, more, rfl, hf⟩ := pStatements_acc _ _ _ _ _ _ hok h
  simpa using hf

end Pql
