/-
Placeholders, part 3: the atom level of the commutation (`pAtomS`), and the invariant for every fuel.
-/
import PqlModel.Lemmas.E2EMoreInstExpr
namespace Pql.E2EMore
set_option linter.unusedSimpArgs false
open Pql Sql

/-- the argument part of a function call, as `pAtomS` reads it (after the `(`) -/
def callArgs (k : Nat) (r1 : List STok) : PR (Bool × SExprList) :=
  match r1 with
  | st :: rp :: r2 =>
    if isSym st "*" && isSym rp ")" then some ((true, .nil), r2)
    else if isSym st ")" then some ((false, .nil), rp :: r2)
    else
      match pListS k r1 with
      | some (as, r3) =>
        match r3 with
        | rp :: r4 => if isSym rp ")" then some ((false, as), r4) else none
        | [] => none
      | none => none
  | [st] => if isSym st ")" then some ((false, .nil), []) else none
  | [] => none

/-- the optional `FILTER (WHERE e)` after a call -/
def callTail (k : Nat) (w : Bytes) (star : Bool) (as : SExprList) (r : List STok) : PR SExpr :=
  match r with
  | f :: lp2 :: wh :: r2 =>
    if isWord f "FILTER" && isSym lp2 "(" && isWord wh "WHERE" then
      match pExprS k 0 r2 with
      | some (c, r3) =>
        match r3 with
        | rp :: r4 => if isSym rp ")" then some (.call w star as c, r4) else none
        | [] => none
      | none => none
    else some (.call w star as .none_, r)
  | _ => some (.call w star as .none_, r)

/-- `CASE WHEN c THEN a ELSE b END` after the word `CASE` -/
def caseBody (k : Nat) (rest : List STok) : PR SExpr :=
  match rest with
  | wh :: r1 =>
    if !isWord wh "WHEN" then none else
    match pExprS k 0 r1 with
    | some (c, r2) =>
      match r2 with
      | th :: r3 =>
        if !isWord th "THEN" then none else
        match pExprS k 0 r3 with
        | some (a, r4) =>
          match r4 with
          | el :: r5 =>
            if !isWord el "ELSE" then none else
            match pExprS k 0 r5 with
            | some (b, r6) =>
              match r6 with
              | en :: r7 => if isWord en "END" then some (.case_ c a b, r7) else none
              | [] => none
            | none => none
          | [] => none
        | none => none
      | [] => none
    | none => none
  | [] => none

theorem pAtomS_word (k : Nat) (w : Bytes) (rest : List STok) :
    pAtomS (k + 1) (.word w :: rest) =
      (let u := upper w
       let callFollows := match rest with | t :: _ => isSym t "(" | [] => false
       if (u == "TRUE" || u == "FALSE" || u == "NULL" || u == "CURRENT_TIMESTAMP") && !callFollows then some (.const u, rest)
       else if u == "CASE" then caseBody k rest
       else if operatorWords.contains u then none
       else
         match rest with
         | lp :: r1 =>
           if !isSym lp "(" then none else
           match callArgs k r1 with
           | some ((star, as), r) => callTail k w star as r
           | none => none
         | [] => none) := rfl

variable (ρ : Bytes → PVal)

theorem callTail_c {k : Nat} (ih : CInv ρ k) (w : Bytes) (star : Bool) (as : SExprList) (r : List STok) :
    callTail k w star (instL ρ as) (r.map (instTok ρ)) = (callTail k w star as r).map (instR ρ) := by
  rcases r with _ | ⟨f, _ | ⟨lp2, _ | ⟨wh, r2⟩⟩⟩
  · simp [callTail, instR, instS]
  · simp [callTail, instR, instS]
  · simp [callTail, instR, instS]
  · simp only [List.map_cons, callTail, isWord_inst, isSym_inst]
    split
    · rw [ih.expr]
      cases pExprS k 0 r2 with
      | none => rfl
      | some cr =>
        obtain ⟨c, r3⟩ := cr
        cases r3 with
        | nil => rfl
        | cons rp r4 =>
          simp only [Option.map_some, instR, List.map_cons, isSym_inst]
          split
          · simp [instS]
          · rfl
    · simp [instR, instS]

theorem callArgs_c {k : Nat} (ih : CInv ρ k) (r1 : List STok) :
    callArgs k (r1.map (instTok ρ)) =
      (callArgs k r1).map (fun r => ((r.1.1, instL ρ r.1.2), r.2.map (instTok ρ))) := by
  rcases r1 with _ | ⟨st, _ | ⟨rp, r2⟩⟩
  · rfl
  · simp only [List.map_cons, List.map_nil, callArgs, isSym_inst]
    split <;> simp [instL]
  · simp only [List.map_cons, callArgs, isSym_inst]
    split
    · simp [instL]
    · split
      · simp [instL]
      · rw [← List.map_cons, ← List.map_cons, ih.list]
        cases pListS k (st :: rp :: r2) with
        | none => rfl
        | some ar =>
          obtain ⟨as, r3⟩ := ar
          cases r3 with
          | nil => rfl
          | cons rp' r4 =>
            simp only [Option.map_some, instRL, List.map_cons, isSym_inst]
            split <;> simp

theorem caseBody_c {k : Nat} (ih : CInv ρ k) (rest : List STok) :
    caseBody k (rest.map (instTok ρ)) = (caseBody k rest).map (instR ρ) := by
  rcases rest with _ | ⟨wh, r1⟩
  · rfl
  simp only [List.map_cons, caseBody, isWord_inst]
  split
  · rfl
  rw [ih.expr]
  cases pExprS k 0 r1 with
  | none => rfl
  | some cr =>
  obtain ⟨c, r2⟩ := cr
  rcases r2 with _ | ⟨th, r3⟩
  · rfl
  simp only [Option.map_some, instR, List.map_cons, isWord_inst]
  split
  · rfl
  rw [ih.expr]
  cases pExprS k 0 r3 with
  | none => rfl
  | some ar =>
  obtain ⟨a, r4⟩ := ar
  rcases r4 with _ | ⟨el, r5⟩
  · rfl
  simp only [Option.map_some, instR, List.map_cons, isWord_inst]
  split
  · rfl
  rw [ih.expr]
  cases pExprS k 0 r5 with
  | none => rfl
  | some br =>
  obtain ⟨b, r6⟩ := br
  rcases r6 with _ | ⟨en, r7⟩
  · rfl
  simp only [Option.map_some, instR, List.map_cons, isWord_inst]
  split
  · simp [instS]
  · rfl

theorem atom_c {k : Nat} (ih : CInv ρ k) (ts : List STok) :
    pAtomS (k + 1) (ts.map (instTok ρ)) = (pAtomS (k + 1) ts).map (instR ρ) := by
  cases ts with
  | nil => simp [pAtomS]
  | cons t rest =>
    cases t with
    | str v => simp [pAtomS, instTok, instS]
    | num v => simp [pAtomS, instTok, instS]
    | param p =>
      cases hρ : ρ p <;> simp [pAtomS, instTok_param, instS, hρ, PVal.tok, PVal.sexpr]
    | qid n =>
      simp only [List.map_cons, instTok_qid, pAtomS]
      exact ih.col _ _
    | comment => simp [pAtomS, instTok]
    | sym s =>
      have hs : instTok ρ (.sym s) = .sym s := rfl
      simp only [List.map_cons, hs, pAtomS]
      split
      · rw [ih.expr]
        cases pExprS k 0 rest with
        | none => rfl
        | some xr =>
          obtain ⟨x, r⟩ := xr
          cases r with
          | nil => rfl
          | cons rp r2 =>
            simp only [Option.map_some, instR, List.map_cons, isSym_inst]
            split <;> simp
      · rfl
    | word w =>
      have hw : instTok ρ (.word w) = .word w := rfl
      rw [List.map_cons, hw, pAtomS_word, pAtomS_word]
      rcases rest with _ | ⟨lp, r1⟩
      · simp only [List.map_nil]
        split
        · simp [instR, instS]
        · split
          · rfl
          · split <;> rfl
      · simp only [List.map_cons, isSym_inst]
        split
        · simp [instR, instS]
        · split
          · rw [← List.map_cons]; exact caseBody_c ρ ih _
          · split
            · rfl
            · split
              · rfl
              · rw [callArgs_c ρ ih]
                cases callArgs k r1 with
                | none => rfl
                | some ar =>
                  obtain ⟨⟨star, as⟩, r⟩ := ar
                  simp only [Option.map_some]
                  exact callTail_c ρ ih w star as r

theorem CInv.succ {k : Nat} (ih : CInv ρ k) : CInv ρ (k + 1) :=
  ⟨expr_c ρ ih, trail_c ρ ih, unary_c ρ ih, post_c ρ ih, atom_c ρ ih, col_c ρ ih, list_c ρ ih⟩

theorem cInv : ∀ k, CInv ρ k
  | 0 => CInv.zero ρ
  | k + 1 => (cInv k).succ

/-- **the expression reader commutes with the instantiation of placeholders** -/
theorem pExprS_inst (k m : Nat) (ts : List STok) :
    pExprS k m (ts.map (instTok ρ)) = (pExprS k m ts).map (instR ρ) :=
  (cInv ρ k).expr m ts

end Pql.E2EMore
