/-
Placeholders, part 9: the lets `let k = <value of the placeholder>` a parameter list stands for, the scope
the statement loop builds from them, and the three fillings of ONE skeleton (placeholders, numbers, values).
-/
import PqlModel.Lemmas.E2EMoreHolesLex
import PqlModel.Lemmas.E2EMoreInstTop
import PqlModel.Lemmas.ParamsHoles
import PqlModel.Lemmas.E2EFinalProgram
import PqlModel.Props.C06ParamsAtomic
namespace Pql.E2EMore
set_option linter.unusedSimpArgs false
open Pql Sql LexRender Pql.Params CompileOracle Intended Pql.RT

/-- the PQL literal of a value -/
def PVal.expr : PVal → Expr
  | .str v => .lit .zero .string v
  | .num v => .lit .zero .number v

/-- a number value must be a number spelling (`numOK`: what the SQL lexer reads as one number) -/
def PVal.ok : PVal → Bool
  | .str _ => true
  | .num v => numOK v

/-- `let k = <value>` -/
def pletOf (k : Bytes) (v : PVal) : Stmt := .let_ .zero (some ⟨k, .zero, false⟩) .zero v.expr

/-- the lets a parameter list stands for under the assignment `ρ` of values to placeholder texts
    (first parameter = newest binding, as in the scope `Compile` starts from) -/
def pletsOf (ρ : Bytes → PVal) (params : List (Bytes × Bytes)) : List Stmt :=
  params.reverse.map fun kv => pletOf kv.1 (ρ kv.2)

/-- the scope the statement loop builds from `pletsOf ρ params` -/
def valScope (ρ : Bytes → PVal) (params : List (Bytes × Bytes)) : Scope :=
  params.map fun kv => (kv.1, [(ρ kv.2).chunk])

theorem pletsOf_isLets (ρ : Bytes → PVal) (params : List (Bytes × Bytes)) : IsLets (pletsOf ρ params) := by
  intro st hst
  obtain ⟨kv, _, rfl⟩ := List.mem_map.mp hst
  exact ⟨_, _, _, _, rfl⟩

theorem compileStmts_plets (src : Bytes) (ρ : Bytes → PVal) :
    ∀ (l : List (Bytes × Bytes)) (sc : Scope),
      compileStmts src (l.map fun kv => pletOf kv.1 (ρ kv.2)) sc none =
        .ok ((l.reverse.map fun kv => (kv.1, [(ρ kv.2).chunk])) ++ sc, none)
  | [], sc => rfl
  | kv :: l, sc => by
    have hw : (writeExpr ⟨src, sc, .let_⟩ (ρ kv.2).expr).map (wrapTight (ρ kv.2).expr) = .ok [(ρ kv.2).chunk] := by
      cases ρ kv.2 <;> rfl
    simp only [List.map_cons, pletOf, compileStmts, hw]
    have := compileStmts_plets src ρ l ((kv.1, [(ρ kv.2).chunk]) :: sc)
    simp only [pletOf] at this
    rw [this]
    simp

theorem compileStmts_pletsOf (src : Bytes) (ρ : Bytes → PVal) (params : List (Bytes × Bytes)) :
    compileStmts src (pletsOf ρ params) [] none = .ok (valScope ρ params, none) := by
  rw [pletsOf, compileStmts_plets]
  simp [valScope]

theorem valScope_keys (ρ : Bytes → PVal) (params : List (Bytes × Bytes)) :
    (valScope ρ params).map (·.1) = params.map (·.1) := by simp [valScope]

theorem paramScope_keys (params : List (Bytes × Bytes)) :
    (paramScope params).map (·.1) = params.map (·.1) := by simp [paramScope]

/-- the program with the lets in front compiles from the scope of the values -/
theorem compileChunks_plets (src : Bytes) (ρ : Bytes → PVal) (params : List (Bytes × Bytes)) (stmts : List Stmt) :
    compileChunks src [] (pletsOf ρ params ++ stmts) = compileFrom src (valScope ρ params) stmts := by
  rw [compileChunks_eq_from]
  unfold compileFrom
  rw [show paramScope [] = ([] : Scope) from rfl,
    compileStmts_lets_append src stmts (pletsOf ρ params) (pletsOf_isLets ρ params) [], compileStmts_pletsOf]
  rfl

/-- a scope over the keys of `params` compiles to a filling of the common skeleton -/
theorem compileFrom_skeleton (src : Bytes) (params : List (Bytes × Bytes)) (stmts : List Stmt) (s : Scope)
    (hk : s.map (·.1) = params.map (·.1)) :
    compileFrom src s stmts =
      (compileFrom src (holeScope (params.map (·.1))) stmts).map (bindRaw (fill s)) := by
  have h1 := compileFrom_bindScope (fill s) src (holeScope (s.map (·.1))) stmts
  rw [bindScope_holes, hk] at h1
  exact h1

theorem holeLex_fill (params : List (Bytes × Bytes)) (hph : ∀ kv ∈ params, isPlaceholder kv.2 = true) :
    HoleLex (fill (paramScope params)) (fill (valScope (fun _ => .num [48]) params)) := by
  intro v
  simp only [fill, paramScope, valScope, List.getElem?_map]
  cases h : params[v.length]? with
  | none => left; simp
  | some kv =>
    right
    exact ⟨kv.2, [48], by simp, hph kv (List.mem_of_getElem? h), by simp [PVal.chunk]⟩

theorem holeVal_fill (ρ : Bytes → PVal) (params : List (Bytes × Bytes))
    (hph : ∀ kv ∈ params, isPlaceholder kv.2 = true) :
    HoleVal ρ (fill (paramScope params)) (fill (valScope ρ params)) := by
  intro v
  simp only [fill, paramScope, valScope, List.getElem?_map]
  cases h : params[v.length]? with
  | none => left; simp
  | some kv =>
    right
    exact ⟨kv.2, by simp, hph kv (List.mem_of_getElem? h), by simp⟩

theorem plets_lexOK (ρ : Bytes → PVal) (stmts : List Stmt) (hs : stmtsLexOK stmts = true) :
    ∀ (l : List (Bytes × Bytes)), (∀ kv ∈ l, (ρ kv.2).ok = true) →
      stmtsLexOK ((l.map fun kv => pletOf kv.1 (ρ kv.2)) ++ stmts) = true
  | [], _ => hs
  | kv :: l, h => by
    simp only [List.map_cons, List.cons_append, pletOf, stmtsLexOK, Bool.and_eq_true]
    refine ⟨?_, plets_lexOK ρ stmts hs l (fun kv' h' => h kv' (List.mem_cons_of_mem _ h'))⟩
    have := h kv List.mem_cons_self
    cases hρ : ρ kv.2 with
    | str v => simp [PVal.expr, Expr.lexOK]
    | num v => rw [hρ] at this; simpa [PVal.expr, Expr.lexOK, PVal.ok] using this

theorem pletsOf_lexOK (ρ : Bytes → PVal) (params : List (Bytes × Bytes)) (stmts : List Stmt)
    (hs : stmtsLexOK stmts = true) (hρ : ∀ kv ∈ params, (ρ kv.2).ok = true) :
    stmtsLexOK (pletsOf ρ params ++ stmts) = true :=
  plets_lexOK ρ stmts hs params.reverse (fun kv h => hρ kv (List.mem_reverse.mp h))

theorem pletsOf_valuesOK (ρ : Bytes → PVal) (params : List (Bytes × Bytes))
    (hρ : ∀ kv ∈ params, (ρ kv.2).ok = true) : LetValuesOK (pletsOf ρ params) := by
  intro st hst kw n a x hx
  obtain ⟨kv, hkv, rfl⟩ := List.mem_map.mp hst
  simp only [pletOf, Stmt.let_.injEq] at hx
  obtain ⟨_, _, _, rfl⟩ := hx
  have := hρ kv (List.mem_reverse.mp hkv)
  cases hρ' : ρ kv.2 with
  | str v => simp [PVal.expr, Expr.lexOK, shapeOK]
  | num v => rw [hρ'] at this; simpa [PVal.expr, Expr.lexOK, shapeOK, PVal.ok] using this

end Pql.E2EMore
