/-
C13 / C01 glue, source level, part 2: the parser on `T | where name(a, a, …, a)` for ALL n.

`stmtAt name n` is the tree with the exact source positions; `parse (srcCall name n)` returns it
without error (through the forward parser theorem `C07_parse_src_partial`), and its misuse verdict
is `Misuse.wrongArity name n`.
-/
import PqlModel.Lemmas.GlueArityScan
import PqlModel.Props.C07Full
namespace Pql.Glue
open Pql Pql.Grammar

/-! ### the positioned tree -/

def aId (p : Nat) : Ident := ⟨B "a", Span.mk' p (p + 1), false⟩
def aAt (p : Nat) : Expr := .qident [aId p]

/-- the arguments after the one before position `p` (where `, a` or `)` starts) -/
def restArgs (p : Nat) : Nat → ExprList
  | 0 => .nil
  | k + 1 => .cons (aAt (p + 2)) (restArgs (p + 3) k)

def argsAt (p : Nat) : Nat → ExprList
  | 0 => .nil
  | k + 1 => .cons (aAt p) (restArgs (p + 1) k)

/-- where the closing parenthesis is -/
def restEnd (p : Nat) : Nat → Nat
  | 0 => p
  | k + 1 => restEnd (p + 3) k

def argEnd (p : Nat) : Nat → Nat
  | 0 => p
  | k + 1 => restEnd (p + 1) k

def fnId (name : Bytes) : Ident := ⟨name, Span.mk' 10 (10 + name.length), false⟩

def callAt (name : Bytes) (n : Nat) : Expr :=
  .call (fnId name) (Span.mk' (10 + name.length) (11 + name.length)) (argsAt (11 + name.length) n)
    (Span.mk' (argEnd (11 + name.length) n) (argEnd (11 + name.length) n + 1))

/-- the tree of `T | where name(a, …, a)` with the source positions of `srcCall name n` -/
def stmtAt (name : Bytes) (n : Nat) : Stmt :=
  .tabular (.mk (some ⟨B "T", Span.mk' 0 1, false⟩)
    (.cons (.where_ (Span.mk' 2 3) (Span.mk' 4 9) (callAt name n)) .nil))

theorem restEnd_eq (k : Nat) : ∀ p, restEnd p k = p + 3 * k := by
  induction k with
  | zero => intro p; rfl
  | succ k ih => intro p; simp only [restEnd, ih]; omega

/-! ### its misuse verdict -/

theorem aAt_ok (bound : List Bytes) (p : Nat) : Misuse.badExpr .plain bound (aAt p) = false := by
  have h1 : Misuse.isAlias (B "a") = false := by decide
  have h2 : (Misuse.Pos.plain == Misuse.Pos.letValue) = false := by decide
  simp only [aAt, aId, Misuse.badExpr, h1, h2]
  split <;> simp

theorem restArgs_ok (bound : List Bytes) (k : Nat) : ∀ p,
    Misuse.badList .plain bound (restArgs p k) = false ∧ (restArgs p k).length = k := by
  induction k with
  | zero => intro p; simp only [restArgs, Misuse.badList, ExprList.length, and_self]
  | succ k ih => intro p; simp only [restArgs, Misuse.badList, aAt_ok, ih, Bool.or_self, ExprList.length, and_self]

theorem argsAt_ok (bound : List Bytes) (p n : Nat) :
    Misuse.badList .plain bound (argsAt p n) = false ∧ (argsAt p n).length = n := by
  cases n with
  | zero => simp only [argsAt, Misuse.badList, ExprList.length, and_self]
  | succ k =>
    have h := restArgs_ok bound k (p + 1)
    simp only [argsAt, Misuse.badList, aAt_ok, h.1, h.2, Bool.or_self, ExprList.length, and_self]

theorem stmtAt_misuse (params : List Bytes) (name : Bytes) (n : Nat) :
    Misuse.misuse params [stmtAt name n] = Misuse.wrongArity name n := by
  have h : ∀ bound, Misuse.badExpr .plain bound (callAt name n) = Misuse.wrongArity name n := by
    intro bound
    have h := argsAt_ok bound (11 + name.length) n
    simp only [callAt, fnId, Misuse.badExpr, h.1, h.2, Bool.or_false]
  simp [Misuse.misuse, stmtAt, Misuse.misuseStmts, Misuse.badTabular, Misuse.badOps, Misuse.badOp, h]

/-! ### the tree is one of the grammar -/

theorem aAt_spine (p : Nat) : okSpine 0 (aAt p) = some inf := by
  simp [aAt, okSpine]

theorem restArgs_okList (k : Nat) : ∀ p, okList (restArgs p k) = true := by
  induction k with
  | zero => intro p; simp only [restArgs, okList]
  | succ k ih => intro p; simp only [restArgs, okList, aAt_spine, Option.isSome_some, ih, Bool.and_self]

theorem argsAt_okList (p n : Nat) : okList (argsAt p n) = true := by
  cases n with
  | zero => simp only [argsAt, okList]
  | succ k => simp only [argsAt, okList, aAt_spine, Option.isSome_some, restArgs_okList, Bool.and_self]

theorem stmtAt_wf (name : Bytes) (n : Nat) : Grammar.wfStmt (stmtAt name n) = true := by
  simp [stmtAt, Grammar.wfStmt, Grammar.wfTabular, Grammar.wfOps, Grammar.wfOp, okExpr, callAt, okSpine, fnId,
    argsAt_okList]

/-! ### what the tree stands for -/

def rparenU (p : Nat) : UTok := { sym .rparen (Span.mk' p (p + 1)) with optComma := true }

def uRest (p : Nat) : Nat → List UTok
  | 0 => []
  | k + 1 => commaTok :: identTok (aId (p + 2)) :: uRest (p + 3) k

def uArgs (p : Nat) : Nat → List UTok
  | 0 => []
  | k + 1 => identTok (aId p) :: uRest (p + 1) k

theorem unparse_aAt (p : Nat) : unparseExpr (aAt p) = some [identTok (aId p)] := by
  simp [aAt, unparseExpr, identsDotted]

theorem unparse_rest (k : Nat) : ∀ q p,
    unparseExprList (.cons (aAt q) (restArgs p k)) = some (identTok (aId q) :: uRest p k) := by
  induction k with
  | zero => intro q p; simp only [restArgs, unparseExprList, unparse_aAt, uRest]
  | succ k ih =>
    intro q p
    simp only [restArgs, unparseExprList, unparse_aAt, ih, uRest, bind, Option.bind, pure, List.cons_append,
      List.nil_append]

theorem unparse_args (p n : Nat) : unparseExprList (argsAt p n) = some (uArgs p n) := by
  cases n with
  | zero => simp only [argsAt, unparseExprList, uArgs]
  | succ k => simp only [argsAt, unparse_rest, uArgs]

def uCall (name : Bytes) (n : Nat) : List UTok :=
  identTok ⟨B "T", Span.mk' 0 1, false⟩ :: sym .pipe (Span.mk' 2 3) :: kwTok ["where", "filter"] (Span.mk' 4 9) ::
    identTok (fnId name) :: sym .lparen (Span.mk' (10 + name.length) (11 + name.length)) ::
    (uArgs (11 + name.length) n ++ [rparenU (argEnd (11 + name.length) n)])

theorem unparse_stmtAt (name : Bytes) (n : Nat) : unparseStmt (stmtAt name n) = some (uCall name n) := by
  simp [stmtAt, unparseStmt, unparseTabular, unparseOps, unparseOp, callAt, unparseExpr, unparse_args, uCall,
    rparenU]

/-! ### the tokens realise it -/

theorem acc_rparen (p : Nat) : accounts true [rparenU p] [⟨.rparen, p, p + 1, []⟩] = true := by
  simp [accounts, rparenU, sym, tokMatches, posMatches, Span.mk']

theorem acc_rest (k : Nat) : ∀ p,
    accounts true (uRest p k ++ [rparenU (restEnd p k)]) (restToks p k) = true := by
  induction k with
  | zero => intro p; exact acc_rparen p
  | succ k ih =>
    intro p
    have := ih (p + 3)
    simp [uRest, restToks, restEnd, accounts, commaTok, identTok, aId, tokMatches, posMatches, Span.mk', this,
      Nat.add_assoc]

theorem acc_args (p n : Nat) :
    accounts true (uArgs p n ++ [rparenU (argEnd p n)]) (argToks p n) = true := by
  cases n with
  | zero => exact acc_rparen p
  | succ k =>
    have := acc_rest k (p + 1)
    simp [uArgs, argToks, argEnd, accounts, identTok, aId, tokMatches, posMatches, Span.mk', this]

theorem acc_call (name : Bytes) (n : Nat) : accounts true (uCall name n) (toksCall name n) = true := by
  have h := acc_args (11 + name.length) n
  simp [uCall, toksCall, accounts, identTok, sym, kwTok, fnId, tokMatches, posMatches, Span.mk', h, B]

/-! ### no comma directly after `(` -/

theorem nlc_no_lparen : ∀ (ts : List Token), (∀ t ∈ ts, t.kind ≠ .lparen) → NoLparenComma ts = true
  | [], _ => rfl
  | a :: ts, h => by
    have ha : (a.kind == TokKind.lparen) = false := by
      simpa using h a (List.mem_cons_self ..)
    have ht := nlc_no_lparen ts (fun t ht => h t (List.mem_cons_of_mem _ ht))
    cases ts <;> simp [NoLparenComma, ha] at ht ⊢ <;> exact ht

theorem restToks_no_lparen (k : Nat) : ∀ p, ∀ t ∈ restToks p k, t.kind ≠ .lparen := by
  induction k with
  | zero => intro p t ht; simp only [restToks, List.mem_singleton] at ht; subst ht; simp
  | succ k ih =>
    intro p t ht
    simp only [restToks, List.mem_cons] at ht
    rcases ht with rfl | rfl | ht
    · simp
    · simp
    · exact ih _ t ht

theorem argToks_no_lparen (p n : Nat) : ∀ t ∈ argToks p n, t.kind ≠ .lparen := by
  cases n with
  | zero => intro t ht; simp only [argToks, List.mem_singleton] at ht; subst ht; simp
  | succ k =>
    intro t ht
    simp only [argToks, List.mem_cons] at ht
    rcases ht with rfl | ht
    · simp
    · exact restToks_no_lparen k _ t ht

theorem argToks_head (p n : Nat) : ∃ t r, argToks p n = t :: r ∧ t.kind ≠ .comma := by
  cases n with
  | zero => exact ⟨_, _, rfl, by simp⟩
  | succ k => exact ⟨_, _, rfl, by simp⟩

theorem nlc_call (name : Bytes) (n : Nat) : NoLparenComma (toksCall name n) = true := by
  obtain ⟨t, r, ht, hk⟩ := argToks_head (11 + name.length) n
  have h := nlc_no_lparen _ (argToks_no_lparen (11 + name.length) n)
  have hk' : (t.kind == TokKind.comma) = false := by simpa using hk
  rw [ht] at h
  simp [toksCall, NoLparenComma, ht, hk'] at h ⊢
  exact h

/-! ### one statement -/

theorem toksCall_nosemi (name : Bytes) (n : Nat) : ∀ t ∈ toksCall name n, t.kind ≠ .semi := by
  intro t ht
  have hr : ∀ k p, ∀ t ∈ restToks p k, t.kind ≠ .semi := by
    intro k
    induction k with
    | zero => intro p t ht; simp only [restToks, List.mem_singleton] at ht; subst ht; simp
    | succ k ih =>
      intro p t ht
      simp only [restToks, List.mem_cons] at ht
      rcases ht with rfl | rfl | ht
      · simp
      · simp
      · exact ih _ t ht
  have ha : ∀ t ∈ argToks (11 + name.length) n, t.kind ≠ .semi := by
    cases n with
    | zero => intro t ht; simp only [argToks, List.mem_singleton] at ht; subst ht; simp
    | succ k =>
      intro t ht
      simp only [argToks, List.mem_cons] at ht
      rcases ht with rfl | ht
      · simp
      · exact hr k _ t ht
  simp only [toksCall, List.mem_cons] at ht
  rcases ht with rfl | rfl | rfl | rfl | rfl | ht
  · simp
  · simp
  · simp
  · simp
  · simp
  · exact ha t ht

theorem go_nosemi : ∀ (ts cur : List Token), (∀ t ∈ ts, t.kind ≠ .semi) → cur.reverse ++ ts ≠ [] →
    splitStatementsToks.go ts cur = [cur.reverse ++ ts]
  | [], cur, _, hne => by
    rw [go_nil]
    cases cur with
    | nil => simp at hne
    | cons c cs => simp
  | t :: ts, cur, h, _ => by
    have hk : (t.kind == TokKind.semi) = false := by simpa using h t (List.mem_cons_self ..)
    rw [go_cons, hk]
    simp only [Bool.false_eq_true, if_false]
    rw [go_nosemi ts (t :: cur) (fun t' ht' => h t' (List.mem_cons_of_mem _ ht')) (by simp)]
    simp

theorem split_toksCall (name : Bytes) (n : Nat) :
    splitStatementsToks (toksCall name n) = [toksCall name n] := by
  have := go_nosemi (toksCall name n) [] (toksCall_nosemi name n) (by simp [toksCall])
  exact this

/-- **the parser on the family.** -/
theorem parse_srcCall (name : Bytes) (n : Nat) (hn : identName name = true) :
    parse (srcCall name n) = ([stmtAt name n], []) := by
  apply C07.C07_parse_src_partial
  rw [scan_srcCall name n hn, split_toksCall]
  refine Forall₂.cons ?_ Forall₂.nil
  exact ⟨stmtAt_wf name n, rfl, rfl, uCall name n, unparse_stmtAt name n, acc_call name n, nlc_call name n⟩

end Pql.Glue
