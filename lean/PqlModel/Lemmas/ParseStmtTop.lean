/-
C05, syntactic half, stage 3 (c): the whole statement — the chunks `compileChunks` emits for a
program consisting of one pipeline are read by `parseStatement` as the intended statement.
-/
import PqlModel.Lemmas.ParseStmtCtes
import PqlModel.Lemmas.ParseStmtSplit
namespace Pql.C05
set_option linter.unusedSimpArgs false
set_option linter.unusedVariables false
open Pql Sql CompileOracle Intended Pql.RT

theorem compileChunks_tabular (src : Bytes) (t : Tabular) (cs : List Chunk)
    (hc : compileChunks src [] [.tabular t] = .ok cs) :
    ∃ ctes query body, splitQueries src [] [] t = .ok (ctes ++ [query]) ∧
      query.write ⟨src, [], .default⟩ = .ok body ∧
      ((ctes = [] ∧ cs = body ++ [.txt ";"]) ∨
       (ctes ≠ [] ∧ ∃ c, writeCtes ⟨src, [], .default⟩ ctes = .ok c ∧ cs = .txt "WITH " :: c ++ body ++ [.txt ";"])) := by
  simp only [compileChunks, compileStmts, List.map_nil] at hc
  simp only [bind, Except.bind] at hc
  cases hs : splitQueries src [] [] t with
  | error e => rw [hs] at hc; cases hc
  | ok subs =>
    rw [hs] at hc
    simp only at hc
    cases hrev : subs.reverse with
    | nil => rw [hrev] at hc; cases hc
    | cons query ctesRev =>
      rw [hrev] at hc
      simp only at hc
      have hsubs : subs = ctesRev.reverse ++ [query] := by
        have := congrArg List.reverse hrev
        simpa using this
      by_cases hE : ctesRev.reverse.isEmpty = true
      · simp only [hE, if_true, pure, Except.pure] at hc
        cases hb : query.write ⟨src, [], .default⟩ with
        | error e => rw [hb] at hc; cases hc
        | ok body =>
          rw [hb] at hc
          simp only [Except.ok.injEq, List.nil_append] at hc
          exact ⟨ctesRev.reverse, query, body, by rw [hsubs], hb, Or.inl ⟨List.isEmpty_iff.1 hE, hc.symm⟩⟩
      · simp only [hE, Bool.false_eq_true, if_false, pure, Except.pure] at hc
        cases hw : writeCtes ⟨src, [], .default⟩ ctesRev.reverse with
        | error e => rw [hw] at hc; cases hc
        | ok c =>
          rw [hw] at hc
          simp only at hc
          cases hb : query.write ⟨src, [], .default⟩ with
          | error e => rw [hb] at hc; cases hc
          | ok body =>
            rw [hb] at hc
            simp only [Except.ok.injEq] at hc
            refine ⟨ctesRev.reverse, query, body, by rw [hsubs], hb, Or.inr ⟨?_, c, hw, hc.symm⟩⟩
            intro he
            rw [he] at hE
            exact hE rfl

/-- the statement theorem with all its witnesses: the chain `subsA` of intended links, the parsed
    CTEs / body and the intended ones, related field by field -/
theorem statement_parse (src : Bytes) (t : Tabular) (cs : List Chunk) (hok : tabularOK t = true)
    (hc : compileChunks src [] [.tabular t] = .ok cs) :
    ∃ (subs : List Subquery) (ctesA : List SubA) (qA : SubA) (parsed wants : List (Bytes × Select)) (sel wbody : Select),
      splitQueries src [] [] t = .ok subs ∧ splitA [] t = some (ctesA ++ [qA]) ∧
      ListRel (EraseRel src []) (ctesA ++ [qA]) subs ∧
      parseStatement (toksOf cs) = some ⟨parsed, sel⟩ ∧ intended src [.tabular t] = some ⟨wants, wbody⟩ ∧
      ctesA.mapM (cteOf src) = some wants ∧ selOf src qA = some wbody ∧
      ListRel CteRel parsed wants ∧ SelRel sel wbody := by
  obtain ⟨ctes, query, body, hsplit, hbody, hcase⟩ := compileChunks_tabular src t cs hc
  obtain ⟨subsA, hA, hrel, _⟩ := splitQueries_refines src [] t [] [] .nil _ hsplit
  have hAll : AllOK subsA := splitA_ok t hok [] subsA (by intro a ha; cases ha) hA
  obtain ⟨ctesA, qA, rfl, hrelC, hrelQ⟩ := listRel_snoc hrel
  have hqOK : subOK qA = true := hAll qA (by simp)
  have hcOK : AllOK ctesA := fun a ha => hAll a (by simp [ha])
  obtain ⟨sel, wbody, hp, hw, hsr⟩ := select_parse src qA query body [S ";"] hrelQ hqOK hbody ⟨[], Or.inr rfl⟩
  have hint : ∀ wants, ctesA.mapM (cteOf src) = some wants → intended src [.tabular t] = some ⟨wants, wbody⟩ := by
    intro wants hwm
    simp only [intended, resolveLets, substTabular_nil, Option.bind_eq_bind, Option.bind_some, hA, stmtOf_snoc, hwm, hw]
    rfl
  obtain ⟨w, tl, hts, hup⟩ := pSelect_head hp
  rcases hcase with ⟨rfl, rfl⟩ | ⟨hne, c, hwc, rfl⟩
  · cases hrelC
    refine ⟨_, [], qA, [], [], sel, wbody, hsplit, hA, hrel, ?_, hint [] rfl, rfl, hw, .nil, hsr⟩
    have e : toksOf (body ++ [Chunk.txt ";"]) = toksOf body ++ [S ";"] := by simp
    rw [e]
    have hW : isWord (STok.word w) "WITH" = false := by simp [hup]
    unfold parseStatement
    rw [hts] at hp ⊢
    simp only [hW, Bool.false_eq_true, if_false, hp]
    simp
  · have hcomma : Ends (fun t => !isSym t ",") (toksOf body ++ [S ";"]) := by rw [hts]; rfl
    obtain ⟨parsed, wants, hpc, hwm, hrl⟩ := ctes_parse src hrelC hcOK hne c hwc (toksOf body ++ [S ";"]) hcomma
      ((toksOf c ++ (toksOf body ++ [S ";"])).length + 1) (by
        have := writeCtes_length _ ctes c hwc
        simp only [List.length_append]
        omega)
    refine ⟨_, ctesA, qA, parsed, wants, sel, wbody, hsplit, hA, hrel, ?_, hint wants hwm, hwm, hw, hrl, hsr⟩
    have e : toksOf (Chunk.txt "WITH " :: c ++ body ++ [Chunk.txt ";"]) =
        RT.W "WITH" :: (toksOf c ++ (toksOf body ++ [S ";"])) := by simp
    rw [e]
    unfold parseStatement
    simp only [isWord_word, up_WITH, beq_self_eq_true, if_true, hpc, hp]
    simp

end Pql.C05
