/-
Placeholders, part 8: the induction over the chunk list with holes (`holes_lex`, `holes_inst`).
-/
import PqlModel.Lemmas.E2EMoreHoles
namespace Pql.E2EMore
set_option linter.unusedSimpArgs false
open Pql Sql LexRender Pql.Params

/-- the two fillings of the holes: placeholders (`σ`) and numbers (`σ'`) -/
def HoleLex (σ σ' : Bytes → List Chunk) : Prop :=
  ∀ v, (σ v = [] ∧ σ' v = []) ∨
    ∃ text n, σ v = [.raw text] ∧ isPlaceholder text = true ∧ σ' v = [.num n]

/-- the tokens `lexAux` emits for a chunk (comments included), a raw chunk being one placeholder -/
def ptoks : Chunk → List STok
  | .raw t => [.param t]
  | c => rawToks (chunkAtoms c)

theorem steps_cons (c : Chunk) (cs : List Chunk) : steps (c :: cs) = steps [c] + steps cs := by
  simp [steps, atomsOf]

theorem ptoks_notRaw {c : Chunk} (h : ∀ v, c ≠ .raw v) : ptoks c = rawToksOf [c] := by
  cases c with
  | raw v => exact absurd rfl (h v)
  | _ => simp [ptoks, rawToksOf, atomsOf]

theorem bindRaw_notRaw (σ : Bytes → List Chunk) {c : Chunk} (h : ∀ v, c ≠ .raw v) (cs : List Chunk) :
    bindRaw σ (c :: cs) = c :: bindRaw σ cs := by
  cases c with
  | raw v => exact absurd rfl (h v)
  | _ => rfl

structure HolesOut (cs cs' : List Chunk) (rest : Bytes) : Prop where
  lexes : ∀ f, lexAux .standard (f + steps cs') (renderChunks cs ++ rest) =
    (lexAux .standard f rest).map (cs.flatMap ptoks ++ ·)
  head : HeadRel (renderChunks cs' ++ rest) (renderChunks cs ++ rest)
  len : steps cs' ≤ (renderChunks cs).length
  toks : (cs.flatMap ptoks).filter (· != .comment) = toksOf cs

theorem holes_lex (σ σ' : Bytes → List Chunk) (hσ : HoleLex σ σ') :
    ∀ (r0 : List Chunk) (rest : Bytes), AdjC rest (bindRaw σ' r0) = true → rest.head? ≠ some 36 →
      HolesOut (bindRaw σ r0) (bindRaw σ' r0) rest
  | [], rest, _, _ => by
    refine ⟨fun f => ?_, HeadRel.refl _, by simp [steps, atomsOf], rfl⟩
    simp only [bindRaw_nil, steps, atomsOf, List.flatMap_nil, List.length_nil, Nat.add_zero, renderChunks,
      List.nil_append]
    cases lexAux .standard f rest <;> rfl
  | c :: r0, rest, hadj, hrest => by
    by_cases hc : ∃ v, c = .raw v
    · obtain ⟨v, rfl⟩ := hc
      rcases hσ v with ⟨e1, e2⟩ | ⟨text, n, e1, hph, e2⟩
      · simp only [bindRaw_raw, e1, e2, List.nil_append] at hadj ⊢
        exact holes_lex σ σ' hσ r0 rest hadj hrest
      · simp only [bindRaw_raw, e1, e2, List.cons_append, List.nil_append] at hadj
        rw [bindRaw_raw, bindRaw_raw, e1, e2, List.cons_append, List.nil_append, List.cons_append, List.nil_append]
        obtain ⟨h1, h2⟩ := AdjC_split (a := [.num n]) (b := bindRaw σ' r0) hadj
        have ih := holes_lex σ σ' hσ r0 rest h2 hrest
        have hnd := chunks_head_ne_dollar hrest h2
        -- the number atom
        obtain ⟨_, hb⟩ := AdjC_elim h1
        simp only [atomsOf, List.flatMap_cons, List.flatMap_nil, chunkAtoms, List.append_nil, AdjBefore,
          Bool.and_eq_true, renderAtoms, List.nil_append, Bool.and_true] at hb
        obtain ⟨hnum, hfol⟩ := hb
        obtain ⟨d0, n', rfl, hd0, _⟩ := numOK_scan n hnum
        obtain ⟨c0, w0, rfl⟩ := isPlaceholder_ne hph
        -- what follows the hole
        have hX : ∀ d, (renderChunks (bindRaw σ r0) ++ rest).head? = some d → isWordCont d = false := by
          intro d hd
          rcases ih.head with e | ⟨d', c', hd', hdig, _, _⟩
          · rw [e] at hd
            have hbad := follows_elim hfol d hd
            simp only [Atom.bad, numBad, Bool.or_eq_false_iff] at hbad
            have hne : d ≠ 36 := fun e' => hnd (e' ▸ hd)
            simp only [isWordCont, hbad.2, hbad.1.1, Bool.false_or, beq_eq_false_iff_ne, ne_eq]
            exact hne
          · have hbad := follows_elim hfol d' hd'
            simp [Atom.bad, numBad, hdig] at hbad
        refine ⟨fun f => ?_, ?_, ?_, ?_⟩
        · rw [steps_cons, renderChunks_cons, List.append_assoc]
          have hs1 : steps [Chunk.num (d0 :: n')] = 1 := rfl
          rw [hs1, show f + (1 + steps (bindRaw σ' r0)) = (f + steps (bindRaw σ' r0)) + 1 by omega]
          simp only [Chunk.bytes]
          rw [lexAux_placeholder _ _ _ hph hX, ih.lexes f]
          simp only [List.flatMap_cons, ptoks]
          cases lexAux .standard f rest <;> simp
        · right
          exact ⟨d0, c0, by simp [renderChunks_cons, Chunk.bytes], hd0, by simp [renderChunks_cons, Chunk.bytes],
            isPlaceholder_head hph⟩
        · rw [steps_cons, renderChunks_cons, List.length_append]
          have hs1 : steps [Chunk.num (d0 :: n')] = 1 := rfl
          have := ih.len
          simp only [Chunk.bytes, List.length_cons, hs1]
          omega
        · simp only [List.flatMap_cons, ptoks, List.filter_append, toksOf_cons, chunkToks, lex_placeholder _ hph,
            Option.getD_some]
          rw [ih.toks]
          rfl
    · have hc' : ∀ v, c ≠ .raw v := fun v e => hc ⟨v, e⟩
      rw [bindRaw_notRaw σ' hc'] at hadj
      rw [bindRaw_notRaw σ' hc', bindRaw_notRaw σ hc']
      obtain ⟨h1, h2⟩ := AdjC_split (a := [c]) (b := bindRaw σ' r0) hadj
      have ih := holes_lex σ σ' hσ r0 rest h2 hrest
      have h1' : AdjC (renderChunks (bindRaw σ r0) ++ rest) [c] = true := AdjC_transfer ih.head h1
      refine ⟨fun f => ?_, ?_, ?_, ?_⟩
      · rw [steps_cons, renderChunks_cons, List.append_assoc,
          show f + (steps [c] + steps (bindRaw σ' r0)) = (f + steps (bindRaw σ' r0)) + steps [c] by omega]
        have := lexRender_of_adj_raw [c] _ (f + steps (bindRaw σ' r0)) h1'
        simp only [renderChunks, List.flatMap_cons, List.flatMap_nil, List.append_nil] at this
        simp only [renderChunks]
        rw [this]
        have ih' := ih.lexes f
        simp only [renderChunks] at ih'
        rw [ih']
        simp only [List.flatMap_cons, ptoks_notRaw hc']
        cases lexAux .standard f rest <;> simp
      · rw [renderChunks_cons, renderChunks_cons, List.append_assoc, List.append_assoc]
        exact ih.head.pre _
      · rw [steps_cons, renderChunks_cons, List.length_append]
        have := steps_le h1
        simp only [renderChunks, List.flatMap_cons, List.flatMap_nil, List.append_nil] at this
        have := ih.len
        omega
      · obtain ⟨hok, hb⟩ := AdjC_elim h1
        simp only [List.all_cons, List.all_nil, Bool.and_true] at hok
        have hb' : AdjBefore [] (chunkAtoms c) = true := by
          have : atomsOf [c] = chunkAtoms c := by simp [atomsOf]
          rw [this] at hb
          exact AdjBefore_nil_of hb
        simp only [List.flatMap_cons, List.filter_append, toksOf_cons]
        rw [ih.toks, ptoks_notRaw hc']
        have : rawToksOf [c] = rawToks (chunkAtoms c) := by simp [rawToksOf, atomsOf]
        rw [this, chunkToks_eq hok hb']

/-- **the text with placeholders in the holes lexes to its chunk tokens** -/
theorem holes_lex_top (σ σ' : Bytes → List Chunk) (hσ : HoleLex σ σ') (r0 : List Chunk)
    (hadj : Adj (bindRaw σ' r0) = true) :
    lex .standard (renderChunks (bindRaw σ r0)) = some (toksOf (bindRaw σ r0)) := by
  have h := holes_lex σ σ' hσ r0 [] hadj (by simp)
  have hl := h.lexes ((renderChunks (bindRaw σ r0)).length - steps (bindRaw σ' r0) + 1)
  have hlen := h.len
  simp only [List.append_nil] at hl
  rw [show (renderChunks (bindRaw σ r0)).length - steps (bindRaw σ' r0) + 1 + steps (bindRaw σ' r0) =
    (renderChunks (bindRaw σ r0)).length + 1 by omega, lexAux_nil_pos] at hl
  simp only [lex, lexRaw, hl, Option.map_some, List.append_nil, h.toks]


/-- the chunk a value is written as (what the compiler stores for `let p = 'v'` / `let p = 42`) -/
def PVal.chunk : PVal → Chunk
  | .str v => .qstr v
  | .num v => .num v

/-- the two fillings of the holes: placeholders (`σ`) and their values under `ρ` (`σ''`) -/
def HoleVal (ρ : Bytes → PVal) (σ σ'' : Bytes → List Chunk) : Prop :=
  ∀ v, (σ v = [] ∧ σ'' v = []) ∨
    ∃ text, σ v = [.raw text] ∧ isPlaceholder text = true ∧ σ'' v = [(ρ text).chunk]

theorem atom_toks_inst (ρ : Bytes → PVal) (a : Atom) : a.toks.map (instTok ρ) = a.toks := by
  cases a <;> simp [Atom.toks, instTok]

theorem rawToks_inst (ρ : Bytes → PVal) : ∀ as : List Atom, (rawToks as).map (instTok ρ) = rawToks as
  | [] => rfl
  | a :: r => by rw [rawToks_cons, List.map_append, atom_toks_inst, rawToks_inst ρ r]

theorem filter_map_inst (ρ : Bytes → PVal) {ts : List STok} (h : ts.map (instTok ρ) = ts) :
    (ts.filter (· != .comment)).map (instTok ρ) = ts.filter (· != .comment) := by
  induction ts with
  | nil => rfl
  | cons t r ih =>
    simp only [List.map_cons, List.cons.injEq] at h
    by_cases ht : (t != STok.comment) = true
    · simp only [List.filter_cons, ht, if_true, List.map_cons, h.1, ih h.2]
    · simp only [List.filter_cons, ht, if_false, Bool.false_eq_true, ih h.2]

/-- **the tokens with placeholders, instantiated, are the tokens with the values in the holes** -/
theorem holes_inst (ρ : Bytes → PVal) (σ σ'' σ' : Bytes → List Chunk) (hv : HoleVal ρ σ σ'') :
    ∀ (r0 : List Chunk) (rest : Bytes), AdjC rest (bindRaw σ' r0) = true →
      (toksOf (bindRaw σ r0)).map (instTok ρ) = toksOf (bindRaw σ'' r0)
  | [], _, _ => rfl
  | c :: r0, rest, hadj => by
    by_cases hc : ∃ v, c = .raw v
    · obtain ⟨v, rfl⟩ := hc
      rw [bindRaw_raw] at hadj
      have ih := holes_inst ρ σ σ'' σ' hv r0 rest (AdjC_split hadj).2
      rw [bindRaw_raw, bindRaw_raw, toksOf_append, toksOf_append, List.map_append, ih]
      rcases hv v with ⟨e1, e2⟩ | ⟨text, e1, hph, e2⟩
      · rw [e1, e2]; rfl
      · rw [e1, e2]
        congr 1
        have hi : instTok ρ (.param text) = (ρ text).tok := rfl
        simp only [toksOf, List.flatMap_cons, List.flatMap_nil, List.append_nil, chunkToks, lex_placeholder _ hph,
          Option.getD_some, List.map_cons, List.map_nil, hi]
        cases hρ : ρ text <;> rfl
    · have hc' : ∀ v, c ≠ .raw v := fun v e => hc ⟨v, e⟩
      rw [bindRaw_notRaw σ' hc'] at hadj
      obtain ⟨h1, h2⟩ := AdjC_split (a := [c]) (b := bindRaw σ' r0) hadj
      have ih := holes_inst ρ σ σ'' σ' hv r0 rest h2
      rw [bindRaw_notRaw σ hc', bindRaw_notRaw σ'' hc', toksOf_cons, toksOf_cons, List.map_append, ih]
      congr 1
      obtain ⟨hok, hb⟩ := AdjC_elim h1
      simp only [List.all_cons, List.all_nil, Bool.and_true] at hok
      have hb' : AdjBefore [] (chunkAtoms c) = true := by
        have : atomsOf [c] = chunkAtoms c := by simp [atomsOf]
        rw [this] at hb
        exact AdjBefore_nil_of hb
      rw [← chunkToks_eq hok hb']
      exact filter_map_inst ρ (rawToks_inst ρ _)

end Pql.E2EMore
