/-
C08, second sentence — part 3: the token classes of `unparseExpr` (structural induction over the
expression AST).  For every expression a parse returns (`ParsedOK.sOK`): its `unparse` is
non-empty, starts with something that can start an operand, ends with an operand end, has only
allowed neighbours, and is bracket-balanced.
-/
import PqlModel.Lemmas.RejectCl
import PqlModel.Lemmas.ParsedOKExpr
namespace Pql.Reject
open Pql Pql.Grammar
open Pql.ParsedOK (sOK sOKList)
open Pql.Exact (knownBinOp)

/-- first classes of an expression -/
def FE : List Cl := [.nm, .lit, .s .lparen, .s .plus, .s .minus]
/-- last classes of an expression -/
def LE : List Cl := [.nm, .lit, .s .rparen, .s .rbracket]

/-- the facts about the token classes of a piece of an `unparse` -/
structure Good (F L : List Cl) (us : List UTok) : Prop where
  lin : Lin F L (us.map cl)
  bal : BalC (us.map cl)

theorem Good.one (u : UTok) (hbr : (cl u).br = .n) : Good [cl u] [cl u] [u] :=
  ⟨Lin.one _, BalC.one _ hbr⟩

theorem Good.app {F L F' L' : List Cl} {a c : List UTok} (ha : Good F L a) (hc : Good F' L' c)
    (h : ∀ x ∈ L, ∀ y ∈ F', okPair x y = true) : Good F L' (a ++ c) :=
  ⟨by rw [List.map_append]; exact ha.lin.app hc.lin h, by rw [List.map_append]; exact ha.bal.app hc.bal⟩

theorem Good.cons {F L : List Cl} {l : List UTok} (u : UTok) (c : Cl) (hc : cl u = c) (hbr : c.br = .n)
    (hl : Good F L l) (h : ∀ y ∈ F, okPair c y = true) : Good [c] L (u :: l) := by
  subst hc
  exact ⟨by rw [List.map_cons]; exact hl.lin.cons _ h, by rw [List.map_cons]; exact hl.bal.cons _ hbr⟩

theorem Good.snoc {F L : List Cl} {l : List UTok} (u : UTok) (c : Cl) (hc : cl u = c) (hbr : c.br = .n)
    (hl : Good F L l) (h : ∀ x ∈ L, okPair x c = true) : Good F [c] (l ++ [u]) := by
  subst hc
  exact hl.app (Good.one u hbr) (by intro x hx y hy; rw [List.mem_singleton.1 hy]; exact h x hx)

theorem Good.mono {F L F' L' : List Cl} {l : List UTok} (hl : Good F L l)
    (hF : ∀ a ∈ F, a ∈ F') (hL : ∀ a ∈ L, a ∈ L') : Good F' L' l :=
  ⟨hl.lin.mono hF hL, hl.bal⟩

/-- `( a ) rest` -/
theorem Good.parenRest {F L F' L' : List Cl} {a rest : List UTok} (lp rp : UTok)
    (hlp : cl lp = .s .lparen) (hrp : cl rp = .s .rparen) (ha : Good F L a) (hr : Good F' L' rest)
    (h1 : ∀ y ∈ F, okPair (.s .lparen) y = true) (h2 : ∀ x ∈ L, okPair x (.s .rparen) = true)
    (h3 : ∀ y ∈ F', okPair (.s .rparen) y = true) : Good [.s .lparen] L' (lp :: (a ++ rp :: rest)) := by
  refine ⟨?_, ?_⟩
  · have h := ((ha.lin.snoc (.s .rparen) h2).app hr.lin
      (by intro x hx y hy; rw [List.mem_singleton.1 hx]; exact h3 y hy)).cons (.s .lparen) h1
    simpa [hlp, hrp] using h
  · have h := BalC.paren ha.bal hr.bal
    simpa [hlp, hrp] using h

/-- `( a )` -/
theorem Good.paren {F L : List Cl} {a : List UTok} (lp rp : UTok)
    (hlp : cl lp = .s .lparen) (hrp : cl rp = .s .rparen) (ha : Good F L a)
    (h1 : ∀ y ∈ F, okPair (.s .lparen) y = true) (h2 : ∀ x ∈ L, okPair x (.s .rparen) = true) :
    Good [.s .lparen] [.s .rparen] (lp :: (a ++ [rp])) := by
  refine ⟨?_, ?_⟩
  · have h := (ha.lin.snoc (.s .rparen) h2).cons (.s .lparen) h1
    simpa [hlp, hrp] using h
  · have h := BalC.paren ha.bal BalC.nil
    simpa [hlp, hrp] using h

/-- `( )` -/
theorem Good.parenEmpty (lp rp : UTok) (hlp : cl lp = .s .lparen) (hrp : cl rp = .s .rparen) :
    Good [.s .lparen] [.s .rparen] [lp, rp] := by
  refine ⟨?_, ?_⟩
  · have h := (Lin.one (.s .rparen)).cons (.s .lparen) (by decide)
    simpa [hlp, hrp] using h
  · have h := BalC.paren BalC.nil BalC.nil
    simpa [hlp, hrp] using h

/-- `[ a ]` -/
theorem Good.brack {F L : List Cl} {a : List UTok} (lb rb : UTok)
    (hlb : cl lb = .s .lbracket) (hrb : cl rb = .s .rbracket) (ha : Good F L a)
    (h1 : ∀ y ∈ F, okPair (.s .lbracket) y = true) (h2 : ∀ x ∈ L, okPair x (.s .rbracket) = true) :
    Good [.s .lbracket] [.s .rbracket] (lb :: (a ++ [rb])) := by
  refine ⟨?_, ?_⟩
  · have h := (ha.lin.snoc (.s .rbracket) h2).cons (.s .lbracket) h1
    simpa [hlb, hrb] using h
  · have h := BalC.brack ha.bal BalC.nil
    simpa [hlb, hrb] using h

/-! ### classes of the grammar's token constructors -/

@[simp] theorem cl_sym (k : TokKind) (sp : Span) : cl (sym k sp) = plainCl k := rfl
@[simp] theorem cl_identTok (i : Ident) : cl (identTok i) = .nm := by
  cases i with
  | mk n sp q => cases q <;> rfl
@[simp] theorem cl_commaTok : cl commaTok = .s .comma := rfl
@[simp] theorem cl_lit (k : TokKind) (v : Bytes) (a c : Option Int) :
    cl { kind := k, value := v, start := a, stop := c } = plainCl k := rfl
@[simp] theorem cl_rparenOpt (rp : Span) : cl { sym .rparen rp with optComma := true } = .s .rparen := rfl
@[simp] theorem cl_dot : cl { kind := .dot } = .s .dot := rfl

theorem identsDotted_good : ∀ parts : List Ident, parts ≠ [] → Good [.nm] [.nm] (identsDotted parts)
  | [], h => absurd rfl h
  | [i], _ => by
    have := Good.one (identTok i) (by simp [Cl.br])
    simpa [identsDotted] using this
  | i :: j :: is, _ => by
    have ih := identsDotted_good (j :: is) (by simp)
    have h := (ih.cons { kind := .dot } (.s .dot) rfl rfl (by decide)).cons (identTok i) .nm (by simp) rfl
      (by decide)
    simpa [identsDotted] using h

theorem binop_facts (op : TokKind) (h : knownBinOp op = true) :
    (plainCl op).br = .n ∧ (∀ y ∈ FE, okPair (plainCl op) y = true) ∧
      (∀ x ∈ LE, okPair x (plainCl op) = true) := by
  cases op <;> first
    | (exfalso; revert h; decide)
    | decide

theorem sign_facts (op : TokKind) (h : op = .plus ∨ op = .minus) :
    (plainCl op).br = .n ∧ (∀ y ∈ FE, okPair (plainCl op) y = true) ∧ plainCl op ∈ FE := by
  rcases h with rfl | rfl <;> decide

theorem lit_facts (k : TokKind) (h : k = .number ∨ k = .string) : plainCl k = .lit := by
  rcases h with rfl | rfl <;> rfl

mutual
theorem expr_good : ∀ (e : Expr) (us : List UTok), sOK e = true → unparseExpr e = some us → Good FE LE us
  | .nil, _, h, _ => by simp [sOK] at h
  | .qident parts, us, h, hu => by
    simp only [sOK, Bool.not_eq_true', List.isEmpty_eq_false_iff] at h
    simp only [unparseExpr] at hu
    split at hu
    · next he => simp [h] at he
    · cases hu
      exact (identsDotted_good parts h).mono (by decide) (by decide)
  | .lit sp k v, us, h, hu => by
    simp only [sOK, Bool.or_eq_true, decide_eq_true_eq] at h
    simp only [unparseExpr, Option.some.injEq] at hu
    subst hu
    have := Good.one { kind := k, value := v, start := some sp.start, stop := some sp.stop }
      (by rw [cl_lit, lit_facts k h]; rfl)
    rw [cl_lit, lit_facts k h] at this
    exact this.mono (by decide) (by decide)
  | .unary os op x, us, h, hu => by
    simp only [sOK, Bool.and_eq_true, Bool.or_eq_true, decide_eq_true_eq] at h
    simp only [unparseExpr, Option.bind_eq_bind, Option.pure_def, Option.bind_eq_some_iff,
      Option.some.injEq] at hu
    obtain ⟨xs, hx, rfl⟩ := hu
    have ih := expr_good x xs h.2 hx
    obtain ⟨f1, f2, f3⟩ := sign_facts op h.1
    exact (ih.cons (sym op os) _ rfl f1 f2).mono (by intro a ha; rw [List.mem_singleton.1 ha]; exact f3)
      (fun _ h => h)
  | .binary x os op y, us, h, hu => by
    simp only [sOK, Bool.and_eq_true] at h
    simp only [unparseExpr, Option.bind_eq_bind, Option.pure_def, Option.bind_eq_some_iff,
      Option.some.injEq] at hu
    obtain ⟨xs, hx, ys, hy, rfl⟩ := hu
    obtain ⟨f1, f2, f3⟩ := binop_facts op h.1
    exact (expr_good x xs h.2.1 hx).app ((expr_good y ys h.2.2 hy).cons (sym op os) _ rfl f1 f2)
      (by intro a ha c hc; rw [List.mem_singleton.1 hc]; exact f3 a ha)
  | .inE x i lp vals rp, us, h, hu => by
    simp only [sOK, Bool.and_eq_true, bne_iff_ne, ne_eq] at h
    simp only [unparseExpr, Option.bind_eq_bind, Option.pure_def, Option.bind_eq_some_iff,
      Option.some.injEq] at hu
    obtain ⟨xs, hx, vs, hv, rfl⟩ := hu
    have hvs : Good FE LE vs := by
      rcases list_good vals vs h.2.1 hv with ⟨hn, _⟩ | ⟨_, hg⟩
      · rw [hn] at h; exact absurd rfl h.2.2
      · exact hg
    have hp := Good.paren (sym .lparen lp) (sym .rparen rp) rfl rfl hvs (by decide) (by decide)
    have := (expr_good x xs h.1 hx).app (hp.cons (sym .in_ i) (.s .in_) rfl rfl (by decide)) (by decide)
    rw [List.append_assoc]
    exact this.mono (L' := LE) (fun _ h => h) (by decide)
  | .paren lp x rp, us, h, hu => by
    simp only [sOK] at h
    simp only [unparseExpr, Option.bind_eq_bind, Option.pure_def, Option.bind_eq_some_iff,
      Option.some.injEq] at hu
    obtain ⟨xs, hx, rfl⟩ := hu
    exact (Good.paren (sym .lparen lp) (sym .rparen rp) rfl rfl (expr_good x xs h hx) (by decide)
      (by decide)).mono (by decide) (by decide)
  | .call fn lp args rp, us, h, hu => by
    simp only [sOK, Bool.and_eq_true] at h
    simp only [unparseExpr, Option.bind_eq_bind, Option.pure_def, Option.bind_eq_some_iff,
      Option.some.injEq] at hu
    obtain ⟨as, ha, rfl⟩ := hu
    have hp : Good [.s .lparen] [.s .rparen] (sym .lparen lp :: (as ++ [{ sym .rparen rp with optComma := true }])) := by
      rcases list_good args as h.2 ha with ⟨_, hn⟩ | ⟨_, hg⟩
      · subst hn; exact Good.parenEmpty _ _ rfl rfl
      · exact Good.paren _ _ rfl rfl hg (by decide) (by decide)
    exact (hp.cons (identTok fn) .nm (by simp) rfl (by decide)).mono (by decide) (by decide)
  | .index x lb idx rb, us, h, hu => by
    simp only [sOK, Bool.and_eq_true] at h
    simp only [unparseExpr, Option.bind_eq_bind, Option.pure_def, Option.bind_eq_some_iff,
      Option.some.injEq] at hu
    obtain ⟨xs, hx, is, hi, rfl⟩ := hu
    have hb := Good.brack (sym .lbracket lb) (sym .rbracket rb) rfl rfl (expr_good idx is h.2 hi)
      (by decide) (by decide)
    rw [List.append_assoc]
    exact ((expr_good x xs h.1 hx).app hb (by decide)).mono (L' := LE) (fun _ h => h) (by decide)
theorem list_good : ∀ (l : ExprList) (us : List UTok), sOKList l = true → unparseExprList l = some us →
    (l = .nil ∧ us = []) ∨ (l ≠ .nil ∧ Good FE LE us)
  | .nil, us, _, hu => by
    simp only [unparseExprList, Option.some.injEq] at hu
    exact Or.inl ⟨rfl, hu.symm⟩
  | .cons e .nil, us, h, hu => by
    simp only [sOKList, Bool.and_eq_true] at h
    simp only [unparseExprList] at hu
    exact Or.inr ⟨by simp, expr_good e us h.1 hu⟩
  | .cons e (.cons e2 es), us, h, hu => by
    simp only [sOKList, Bool.and_eq_true] at h
    simp only [unparseExprList, Option.bind_eq_bind, Option.pure_def, Option.bind_eq_some_iff,
      Option.some.injEq] at hu
    obtain ⟨a, ha, c, hc, rfl⟩ := hu
    have hrest : Good FE LE c := by
      rcases list_good (.cons e2 es) c (by simp only [sOKList, Bool.and_eq_true]; exact h.2) hc with ⟨hn, _⟩ | ⟨_, hg⟩
      · cases hn
      · exact hg
    exact Or.inr ⟨by simp, (expr_good e a h.1 ha).app (hrest.cons commaTok (.s .comma) rfl rfl (by decide))
      (by decide)⟩
end

end Pql.Reject
