/-
Step boundaries of the scanner (`Reaches`) and locality of `scanFrom`: the scan of `x ++ y`
splits at `x.length` whenever that offset is a step boundary.
-/
import PqlModel.Lemmas.LexLocal
import PqlModel.Lemmas.LexSemi
namespace Pql

/-- the tokens (none or one) a step emits at absolute offset `off` -/
def Step.toks (st : Step) (off : Nat) : List Token :=
  match st.tok with
  | some (k, v) => [⟨k, off, off + st.width, v⟩]
  | none => []

theorem Step.mem_toks {st : Step} {off : Nat} {t : Token} (h : t ∈ st.toks off) :
    st.tok = some (t.kind, t.value) ∧ t.start = off ∧ t.stop = off + st.width := by
  unfold Step.toks at h
  split at h
  · rename_i k v hk
    simp at h
    subst h
    exact ⟨hk, rfl, rfl⟩
  · simp at h

theorem scanOne_width_pos' {s : Bytes} (hs : s ≠ []) : 1 ≤ (scanOne s).width := by
  cases s with
  | nil => exact absurd rfl hs
  | cons c rest => exact scanOne_width_pos c rest

theorem scanFrom_nil (off : Nat) : scanFrom [] off = [] := by
  unfold scanFrom; rfl

/-- one unfolding of `scanFrom`, as an equation -/
theorem scanFrom_step {s : Bytes} (hs : s ≠ []) (off : Nat) :
    scanFrom s off =
      (scanOne s).toks off ++ scanFrom (s.drop (scanOne s).width) (off + (scanOne s).width) := by
  cases s with
  | nil => exact absurd rfl hs
  | cons c rest =>
    rw [scanFrom]
    simp only [Step.toks]
    split <;> simp_all

/-- `Reaches s n`: iterating `scanOne` from the start of `s`, offset `n` is a step boundary. -/
inductive Reaches : Bytes → Nat → Prop
  | here (s : Bytes) : Reaches s 0
  | step (s : Bytes) (m : Nat) : s ≠ [] → Reaches (s.drop (scanOne s).width) m →
      Reaches s ((scanOne s).width + m)

theorem Reaches.le {s : Bytes} {n : Nat} (h : Reaches s n) : n ≤ s.length := by
  induction h with
  | here s => exact Nat.zero_le _
  | step s m hs _ ih =>
    have := scanOne_width_le s
    simp only [List.length_drop] at ih
    omega

theorem Reaches.trans {s : Bytes} {n m : Nat} (h : Reaches s n) (h' : Reaches (s.drop n) m) :
    Reaches s (n + m) := by
  induction h with
  | here s => simpa using h'
  | step s k hs _ ih =>
    rw [Nat.add_assoc]
    refine Reaches.step s (k + m) hs (ih ?_)
    rwa [List.drop_drop]

theorem scanFrom_append_aux {s : Bytes} {n : Nat} (h : Reaches s n) :
    ∀ (x y : Bytes) (off : Nat), s = x ++ y → n = x.length →
      scanFrom s off = scanFrom x off ++ scanFrom y (off + x.length) := by
  induction h with
  | here s =>
    intro x y off hs hn
    have hx : x = [] := List.eq_nil_of_length_eq_zero hn.symm
    subst hx
    simp [hs, scanFrom_nil]
  | step s m hne hr ih =>
    intro x y off hs hn
    subst hs
    have hpos := scanOne_width_pos' hne
    have hw : (scanOne (x ++ y)).width ≤ x.length := by omega
    have hx := scanOne_append x y hw
    have hxl : 1 ≤ x.length := by omega
    have hxne : x ≠ [] := by
      intro h0; subst h0; simp at hxl
    rw [scanFrom_step hne, scanFrom_step hxne, hx]
    rw [hx] at hn ih hw
    rw [drop_append_of_le x y _ hw] at ih
    rw [drop_append_of_le x y _ hw, ih (x.drop (scanOne x).width) y _ rfl
      (by simp only [List.length_drop]; omega)]
    simp only [List.length_drop, List.append_assoc]
    congr 3
    omega

/-- **Locality of `scanFrom`.** If `x.length` is a step boundary of `x ++ y`, the scan splits. -/
theorem scanFrom_append (x y : Bytes) (off : Nat) (h : Reaches (x ++ y) x.length) :
    scanFrom (x ++ y) off = scanFrom x off ++ scanFrom y (off + x.length) :=
  scanFrom_append_aux h x y off rfl rfl

theorem scanFrom_semi_cons (v : Bytes) (off : Nat) :
    scanFrom (59 :: v) off = ⟨.semi, off, off + 1, []⟩ :: scanFrom v (off + 1) := by
  rw [scanFrom_step (by simp), scanOne_semi_head]
  simp [Step.toks]

/-- **Locality at a semicolon.** If the ';' after `u` sits on a step boundary, the scan of
    `u ++ ';' :: v` is the scan of `u`, the semicolon token, and the scan of `v`. -/
theorem scanFrom_semi_split (u v : Bytes) (off : Nat) (h : Reaches (u ++ 59 :: v) u.length) :
    scanFrom (u ++ 59 :: v) off =
      scanFrom u off ++ ⟨.semi, off + u.length, off + u.length + 1, []⟩ ::
        scanFrom v (off + u.length + 1) := by
  rw [scanFrom_append u (59 :: v) off h, scanFrom_semi_cons]

/-- Every token of a scan starts on a step boundary and is the token of the step there. -/
theorem reaches_of_mem (s : Bytes) (off : Nat) (t : Token) (h : t ∈ scanFrom s off) :
    ∃ n, t.start = off + n ∧ Reaches s n ∧ n < s.length ∧
      (scanOne (s.drop n)).tok = some (t.kind, t.value) ∧
      t.stop = t.start + (scanOne (s.drop n)).width := by
  induction hn : s.length using Nat.strongRecOn generalizing s off with
  | _ n ih =>
    subst hn
    by_cases hs : s = []
    · subst hs; simp [scanFrom_nil] at h
    · have hpos := scanOne_width_pos' hs
      have hle := scanOne_width_le s
      have hlen : 0 < s.length := List.length_pos_iff.mpr hs
      rw [scanFrom_step hs, List.mem_append] at h
      rcases h with h | h
      · obtain ⟨h1, h2, h3⟩ := Step.mem_toks h
        exact ⟨0, by simpa using h2, Reaches.here s, hlen, by simpa using h1, by simp; omega⟩
      · obtain ⟨m, h1, h2, h3, h4, h5⟩ := ih (s.drop (scanOne s).width).length
          (by simp only [List.length_drop]; omega) _ _ h rfl
        simp only [List.length_drop, List.drop_drop] at h3 h4 h5
        refine ⟨(scanOne s).width + m, by omega, Reaches.step s m hs h2, by omega, h4, h5⟩

/-- If a scan contains a semicolon token, the source splits at the first one: the part before
    it scans without semicolon tokens and the ';' sits on a step boundary. -/
theorem exists_first_semi (s : Bytes) (off : Nat) (h : ∃ t ∈ scanFrom s off, t.kind = .semi) :
    ∃ u v, s = u ++ 59 :: v ∧ Reaches s u.length ∧ ∀ t ∈ scanFrom u off, t.kind ≠ .semi := by
  induction hn : s.length using Nat.strongRecOn generalizing s off with
  | _ n ih =>
    subst hn
    by_cases hs : s = []
    · subst hs; simp [scanFrom_nil] at h
    · have hpos := scanOne_width_pos' hs
      have hle := scanOne_width_le s
      by_cases hsemi : ∃ v, (scanOne s).tok = some (.semi, v)
      · obtain ⟨v, hv⟩ := hsemi
        cases s with
        | nil => exact absurd rfl hs
        | cons c rest =>
          have hc := scanOne_semi c rest v hv
          subst hc
          exact ⟨[], rest, rfl, Reaches.here _, by simp [scanFrom_nil]⟩
      · obtain ⟨t, ht, hk⟩ := h
        rw [scanFrom_step hs, List.mem_append] at ht
        have hno : ∀ t' ∈ (scanOne s).toks off, t'.kind ≠ .semi := by
          intro t' ht' hk'
          have := (Step.mem_toks ht').1
          rw [hk'] at this
          exact hsemi ⟨_, this⟩
        rcases ht with ht | ht
        · exact absurd hk (hno t ht)
        · obtain ⟨u', v', h1, h2, h3⟩ := ih (s.drop (scanOne s).width).length
            (by simp only [List.length_drop]; omega) _ _ ⟨t, ht, hk⟩ rfl
          have hs' : s = (s.take (scanOne s).width ++ u') ++ 59 :: v' := by
            rw [List.append_assoc, ← h1, List.take_append_drop]
          have hul : (s.take (scanOne s).width ++ u').length = (scanOne s).width + u'.length := by
            simp only [List.length_append, List.length_take]; omega
          refine ⟨s.take (scanOne s).width ++ u', v', hs', ?_, ?_⟩
          · rw [hul]; exact Reaches.step s _ hs h2
          · have hone : scanOne (s.take (scanOne s).width ++ u') = scanOne s := by
              have := scanOne_append (s.take (scanOne s).width ++ u') (59 :: v')
              rw [← hs'] at this
              exact (this (by omega)).symm
            have hune : s.take (scanOne s).width ++ u' ≠ [] := by
              intro h0; rw [h0] at hul; simp at hul; omega
            rw [scanFrom_step hune, hone]
            have hd : (s.take (scanOne s).width ++ u').drop (scanOne s).width = u' := by
              rw [List.drop_append_of_le_length (by simp; omega)]
              simp
            rw [hd]
            intro t' ht'
            rcases List.mem_append.mp ht' with ht' | ht'
            · exact hno t' ht'
            · exact h3 t' ht'

/-- A byte string that is exactly one token step scans to that one token. -/
theorem scan_single (x : Bytes) (k : TokKind) (v : Bytes) (hx : x ≠ [])
    (hw : (scanOne x).width = x.length) (ht : (scanOne x).tok = some (k, v)) :
    scan x = [⟨k, 0, x.length, v⟩] := by
  unfold scan
  rw [scanFrom_step hx, hw, List.drop_length, scanFrom_nil]
  simp [Step.toks, ht, hw]

/-- Scanning the text of a token of `scanFrom s off` alone gives that token, moved to offset 0. -/
theorem scanFrom_rescan (s : Bytes) (off : Nat) (t : Token) (h : t ∈ scanFrom s off) :
    scan ((s.drop (t.start - off)).take (t.stop - t.start)) =
      [⟨t.kind, 0, t.stop - t.start, t.value⟩] := by
  obtain ⟨n, h1, _, h3, h4, h5⟩ := reaches_of_mem s off t h
  have hn : t.start - off = n := by omega
  have hw : t.stop - t.start = (scanOne (s.drop n)).width := by omega
  rw [hn, hw]
  have hle := scanOne_width_le (s.drop n)
  have hne : s.drop n ≠ [] := by
    intro h0
    have := congrArg List.length h0
    simp at this; omega
  have hpos := scanOne_width_pos' hne
  have hlen : ((s.drop n).take (scanOne (s.drop n)).width).length = (scanOne (s.drop n)).width := by
    rw [List.length_take]; omega
  have hone : scanOne ((s.drop n).take (scanOne (s.drop n)).width) = scanOne (s.drop n) := by
    have := scanOne_append ((s.drop n).take (scanOne (s.drop n)).width)
      ((s.drop n).drop (scanOne (s.drop n)).width)
    rw [List.take_append_drop] at this
    exact (this (by omega)).symm
  have := scan_single ((s.drop n).take (scanOne (s.drop n)).width) t.kind t.value
    (by intro h0; rw [h0] at hlen; simp at hlen; omega) (by rw [hone, hlen]) (by rw [hone, h4])
  rw [this, hlen]

/-- The ';' after `u` sits on a step boundary iff the scan has the semicolon token there. -/
theorem reaches_iff_semi_mem (u v : Bytes) (off : Nat) :
    Reaches (u ++ 59 :: v) u.length ↔
      (⟨.semi, off + u.length, off + u.length + 1, []⟩ : Token) ∈ scanFrom (u ++ 59 :: v) off := by
  constructor
  · intro h
    rw [scanFrom_semi_split u v off h]
    simp
  · intro h
    obtain ⟨n, h1, h2, _⟩ := reaches_of_mem _ off _ h
    have : n = u.length := by simp only at h1; omega
    rw [← this]; exact h2

end Pql
