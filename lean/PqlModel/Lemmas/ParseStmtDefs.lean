/-
C05, syntactic half — definitions shared by the three stages: erasing the structured source of an
intended link (`Intended.SubA`) to the chunks `splitQueries` writes (`Subquery`), and the Bool
side conditions of the statement theorem.
-/
import PqlModel.Spec.Intended
import PqlModel.Lemmas.ScopeWriteSub
import PqlModel.Props.C01Syntactic
namespace Pql.C05
open Pql Sql CompileOracle Intended Pql.RT

/-- the chunks `splitOps` writes for a structured source -/
def eraseSrc (src : Bytes) (scope : List (Bytes × List Chunk)) : SrcA → Except WErr (List Chunk)
  | .table n => .ok [.qid n]
  | .join unique left l r cond => do
    let c ← writeExpr ⟨src, scope, .join⟩ cond
    pure ((if unique then [.txt "(SELECT DISTINCT * FROM "] else []) ++ [Chunk.qid l] ++
      (if unique then [.txt ")"] else []) ++
      [.txt (" AS \"" ++ Facts.leftJoinTableAlias ++ "\""), .txt (if left then " LEFT JOIN " else " JOIN "), .qid r,
       .txt (" AS \"" ++ Facts.rightJoinTableAlias ++ "\" ON ")] ++ c)

/-- the `Subquery` of an intended link -/
def erase (src : Bytes) (scope : List (Bytes × List Chunk)) (a : SubA) : Except WErr Subquery := do
  let s ← eraseSrc src scope a.source
  pure { name := a.name, source := s, op := a.op, sort := a.sort, take := a.take }

/-- pointwise form of `erase a = .ok s` -/
structure EraseRel (src : Bytes) (scope : List (Bytes × List Chunk)) (a : SubA) (s : Subquery) : Prop where
  name : s.name = a.name
  source : eraseSrc src scope a.source = .ok s.source
  op : s.op = a.op
  sort : s.sort = a.sort
  take : s.take = a.take

theorem erase_iff {src : Bytes} {scope : List (Bytes × List Chunk)} {a : SubA} {s : Subquery} :
    erase src scope a = .ok s ↔ EraseRel src scope a s := by
  unfold erase
  constructor
  · intro h
    cases hs : eraseSrc src scope a.source with
    | error e => rw [hs] at h; cases h
    | ok c =>
      rw [hs] at h
      simp only [bind, Except.bind, pure, Except.pure, Except.ok.injEq] at h
      subst h
      exact ⟨rfl, hs, rfl, rfl, rfl⟩
  · intro h
    obtain ⟨name, source, op, sort, take⟩ := s
    obtain ⟨h1, h2, h3, h4, h5⟩ := h
    simp only at h1 h2 h3 h4 h5
    subst h1 h3 h4 h5
    rw [h2]
    rfl

/-- `mapM` over `Except` is the pointwise relation -/
theorem mapM_ok_iff {α β ε : Type} (f : α → Except ε β) (R : α → β → Prop)
    (hR : ∀ a b, f a = .ok b ↔ R a b) : ∀ (as : List α) (bs : List β), as.mapM f = .ok bs ↔ ListRel R as bs
  | [], bs => by
    simp only [List.mapM_nil, pure, Except.pure, Except.ok.injEq]
    constructor
    · intro h; subst h; exact .nil
    · intro h; cases h; rfl
  | a :: as, bs => by
    simp only [List.mapM_cons, bind, Except.bind, pure, Except.pure]
    constructor
    · intro h
      cases ha : f a with
      | error e => rw [ha] at h; cases h
      | ok b =>
        rw [ha] at h
        cases hs : as.mapM f with
        | error e => rw [hs] at h; cases h
        | ok bs' =>
          rw [hs] at h
          simp only [Except.ok.injEq] at h
          subst h
          exact .cons ((hR a b).1 ha) ((mapM_ok_iff f R hR as bs').1 hs)
    · intro h
      cases h with
      | cons hab hrest =>
        rw [(hR _ _).2 hab, (mapM_ok_iff f R hR as _).2 hrest]

theorem eraseAll_iff {src : Bytes} {scope : List (Bytes × List Chunk)} (as : List SubA) (ss : List Subquery) :
    as.mapM (erase src scope) = .ok ss ↔ ListRel (EraseRel src scope) as ss :=
  mapM_ok_iff _ _ (fun _ _ => erase_iff) as ss

end Pql.C05
