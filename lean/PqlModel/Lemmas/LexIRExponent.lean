/-
`(*scanner).numberExponent` as translated: the digit loop, the `defer` that restores the cursor,
and the whole function against the model's `exponentLen`.
-/
import PqlModel.Lemmas.LexIRCursor
namespace Pql.LexIR
open Pql
set_option linter.unusedSimpArgs false
set_option linter.unusedVariables false

/-- `s.numberExponent()` at offset `k`: reports whether there is an exponent and leaves the cursor
    after it (where it was, if there is none) -/
def SpecExponent (fuel : Nat) (f : Fn) : Prop := ∀ (pre s : Bytes) (k l : Nat), k ≤ s.length → s.length < fuel →
  ∃ l', f [.scanner] (hp pre s k l) =
    .ok ([.bool (exponentLen (s.drop k) != 0)], hp pre s (k + exponentLen (s.drop k)) l')

/-- the state inside `numberExponent` after the first `c, ok := s.next()` -/
def expSt (p0 c : Nat) (ok : Bool) (h : Heap) : State :=
  ⟨[("ok", .bool ok), ("c", .int c), ("start", .int p0), ("found", .bool false), ("s", .scanner)], h, [expDefer]⟩

theorem leave_expSt (p0 c c' : Nat) (ok ok' : Bool) (h h' : Heap) :
    (expSt p0 c ok h).leave (expSt p0 c' ok' h') = expSt p0 c ok h := by
  simp [State.leave, expSt]

/-- one pass through the digit loop: at the end of the input -/
theorem exp_body_end (lib : Lib) (env : Env) (fuel : Nat) (E : CursorEnv lib env) (pre s : Bytes) (p0 k c : Nat) (ok : Bool)
    (l : Nat) (hlen : s.length ≤ k) :
    execBlock env fuel expLoopBody (expSt p0 c ok (hp pre s k l)) =
      .ok (.ret [.bool true], expSt p0 0 false (hp pre s k l)) := by
  obtain ⟨fN, hN, sN⟩ := E.next
  unfold expLoopBody expSt
  lx_simp [hN, next_end sN pre s k l hlen]

/-- … at a digit -/
theorem exp_body_digit (lib : Lib) (env : Env) (fuel : Nat) (E : CursorEnv lib env) (pre s : Bytes) (p0 k c : Nat) (ok : Bool)
    (l : Nat) (c1 : UInt8) (rest : Bytes) (hd : s.drop k = c1 :: rest) (hdig : isDigit c1 = true) :
    execBlock env fuel expLoopBody (expSt p0 c ok (hp pre s k l)) =
      .ok (.next, expSt p0 (decodeRune (c1 :: rest)).1 true (hp pre s (k + 1) (pre.length + k))) := by
  obtain ⟨fN, hN, sN⟩ := E.next
  have hD := E.isDigit
  unfold HasPrim at hD
  have hw := width_ascii c1 rest (isDigit_lt c1 hdig)
  unfold expLoopBody expSt
  lx_simp [hN, next_cons sN pre s k l c1 rest hd, hD, prims, rune_isDigit, hdig, hw]

/-- … at anything else -/
theorem exp_body_other (lib : Lib) (env : Env) (fuel : Nat) (E : CursorEnv lib env) (pre s : Bytes) (p0 k c : Nat) (ok : Bool)
    (l : Nat) (c1 : UInt8) (rest : Bytes) (hd : s.drop k = c1 :: rest) (hdig : ¬ isDigit c1 = true) :
    execBlock env fuel expLoopBody (expSt p0 c ok (hp pre s k l)) =
      .ok (.ret [.bool true], expSt p0 (decodeRune (c1 :: rest)).1 true (hp pre s k (pre.length + k))) := by
  obtain ⟨fN, hN, sN⟩ := E.next
  obtain ⟨fP, hP, sP⟩ := E.prev
  have hD := E.isDigit
  unfold HasPrim at hD
  unfold expLoopBody expSt
  lx_simp [hN, hP, next_cons sN pre s k l c1 rest hd, hD, prims, rune_isDigit, hdig, prev_hp sP pre s k]

/-- **the digit loop of the exponent** -/
theorem exp_loop (lib : Lib) (env : Env) (fuel : Nat) (E : CursorEnv lib env) (pre s : Bytes) (p0 : Nat) :
    ∀ (n k c : Nat) (ok : Bool) (l : Nat), k ≤ s.length → s.length - k < n →
      ∃ c' ok' l', foreverLoop (execBlock env fuel expLoopBody) n (expSt p0 c ok (hp pre s k l)) =
        .ok (.ret [.bool true], expSt p0 c' ok' (hp pre s (k + digitsLen (s.drop k)) l')) := by
  intro n
  induction n with
  | zero => intro k c ok l _ h; omega
  | succ n ih =>
    intro k c ok l hk hn
    cases hd : s.drop k with
    | nil =>
      have hlen : s.length ≤ k := List.drop_eq_nil_iff.mp hd
      refine ⟨0, false, l, ?_⟩
      simp only [foreverLoop, exp_body_end lib env fuel E pre s p0 k c ok l hlen, bind, Except.bind, pure, Except.pure,
        leave_expSt, digitsLen, Nat.add_zero]
    | cons c1 rest =>
      have hlt := lt_of_drop_cons hd
      by_cases hdig : isDigit c1 = true
      · obtain ⟨c', ok', l', e⟩ := ih (k + 1) (decodeRune (c1 :: rest)).1 true (pre.length + k) (by omega) (by omega)
        refine ⟨c', ok', l', ?_⟩
        rw [drop_succ_of_cons hd] at e
        have hdl : digitsLen (c1 :: rest) = digitsLen rest + 1 := by simp [digitsLen, hdig]
        simp only [foreverLoop, exp_body_digit lib env fuel E pre s p0 k c ok l c1 rest hd hdig, bind, Except.bind,
          leave_expSt, e, hdl]
        simp [Nat.add_assoc, Nat.add_comm 1]
      · have hdl : digitsLen (c1 :: rest) = 0 := by simp [digitsLen, hdig]
        refine ⟨(decodeRune (c1 :: rest)).1, true, pre.length + k, ?_⟩
        simp only [foreverLoop, exp_body_other lib env fuel E pre s p0 k c ok l c1 rest hd hdig, bind, Except.bind,
          pure, Except.pure, leave_expSt, hdl, Nat.add_zero]

/-- **`numberExponent` is the model's `exponentLen`** (with the cursor restored by the deferred closure when
    there is no exponent) -/
theorem numberExponent_spec (lib : Lib) (env : Env) (fuel : Nat) (E : CursorEnv lib env) :
    SpecExponent fuel (interpFn env fuel numberExponentDecl) := by
  intro pre s k l hk hfuel
  obtain ⟨fN, hN, sN⟩ := E.next
  obtain ⟨fP, hP, sP⟩ := E.prev
  obtain ⟨fS, hS, sS⟩ := E.setPos
  have hD := E.isDigit
  unfold HasPrim at hD
  unfold numberExponentDecl expRest expDefer
  cases hd : s.drop k with
  | nil =>
    have hlen : s.length ≤ k := List.drop_eq_nil_iff.mp hd
    refine ⟨pre.length + k, ?_⟩
    lx_simp [hN, hS, next_end sN pre s k l hlen, exponentLen, setPos_hp sS pre s k]
  | cons e rest1 =>
    have hr1 := drop_succ_of_cons hd
    obtain ⟨re, we, hde, _, hqe, _, _, hwe⟩ := rune_facts e rest1
    have nx1 := next_cons' sN pre s k l e rest1 re we hd hde
    by_cases he : e = 101 ∨ e = 69
    · have hw : we = 1 := hwe (by rcases he with rfl | rfl <;> decide)
      subst hw
      have he' : (e == 101 || e == 69) = true := by rcases he with rfl | rfl <;> rfl
      have hre : re = 101 ∨ re = 69 := by
        rcases he with rfl | rfl
        · exact Or.inl ((hqe 101 (by omega)).mpr rfl)
        · exact Or.inr ((hqe 69 (by omega)).mpr rfl)
      clear hqe hde hwe
      rcases hre with rfl | rfl
      all_goals (
        cases rest1 with
        | nil =>
          have hlen : s.length ≤ k + 1 := List.drop_eq_nil_iff.mp hr1
          refine ⟨pre.length + k, ?_⟩
          lx_simp [hN, hS, nx1, exponentLen, next_end sN pre s (k + 1) (pre.length + k) hlen, setPos_hp sS pre s k]
        | cons c rest2 =>
          have hr2 := drop_succ_of_cons hr1
          obtain ⟨rc, wc, hdc, _, hqc, hdigc, _, hwc⟩ := rune_facts c rest2
          have nx2 := next_cons' sN pre s (k + 1) (pre.length + k) c rest2 rc wc hr1 hdc
          by_cases hc : c = 43 ∨ c = 45
          · have hw : wc = 1 := hwc (by rcases hc with rfl | rfl <;> decide)
            subst hw
            have hc' : (c == 43 || c == 45) = true := by rcases hc with rfl | rfl <;> rfl
            have hrc : rc = 43 ∨ rc = 45 := by
              rcases hc with rfl | rfl
              · exact Or.inl ((hqc 43 (by omega)).mpr rfl)
              · exact Or.inr ((hqc 45 (by omega)).mpr rfl)
            clear hqc hdc hwc
            rcases hrc with rfl | rfl
            all_goals (
              cases rest2 with
              | nil =>
                have hlen : s.length ≤ k + 1 + 1 := List.drop_eq_nil_iff.mp hr2
                refine ⟨pre.length + k, ?_⟩
                have hx : exponentLen [e, c] = 0 := by simp [exponentLen, he', hc']
                lx_simp [hN, hS, nx1, nx2, hx, next_end sN pre s (k + 1 + 1) (pre.length + (k + 1)) hlen,
                  setPos_hp sS pre s k]
              | cons d rest3 =>
                have hr3 := drop_succ_of_cons hr2
                obtain ⟨rd, wd, hdd, _, _, hdigd, _, hwd⟩ := rune_facts d rest3
                have nx3 := next_cons' sN pre s (k + 1 + 1) (pre.length + (k + 1)) d rest3 rd wd hr2 hdd
                by_cases hdig : isDigit d = true
                · have hw : wd = 1 := hwd (isDigit_lt d hdig)
                  subst hw
                  obtain ⟨c', ok', l', hl⟩ := exp_loop lib env fuel E pre s (pre.length + k) fuel (k + 1 + 1 + 1) rd true
                    (pre.length + (k + 1 + 1)) (by have := lt_of_drop_cons hr2; omega) (by omega)
                  rw [hr3] at hl
                  simp only [expSt, expDefer, eS] at hl
                  have hx : exponentLen (e :: c :: d :: rest3) = digitsLen rest3 + 3 := by
                    simp [exponentLen, he', hc', hdig]
                  refine ⟨l', ?_⟩
                  lx_simp [hN, hS, nx1, nx2, nx3, hD, prims, hdigd, hdig, hx, hl]
                  congr 1; omega
                · refine ⟨pre.length + k, ?_⟩
                  have hx : exponentLen (e :: c :: d :: rest3) = 0 := by
                    simp [exponentLen, he', hc', hdig]
                  lx_simp [hN, hS, nx1, nx2, nx3, hD, prims, hdigd, hdig, hx, setPos_hp sS pre s k])
          · have c1 : ¬ c = 43 := fun h => hc (Or.inl h)
            have c2 : ¬ c = 45 := fun h => hc (Or.inr h)
            have q1 : ¬ rc = 43 := fun h => c1 ((hqc 43 (by omega)).mp h)
            have q2 : ¬ rc = 45 := fun h => c2 ((hqc 45 (by omega)).mp h)
            by_cases hdig : isDigit c = true
            · have hw : wc = 1 := hwc (isDigit_lt c hdig)
              subst hw
              obtain ⟨c', ok', l', hl⟩ := exp_loop lib env fuel E pre s (pre.length + k) fuel (k + 1 + 1) rc true
                (pre.length + (k + 1)) (by have := lt_of_drop_cons hr1; omega) (by omega)
              rw [hr2] at hl
              simp only [expSt, expDefer, eS] at hl
              have hx : exponentLen (e :: c :: rest2) = digitsLen rest2 + 2 := by
                simp [exponentLen, he', c1, c2, hdig]
              refine ⟨l', ?_⟩
              lx_simp [hN, hS, nx1, nx2, q1, q2, hD, prims, hdigc, hdig, hx, hl]
              congr 1; omega
            · refine ⟨pre.length + k, ?_⟩
              have hx : exponentLen (e :: c :: rest2) = 0 := by
                simp [exponentLen, he', c1, c2, hdig]
              lx_simp [hN, hS, nx1, nx2, q1, q2, hD, prims, hdigc, hdig, hx, setPos_hp sS pre s k])
    · refine ⟨pre.length + k, ?_⟩
      have h1 : ¬ re = 101 := fun h => he (Or.inl ((hqe 101 (by omega)).mp h))
      have h2 : ¬ re = 69 := fun h => he (Or.inr ((hqe 69 (by omega)).mp h))
      have hx : exponentLen (e :: rest1) = 0 := by
        have g1 : ¬ e = 101 := fun h => he (Or.inl h)
        have g2 : ¬ e = 69 := fun h => he (Or.inr h)
        cases rest1 <;> simp [exponentLen, g1, g2]
      lx_simp [hN, hS, nx1, h1, h2, hx, setPos_hp sS pre s k]

end Pql.LexIR
