/-
LexRender for whole statements, part 2: `Subquery.write` and `writeCtes` only produce adjacent
chunk lists, for subqueries satisfying `SubOK` (the invariant of `splitQueries`, part 3).
-/
import PqlModel.Lemmas.LexStmtOK
namespace Pql.C05
open Pql Sql LexRender

/-- what `splitQueries` guarantees about every subquery it produces from a `Tabular.lexOK` tree
    (under a `ScopeAdj` scope): the source is adjacent before every separator, the stored operator, sort
    terms and row count only contain `Expr.lexOK` expressions -/
structure SubOK (s : Subquery) : Prop where
  source : Good s.source
  op : ∀ o, s.op = some o → o.lexOK = true
  sort : ∀ ts, s.sort = some ts → (ts.all fun (t : SortTerm) => t.x.lexOK) = true
  take : ∀ n, s.take = some n → n.lexOK = true

/-- the render properties: `,\n    'value' as "render_prop_name"` each -/
theorem good_renderProps {tail : List Chunk} (hl : SepLed tail) (ht : Good tail) :
    ∀ (props : List RenderProp),
      Good ((props.flatMap fun p =>
        [Chunk.txt ",\n    ", .qstr (renderPropValue p.value), .txt " as ",
         .qid (Bytes.ofString "render_prop_" ++ identName p.name)]) ++ tail) ∧
      SepLed ((props.flatMap fun p =>
        [Chunk.txt ",\n    ", .qstr (renderPropValue p.value), .txt " as ",
         .qid (Bytes.ofString "render_prop_" ++ identName p.name)]) ++ tail)
  | [] => ⟨by simpa using ht, by simpa using hl⟩
  | p :: ps => by
    have ih := good_renderProps hl ht ps
    simp only [List.flatMap_cons, List.cons_append, List.nil_append]
    refine ⟨good_cons_inert (by decide) ?_, sepLed_txt _ (by decide)⟩
    exact good_append (a := [Chunk.qstr _]) (good_qstr _) (sepLed_txt _ (by decide))
      (good_cons_inert (by decide) (good_append (a := [Chunk.qid _]) (good_qid _) ih.2 ih.1))

theorem head_space (cs : List Chunk) (rest : Bytes) {s : String} (h : txtHead s = some 32) :
    (renderChunks (.txt s :: cs) ++ rest).head? ≠ some 34 := by
  rw [head_txt (d := 32) cs rest h]; decide

section
variable (ctx : Ctx) (hscope : ScopeAdj ctx.scope)
include hscope

/-- the `SELECT … FROM source …` part of a subquery -/
theorem bodyOf_good (op : Option Op) (hop : ∀ o, op = some o → o.lexOK = true) {source : List Chunk}
    (hs : Good source) {body : List Chunk} (h : bodyOf ctx op source = .ok (some body)) : Good body := by
  rcases op with _ | o
  · simp only [bodyOf] at h; cases h
    exact good_cons_inert (by decide) hs
  have hok := hop o rfl
  cases o with
  | as_ p k n =>
    simp only [bodyOf] at h; cases h
    exact good_cons_inert (by decide) hs
  | count p k =>
    simp only [bodyOf] at h; cases h
    exact good_cons_inert (by decide) hs
  | project p k cols =>
    simp only [bodyOf] at h
    simp only [Op.lexOK] at hok
    obtain ⟨cs, hcs, h⟩ := bind_ok h
    cases h
    have hg := mapM_forall cols (fun c hc b hb =>
      projCol_good ctx hscope (List.all_eq_true.mp hok c hc) hb) cs hcs
    simp only [List.cons_append]
    exact good_cons_inert (by decide) (good_append (good_commaSep cs hg) (sepLed_txt _ (by decide))
      (good_cons_inert (by decide) hs))
  | extend p k cols =>
    simp only [bodyOf] at h
    simp only [Op.lexOK] at hok
    obtain ⟨cs, hcs, h⟩ := bind_ok h
    cases h
    have hg := writeColumns_good ctx hscope cols hok cs hcs
    have := good_commaList (tail := Chunk.txt " FROM " :: source) (sepLed_txt _ (by decide))
      (good_cons_inert (by decide) hs) cs hg
    simp only [List.cons_append]
    exact good_cons_sep (by decide) this.2 this.1
  | summarize p k cols b groupBy =>
    simp only [bodyOf] at h
    simp only [Op.lexOK, Bool.and_eq_true] at hok
    obtain ⟨gs, hgs, h⟩ := bind_ok h
    obtain ⟨cs, hcs, h⟩ := bind_ok h
    obtain ⟨gb, hgb, h⟩ := bind_ok h
    cases h
    have hg1 := writeColumns_good ctx hscope groupBy hok.2 gs hgs
    have hg2 := writeColumns_good ctx hscope cols hok.1 cs hcs
    have hg3 := groupBy_good ctx hscope groupBy hok.2 gb hgb
    have hall : ∀ v ∈ gs ++ cs, Good v := by
      intro v hv
      rcases List.mem_append.mp hv with hv | hv
      · exact hg1 v hv
      · exact hg2 v hv
    have hend : Good (if groupBy.isEmpty = true then [] else Chunk.txt " GROUP BY " :: sepChunks ", " gb) ∧
        SepLed (if groupBy.isEmpty = true then [] else Chunk.txt " GROUP BY " :: sepChunks ", " gb) := by
      split
      · exact ⟨good_nil, sepLed_nil⟩
      · exact ⟨good_cons_inert (by decide) (good_commaSep gb hg3), sepLed_txt _ (by decide)⟩
    simp only [List.cons_append, List.append_assoc]
    exact good_cons_inert (by decide) (good_append (good_commaSep _ hall) (sepLed_txt _ (by decide))
      (good_cons_inert (by decide) (good_append hs hend.2 hend.1)))
  | where_ p k pred =>
    simp only [bodyOf] at h
    simp only [Op.lexOK] at hok
    obtain ⟨ps, hps, h⟩ := bind_ok h
    cases h
    simp only [List.cons_append]
    exact good_cons_inert (by decide) (good_append hs (sepLed_txt _ (by decide))
      (good_cons_inert (by decide) (writeExpr_Good ctx hscope hok hps)))
  | render p k chart w lp props rp =>
    simp only [bodyOf] at h; cases h
    have := good_renderProps (tail := Chunk.txt "\nFROM " :: source) (sepLed_txt _ (by decide))
      (good_cons_inert (by decide) hs) props
    simp only [List.cons_append, List.nil_append]
    refine good_cons_inert (by decide) (good_cons_inert (by decide) ?_)
    exact good_append (a := [Chunk.qstr _]) (good_qstr _) (sepLed_txt _ (by decide))
      (good_cons_sep (by decide) this.2 this.1)
  | sort p k ts => simp only [bodyOf] at h; cases h
  | take p k n => simp only [bodyOf] at h; cases h
  | top p k n b c => simp only [bodyOf] at h; cases h
  | join p k kind ka fl lp right rp on conds => simp only [bodyOf] at h; cases h

/-- the `ORDER BY … LIMIT …` part -/
theorem tailOf_good {sort : Option (List SortTerm)} {take : Option Expr}
    (hsort : ∀ ts, sort = some ts → (ts.all fun (t : SortTerm) => t.x.lexOK) = true)
    (htake : ∀ n, take = some n → n.lexOK = true)
    {body : Option (List Chunk)} (hb : ∀ b, body = some b → Good b) {cs : List Chunk}
    (h : tailOf ctx sort take body = .ok cs) : Good cs := by
  rcases body with _ | b
  · simp only [tailOf] at h; cases h
    exact fun rest _ => adj_txt_inert (by decide) (AdjC_nil _)
  have fin : ∀ {sp tp : List Chunk}, Good sp ∧ SepLed sp → Good tp ∧ SepLed tp → Good (b ++ sp ++ tp) :=
    fun h1 h2 => good_append3 (hb b rfl) h1.2 h1.1 h2.2 h2.1
  have hnil : Good ([] : List Chunk) ∧ SepLed [] := ⟨good_nil, sepLed_nil⟩
  have hS : ∀ {ts xs}, sort = some ts → writeSortTerms ctx ts = .ok xs →
      Good (Chunk.txt " ORDER BY " :: sepChunks ", " xs) ∧ SepLed (Chunk.txt " ORDER BY " :: sepChunks ", " xs) :=
    fun hs hxs => ⟨good_cons_inert (by decide) (good_commaSep _
      (writeSortTerms_good ctx hscope _ (hsort _ hs) _ hxs)), sepLed_txt _ (by decide)⟩
  have hT : ∀ {n x}, take = some n → writeExpr ctx n = .ok x →
      Good (Chunk.txt " LIMIT " :: x) ∧ SepLed (Chunk.txt " LIMIT " :: x) :=
    fun hn hx => ⟨good_cons_inert (by decide) (writeExpr_Good ctx hscope (htake _ hn) hx), sepLed_txt _ (by decide)⟩
  rcases sort with _ | ts <;> rcases take with _ | n <;> simp only [tailOf, pure_bind] at h
  · cases h; exact fin hnil hnil
  · obtain ⟨x, hx, h⟩ := bind_ok h
    cases h; exact fin hnil (hT rfl hx)
  · obtain ⟨xs, hxs, h⟩ := bind_ok h
    cases h; exact fin (hS rfl hxs) hnil
  · obtain ⟨xs, hxs, h⟩ := bind_ok h
    obtain ⟨x, hx, h⟩ := bind_ok h
    cases h; exact fin (hS rfl hxs) (hT rfl hx)

/-- **`Subquery.write` level**: the chunks of a subquery are adjacent before every text that is
    empty or starts with a separator (in particular `)` and `;`) -/
theorem write_good {sub : Subquery} (hsub : SubOK sub) {cs : List Chunk} (h : sub.write ctx = .ok cs) :
    Good cs := by
  rw [write_eq] at h
  obtain ⟨body, hbody, h⟩ := bind_ok h
  refine tailOf_good ctx hscope hsub.sort hsub.take ?_ h
  intro b hb
  subst hb
  exact bodyOf_good ctx hscope sub.op hsub.op hsub.source hbody

/-- **`writeCtes` level**: `"name" AS (…),\n     "name" AS (…)\n`, before any text -/
theorem writeCtes_adj : ∀ (l : List Subquery), (∀ s ∈ l, SubOK s) → ∀ cs, writeCtes ctx l = .ok cs →
    ∀ rest, AdjC rest cs = true
  | [], _, cs, h, rest => by
    simp only [writeCtes] at h; cases h; exact AdjC_nil _
  | [s], hl, cs, h, rest => by
    simp only [writeCtes] at h
    obtain ⟨b, hb, h⟩ := bind_ok h
    cases h
    have hg := write_good ctx hscope (hl s (by simp)) hb
    refine AdjC_cons (adj_qid s.name (head_space _ rest (by decide))) (adj_txt_inert (by decide) ?_)
    exact good_app_txt hg (by decide) (adj_txt_inert (by decide) (adj_txt_inert (by decide) (AdjC_nil _)))
  | s :: s2 :: l, hl, cs, h, rest => by
    simp only [writeCtes] at h
    obtain ⟨b, hb, h⟩ := bind_ok h
    obtain ⟨r, hr, h⟩ := bind_ok h
    cases h
    have hg := write_good ctx hscope (hl s (by simp)) hb
    have ih := writeCtes_adj (s2 :: l) (fun x hx => hl x (List.mem_cons_of_mem _ hx)) r hr rest
    refine AdjC_cons (adj_qid s.name (head_space _ rest (by decide))) (adj_txt_inert (by decide) ?_)
    exact good_app_txt hg (by decide) (adj_txt_inert (by decide) (adj_txt_inert (by decide) ih))

end

end Pql.C05
