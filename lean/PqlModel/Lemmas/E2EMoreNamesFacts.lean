/-
Implicit column names, part 3: the named query is `tabNamed` (if every extend / summarize column has an
expression: `tabExprsB`), has the same `lexOK` / `TabNE`, and the same meaning as a program.
-/
import PqlModel.Lemmas.E2EMoreNamesWrite
import PqlModel.Lemmas.E2EProgram
import PqlModel.Lemmas.E2EFinalChecks
namespace Pql.E2EMore
set_option linter.unusedSimpArgs false
open Pql Pql.Rel CompileOracle Pql.ParsedOK

def colHasExpr (c : Column) : Bool := match c.x with | .nil => false | _ => true

mutual
/-- every extend / summarize column of the query, at any depth, has an expression (a missing expression
    only arises from parse errors) -/
def tabExprsB : Tabular → Bool
  | .nil => true
  | .mk _ ops => opsExprsB ops
def opsExprsB : OpList → Bool
  | .nil => true
  | .cons o os => opExprsB o && opsExprsB os
def opExprsB : Op → Bool
  | .join _ _ _ _ _ _ right _ _ _ => tabExprsB right
  | .extend _ _ cs => cs.all colHasExpr
  | .summarize _ _ cs _ gs => cs.all colHasExpr && gs.all colHasExpr
  | _ => true
end

theorem colNamed_name (src : Bytes) (c : Column) (h : colHasExpr c = true) : ColNamed (nameColumn src c) := by
  refine ⟨?_, ?_⟩
  · unfold nameColumn; cases hn : c.name <;> simp [hn]
  · rw [nameColumn_x]; intro e; simp [colHasExpr, e] at h

theorem colsNamed_name (src : Bytes) (cs : List Column) (h : cs.all colHasExpr = true) :
    ∀ c ∈ cs.map (nameColumn src), ColNamed c := by
  intro c hc
  obtain ⟨c0, h0, rfl⟩ := List.mem_map.mp hc
  exact colNamed_name src c0 (List.all_eq_true.mp h c0 h0)

mutual
theorem tabNamed_name (src : Bytes) : (t : Tabular) → tabExprsB t = true → tabNamed (nameTabular src t)
  | .nil, _ => by simp only [nameTabular, tabNamed]
  | .mk _ ops, h => by
    simp only [tabExprsB] at h
    simp only [nameTabular, tabNamed]
    exact opsNamed_name src ops h
theorem opsNamed_name (src : Bytes) : (ops : OpList) → opsExprsB ops = true → opsNamed (nameOps src ops)
  | .nil, _ => by simp only [nameOps, opsNamed]
  | .cons o os, h => by
    simp only [opsExprsB, Bool.and_eq_true] at h
    simp only [nameOps, opsNamed]
    exact ⟨opNamed_name src o h.1, opsNamed_name src os h.2⟩
theorem opNamed_name (src : Bytes) : (o : Op) → opExprsB o = true → opNamed (nameOp src o)
  | .join _ _ _ _ _ _ right _ _ _, h => by
    simp only [opExprsB] at h
    simp only [nameOp, opNamed]
    exact tabNamed_name src right h
  | .extend _ _ cs, h => by
    simp only [opExprsB] at h
    simp only [nameOp, opNamed]
    exact colsNamed_name src cs h
  | .summarize _ _ cs _ gs, h => by
    simp only [opExprsB, Bool.and_eq_true] at h
    simp only [nameOp, opNamed]
    exact ⟨colsNamed_name src cs h.1, colsNamed_name src gs h.2⟩
  | .where_ .., _ => by simp only [nameOp, opNamed]
  | .sort .., _ => by simp only [nameOp, opNamed]
  | .take .., _ => by simp only [nameOp, opNamed]
  | .top .., _ => by simp only [nameOp, opNamed]
  | .project .., _ => by simp only [nameOp, opNamed]
  | .count .., _ => by simp only [nameOp, opNamed]
  | .as_ .., _ => by simp only [nameOp, opNamed]
  | .render .., _ => by simp only [nameOp, opNamed]
end

theorem all_x_name (src : Bytes) (p : Expr → Bool) (cs : List Column) :
    (cs.map (nameColumn src)).all (fun c => p c.x) = cs.all (fun c => p c.x) := by
  rw [List.all_map]
  congr 1
  funext c
  simp only [Function.comp, nameColumn_x]

mutual
theorem lexOK_name (src : Bytes) : (t : Tabular) → (nameTabular src t).lexOK = t.lexOK
  | .nil => rfl
  | .mk _ ops => by simp only [nameTabular, Tabular.lexOK]; exact opsLexOK_name src ops
theorem opsLexOK_name (src : Bytes) : (ops : OpList) → (nameOps src ops).lexOK = ops.lexOK
  | .nil => rfl
  | .cons o os => by simp only [nameOps, OpList.lexOK, opLexOK_name src o, opsLexOK_name src os]
theorem opLexOK_name (src : Bytes) : (o : Op) → (nameOp src o).lexOK = o.lexOK
  | .join _ _ _ _ _ _ right _ _ _ => by simp only [nameOp, Op.lexOK, lexOK_name src right]
  | .extend _ _ cs => by simp only [nameOp, Op.lexOK]; exact all_x_name src Expr.lexOK cs
  | .summarize _ _ cs _ gs => by
    simp only [nameOp, Op.lexOK]
    rw [all_x_name src Expr.lexOK cs, all_x_name src Expr.lexOK gs]
  | .where_ .. => rfl
  | .sort .. => rfl
  | .take .. => rfl
  | .top .. => rfl
  | .project .. => rfl
  | .count .. => rfl
  | .as_ .. => rfl
  | .render .. => rfl
end

mutual
theorem tabNE_name (src : Bytes) : (t : Tabular) → TabNE (nameTabular src t) = TabNE t
  | .nil => rfl
  | .mk _ ops => by simp only [nameTabular, TabNE]; exact opsNE_name src ops
theorem opsNE_name (src : Bytes) : (ops : OpList) → OpsNE (nameOps src ops) = OpsNE ops
  | .nil => rfl
  | .cons o os => by simp only [nameOps, OpsNE, opNE_name src o, opsNE_name src os]
theorem opNE_name (src : Bytes) : (o : Op) → OpNE (nameOp src o) = OpNE o
  | .join _ _ _ _ _ _ right _ _ _ => by simp only [nameOp, OpNE, tabNE_name src right]
  | .extend .. => rfl
  | .summarize _ _ cs _ gs => by
    simp only [nameOp, OpNE, ← List.map_append, List.isEmpty_map]
  | .where_ .. => rfl
  | .sort .. => rfl
  | .take .. => rfl
  | .top .. => rfl
  | .project .. => rfl
  | .count .. => rfl
  | .as_ .. => rfl
  | .render .. => rfl
end

/-- the interpreter of programs sees the named query only -/
theorem interpProgram_name (src : Bytes) (db : Sql.DB) (lets : List Stmt) (t : Tabular) (hl : IsLets lets)
    (hX : tabExprsB t = true) :
    Rel.interpProgram src db (lets ++ [.tabular t]) =
      Rel.interpProgram src db (lets ++ [.tabular (nameTabular src t)]) := by
  have hidem : nameTabular src (nameTabular src t) = nameTabular src t :=
    E2E.nameTabular_named src _ (tabNamed_name src t hX)
  have hmap : ∀ (f : Stmt → Stmt), (∀ kw n a x, f (.let_ kw n a x) = .let_ kw n a x) →
      (∀ t', f (.tabular t') = .tabular (nameTabular src t')) →
      ∀ (l : List Stmt), IsLets l → ∀ t' : Tabular,
      (l ++ [Stmt.tabular t']).map f = l ++ [Stmt.tabular (nameTabular src t')] := by
    intro f hf1 hf2 l
    induction l with
    | nil => intro _ t'; simp [hf2]
    | cons s l ih =>
      intro hl' t'
      obtain ⟨kw, n, a, x, rfl⟩ := hl' s List.mem_cons_self
      simp only [List.cons_append, List.map_cons, hf1]
      rw [ih (fun s hs => hl' s (List.mem_cons_of_mem _ hs)) t']
  have key : ∀ t', Rel.interpProgram src db (lets ++ [.tabular t']) =
      (resolveLets (lets ++ [Stmt.tabular (nameTabular src t')]) []).map (interp src db) := by
    intro t'
    unfold Rel.interpProgram
    simp only
    rw [hmap _ (fun _ _ _ _ => rfl) (fun _ => rfl) lets hl t']
  rw [key t, key (nameTabular src t), hidem]

end Pql.E2EMore
