/-
Locality of the scanner: a step of `scanOne` on `x ++ y` that does not run past `x`
is the same step on `x` alone.  One lemma per sub-scanner.
-/
import PqlModel.Lemmas.LexBasic
namespace Pql

theorem identLoop_append (x y : Bytes) (h : identLoop (x ++ y) ≤ x.length) :
    identLoop (x ++ y) = identLoop x := by
  induction x with
  | nil => simp at h; simp [h, identLoop]
  | cons c x ih =>
    simp only [List.cons_append, identLoop, List.length_cons] at h ⊢
    split
    · rename_i hc; simp only [hc, if_true] at h; rw [ih (by omega)]
    · rfl

theorem digitsLen_append (x y : Bytes) (h : digitsLen (x ++ y) ≤ x.length) :
    digitsLen (x ++ y) = digitsLen x := by
  induction x with
  | nil => simp at h; simp [h, digitsLen]
  | cons c x ih =>
    simp only [List.cons_append, digitsLen, List.length_cons] at h ⊢
    split
    · rename_i hc; simp only [hc, if_true] at h; rw [ih (by omega)]
    · rfl

theorem hexDigitsLen_append (x y : Bytes) (h : hexDigitsLen (x ++ y) ≤ x.length) :
    hexDigitsLen (x ++ y) = hexDigitsLen x := by
  induction x with
  | nil => simp at h; simp [h, hexDigitsLen]
  | cons c x ih =>
    simp only [List.cons_append, hexDigitsLen, List.length_cons] at h ⊢
    split
    · rename_i hc; simp only [hc, if_true] at h; rw [ih (by omega)]
    · rfl

theorem mantissaLoop_append (b : Bool) (x y : Bytes) (h : mantissaLoop b (x ++ y) ≤ x.length) :
    mantissaLoop b (x ++ y) = mantissaLoop b x := by
  induction x generalizing b with
  | nil => simp at h; simp [h, mantissaLoop]
  | cons c x ih =>
    simp only [List.cons_append, mantissaLoop, List.length_cons] at h ⊢
    split
    · rename_i hc; simp only [hc, if_true] at h; rw [ih true (by omega)]
    · rename_i hc
      simp only [hc] at h
      split
      · rename_i hd; simp only [hd, if_true] at h; rw [ih b (by simpa using h)]
      · rfl

theorem commentLen_append (x y : Bytes) (h : commentLen (x ++ y) ≤ x.length) :
    commentLen (x ++ y) = commentLen x := by
  induction x with
  | nil =>
    cases y with
    | nil => rfl
    | cons d y => simp [commentLen] at h; split at h <;> omega
  | cons c x ih =>
    simp only [List.cons_append, commentLen, List.length_cons] at h ⊢
    split
    · rfl
    · rename_i hc; simp only [hc] at h; rw [ih (by simpa using h)]

theorem exponentLen_append (x y : Bytes) (h : exponentLen (x ++ y) ≤ x.length) :
    exponentLen (x ++ y) = exponentLen x := by
  match x, y with
  | [], y => simp at h; rw [List.nil_append, h]; rfl
  | [e], [] => rfl
  | [e], c :: [] => 
    simp only [List.cons_append, List.nil_append, exponentLen, List.length_cons, List.length_nil] at h ⊢
    repeat' split at h
    all_goals simp_all
  | [e], c :: d :: y =>
    simp only [List.cons_append, List.nil_append, exponentLen, List.length_cons, List.length_nil] at h ⊢
    repeat' split at h
    all_goals simp_all
  | [e, c], [] => rfl
  | [e, c], d :: y => 
    simp only [List.cons_append, List.nil_append, exponentLen, List.length_cons, List.length_nil] at h ⊢
    have := digitsLen_append [] (d :: y)
    repeat' split at h
    all_goals simp_all [digitsLen]
  | e :: c :: d :: x, y =>
    simp only [List.cons_append, exponentLen, List.length_cons] at h ⊢
    have h1 := digitsLen_append x y
    have h2 := digitsLen_append (d :: x) y
    repeat' split at h
    all_goals simp_all

theorem qidentLoop_cons (c : UInt8) (rest : Bytes) :
    qidentLoop (c :: rest) =
      if c == 96 then
        match rest with
        | [] => .closed [] 1
        | d :: rest' => if d == 96 then (qidentLoop rest').shift 2 (some 96) else .closed [] 1
      else if c == 10 then .bad 0
      else (qidentLoop rest).shift 1 (some c) := by
  cases rest <;> simp [qidentLoop]

theorem qidentLoop_append (x y : Bytes) (h : (qidentLoop (x ++ y)).width ≤ x.length) :
    qidentLoop (x ++ y) = qidentLoop x := by
  fun_induction qidentLoop x with
  | case1 => 
    cases y with
    | nil => rfl
    | cons c y =>
      simp only [List.nil_append, List.length_nil] at h ⊢
      unfold qidentLoop at h ⊢
      repeat' split at h
      all_goals simp_all
  | case2 c hc =>
    cases y with
    | nil => simp [qidentLoop, hc]
    | cons d y =>
      simp only [List.cons_append, List.nil_append, List.length_cons, List.length_nil,
        qidentLoop, hc, if_true] at h ⊢
      split at h <;> simp_all
  | case3 c hc d rest' hd ih =>
    simp only [List.cons_append, List.length_cons, qidentLoop, hc, hd, if_true,
      QRes.width_shift] at h ⊢
    rw [ih (by omega)]
  | case4 c hc d rest' hd =>
    simp [qidentLoop, hc, hd]
  | case5 c rest hc hc' =>
    simp [qidentLoop_cons, hc, hc']
  | case6 c rest hc hc' ih =>
    simp only [List.cons_append, List.length_cons, qidentLoop_cons, hc, hc', Bool.false_eq_true, ↓reduceIte,
      QRes.width_shift] at h ⊢
    rw [ih (by simpa using h)]

theorem stringLoop_cons (q c : UInt8) (rest : Bytes) :
    stringLoop q (c :: rest) =
      if c == q then .closed [] 1
      else if c == 10 then .bad 0
      else if c == 92 then
        match rest with
        | [] => .bad 1
        | e :: rest' =>
          if e == 10 then .bad 1
          else
            (stringLoop q rest').shift 2 (some (if e == 110 then 10 else if e == 116 then 9 else e))
      else (stringLoop q rest).shift 1 (some c) := by
  cases rest <;> simp [stringLoop]

theorem stringLoop_append (q : UInt8) (x y : Bytes) (h : (stringLoop q (x ++ y)).width ≤ x.length) :
    stringLoop q (x ++ y) = stringLoop q x := by
  fun_induction stringLoop q x with
  | case1 =>
    cases y with
    | nil => rfl
    | cons c y =>
      simp only [List.nil_append, List.length_nil, stringLoop_cons] at h ⊢
      repeat' split at h
      all_goals simp_all
  | case2 c rest hc => simp [stringLoop_cons, hc]
  | case3 c rest hc hc' => simp [stringLoop_cons, hc, hc']
  | case4 c hc hc' hc'' =>
    cases y with
    | nil => simp [stringLoop_cons, hc, hc', hc'']
    | cons e y =>
      simp only [List.cons_append, List.nil_append, List.length_cons, List.length_nil,
        stringLoop_cons, hc, hc', hc'', Bool.false_eq_true, ↓reduceIte] at h ⊢
      split at h <;> simp_all
  | case5 c hc hc' hc'' e rest' he => simp [stringLoop_cons, hc, hc', hc'', he]
  | case6 c hc hc' hc'' e rest' he v ih =>
    simp only [List.cons_append, List.length_cons, stringLoop_cons, hc, hc', hc'', he,
      Bool.false_eq_true, ↓reduceIte, QRes.width_shift] at h ⊢
    rw [ih (by omega)]
  | case7 c rest hc hc' hc'' ih =>
    simp only [List.cons_append, List.length_cons, stringLoop_cons, hc, hc', hc'',
      Bool.false_eq_true, ↓reduceIte, QRes.width_shift] at h ⊢
    rw [ih (by simpa using h)]

/-- A successful multi-byte decode only looks at the bytes it consumes. -/
theorem decodeMulti_append_some (n0 : Nat) (x y : Bytes) (r w : Nat)
    (h : decodeMulti n0 (x ++ y) = some (r, w)) (hw : w ≤ x.length + 1) :
    decodeMulti n0 x = some (r, w) := by
  unfold decodeMulti at h ⊢
  match x with
  | [] => 
    repeat' split at h
    all_goals simp_all
    all_goals omega
  | [b1] => 
    repeat' split at h
    all_goals simp_all
    all_goals omega
  | [b1, b2] => 
    repeat' split at h
    all_goals simp_all
    all_goals omega
  | b1 :: b2 :: b3 :: x => simpa using h

theorem decodeMulti_append_mono (n0 : Nat) (x y : Bytes) (rw : Nat × Nat)
    (h : decodeMulti n0 x = some rw) : decodeMulti n0 (x ++ y) = some rw := by
  unfold decodeMulti at h ⊢
  match x with
  | [] => 
    repeat' split at h
    all_goals simp_all
  | [b1] => 
    repeat' split at h
    all_goals simp_all
  | [b1, b2] => 
    repeat' split at h
    all_goals simp_all
    all_goals (intros; omega)
  | b1 :: b2 :: b3 :: x => simpa using h


theorem decodeRune_append (x y : Bytes) (h : (decodeRune (x ++ y)).2 ≤ x.length) :
    decodeRune (x ++ y) = decodeRune x := by
  cases x with
  | nil =>
    cases y with
    | nil => rfl
    | cons b y => have := decodeRune_width_pos b y; simp at h; omega
  | cons b x =>
    simp only [List.cons_append, decodeRune_cons, List.length_cons] at h ⊢
    split
    · rfl
    · rename_i hb
      simp only [hb, if_false] at h
      cases hm : decodeMulti b.toNat (x ++ y) with
      | some rw =>
        obtain ⟨r, w⟩ := rw
        rw [hm] at h
        rw [decodeMulti_append_some _ x y r w hm (by simpa using h)]
      | none =>
        cases hx : decodeMulti b.toNat x with
        | none => rfl
        | some rw => rw [decodeMulti_append_mono _ x y rw hx] at hm; cases hm

theorem scanNonAscii_append (x y : Bytes) (h : (scanNonAscii (x ++ y)).width ≤ x.length) :
    scanNonAscii (x ++ y) = scanNonAscii x := by
  unfold scanNonAscii at h ⊢
  have hw : (decodeRune (x ++ y)).2 ≤ x.length := by
    simp only [Step.skip, Step.sym] at h
    split at h <;> simpa using h
  rw [decodeRune_append x y hw]

theorem scanPunct_append (c : UInt8) (x y : Bytes)
    (h : (scanPunct c (x ++ y)).width ≤ x.length + 1) :
    scanPunct c (x ++ y) = scanPunct c x := by
  cases x with
  | nil =>
    cases y with
    | nil => rfl
    | cons d y =>
      simp only [List.nil_append, List.length_nil] at h ⊢
      unfold scanPunct at h ⊢
      simp only [Step.skip, Step.sym, List.head?_cons, List.head?_nil, List.tail_cons] at h ⊢
      repeat' split at h
      all_goals simp_all
      all_goals (repeat' split at h)
      all_goals simp_all
  | cons d x =>
    simp only [List.cons_append, List.length_cons] at h ⊢
    unfold scanPunct at h ⊢
    simp only [Step.skip, Step.sym, List.head?_cons, List.tail_cons] at h ⊢
    have hcl := commentLen_append x y
    repeat' split at h
    all_goals simp_all
    split at h
    · simp only [Nat.add_le_add_iff_right] at h
      rw [hcl h]
    · rename_i hd; simp only [hd, if_false]

theorem take_append_of_le {α} (x y : List α) (n : Nat) (h : n ≤ x.length) :
    (x ++ y).take n = x.take n := by
  rw [List.take_append_of_le_length h]

theorem drop_append_of_le {α} (x y : List α) (n : Nat) (h : n ≤ x.length) :
    (x ++ y).drop n = x.drop n ++ y := by
  rw [List.drop_append_of_le_length h]

theorem scanIdent_append (c : UInt8) (x y : Bytes)
    (h : (scanIdent (c :: x ++ y)).width ≤ x.length + 1) :
    scanIdent (c :: x ++ y) = scanIdent (c :: x) := by
  have hw : identLoop (x ++ y) ≤ x.length := by
    simp only [scanIdent, List.cons_append, List.tail_cons] at h
    split at h <;> simpa using h
  simp only [scanIdent, List.cons_append, List.tail_cons, identLoop_append x y hw]
  have hl := identLoop_le x
  rw [← List.cons_append, take_append_of_le _ _ _ (by simp; omega)]

theorem finishNumber_append (x y : Bytes) (k : Nat) (b : Bool) (hk : k ≤ x.length)
    (h : (finishNumber (x ++ y) k b).width ≤ x.length) :
    finishNumber (x ++ y) k b = finishNumber x k b := by
  simp only [finishNumber] at h ⊢
  rw [drop_append_of_le x y k hk] at h ⊢
  have hm : mantissaLoop b (x.drop k ++ y) = mantissaLoop b (x.drop k) :=
    mantissaLoop_append b _ _ (by simp only [List.length_drop]; omega)
  rw [hm] at h ⊢
  rw [drop_append_of_le x y _ (by omega)] at h ⊢
  have he : exponentLen (x.drop (k + mantissaLoop b (x.drop k)) ++ y) =
      exponentLen (x.drop (k + mantissaLoop b (x.drop k))) :=
    exponentLen_append _ _ (by simp only [List.length_drop]; omega)
  rw [he] at h ⊢
  rw [take_append_of_le _ _ _ h]

theorem finishNumber_width_ge (s : Bytes) (k : Nat) (b : Bool) : k ≤ (finishNumber s k b).width := by
  simp only [finishNumber]; omega

theorem scanNumberOrDot_append_one (c : UInt8) (y : Bytes)
    (h : (scanNumberOrDot (c :: y)).width ≤ 1) :
    scanNumberOrDot (c :: y) = scanNumberOrDot [c] := by
  cases y with
  | nil => rfl
  | cons c2 y =>
    have hf := finishNumber_append [c] (c2 :: y) 1 false (by simp)
    have h2t := finishNumber_width_ge (c :: c2 :: y) 2 true
    have h2f := finishNumber_width_ge (c :: c2 :: y) 2 false
    simp only [List.cons_append, List.nil_append, List.length_cons, List.length_nil] at hf
    unfold scanNumberOrDot at h ⊢
    simp only at h ⊢
    split
    · rename_i hc
      simp only [hc, if_true] at h
      split
      · rename_i h1; simp only [h1, if_true] at h; omega
      · rename_i h1; simp only [h1, Bool.false_eq_true, ↓reduceIte] at h
        split
        · rename_i h2; simp only [h2, if_true] at h
          have he : exponentLen (c2 :: y) = 0 := by omega
          have hc' : c = 48 := by simpa using hc
          subst hc'
          rw [he]; rfl
        · rename_i h2; simp only [h2, Bool.false_eq_true, ↓reduceIte] at h
          split
          · rename_i h3; simp only [h3, if_true] at h
            repeat' split at h
            all_goals (simp at h; try omega)
          · rename_i h3; simp only [h3, Bool.false_eq_true, ↓reduceIte] at h
            split
            · rename_i h4; simp only [h4, if_true] at h; omega
            · rename_i h4; simp only [h4, Bool.false_eq_true, ↓reduceIte] at h
              rw [hf (by simpa using h)]
              have hc' : c = 48 := by simpa using hc
              subst hc'
              rfl
    · rename_i hc
      simp only [hc, Bool.false_eq_true, ↓reduceIte] at h
      split
      · rename_i h1; simp only [h1, if_true] at h
        split
        · rename_i h2; simp only [h2, if_true] at h; omega
        · rfl
      · rename_i h1; simp only [h1, Bool.false_eq_true, ↓reduceIte] at h
        exact hf (by simpa using h)

theorem scanNumberOrDot_append_two (c c2 : UInt8) (x y : Bytes)
    (h : (scanNumberOrDot (c :: c2 :: x ++ y)).width ≤ x.length + 2) :
    scanNumberOrDot (c :: c2 :: x ++ y) = scanNumberOrDot (c :: c2 :: x) := by
  have hf : ∀ k b, k ≤ 2 → (finishNumber (c :: c2 :: x ++ y) k b).width ≤ x.length + 2 →
      finishNumber (c :: c2 :: x ++ y) k b = finishNumber (c :: c2 :: x) k b := by
    intro k b hk hw
    exact finishNumber_append (c :: c2 :: x) y k b (by simp; omega) (by simpa using hw)
  have he := exponentLen_append (c2 :: x) y
  have hx := hexDigitsLen_append x y
  simp only [List.cons_append, List.length_cons] at hf he
  unfold scanNumberOrDot at h ⊢
  simp only [List.cons_append] at h ⊢
  split
  · rename_i hc
    simp only [hc, if_true] at h
    split
    · rename_i h1; simp only [h1, if_true] at h
      exact hf 2 true (by omega) h
    · rename_i h1; simp only [h1, Bool.false_eq_true, ↓reduceIte] at h
      split
      · rename_i h2; simp only [h2, if_true] at h
        rw [he (by omega)]
        have := exponentLen_le (c2 :: x)
        rw [← List.cons_append, ← List.cons_append, take_append_of_le _ _ _ (by simp at this ⊢; omega)]
      · rename_i h2; simp only [h2, Bool.false_eq_true, ↓reduceIte] at h
        split
        · rename_i h3; simp only [h3, if_true] at h
          have hxx : hexDigitsLen (x ++ y) = hexDigitsLen x := by
            apply hx
            repeat' split at h
            all_goals simp_all
            all_goals omega
          rw [hxx, take_append_of_le _ _ _ (hexDigitsLen_le x)]
        · rename_i h3; simp only [h3, Bool.false_eq_true, ↓reduceIte] at h
          split
          · rename_i h4; simp only [h4, if_true] at h; exact hf 2 false (by omega) h
          · rename_i h4; simp only [h4, Bool.false_eq_true, ↓reduceIte] at h
            exact hf 1 false (by omega) h
  · rename_i hc
    simp only [hc, Bool.false_eq_true, ↓reduceIte] at h
    split
    · rename_i h1; simp only [h1, if_true] at h
      split
      · rename_i h2; simp only [h2, if_true] at h; exact hf 2 true (by omega) h
      · rfl
    · rename_i h1; simp only [h1, Bool.false_eq_true, ↓reduceIte] at h
      exact hf 1 false (by omega) h

theorem scanNumberOrDot_append (c : UInt8) (x y : Bytes)
    (h : (scanNumberOrDot (c :: x ++ y)).width ≤ x.length + 1) :
    scanNumberOrDot (c :: x ++ y) = scanNumberOrDot (c :: x) := by
  cases x with
  | nil => exact scanNumberOrDot_append_one c y (by simpa using h)
  | cons c2 x => exact scanNumberOrDot_append_two c c2 x y (by simpa using h)

theorem scanString_append (q : UInt8) (x y : Bytes)
    (h : (scanString (q :: x ++ y)).width ≤ x.length + 1) :
    scanString (q :: x ++ y) = scanString (q :: x) := by
  have hw : (stringLoop q (x ++ y)).width ≤ x.length := by
    simp only [scanString, List.cons_append] at h
    split at h <;> simp_all
  simp only [scanString, List.cons_append, stringLoop_append q x y hw]

theorem scanQuotedIdent_append (c : UInt8) (x y : Bytes)
    (h : (scanQuotedIdent (c :: x ++ y)).width ≤ x.length + 1) :
    scanQuotedIdent (c :: x ++ y) = scanQuotedIdent (c :: x) := by
  have hw : (qidentLoop (x ++ y)).width ≤ x.length := by
    simp only [scanQuotedIdent, List.cons_append, List.tail_cons] at h
    split at h <;> simp_all
  simp only [scanQuotedIdent, List.cons_append, List.tail_cons, qidentLoop_append x y hw]

/-- **Locality of one step.** A step on `x ++ y` that does not run past `x` is the step on `x`. -/
theorem scanOne_append (x y : Bytes) (h : (scanOne (x ++ y)).width ≤ x.length) :
    scanOne (x ++ y) = scanOne x := by
  cases x with
  | nil =>
    cases y with
    | nil => rfl
    | cons c y => have := scanOne_width_pos c y; simp at h; omega
  | cons c x =>
    simp only [List.cons_append, List.length_cons] at h ⊢
    unfold scanOne at h ⊢
    simp only [Step.ofLexeme, Step.skip] at h ⊢
    split
    · rename_i h1; simp only [h1, if_true] at h
      exact scanNonAscii_append (c :: x) y (by simpa using h)
    · rename_i h1; simp only [h1, if_false] at h
      split
      · rfl
      · rename_i h2; simp only [h2, Bool.false_eq_true, ↓reduceIte] at h
        split
        · rename_i h3; simp only [h3, if_true] at h
          have e := scanIdent_append c x y h; simp only [List.cons_append] at e; rw [e]
        · rename_i h3; simp only [h3, Bool.false_eq_true, ↓reduceIte] at h
          split
          · rename_i h4; simp only [h4, if_true] at h
            have e := scanNumberOrDot_append c x y h; simp only [List.cons_append] at e; rw [e]
          · rename_i h4; simp only [h4, Bool.false_eq_true, ↓reduceIte] at h
            split
            · rename_i h5; simp only [h5, if_true] at h
              have e := scanString_append c x y h; simp only [List.cons_append] at e; rw [e]
            · rename_i h5; simp only [h5, Bool.false_eq_true, ↓reduceIte] at h
              split
              · rename_i h6; simp only [h6, if_true] at h
                have e := scanQuotedIdent_append c x y h; simp only [List.cons_append] at e; rw [e]
              · rename_i h6; simp only [h6, Bool.false_eq_true, ↓reduceIte] at h
                exact scanPunct_append c x y h
end Pql
