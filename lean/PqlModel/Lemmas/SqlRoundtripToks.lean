/-
ParseRoundtrip, stage (a): the token table.  `toksOf` distributes over the chunk structure, every
fixed text the expression writer emits stands for a fixed token list (kernel-evaluated), and the
word classifications (`upper`, `isWord`, `infixPrec`) of those tokens are computed.
-/
import PqlModel.Spec.ChunkToks
import PqlModel.Spec.CompileOracle
namespace Pql.RT
open Pql Sql

/-! ### `toksOf` -/

@[simp] theorem toksOf_nil : toksOf [] = [] := rfl

@[simp] theorem toksOf_cons (c : Chunk) (cs : List Chunk) : toksOf (c :: cs) = chunkToks c ++ toksOf cs := by
  simp [toksOf]

@[simp] theorem toksOf_append (a b : List Chunk) : toksOf (a ++ b) = toksOf a ++ toksOf b := by
  simp [toksOf]

@[simp] theorem chunkToks_txt (s : String) : chunkToks (.txt s) = txtToks s := rfl
@[simp] theorem chunkToks_qid (n : Bytes) : chunkToks (.qid n) = [.qid n] := rfl
@[simp] theorem chunkToks_qstr (n : Bytes) : chunkToks (.qstr n) = [.str n] := rfl
@[simp] theorem chunkToks_num (n : Bytes) : chunkToks (.num n) = [.num n] := rfl
@[simp] theorem chunkToks_fname (n : Bytes) : chunkToks (.fname n) = [.word n] := rfl

theorem toksOf_parenthesise (body : List Chunk) :
    toksOf (parenthesise body) = txtToks "(" ++ (toksOf body ++ txtToks ")") := by
  simp [parenthesise]

/-! ### the fixed texts of the expression writer -/

/-- the words of the emitted SQL -/
abbrev W (s : String) : STok := .word (Bytes.ofString s)
abbrev S (s : String) : STok := .sym s

@[simp] theorem tt_lparen : txtToks "(" = [S "("] := by decide
@[simp] theorem tt_rparen : txtToks ")" = [S ")"] := by decide
@[simp] theorem tt_lbrack : txtToks "[" = [S "["] := by decide
@[simp] theorem tt_rbrack : txtToks "]" = [S "]"] := by decide
@[simp] theorem tt_dot : txtToks "." = [S "."] := by decide
@[simp] theorem tt_comma : txtToks ", " = [S ","] := by decide
@[simp] theorem tt_space : txtToks " " = [] := by decide
@[simp] theorem tt_plus : txtToks "+" = [S "+"] := by decide
@[simp] theorem tt_minus : txtToks "-" = [S "-"] := by decide
@[simp] theorem tt_eq : txtToks " = " = [S "="] := by decide
@[simp] theorem tt_ne : txtToks " <> " = [S "<>"] := by decide
@[simp] theorem tt_coalesce : txtToks "coalesce(" = [W "coalesce", S "("] := by decide
@[simp] theorem tt_false_close : txtToks ", FALSE)" = [S ",", W "FALSE", S ")"] := by decide
@[simp] theorem tt_lower : txtToks "lower(" = [W "lower", S "("] := by decide
@[simp] theorem tt_eq_lower : txtToks ") = lower(" = [S ")", S "=", W "lower", S "("] := by decide
@[simp] theorem tt_ne_lower : txtToks ") <> lower(" = [S ")", S "<>", W "lower", S "("] := by decide
@[simp] theorem tt_in : txtToks " IN (" = [W "IN", S "("] := by decide
@[simp] theorem tt_not : txtToks "NOT " = [W "NOT"] := by decide
@[simp] theorem tt_is_null : txtToks " IS NULL" = [W "IS", W "NULL"] := by decide
@[simp] theorem tt_is_not_null : txtToks " IS NOT NULL" = [W "IS", W "NOT", W "NULL"] := by decide
@[simp] theorem tt_concat : txtToks " || " = [S "||"] := by decide
@[simp] theorem tt_count : txtToks "count()" = [W "count", S "(", S ")"] := by decide
@[simp] theorem tt_count_filter : txtToks "count() FILTER (WHERE " =
    [W "count", S "(", S ")", W "FILTER", S "(", W "WHERE"] := by decide
@[simp] theorem tt_case : txtToks "CASE WHEN coalesce(" = [W "CASE", W "WHEN", W "coalesce", S "("] := by decide
@[simp] theorem tt_then : txtToks ", FALSE) THEN " = [S ",", W "FALSE", S ")", W "THEN"] := by decide
@[simp] theorem tt_else : txtToks " ELSE " = [W "ELSE"] := by decide
@[simp] theorem tt_end : txtToks " END" = [W "END"] := by decide
@[simp] theorem tt_LOWER : txtToks "LOWER(" = [W "LOWER", S "("] := by decide
@[simp] theorem tt_UPPER : txtToks "UPPER(" = [W "UPPER", S "("] := by decide
@[simp] theorem tt_now : txtToks "CURRENT_TIMESTAMP" = [W "CURRENT_TIMESTAMP"] := by decide
@[simp] theorem tt_TRUE : txtToks "TRUE" = [W "TRUE"] := by decide
@[simp] theorem tt_FALSE : txtToks "FALSE" = [W "FALSE"] := by decide
@[simp] theorem tt_NULL : txtToks "NULL" = [W "NULL"] := by decide
-- the operator texts of `Facts.binaryOps`
@[simp] theorem tt_AND : txtToks "AND" = [W "AND"] := by decide
@[simp] theorem tt_OR : txtToks "OR" = [W "OR"] := by decide
@[simp] theorem tt_ge : txtToks ">=" = [S ">="] := by decide
@[simp] theorem tt_gt : txtToks ">" = [S ">"] := by decide
@[simp] theorem tt_le : txtToks "<=" = [S "<="] := by decide
@[simp] theorem tt_lt : txtToks "<" = [S "<"] := by decide
@[simp] theorem tt_mod : txtToks "%" = [S "%"] := by decide
@[simp] theorem tt_slash : txtToks "/" = [S "/"] := by decide
@[simp] theorem tt_star : txtToks "*" = [S "*"] := by decide

/-! ### `upper` on words -/

theorem upper_eq (w : Bytes) :
    upper w = String.ofList ((w.map fun c => if 32 ≤ c.toNat ∧ c.toNat < 127 then Char.ofNat c.toNat else '?').map
      Char.toUpper) := by
  simp [upper, Bytes.toStringLossy, String.toUpper, String.map_eq_internal]

@[simp] theorem up_coalesce : upper (Bytes.ofString "coalesce") = "COALESCE" := by rw [upper_eq]; decide
@[simp] theorem up_lower : upper (Bytes.ofString "lower") = "LOWER" := by rw [upper_eq]; decide
@[simp] theorem up_LOWER : upper (Bytes.ofString "LOWER") = "LOWER" := by rw [upper_eq]; decide
@[simp] theorem up_UPPER : upper (Bytes.ofString "UPPER") = "UPPER" := by rw [upper_eq]; decide
@[simp] theorem up_count : upper (Bytes.ofString "count") = "COUNT" := by rw [upper_eq]; decide
@[simp] theorem up_TRUE : upper (Bytes.ofString "TRUE") = "TRUE" := by rw [upper_eq]; decide
@[simp] theorem up_FALSE : upper (Bytes.ofString "FALSE") = "FALSE" := by rw [upper_eq]; decide
@[simp] theorem up_NULL : upper (Bytes.ofString "NULL") = "NULL" := by rw [upper_eq]; decide
@[simp] theorem up_now : upper (Bytes.ofString "CURRENT_TIMESTAMP") = "CURRENT_TIMESTAMP" := by
  rw [upper_eq]; decide
@[simp] theorem up_NOT : upper (Bytes.ofString "NOT") = "NOT" := by rw [upper_eq]; decide
@[simp] theorem up_IS : upper (Bytes.ofString "IS") = "IS" := by rw [upper_eq]; decide
@[simp] theorem up_IN : upper (Bytes.ofString "IN") = "IN" := by rw [upper_eq]; decide
@[simp] theorem up_CASE : upper (Bytes.ofString "CASE") = "CASE" := by rw [upper_eq]; decide
@[simp] theorem up_WHEN : upper (Bytes.ofString "WHEN") = "WHEN" := by rw [upper_eq]; decide
@[simp] theorem up_THEN : upper (Bytes.ofString "THEN") = "THEN" := by rw [upper_eq]; decide
@[simp] theorem up_ELSE : upper (Bytes.ofString "ELSE") = "ELSE" := by rw [upper_eq]; decide
@[simp] theorem up_END : upper (Bytes.ofString "END") = "END" := by rw [upper_eq]; decide
@[simp] theorem up_FILTER : upper (Bytes.ofString "FILTER") = "FILTER" := by rw [upper_eq]; decide
@[simp] theorem up_WHERE : upper (Bytes.ofString "WHERE") = "WHERE" := by rw [upper_eq]; decide
@[simp] theorem up_AND : upper (Bytes.ofString "AND") = "AND" := by rw [upper_eq]; decide
@[simp] theorem up_OR : upper (Bytes.ofString "OR") = "OR" := by rw [upper_eq]; decide

/-- `isWord` on a word token -/
@[simp] theorem isWord_word (w : Bytes) (kw : String) : isWord (.word w) kw = (upper w == kw) := rfl
@[simp] theorem isWord_sym (s kw : String) : isWord (.sym s) kw = false := rfl
@[simp] theorem isWord_qid (s : Bytes) (kw : String) : isWord (.qid s) kw = false := rfl
@[simp] theorem isWord_str (s : Bytes) (kw : String) : isWord (.str s) kw = false := rfl
@[simp] theorem isWord_num (s : Bytes) (kw : String) : isWord (.num s) kw = false := rfl
@[simp] theorem isWord_param (s : Bytes) (kw : String) : isWord (.param s) kw = false := rfl
@[simp] theorem isWord_comment (kw : String) : isWord .comment kw = false := rfl
@[simp] theorem isSym_sym (s x : String) : isSym (.sym s) x = (s == x) := rfl
@[simp] theorem isSym_word (w : Bytes) (x : String) : isSym (.word w) x = false := rfl
@[simp] theorem isSym_qid (w : Bytes) (x : String) : isSym (.qid w) x = false := rfl
@[simp] theorem isSym_str (w : Bytes) (x : String) : isSym (.str w) x = false := rfl
@[simp] theorem isSym_num (w : Bytes) (x : String) : isSym (.num w) x = false := rfl
@[simp] theorem isSym_param (w : Bytes) (x : String) : isSym (.param w) x = false := rfl
@[simp] theorem isSym_comment (x : String) : isSym .comment x = false := rfl

end Pql.RT
