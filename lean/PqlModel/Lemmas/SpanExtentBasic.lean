/-
Span arithmetic for property C10 ("a node's span is the extent of its tokens"):

* `ext ts`  — the extent of a token list: from the start of its first to the end of its last
              token (`Span.null` for the empty list);
* on a token list as `scan` produces it (`TokOK`), `Span.union` of the extents of two
  consecutive segments is the extent of their concatenation (`ext_union`), also when tokens
  lie between two non-empty segments (`ext_union_gap`);
* `Span.unions` / `sliceSpan` of the extents of consecutive segments (`unions_ext`,
  `unions_ext_gap`, `unions_cons_gap`).
-/
import PqlModel.Lemmas.AccountedBasic
import PqlModel.Props.C10
namespace Pql
open C10

/-- the extent of a token list -/
def ext : List Token → Span
  | [] => .null
  | t :: ts => ⟨t.start, (ts.getLastD t).stop⟩

@[simp] theorem ext_nil : ext [] = .null := rfl
@[simp] theorem ext_single (t : Token) : ext [t] = t.span := rfl
theorem ext_pair (t t2 : Token) : ext [t, t2] = ⟨t.start, t2.stop⟩ := rfl

theorem ext_eq_head_getLast {ts : List Token} (h : ts ≠ []) :
    ext ts = ⟨(ts.head h).start, (ts.getLast h).stop⟩ := by
  cases ts with
  | nil => exact absurd rfl h
  | cons t ts => rw [List.getLast_eq_getLastD]; rfl

theorem getLastD_append_cons {α} (l : List α) (s : α) (b : List α) (t : α) :
    (l ++ s :: b).getLastD t = b.getLastD s := by
  induction l generalizing t with
  | nil => rw [List.nil_append, List.getLastD_cons]
  | cons x l ih => rw [List.cons_append, List.getLastD_cons, ih]

theorem ext_append_cons (t : Token) (a m : List Token) (s : Token) (b : List Token) :
    ext ((t :: a) ++ m ++ s :: b) = ⟨t.start, (b.getLastD s).stop⟩ := by
  have : (t :: a) ++ m ++ s :: b = t :: ((a ++ m) ++ s :: b) := by simp
  rw [this]
  simp only [ext, getLastD_append_cons]

/-! ### order facts of `TokOK` lists -/

theorem TokOK.mem_le {ts : List Token} (h : TokOK ts) {x : Token} (hx : x ∈ ts) : x.start ≤ x.stop :=
  (h.1 x hx).le

theorem TokOK.start_le_last {t : Token} {ts : List Token} (h : TokOK (t :: ts)) :
    t.start ≤ (ts.getLastD t).stop := by
  cases ts with
  | nil => exact h.head.le
  | cons y ys =>
    have hmem : (y :: ys).getLastD t ∈ y :: ys := by
      rw [List.getLastD_cons]; exact List.getLastD_mem_cons
    have h1 := h.head.le
    have h2 := h.tail.mem_le hmem
    have h3 : t.stop ≤ ((y :: ys).getLastD t).start := by
      have := h.2
      rw [List.pairwise_cons] at this
      exact this.1 _ hmem
    omega

theorem TokOK.cross {a b : List Token} (h : TokOK (a ++ b)) {x y : Token} (hx : x ∈ a) (hy : y ∈ b) :
    x.stop ≤ y.start := by
  have := h.2
  rw [List.pairwise_append] at this
  exact this.2.2 x hx y hy

theorem ext_valid {ts : List Token} (h : TokOK ts) (hne : ts ≠ []) : (ext ts).isValid = true := by
  cases ts with
  | nil => exact absurd rfl hne
  | cons t ts =>
    have := h.start_le_last
    simp only [ext, isValid_iff]
    omega

theorem ext_valid_iff {ts : List Token} (h : TokOK ts) : (ext ts).isValid = true ↔ ts ≠ [] := by
  constructor
  · intro hv hn; subst hn; simp at hv
  · exact ext_valid h

/-! ### `Span.union` -/

theorem union_invalid_right {u s : Span} (hs : s.isValid = false) : Span.union u s = u := by
  simp [Span.union, hs]

@[simp] theorem union_null_right (u : Span) : Span.union u .null = u :=
  union_invalid_right (by decide)

theorem union_invalid_left {u s : Span} (hu : u.isValid = false) (hs : s.isValid = true) :
    Span.union u s = s := by
  simp [Span.union, hs, hu]

theorem union_of_valid {u s : Span} (hu : u.isValid = true) (hs : s.isValid = true) :
    Span.union u s = ⟨min u.start s.start, max u.stop s.stop⟩ := by
  simp [Span.union, hs, hu]

theorem union_assoc (u s w : Span) : Span.union (Span.union u s) w = Span.union u (Span.union s w) := by
  cases hw : w.isValid
  · rw [union_invalid_right hw, union_invalid_right hw]
  · cases hs : s.isValid
    · rw [union_invalid_right hs, union_invalid_left hs hw]
    · cases hu : u.isValid
      · rw [union_invalid_left hu hs, union_invalid_left hu (union_valid_of_left hs)]
      · rw [union_of_valid (union_valid_of_left hu) hw, union_of_valid hu (union_valid_of_left hs),
          union_of_valid hu hs, union_of_valid hs hw]
        simp only [Span.mk.injEq]
        omega

/-- extents of two non-empty segments of an ordered token list, with any tokens in between -/
theorem ext_union_gap {a m b : List Token} (h : TokOK (a ++ m ++ b)) (ha : a ≠ []) (hb : b ≠ []) :
    Span.union (ext a) (ext b) = ext (a ++ m ++ b) := by
  cases a with
  | nil => exact absurd rfl ha
  | cons t a =>
    cases b with
    | nil => exact absurd rfl hb
    | cons s b =>
      have hA : TokOK (t :: a) := h.left.left
      have hB : TokOK (s :: b) := h.right
      rw [union_of_valid (ext_valid hA (by simp)) (ext_valid hB (by simp)), ext_append_cons]
      have h1 := hA.start_le_last
      have h2 := hB.start_le_last
      have hla : a.getLastD t ∈ (t :: a) ++ m := List.mem_append_left _ List.getLastD_mem_cons
      have h3 : t.stop ≤ s.start := h.cross (List.mem_append_left _ (by simp)) (by simp)
      have h5 : (a.getLastD t).stop ≤ s.start := h.cross hla (by simp)
      have h6 := hA.head.le
      have h7 := hB.head.le
      simp only [ext, Span.mk.injEq]
      omega

/-- extents of two consecutive segments -/
theorem ext_union {a b : List Token} (h : TokOK (a ++ b)) : Span.union (ext a) (ext b) = ext (a ++ b) := by
  cases a with
  | nil =>
    cases b with
    | nil => rfl
    | cons s b =>
      rw [List.nil_append] at h ⊢
      exact union_invalid_left (by simp) (ext_valid h (by simp))
  | cons t a =>
    cases b with
    | nil => simp
    | cons s b =>
      have := ext_union_gap (a := t :: a) (m := []) (b := s :: b) (by simpa using h) (by simp) (by simp)
      simpa using this

theorem union_null_ext {a : List Token} (h : TokOK a) : Span.union .null (ext a) = ext a := by
  have := ext_union (a := []) (b := a) (by simpa using h)
  simpa using this

/-! ### `Span.unions` and `sliceSpan` -/

theorem foldl_union_filter (ss : List Span) : ∀ (u : Span),
    (ss.filter Span.isValid).foldl Span.union u = ss.foldl Span.union u := by
  induction ss with
  | nil => intro u; rfl
  | cons s ss ih =>
    intro u
    rw [List.filter_cons]
    cases hs : s.isValid
    · simp only [Bool.false_eq_true, if_false, List.foldl_cons, union_invalid_right hs]
      exact ih u
    · simp only [if_true, List.foldl_cons]
      exact ih _

/-- `nodeSliceSpan` is the plain union: invalid spans do not contribute anyway -/
theorem sliceSpan_eq_unions (ss : List Span) : sliceSpan ss = Span.unions ss :=
  foldl_union_filter ss _

theorem foldl_union_eq (ss : List Span) : ∀ (u : Span),
    ss.foldl Span.union u = Span.union u (Span.unions ss) := by
  induction ss with
  | nil => intro u; simp [Span.unions]
  | cons s ss ih =>
    intro u
    simp only [Span.unions, List.foldl_cons]
    rw [ih (Span.union u s), ih (Span.union Span.null s), ← union_assoc, ← union_assoc, union_null_right]

theorem unions_cons (s : Span) (ss : List Span) :
    Span.unions (s :: ss) = Span.union (Span.union .null s) (Span.unions ss) := by
  simp only [Span.unions, List.foldl_cons]
  exact foldl_union_eq ss _

theorem unions_cons_ext {a : List Token} (h : TokOK a) (ss : List Span) :
    Span.unions (ext a :: ss) = Span.union (ext a) (Span.unions ss) := by
  rw [unions_cons, union_null_ext h]

theorem foldl_union_ext : ∀ (segs : List (List Token)) (acc : List Token), TokOK (acc ++ segs.flatten) →
    (segs.map ext).foldl Span.union (ext acc) = ext (acc ++ segs.flatten) := by
  intro segs
  induction segs with
  | nil => intro acc _; simp
  | cons s segs ih =>
    intro acc h
    rw [List.flatten_cons, ← List.append_assoc] at h ⊢
    rw [List.map_cons, List.foldl_cons, ext_union h.left]
    exact ih _ h

/-- the union of the extents of consecutive segments is the extent of the whole -/
theorem unions_ext (segs : List (List Token)) (h : TokOK segs.flatten) :
    Span.unions (segs.map ext) = ext segs.flatten := by
  have := foldl_union_ext segs [] (by simpa using h)
  simpa [Span.unions] using this

/-- … also when tokens not covered by any span (`m`) lie between two non-empty parts -/
theorem unions_ext_gap (segs1 : List (List Token)) (m s : List Token) (segs2 : List (List Token))
    (h : TokOK (segs1.flatten ++ m ++ s ++ segs2.flatten)) (h1 : segs1.flatten ≠ []) (hs : s ≠ []) :
    Span.unions (segs1.map ext ++ ext s :: segs2.map ext) = ext (segs1.flatten ++ m ++ s ++ segs2.flatten) := by
  unfold Span.unions
  rw [List.foldl_append, List.foldl_cons]
  have e1 : (segs1.map ext).foldl Span.union Span.null = ext segs1.flatten :=
    unions_ext segs1 h.left.left.left
  rw [e1, ext_union_gap h.left h1 hs]
  exact foldl_union_ext segs2 _ h

/-- a list element, a separator token, and the rest of the list -/
theorem unions_cons_gap {ta tb : List Token} {tc : Token} {ss : List Span} (h : TokOK (ta ++ tc :: tb))
    (ha : ta ≠ []) (hb : tb ≠ []) (hss : Span.unions ss = ext tb) :
    Span.unions (ext ta :: ss) = ext (ta ++ tc :: tb) := by
  rw [unions_cons_ext h.left, hss]
  have := ext_union_gap (a := ta) (m := [tc]) (b := tb) (by simpa using h) ha hb
  simpa using this

end Pql
