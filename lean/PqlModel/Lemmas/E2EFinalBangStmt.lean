/-
The operator `!=`, part 3 (a port of Lemmas/LexStmtSemiStmt.lean from `;` to `!`): the chunk list of
a compiled program is `!`-free.  No hypothesis on the program (only: no parameters).  Hence
(`program_toks_no_bang`) its token list contains no `!=` symbol.
-/
import PqlModel.Lemmas.E2EFinalBangExpr
namespace Pql.E2EFinal
open Pql Sql LexRender Pql.C05

theorem BF_commaList : ∀ (cs : List (List Chunk)), (∀ c ∈ cs, BF c = true) →
    BF (cs.flatMap fun c => Chunk.txt ", " :: c) = true
  | [], _ => rfl
  | c :: cs, h => by
    have h1 := h c List.mem_cons_self
    have h2 := BF_commaList cs (fun x hx => h x (List.mem_cons_of_mem _ hx))
    simp only [List.flatMap_cons]
    bf_close

theorem BF_renderProps : ∀ (props : List RenderProp),
    BF (props.flatMap fun p =>
      [Chunk.txt ",\n    ", .qstr (renderPropValue p.value), .txt " as ",
       .qid (Bytes.ofString "render_prop_" ++ identName p.name)]) = true
  | [] => rfl
  | p :: ps => by
    have ih := BF_renderProps ps
    have h1 : ∀ v, bangFree (.qstr v) = true := fun _ => rfl
    have h2 : ∀ v, bangFree (.qid v) = true := fun _ => rfl
    simp only [List.flatMap_cons]
    bf_close

theorem BF_commaSep (vs : List (List Chunk)) (h : ∀ v ∈ vs, BF v = true) : BF (sepChunks ", " vs) = true :=
  BF_sepChunks (by decide) vs h

section
variable (ctx : Ctx) (hscope : ScopeBF ctx.scope)
include hscope

theorem projCol_bf {c : Column} {cs : List Chunk} (h : projCol ctx c = .ok cs) : BF cs = true := by
  unfold projCol at h
  have h2 : ∀ v, bangFree (.qid v) = true := fun _ => rfl
  split at h
  · obtain ⟨x, hx, h⟩ := bind_ok h
    cases h
    have := writeExpr_bf ctx hscope _ _ hx
    bf_close
  · obtain ⟨x, hx, h⟩ := bind_ok h
    cases h
    have := writeExpr_bf ctx hscope _ _ hx
    bf_close

omit hscope in
theorem columnAlias_bf {c : Column} {a : List Chunk} (h : columnAlias ctx c = .ok a) : BF a = true := by
  unfold columnAlias at h
  split at h
  · cases h; rfl
  · obtain ⟨t, _, h⟩ := bind_ok h
    cases h; rfl

theorem writeColumns_bf : ∀ (cols : List Column) (cs : List (List Chunk)),
    writeColumns ctx cols = .ok cs → ∀ c ∈ cs, BF c = true
  | [], cs, h => by
    rw [writeColumns] at h; cases h; simp
  | c :: cols, cs, h => by
    rw [writeColumns] at h
    obtain ⟨x, hx, h⟩ := bind_ok h
    obtain ⟨a, ha, h⟩ := bind_ok h
    obtain ⟨r, hr, h⟩ := bind_ok h
    cases h
    intro y hy
    rcases List.mem_cons.mp hy with rfl | hy
    · rw [BF_append, writeExpr_bf ctx hscope _ _ hx, columnAlias_bf ctx ha]; rfl
    · exact writeColumns_bf cols r hr y hy

theorem writeSortTerms_bf : ∀ (ts : List SortTerm) (cs : List (List Chunk)),
    writeSortTerms ctx ts = .ok cs → ∀ c ∈ cs, BF c = true
  | [], cs, h => by
    rw [writeSortTerms] at h; cases h; simp
  | t :: ts, cs, h => by
    rw [writeSortTerms] at h
    obtain ⟨x, hx, h⟩ := bind_ok h
    obtain ⟨r, hr, h⟩ := bind_ok h
    cases h
    intro y hy
    rcases List.mem_cons.mp hy with rfl | hy
    · rw [BF_append, writeExpr_bf ctx hscope _ _ hx]
      cases t.asc <;> cases t.nullsFirst <;> decide
    · exact writeSortTerms_bf ts r hr y hy

theorem bodyOf_bf (op : Option Op) {source : List Chunk} (hs : BF source = true) {body : List Chunk}
    (h : bodyOf ctx op source = .ok (some body)) : BF body = true := by
  rcases op with _ | o
  · simp only [bodyOf] at h; cases h; bf_close
  cases o with
  | as_ p k n => simp only [bodyOf] at h; cases h; bf_close
  | count p k => simp only [bodyOf] at h; cases h; bf_close
  | project p k cols =>
    simp only [bodyOf] at h
    obtain ⟨cs, hcs, h⟩ := bind_ok h
    cases h
    have hg := BF_commaSep cs (mapM_forall cols (fun c _ b hb => projCol_bf ctx hscope hb) cs hcs)
    bf_close
  | extend p k cols =>
    simp only [bodyOf] at h
    obtain ⟨cs, hcs, h⟩ := bind_ok h
    cases h
    have hg := BF_commaList cs (writeColumns_bf ctx hscope cols cs hcs)
    bf_close
  | summarize p k cols b groupBy =>
    simp only [bodyOf] at h
    obtain ⟨gs, hgs, h⟩ := bind_ok h
    obtain ⟨cs, hcs, h⟩ := bind_ok h
    obtain ⟨gb, hgb, h⟩ := bind_ok h
    cases h
    have hg1 := writeColumns_bf ctx hscope groupBy gs hgs
    have hg2 := writeColumns_bf ctx hscope cols cs hcs
    have hg3 := BF_commaSep gb (mapM_forall groupBy (fun c _ b hb => writeExpr_bf ctx hscope _ b hb) gb hgb)
    have hall := BF_commaSep (gs ++ cs) (by
      intro v hv
      rcases List.mem_append.mp hv with hv | hv
      · exact hg1 v hv
      · exact hg2 v hv)
    split <;> bf_close
  | where_ p k pred =>
    simp only [bodyOf] at h
    obtain ⟨ps, hps, h⟩ := bind_ok h
    cases h
    have := writeExpr_bf ctx hscope _ _ hps
    bf_close
  | render p k chart w lp props rp =>
    simp only [bodyOf] at h; cases h
    have := BF_renderProps props
    have h1 : ∀ v, bangFree (.qstr v) = true := fun _ => rfl
    bf_close
  | sort p k ts => simp only [bodyOf] at h; cases h
  | take p k n => simp only [bodyOf] at h; cases h
  | top p k n b c => simp only [bodyOf] at h; cases h
  | join p k kind ka fl lp right rp on conds => simp only [bodyOf] at h; cases h

theorem tailOf_bf {sort : Option (List SortTerm)} {take : Option Expr}
    {body : Option (List Chunk)} (hb : ∀ b, body = some b → BF b = true) {cs : List Chunk}
    (h : tailOf ctx sort take body = .ok cs) : BF cs = true := by
  rcases body with _ | b
  · simp only [tailOf] at h; cases h; decide
  have hb' := hb b rfl
  rcases sort with _ | ts <;> rcases take with _ | n <;> simp only [tailOf, pure_bind] at h
  · cases h; bf_close
  · obtain ⟨x, hx, h⟩ := bind_ok h
    cases h
    have := writeExpr_bf ctx hscope _ _ hx
    bf_close
  · obtain ⟨xs, hxs, h⟩ := bind_ok h
    cases h
    have := BF_commaSep xs (writeSortTerms_bf ctx hscope ts xs hxs)
    bf_close
  · obtain ⟨xs, hxs, h⟩ := bind_ok h
    obtain ⟨x, hx, h⟩ := bind_ok h
    cases h
    have := BF_commaSep xs (writeSortTerms_bf ctx hscope ts xs hxs)
    have := writeExpr_bf ctx hscope _ _ hx
    bf_close

theorem write_bf {sub : Subquery} (hsub : BF sub.source = true) {cs : List Chunk} (h : sub.write ctx = .ok cs) :
    BF cs = true := by
  rw [write_eq] at h
  obtain ⟨body, hbody, h⟩ := bind_ok h
  refine tailOf_bf ctx hscope ?_ h
  intro b hb
  subst hb
  exact bodyOf_bf ctx hscope sub.op hsub hbody

theorem writeCtes_bf : ∀ (l : List Subquery), (∀ s ∈ l, BF s.source = true) → ∀ cs, writeCtes ctx l = .ok cs →
    BF cs = true
  | [], _, cs, h => by
    simp only [writeCtes] at h; cases h; rfl
  | [s], hl, cs, h => by
    simp only [writeCtes] at h
    obtain ⟨b, hb, h⟩ := bind_ok h
    cases h
    have hg := write_bf ctx hscope (hl s (by simp)) hb
    have h2 : ∀ v, bangFree (.qid v) = true := fun _ => rfl
    bf_close
  | s :: s2 :: l, hl, cs, h => by
    simp only [writeCtes] at h
    obtain ⟨b, hb, h⟩ := bind_ok h
    obtain ⟨r, hr, h⟩ := bind_ok h
    cases h
    have hg := write_bf ctx hscope (hl s (by simp)) hb
    have ih := writeCtes_bf (s2 :: l) (fun x hx => hl x (List.mem_cons_of_mem _ hx)) r hr
    have h2 : ∀ v, bangFree (.qid v) = true := fun _ => rfl
    bf_close

end

/-! ### `splitQueries`: every source is `!`-free -/

def SrcBF (s : Subquery) : Prop := BF s.source = true

theorem chain_srcBF (dst : List Subquery) (k : Nat) (source : Option Ident) :
    SrcBF (chainSubquery dst k source) := by
  unfold SrcBF chainSubquery
  dsimp only
  split
  · split <;> rfl
  · rfl

theorem attach_srcBF {dst : List Subquery} (hd : ∀ s ∈ dst, SrcBF s) (attach : Bool) (k : Nat)
    (source : Option Ident) {f : Subquery → Subquery} (hf : ∀ s, (f s).source = s.source) :
    ∀ s ∈ setLast (if attach = true then dst else dst ++ [chainSubquery dst k source]) f, SrcBF s := by
  refine setLast_forall ?_ (fun s hs => by unfold SrcBF; rw [hf s]; exact hs)
  split
  · exact hd
  · exact forall_snoc hd (chain_srcBF ..)

theorem joinSource_bf (unique : Bool) {leftSrc cond : List Chunk} (hl : BF leftSrc = true) (hc : BF cond = true)
    {kw : String} (hkw : kw = " JOIN " ∨ kw = " LEFT JOIN ") (rightName : Bytes) :
    BF ((if unique = true then [Chunk.txt "(SELECT DISTINCT * FROM "] else []) ++ leftSrc ++
      (if unique = true then [Chunk.txt ")"] else []) ++
      [.txt (" AS \"" ++ Facts.leftJoinTableAlias ++ "\""), .txt kw, .qid rightName,
       .txt (" AS \"" ++ Facts.rightJoinTableAlias ++ "\" ON ")] ++ cond) = true := by
  have h2 : ∀ v, bangFree (.qid v) = true := fun _ => rfl
  have hk : bangFree (.txt kw) = true := by rcases hkw with rfl | rfl <;> decide
  cases unique <;> bf_close

mutual
theorem splitQueries_srcBF (src : Bytes) (scope : List (Bytes × List Chunk)) (hsc : ScopeBF scope) :
    ∀ (t : Tabular) (dst out : List Subquery), (∀ s ∈ dst, SrcBF s) →
      splitQueries src scope dst t = .ok out → ∀ s ∈ out, SrcBF s
  | .nil, dst, out, _, h => by rw [splitQueries] at h; cases h
  | .mk source ops, dst, out, hd, h => by
    rw [splitQueries] at h
    obtain ⟨dst1, h1, h⟩ := bind_ok h
    have ih := splitOps_srcBF src scope hsc ops source dst.length dst dst1 hd h1
    split at h
    · cases h; exact forall_snoc ih (chain_srcBF ..)
    · cases h; exact ih
theorem splitOps_srcBF (src : Bytes) (scope : List (Bytes × List Chunk)) (hsc : ScopeBF scope) :
    ∀ (ops : OpList) (source : Option Ident) (dstStart : Nat) (dst out : List Subquery),
      (∀ s ∈ dst, SrcBF s) →
      splitOps src scope source dstStart dst ops = .ok out → ∀ s ∈ out, SrcBF s
  | .nil, source, dstStart, dst, out, hd, h => by
    rw [splitOps] at h; cases h; exact hd
  | .cons (.count p k) rest, source, dstStart, dst, out, hd, h => by
    simp only [splitOps] at h
    refine splitOps_srcBF src scope hsc rest source dstStart _ out (forall_snoc hd ?_) h
    exact chain_srcBF dst dstStart source
  | .cons (.where_ p k e) rest, source, dstStart, dst, out, hd, h => by
    simp only [splitOps] at h
    refine splitOps_srcBF src scope hsc rest source dstStart _ out (forall_snoc hd ?_) h
    exact chain_srcBF dst dstStart source
  | .cons (.project p k cs) rest, source, dstStart, dst, out, hd, h => by
    simp only [splitOps] at h
    refine splitOps_srcBF src scope hsc rest source dstStart _ out (forall_snoc hd ?_) h
    exact chain_srcBF dst dstStart source
  | .cons (.extend p k cs) rest, source, dstStart, dst, out, hd, h => by
    simp only [splitOps] at h
    refine splitOps_srcBF src scope hsc rest source dstStart _ out (forall_snoc hd ?_) h
    exact chain_srcBF dst dstStart source
  | .cons (.summarize p k cs b gs) rest, source, dstStart, dst, out, hd, h => by
    simp only [splitOps] at h
    refine splitOps_srcBF src scope hsc rest source dstStart _ out (forall_snoc hd ?_) h
    exact chain_srcBF dst dstStart source
  | .cons (.render p k ch w lp props rp) rest, source, dstStart, dst, out, hd, h => by
    simp only [splitOps] at h
    refine splitOps_srcBF src scope hsc rest source dstStart _ out (forall_snoc hd ?_) h
    exact chain_srcBF dst dstStart source
  | .cons (.as_ p k n) rest, source, dstStart, dst, out, hd, h => by
    simp only [splitOps] at h
    refine splitOps_srcBF src scope hsc rest source dstStart _ out (forall_snoc hd ?_) h
    exact chain_srcBF dst dstStart source
  | .cons (.sort p k terms) rest, source, dstStart, dst, out, hd, h => by
    simp only [splitOps] at h
    refine splitOps_srcBF src scope hsc rest source dstStart _ out ?_ h
    exact attach_srcBF hd _ dstStart source (fun _ => rfl)
  | .cons (.take p k n) rest, source, dstStart, dst, out, hd, h => by
    simp only [splitOps] at h
    refine splitOps_srcBF src scope hsc rest source dstStart _ out ?_ h
    exact attach_srcBF hd _ dstStart source (fun _ => rfl)
  | .cons (.top p k n b none) rest, source, dstStart, dst, out, hd, h => by
    simp only [splitOps] at h; cases h
  | .cons (.top p k n b (some c)) rest, source, dstStart, dst, out, hd, h => by
    simp only [splitOps] at h
    refine splitOps_srcBF src scope hsc rest source dstStart _ out ?_ h
    exact attach_srcBF hd _ dstStart source (fun _ => rfl)
  | .cons (.join p k kind ka fl lp right rp on conds) rest, source, dstStart, dst, out, hd, h => by
    simp only [splitOps] at h
    obtain ⟨dst1, h1, h⟩ := bind_ok h
    have ihr := splitQueries_srcBF src scope hsc right dst dst1 hd h1
    split at h
    · cases h
    · rename_i kw hkw
      obtain ⟨cond, hc, h⟩ := bind_ok h
      have hcond := writeExpr_bf ⟨src, scope, .join⟩ hsc _ _ hc
      refine splitOps_srcBF src scope hsc rest source dstStart _ out (forall_snoc ihr ?_) h
      refine joinSource_bf _ ?_ hcond (joinKw_cases hkw) _
      split
      · split <;> rfl
      · rfl
end

/-! ### the statement loop and the assembly -/

theorem compileStmts_bf (src : Bytes) :
    ∀ (stmts : List Stmt) (scope : List (Bytes × List Chunk)) (q : Option Tabular)
      (scope' : List (Bytes × List Chunk)) (q' : Option Tabular),
      ScopeBF scope → compileStmts src stmts scope q = .ok (scope', q') → ScopeBF scope'
  | [], scope, q, scope', q', hs, h => by
    rw [compileStmts] at h; cases h; exact hs
  | .tabular t :: rest, scope, q, scope', q', hs, h => by
    cases q with
    | some t0 => simp only [compileStmts] at h; cases h
    | none =>
      simp only [compileStmts] at h
      exact compileStmts_bf src rest scope (some t) scope' q' hs h
  | .let_ kw name asg x :: rest, scope, q, scope', q', hs, h => by
    cases q with
    | some t0 =>
      simp only [compileStmts] at h
      exact compileStmts_bf src rest scope (some t0) scope' q' hs h
    | none =>
      simp only [compileStmts] at h
      split at h
      · cases h
      · rename_i sql hsql
        obtain ⟨body, hbody, rfl⟩ := map_ok hsql
        split at h
        · cases h
        · rename_i n
          refine compileStmts_bf src rest _ none scope' q' ?_ h
          intro p hp
          rcases List.mem_cons.mp hp with rfl | hp
          · rw [BF_wrapTight]; exact writeExpr_bf ⟨src, scope, .let_⟩ hs x body hbody
          · exact hs p hp

theorem finish_bf (src : Bytes) (scope : List (Bytes × List Chunk)) (hsc : ScopeBF scope) (t : Tabular)
    (cs : List Chunk) (hc : C14.finishChunks src scope (some t) = .ok cs) :
    ∃ init, cs = init ++ [Chunk.txt ";"] ∧ BF init = true := by
  simp only [C14.finishChunks] at hc
  obtain ⟨subs, hs, hc⟩ := bind_ok hc
  have hall := splitQueries_srcBF src scope hsc t [] subs (by simp) hs
  split at hc
  · cases hc
  · rename_i query ctesRev hrev
    have hmem : ∀ s ∈ query :: ctesRev, SrcBF s := by
      intro s h; rw [← hrev] at h; exact hall s (List.mem_reverse.mp h)
    have hq := hmem query List.mem_cons_self
    split at hc
    · obtain ⟨wp, hwp, hc⟩ := bind_ok hc
      obtain ⟨body, hb, hc⟩ := bind_ok hc
      cases hwp; cases hc
      refine ⟨_, rfl, ?_⟩
      have := write_bf ⟨src, scope, .default⟩ hsc hq hb
      bf_close
    · obtain ⟨c, hcte, hc⟩ := bind_ok hc
      obtain ⟨wp, hwp, hc⟩ := bind_ok hc
      obtain ⟨body, hb, hc⟩ := bind_ok hc
      cases hwp; cases hc
      refine ⟨_, rfl, ?_⟩
      have := write_bf ⟨src, scope, .default⟩ hsc hq hb
      have := writeCtes_bf ⟨src, scope, .default⟩ hsc ctesRev.reverse
        (fun s h => hmem s (List.mem_cons_of_mem _ (List.mem_reverse.mp h))) c hcte
      bf_close

/-- the chunks of a program compiled from a `!`-free initial scope are a `!`-free list followed by
    the one `.txt ";"` -/
theorem program_bf_from (src : Bytes) (scope0 : List (Bytes × List Chunk)) (hs0 : ScopeBF scope0)
    (stmts : List Stmt) (cs : List Chunk)
    (hc : (compileStmts src stmts scope0 none >>= fun r => C14.finishChunks src r.1 r.2) = .ok cs) :
    ∃ init, cs = init ++ [Chunk.txt ";"] ∧ BF init = true := by
  obtain ⟨⟨scope, q⟩, hx, hc⟩ := bind_ok hc
  have hsc := compileStmts_bf src stmts scope0 none scope q hs0 hx
  dsimp only at hc
  cases q with
  | none => simp only [C14.finishChunks] at hc; cases hc
  | some t => exact finish_bf src scope hsc t cs hc

/-- the same without parameters; no hypothesis on the program -/
theorem program_bf (src : Bytes) (stmts : List Stmt) (cs : List Chunk)
    (hc : compileChunks src [] stmts = .ok cs) : ∃ init, cs = init ++ [Chunk.txt ";"] ∧ BF init = true := by
  rw [C14.compileChunks_eq] at hc
  exact program_bf_from src [] scopeBF_nil stmts cs hc

/-- the whole chunk list of a compiled program (no parameters) is `!`-free -/
theorem program_BF (src : Bytes) (stmts : List Stmt) (cs : List Chunk)
    (hc : compileChunks src [] stmts = .ok cs) : BF cs = true := by
  obtain ⟨init, rfl, h⟩ := program_bf src stmts cs hc
  rw [BF_append, h]; decide

/-- **(T) the compiler never writes `!=`**: the token list of the chunks of a compiled program
    (no parameters; `stmtsLexOK` = the side condition under which the emitted text lexes to
    `toksOf cs` at all) contains no `!=` symbol token -/
theorem program_toks_no_bang (src : Bytes) (stmts : List Stmt) (cs : List Chunk)
    (hok : stmtsLexOK stmts = true) (hc : compileChunks src [] stmts = .ok cs) :
    STok.sym "!=" ∉ toksOf cs :=
  toksOf_no_bang (program_adj src stmts cs hok hc) (program_BF src stmts cs hc)

end Pql.E2EFinal
